/-
Helper lemmas about the set-once rule engine of `FdtdxModel/C26.lean` (atoms, groups, one pass).
Everything here is independent of the scalar type and of how constraints are compiled into atoms.
-/
import FdtdxModel.C26
import Mathlib.Tactic.Common

namespace Fdtdx.C26

/-- `σ ≤ τ`: every value known in `σ` is known, with the same value, in `τ` -/
def St.le (σ τ : St) : Prop := ∀ v x, σ v = some x → τ v = some x

theorem St.le_refl (σ : St) : σ.le σ := fun _ _ h => h

theorem St.le_trans {a b c : St} (h1 : a.le b) (h2 : b.le c) : a.le c :=
  fun v x h => h2 v x (h1 v x h)

theorem St.le_antisymm {a b : St} (h1 : a.le b) (h2 : b.le a) : a = b := by
  funext v
  cases ha : a v with
  | some x => exact (h1 v x ha).symm
  | none =>
    cases hb : b v with
    | none => rfl
    | some y => have := h2 v y hb; rw [ha] at this; cases this

theorem St.le_set {σ : St} {v : Var} (x : Int) (h : σ v = none) : σ.le (σ.set v (some x)) := by
  intro w y hw
  unfold St.set
  by_cases e : w = v
  · subst e; rw [h] at hw; cases hw
  · simp [e, hw]

theorem St.set_le {σ τ : St} {v : Var} {x : Int} (h : σ.le τ) (hv : τ v = some x) :
    (σ.set v (some x)).le τ := by
  intro w y hw
  unfold St.set at hw
  by_cases e : w = v
  · subst e; simp at hw; subst hw; exact hv
  · simp [e] at hw; exact h w y hw

/-! ### premises -/

theorem premVals_mono {σ τ : St} (h : σ.le τ) : ∀ (ps : List Var) (vs : List Int),
    premVals σ ps = some vs → premVals τ ps = some vs
  | [], vs, hv => by simpa [premVals] using hv
  | p :: ps, vs, hv => by
    unfold premVals at hv ⊢
    cases hp : σ p with
    | none => simp [hp] at hv
    | some x =>
      cases hr : premVals σ ps with
      | none => simp [hp, hr] at hv
      | some xs =>
        simp [hp, hr] at hv
        subst hv
        simp [h p x hp, premVals_mono h ps xs hr]

theorem premVals_known {σ : St} : ∀ (ps : List Var), (∀ v ∈ ps, ∃ x, σ v = some x) →
    ∃ vs, premVals σ ps = some vs
  | [], _ => ⟨[], rfl⟩
  | p :: ps, h => by
    obtain ⟨x, hx⟩ := h p (by simp)
    obtain ⟨xs, hxs⟩ := premVals_known ps (fun v hv => h v (by simp [hv]))
    exact ⟨x :: xs, by simp [premVals, hx, hxs]⟩

theorem premVals_some_known {σ : St} : ∀ (ps : List Var) (vs : List Int), premVals σ ps = some vs →
    ∀ v ∈ ps, ∃ x, σ v = some x
  | [], _, _ => by simp
  | p :: ps, vs, hv => by
    unfold premVals at hv
    cases hp : σ p with
    | none => simp [hp] at hv
    | some x =>
      cases hr : premVals σ ps with
      | none => simp [hp, hr] at hv
      | some xs =>
        intro v hvm
        rcases List.mem_cons.1 hvm with e | e
        · subst e; exact ⟨x, hp⟩
        · exact premVals_some_known ps xs hr v e

/-! ### one atom -/

/-- the rule is verified on `τ`: premises known, `f` defined, target equal to it -/
def Verified (a : Atom) (τ : St) : Prop :=
  ∃ vs x, premVals τ a.prem = some vs ∧ a.f vs = some x ∧ τ a.target = some x

/-- nothing to do and nothing wrong on `τ` -/
def Stable (a : Atom) (τ : St) : Prop := a.eval τ = .skip ∨ a.eval τ = .same

/-- a `strict` atom is only evaluated once its premises are known -/
def StrictReady (a : Atom) (σ : St) : Prop := a.strict = true → ∀ v ∈ a.prem, ∃ x, σ v = some x

theorem eval_same_iff (a : Atom) (τ : St) : a.eval τ = .same ↔ Verified a τ := by
  unfold Atom.eval Verified
  constructor
  · intro h
    cases hp : premVals τ a.prem with
    | none => simp [hp] at h; split at h <;> cases h
    | some vs =>
      cases hf : a.f vs with
      | none => simp [hp, hf] at h
      | some x =>
        cases ht : τ a.target with
        | none => simp [hp, hf, ht] at h
        | some y =>
          simp [hp, hf, ht] at h
          exact ⟨vs, x, rfl, hf, by rw [h]⟩
  · rintro ⟨vs, x, hp, hf, ht⟩
    simp [hp, hf, ht]

theorem eval_set_iff (a : Atom) (σ : St) (x : Int) : a.eval σ = .set x ↔
    ∃ vs, premVals σ a.prem = some vs ∧ a.f vs = some x ∧ σ a.target = none := by
  unfold Atom.eval
  constructor
  · intro h
    cases hp : premVals σ a.prem with
    | none => simp [hp] at h; split at h <;> cases h
    | some vs =>
      cases hf : a.f vs with
      | none => simp [hp, hf] at h
      | some y =>
        cases ht : σ a.target with
        | none => simp [hp, hf, ht] at h; subst h; exact ⟨vs, rfl, hf, rfl⟩
        | some z => simp [hp, hf, ht] at h; split at h <;> cases h
  · rintro ⟨vs, hp, hf, ht⟩
    simp [hp, hf, ht]

theorem stable_verified_of_known {a : Atom} {τ : St} (hs : Stable a τ)
    (hk : ∀ v ∈ a.prem, ∃ x, τ v = some x) : Verified a τ := by
  rcases hs with h | h
  · exfalso
    obtain ⟨vs, hvs⟩ := premVals_known a.prem hk
    unfold Atom.eval at h
    simp [hvs] at h
    cases hf : a.f vs with
    | none => simp [hf] at h
    | some x =>
      cases ht : τ a.target with
      | none => simp [hf, ht] at h
      | some y => simp [hf, ht] at h; split at h <;> cases h
  · exact (eval_same_iff a τ).1 h

/-- the key step: below a state on which the rule is stable, the rule can only skip, agree, or assign
the value that state has -/
theorem eval_of_le {a : Atom} {σ τ : St} (h : σ.le τ) (hs : Stable a τ) (hr : StrictReady a σ) :
    a.eval σ = .skip ∨ a.eval σ = .same ∨ ∃ x, a.eval σ = .set x ∧ τ a.target = some x := by
  cases hp : premVals σ a.prem with
  | none =>
    by_cases hst : a.strict = true
    · exfalso
      obtain ⟨vs, hvs⟩ := premVals_known a.prem (hr hst)
      rw [hp] at hvs; cases hvs
    · left; unfold Atom.eval; simp [hp, hst]
  | some vs =>
    have hpτ := premVals_mono h a.prem vs hp
    have hv : Verified a τ := stable_verified_of_known hs (premVals_some_known a.prem vs hpτ)
    obtain ⟨vs', x, hp', hf, ht⟩ := hv
    rw [hpτ] at hp'; cases hp'
    cases hσt : σ a.target with
    | none => right; right; exact ⟨x, (eval_set_iff a σ x).2 ⟨vs, hp, hf, hσt⟩, ht⟩
    | some y =>
      have := h _ _ hσt
      rw [ht] at this; cases this
      right; left
      exact (eval_same_iff a σ).2 ⟨vs, x, hp, hf, hσt⟩

theorem StrictReady.mono {a : Atom} {σ σ' : St} (h : σ.le σ') (hr : StrictReady a σ) : StrictReady a σ' :=
  fun hs v hv => let ⟨x, hx⟩ := hr hs v hv; ⟨x, h v x hx⟩

/-! ### one group -/

theorem runGroup_mono (c : Bool) : ∀ (as : List Atom) (σ : St) (chg : Bool) {σ' : St} {c' e' : Bool},
    runGroup c as σ chg = .ok σ' c' e' → σ.le σ'
  | [], σ, chg, σ', c', e', h => by
    simp [runGroup] at h; rw [h.1]; exact St.le_refl _
  | a :: as, σ, chg, σ', c', e', h => by
    unfold runGroup at h
    split at h
    · exact runGroup_mono c as σ chg h
    · exact runGroup_mono c as σ chg h
    · rename_i x hx
      obtain ⟨vs, _, _, ht⟩ := (eval_set_iff a σ x).1 hx
      exact St.le_trans (St.le_set x ht) (runGroup_mono c as _ true h)
    · split at h
      · simp at h; rw [h.1]; exact St.le_refl _
      · split at h
        · rename_i σ'' c'' _ hr
          simp at h; rw [← h.1]; exact runGroup_mono c as σ chg hr
        · cases h
    · split at h
      · simp at h; rw [h.1]; exact St.le_refl _
      · cases h

/-- every assignment a group makes is forced by any state above on which its atoms are stable -/
theorem runGroup_le (c : Bool) {τ : St} : ∀ (as : List Atom) (σ : St) (chg : Bool) {σ' : St} {c' e' : Bool},
    (∀ a ∈ as, Stable a τ) → σ.le τ → runGroup c as σ chg = .ok σ' c' e' → σ'.le τ
  | [], σ, chg, σ', c', e', _, hle, h => by
    simp [runGroup] at h; rw [← h.1]; exact hle
  | a :: as, σ, chg, σ', c', e', hst, hle, h => by
    have hst' : ∀ b ∈ as, Stable b τ := fun b hb => hst b (by simp [hb])
    unfold runGroup at h
    split at h
    · exact runGroup_le c as σ chg hst' hle h
    · exact runGroup_le c as σ chg hst' hle h
    · rename_i x hx
      obtain ⟨vs, hp, hf, ht⟩ := (eval_set_iff a σ x).1 hx
      have hpτ := premVals_mono hle a.prem vs hp
      obtain ⟨vs', y, hp', hf', hty⟩ :=
        stable_verified_of_known (hst a (by simp)) (premVals_some_known a.prem vs hpτ)
      rw [hpτ] at hp'; cases hp'
      rw [hf] at hf'; cases hf'
      exact runGroup_le c as _ true hst' (St.set_le hle hty) h
    · split at h
      · simp at h; rw [← h.1]; exact hle
      · split at h
        · rename_i σ'' c'' _ hr
          simp at h; rw [← h.1]; exact runGroup_le c as σ chg hst' hle hr
        · cases h
    · split at h
      · simp at h; rw [← h.1]; exact hle
      · cases h

/-- below a stable state a group neither errs nor crashes -/
theorem runGroup_ok (c : Bool) {τ : St} : ∀ (as : List Atom) (σ : St) (chg : Bool),
    (∀ a ∈ as, Stable a τ) → (∀ a ∈ as, StrictReady a σ) → σ.le τ →
    ∃ σ' c', runGroup c as σ chg = .ok σ' c' false
  | [], σ, chg, _, _, _ => ⟨σ, chg, rfl⟩
  | a :: as, σ, chg, hst, hr, hle => by
    have hst' : ∀ b ∈ as, Stable b τ := fun b hb => hst b (by simp [hb])
    have hr' : ∀ b ∈ as, StrictReady b σ := fun b hb => hr b (by simp [hb])
    rcases eval_of_le hle (hst a (by simp)) (hr a (by simp)) with h | h | ⟨x, h, hτ⟩
    · obtain ⟨σ', c', hh⟩ := runGroup_ok c as σ chg hst' hr' hle
      exact ⟨σ', c', by rw [runGroup, h]; exact hh⟩
    · obtain ⟨σ', c', hh⟩ := runGroup_ok c as σ chg hst' hr' hle
      exact ⟨σ', c', by rw [runGroup, h]; exact hh⟩
    · obtain ⟨vs, _, _, ht⟩ := (eval_set_iff a σ x).1 h
      have hle2 : (σ.set a.target (some x)).le τ := St.set_le hle hτ
      have hr2 : ∀ b ∈ as, StrictReady b (σ.set a.target (some x)) :=
        fun b hb => (hr' b hb).mono (St.le_set x ht)
      obtain ⟨σ', c', hh⟩ := runGroup_ok c as _ true hst' hr2 hle2
      exact ⟨σ', c', by rw [runGroup, h]; exact hh⟩

/-- a group that reports neither a change nor an error did nothing, and all its atoms are stable -/
theorem runGroup_quiet (c : Bool) : ∀ (as : List Atom) (σ : St) {σ' : St},
    runGroup c as σ false = .ok σ' false false → σ' = σ ∧ ∀ a ∈ as, Stable a σ
  | [], σ, σ', h => by simp [runGroup] at h; exact ⟨h.symm, by simp⟩
  | a :: as, σ, σ', h => by
    unfold runGroup at h
    split at h
    · rename_i he
      obtain ⟨h1, h2⟩ := runGroup_quiet c as σ h
      exact ⟨h1, fun b hb => by
        rcases List.mem_cons.1 hb with e | e
        · subst e; exact Or.inl he
        · exact h2 b e⟩
    · rename_i he
      obtain ⟨h1, h2⟩ := runGroup_quiet c as σ h
      exact ⟨h1, fun b hb => by
        rcases List.mem_cons.1 hb with e | e
        · subst e; exact Or.inr he
        · exact h2 b e⟩
    · exfalso
      -- once `chg` is true it stays true unless an error is reported
      have key : ∀ (as : List Atom) (ρ : St) {ρ' : St} {c' : Bool}, runGroup c as ρ true = .ok ρ' c' false → c' = true := by
        intro as
        induction as with
        | nil => intro ρ ρ' c' h; simp [runGroup] at h; exact h.2
        | cons b bs ih =>
          intro ρ ρ' c' h
          unfold runGroup at h
          split at h
          · exact ih ρ h
          · exact ih ρ h
          · exact ih _ h
          · split at h
            · simp at h
            · split at h
              · simp at h
              · cases h
          · split at h
            · simp at h
            · cases h
      have := key as _ h
      cases this
    · split at h
      · simp at h
      · split at h
        · simp at h
        · cases h
    · split at h
      · simp at h
      · cases h

/-! ### one pass -/

def allAtoms (gs : List Group) : List Atom := gs.flatMap (·.atoms)

theorem mem_allAtoms {gs : List Group} {a : Atom} : a ∈ allAtoms gs ↔ ∃ g ∈ gs, a ∈ g.atoms := by
  simp [allAtoms, List.mem_flatMap]

theorem runGroups_mono : ∀ (gs : List Group) (s s' : PS), runGroups gs s = some s' →
    s.σ.le s'.σ ∧ (∃ l, s'.errs = l ++ s.errs) ∧ (s.chg = true → s'.chg = true)
  | [], s, s', h => by
    simp [runGroups] at h; subst h; exact ⟨St.le_refl _, ⟨[], rfl⟩, id⟩
  | g :: gs, s, s', h => by
    unfold runGroups at h
    split at h
    · cases h
    · rename_i σ c e hg
      obtain ⟨h1, ⟨l, h2⟩, h3⟩ := runGroups_mono gs _ s' h
      refine ⟨St.le_trans (runGroup_mono _ _ _ _ hg) h1, ?_, ?_⟩
      · by_cases he : e = true
        · exact ⟨l ++ [g.owner], by simp [h2, he]⟩
        · exact ⟨l, by simp [h2, he]⟩
      · intro hc; apply h3; simp [hc]

theorem runGroups_le {τ : St} : ∀ (gs : List Group) (s s' : PS), (∀ a ∈ allAtoms gs, Stable a τ) →
    s.σ.le τ → runGroups gs s = some s' → s'.σ.le τ
  | [], s, s', _, hle, h => by simp [runGroups] at h; subst h; exact hle
  | g :: gs, s, s', hst, hle, h => by
    unfold runGroups at h
    split at h
    · cases h
    · rename_i σ c e hg
      have h1 : σ.le τ := runGroup_le _ _ _ _ (fun a ha => hst a (mem_allAtoms.2 ⟨g, by simp, ha⟩)) hle hg
      exact runGroups_le gs _ s' (fun a ha => by
        obtain ⟨g', hg', ha'⟩ := mem_allAtoms.1 ha
        exact hst a (mem_allAtoms.2 ⟨g', by simp [hg'], ha'⟩)) h1 h

/-- a pass that reports neither a change nor a new error did nothing, and every atom is stable -/
theorem runGroups_quiet : ∀ (gs : List Group) (σ : St) (e : List Nat) (s' : PS),
    runGroups gs ⟨σ, e, false⟩ = some s' → s'.chg = false → s'.errs.length = e.length →
    s'.σ = σ ∧ ∀ a ∈ allAtoms gs, Stable a σ
  | [], σ, e, s', h, _, _ => by
    simp [runGroups] at h; subst h; exact ⟨rfl, by simp [allAtoms]⟩
  | g :: gs, σ, e, s', h, hc, hl => by
    unfold runGroups at h
    split at h
    · cases h
    · rename_i σ1 c1 e1 hg
      obtain ⟨_, ⟨l, hl2⟩, hc2⟩ := runGroups_mono gs _ s' h
      simp only at hl2 hc2
      have hc1 : c1 = false := by
        cases c1 with
        | false => rfl
        | true => have := hc2 (by simp); rw [hc] at this; cases this
      have he1 : e1 = false := by
        cases e1 with
        | false => rfl
        | true =>
          simp at hl2; rw [hl2] at hl; simp at hl; omega
      subst hc1 he1
      obtain ⟨hσ, hs⟩ := runGroup_quiet _ _ _ hg
      subst hσ
      simp at h
      obtain ⟨h1, h2⟩ := runGroups_quiet gs σ1 e s' h hc hl
      refine ⟨h1, fun a ha => ?_⟩
      obtain ⟨g', hg', ha'⟩ := mem_allAtoms.1 ha
      rcases List.mem_cons.1 hg' with e | e
      · subst e; exact hs a ha'
      · exact h2 a (mem_allAtoms.2 ⟨g', e, ha'⟩)

end Fdtdx.C26
