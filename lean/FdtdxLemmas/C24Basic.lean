/- C24 helper lemmas: array views, window sums, the three separable passes = one box sum. -/
import FdtdxModel.C24
import Mathlib.Tactic.Linarith
import Mathlib.Tactic.Ring

namespace Fdtdx.C24

theorem row_getD {α : Type} (n : Nat) (f : Nat → α) (d : α) (i : Nat) :
    (row n f).getD i d = if i < n then f i else d := by
  unfold row
  by_cases h : i < n <;> simp [Array.getD, h]

theorem look_tab {α : Type} (dflt : α) (d : Dims) (f : Nat → Nat → Nat → α) (i j k : Nat) :
    look dflt (tab d f) i j k = if inb d i j k = true then f i j k else dflt := by
  unfold look tab inb
  rw [row_getD]
  by_cases hi : i < d.nx
  · simp only [hi, if_true]
    rw [row_getD]
    by_cases hj : j < d.ny
    · simp only [hj, if_true]
      rw [row_getD]
      by_cases hk : k < d.nz <;> simp [hk]
    · simp [hj]
  · simp [hi]

theorem look_oob {α : Type} (dflt : α) (d : Dims) (f : Nat → Nat → Nat → α) (i j k : Nat)
    (h : inb d i j k = false) : look dflt (tab d f) i j k = dflt := by
  rw [look_tab]; simp [h]

/-! ### window sums -/

theorem wsum_zero (k b : Nat) (g : Nat → Nat) (i : Nat) (h : ∀ x, g x = 0) : wsum k b g i = 0 := by
  unfold wsum
  have : (List.range k).map (fun d => if b ≤ i + d then g (i + d - b) else 0) = (List.range k).map (fun _ => 0) := by
    apply List.map_congr_left
    intro d _
    split <;> simp [h]
  rw [this]
  generalize List.range k = l
  induction l with
  | nil => rfl
  | cons a t ih => simpa using ih

theorem wsum_congr (k b : Nat) (g g' : Nat → Nat) (i : Nat) (h : ∀ x, g x = g' x) : wsum k b g i = wsum k b g' i := by
  have : g = g' := funext h
  rw [this]

theorem sum_map_le (l : List Nat) (f : Nat → Nat) (m : Nat) (h : ∀ x ∈ l, f x ≤ m) : (l.map f).sum ≤ l.length * m := by
  induction l with
  | nil => simp
  | cons a t ih =>
    simp only [List.map_cons, List.sum_cons, List.length_cons]
    have h1 := h a (by simp)
    have h2 := ih (fun x hx => h x (by simp [hx]))
    rw [Nat.add_mul]; omega

theorem wsum_le (k b : Nat) (g : Nat → Nat) (i m : Nat) (h : ∀ x, g x ≤ m) : wsum k b g i ≤ k * m := by
  unfold wsum
  have := sum_map_le (List.range k) (fun d => if b ≤ i + d then g (i + d - b) else 0) m
    (by intro x _; split <;> simp [h])
  simpa using this

/-! ### the three passes -/

/-- box sum of a zero-extended image: Σ over the kx × ky × kz window whose low corner is (i - bx, j - by, k - bz) -/
def boxSum (f : Nat → Nat → Nat → Nat) (kx ky kz : Nat) (i j k : Nat) : Nat :=
  wsum kz (reach kz) (fun c => wsum ky (reach ky) (fun jj => wsum kx (reach kx) (fun ii => f ii jj c) i) j) k

theorem look_passX (d : Dims) (kx : Nat) (t : Tab Nat) (i j k : Nat) (hi : i < d.nx)
    (hz : ∀ ii jj kk, inb d ii jj kk = false → look 0 t ii jj kk = 0) :
    look 0 (passX d kx t) i j k = wsum kx (reach kx) (fun ii => look 0 t ii j k) i := by
  unfold passX
  rw [look_tab]
  by_cases h : inb d i j k = true
  · simp [h]
  · simp only [h]
    symm
    apply wsum_zero
    intro x
    apply hz
    simp only [inb, Bool.and_eq_true, decide_eq_true_eq] at h ⊢
    by_contra hc
    simp only [Bool.not_eq_false, Bool.and_eq_true, decide_eq_true_eq] at hc
    exact h ⟨⟨hi, hc.1.2⟩, hc.2⟩

theorem look_passY (d : Dims) (ky : Nat) (t : Tab Nat) (i j k : Nat) (hj : j < d.ny)
    (hz : ∀ ii jj kk, inb d ii jj kk = false → look 0 t ii jj kk = 0) :
    look 0 (passY d ky t) i j k = wsum ky (reach ky) (fun jj => look 0 t i jj k) j := by
  unfold passY
  rw [look_tab]
  by_cases h : inb d i j k = true
  · simp [h]
  · simp only [h]
    symm
    apply wsum_zero
    intro x
    apply hz
    simp only [inb, Bool.and_eq_true, decide_eq_true_eq] at h ⊢
    by_contra hc
    simp only [Bool.not_eq_false, Bool.and_eq_true, decide_eq_true_eq] at hc
    exact h ⟨⟨hc.1.1, hj⟩, hc.2⟩

theorem passX_oob (d : Dims) (kx : Nat) (t : Tab Nat) (i j k : Nat) (h : inb d i j k = false) :
    look 0 (passX d kx t) i j k = 0 := look_oob 0 d _ i j k h
theorem passY_oob (d : Dims) (ky : Nat) (t : Tab Nat) (i j k : Nat) (h : inb d i j k = false) :
    look 0 (passY d ky t) i j k = 0 := look_oob 0 d _ i j k h

/-- the three separable passes compute the box sum of the zero-extended input -/
theorem look_passes (d : Dims) (kx ky kz : Nat) (t : Tab Nat) (i j k : Nat) (hin : inb d i j k = true)
    (hz : ∀ ii jj kk, inb d ii jj kk = false → look 0 t ii jj kk = 0) :
    look 0 (passZ d kz (passY d ky (passX d kx t))) i j k = boxSum (look 0 t) kx ky kz i j k := by
  simp only [inb, Bool.and_eq_true, decide_eq_true_eq] at hin
  unfold passZ boxSum
  rw [look_tab]
  simp only [inb, hin.1.1, hin.1.2, hin.2, decide_true, Bool.and_self, if_true]
  apply wsum_congr
  intro c
  rw [look_passY d ky _ i j c hin.1.2 (passX_oob d kx t)]
  apply wsum_congr
  intro jj
  rw [look_passX d kx t i jj c hin.1.1 hz]

theorem boxSum_le (f : Nat → Nat → Nat → Nat) (kx ky kz i j k : Nat) (h : ∀ a b c, f a b c ≤ 1) :
    boxSum f kx ky kz i j k ≤ kx * ky * kz := by
  unfold boxSum
  have h1 : ∀ jj c, wsum kx (reach kx) (fun ii => f ii jj c) i ≤ kx * 1 := fun jj c => wsum_le _ _ _ _ _ (fun x => h x jj c)
  have h2 : ∀ c, wsum ky (reach ky) (fun jj => wsum kx (reach kx) (fun ii => f ii jj c) i) j ≤ ky * (kx * 1) :=
    fun c => wsum_le _ _ _ _ _ (fun x => h1 x c)
  have h3 := wsum_le kz (reach kz) (fun c => wsum ky (reach ky) (fun jj => wsum kx (reach kx) (fun ii => f ii jj c) i) j) k _ h2
  calc _ ≤ kz * (ky * (kx * 1)) := h3
    _ = kx * ky * kz := by ring

end Fdtdx.C24
