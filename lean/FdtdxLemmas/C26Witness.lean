/-
Concrete systems (integer scalars, 8×8×8 uniform grid with edges -4 … 4) used by the non-vacuity examples and
by the refutation witnesses of the pinned tree in `FdtdxProps/C26.lean` and `FdtdxProps/C27.lean`.
They are the inputs replayed on the real code by `harness/place_common.py`
(`witness_early_exit`, `witness_real_position_skip`, `witness_volume_bound`).
-/
import FdtdxModel.C26
namespace Fdtdx.C26.W

/-- placement succeeded and the final slices satisfy `p` -/
def okAnd (o : Outcome) (p : St → Bool) : Bool :=
  match o with
  | .done σ [] => p σ
  | _ => false

theorem okAnd_exists {o : Outcome} {p : St → Bool} (h : okAnd o p = true) : ∃ r, o = .done r [] ∧ p r = true := by
  cases o with
  | raised => simp [okAnd] at h
  | done σ e =>
    cases e with
    | nil => exact ⟨σ, rfl, by simpa [okAnd] using h⟩
    | cons x xs => simp [okAnd] at h

def e9 : List Int := [-4, -3, -2, -1, 0, 1, 2, 3, 4]
def gInt : Grid Int := ⟨e9, e9, e9, true, 1, 0, id⟩
def box (id : Nat) (vol : Bool) (g : List (Option Int)) : Obj Int :=
  ⟨id, vol, g, [none, none, none], [none, none, none]⟩
def vol8 : Obj Int := box 0 true [some 8, some 8, some 8]
def cube (id : Nat) : Obj Int := box id false [some 2, some 2, some 2]

/-- `set_grid_coordinates` of all six sides: x from `x0` to `x0+2`, y and z from 0 to 2 -/
def full (o : Nat) (x0 : Int) : Con Int :=
  .gridc o [(0, false, x0), (0, true, x0 + 2), (1, false, 0), (1, true, 2), (2, false, 0), (2, true, 2)]

/-! defect 1: `A.place_relative_to(B)` (A's lower side on B's upper side, x axis) -/
def posAB : Con Int := .pos 1 2 [⟨0, -1, 1, some 0, some 0⟩]
def sysW (cons : List (Con Int)) : Sys Int := ⟨gInt, [vol8, cube 1, cube 2], cons⟩

/-! defect 2: A has `partial_real_position = -2` on x (⇒ slice (1,3) for 2 cells) and gets its size from B -/
def boxA : Obj Int := ⟨1, false, [none, some 2, some 2], [none, none, none], [some (-2), none, none]⟩
def sysR (cons : List (Con Int)) : Sys Int := ⟨gInt, [vol8, boxA, cube 2, cube 3], cons⟩
def sizeAB : Con Int := .size 1 2 [⟨0, 0, 1, some 0, some 0⟩]
def gridA : Con Int := .gridc 1 [(0, false, 3), (1, false, 0), (1, true, 2), (2, false, 0), (2, true, 2)]
def extAC : Con Int := .ext 1 (some 3) 0 true (-1) (some 0) (some 0)

/-! defect 3: the volume declares no x shape; its upper x bound comes from a constraint -/
def sysV (cons : List (Con Int)) : Sys Int :=
  ⟨gInt, [box 0 true [none, some 8, some 8], box 1 false [none, some 2, some 2]], cons⟩
def xA : Con Int := .ext 1 none 0 true (-1) (some 0) (some 0)
def gV : Con Int := .gridc 0 [(0, true, 8)]
def gA : Con Int := .gridc 1 [(0, false, 3)]

end Fdtdx.C26.W
