/-
System-level lemmas for C26/C27: facts about `compile` (`groups`), and invariance of every ingredient of
`solve` under permutations of the object list and of the constraint list.
-/
import FdtdxLemmas.C26Loop
import Mathlib.Data.List.Perm.Basic

namespace Fdtdx.C26

variable {α : Type} [Add α] [Sub α] [Mul α] [Div α] [Neg α] [LT α] [DecidableLT α]
  [OfNat α 0] [OfNat α 1] [OfNat α 2]

set_option linter.unusedSectionVars false

/-! ### compiled atoms are never strict -/

theorem offsetGuard_strict (g : Grid α) (o ax : Nat) (k : Option Int) :
    ∀ a ∈ offsetGuard g o ax k, a.strict = false := by
  intro a ha
  unfold offsetGuard at ha
  split at ha
  · simp [raiseAtom] at ha; obtain ⟨_, rfl⟩ := ha; rfl
  · simp at ha

theorem conAtoms_strict (g : Grid α) (vol : Nat) (c : Con α) : ∀ a ∈ c.atoms g vol false, a.strict = false := by
  intro a ha
  cases c with
  | gridc o es =>
    simp only [Con.atoms] at ha
    split at ha
    · simp [raiseAtom] at ha; subst ha; rfl
    · simp only [List.mem_map] at ha
      obtain ⟨⟨ax, hi, c⟩, _, rfl⟩ := ha; rfl
  | realc o es =>
    simp only [Con.atoms, List.mem_map] at ha
    obtain ⟨⟨ax, hi, c⟩, _, rfl⟩ := ha; rfl
  | pos o t es =>
    simp only [Con.atoms, List.mem_flatMap, List.mem_append, List.mem_cons] at ha
    obtain ⟨e, _, h | h | h | h⟩ := ha
    · exact offsetGuard_strict g o e.ax e.gmargin a h
    · subst h; rfl
    · subst h; rfl
    · simp at h
  | size o t es =>
    simp only [Con.atoms, List.mem_flatMap, List.mem_append, List.mem_cons] at ha
    obtain ⟨e, _, h | h | h⟩ := ha
    · exact offsetGuard_strict g o e.ax e.goff a h
    · subst h; rfl
    · simp at h
  | ext o t ax hi opos off goff =>
    simp only [Con.atoms, List.mem_append] at ha
    rcases ha with h | h
    · exact offsetGuard_strict g o ax goff a h
    · cases t with
      | some t => simp at h; subst h; rfl
      | none => simp at h; subst h; rfl

theorem posGroups_strict (g : Grid α) (o : Obj α) : ∀ gr ∈ o.posGroups g, ∀ a ∈ gr.atoms, a.strict = false := by
  intro gr hgr a ha
  simp only [Obj.posGroups, List.mem_flatMap] at hgr
  obtain ⟨ax, _, h⟩ := hgr
  split at h
  · simp at h
  · simp at h
    rcases h with rfl | rfl <;> (simp at ha; subst ha; rfl)

theorem sliceGroups_strict (id : Nat) : ∀ gr ∈ sliceGroups id, ∀ a ∈ gr.atoms, a.strict = false := by
  intro gr hgr a ha
  simp only [sliceGroups, List.mem_map] at hgr
  obtain ⟨ax, _, rfl⟩ := hgr
  simp at ha
  rcases ha with rfl | rfl <;> rfl

theorem shapeGroups_strict (id : Nat) : ∀ gr ∈ shapeGroups id, ∀ a ∈ gr.atoms, a.strict = false := by
  intro gr hgr a ha
  simp only [shapeGroups, List.mem_map] at hgr
  obtain ⟨ax, _, rfl⟩ := hgr
  simp at ha
  subst ha; rfl

theorem mem_groups {sys : Sys α} {gr : Group} : gr ∈ groups sys ↔
    (∃ o ∈ sys.objs, gr ∈ o.posGroups sys.grid) ∨ (∃ o ∈ sys.objs, gr ∈ sliceGroups o.id) ∨
    (∃ o ∈ sys.objs, gr ∈ shapeGroups o.id) ∨
    (∃ c ∈ sys.cons, gr = ⟨c.owner, true, c.atoms sys.grid (volId sys) false⟩) := by
  simp only [groups, posGroupsAll, bookGroups, conGroups, List.mem_append, List.mem_flatMap, List.mem_map]
  constructor
  · rintro ((h | h | h) | h)
    · exact Or.inl h
    · exact Or.inr (Or.inl h)
    · exact Or.inr (Or.inr (Or.inl h))
    · obtain ⟨c, hc, rfl⟩ := h
      exact Or.inr (Or.inr (Or.inr ⟨c, hc, rfl⟩))
  · rintro (h | h | h | h)
    · exact Or.inl (Or.inl h)
    · exact Or.inl (Or.inr (Or.inl h))
    · exact Or.inl (Or.inr (Or.inr h))
    · obtain ⟨c, hc, rfl⟩ := h
      exact Or.inr ⟨c, hc, rfl⟩

theorem noStrict_groups (sys : Sys α) : NoStrict (groups sys) := by
  intro a ha
  obtain ⟨gr, hgr, hag⟩ := mem_allAtoms.1 ha
  rcases mem_groups.1 hgr with ⟨o, _, h⟩ | ⟨o, _, h⟩ | ⟨o, _, h⟩ | ⟨c, _, rfl⟩
  · exact posGroups_strict _ o gr h a hag
  · exact sliceGroups_strict _ gr h a hag
  · exact shapeGroups_strict _ gr h a hag
  · exact conAtoms_strict _ _ c a hag

/-! ### permutations -/

/-- `sB` is `sA` with the object list and the constraint list permuted -/
structure PermSys (sA sB : Sys α) : Prop where
  grid : sB.grid = sA.grid
  objs : sB.objs.Perm sA.objs
  cons : sB.cons.Perm sA.cons

theorem any_perm {β : Type} {l₁ l₂ : List β} (p : l₁.Perm l₂) (f : β → Bool) : l₁.any f = l₂.any f := by
  rw [Bool.eq_iff_iff]
  simp only [List.any_eq_true]
  constructor
  · rintro ⟨x, hx, h⟩; exact ⟨x, p.mem_iff.1 hx, h⟩
  · rintro ⟨x, hx, h⟩; exact ⟨x, p.mem_iff.2 hx, h⟩

theorem all_perm {β : Type} {l₁ l₂ : List β} (p : l₁.Perm l₂) (f : β → Bool) : l₁.all f = l₂.all f := by
  rw [Bool.eq_iff_iff]
  simp only [List.all_eq_true]
  constructor
  · intro h x hx; exact h x (p.mem_iff.2 hx)
  · intro h x hx; exact h x (p.mem_iff.1 hx)

theorem find?_perm_of_unique {β : Type} (f : β → Bool) {l₁ l₂ : List β} (p : l₁.Perm l₂)
    (h : (l₂.filter f).length = 1) : l₁.find? f = l₂.find? f := by
  have p' := p.filter f
  obtain ⟨x, hx⟩ := List.length_eq_one_iff.1 h
  rw [hx] at p'
  have h1 := p'.eq_singleton
  rw [← List.head?_filter, ← List.head?_filter, h1, hx]

variable {sA sB : Sys α}

theorem PermSys.isObj (p : PermSys sA sB) (id : Nat) : isObj sB id = isObj sA id :=
  any_perm p.objs _

/-- exactly one volume -/
def OneVol (sys : Sys α) : Prop := (sys.objs.filter (·.isVol)).length = 1

theorem PermSys.volId (p : PermSys sA sB) (h : OneVol sA) : volId sB = volId sA := by
  unfold C26.volId
  rw [find?_perm_of_unique _ p.objs h]

theorem PermSys.extends_ (p : PermSys sA sB) (σ : St) (v : Var) : extends_ sB σ v = extends_ sA σ v := by
  have h1 : ∀ o ax hi, hasExt sB o ax hi = hasExt sA o ax hi := fun o ax hi => any_perm p.cons _
  have h2 : ∀ o ax, pendingPos sB σ o ax = pendingPos sA σ o ax := fun o ax => any_perm p.cons _
  unfold C26.extends_ extensible
  rw [p.isObj]
  simp only [h1, h2]

theorem PermSys.extend (p : PermSys sA sB) (h : OneVol sA) (σ : St) : extend sB σ = extend sA σ := by
  rw [extend_eq, extend_eq]
  funext v
  unfold extendPt
  rw [p.extends_, p.volId h]

theorem PermSys.extChanged (p : PermSys sA sB) (σ : St) : extChanged sB σ = extChanged sA σ := by
  unfold C26.extChanged
  simp only [p.extends_]
  exact any_perm p.objs _

theorem PermSys.unresolved (p : PermSys sA sB) (σ : St) : (unresolved sB σ).Perm (unresolved sA σ) := by
  unfold C26.unresolved
  exact (p.objs.filter _).map _

theorem PermSys.unresolved_nil (p : PermSys sA sB) (σ : St) :
    C26.unresolved sA σ = [] ↔ C26.unresolved sB σ = [] := by
  constructor
  · intro h; have := p.unresolved σ; rw [h] at this; exact this.eq_nil
  · intro h; have := (p.unresolved σ).symm; rw [h] at this; exact this.eq_nil

theorem PermSys.groups_atoms (p : PermSys sA sB) (h : OneVol sA) (a : Atom) :
    a ∈ allAtoms (groups sA) ↔ a ∈ allAtoms (groups sB) := by
  have key : ∀ gr, gr ∈ groups sA ↔ gr ∈ groups sB := by
    intro gr
    rw [mem_groups, mem_groups, p.grid, p.volId h]
    constructor
    · rintro (⟨o, ho, hh⟩ | ⟨o, ho, hh⟩ | ⟨o, ho, hh⟩ | ⟨c, hc, hh⟩)
      · exact Or.inl ⟨o, p.objs.mem_iff.2 ho, hh⟩
      · exact Or.inr (Or.inl ⟨o, p.objs.mem_iff.2 ho, hh⟩)
      · exact Or.inr (Or.inr (Or.inl ⟨o, p.objs.mem_iff.2 ho, hh⟩))
      · exact Or.inr (Or.inr (Or.inr ⟨c, p.cons.mem_iff.2 hc, hh⟩))
    · rintro (⟨o, ho, hh⟩ | ⟨o, ho, hh⟩ | ⟨o, ho, hh⟩ | ⟨c, hc, hh⟩)
      · exact Or.inl ⟨o, p.objs.mem_iff.1 ho, hh⟩
      · exact Or.inr (Or.inl ⟨o, p.objs.mem_iff.1 ho, hh⟩)
      · exact Or.inr (Or.inr (Or.inl ⟨o, p.objs.mem_iff.1 ho, hh⟩))
      · exact Or.inr (Or.inr (Or.inr ⟨c, p.cons.mem_iff.1 hc, hh⟩))
  rw [mem_allAtoms, mem_allAtoms]
  constructor
  · rintro ⟨g, hg, ha⟩; exact ⟨g, (key g).1 hg, ha⟩
  · rintro ⟨g, hg, ha⟩; exact ⟨g, (key g).2 hg, ha⟩

theorem PermSys.sameSys (p : PermSys sA sB) (h : OneVol sA) : SameSys sA sB (groups sA) (groups sB) where
  atoms := p.groups_atoms h
  ext := fun σ => (p.extend h σ).symm
  extc := fun σ => (p.extChanged σ).symm
  unres := p.unresolved_nil
  objsA := by
    intro h0
    unfold OneVol at h
    rw [h0] at h
    simp at h
  noStrict := noStrict_groups sB

/-! ### the checks at the top, the initial state, the validation at the end -/

theorem nodupIds_iff (l : List Nat) : nodupIds l = true ↔ l.Nodup := by
  induction l with
  | nil => simp [nodupIds]
  | cons x xs ih => simp [nodupIds, ih]

theorem PermSys.wellFormed (p : PermSys sA sB) : wellFormed sB = wellFormed sA := by
  unfold C26.wellFormed
  have h1 : nodupIds (sB.objs.map (·.id)) = nodupIds (sA.objs.map (·.id)) := by
    rw [Bool.eq_iff_iff, nodupIds_iff, nodupIds_iff]
    exact (p.objs.map _).nodup_iff
  have h2 : (sB.objs.filter (·.isVol)).length = (sA.objs.filter (·.isVol)).length := (p.objs.filter _).length_eq
  have h3 : ∀ c : Con α, (C26.isObj sB c.owner && (match c.other with | some t => C26.isObj sB t | none => true)) =
      (C26.isObj sA c.owner && (match c.other with | some t => C26.isObj sA t | none => true)) := by
    intro c
    rw [p.isObj]
    cases c.other with
    | none => rfl
    | some t => simp only [p.isObj]
  rw [h1, h2]
  congr 1
  rw [all_perm p.cons]
  congr 1
  funext c
  exact h3 c

theorem wellFormed_oneVol {sys : Sys α} (h : wellFormed sys = true) : OneVol sys := by
  unfold wellFormed at h
  simp only [Bool.and_eq_true] at h
  unfold OneVol
  simpa using h.1.2

theorem wellFormed_nodup {sys : Sys α} (h : wellFormed sys = true) : (sys.objs.map (·.id)).Nodup := by
  unfold wellFormed at h
  simp only [Bool.and_eq_true] at h
  exact (nodupIds_iff _).1 h.1.1

theorem find?_id_perm {l₁ l₂ : List (Obj α)} (p : l₁.Perm l₂) (hn : (l₂.map (·.id)).Nodup) (id : Nat) :
    l₁.find? (·.id == id) = l₂.find? (·.id == id) := by
  by_cases hex : ∃ o ∈ l₂, o.id = id
  · obtain ⟨o, ho, hid⟩ := hex
    have hn1 : (l₁.map (·.id)).Nodup := ((p.map _).nodup_iff).2 hn
    have uniq : ∀ (l : List (Obj α)), (l.map (·.id)).Nodup → o ∈ l → l.find? (·.id == id) = some o := by
      intro l hl hol
      induction l with
      | nil => cases hol
      | cons x xs ih =>
        simp only [List.map_cons, List.nodup_cons] at hl
        rcases List.mem_cons.1 hol with e | e
        · subst e; simp [List.find?_cons, hid]
        · have hx : x.id ≠ id := by
            intro hx
            apply hl.1
            rw [hx, ← hid]
            exact List.mem_map.2 ⟨o, e, rfl⟩
          have : (x.id == id) = false := by simpa using hx
          simp [List.find?_cons, this, ih hl.2 e]
    rw [uniq l₁ hn1 (p.mem_iff.2 ho), uniq l₂ hn ho]
  · have h2 : l₂.find? (·.id == id) = none := by
      rw [List.find?_eq_none]
      intro o ho h
      exact hex ⟨o, ho, by simpa using h⟩
    have h1 : l₁.find? (·.id == id) = none := by
      rw [List.find?_eq_none]
      intro o ho h
      exact hex ⟨o, p.mem_iff.1 ho, by simpa using h⟩
    rw [h1, h2]

theorem PermSys.init (p : PermSys sA sB) (hn : (sA.objs.map (·.id)).Nodup) : init sB = init sA := by
  unfold C26.init
  rw [p.grid, any_perm p.objs]
  split
  · rfl
  · congr 1
    funext v
    unfold findObj
    rw [find?_id_perm p.objs hn]

theorem PermSys.validate_none (p : PermSys sA sB) (h : OneVol sA) (σ : St) (e e' : List Nat) :
    (validate sA σ e = none ↔ validate sB σ e' = none) ∧
    (validate sA σ e = some [] → e' = [] → validate sB σ e' = some []) := by
  unfold C26.validate
  simp only [p.volId h]
  have hp : (sB.objs.filter fun o => o.id != C26.volId sA).Perm (sA.objs.filter fun o => o.id != C26.volId sA) :=
    p.objs.filter _
  rw [any_perm hp]
  constructor
  · split <;> simp
  · split
    · simp
    · intro h1 h2
      subst h2
      simp only [Option.some.injEq, List.append_nil] at h1 ⊢
      have := (hp.filter (fun o => objBad σ (C26.volId sA) o.id == some true)).map (·.id)
      rw [List.append_eq_nil_iff] at h1
      rw [h1.1] at this
      exact this.eq_nil

end Fdtdx.C26
