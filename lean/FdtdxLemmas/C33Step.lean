/-
C33 helper lemmas, second layer: the half steps of the shared Yee model
  * on the REDUCED configuration vs the upper half of the FULL one (`stepE_agree`, `stepE_agree_plane`, `stepH_agree`),
  * on the FULL configuration vs its own mirror image in a window around the plane (`stepE_sym`, `stepH_sym`).
Symmetry plane normal to x, at the min edge of cell `m` of a domain with `2m` cells along x.
-/
import FdtdxLemmas.C33
namespace Fdtdx.C33
open Fdtdx Fdtdx.Yee

section
variable {K : Type} [Field K]

/-- the reduced configuration: the full one with free data on the halved x axis -/
def redCfg (cf : Cfg K) (m : Nat) (b : AxisBC K) (sf sb : Nat → K) : Cfg K :=
  { cf with nx := m, bx := b, sfx := sf, sbx := sb }

/-- what the reduction must satisfy (met by `reduceCfg 0`, see `reduceCfg_ok`) -/
structure RedOK (cf : Cfg K) (m : Nat) (b : AxisBC K) (sf sb : Nat → K) : Prop where
  hm : 0 < m
  hn : cf.nx = 2 * m
  far : cf.bx.wrap = false
  wrap : b.wrap = false
  pecLo : b.pecLo = true
  pecHi : b.pecHi = cf.bx.pecHi
  pmcLo : b.pmcLo = false
  pmcHi : b.pmcHi = cf.bx.pmcHi
  sf : ∀ i, sf i = cf.sfx (m + i)
  sb : ∀ i, 0 < i → sb i = cf.sbx (m + i)

/-- reduced array `Vr` and full array `Vf` agree on the x-layer `i` of the reduced domain (= layer `m+i`) -/
def AgreeAt (m i : Nat) (Vr Vf : V3 K) : Prop :=
  ∀ j k, Vr.x i j k = Vf.x (m + i) j k ∧ Vr.y i j k = Vf.y (m + i) j k ∧ Vr.z i j k = Vf.z (m + i) j k

theorem optAt_upper_x (s : Option (V3 K)) (m i j k : Nat) :
    optAt ((s.map (upperV 0 m)).map (·.x)) i j k = optAt (s.map (·.x)) (m + i) j k := by cases s <;> rfl
theorem optAt_upper_y (s : Option (V3 K)) (m i j k : Nat) :
    optAt ((s.map (upperV 0 m)).map (·.y)) i j k = optAt (s.map (·.y)) (m + i) j k := by cases s <;> rfl
theorem optAt_upper_z (s : Option (V3 K)) (m i j k : Nat) :
    optAt ((s.map (upperV 0 m)).map (·.z)) i j k = optAt (s.map (·.z)) (m + i) j k := by cases s <;> rfl

variable {cf : Cfg K} {m : Nat} {b : AxisBC K} {sf sb : Nat → K}

theorem pecMask_red_x (i j k : Nat) :
    pecMask (redCfg cf m b sf sb) 0 i j k = pecMask cf 0 (m + i) j k := by
  simp [pecMask, redCfg]

theorem pecMask_red_t (h : RedOK cf m b sf sb) (comp i j k : Nat) (hi : 0 < i) :
    pecMask (redCfg cf m b sf sb) comp i j k = pecMask cf comp (m + i) j k := by
  simp only [pecMask, redCfg, h.hn, h.pecLo, h.pecHi]
  rw [onWall_upper true cf.bx.pecHi cf.bx.pecLo m i hi]

theorem pmcMask_red (h : RedOK cf m b sf sb) (comp i j k : Nat) :
    pmcMask (redCfg cf m b sf sb) comp i j k = pmcMask cf comp (m + i) j k := by
  simp only [pmcMask, redCfg, h.hn, h.pmcLo, h.pmcHi]
  rw [onWall_upper_nolo cf.bx.pmcHi cf.bx.pmcLo m i h.hm]

/-- E half step, interior layers `0 < i`: reads H on the layers `i` and `i-1` only -/
theorem stepE_agree (h : RedOK cf m b sf sb) (mt : Mat K) (jE : V3 K) (Er Hr E H : V3 K) (i : Nat)
    (hi0 : 0 < i) (hE : AgreeAt m i Er E) (hH : AgreeAt m i Hr H) (hHp : AgreeAt m (i - 1) Hr H) :
    AgreeAt m i (stepE (redCfg cf m b sf sb) (upperMat 0 m mt) (upperV 0 m jE) Er Hr) (stepE cf mt jE E H) := by
  have hx : ∀ j k, Hr.x i j k = H.x (m + i) j k := fun j k => (hH j k).1
  have hy : ∀ j k, Hr.y i j k = H.y (m + i) j k := fun j k => (hH j k).2.1
  have hz : ∀ j k, Hr.z i j k = H.z (m + i) j k := fun j k => (hH j k).2.2
  intro j k
  have py : prev1 m b (fun i' => Hr.y i' j k) i = prev1 cf.nx cf.bx (fun i' => H.y i' j k) (m + i) :=
    prev1_shift _ _ _ _ _ _ m i hi0 (hHp j k).2.1
  have pz : prev1 m b (fun i' => Hr.z i' j k) i = prev1 cf.nx cf.bx (fun i' => H.z i' j k) (m + i) :=
    prev1_shift _ _ _ _ _ _ m i hi0 (hHp j k).2.2
  refine ⟨?_, ?_, ?_⟩
  · simp only [stepE, projE, maskV, addV, pecMask_red_x, curlH, upperMat, optAt_upper_x]
    simp only [redCfg, upperV, upperF, hx, hy, hz, (hE j k).1]
  · simp only [stepE, projE, maskV, addV, pecMask_red_t h 1 i j k hi0, curlH, upperMat, optAt_upper_y]
    simp only [redCfg, upperV, upperF, hx, hy, hz, (hE j k).2.1, pz, h.sb i hi0]
  · simp only [stepE, projE, maskV, addV, pecMask_red_t h 2 i j k hi0, curlH, upperMat, optAt_upper_z]
    simp only [redCfg, upperV, upperF, hx, hy, hz, (hE j k).2.2, py, h.sb i hi0]


/-- what the full state must satisfy ON the plane for the PEC wall of the reduced domain to be exact -/
structure PlaneInv (m : Nat) (E H jE : V3 K) : Prop where
  ey : ∀ j k, E.y m j k = 0
  ez : ∀ j k, E.z m j k = 0
  hx : ∀ j k, H.x m j k = 0
  hy : ∀ j k, H.y m j k = H.y (m - 1) j k
  hz : ∀ j k, H.z m j k = H.z (m - 1) j k
  jy : ∀ j k, jE.y m j k = 0
  jz : ∀ j k, jE.z m j k = 0

/-- the tangential E components of the full domain stay zero on the plane -/
theorem stepE_plane_zero (hm : 0 < m) (mt : Mat K) (jE E H : V3 K) (p : PlaneInv m E H jE) (j k : Nat) :
    (stepE cf mt jE E H).y m j k = 0 ∧ (stepE cf mt jE E H).z m j k = 0 := by
  have h1 : m ≠ 0 := by omega
  constructor
  · simp only [stepE, projE, maskV, addV, curlH, p.ey, p.hx, p.jy, prev1_zero, prev1_pos _ _ _ m hm, ← p.hz,
      sub_self, zero_mul, updE1_zero, add_zero, ite_self]
  · simp only [stepE, projE, maskV, addV, curlH, p.ez, p.hx, p.jz, prev1_zero, prev1_pos _ _ _ m hm, ← p.hy,
      sub_self, zero_mul, updE1_zero, add_zero, ite_self]

/-- E half step on the plane layer `i = 0`: the wall of the reduced domain zeroes what is zero anyway -/
theorem stepE_agree_plane (h : RedOK cf m b sf sb) (mt : Mat K) (jE : V3 K) (Er Hr E H : V3 K)
    (p : PlaneInv m E H jE) (hE : AgreeAt m 0 Er E) (hH : AgreeAt m 0 Hr H) :
    AgreeAt m 0 (stepE (redCfg cf m b sf sb) (upperMat 0 m mt) (upperV 0 m jE) Er Hr) (stepE cf mt jE E H) := by
  have hy : ∀ j k, Hr.y 0 j k = H.y (m + 0) j k := fun j k => (hH j k).2.1
  have hz : ∀ j k, Hr.z 0 j k = H.z (m + 0) j k := fun j k => (hH j k).2.2
  intro j k
  have hw : ∀ comp, comp ≠ 0 → pecMask (redCfg cf m b sf sb) comp 0 j k = true := by
    intro comp hc
    simp [pecMask, redCfg, onWall, h.pecLo, hc]
  obtain ⟨z1, z2⟩ := stepE_plane_zero (cf := cf) h.hm mt jE E H p j k
  refine ⟨?_, ?_, ?_⟩
  · simp only [stepE, projE, maskV, addV, pecMask_red_x, curlH, upperMat, optAt_upper_x]
    simp only [redCfg, upperV, upperF, hy, hz, (hE j k).1]
  · rw [Nat.add_zero, z1]
    simp only [stepE, projE, maskV, hw 1 (by decide), if_true]
  · rw [Nat.add_zero, z2]
    simp only [stepE, projE, maskV, hw 2 (by decide), if_true]

/-- H half step: reads the new E on the layers `i` and `i+1` (zero right ghost in both domains at the far end) -/
theorem stepH_agree (h : RedOK cf m b sf sb) (mt : Mat K) (jH : V3 K) (Er Hr E H : V3 K) (i : Nat) (hi : i < m)
    (hE : AgreeAt m i Er E) (hEn : i + 1 < m → AgreeAt m (i + 1) Er E) (hH : AgreeAt m i Hr H) :
    AgreeAt m i (stepH (redCfg cf m b sf sb) (upperMat 0 m mt) (upperV 0 m jH) Er Hr) (stepH cf mt jH E H) := by
  have hx : ∀ j k, Er.x i j k = E.x (m + i) j k := fun j k => (hE j k).1
  have hy : ∀ j k, Er.y i j k = E.y (m + i) j k := fun j k => (hE j k).2.1
  have hz : ∀ j k, Er.z i j k = E.z (m + i) j k := fun j k => (hE j k).2.2
  intro j k
  have ny : next1 m b (fun i' => Er.y i' j k) i = next1 cf.nx cf.bx (fun i' => E.y i' j k) (m + i) :=
    next1_shift m _ _ _ _ _ i hi h.hn h.wrap h.far (fun hl => (hEn hl j k).2.1)
  have nz : next1 m b (fun i' => Er.z i' j k) i = next1 cf.nx cf.bx (fun i' => E.z i' j k) (m + i) :=
    next1_shift m _ _ _ _ _ i hi h.hn h.wrap h.far (fun hl => (hEn hl j k).2.2)
  refine ⟨?_, ?_, ?_⟩
  · simp only [stepH, projH, maskV, addV, pmcMask_red h, curlE, upperMat, optAt_upper_x]
    simp only [redCfg, upperV, upperF, hy, hz, (hH j k).1]
  · simp only [stepH, projH, maskV, addV, pmcMask_red h, curlE, upperMat, optAt_upper_y]
    simp only [redCfg, upperV, upperF, hx, hz, (hH j k).2.1, nz, h.sf i]
  · simp only [stepH, projH, maskV, addV, pmcMask_red h, curlE, upperMat, optAt_upper_z]
    simp only [redCfg, upperV, upperF, hx, hy, (hH j k).2.2, ny, h.sf i]


/-! ### parity symmetry of the full-domain state in a window of radius `r` around the plane -/

/-- PEC-mirror parity of an E-type field about the plane at the min edge of cell `m`: the normal component (sampled
half a cell off the plane) is even, `m+d ↔ m-1-d`; the tangential ones (sampled on the plane) are odd, `m+d ↔ m-d`,
and vanish on the plane.  Only pairs with `d < r` are constrained. -/
structure SymE (m r : Nat) (E : V3 K) : Prop where
  x : ∀ d j k, d < r → E.x (m + d) j k = E.x (m - 1 - d) j k
  y : ∀ d j k, d < r → E.y (m + d) j k = - E.y (m - d) j k
  z : ∀ d j k, d < r → E.z (m + d) j k = - E.z (m - d) j k
  y0 : ∀ j k, 0 < r → E.y m j k = 0
  z0 : ∀ j k, 0 < r → E.z m j k = 0

/-- the same for an H-type field: normal component odd and on the plane, tangential ones even and half a cell off -/
structure SymH (m r : Nat) (H : V3 K) : Prop where
  x : ∀ d j k, d < r → H.x (m + d) j k = - H.x (m - d) j k
  x0 : ∀ j k, 0 < r → H.x m j k = 0
  y : ∀ d j k, d < r → H.y (m + d) j k = H.y (m - 1 - d) j k
  z : ∀ d j k, d < r → H.z (m + d) j k = H.z (m - 1 - d) j k

theorem SymE.mono {m r r' : Nat} {E : V3 K} (h : SymE m r E) (hr : r' ≤ r) : SymE m r' E :=
  ⟨fun d j k hd => h.x d j k (by omega), fun d j k hd => h.y d j k (by omega), fun d j k hd => h.z d j k (by omega),
   fun j k h0 => h.y0 j k (by omega), fun j k h0 => h.z0 j k (by omega)⟩

theorem SymH.mono {m r r' : Nat} {H : V3 K} (h : SymH m r H) (hr : r' ≤ r) : SymH m r' H :=
  ⟨fun d j k hd => h.x d j k (by omega), fun j k h0 => h.x0 j k (by omega), fun d j k hd => h.y d j k (by omega),
   fun d j k hd => h.z d j k (by omega)⟩

/-- materials do not vary along the symmetry axis -/
structure XInv (mt : Mat K) : Prop where
  ex : ∀ i i' j k, mt.invEps.x i j k = mt.invEps.x i' j k
  ey : ∀ i i' j k, mt.invEps.y i j k = mt.invEps.y i' j k
  ez : ∀ i i' j k, mt.invEps.z i j k = mt.invEps.z i' j k
  mx : ∀ i i' j k, mt.invMu.x i j k = mt.invMu.x i' j k
  my : ∀ i i' j k, mt.invMu.y i j k = mt.invMu.y i' j k
  mz : ∀ i i' j k, mt.invMu.z i j k = mt.invMu.z i' j k
  sEx : ∀ v, mt.sigE = some v → ∀ i i' j k, v.x i j k = v.x i' j k
  sEy : ∀ v, mt.sigE = some v → ∀ i i' j k, v.y i j k = v.y i' j k
  sEz : ∀ v, mt.sigE = some v → ∀ i i' j k, v.z i j k = v.z i' j k
  sHx : ∀ v, mt.sigH = some v → ∀ i i' j k, v.x i j k = v.x i' j k
  sHy : ∀ v, mt.sigH = some v → ∀ i i' j k, v.y i j k = v.y i' j k
  sHz : ∀ v, mt.sigH = some v → ∀ i i' j k, v.z i j k = v.z i' j k

theorem optAt_const (s : Option (V3 K)) (p : V3 K → F3 K)
    (hs : ∀ v, s = some v → ∀ i i' j k, p v i j k = p v i' j k) (i i' j k : Nat) :
    optAt (s.map p) i j k = optAt (s.map p) i' j k := by
  cases s with
  | none => rfl
  | some v => simp [optAt, hs v rfl i i' j k]

/-- the metric is mirror symmetric in the window (always true on a uniform grid) -/
structure MetricSym (cf : Cfg K) (m r : Nat) : Prop where
  sf : ∀ d, d < r → cf.sfx (m + d) = cf.sfx (m - 1 - d)
  sb : ∀ d, 0 < d → d < r → cf.sbx (m + d) = cf.sbx (m - d)

theorem MetricSym.mono {m r r' : Nat} (h : MetricSym cf m r) (hr : r' ≤ r) : MetricSym cf m r' :=
  ⟨fun d hd => h.sf d (by omega), fun d h0 hd => h.sb d h0 (by omega)⟩

theorem pecMask_of_onWall (comp i i' j k : Nat)
    (h : onWall cf.bx.pecLo cf.bx.pecHi cf.nx i = onWall cf.bx.pecLo cf.bx.pecHi cf.nx i') :
    pecMask cf comp i j k = pecMask cf comp i' j k := by
  simp only [pecMask, h]

theorem pmcMask_of_onWall (comp i i' j k : Nat)
    (h : onWall cf.bx.pmcLo cf.bx.pmcHi cf.nx i = onWall cf.bx.pmcLo cf.bx.pmcHi cf.nx i') :
    pmcMask cf comp i j k = pmcMask cf comp i' j k := by
  simp only [pmcMask, h]

theorem pecMask_x_indep (i i' j k : Nat) : pecMask cf 0 i j k = pecMask cf 0 i' j k := by simp [pecMask]
theorem pmcMask_x_indep (i i' j k : Nat) : pmcMask cf 0 i j k = pmcMask cf 0 i' j k := by simp [pmcMask]

theorem planeInv_of_sym {r : Nat} (h0 : 0 < r) {E H jE : V3 K} (sE : SymE m r E) (sH : SymH m r H)
    (sJ : SymE m r jE) : PlaneInv m E H jE :=
  ⟨fun j k => sE.y0 j k h0, fun j k => sE.z0 j k h0, fun j k => sH.x0 j k h0,
   fun j k => by simpa using sH.y 0 j k h0, fun j k => by simpa using sH.z 0 j k h0,
   fun j k => sJ.y0 j k h0, fun j k => sJ.z0 j k h0⟩

/-- the E half step of the FULL domain keeps the parity in the window (the far PEC layer sits on the outermost pair) -/
theorem stepE_sym (hn : cf.nx = 2 * m) (r : Nat) (hr : r ≤ m) (hpec : r = m → cf.bx.pecHi = false)
    (mt : Mat K) (hx : XInv mt) (hmet : MetricSym cf m r) (jE E H : V3 K)
    (sE : SymE m r E) (sH : SymH m r H) (sJ : SymE m r jE) : SymE m r (stepE cf mt jE E H) := by
  have zero : ∀ j k, 0 < r → (stepE cf mt jE E H).y m j k = 0 ∧ (stepE cf mt jE E H).z m j k = 0 :=
    fun j k h0 => stepE_plane_zero (cf := cf) (by omega) mt jE E H (planeInv_of_sym h0 sE sH sJ) j k
  -- wall layers of the x axis do not touch the pairs in the window
  have wall : ∀ d, 0 < d → d < r →
      onWall cf.bx.pecLo cf.bx.pecHi cf.nx (m + d) = onWall cf.bx.pecLo cf.bx.pecHi cf.nx (m - d) := by
    intro d h0 hd
    rw [hn, onWall_interior _ _ _ (m - d) (by omega) (by omega)]
    by_cases hl : d + 1 < m
    · exact onWall_interior _ _ _ _ (by omega) (by omega)
    · rw [hpec (by omega)]
      exact onWall_nohi _ _ _ (by omega)
  refine ⟨?_, ?_, ?_, fun j k h0 => (zero j k h0).1, fun j k h0 => (zero j k h0).2⟩
  · intro d j k hd
    have hy' : ∀ j k, H.y (m + d) j k = H.y (m - 1 - d) j k := fun j k => sH.y d j k hd
    have hz' : ∀ j k, H.z (m + d) j k = H.z (m - 1 - d) j k := fun j k => sH.z d j k hd
    simp only [stepE, projE, maskV, addV, curlH]
    rw [pecMask_x_indep (m + d) (m - 1 - d)]
    simp only [hy', hz', sE.x d j k hd, sJ.x d j k hd, hx.ex (m + d) (m - 1 - d) j k,
      optAt_const mt.sigE (·.x) hx.sEx (m + d) (m - 1 - d) j k]
  · intro d j k hd
    rcases Nat.eq_zero_or_pos d with rfl | h0
    · rw [Nat.add_zero, Nat.sub_zero, (zero j k hd).1, neg_zero]
    have hx' : ∀ j k, H.x (m + d) j k = - H.x (m - d) j k := fun j k => sH.x d j k hd
    have e1 : H.z (m + d) j k = H.z (m - d - 1) j k := by
      have := sH.z d j k hd
      rwa [show m - 1 - d = m - d - 1 by omega] at this
    have e2 : prev1 cf.nx cf.bx (fun i' => H.z i' j k) (m + d) = H.z (m - d) j k := by
      rw [prev1_pos _ _ _ _ (by omega)]
      have := sH.z (d - 1) j k (by omega)
      rwa [show m + (d - 1) = m + d - 1 by omega, show m - 1 - (d - 1) = m - d by omega] at this
    have e3 : prev1 cf.nx cf.bx (fun i' => H.z i' j k) (m - d) = H.z (m - d - 1) j k := prev1_pos _ _ _ _ (by omega)
    simp only [stepE, projE, maskV, addV, curlH]
    rw [pecMask_of_onWall 1 (m + d) (m - d) j k (wall d h0 hd)]
    simp only [hx', prev1_neg, e1, e2, e3, sE.y d j k hd, sJ.y d j k hd, hmet.sb d h0 hd, hx.ey (m + d) (m - d) j k,
      optAt_const mt.sigE (·.y) hx.sEy (m + d) (m - d) j k]
    split_ifs
    · simp
    · generalize optAt _ _ _ _ = sig
      cases sig <;> simp only [updE1] <;> ring
  · intro d j k hd
    rcases Nat.eq_zero_or_pos d with rfl | h0
    · rw [Nat.add_zero, Nat.sub_zero, (zero j k hd).2, neg_zero]
    have hx' : ∀ j k, H.x (m + d) j k = - H.x (m - d) j k := fun j k => sH.x d j k hd
    have e1 : H.y (m + d) j k = H.y (m - d - 1) j k := by
      have := sH.y d j k hd
      rwa [show m - 1 - d = m - d - 1 by omega] at this
    have e2 : prev1 cf.nx cf.bx (fun i' => H.y i' j k) (m + d) = H.y (m - d) j k := by
      rw [prev1_pos _ _ _ _ (by omega)]
      have := sH.y (d - 1) j k (by omega)
      rwa [show m + (d - 1) = m + d - 1 by omega, show m - 1 - (d - 1) = m - d by omega] at this
    have e3 : prev1 cf.nx cf.bx (fun i' => H.y i' j k) (m - d) = H.y (m - d - 1) j k := prev1_pos _ _ _ _ (by omega)
    simp only [stepE, projE, maskV, addV, curlH]
    rw [pecMask_of_onWall 2 (m + d) (m - d) j k (wall d h0 hd)]
    simp only [hx', prev1_neg, e1, e2, e3, sE.z d j k hd, sJ.z d j k hd, hmet.sb d h0 hd, hx.ez (m + d) (m - d) j k,
      optAt_const mt.sigE (·.z) hx.sEz (m + d) (m - d) j k]
    split_ifs
    · simp
    · generalize optAt _ _ _ _ = sig
      cases sig <;> simp only [updE1] <;> ring


theorem stepH_plane_zero (mt : Mat K) (jH E H : V3 K) (hy : ∀ j k, E.y m j k = 0) (hz : ∀ j k, E.z m j k = 0)
    (j k : Nat) (hh : H.x m j k = 0) (hj : jH.x m j k = 0) : (stepH cf mt jH E H).x m j k = 0 := by
  simp only [stepH, projH, maskV, addV, curlE, hy, hz, hh, hj, next1_zero, sub_self, zero_mul, updH1_zero, add_zero,
    ite_self]

/-- the H half step of the FULL domain: the parity survives in a window one pair smaller (the forward difference
reaches one layer further out) -/
theorem stepH_sym (hn : cf.nx = 2 * m) (r : Nat) (hr : r ≤ m)
    (mt : Mat K) (hx : XInv mt) (hmet : MetricSym cf m r) (jH E H : V3 K)
    (sE : SymE m r E) (sH : SymH m r H) (sJ : SymH m r jH) : SymH m (r - 1) (stepH cf mt jH E H) := by
  have zero : ∀ j k, 0 < r → (stepH cf mt jH E H).x m j k = 0 := fun j k h0 =>
    stepH_plane_zero (cf := cf) mt jH E H (fun j k => sE.y0 j k h0) (fun j k => sE.z0 j k h0) j k (sH.x0 j k h0)
      (sJ.x0 j k h0)
  have wall : ∀ d, d < r - 1 →
      onWall cf.bx.pmcLo cf.bx.pmcHi cf.nx (m + d) = onWall cf.bx.pmcLo cf.bx.pmcHi cf.nx (m - 1 - d) := by
    intro d hd
    rw [hn, onWall_interior _ _ _ (m - 1 - d) (by omega) (by omega), onWall_interior _ _ _ (m + d) (by omega) (by omega)]
  refine ⟨?_, fun j k h0 => zero j k (by omega), ?_, ?_⟩
  · intro d j k hd
    have hd' : d < r := by omega
    rcases Nat.eq_zero_or_pos d with rfl | h0
    · rw [Nat.add_zero, Nat.sub_zero, zero j k hd', neg_zero]
    have hy' : ∀ j k, E.y (m + d) j k = - E.y (m - d) j k := fun j k => sE.y d j k hd'
    have hz' : ∀ j k, E.z (m + d) j k = - E.z (m - d) j k := fun j k => sE.z d j k hd'
    simp only [stepH, projH, maskV, addV, curlE]
    rw [pmcMask_x_indep (m + d) (m - d)]
    simp only [hy', hz', next1_neg, sH.x d j k hd', sJ.x d j k hd', hx.mx (m + d) (m - d) j k,
      optAt_const mt.sigH (·.x) hx.sHx (m + d) (m - d) j k]
    split_ifs
    · simp
    · generalize optAt _ _ _ _ = sig
      cases sig <;> simp only [updH1] <;> ring
  · intro d j k hd
    have hd' : d < r := by omega
    have hx' : ∀ j k, E.x (m + d) j k = E.x (m - 1 - d) j k := fun j k => sE.x d j k hd'
    have e1 : next1 cf.nx cf.bx (fun i' => E.z i' j k) (m + d) = - E.z (m - 1 - d) j k := by
      rw [next1_lt _ _ _ _ (by omega)]
      have := sE.z (d + 1) j k (by omega)
      rwa [show m + (d + 1) = m + d + 1 by omega, show m - (d + 1) = m - 1 - d by omega] at this
    have e2 : next1 cf.nx cf.bx (fun i' => E.z i' j k) (m - 1 - d) = E.z (m - d) j k := by
      rw [next1_lt _ _ _ _ (by omega), show m - 1 - d + 1 = m - d by omega]
    simp only [stepH, projH, maskV, addV, curlE]
    rw [pmcMask_of_onWall 1 (m + d) (m - 1 - d) j k (wall d hd)]
    simp only [hx', e1, e2, sE.z d j k hd', sH.y d j k hd', sJ.y d j k hd', hmet.sf d hd',
      hx.my (m + d) (m - 1 - d) j k, optAt_const mt.sigH (·.y) hx.sHy (m + d) (m - 1 - d) j k]
    split_ifs
    · rfl
    · generalize optAt _ _ _ _ = sig
      cases sig <;> simp only [updH1] <;> ring
  · intro d j k hd
    have hd' : d < r := by omega
    have hx' : ∀ j k, E.x (m + d) j k = E.x (m - 1 - d) j k := fun j k => sE.x d j k hd'
    have e1 : next1 cf.nx cf.bx (fun i' => E.y i' j k) (m + d) = - E.y (m - 1 - d) j k := by
      rw [next1_lt _ _ _ _ (by omega)]
      have := sE.y (d + 1) j k (by omega)
      rwa [show m + (d + 1) = m + d + 1 by omega, show m - (d + 1) = m - 1 - d by omega] at this
    have e2 : next1 cf.nx cf.bx (fun i' => E.y i' j k) (m - 1 - d) = E.y (m - d) j k := by
      rw [next1_lt _ _ _ _ (by omega), show m - 1 - d + 1 = m - d by omega]
    simp only [stepH, projH, maskV, addV, curlE]
    rw [pmcMask_of_onWall 2 (m + d) (m - 1 - d) j k (wall d hd)]
    simp only [hx', e1, e2, sE.y d j k hd', sH.z d j k hd', sJ.z d j k hd', hmet.sf d hd',
      hx.mz (m + d) (m - 1 - d) j k, optAt_const mt.sigH (·.z) hx.sHz (m + d) (m - 1 - d) j k]
    split_ifs
    · rfl
    · generalize optAt _ _ _ _ = sig
      cases sig <;> simp only [updH1] <;> ring

/-! ### mirror-symmetric far faces: the outermost pair -/

/-- the x faces of the full domain form a mirror-symmetric pair about the plane: the zero right ghost of the
tangential E at `2m` (an electric wall on the max edge) is matched by a PEC layer at index 0, and a PMC layer, if any,
sits at both ends -/
structure FarSym (cf : Cfg K) : Prop where
  wrap : cf.bx.wrap = false
  pecLo : cf.bx.pecLo = true
  pecHi : cf.bx.pecHi = false
  pmc : cf.bx.pmcLo = cf.bx.pmcHi

/-- the H half step with the outermost pair included: needs the mirror-symmetric far faces and tangential E = 0 on
the far PEC layer (which `projE` has just enforced) -/
theorem stepH_sym_edge (hn : cf.nx = 2 * m) (hm : 0 < m) (hf : FarSym cf)
    (mt : Mat K) (hx : XInv mt) (hmet : MetricSym cf m m) (jH E H : V3 K)
    (sE : SymE m m E) (sH : SymH m m H) (sJ : SymH m m jH)
    (e0y : ∀ j k, E.y 0 j k = 0) (e0z : ∀ j k, E.z 0 j k = 0) : SymH m m (stepH cf mt jH E H) := by
  have inner := stepH_sym hn m (le_refl m) mt hx hmet jH E H sE sH sJ
  have zero : ∀ j k, (stepH cf mt jH E H).x m j k = 0 := fun j k =>
    stepH_plane_zero (cf := cf) mt jH E H (fun j k => sE.y0 j k hm) (fun j k => sE.z0 j k hm) j k (sH.x0 j k hm)
      (sJ.x0 j k hm)
  have wallEq : onWall cf.bx.pmcLo cf.bx.pmcHi cf.nx (m + (m - 1)) = onWall cf.bx.pmcLo cf.bx.pmcHi cf.nx 0 := by
    have a1 : (m + (m - 1) == 0) = false := by simp; omega
    have a2 : (m + (m - 1) + 1 == 2 * m) = true := by simp; omega
    have a3 : (0 + 1 == 2 * m) = false := by simp; omega
    simp [onWall, hn, a1, a2, a3, hf.pmc]
  refine ⟨?_, fun j k _ => zero j k, ?_, ?_⟩
  · intro d j k hd
    rcases Nat.eq_zero_or_pos d with rfl | h0
    · rw [Nat.add_zero, Nat.sub_zero, zero j k, neg_zero]
    have hy' : ∀ j k, E.y (m + d) j k = - E.y (m - d) j k := fun j k => sE.y d j k hd
    have hz' : ∀ j k, E.z (m + d) j k = - E.z (m - d) j k := fun j k => sE.z d j k hd
    simp only [stepH, projH, maskV, addV, curlE]
    rw [pmcMask_x_indep (m + d) (m - d)]
    simp only [hy', hz', next1_neg, sH.x d j k hd, sJ.x d j k hd, hx.mx (m + d) (m - d) j k,
      optAt_const mt.sigH (·.x) hx.sHx (m + d) (m - d) j k]
    split_ifs
    · simp
    · generalize optAt _ _ _ _ = sig
      cases sig <;> simp only [updH1] <;> ring
  · intro d j k hd
    by_cases hl : d < m - 1
    · exact inner.y d j k hl
    have hdm : d = m - 1 := by omega
    subst hdm
    have i0 : m - 1 - (m - 1) = 0 := by omega
    have hx' : ∀ j k, E.x (m + (m - 1)) j k = E.x 0 j k := fun j k => by
      have := sE.x (m - 1) j k hd; rwa [i0] at this
    have e1 : next1 cf.nx cf.bx (fun i' => E.z i' j k) (m + (m - 1)) = 0 := by
      have : ¬ (m + (m - 1) + 1 < cf.nx) := by omega
      simp [next1, this, hf.wrap]
    have e2 : next1 cf.nx cf.bx (fun i' => E.z i' j k) 0 = - E.z (m + (m - 1)) j k := by
      rw [next1_lt _ _ _ _ (by omega)]
      have := sE.z (m - 1) j k hd
      rw [show m - (m - 1) = 0 + 1 by omega] at this
      rw [this, neg_neg]
    simp only [stepH, projH, maskV, addV, curlE, i0]
    rw [pmcMask_of_onWall 1 (m + (m - 1)) 0 j k wallEq]
    have hs := hmet.sf (m - 1) hd
    rw [i0] at hs
    have hH := sH.y (m - 1) j k hd
    have hJ := sJ.y (m - 1) j k hd
    rw [i0] at hH hJ
    simp only [hx', e1, e2, e0z, hH, hJ, hs, hx.my (m + (m - 1)) 0 j k,
      optAt_const mt.sigH (·.y) hx.sHy (m + (m - 1)) 0 j k]
    split_ifs
    · rfl
    · generalize optAt _ _ _ _ = sig
      cases sig <;> simp only [updH1] <;> ring
  · intro d j k hd
    by_cases hl : d < m - 1
    · exact inner.z d j k hl
    have hdm : d = m - 1 := by omega
    subst hdm
    have i0 : m - 1 - (m - 1) = 0 := by omega
    have hx' : ∀ j k, E.x (m + (m - 1)) j k = E.x 0 j k := fun j k => by
      have := sE.x (m - 1) j k hd; rwa [i0] at this
    have e1 : next1 cf.nx cf.bx (fun i' => E.y i' j k) (m + (m - 1)) = 0 := by
      have : ¬ (m + (m - 1) + 1 < cf.nx) := by omega
      simp [next1, this, hf.wrap]
    have e2 : next1 cf.nx cf.bx (fun i' => E.y i' j k) 0 = - E.y (m + (m - 1)) j k := by
      rw [next1_lt _ _ _ _ (by omega)]
      have := sE.y (m - 1) j k hd
      rw [show m - (m - 1) = 0 + 1 by omega] at this
      rw [this, neg_neg]
    simp only [stepH, projH, maskV, addV, curlE, i0]
    rw [pmcMask_of_onWall 2 (m + (m - 1)) 0 j k wallEq]
    have hs := hmet.sf (m - 1) hd
    rw [i0] at hs
    have hH := sH.z (m - 1) j k hd
    have hJ := sJ.z (m - 1) j k hd
    rw [i0] at hH hJ
    simp only [hx', e1, e2, e0y, hH, hJ, hs, hx.mz (m + (m - 1)) 0 j k,
      optAt_const mt.sigH (·.z) hx.sHz (m + (m - 1)) 0 j k]
    split_ifs
    · rfl
    · generalize optAt _ _ _ _ = sig
      cases sig <;> simp only [updH1] <;> ring


theorem stepE_farPec_zero (hf : FarSym cf) (mt : Mat K) (jE E H : V3 K) (j k : Nat) :
    (stepE cf mt jE E H).y 0 j k = 0 ∧ (stepE cf mt jE E H).z 0 j k = 0 := by
  constructor <;> simp [stepE, projE, maskV, pecMask, onWall, hf.pecLo]


/-! ### vocabulary of the property theorems -/

/-- reduced and full arrays agree on the layers `s ≤ i < m` of the reduced domain -/
def AgreeFrom (m s : Nat) (Vr Vf : V3 K) : Prop := ∀ i, s ≤ i → i < m → AgreeAt m i Vr Vf

/-- `n` steps with the same additive source terms -/
def steps (cf : Cfg K) (mt : Mat K) (jE jH : V3 K) : Nat → V3 K × V3 K → V3 K × V3 K
  | 0, s => s
  | n + 1, s => forward cf mt jE jH (steps cf mt jE jH n s).1 (steps cf mt jE jH n s).2

/-- number of steps by which a far PEC layer shortens the symmetric window (its layer is the outermost pair) -/
def farDelay (cf : Cfg K) : Nat := if cf.bx.pecHi then 1 else 0

end
end Fdtdx.C33
