/-
Sesquilinear curl adjointness for Bloch-periodic halos:  ⟨H, curlE G⟩ = ⟨curlH H, G⟩ with ⟨A,B⟩ = Σ w · star A · B,
for self-adjoint (real) metric scales.
-/
import FdtdxLemmas.CurlAdjoint
import FdtdxLemmas.SumsStar

open Finset
namespace Fdtdx
open Fdtdx.Yee Fdtdx.C01

section
variable {K : Type} [Field K] [StarRing K]

/-- sesquilinear pairing of H-type fields -/
def pairHs (cf : Cfg K) (W : Widths K) (A B : V3 K) : K :=
  sum3 cf.nx cf.ny cf.nz fun i j k =>
    W.dx i * W.wy j * W.wz k * (star (A.x i j k) * B.x i j k)
    + W.wx i * W.dy j * W.wz k * (star (A.y i j k) * B.y i j k)
    + W.wx i * W.wy j * W.dz k * (star (A.z i j k) * B.z i j k)

/-- sesquilinear pairing of E-type fields -/
def pairEs (cf : Cfg K) (W : Widths K) (A B : V3 K) : K :=
  sum3 cf.nx cf.ny cf.nz fun i j k =>
    W.wx i * W.dy j * W.dz k * (star (A.x i j k) * B.x i j k)
    + W.dx i * W.wy j * W.dz k * (star (A.y i j k) * B.y i j k)
    + W.dx i * W.dy j * W.wz k * (star (A.z i j k) * B.z i j k)

/-- the backward metric scales are real -/
structure ScalesReal (cf : Cfg K) : Prop where
  bx : ∀ i, star (cf.sbx i) = cf.sbx i
  by_ : ∀ j, star (cf.sby j) = cf.sby j
  bz : ∀ k, star (cf.sbz k) = cf.sbz k

structure HalosBloch (cf : Cfg K) : Prop where
  x : BlochHalo cf.bx
  y : BlochHalo cf.by_
  z : BlochHalo cf.bz

theorem curl_adjoint_star (cf : Cfg K) (W : Widths K) (ref : K) (hm : MetricOK cf W ref) (hh : HalosBloch cf)
    (hr : ScalesReal cf) (H G : V3 K) :
    pairHs cf W H (curlE cf G) = pairEs cf W (curlH cf H) G := by
  rw [← sub_eq_zero]
  unfold pairHs pairEs
  rw [← sum3_sub]
  have key : ∀ i j k,
      (W.dx i * W.wy j * W.wz k * (star (H.x i j k) * (curlE cf G).x i j k)
        + W.wx i * W.dy j * W.wz k * (star (H.y i j k) * (curlE cf G).y i j k)
        + W.wx i * W.wy j * W.dz k * (star (H.z i j k) * (curlE cf G).z i j k))
      - (W.wx i * W.dy j * W.dz k * (star ((curlH cf H).x i j k) * G.x i j k)
        + W.dx i * W.wy j * W.dz k * (star ((curlH cf H).y i j k) * G.y i j k)
        + W.dx i * W.dy j * W.wz k * (star ((curlH cf H).z i j k) * G.z i j k))
      = ref * (W.dx i * W.wz k) * (star (H.x i j k) * (next1 cf.ny cf.by_ (fun j' => G.z i j' k) j - G.z i j k)
            + G.z i j k * (star (H.x i j k) - star (prev1 cf.ny cf.by_ (fun j' => H.x i j' k) j)))
        - ref * (W.dx i * W.wy j) * (star (H.x i j k) * (next1 cf.nz cf.bz (fun k' => G.y i j k') k - G.y i j k)
            + G.y i j k * (star (H.x i j k) - star (prev1 cf.nz cf.bz (fun k' => H.x i j k') k)))
        + ref * (W.wx i * W.dy j) * (star (H.y i j k) * (next1 cf.nz cf.bz (fun k' => G.x i j k') k - G.x i j k)
            + G.x i j k * (star (H.y i j k) - star (prev1 cf.nz cf.bz (fun k' => H.y i j k') k)))
        - ref * (W.dy j * W.wz k) * (star (H.y i j k) * (next1 cf.nx cf.bx (fun i' => G.z i' j k) i - G.z i j k)
            + G.z i j k * (star (H.y i j k) - star (prev1 cf.nx cf.bx (fun i' => H.y i' j k) i)))
        + ref * (W.wy j * W.dz k) * (star (H.z i j k) * (next1 cf.nx cf.bx (fun i' => G.y i' j k) i - G.y i j k)
            + G.y i j k * (star (H.z i j k) - star (prev1 cf.nx cf.bx (fun i' => H.z i' j k) i)))
        - ref * (W.wx i * W.dz k) * (star (H.z i j k) * (next1 cf.ny cf.by_ (fun j' => G.x i j' k) j - G.x i j k)
            + G.x i j k * (star (H.z i j k) - star (prev1 cf.ny cf.by_ (fun j' => H.z i j' k) j))) := by
    intro i j k
    simp only [curlE, curlH, star_sub, star_mul', hr.bx i, hr.by_ j, hr.bz k]
    exact alg ref (W.dx i) (W.dy j) (W.dz k) (W.wx i) (W.wy j) (W.wz k) (cf.sfx i) (cf.sfy j) (cf.sfz k)
      (cf.sbx i) (cf.sby j) (cf.sbz k) _ _ _ _ _ _ _ _ _ _ _ _ _ _ _ _ _ _
      (hm.fx i) (hm.fy j) (hm.fz k) (hm.bx i) (hm.by_ j) (hm.bz k)
  rw [sum3_congr _ _ _ _ _ (fun i j k _ _ _ => key i j k)]
  have r1 := residue_y_star cf.nx cf.ny cf.nz cf.by_ hh.y (fun i k => ref * (W.dx i * W.wz k)) H.x G.z
  have r2 := residue_z_star cf.nx cf.ny cf.nz cf.bz hh.z (fun i j => ref * (W.dx i * W.wy j)) H.x G.y
  have r3 := residue_z_star cf.nx cf.ny cf.nz cf.bz hh.z (fun i j => ref * (W.wx i * W.dy j)) H.y G.x
  have r4 := residue_x_star cf.nx cf.ny cf.nz cf.bx hh.x (fun j k => ref * (W.dy j * W.wz k)) H.y G.z
  have r5 := residue_x_star cf.nx cf.ny cf.nz cf.bx hh.x (fun j k => ref * (W.wy j * W.dz k)) H.z G.y
  have r6 := residue_y_star cf.nx cf.ny cf.nz cf.by_ hh.y (fun i k => ref * (W.wx i * W.dz k)) H.z G.x
  simp only [sum3_sub, sum3_add] at *
  rw [r1, r2, r3, r4, r5, r6]
  ring

end
end Fdtdx
