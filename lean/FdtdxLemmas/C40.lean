/-
Helper lemmas for C40 (functional update `aset`): association lists, naturality of `descend`/`setChild` in the
child type, heap extension, well-formed heaps and `deref`.
-/
import FdtdxModel.C40
import Mathlib.Tactic.Ring
import Mathlib.Tactic.Linarith

namespace Fdtdx.C40

/-! ### the pure specification: trees and the update of a tree at a path -/

/-- a value: a node whose children are values -/
inductive Tree where
  | mk (n : NodeF Tree)

def Tree.node : Tree → NodeF Tree
  | .mk n => n

/-- pure update of a tree at a path — the meaning of "only the addressed path changed".  Built from the same
one-level primitives as the heap model; their get/put laws are `C40_put_get`, `C40_put_other`, `C40_put_ctor`. -/
def updTree (v : Tree) (create : Bool) : List Op → Tree → Option Tree
  | [], _ => none
  | [op], t =>
    match descend t.node op create with
    | .err => none
    | _ => (setChild t.node op v).map Tree.mk
  | op :: op2 :: rest, t =>
    match descend t.node op false with
    | .child c =>
      match updTree v create (op2 :: rest) c with
      | some c' => (setChild t.node op c').map Tree.mk
      | none => none
    | _ => none

/-- the value reachable from an address, with fuel -/
def derefF (h : Heap) : Nat → Addr → Tree
  | 0, _ => .mk (.leaf "")
  | f + 1, a => .mk ((h.node a).map (derefF h f))

/-- the value reachable from an address (on a well-formed heap fuel `a+1` is enough, `derefF_eq`) -/
def deref (h : Heap) (a : Nat) : Tree := derefF h (a + 1) a

/-- children are allocated before their parents: no cycles, no dangling references -/
def WF (h : Heap) : Prop := ∀ a : Nat, a < h.size → ∀ k : Nat, k ∈ (h.node a).kids → k < a

/-- `h'` is `h` plus newly allocated cells -/
def Ext (h h' : Heap) : Prop := ∃ extra, h'.cells = h.cells ++ extra

/-! ### association lists -/

section assoc
variable {κ β γ : Type} [DecidableEq κ]

theorem assocGet_map (g : β → γ) (l : List (κ × β)) (k : κ) :
    assocGet (l.map fun p => (p.1, g p.2)) k = (assocGet l k).map g := by
  induction l with
  | nil => rfl
  | cons p rest ih =>
    obtain ⟨k', b⟩ := p
    simp only [List.map, assocGet]
    split <;> simp_all

theorem assocSet_map (g : β → γ) (l : List (κ × β)) (k : κ) (b : β) :
    (assocSet l k b).map (fun p => (p.1, g p.2)) = assocSet (l.map fun p => (p.1, g p.2)) k (g b) := by
  induction l with
  | nil => rfl
  | cons p rest ih =>
    obtain ⟨k', b'⟩ := p
    simp only [List.map, assocSet]
    split <;> simp_all

theorem assocGet_set_same (l : List (κ × β)) (k : κ) (b : β) : assocGet (assocSet l k b) k = some b := by
  induction l with
  | nil => simp [assocSet, assocGet]
  | cons p rest ih =>
    obtain ⟨k', b'⟩ := p
    simp only [assocSet]
    split <;> simp_all [assocGet]

theorem assocGet_set_other (l : List (κ × β)) (k k' : κ) (b : β) (hne : k' ≠ k) :
    assocGet (assocSet l k b) k' = assocGet l k' := by
  induction l with
  | nil => simp [assocSet, assocGet, Ne.symm hne]
  | cons p rest ih =>
    obtain ⟨k'', b'⟩ := p
    simp only [assocSet]
    split
    · rename_i h; subst h; simp [assocGet, Ne.symm hne]
    · simp [assocGet, ih]

theorem assocGet_mem (l : List (κ × β)) (k : κ) (b : β) (h : assocGet l k = some b) : b ∈ l.map (·.2) := by
  induction l with
  | nil => simp [assocGet] at h
  | cons p rest ih =>
    obtain ⟨k', b'⟩ := p
    simp only [assocGet] at h
    split at h
    · simp_all
    · simp [ih h]

theorem assocSet_mem (l : List (κ × β)) (k : κ) (b x : β) (h : x ∈ (assocSet l k b).map (·.2)) :
    x ∈ l.map (·.2) ∨ x = b := by
  induction l with
  | nil => simp_all [assocSet]
  | cons p rest ih =>
    obtain ⟨k', b'⟩ := p
    simp only [assocSet] at h
    split at h
    · simp only [List.map, List.mem_cons] at h ⊢
      rcases h with h | h
      · exact Or.inr h
      · exact Or.inl (Or.inr h)
    · simp only [List.map, List.mem_cons] at h ⊢
      rcases h with h | h
      · exact Or.inl (Or.inl h)
      · rcases ih h with h | h
        · exact Or.inl (Or.inr h)
        · exact Or.inr h

end assoc

/-! ### naturality in the child type -/

section nat
variable {β γ : Type}

theorem pyIndex_lt (len : Nat) (i : Int) (j : Nat) (h : pyIndex len i = some j) : j < len := by
  unfold pyIndex at h
  split at h
  · injection h with h; omega
  · split at h
    · injection h with h; omega
    · cases h

theorem descend_map (g : β → γ) (n : NodeF β) (op : Op) (m : Bool) :
    descend (n.map g) op m = (descend n op m).map g := by
  cases n with
  | leaf v => cases op <;> rfl
  | obj c fs =>
    cases op <;> simp only [NodeF.map, descend, Res.map]
    rw [assocGet_map]; cases assocGet fs _ <;> simp only [Option.map]; split <;> rfl
  | list xs =>
    cases op <;> simp only [NodeF.map, descend, Res.map]
    rw [List.length_map]
    cases pyIndex xs.length _ with
    | none => rfl
    | some j => simp only [List.getElem?_map]; cases xs[j]? <;> rfl
  | tuple xs =>
    cases op <;> simp only [NodeF.map, descend, Res.map]
    rw [List.length_map]
    cases pyIndex xs.length _ with
    | none => rfl
    | some j => simp only [List.getElem?_map]; cases xs[j]? <;> rfl
  | dict es =>
    cases op <;> simp only [NodeF.map, descend, Res.map]
    · rw [assocGet_map]; cases assocGet es _ <;> rfl
    · rw [assocGet_map]; cases assocGet es _ <;> simp only [Option.map]; split <;> rfl

theorem setChild_map (g : β → γ) (n : NodeF β) (op : Op) (b : β) :
    setChild (n.map g) op (g b) = (setChild n op b).map (NodeF.map g) := by
  cases n <;> cases op <;> simp only [NodeF.map, setChild, Option.map]
  · rw [assocSet_map]
  · rw [List.length_map]; cases pyIndex _ _ <;> simp [List.map_set]
  · rw [assocSet_map]
  · rw [assocSet_map]

theorem NodeF.map_congr (g g' : β → γ) (n : NodeF β) (h : ∀ k ∈ n.kids, g k = g' k) : n.map g = n.map g' := by
  cases n <;> simp only [NodeF.map, NodeF.kids] at * <;> try rfl
  all_goals congr 1; apply List.map_congr_left; intro p hp
  · rw [h p.2 (List.mem_map_of_mem hp)]
  · exact h p hp
  · exact h p hp
  · rw [h p.2 (List.mem_map_of_mem hp)]

theorem descend_kid (n : NodeF β) (op : Op) (m : Bool) (c : β) (h : descend n op m = .child c) : c ∈ n.kids := by
  cases n <;> cases op <;> simp only [descend, NodeF.kids] at * <;> try cases h
  · split at h
    · rename_i hb; injection h with h; subst h; exact assocGet_mem _ _ _ hb
    · split at h <;> cases h
  · split at h
    · split at h
      · rename_i hb; injection h with h; subst h; exact List.mem_of_getElem? hb
      · cases h
    · cases h
  · split at h
    · split at h
      · rename_i hb; injection h with h; subst h; exact List.mem_of_getElem? hb
      · cases h
    · cases h
  · split at h
    · rename_i hb; injection h with h; subst h; exact assocGet_mem _ _ _ hb
    · cases h
  · split at h
    · rename_i hb; injection h with h; subst h; exact assocGet_mem _ _ _ hb
    · split at h <;> cases h

theorem setChild_kids (n n' : NodeF β) (op : Op) (b : β) (h : setChild n op b = some n') :
    ∀ k ∈ n'.kids, k ∈ n.kids ∨ k = b := by
  intro k hk
  cases n <;> cases op <;> simp only [setChild] at h <;> try cases h
  · simp only [NodeF.kids] at hk ⊢; exact assocSet_mem _ _ _ _ hk
  · cases hp : pyIndex _ _ with
    | none => rw [hp] at h; cases h
    | some j =>
      rw [hp] at h; simp only [Option.map] at h; injection h with h; subst h
      simp only [NodeF.kids] at hk ⊢
      rcases List.mem_or_eq_of_mem_set hk with h | h
      · exact Or.inl h
      · exact Or.inr h
  · simp only [NodeF.kids] at hk ⊢; exact assocSet_mem _ _ _ _ hk
  · simp only [NodeF.kids] at hk ⊢; exact assocSet_mem _ _ _ _ hk

theorem setChild_ctor (n n' : NodeF β) (op : Op) (b : β) (h : setChild n op b = some n') : n'.ctor = n.ctor := by
  cases n <;> cases op <;> simp only [setChild] at h <;> try cases h
  · rfl
  · cases hp : pyIndex _ _ with
    | none => rw [hp] at h; cases h
    | some j => rw [hp] at h; simp only [Option.map] at h; injection h with h; subst h; rfl
  · rfl
  · rfl

end nat

/-! ### heaps -/

theorem Ext.refl (h : Heap) : Ext h h := ⟨[], by simp⟩

theorem Ext.trans {h1 h2 h3 : Heap} (a : Ext h1 h2) (b : Ext h2 h3) : Ext h1 h3 := by
  obtain ⟨e1, h1e⟩ := a
  obtain ⟨e2, h2e⟩ := b
  exact ⟨e1 ++ e2, by rw [h2e, h1e, List.append_assoc]⟩

theorem Ext.size_le {h h' : Heap} (e : Ext h h') : h.size ≤ h'.size := by
  obtain ⟨ex, he⟩ := e
  simp [Heap.size, he]

theorem Ext.node {h h' : Heap} (e : Ext h h') (a : Nat) (ha : a < h.size) : h'.node a = h.node a := by
  obtain ⟨ex, he⟩ := e
  unfold Heap.node Heap.size at *
  rw [he, List.getD_eq_getElem?_getD, List.getD_eq_getElem?_getD, List.getElem?_append_left ha]

theorem alloc_ext (h : Heap) (n : Node) : Ext h (h.alloc n).1 := ⟨[n], rfl⟩

theorem alloc_size (h : Heap) (n : Node) : (h.alloc n).1.size = h.size + 1 := by
  simp [Heap.alloc, Heap.size]

theorem alloc_addr (h : Heap) (n : Node) : (h.alloc n).2 = h.size := rfl

theorem alloc_node (h : Heap) (n : Node) : (h.alloc n).1.node h.size = n := by
  simp [Heap.alloc, Heap.node, Heap.size, List.getD_eq_getElem?_getD]

theorem alloc_wf (h : Heap) (n : Node) (hwf : WF h) (hn : ∀ k ∈ n.kids, k < h.size) : WF (h.alloc n).1 := by
  intro a ha k hk
  rw [alloc_size] at ha
  by_cases hlt : a < h.size
  · rw [(alloc_ext h n).node a hlt] at hk
    exact hwf a hlt k hk
  · have : a = h.size := by omega
    subst this
    rw [alloc_node] at hk
    exact hn k hk

/-! ### deref on well-formed heaps -/

theorem derefF_unfold (h : Heap) (hwf : WF h) : ∀ f a, a < f → a < h.size →
    derefF h f a = .mk ((h.node a).map (fun k => derefF h (k + 1) k)) := by
  intro f
  induction f using Nat.strong_induction_on with
  | _ f ih =>
    intro a haf ha
    cases f with
    | zero => omega
    | succ f' =>
      show Tree.mk ((h.node a).map (derefF h f')) = _
      congr 1
      apply NodeF.map_congr
      intro (k : Nat) hk
      have hka : k < a := hwf a ha k hk
      have e1 := ih f' (by omega) k (by omega) (by omega)
      have e2 := ih (k + 1) (by omega) k (by omega) (by omega)
      show derefF h f' k = derefF h (k + 1) k
      rw [e1, e2]

theorem deref_unfold (h : Heap) (hwf : WF h) (a : Nat) (ha : a < h.size) :
    deref h a = .mk ((h.node a).map (deref h)) :=
  derefF_unfold h hwf (a + 1) a (by omega) ha

/-- more fuel than the address changes nothing -/
theorem derefF_eq (h : Heap) (hwf : WF h) (f a : Nat) (haf : a < f) (ha : a < h.size) : derefF h f a = deref h a := by
  rw [derefF_unfold h hwf f a haf ha]; exact (deref_unfold h hwf a ha).symm

/-- values of old addresses are the same in an extended heap -/
theorem deref_ext {h h' : Heap} (hwf : WF h) (e : Ext h h') : ∀ f a, a < h.size → derefF h' f a = derefF h f a := by
  intro f
  induction f with
  | zero => intro a _; rfl
  | succ f ih =>
    intro a ha
    simp only [derefF]
    rw [e.node a ha]
    congr 1
    apply NodeF.map_congr
    intro (k : Nat) hk
    exact ih k (by exact Nat.lt_trans (hwf a ha k hk) ha)

theorem deref_ext' {h h' : Heap} (hwf : WF h) (e : Ext h h') (a : Nat) (ha : a < h.size) : deref h' a = deref h a :=
  deref_ext hwf e (a + 1) a ha

end Fdtdx.C40
