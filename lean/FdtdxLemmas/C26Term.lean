/-
Termination of the solver loop: every iteration that does not stop assigns at least one of the finitely many
object slots, so a run cannot use more than `9 * #objects` productive passes (provided the volume's size is
known, which is what the extension step writes).
-/
import FdtdxLemmas.C26Sys

namespace Fdtdx.C26

variable {α : Type} [Add α] [Sub α] [Mul α] [Div α] [Neg α] [LT α] [DecidableLT α]
  [OfNat α 0] [OfNat α 1] [OfNat α 2]

set_option linter.unusedSectionVars false

/-- number of still unknown slots among `vars` -/
def unk (vars : List Var) (σ : St) : Nat := vars.countP fun v => (σ v).isNone

theorem unk_le_of_le {σ σ' : St} (h : σ.le σ') : ∀ vars : List Var, unk vars σ' ≤ unk vars σ
  | [] => by simp [unk]
  | v :: vs => by
    have ih := unk_le_of_le h vs
    unfold unk at ih ⊢
    simp only [List.countP_cons]
    cases hv : σ v with
    | none =>
      simp only [Option.isNone_none, if_true]
      split <;> omega
    | some x =>
      have := h v x hv
      simp [this]
      exact ih

theorem unk_lt_of_le {σ σ' : St} (h : σ.le σ') : ∀ (vars : List Var) (v : Var), v ∈ vars → σ v = none →
    (∃ x, σ' v = some x) → unk vars σ' < unk vars σ
  | [], v, hv, _, _ => by cases hv
  | w :: ws, v, hv, hn, hs => by
    have hle := unk_le_of_le h ws
    unfold unk at hle ⊢
    simp only [List.countP_cons]
    rcases List.mem_cons.1 hv with e | e
    · subst e
      obtain ⟨x, hx⟩ := hs
      simp [hn, hx]
      omega
    · have ih := unk_lt_of_le h ws v e hn hs
      unfold unk at ih
      cases hw : σ w with
      | none =>
        simp only [Option.isNone_none, if_true]
        split <;> omega
      | some x =>
        have := h w x hw
        simp [this]
        exact ih

theorem unk_le_length (vars : List Var) (σ : St) : unk vars σ ≤ vars.length := List.countP_le_length

/-! ### a pass that reports a change assigned a target -/

theorem runGroup_chg (c : Bool) : ∀ (as : List Atom) (σ : St) (chg : Bool) {σ' : St} {c' e' : Bool},
    runGroup c as σ chg = .ok σ' c' e' → c' = true →
    chg = true ∨ ∃ a ∈ as, σ a.target = none ∧ ∃ x, σ' a.target = some x
  | [], σ, chg, σ', c', e', h, hc => by
    simp [runGroup] at h
    left; rw [h.2.1]; exact hc
  | a :: as, σ, chg, σ', c', e', h, hc => by
    unfold runGroup at h
    split at h
    · rcases runGroup_chg c as σ chg h hc with h1 | ⟨b, hb, h2⟩
      · exact Or.inl h1
      · exact Or.inr ⟨b, by simp [hb], h2⟩
    · rcases runGroup_chg c as σ chg h hc with h1 | ⟨b, hb, h2⟩
      · exact Or.inl h1
      · exact Or.inr ⟨b, by simp [hb], h2⟩
    · rename_i x hx
      obtain ⟨vs, _, _, ht⟩ := (eval_set_iff a σ x).1 hx
      right
      refine ⟨a, by simp, ht, x, ?_⟩
      have := runGroup_mono c as _ true h
      exact this a.target x (by simp [St.set])
    · split at h
      · simp at h; rw [h.2.1] at hc; cases hc
      · split at h
        · rename_i σ'' c'' _ hr
          simp at h
          rcases runGroup_chg c as σ chg hr (by rw [h.2.1]; exact hc) with h1 | ⟨b, hb, h2⟩
          · exact Or.inl h1
          · exact Or.inr ⟨b, by simp [hb], by rw [← h.1]; exact h2⟩
        · cases h
    · split at h
      · simp at h; rw [h.2.1] at hc; cases hc
      · cases h

theorem runGroups_chg : ∀ (gs : List Group) (s s' : PS), runGroups gs s = some s' → s'.chg = true →
    s.chg = true ∨ ∃ a ∈ allAtoms gs, s.σ a.target = none ∧ ∃ x, s'.σ a.target = some x
  | [], s, s', h, hc => by simp [runGroups] at h; subst h; exact Or.inl hc
  | g :: gs, s, s', h, hc => by
    unfold runGroups at h
    split at h
    · cases h
    · rename_i σ1 c1 e1 hg
      obtain ⟨hm, _, _⟩ := runGroups_mono gs _ s' h
      simp only at hm
      rcases runGroups_chg gs _ s' h hc with h1 | ⟨a, ha, hn, x, hx⟩
      · simp only [Bool.or_eq_true] at h1
        rcases h1 with h1 | h1
        · exact Or.inl h1
        · rcases runGroup_chg g.caught g.atoms s.σ false hg h1 with h2 | ⟨a, ha, hn, x, hx⟩
          · cases h2
          · exact Or.inr ⟨a, mem_allAtoms.2 ⟨g, by simp, ha⟩, hn, x, hm _ _ hx⟩
      · right
        obtain ⟨g', hg', ha'⟩ := mem_allAtoms.1 ha
        refine ⟨a, mem_allAtoms.2 ⟨g', by simp [hg'], ha'⟩, ?_, x, hx⟩
        have hm1 := runGroup_mono g.caught g.atoms s.σ false hg
        cases hs : s.σ a.target with
        | none => rfl
        | some y => have := hm1 _ _ hs; simp only at hn; rw [hn] at this; cases this

/-- every target of every atom is one of `vars` -/
def TargetsIn (gs : List Group) (vars : List Var) : Prop := ∀ a ∈ allAtoms gs, a.target ∈ vars

theorem pass_decreases {gs : List Group} {vars : List Var} (ht : TargetsIn gs vars) {σ : St} {e : List Nat} {s : PS}
    (h : runGroups gs ⟨σ, e, false⟩ = some s) (hc : s.chg = true) : unk vars s.σ < unk vars σ := by
  obtain ⟨hm, _, _⟩ := runGroups_mono gs _ s h
  rcases runGroups_chg gs _ s h hc with h1 | ⟨a, ha, hn, hx⟩
  · cases h1
  · exact unk_lt_of_le hm vars a.target (ht a ha) hn hx

/-! ### an extension step that reports a change assigned a slot (when the volume's size is known) -/

/-- the volume's size is known on every axis -/
def VolSized (sys : Sys α) (σ : St) : Prop := ∀ ax, ax < 3 → ∃ x, σ ⟨volId sys, ax, .size⟩ = some x

theorem VolSized.mono {sys : Sys α} {σ σ' : St} (h : VolSized sys σ) (hle : σ.le σ') : VolSized sys σ' :=
  fun ax hax => let ⟨x, hx⟩ := h ax hax; ⟨x, hle _ _ hx⟩

theorem ext_decreases {sys : Sys α} {σ : St} (hv : VolSized sys σ) (hc : extChanged sys σ = true) :
    unk (objVars sys) (extend sys σ) < unk (objVars sys) σ := by
  unfold extChanged at hc
  simp only [List.any_eq_true, Bool.or_eq_true] at hc
  obtain ⟨o, ho, ax, hax, hx⟩ := hc
  have hax3 : ax < 3 := by unfold axes3 at hax; simp at hax; omega
  have key : ∀ v : Var, v.o = o.id → v.ax = ax → extends_ sys σ v = true →
      unk (objVars sys) (extend sys σ) < unk (objVars sys) σ := by
    intro v h1 h2 hext
    refine unk_lt_of_le (extend_mono sys σ) _ v (mem_objVars.2 ⟨⟨o, ho, h1.symm⟩, by rw [h2]; exact hax3⟩)
      (extends_none hext) ?_
    rw [extend_eq]
    unfold extendPt
    simp only [hext, if_true]
    cases hk : v.k with
    | lo => exact ⟨0, rfl⟩
    | hi => simp only; rw [h2]; exact hv ax hax3
    | size => unfold extends_ at hext; simp [hk] at hext
  rcases hx with hx | hx
  · exact key ⟨o.id, ax, .lo⟩ rfl rfl hx
  · exact key ⟨o.id, ax, .hi⟩ rfl rfl hx

/-- a run that exhausts `n` passes assigned at least `n` slots -/
theorem exhausts_le {sys : Sys α} {gs : List Group} (ht : TargetsIn gs (objVars sys)) :
    ∀ {n : Nat} {σ : St} {e : List Nat}, Exhausts sys gs n σ e → VolSized sys σ → n ≤ unk (objVars sys) σ := by
  intro n σ e h
  induction h with
  | zero σ e => intro _; exact Nat.zero_le _
  | pass hrun hc _ ih =>
    intro hv
    obtain ⟨hm, _, _⟩ := runGroups_mono gs _ _ hrun
    have := ih (hv.mono hm)
    have := pass_decreases ht hrun hc
    omega
  | ext hrun hc hx _ ih =>
    intro hv
    obtain ⟨hm, _, _⟩ := runGroups_mono gs _ _ hrun
    have hv1 := hv.mono hm
    have := ih (hv1.mono (extend_mono sys _))
    have h1 := ext_decreases hv1 hx
    have h2 := unk_le_of_le hm (objVars sys)
    simp only at h2
    omega

theorem length_objVars (sys : Sys α) : (objVars sys).length = 9 * sys.objs.length := by
  unfold objVars
  induction sys.objs with
  | nil => simp
  | cons o os ih => simp [List.flatMap_cons, axes3, ih]; omega

theorem not_exhausts {sys : Sys α} {gs : List Group} (ht : TargetsIn gs (objVars sys)) {n : Nat} {σ : St}
    {e : List Nat} (hv : VolSized sys σ) (hn : 9 * sys.objs.length < n) : ¬ Exhausts sys gs n σ e := by
  intro h
  have h1 := exhausts_le ht h hv
  have h2 := unk_le_length (objVars sys) σ
  rw [length_objVars] at h2
  omega

/-! ### the targets of compiled atoms are object slots -/

def Con.axesOK : Con α → Bool
  | .gridc _ es => es.all fun e => decide (e.1 < 3)
  | .realc _ es => es.all fun e => decide (e.1 < 3)
  | .pos _ _ es => es.all fun e => decide (e.ax < 3)
  | .size _ _ es => es.all fun e => decide (e.ax < 3)
  | .ext _ _ ax _ _ _ _ => decide (ax < 3)

/-- every constraint names axes 0, 1, 2 only (anything else is an IndexError in the code) -/
def axesOK (sys : Sys α) : Bool := sys.cons.all Con.axesOK

theorem conAtoms_target (g : Grid α) (vol : Nat) (c : Con α) (hc : c.axesOK = true) :
    ∀ a ∈ c.atoms g vol false, a.target.o = c.owner ∧ a.target.ax < 3 := by
  intro a ha
  cases c with
  | gridc o es =>
    simp only [Con.axesOK, List.all_eq_true, decide_eq_true_eq] at hc
    simp only [Con.atoms] at ha
    split at ha
    · simp [raiseAtom] at ha; subst ha; exact ⟨rfl, by simp⟩
    · simp only [List.mem_map] at ha
      obtain ⟨⟨ax, hi, c⟩, he, rfl⟩ := ha
      exact ⟨rfl, hc _ he⟩
  | realc o es =>
    simp only [Con.axesOK, List.all_eq_true, decide_eq_true_eq] at hc
    simp only [Con.atoms, List.mem_map] at ha
    obtain ⟨⟨ax, hi, c⟩, he, rfl⟩ := ha
    exact ⟨rfl, hc _ he⟩
  | pos o t es =>
    simp only [Con.axesOK, List.all_eq_true, decide_eq_true_eq] at hc
    simp only [Con.atoms, List.mem_flatMap, List.mem_append, List.mem_cons] at ha
    obtain ⟨e, he, h | h | h | h⟩ := ha
    · unfold offsetGuard at h
      split at h
      · simp [raiseAtom] at h; obtain ⟨_, rfl⟩ := h; exact ⟨rfl, hc e he⟩
      · simp at h
    · subst h; exact ⟨rfl, hc e he⟩
    · subst h; exact ⟨rfl, hc e he⟩
    · simp at h
  | size o t es =>
    simp only [Con.axesOK, List.all_eq_true, decide_eq_true_eq] at hc
    simp only [Con.atoms, List.mem_flatMap, List.mem_append, List.mem_cons] at ha
    obtain ⟨e, he, h | h | h⟩ := ha
    · unfold offsetGuard at h
      split at h
      · simp [raiseAtom] at h; obtain ⟨_, rfl⟩ := h; exact ⟨rfl, hc e he⟩
      · simp at h
    · subst h; exact ⟨rfl, hc e he⟩
    · simp at h
  | ext o t ax hi opos off goff =>
    simp only [Con.axesOK, decide_eq_true_eq] at hc
    simp only [Con.atoms, List.mem_append] at ha
    rcases ha with h | h
    · unfold offsetGuard at h
      split at h
      · simp [raiseAtom] at h; obtain ⟨_, rfl⟩ := h; exact ⟨rfl, hc⟩
      · simp at h
    · cases t with
      | some t => simp at h; subst h; exact ⟨rfl, hc⟩
      | none => simp at h; subst h; exact ⟨rfl, hc⟩

theorem mem_axes3' {ax : Nat} (h : ax ∈ axes3) : ax < 3 := by
  unfold axes3 at h; simp at h; omega

theorem targetsIn_groups {sys : Sys α} (hwf : wellFormed sys = true) (hax : axesOK sys = true) :
    TargetsIn (groups sys) (objVars sys) := by
  intro a ha
  obtain ⟨gr, hgr, hag⟩ := mem_allAtoms.1 ha
  rcases mem_groups.1 hgr with ⟨o, ho, h⟩ | ⟨o, ho, h⟩ | ⟨o, ho, h⟩ | ⟨c, hc, rfl⟩
  · simp only [Obj.posGroups, List.mem_flatMap] at h
    obtain ⟨ax, hax3, h⟩ := h
    split at h
    · simp at h
    · simp at h
      rcases h with rfl | rfl <;>
        (simp at hag; subst hag; exact mem_objVars.2 ⟨⟨o, ho, rfl⟩, mem_axes3' hax3⟩)
  · simp only [sliceGroups, List.mem_map] at h
    obtain ⟨ax, hax3, rfl⟩ := h
    simp at hag
    rcases hag with rfl | rfl <;> exact mem_objVars.2 ⟨⟨o, ho, rfl⟩, mem_axes3' hax3⟩
  · simp only [shapeGroups, List.mem_map] at h
    obtain ⟨ax, hax3, rfl⟩ := h
    simp at hag
    subst hag
    exact mem_objVars.2 ⟨⟨o, ho, rfl⟩, mem_axes3' hax3⟩
  · have hcax : c.axesOK = true := by
      unfold axesOK at hax
      exact (List.all_eq_true.1 hax) c hc
    obtain ⟨h1, h2⟩ := conAtoms_target sys.grid (volId sys) c hcax a hag
    have hown : isObj sys c.owner = true := by
      unfold wellFormed at hwf
      simp only [Bool.and_eq_true, List.all_eq_true] at hwf
      exact (hwf.2 c hc).1
    obtain ⟨o, ho, hid⟩ := isObj_iff.1 hown
    exact mem_objVars.2 ⟨⟨o, ho, by rw [hid, h1]⟩, h2⟩

theorem PermSys.axesOK {sA sB : Sys α} (p : PermSys sA sB) : axesOK sB = axesOK sA := all_perm p.cons _

/-- the volume's size is known before the first pass (it declares `partial_grid_shape` or `partial_real_shape`
on every axis — what `_resolve_grid_from_volume` demands for every grid policy) -/
def volSizedInit (sys : Sys α) : Bool :=
  match init sys with
  | some σ₀ => axes3.all fun ax => (σ₀ ⟨volId sys, ax, .size⟩).isSome
  | none => true

theorem volSizedInit_spec {sys : Sys α} (h : volSizedInit sys = true) {σ₀ : St} (hi : init sys = some σ₀) :
    VolSized sys σ₀ := by
  unfold volSizedInit at h
  rw [hi] at h
  simp only [List.all_eq_true] at h
  intro ax hax
  have hmem : ax ∈ axes3 := by
    unfold axes3
    have : ax = 0 ∨ ax = 1 ∨ ax = 2 := by omega
    simpa using this
  have := h ax hmem
  exact Option.isSome_iff_exists.1 this


end Fdtdx.C26
