/- C25 helper lemmas: `argmax` of `where(mask, values, -inf)` returns an index at which the mask holds whenever the mask
holds somewhere; indexing of the flattened array. -/
import FdtdxLemmas.C25Basic

namespace Fdtdx.C25

section argmax
variable {α : Type} [LT α] [DecidableRel (α := α) (· < ·)]

theorem gtOpt_some {y best : Option α} (h : gtOpt y best = true) : ∃ a, y = some a := by
  cases y with
  | none => simp [gtOpt] at h
  | some a => exact ⟨a, rfl⟩

theorem go_spec : ∀ (ys pre : List (Option α)) (best : Option α) (bi : Nat),
    pre[bi]? = some best → (best = none → ∀ e ∈ pre, e = none) →
    (pre ++ ys)[(argmaxOpt.go best bi pre.length ys).1]? = some (argmaxOpt.go best bi pre.length ys).2 ∧
      ((argmaxOpt.go best bi pre.length ys).2 = none → ∀ e ∈ pre ++ ys, e = none) := by
  intro ys
  induction ys with
  | nil =>
    intro pre best bi h1 h2
    simp only [argmaxOpt.go, List.append_nil]
    exact ⟨h1, h2⟩
  | cons y ys ih =>
    intro pre best bi h1 h2
    have hlen : (pre ++ [y]).length = pre.length + 1 := by simp
    have happ : pre ++ y :: ys = (pre ++ [y]) ++ ys := by simp
    have hbi : bi < pre.length := by
      by_contra hc
      rw [List.getElem?_eq_none (by omega)] at h1; exact absurd h1 (by simp)
    simp only [argmaxOpt.go]
    by_cases hy : gtOpt y best = true
    · rw [if_pos hy, happ, ← hlen]
      apply ih (pre ++ [y]) y pre.length
      · simp
      · intro hn
        obtain ⟨a, ha⟩ := gtOpt_some hy
        rw [ha] at hn; exact absurd hn (by simp)
    · rw [if_neg hy, happ, ← hlen]
      apply ih (pre ++ [y]) best bi
      · rw [List.getElem?_append_left hbi]; exact h1
      · intro hn e he
        simp only [List.mem_append, List.mem_singleton] at he
        rcases he with he | rfl
        · exact h2 hn e he
        · subst hn
          cases e with
          | none => rfl
          | some a => simp [gtOpt] at hy

/-- `argmax`/`max` of a non-empty list of values-or-`-inf`: the maximum sits at the returned index, and it is `-inf` only
if every entry is -/
theorem argmaxOpt_spec (l : List (Option α)) (hl : l ≠ []) :
    l[(argmaxOpt l).1]? = some (argmaxOpt l).2 ∧ ((argmaxOpt l).2 = none → ∀ e ∈ l, e = none) := by
  cases l with
  | nil => exact absurd rfl hl
  | cons x xs =>
    have := go_spec xs [x] x 0 (by simp) (by intro h e he; simp at he; rw [he, h])
    simpa [argmaxOpt] using this

end argmax

/-! ### the flattened, masked value array -/

theorem flat_getElem {β : Type} (w : Nat) (f : Nat → Nat → β) : ∀ (h idx : Nat) (x : β),
    ((List.range h).flatMap fun i => (List.range w).map fun j => f i j)[idx]? = some x →
    ∃ i j, i < h ∧ j < w ∧ idx = i * w + j ∧ x = f i j := by
  intro h
  induction h with
  | zero => intro idx x hx; simp at hx
  | succ h ih =>
    intro idx x hx
    rw [List.range_succ, List.flatMap_append] at hx
    have hlen : ((List.range h).flatMap fun i => (List.range w).map fun j => f i j).length = h * w := by
      clear ih hx
      induction h with
      | zero => simp
      | succ h ih2 => rw [List.range_succ, List.flatMap_append, List.length_append, ih2]; simp [Nat.succ_mul]
    rcases Nat.lt_or_ge idx (h * w) with hlt | hge
    · rw [List.getElem?_append_left (by rw [hlen]; exact hlt)] at hx
      obtain ⟨i, j, hi, hj, he, hxx⟩ := ih idx x hx
      exact ⟨i, j, by omega, hj, he, hxx⟩
    · rw [List.getElem?_append_right (by rw [hlen]; exact hge), hlen] at hx
      simp only [List.flatMap_cons, List.flatMap_nil, List.append_nil, List.getElem?_map] at hx
      have hj : idx - h * w < w := by
        by_contra hc
        rw [List.getElem?_eq_none (by simp; omega)] at hx; simp at hx
      rw [List.getElem?_range hj] at hx
      simp only [Option.map_some, Option.some.injEq] at hx
      exact ⟨h, idx - h * w, by omega, hj, by omega, hx.symm⟩

theorem flat_mem {β : Type} (w h : Nat) (f : Nat → Nat → β) (i j : Nat) (hi : i < h) (hj : j < w) :
    f i j ∈ ((List.range h).flatMap fun i => (List.range w).map fun j => f i j) := by
  simp only [List.mem_flatMap, List.mem_range, List.mem_map]
  exact ⟨i, hi, j, hj, rfl⟩

theorem masked_ne_nil {α : Type} (d : Dims) (mask : Tab) (vals : Nat → α) {i j : Nat} (hin : inb d i j = true) :
    masked d mask vals ≠ [] := by
  simp only [inb, Bool.and_eq_true, decide_eq_true_eq] at hin
  intro h
  have := flat_mem d.w d.h (fun i j => if look mask i j then some (vals (i * d.w + j)) else none) i j hin.1 hin.2
  unfold masked at h
  rw [h] at this; simp at this

/-- if the mask holds somewhere in the domain, the flat index returned by `argmax` is an in-domain position where the
mask holds, and the returned maximum is a real value (not -inf) -/
theorem argmax_masked {α : Type} [LT α] [DecidableRel (α := α) (· < ·)] (d : Dims) (mask : Tab) (vals : Nat → α)
    (hex : ∃ i j, inb d i j = true ∧ look mask i j = true) :
    (∃ a, (argmaxOpt (masked d mask vals)).2 = some a) ∧
    ∃ i j, inb d i j = true ∧ (argmaxOpt (masked d mask vals)).1 = i * d.w + j ∧ look mask i j = true := by
  obtain ⟨i0, j0, hin0, hm0⟩ := hex
  have hb0 := hin0
  simp only [inb, Bool.and_eq_true, decide_eq_true_eq] at hb0
  obtain ⟨h1, h2⟩ := argmaxOpt_spec (masked d mask vals) (masked_ne_nil d mask vals hin0)
  have hsome : ∃ a, (argmaxOpt (masked d mask vals)).2 = some a := by
    cases hv : (argmaxOpt (masked d mask vals)).2 with
    | some a => exact ⟨a, rfl⟩
    | none =>
      have hmem := flat_mem d.w d.h (fun i j => if look mask i j then some (vals (i * d.w + j)) else none) i0 j0 hb0.1 hb0.2
      have := h2 hv _ hmem
      simp [hm0] at this
  refine ⟨hsome, ?_⟩
  obtain ⟨a, ha⟩ := hsome
  unfold masked at h1
  obtain ⟨i, j, hi, hj, hidx, hx⟩ := flat_getElem d.w _ d.h _ _ h1
  refine ⟨i, j, by simp [inb, hi, hj], hidx, ?_⟩
  unfold masked at ha
  rw [ha] at hx
  by_cases hm : look mask i j = true
  · exact hm
  · simp [hm] at hx

end Fdtdx.C25
