/-
Lemmas for the path-parser round trip of C40: `parseChars (renderChars ops) = some ops`.
-/
import FdtdxModel.C40
import Mathlib.Tactic.Ring
import Mathlib.Tactic.Linarith

namespace Fdtdx.C40

/-! ### digits -/

theorem digit_facts : ∀ d, d < 10 →
    isDigitC (digitChar d) = true ∧ (digitChar d).toNat - '0'.toNat = d ∧ isSpace (digitChar d) = false ∧
    digitChar d ≠ ']' ∧ digitChar d ≠ '-' ∧ digitChar d ≠ '\'' := by decide

theorem digitsVal_append (xs : List Char) (c : Char) :
    digitsVal (xs ++ [c]) = digitsVal xs * 10 + (c.toNat - '0'.toNat) := by
  simp [digitsVal, List.foldl_append]

theorem natDigits_spec (n : Nat) :
    (natDigits n).all isDigitC = true ∧ digitsVal (natDigits n) = n ∧ natDigits n ≠ [] := by
  induction n using Nat.strong_induction_on with
  | _ n ih =>
    rw [natDigits]
    split
    · rename_i h
      obtain ⟨h1, h2, _⟩ := digit_facts n h
      have h2' : (digitChar n).toNat - 48 = n := h2
      refine ⟨by simp [h1], ?_, by simp⟩
      simp [digitsVal, h2']
    · rename_i h
      obtain ⟨a, b, c⟩ := ih (n / 10) (by omega)
      obtain ⟨h1, h2, _⟩ := digit_facts (n % 10) (by omega)
      refine ⟨by simp [List.all_append, a, h1], ?_, by simp⟩
      rw [digitsVal_append, b, h2]; omega

theorem natDigits_mem (n : Nat) (c : Char) (h : c ∈ natDigits n) : isDigitC c = true := by
  have := (natDigits_spec n).1
  rw [List.all_eq_true] at this
  exact this c h

theorem digit_char_props (c : Char) (h : isDigitC c = true) : isSpace c = false ∧ c ≠ ']' ∧ c ≠ '-' ∧ c ≠ '\'' := by
  have hh : '0' ≤ c ∧ c ≤ '9' := by simpa [isDigitC] using h
  have h1 : 48 ≤ c.toNat := hh.1
  have h2 : c.toNat ≤ 57 := hh.2
  refine ⟨?_, ?_, ?_, ?_⟩
  · simp only [isSpace, Bool.or_eq_false_iff, Bool.and_eq_false_iff, decide_eq_false_iff_not]
    constructor
    · right; omega
    · right; omega
  · intro e; subst e; exact absurd h2 (by decide)
  · intro e; subst e; exact absurd h1 (by decide)
  · intro e; subst e; exact absurd h1 (by decide)

theorem allDigits_natDigits (n : Nat) : allDigits (natDigits n) = true := by
  obtain ⟨a, _, c⟩ := natDigits_spec n
  unfold allDigits
  cases h : natDigits n with
  | nil => exact absurd h c
  | cons x xs => rw [h] at a; simpa using a

/-! ### strip -/

theorem stripL_of_head (c : Char) (cs : List Char) (h : isSpace c = false) : stripL (c :: cs) = c :: cs := by
  simp [stripL, h]

theorem strip_id (cs : List Char) (a b : Char) (ha : cs.head? = some a) (hb : cs.getLast? = some b)
    (hsa : isSpace a = false) (hsb : isSpace b = false) : strip cs = cs := by
  unfold strip
  have h1 : stripL cs = cs := by
    cases cs with
    | nil => cases ha
    | cons x xs => simp at ha; subst ha; exact stripL_of_head _ _ hsa
  rw [h1]
  have h2 : cs.reverse.head? = some b := by rw [List.head?_reverse]; exact hb
  cases hr : cs.reverse with
  | nil => rw [hr] at h2; cases h2
  | cons x xs =>
    rw [hr] at h2; simp at h2; subst h2
    rw [stripL_of_head _ _ hsb, ← hr, List.reverse_reverse]

/-! ### the bracket contents produced by the renderer -/

theorem bracket_nat (n : Nat) : bracketOp (strip (natDigits n)) = some (.idx n) := by
  obtain ⟨_, hv, hne⟩ := natDigits_spec n
  have hstrip : strip (natDigits n) = natDigits n := by
    cases hh : (natDigits n).head? with
    | none => cases h : natDigits n <;> simp_all
    | some a =>
      cases hl : (natDigits n).getLast? with
      | none => cases h : natDigits n <;> simp_all
      | some b =>
        exact strip_id _ a b hh hl (digit_char_props a (natDigits_mem n a (List.mem_of_mem_head? hh))).1
          (digit_char_props b (natDigits_mem n b (List.mem_of_getLast? hl))).1
  rw [hstrip]
  unfold bracketOp
  rw [if_pos (allDigits_natDigits n), hv]

theorem bracket_neg (n : Nat) : bracketOp (strip ('-' :: natDigits n)) = some (.idx (-(n : Int))) := by
  obtain ⟨_, hv, hne⟩ := natDigits_spec n
  have hstrip : strip ('-' :: natDigits n) = '-' :: natDigits n := by
    cases hl : ('-' :: natDigits n).getLast? with
    | none => simp at hl
    | some b =>
      have hb : b ∈ natDigits n := by
        have : ('-' :: natDigits n).getLast? = (natDigits n).getLast? := by
          cases h : natDigits n with
          | nil => exact absurd h hne
          | cons x xs => simp [List.getLast?_cons_cons]
        rw [this] at hl
        exact List.mem_of_getLast? hl
      exact strip_id _ '-' b rfl hl (by decide) (digit_char_props b (natDigits_mem n b hb)).1
  rw [hstrip]
  unfold bracketOp
  have h1 : allDigits ('-' :: natDigits n) = false := by
    simp [allDigits, isDigitC]
  rw [if_neg (by simp [h1])]
  simp only [allDigits_natDigits n, if_true, hv]

theorem bracket_int (i : Int) : bracketOp (strip (intChars i)) = some (.idx i) := by
  unfold intChars
  split
  · rename_i h
    rw [bracket_neg]
    congr 2; omega
  · rename_i h
    rw [bracket_nat]
    congr 2; omega

theorem bracket_key (k : List Char) (hk : k.all (fun c => !(c == '\'' || c == '[' || c == ']')) = true) :
    bracketOp (strip ('\'' :: k ++ ['\''])) = some (.key (String.ofList k)) := by
  have hstrip : strip ('\'' :: k ++ ['\'']) = '\'' :: k ++ ['\''] := by
    apply strip_id _ '\'' '\'' rfl _ (by decide) (by decide)
    rw [show '\'' :: k ++ ['\''] = ('\'' :: k) ++ ['\''] from rfl, List.getLast?_concat]
  rw [hstrip]
  have hall : ∀ c ∈ k, c ≠ '\'' ∧ c ≠ '[' ∧ c ≠ ']' := by
    intro c hc
    have := (List.all_eq_true.mp hk) c hc
    simpa [not_or, and_assoc] using this
  simp only [List.cons_append]
  unfold bracketOp
  have h1 : allDigits ('\'' :: (k ++ ['\''])) = false := by
    simp [allDigits, isDigitC]
  rw [if_neg (by simp [h1])]
  have hlast : ('\'' :: (k ++ ['\''])).getLast? = some '\'' := by
    rw [show '\'' :: (k ++ ['\'']) = ('\'' :: k) ++ ['\''] from rfl, List.getLast?_concat]
  have hlen : ¬ ('\'' :: (k ++ ['\''])).length < 2 := by simp
  simp only [hlast, if_true]
  rw [if_neg hlen]
  simp only [List.drop_succ_cons, List.drop_zero, List.dropLast_concat]
  have c1 : k.contains '\'' = false := by
    simp only [List.contains_eq_mem, decide_eq_false_iff_not]; intro h; exact (hall _ h).1 rfl
  have c2 : k.contains '[' = false := by
    simp only [List.contains_eq_mem, decide_eq_false_iff_not]; intro h; exact (hall _ h).2.1 rfl
  have c3 : k.contains ']' = false := by
    simp only [List.contains_eq_mem, decide_eq_false_iff_not]; intro h; exact (hall _ h).2.2 rfl
  rw [c1, c2, c3]
  rfl

/-! ### scanning -/

theorem scan_bracket (content rest : List Char) (h : ∀ c ∈ content, c ≠ ']') :
    (content ++ ']' :: rest).takeWhile (· ≠ ']') = content ∧ (content ++ ']' :: rest).dropWhile (· ≠ ']') = ']' :: rest := by
  constructor
  · rw [List.takeWhile_append_of_pos (by intro a ha; simpa using h a ha)]
    simp
  · rw [List.dropWhile_append_of_pos (by intro a ha; simpa using h a ha)]
    simp

theorem untilArrow_ident (name t : List Char) (hn : ∀ c ∈ name, c ≠ '-') (ht : t = [] ∨ ∃ r, t = '-' :: '>' :: r) :
    untilArrow (name ++ t) = (name, t) := by
  induction name with
  | nil =>
    rcases ht with rfl | ⟨r, rfl⟩
    · rfl
    · simp [untilArrow]
  | cons c cs ih =>
    have hc : c ≠ '-' := hn c (List.mem_cons_self ..)
    have ih' := ih (fun x hx => hn x (List.mem_cons_of_mem _ hx))
    show untilArrow (c :: (cs ++ t)) = (c :: cs, t)
    unfold untilArrow
    split
    · rename_i heq; cases heq
    · rename_i rest heq
      injection heq with h1 _
      exact absurd h1 hc
    · rename_i c' rest _ heq
      injection heq with h1 h2
      subst h1 h2
      rw [ih']

theorem ident_chars (name : List Char) (h : isIdent name = true) :
    name ≠ [] ∧ (∀ c ∈ name, c ≠ '-') ∧ name.head? ≠ some '[' := by
  cases name with
  | nil => simp [isIdent] at h
  | cons c cs =>
    simp only [isIdent, Bool.and_eq_true, List.all_eq_true] at h
    obtain ⟨h1, h2⟩ := h
    have alpha_ne : ∀ x, isAlphaU x = true → x ≠ '-' ∧ x ≠ '[' := by
      intro x hx
      constructor <;> (intro e; subst e; revert hx; decide)
    have digit_ne : ∀ x, isDigitC x = true → x ≠ '-' := fun x hx => (digit_char_props x hx).2.2.1
    refine ⟨by simp, ?_, ?_⟩
    · intro x hx
      rcases List.mem_cons.mp hx with rfl | hx
      · exact (alpha_ne _ h1).1
      · have := h2 x hx
        rcases Bool.or_eq_true _ _ |>.mp this with h | h
        · exact (alpha_ne _ h).1
        · exact digit_ne _ h
    · simp only [List.head?_cons, ne_eq, Option.some.injEq]
      exact (alpha_ne _ h1).2

theorem renderOp_ne_nil (op : Op) (hw : wfOp op = true) : renderOp op ≠ [] := by
  cases op with
  | attr n => simp only [wfOp] at hw; exact (ident_chars _ hw).1
  | idx i => simp [renderOp]
  | key k => simp [renderOp]

theorem intChars_no_bracket (i : Int) : ∀ c ∈ intChars i, c ≠ ']' := by
  intro c hc
  unfold intChars at hc
  split at hc
  · rcases List.mem_cons.mp hc with rfl | hc
    · decide
    · exact (digit_char_props c (natDigits_mem _ c hc)).2.1
  · exact (digit_char_props c (natDigits_mem _ c hc)).2.1

/-- one rendered operation is read back, leaving exactly what follows it -/
theorem stepOp_render (op : Op) (hw : wfOp op = true) (t : List Char) (ht : t = [] ∨ ∃ r, t = '-' :: '>' :: r) :
    stepOp (renderOp op ++ t) = some (op, t) := by
  cases op with
  | attr n =>
    simp only [wfOp] at hw
    obtain ⟨h1, h2, h3⟩ := ident_chars _ hw
    simp only [renderOp]
    have hu := untilArrow_ident n.toList t h2 ht
    cases hl : n.toList with
    | nil => exact absurd hl h1
    | cons c cs =>
      rw [hl] at hu h3 hw
      have hc : c ≠ '[' := by simpa using h3
      show stepOp (c :: (cs ++ t)) = _
      unfold stepOp
      split
      · rename_i heq; cases heq
      · rename_i rest heq; injection heq with e1 _; exact absurd e1 hc
      · rename_i cs' _ _
        rw [show c :: (cs ++ t) = (c :: cs) ++ t from rfl, hu]
        simp only [List.isEmpty_cons, Bool.false_eq_true, if_false, hw, Bool.not_true]
        rw [← hl, String.ofList_toList]
  | idx i =>
    simp only [renderOp, List.cons_append, List.append_assoc, List.nil_append]
    obtain ⟨s1, s2⟩ := scan_bracket (intChars i) t (intChars_no_bracket i)
    simp only [stepOp, s1, s2, bracket_int, Option.map]
  | key k =>
    simp only [wfOp] at hw
    simp only [renderOp, List.cons_append, List.append_assoc, List.nil_append]
    have hno : ∀ c ∈ '\'' :: (k.toList ++ ['\'']), c ≠ ']' := by
      intro c hc
      have hall := List.all_eq_true.mp hw
      rcases List.mem_cons.mp hc with rfl | hc
      · decide
      · rcases List.mem_append.mp hc with hc | hc
        · have := hall c hc
          simp only [Bool.not_eq_true', Bool.or_eq_false_iff, beq_eq_false_iff_ne] at this
          exact this.2
        · simp at hc; subst hc; decide
    obtain ⟨s1, s2⟩ := scan_bracket ('\'' :: (k.toList ++ ['\''])) t hno
    simp only [List.cons_append, List.append_assoc, List.nil_append] at s1 s2
    have hb := bracket_key k.toList hw
    simp only [List.cons_append] at hb
    simp only [stepOp, s1, s2, hb, Option.map, String.ofList_toList]

end Fdtdx.C40
