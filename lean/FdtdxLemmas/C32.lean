/-
Helper lemmas for C32: one-axis mirror/concatenate on lists of any length and any entry type.
-/
import FdtdxModel.C32
import Mathlib.Tactic.Ring
import Mathlib.Tactic.Linarith
import Mathlib.Algebra.BigOperators.Group.List.Basic
import Mathlib.Algebra.BigOperators.Ring.List

namespace Fdtdx.C32
variable {β γ : Type}

/-- block form, off-plane: the low block is the reversed, parity-multiplied kept block -/
theorem mirrorLow_off (act : β → β) (a : List β) : mirrorLow act false a = (a.map act).reverse := by
  simp [mirrorLow, List.map_reverse]

/-- block form, on-plane, at least two kept samples: repeated edge sample, then the images of a[n-1] … a[1] -/
theorem mirrorLow_on (act : β → β) (x y : β) (t : List β) :
    mirrorLow act true (x :: y :: t) =
      ((y :: t).map act).reverse.take 1 ++ ((y :: t).map act).reverse := by
  simp [mirrorLow, List.map_reverse]

/-- on-plane, a single kept sample: it is repeated (behaviour after the fix) -/
theorem mirrorLow_on_single (act : β → β) (x : β) : mirrorLow act true [x] = [act x] := by
  simp [mirrorLow]

theorem mirrorLow_nil (act : β → β) (op : Bool) : mirrorLow act op ([] : List β) = [] := by
  cases op <;> simp [mirrorLow]

/-- the low block always has the extent of the kept block -/
theorem mirrorLow_length (act : β → β) (op : Bool) (a : List β) :
    (mirrorLow act op a).length = a.length := by
  cases op with
  | false => simp [mirrorLow_off]
  | true =>
    match a with
    | [] => simp [mirrorLow_nil]
    | [x] => simp [mirrorLow_on_single]
    | x :: y :: t =>
      rw [mirrorLow_on]
      simp only [List.length_append, List.length_take, List.length_reverse, List.length_map,
        List.length_cons]
      omega

theorem unfoldList_length (act : β → β) (op : Bool) (a : List β) :
    (unfoldList act op a).length = 2 * a.length := by
  simp [unfoldList, mirrorLow_length]; omega

/-- entries of the kept half sit at `n + i` -/
theorem unfoldList_kept (act : β → β) (op : Bool) (a : List β) (i : Nat) :
    (unfoldList act op a)[a.length + i]? = a[i]? := by
  unfold unfoldList
  rw [List.getElem?_append_right (by rw [mirrorLow_length]; omega), mirrorLow_length]
  simp

/-- index form, off-plane: `full[n-1-i] = p · a[i]` -/
theorem unfoldList_mirror_off (act : β → β) (a : List β) (i : Nat) (hi : i < a.length) :
    (unfoldList act false a)[a.length - 1 - i]? = (a[i]?).map act := by
  unfold unfoldList
  rw [mirrorLow_off, List.getElem?_append_left (by simp; omega),
    List.getElem?_reverse (by simp; omega), List.getElem?_map]
  have : (List.map act a).length - 1 - (a.length - 1 - i) = i := by simp; omega
  rw [this]

/-- index form, on-plane: `full[n-j] = p · a[j]` for `1 ≤ j < n` (index `n` is its own mirror) -/
theorem unfoldList_mirror_on (act : β → β) (a : List β) (j : Nat) (h1 : 1 ≤ j) (hj : j < a.length) :
    (unfoldList act true a)[a.length - j]? = (a[j]?).map act := by
  match a with
  | [] => simp at hj
  | [x] => simp at hj; omega
  | x :: y :: t =>
    unfold unfoldList
    rw [mirrorLow_on]
    have hl : (x :: y :: t).length = t.length + 2 := by simp
    rw [hl] at hj ⊢
    have hR : ((List.map act (y :: t)).reverse).length = t.length + 1 := by simp
    have hT : (((List.map act (y :: t)).reverse).take 1).length = 1 := by
      rw [List.length_take, hR]; omega
    rw [List.getElem?_append_left (by rw [List.length_append, hT, hR]; omega),
      List.getElem?_append_right (by rw [hT]; omega), hT,
      List.getElem?_reverse (by rw [List.length_map]; simp; omega), List.getElem?_map]
    have : (List.map act (y :: t)).length - 1 - (t.length + 2 - j - 1) = j - 1 := by simp; omega
    rw [this]
    obtain ⟨k, rfl⟩ : ∃ k, j = k + 1 := ⟨j - 1, by omega⟩
    simp

/-- on-plane edge fill: the outermost reconstructed sample repeats its neighbour -/
theorem unfoldList_edge_on (act : β → β) (a : List β) (h2 : 2 ≤ a.length) :
    (unfoldList act true a)[0]? = (unfoldList act true a)[1]? := by
  match a with
  | [] => simp at h2
  | [x] => simp at h2
  | x :: y :: t =>
    unfold unfoldList
    rw [mirrorLow_on]
    generalize hR : (List.map act (y :: t)).reverse = R
    have hRl : R.length = t.length + 1 := by rw [← hR]; simp
    match R, hRl with
    | r :: R', _ => simp

/-- naturality: a map that commutes with the parity action commutes with unfolding -/
theorem mirrorLow_natural (act : β → β) (act' : γ → γ) (f : β → γ) (h : ∀ b, f (act b) = act' (f b))
    (op : Bool) (a : List β) : (mirrorLow act op a).map f = mirrorLow act' op (a.map f) := by
  have hm : ∀ l : List β, (l.map act).map f = (l.map f).map act' := by
    intro l; simp [List.map_map, Function.comp_def, h]
  cases op with
  | false => rw [mirrorLow_off, mirrorLow_off, List.map_reverse, hm]
  | true =>
    match a with
    | [] => simp [mirrorLow_nil]
    | [x] => simp [mirrorLow_on_single, h]
    | x :: y :: t =>
      rw [List.map_cons, List.map_cons, mirrorLow_on, mirrorLow_on, List.map_append, List.map_take,
        List.map_reverse, hm, List.map_cons]

theorem unfoldList_natural (act : β → β) (act' : γ → γ) (f : β → γ) (h : ∀ b, f (act b) = act' (f b))
    (op : Bool) (a : List β) : (unfoldList act op a).map f = unfoldList act' op (a.map f) := by
  simp [unfoldList, mirrorLow_natural act act' f h]

/-- sum of an off-plane unfolded line: `(1 + p) * Σ a` -/
theorem sum_unfoldList_off {K : Type} [CommRing K] (p : K) (a : List K) :
    (unfoldList (fun x => p * x) false a).sum = (1 + p) * a.sum := by
  have h : (a.map (fun x => p * x)).sum = p * a.sum := by
    have := List.sum_map_mul_left (l := a) (f := id) (r := p)
    simpa using this
  rw [unfoldList, mirrorLow_off, List.sum_append, List.sum_reverse, h]
  ring

end Fdtdx.C32
