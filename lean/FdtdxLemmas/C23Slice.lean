/- C23 helper lemmas for `connect_slice`: the bounded in-slice flood (`flood2`) is monotone and only adds 4-neighbours
inside its mask; consequences for the arrays computed by `connectSlice`. Slices are arrays of shape (nx, ny, nz') read at
z = 0. -/
import FdtdxLemmas.C23Basic

namespace Fdtdx.C23

/-- 2-D view of a slice -/
def V (t : Tab) : Nat → Nat → Bool := fun i j => look t i j 0

/-- 4-neighbourhood inside a slice -/
def Adj4 (i j i' j' : Nat) : Prop :=
  (i = i' ∧ (j = j' + 1 ∨ j' = j + 1)) ∨ (j = j' ∧ (i = i' + 1 ∨ i' = i + 1))

theorem Adj4.symm {i j i' j' : Nat} (h : Adj4 i j i' j') : Adj4 i' j' i j := by
  unfold Adj4 at *; omega

theorem dilXY_iff (a : Img) (i j : Nat) :
    dilXY a i j 0 = true ↔ a i j 0 = true ∨ ∃ i' j', Adj4 i' j' i j ∧ a i' j' 0 = true := by
  unfold dilXY
  simp only [Bool.or_eq_true, Bool.and_eq_true, decide_eq_true_eq]
  constructor
  · rintro ((((h | ⟨hp, h⟩) | h) | ⟨hp, h⟩) | h)
    · exact Or.inl h
    · exact Or.inr ⟨i - 1, j, by unfold Adj4; omega, h⟩
    · exact Or.inr ⟨i + 1, j, by unfold Adj4; omega, h⟩
    · exact Or.inr ⟨i, j - 1, by unfold Adj4; omega, h⟩
    · exact Or.inr ⟨i, j + 1, by unfold Adj4; omega, h⟩
  · rintro (h | ⟨i', j', hadj, h⟩)
    · exact Or.inl (Or.inl (Or.inl (Or.inl h)))
    · unfold Adj4 at hadj
      rcases hadj with ⟨rfl, h1 | h1⟩ | ⟨rfl, h1 | h1⟩
      · subst h1; exact Or.inr h
      · subst h1; exact Or.inl (Or.inr ⟨by omega, by simpa using h⟩)
      · subst h1; exact Or.inl (Or.inl (Or.inr h))
      · subst h1; exact Or.inl (Or.inl (Or.inl (Or.inr ⟨by omega, by simpa using h⟩)))

/-- one round of the in-slice flood -/
def R (s2 : Shape) (mask q : Tab) : Tab := tab s2 fun i j k => dilXY (look q) i j k && look mask i j k

theorem flood2_eq (s2 : Shape) (mask : Tab) (n : Nat) (p : Tab) : flood2 s2 mask n p = iterN (R s2 mask) n p := rfl

theorem V_R (s2 : Shape) (mask q : Tab) (i j : Nat) :
    V (R s2 mask q) i j = (inb s2 i j 0 && (dilXY (look q) i j 0 && V mask i j)) := by
  unfold V R; rw [look_tab]

/-- a set lying in the mask and in the slice -/
def Ins (s2 : Shape) (mask q : Tab) : Prop := ∀ i j, V q i j = true → V mask i j = true ∧ inb s2 i j 0 = true

theorem R_ins (s2 : Shape) (mask q : Tab) : Ins s2 mask (R s2 mask q) := by
  intro i j h
  rw [V_R] at h
  simp only [Bool.and_eq_true] at h
  exact ⟨h.2.2, h.1⟩

theorem R_ge {s2 : Shape} {mask q : Tab} (hq : Ins s2 mask q) (i j : Nat) (h : V q i j = true) :
    V (R s2 mask q) i j = true := by
  rw [V_R]
  have := hq i j h
  simp only [Bool.and_eq_true]
  exact ⟨this.2, (dilXY_iff _ i j).mpr (Or.inl h), this.1⟩

theorem R_nbr {s2 : Shape} {mask q : Tab} {i j i' j' : Nat} (h : V q i' j' = true) (hadj : Adj4 i' j' i j)
    (hm : V mask i j = true) (hin : inb s2 i j 0 = true) : V (R s2 mask q) i j = true := by
  rw [V_R]
  simp only [Bool.and_eq_true]
  exact ⟨hin, (dilXY_iff _ i j).mpr (Or.inr ⟨i', j', hadj, h⟩), hm⟩

theorem R_sound {s2 : Shape} {mask q : Tab} {i j : Nat} (h : V (R s2 mask q) i j = true) :
    V q i j = true ∨ ∃ i' j', Adj4 i' j' i j ∧ V q i' j' = true := by
  rw [V_R] at h
  simp only [Bool.and_eq_true] at h
  exact (dilXY_iff _ i j).mp h.2.1

theorem iterN_succ' (f : Tab → Tab) : ∀ (n : Nat) (a : Tab), iterN f (n + 1) a = f (iterN f n a) := by
  intro n
  induction n with
  | zero => intro a; rfl
  | succ n ih => intro a; rw [iterN, ih (f a)]; rfl

section flood
variable {s2 : Shape} {mask p : Tab}

theorem flood_ins (hp : Ins s2 mask p) : ∀ n, Ins s2 mask (iterN (R s2 mask) n p) := by
  intro n
  cases n with
  | zero => exact hp
  | succ n => rw [iterN_succ']; exact R_ins _ _ _

theorem flood_step (hp : Ins s2 mask p) (n : Nat) (i j : Nat) (h : V (iterN (R s2 mask) n p) i j = true) :
    V (iterN (R s2 mask) (n + 1) p) i j = true := by
  rw [iterN_succ']; exact R_ge (flood_ins hp n) i j h

theorem flood_mono (hp : Ins s2 mask p) {k n : Nat} (hkn : k ≤ n) (i j : Nat)
    (h : V (iterN (R s2 mask) k p) i j = true) : V (iterN (R s2 mask) n p) i j = true := by
  induction n with
  | zero => have : k = 0 := by omega
            subst this; exact h
  | succ n ih =>
    rcases Nat.lt_or_ge k (n + 1) with hlt | hge
    · exact flood_step hp n i j (ih (by omega))
    · have : k = n + 1 := by omega
      subst this; exact h

theorem flood_ge (hp : Ins s2 mask p) (n : Nat) (i j : Nat) (h : V p i j = true) :
    V (iterN (R s2 mask) n p) i j = true := flood_mono hp (Nat.zero_le n) i j h

/-- everything the flood reaches satisfies `G` if the start does and `G` is closed under 4-adjacency inside the result -/
theorem flood_grounded (hp : Ins s2 mask p) (n : Nat) (G : Nat → Nat → Prop)
    (h0 : ∀ i j, V p i j = true → G i j)
    (hstep : ∀ i' j' i j, G i' j' → Adj4 i' j' i j → V (iterN (R s2 mask) n p) i j = true → G i j) :
    ∀ i j, V (iterN (R s2 mask) n p) i j = true → G i j := by
  have key : ∀ k, k ≤ n → ∀ i j, V (iterN (R s2 mask) k p) i j = true → G i j := by
    intro k
    induction k with
    | zero => intro _ i j h; exact h0 i j h
    | succ k ih =>
      intro hk i j h
      have hfin := flood_mono hp hk i j h
      rw [iterN_succ'] at h
      rcases R_sound h with h1 | ⟨i', j', hadj, h1⟩
      · exact ih (by omega) i j h1
      · exact hstep i' j' i j (ih (by omega) i' j' h1) hadj hfin
  exact key n (Nat.le_refl n)

/-- a 4-neighbour (inside the mask) of a start cell is reached as soon as there is one round -/
theorem flood_reach1 (hp : Ins s2 mask p) {n : Nat} (hn : 1 ≤ n) {i j i' j' : Nat} (h : V p i' j' = true)
    (hadj : Adj4 i' j' i j) (hm : V mask i j = true) (hin : inb s2 i j 0 = true) :
    V (iterN (R s2 mask) n p) i j = true := by
  apply flood_mono hp hn
  show V (iterN (R s2 mask) (0 + 1) p) i j = true
  rw [iterN_succ']
  exact R_nbr h hadj hm hin

/-- … and a neighbour of a neighbour with two rounds -/
theorem flood_reach2 (hp : Ins s2 mask p) {n : Nat} (hn : 2 ≤ n) {i j i' j' i'' j'' : Nat} (h : V p i'' j'' = true)
    (hadj1 : Adj4 i'' j'' i' j') (hm1 : V mask i' j' = true) (hin1 : inb s2 i' j' 0 = true)
    (hadj : Adj4 i' j' i j) (hm : V mask i j = true) (hin : inb s2 i j 0 = true) :
    V (iterN (R s2 mask) n p) i j = true := by
  apply flood_mono hp hn
  show V (iterN (R s2 mask) (1 + 1) p) i j = true
  rw [iterN_succ']
  refine R_nbr ?_ hadj hm hin
  show V (iterN (R s2 mask) (0 + 1) p) i' j' = true
  rw [iterN_succ']
  exact R_nbr h hadj1 hm1 hin1

end flood

/-! ### the arrays of `connectSlice`, named -/

section cs
variable (s2 : Shape) (lower middle upper save : Tab)

def csN : Nat := max s2.nx s2.ny
def csCp0 : Tab := tab s2 fun i j k => (look upper i j k && look middle i j k) || look save i j k
def csCp1 : Tab := flood2 s2 upper (csN s2) (csCp0 s2 middle upper save)
def csNonc1 : Tab := tab s2 fun i j k => !(!look upper i j k || look (csCp1 s2 middle upper save) i j k)
def csByLower : Tab := tab s2 fun i j k =>
  look (csNonc1 s2 middle upper save) i j k && (dilXY (look middle) i j k || look lower i j k)
def csMiddle' : Tab := tab s2 fun i j k => look middle i j k || look (csByLower s2 lower middle upper save) i j k
def csCp1' : Tab := tab s2 fun i j k =>
  look (csCp1 s2 middle upper save) i j k || look (csByLower s2 lower middle upper save) i j k
def csCp2 : Tab := flood2 s2 upper (csN s2) (csCp1' s2 lower middle upper save)
def csNonc2 : Tab := tab s2 fun i j k => !(!look upper i j k || look (csCp2 s2 lower middle upper save) i j k)
def csRegion : Tab := tab s2 fun i j k => dil8 (look (csCp2 s2 lower middle upper save)) i j k
def csByUpper : Tab := tab s2 fun i j k =>
  look (csNonc2 s2 lower middle upper save) i j k && look (csRegion s2 lower middle upper save) i j k
def csValid : Tab := tab s2 fun i j k =>
  look (csRegion s2 lower middle upper save) i j k && shifts4 (look (csByUpper s2 lower middle upper save)) i j k
def csUpper' : Tab := tab s2 fun i j k => look upper i j k || look (csValid s2 lower middle upper save) i j k
def csCp3 : Tab := flood2 s2 (csUpper' s2 lower middle upper save) (csN s2) (csCp2 s2 lower middle upper save)
def csNonc3 : Tab := tab s2 fun i j k => !(!look upper i j k || look (csCp3 s2 lower middle upper save) i j k)
def csUpper'' : Tab := tab s2 fun i j k =>
  look (csUpper' s2 lower middle upper save) i j k && !look (csNonc3 s2 lower middle upper save) i j k

theorem connectSlice_eq :
    connectSlice s2 lower middle upper save =
      (csMiddle' s2 lower middle upper save, csUpper'' s2 lower middle upper save) := rfl

end cs

/-! ### 8-neighbourhood and the four shifts -/

/-- within distance one in both coordinates (8-neighbourhood or the cell itself) -/
def Near (i' j' i j : Nat) : Prop := (i' = i ∨ i' + 1 = i ∨ i' = i + 1) ∧ (j' = j ∨ j' + 1 = j ∨ j' = j + 1)

theorem row3_iff (f : Nat → Bool) (j : Nat) :
    (f j || (decide (0 < j) && f (j - 1)) || f (j + 1)) = true ↔ ∃ j', (j' = j ∨ j' + 1 = j ∨ j' = j + 1) ∧ f j' = true := by
  simp only [Bool.or_eq_true, Bool.and_eq_true, decide_eq_true_eq]
  constructor
  · rintro ((h | ⟨hp, h⟩) | h)
    · exact ⟨j, Or.inl rfl, h⟩
    · exact ⟨j - 1, Or.inr (Or.inl (by omega)), h⟩
    · exact ⟨j + 1, Or.inr (Or.inr rfl), h⟩
  · rintro ⟨j', (rfl | h1 | rfl), h⟩
    · exact Or.inl (Or.inl h)
    · subst h1; exact Or.inl (Or.inr ⟨by omega, by simpa using h⟩)
    · exact Or.inr h

theorem dil8_iff (a : Img) (i j : Nat) :
    dil8 a i j 0 = true ↔ ∃ i' j', Near i' j' i j ∧ a i' j' 0 = true := by
  unfold dil8
  simp only []
  rw [row3_iff (fun ii => a ii j 0 || (decide (0 < j) && a ii (j - 1) 0) || a ii (j + 1) 0) i]
  constructor
  · rintro ⟨i', hi, h⟩
    obtain ⟨j', hj, h'⟩ := (row3_iff (fun jj => a i' jj 0) j).mp h
    exact ⟨i', j', ⟨hi, hj⟩, h'⟩
  · rintro ⟨i', j', ⟨hi, hj⟩, h⟩
    exact ⟨i', hi, (row3_iff (fun jj => a i' jj 0) j).mpr ⟨j', hj, h⟩⟩

theorem shifts4_iff (a : Img) (i j : Nat) :
    shifts4 a i j 0 = true ↔ ∃ i' j', Adj4 i' j' i j ∧ a i' j' 0 = true := by
  unfold shifts4
  simp only [Bool.or_eq_true, Bool.and_eq_true, decide_eq_true_eq]
  constructor
  · rintro (((h | ⟨hp, h⟩) | ⟨hp, h⟩) | h)
    · exact ⟨i + 1, j, by unfold Adj4; omega, h⟩
    · exact ⟨i, j - 1, by unfold Adj4; omega, h⟩
    · exact ⟨i - 1, j, by unfold Adj4; omega, h⟩
    · exact ⟨i, j + 1, by unfold Adj4; omega, h⟩
  · rintro ⟨i', j', hadj, h⟩
    unfold Adj4 at hadj
    rcases hadj with ⟨rfl, h1 | h1⟩ | ⟨rfl, h1 | h1⟩
    · subst h1; exact Or.inr h
    · subst h1; exact Or.inl (Or.inl (Or.inr ⟨by omega, by simpa using h⟩))
    · subst h1; exact Or.inl (Or.inl (Or.inl h))
    · subst h1; exact Or.inl (Or.inr ⟨by omega, by simpa using h⟩)

/-! ### what `connectSlice` guarantees -/

theorem V_tab (s2 : Shape) (f : Img) (i j : Nat) : V (tab s2 f) i j = (inb s2 i j 0 && f i j 0) := by
  unfold V; rw [look_tab]

set_option linter.unusedSectionVars false

section guarantees
variable {s2 : Shape} {lower middle upper save : Tab}
variable (hS : ∀ i j, V save i j = true → V upper i j = true)
variable (hU : ∀ i j, V upper i j = true → inb s2 i j 0 = true)
include hS hU

theorem cp0_ins : Ins s2 upper (csCp0 s2 middle upper save) := by
  intro i j h
  unfold csCp0 at h
  rw [V_tab] at h
  simp only [Bool.and_eq_true, Bool.or_eq_true] at h
  refine ⟨?_, h.1⟩
  rcases h.2 with h2 | h2
  · exact h2.1
  · exact hS i j h2

theorem cp1_ins : Ins s2 upper (csCp1 s2 middle upper save) :=
  flood_ins (cp0_ins hS hU) _

theorem byLower_spec {i j : Nat} (h : V (csByLower s2 lower middle upper save) i j = true) :
    inb s2 i j 0 = true ∧ V upper i j = true ∧
      (dilXY (look middle) i j 0 = true ∨ V lower i j = true) := by
  unfold csByLower csNonc1 at h
  rw [V_tab, look_tab] at h
  simp only [Bool.and_eq_true, Bool.or_eq_true, Bool.not_eq_true', Bool.or_eq_false_iff, Bool.not_eq_false'] at h
  exact ⟨h.1, h.2.1.2.1, h.2.2⟩

theorem cp1'_ins : Ins s2 upper (csCp1' s2 lower middle upper save) := by
  intro i j h
  unfold csCp1' at h
  rw [V_tab] at h
  simp only [Bool.and_eq_true, Bool.or_eq_true] at h
  refine ⟨?_, h.1⟩
  rcases h.2 with h2 | h2
  · exact (cp1_ins hS hU i j h2).1
  · exact (byLower_spec hS hU h2).2.1

theorem cp1_sub_cp1' {i j : Nat} (h : V (csCp1 s2 middle upper save) i j = true) :
    V (csCp1' s2 lower middle upper save) i j = true := by
  unfold csCp1'; rw [V_tab]
  have := (cp1_ins hS hU i j h).2
  simp only [Bool.and_eq_true, Bool.or_eq_true]
  exact ⟨this, Or.inl h⟩

theorem byLower_sub_cp1' {i j : Nat} (h : V (csByLower s2 lower middle upper save) i j = true) :
    V (csCp1' s2 lower middle upper save) i j = true := by
  unfold csCp1'; rw [V_tab]
  simp only [Bool.and_eq_true, Bool.or_eq_true]
  exact ⟨(byLower_spec hS hU h).1, Or.inr h⟩

theorem cp2_ins : Ins s2 upper (csCp2 s2 lower middle upper save) :=
  flood_ins (cp1'_ins hS hU) _

theorem upper_sub_upper' {i j : Nat} (h : V upper i j = true) : V (csUpper' s2 lower middle upper save) i j = true := by
  unfold csUpper'; rw [V_tab]
  simp only [Bool.and_eq_true, Bool.or_eq_true]
  exact ⟨hU i j h, Or.inl h⟩

theorem cp2_ins' : Ins s2 (csUpper' s2 lower middle upper save) (csCp2 s2 lower middle upper save) := by
  intro i j h
  have := cp2_ins hS hU i j h
  exact ⟨upper_sub_upper' hS hU this.1, this.2⟩

theorem cp3_ins : Ins s2 (csUpper' s2 lower middle upper save) (csCp3 s2 lower middle upper save) :=
  flood_ins (cp2_ins' hS hU) _

theorem cp3_sub_upper'' {i j : Nat} (h : V (csCp3 s2 lower middle upper save) i j = true) :
    V (csUpper'' s2 lower middle upper save) i j = true := by
  have hi := cp3_ins hS hU i j h
  unfold csUpper'' csNonc3
  rw [V_tab, look_tab]
  have h' : look (csCp3 s2 lower middle upper save) i j 0 = true := h
  have h'' : look (csUpper' s2 lower middle upper save) i j 0 = true := hi.1
  simp [hi.2, h', h'']

theorem upper''_cases {i j : Nat} (h : V (csUpper'' s2 lower middle upper save) i j = true) :
    V (csCp3 s2 lower middle upper save) i j = true ∨ V (csValid s2 lower middle upper save) i j = true := by
  unfold csUpper'' csNonc3 at h
  rw [V_tab, look_tab] at h
  simp only [Bool.and_eq_true, Bool.not_eq_true', Bool.and_eq_false_iff, Bool.not_eq_false', Bool.or_eq_true] at h
  obtain ⟨hin, hup, hn⟩ := h
  have hup' : V (csUpper' s2 lower middle upper save) i j = true := hup
  unfold csUpper' at hup'
  rw [V_tab] at hup'
  simp only [Bool.and_eq_true, Bool.or_eq_true] at hup'
  rcases hup'.2 with hu | hv
  · rcases hn with hn | hn
    · rw [hin] at hn; exact absurd hn (by simp)
    · rcases hn with hn | hn
      · have hu' : look upper i j 0 = true := hu
        rw [hu'] at hn; exact absurd hn (by simp)
      · exact Or.inl hn
  · exact Or.inr hv

theorem cp0_sub_cp3 {i j : Nat} (h : V (csCp0 s2 middle upper save) i j = true) :
    V (csCp3 s2 lower middle upper save) i j = true := by
  have h1 : V (csCp1 s2 middle upper save) i j = true := flood_ge (cp0_ins hS hU) _ i j h
  have h2 : V (csCp2 s2 lower middle upper save) i j = true :=
    flood_ge (cp1'_ins hS hU) _ i j (cp1_sub_cp1' hS hU h1)
  exact flood_ge (cp2_ins' hS hU) _ i j h2

theorem byLower_sub_cp3 {i j : Nat} (h : V (csByLower s2 lower middle upper save) i j = true) :
    V (csCp3 s2 lower middle upper save) i j = true := by
  have h2 : V (csCp2 s2 lower middle upper save) i j = true :=
    flood_ge (cp1'_ins hS hU) _ i j (byLower_sub_cp1' hS hU h)
  exact flood_ge (cp2_ins' hS hU) _ i j h2

theorem save_sub_upper'' {i j : Nat} (h : V save i j = true) : V (csUpper'' s2 lower middle upper save) i j = true := by
  apply cp3_sub_upper'' hS hU
  apply cp0_sub_cp3 hS hU
  unfold csCp0; rw [V_tab]
  have : look save i j 0 = true := h
  simp [hU i j (hS i j h), this]

theorem both_sub_cp0 {i j : Nat} (hu : V upper i j = true) (hm : V middle i j = true) :
    V (csCp0 s2 middle upper save) i j = true := by
  unfold csCp0; rw [V_tab]
  have h1 : look upper i j 0 = true := hu
  have h2 : look middle i j 0 = true := hm
  simp [hU i j hu, h1, h2]

/-- every cell of the final connected set satisfies `G`, provided the sources do and `G` spreads along 4-adjacency inside
the slice that is returned -/
theorem cp3_grounded (G : Nat → Nat → Prop)
    (hsrc : ∀ i j, V (csCp0 s2 middle upper save) i j = true → G i j)
    (hbl : ∀ i j, V (csByLower s2 lower middle upper save) i j = true → G i j)
    (hcl : ∀ i' j' i j, G i' j' → Adj4 i' j' i j → V (csUpper'' s2 lower middle upper save) i j = true → G i j) :
    ∀ i j, V (csCp3 s2 lower middle upper save) i j = true → G i j := by
  have g1 : ∀ i j, V (csCp1 s2 middle upper save) i j = true → G i j := by
    apply flood_grounded (cp0_ins hS hU) _ G hsrc
    intro i' j' i j hg hadj h
    apply hcl i' j' i j hg hadj
    apply cp3_sub_upper'' hS hU
    exact flood_ge (cp2_ins' hS hU) _ i j (flood_ge (cp1'_ins hS hU) _ i j (cp1_sub_cp1' hS hU h))
  have g1' : ∀ i j, V (csCp1' s2 lower middle upper save) i j = true → G i j := by
    intro i j h
    unfold csCp1' at h
    rw [V_tab] at h
    simp only [Bool.and_eq_true, Bool.or_eq_true] at h
    rcases h.2 with h2 | h2
    · exact g1 i j h2
    · exact hbl i j h2
  have g2 : ∀ i j, V (csCp2 s2 lower middle upper save) i j = true → G i j := by
    apply flood_grounded (cp1'_ins hS hU) _ G g1'
    intro i' j' i j hg hadj h
    apply hcl i' j' i j hg hadj
    apply cp3_sub_upper'' hS hU
    exact flood_ge (cp2_ins' hS hU) _ i j h
  apply flood_grounded (cp2_ins' hS hU) _ G g2
  intro i' j' i j hg hadj h
  exact hcl i' j' i j hg hadj (cp3_sub_upper'' hS hU h)

theorem csN_ge_two {i j i' j' : Nat} (h1 : inb s2 i j 0 = true) (h2 : inb s2 i' j' 0 = true)
    (hne : i ≠ i' ∨ j ≠ j') : 2 ≤ csN s2 := by
  simp only [inb, Bool.and_eq_true, decide_eq_true_eq] at h1 h2
  unfold csN
  omega

/-- a not yet connected cell of the upper slice that touches the connected set (8-neighbourhood) is connected by the last
flood: directly when it shares an edge, through one of the two corner cells (which `valid` adds to the slice) when it
only shares a corner -/
theorem byUpper_sub_cp3 {i j : Nat} (h : V (csByUpper s2 lower middle upper save) i j = true) :
    V (csCp3 s2 lower middle upper save) i j = true := by
  unfold csByUpper csNonc2 csRegion at h
  rw [V_tab, look_tab, look_tab] at h
  simp only [Bool.and_eq_true, Bool.not_eq_true', Bool.or_eq_false_iff, Bool.not_eq_false'] at h
  obtain ⟨hin, ⟨_, hu, hn2⟩, _, hd⟩ := h
  have hu' : V upper i j = true := hu
  obtain ⟨di, dj, hnear, hd2⟩ := (dil8_iff _ i j).mp hd
  have hd2' : V (csCp2 s2 lower middle upper save) di dj = true := hd2
  have hdin := (cp2_ins' hS hU di dj hd2').2
  have hup : V (csUpper' s2 lower middle upper save) i j = true := upper_sub_upper' hS hU hu'
  by_cases hsame : di = i ∧ dj = j
  · obtain ⟨rfl, rfl⟩ := hsame
    rw [hd2] at hn2; exact absurd hn2 (by simp)
  have hne : di ≠ i ∨ dj ≠ j := by
    by_contra hc; exact hsame ⟨by omega, by omega⟩
  have hn := csN_ge_two hS hU hdin hin hne
  by_cases hadj : Adj4 di dj i j
  · exact flood_reach1 (cp2_ins' hS hU) (by omega) hd2' hadj hup hin
  · -- only a corner is shared: go through the corner cell (di, j)
    have hdi : di ≠ i := by
      intro hc; apply hadj; unfold Adj4; unfold Near at hnear; omega
    have hdj : dj ≠ j := by
      intro hc; apply hadj; unfold Adj4; unfold Near at hnear; omega
    have hfin : inb s2 di j 0 = true := by
      simp only [inb, Bool.and_eq_true, decide_eq_true_eq] at hdin hin ⊢
      exact ⟨⟨hdin.1.1, hin.1.2⟩, hin.2⟩
    have hadj1 : Adj4 di dj di j := by unfold Adj4; unfold Near at hnear; omega
    have hadj2 : Adj4 di j i j := by unfold Adj4; unfold Near at hnear; omega
    have hbu : V (csByUpper s2 lower middle upper save) i j = true := by
      unfold csByUpper csNonc2 csRegion
      rw [V_tab, look_tab, look_tab]
      simp [hin, hu, hn2, hd]
    have hfv : V (csValid s2 lower middle upper save) di j = true := by
      unfold csValid csRegion
      rw [V_tab, look_tab]
      simp only [Bool.and_eq_true]
      refine ⟨hfin, ⟨hfin, ?_⟩, ?_⟩
      · exact (dil8_iff _ di j).mpr ⟨di, dj, by unfold Near at hnear ⊢; omega, hd2⟩
      · exact (shifts4_iff _ di j).mpr ⟨i, j, hadj2.symm, hbu⟩
    have hfup : V (csUpper' s2 lower middle upper save) di j = true := by
      unfold csUpper'; rw [V_tab]
      have : look (csValid s2 lower middle upper save) di j 0 = true := hfv
      simp [hfin, this]
    exact flood_reach2 (cp2_ins' hS hU) hn hd2' hadj1 hfup hfin hadj2 hup hin

/-- every cell that `valid` adds to the slice shares an edge with a cell of the connected set -/
theorem valid_nbr_cp3 {i j : Nat} (h : V (csValid s2 lower middle upper save) i j = true) :
    ∃ bi bj, Adj4 bi bj i j ∧ V (csCp3 s2 lower middle upper save) bi bj = true := by
  unfold csValid at h
  rw [V_tab] at h
  simp only [Bool.and_eq_true] at h
  obtain ⟨bi, bj, hadj, hb⟩ := (shifts4_iff _ i j).mp h.2.2
  exact ⟨bi, bj, hadj, byUpper_sub_cp3 hS hU hb⟩

theorem valid_inb {i j : Nat} (h : V (csValid s2 lower middle upper save) i j = true) : inb s2 i j 0 = true := by
  unfold csValid at h
  rw [V_tab] at h
  simp only [Bool.and_eq_true] at h
  exact h.1

theorem middle'_iff (i j : Nat) :
    V (csMiddle' s2 lower middle upper save) i j = true ↔
      inb s2 i j 0 = true ∧ (V middle i j = true ∨ V (csByLower s2 lower middle upper save) i j = true) := by
  unfold csMiddle'; rw [V_tab]
  simp only [Bool.and_eq_true, Bool.or_eq_true]
  rfl

theorem upper''_inb {i j : Nat} (h : V (csUpper'' s2 lower middle upper save) i j = true) : inb s2 i j 0 = true := by
  unfold csUpper'' at h
  rw [V_tab] at h
  simp only [Bool.and_eq_true] at h
  exact h.1

end guarantees

end Fdtdx.C23
