/-
Helper lemmas for C28 (no property statements here):
  * `foldl_last_cover`      a fold whose step overwrites on covering elements and is the identity on good
                            values otherwise ends in the target of the LAST covering element
  * `mergeSort_filter_getLast`  the last element satisfying `p` in a stable sort by an integer key is the element
                            with the largest (key, original index) among those satisfying `p`
-/
import Mathlib.Tactic.Linarith

namespace Fdtdx.C28Lemmas

/-! ### folds -/

theorem foldl_noncover {σ O : Type} (f : σ → O → σ) (cov : O → Bool) (good : σ → Prop)
    (hnot : ∀ s o, cov o = false → good s → f s o = s) :
    ∀ (L : List O) (s : σ), (∀ o ∈ L, cov o = false) → good s → L.foldl f s = s
  | [], _, _, _ => rfl
  | x :: xs, s, h, hs => by
    have hx := hnot s x (h x (by simp)) hs
    rw [List.foldl_cons, hx]
    exact foldl_noncover f cov good hnot xs s (fun o ho => h o (by simp [ho])) hs

/-- painter's rule for an abstract fold: the result is the target of the last covering element. -/
theorem foldl_last_cover {σ O : Type} (f : σ → O → σ) (cov : O → Bool) (tgt : O → σ) (good : σ → Prop)
    (hcov : ∀ s o, cov o = true → f s o = tgt o)
    (hnot : ∀ s o, cov o = false → good s → f s o = s)
    (hgood : ∀ o, cov o = true → good (tgt o)) :
    ∀ (L : List O) (s : σ) (h : L.filter cov ≠ []), L.foldl f s = tgt ((L.filter cov).getLast h)
  | [], _, h => absurd rfl h
  | x :: xs, s, h => by
    rw [List.foldl_cons]
    by_cases hxs : xs.filter cov = []
    · -- x is the last covering element
      have hx : cov x = true := by
        by_contra hc
        apply h
        simp [hc, hxs]
      have hall : ∀ o ∈ xs, cov o = false := by
        intro o ho
        have := List.filter_eq_nil_iff.mp hxs o ho
        simpa using this
      rw [hcov s x hx, foldl_noncover f cov good hnot xs _ hall (hgood x hx)]
      congr 1
      simp [hx, hxs]
    · rw [foldl_last_cover f cov tgt good hcov hnot hgood xs (f s x) hxs]
      congr 1
      by_cases hx : cov x = true
      · simp only [List.filter_cons, hx, if_true]
        rw [List.getLast_cons hxs]
      · simp [hx]

/-- the same with every hypothesis restricted to the members of the list -/
theorem foldl_noncover_mem {σ O : Type} (f : σ → O → σ) (cov : O → Bool) (good : σ → Prop) :
    ∀ (L : List O) (s : σ), (∀ o ∈ L, ∀ s, cov o = false → good s → f s o = s) →
      (∀ o ∈ L, cov o = false) → good s → L.foldl f s = s
  | [], _, _, _, _ => rfl
  | x :: xs, s, hnot, h, hs => by
    have hx := hnot x (by simp) s (h x (by simp)) hs
    rw [List.foldl_cons, hx]
    exact foldl_noncover_mem f cov good xs s (fun o ho => hnot o (by simp [ho])) (fun o ho => h o (by simp [ho])) hs

theorem foldl_last_cover_mem {σ O : Type} (f : σ → O → σ) (cov : O → Bool) (tgt : O → σ) (good : σ → Prop) :
    ∀ (L : List O) (s : σ)
      (_ : ∀ o ∈ L, ∀ s, cov o = true → f s o = tgt o)
      (_ : ∀ o ∈ L, ∀ s, cov o = false → good s → f s o = s)
      (_ : ∀ o ∈ L, cov o = true → good (tgt o))
      (h : L.filter cov ≠ []), L.foldl f s = tgt ((L.filter cov).getLast h)
  | [], _, _, _, _, h => absurd rfl h
  | x :: xs, s, hcov, hnot, hgood, h => by
    rw [List.foldl_cons]
    by_cases hxs : xs.filter cov = []
    · have hx : cov x = true := by
        by_contra hc
        apply h
        simp [hc, hxs]
      have hall : ∀ o ∈ xs, cov o = false := by
        intro o ho
        have := List.filter_eq_nil_iff.mp hxs o ho
        simpa using this
      rw [hcov x (by simp) s hx,
        foldl_noncover_mem f cov good xs _ (fun o ho => hnot o (by simp [ho])) hall (hgood x (by simp) hx)]
      congr 1
      simp [hx, hxs]
    · rw [foldl_last_cover_mem f cov tgt good xs (f s x) (fun o ho => hcov o (by simp [ho]))
        (fun o ho => hnot o (by simp [ho])) (fun o ho => hgood o (by simp [ho])) hxs]
      congr 1
      by_cases hx : cov x = true
      · simp only [List.filter_cons, hx, if_true]
        rw [List.getLast_cons hxs]
      · simp [hx]

/-! ### the last element of a sorted list -/

theorem pairwise_rel_getLast {β : Type} (R : β → β → Prop) :
    ∀ (l : List β) (h : l ≠ []), l.Pairwise R → ∀ x ∈ l, x = l.getLast h ∨ R x (l.getLast h)
  | [], h, _, _, _ => absurd rfl h
  | [a], _, _, x, hx => by
    left
    simpa using hx
  | a :: b :: t, _, hp, x, hx => by
    have hne : b :: t ≠ [] := by simp
    rw [List.getLast_cons hne]
    rw [List.pairwise_cons] at hp
    rcases List.mem_cons.mp hx with rfl | hx'
    · right
      exact hp.1 _ (List.getLast_mem hne)
    · exact pairwise_rel_getLast R (b :: t) hne hp.2 x hx'

/-- stable sort by an integer key: the last element of the sorted list that satisfies `p` is `l[j]` where `j`
maximises (key, index) among the indices whose element satisfies `p`. -/
theorem mergeSort_filter_getLast {β : Type} (key : β → Int) (p : β → Bool) (l : List β)
    (hne : (l.mergeSort (fun a b => decide (key a ≤ key b))).filter p ≠ []) :
    ∃ (j : Nat) (hj : j < l.length),
      ((l.mergeSort (fun a b => decide (key a ≤ key b))).filter p).getLast hne = l[j] ∧ p l[j] = true ∧
      ∀ (k : Nat) (hk : k < l.length), p l[k] = true →
        key l[k] < key l[j] ∨ (key l[k] = key l[j] ∧ k ≤ j) := by
  set le : β → β → Bool := fun a b => decide (key a ≤ key b) with hle
  have trans : ∀ a b c : β, le a b = true → le b c = true → le a c = true := by
    intro a b c h1 h2
    simp only [hle, decide_eq_true_eq] at h1 h2 ⊢
    omega
  have total : ∀ a b : β, (le a b || le b a) = true := by
    intro a b
    simp only [hle, Bool.or_eq_true, decide_eq_true_eq]
    omega
  -- the index-tagged sort
  set T := l.zipIdx.mergeSort (List.zipIdxLE le) with hT
  have hmap : T.map (·.1) = l.mergeSort le := List.mergeSort_zipIdx
  have hpw : T.Pairwise (fun a b => List.zipIdxLE le a b = true) :=
    List.pairwise_mergeSort (List.zipIdxLE_trans trans) (List.zipIdxLE_total total) _
  have hfilt : (l.mergeSort le).filter p = (T.filter (fun t => p t.1)).map (·.1) := by
    rw [← hmap, List.filter_map]
    rfl
  have hne' : T.filter (fun t => p t.1) ≠ [] := by
    intro h
    apply hne
    rw [hfilt, h]
    rfl
  have hlast : ((l.mergeSort le).filter p).getLast hne = ((T.filter (fun t => p t.1)).getLast hne').1 := by
    simp only [hfilt]
    rw [List.getLast_map]
  set z := (T.filter (fun t => p t.1)).getLast hne' with hz
  have hzmem : z ∈ T.filter (fun t => p t.1) := List.getLast_mem hne'
  have hzT : z ∈ T := (List.mem_filter.mp hzmem).1
  have hzp : p z.1 = true := by simpa using (List.mem_filter.mp hzmem).2
  have hzl : z ∈ l.zipIdx := by
    rw [hT] at hzT
    exact List.mem_mergeSort.mp hzT
  have hzget : l[z.2]? = some z.1 := by
    have := List.mem_zipIdx_iff_getElem?.mp (by simpa using hzl : (z.1, z.2) ∈ l.zipIdx)
    simpa using this
  obtain ⟨hj, hjeq⟩ := List.getElem?_eq_some_iff.mp hzget
  refine ⟨z.2, hj, ?_, ?_, ?_⟩
  · rw [hlast, hjeq]
  · rw [hjeq]; exact hzp
  · intro k hk hpk
    -- (l[k], k) is in the filtered tagged list, hence related to its last element
    have hkl : (l[k], k) ∈ l.zipIdx := by
      apply List.mem_zipIdx_iff_getElem?.mpr
      simp [hk]
    have hkT : (l[k], k) ∈ T := by
      rw [hT]
      exact List.mem_mergeSort.mpr hkl
    have hkF : (l[k], k) ∈ T.filter (fun t => p t.1) := List.mem_filter.mpr ⟨hkT, by simpa using hpk⟩
    have hpwF : (T.filter (fun t => p t.1)).Pairwise (fun a b => List.zipIdxLE le a b = true) :=
      hpw.sublist List.filter_sublist
    rcases pairwise_rel_getLast _ _ hne' hpwF _ hkF with heq | hrel
    · -- it is the last element itself
      have h2 : k = z.2 := by rw [hz, ← heq]
      right
      refine ⟨?_, by omega⟩
      subst h2
      rfl
    · rw [← hz] at hrel
      simp only [List.zipIdxLE, hle, decide_eq_true_eq] at hrel
      rw [hjeq]
      by_cases h1 : key l[k] ≤ key z.1
      · rw [if_pos h1] at hrel
        by_cases h2 : key z.1 ≤ key l[k]
        · rw [if_pos h2] at hrel
          right
          exact ⟨by omega, by simpa using hrel⟩
        · left; omega
      · rw [if_neg h1] at hrel
        exact absurd hrel (by simp)

end Fdtdx.C28Lemmas
