/-
Helper lemmas shared by the field properties: the model's recursive sums are `Finset.range` sums, one-cell
halo summation by parts (zero halo and periodic wrap), and its lift to the three axes of a 3-D sum.
-/
import FdtdxModel.C01
import Mathlib.Algebra.BigOperators.Intervals
import Mathlib.Algebra.BigOperators.Ring.Finset
import Mathlib.Tactic.Ring
import Mathlib.Tactic.Linarith
import Mathlib.Tactic.LinearCombination

open Finset
namespace Fdtdx
open Fdtdx.Yee Fdtdx.C01

section
variable {K : Type} [CommRing K]

theorem sumTo_eq (n : Nat) (f : Nat → K) : sumTo n f = ∑ i ∈ range n, f i := by
  induction n with
  | zero => simp [sumTo]
  | succ n ih => simp [sumTo, ih, sum_range_succ]

theorem sum3_eq (nx ny nz : Nat) (f : F3 K) :
    sum3 nx ny nz f = ∑ i ∈ range nx, ∑ j ∈ range ny, ∑ k ∈ range nz, f i j k := by
  simp only [sum3, sumTo_eq]

theorem sum3_congr (nx ny nz : Nat) (f g : F3 K)
    (h : ∀ i j k, i < nx → j < ny → k < nz → f i j k = g i j k) : sum3 nx ny nz f = sum3 nx ny nz g := by
  simp only [sum3_eq]
  refine sum_congr rfl fun i hi => sum_congr rfl fun j hj => sum_congr rfl fun k hk => ?_
  exact h i j k (mem_range.mp hi) (mem_range.mp hj) (mem_range.mp hk)

theorem sum3_add (nx ny nz : Nat) (f g : F3 K) :
    sum3 nx ny nz (fun i j k => f i j k + g i j k) = sum3 nx ny nz f + sum3 nx ny nz g := by
  simp only [sum3_eq, sum_add_distrib]

theorem sum3_sub (nx ny nz : Nat) (f g : F3 K) :
    sum3 nx ny nz (fun i j k => f i j k - g i j k) = sum3 nx ny nz f - sum3 nx ny nz g := by
  simp only [sum3_eq, sum_sub_distrib]

theorem sum3_mul_left (nx ny nz : Nat) (a : K) (f : F3 K) :
    sum3 nx ny nz (fun i j k => a * f i j k) = a * sum3 nx ny nz f := by
  simp only [sum3_eq, mul_sum]

theorem sum3_zero (nx ny nz : Nat) : sum3 nx ny nz (fun _ _ _ => (0 : K)) = 0 := by
  simp [sum3_eq]

/-- the halo of an axis is real: zero, or periodic wrap without a Bloch phase -/
def RealHalo (b : AxisBC K) : Prop := b.wrap = true → b.pp = 1 ∧ b.pm = 1

/-- shifting the stencil from one factor to the other: Σ h·(next e) = Σ e·(prev h) -/
theorem sum_next_prev (n : Nat) (b : AxisBC K) (hb : RealHalo b) (e h : Nat → K) :
    ∑ i ∈ range n, h i * next1 n b e i = ∑ i ∈ range n, e i * prev1 n b h i := by
  cases n with
  | zero => simp
  | succ m =>
    have h1 : ∑ i ∈ range (m + 1), h i * next1 (m + 1) b e i
        = ∑ i ∈ range m, h i * e (i + 1) + h m * (if b.wrap then e 0 * b.pp else 0) := by
      rw [sum_range_succ]; congr 1
      · apply sum_congr rfl; intro i hi
        have : i + 1 < m + 1 := by have := mem_range.mp hi; omega
        simp [next1, this]
      · simp [next1]
    have h2 : ∑ i ∈ range (m + 1), e i * prev1 (m + 1) b h i
        = ∑ i ∈ range m, e (i + 1) * h i + e 0 * (if b.wrap then h m * b.pm else 0) := by
      rw [sum_range_succ']; simp [prev1]
    rw [h1, h2]
    have hs : ∑ i ∈ range m, h i * e (i + 1) = ∑ i ∈ range m, e (i + 1) * h i :=
      sum_congr rfl fun i _ => mul_comm _ _
    rw [hs]
    by_cases hw : b.wrap = true
    · obtain ⟨hp, hm⟩ := hb hw
      simp [hw, hp, hm, mul_comm]
    · simp [hw]

/-- one-cell-halo summation by parts, as a vanishing residue -/
theorem sbp_residue (n : Nat) (b : AxisBC K) (hb : RealHalo b) (e h : Nat → K) :
    ∑ i ∈ range n, (h i * (next1 n b e i - e i) + e i * (h i - prev1 n b h i)) = 0 := by
  have := sum_next_prev n b hb e h
  have expand : ∀ i, h i * (next1 n b e i - e i) + e i * (h i - prev1 n b h i)
      = h i * next1 n b e i - e i * prev1 n b h i := fun i => by ring
  simp only [expand, sum_sub_distrib, this, sub_self]

/-- residue along z (innermost index) -/
theorem residue_z (nx ny nz : Nat) (b : AxisBC K) (hb : RealHalo b) (a : Nat → Nat → K) (h e : F3 K) :
    sum3 nx ny nz (fun i j k => a i j * (h i j k * (next1 nz b (fun k' => e i j k') k - e i j k)
        + e i j k * (h i j k - prev1 nz b (fun k' => h i j k') k))) = 0 := by
  rw [sum3_eq]
  refine sum_eq_zero fun i _ => sum_eq_zero fun j _ => ?_
  rw [← mul_sum, sbp_residue nz b hb (fun k' => e i j k') (fun k' => h i j k'), mul_zero]

/-- residue along y (middle index) -/
theorem residue_y (nx ny nz : Nat) (b : AxisBC K) (hb : RealHalo b) (a : Nat → Nat → K) (h e : F3 K) :
    sum3 nx ny nz (fun i j k => a i k * (h i j k * (next1 ny b (fun j' => e i j' k) j - e i j k)
        + e i j k * (h i j k - prev1 ny b (fun j' => h i j' k) j))) = 0 := by
  rw [sum3_eq]
  refine sum_eq_zero fun i _ => ?_
  rw [sum_comm]
  refine sum_eq_zero fun k _ => ?_
  rw [← mul_sum, sbp_residue ny b hb (fun j' => e i j' k) (fun j' => h i j' k), mul_zero]

/-- residue along x (outermost index) -/
theorem residue_x (nx ny nz : Nat) (b : AxisBC K) (hb : RealHalo b) (a : Nat → Nat → K) (h e : F3 K) :
    sum3 nx ny nz (fun i j k => a j k * (h i j k * (next1 nx b (fun i' => e i' j k) i - e i j k)
        + e i j k * (h i j k - prev1 nx b (fun i' => h i' j k) i))) = 0 := by
  rw [sum3_eq, sum_comm]
  refine sum_eq_zero fun j _ => ?_
  rw [sum_comm]
  refine sum_eq_zero fun k _ => ?_
  rw [← mul_sum, sbp_residue nx b hb (fun i' => e i' j k) (fun i' => h i' j k), mul_zero]

end
end Fdtdx
