/- C25 helper lemmas for termination: the touch selected in cases 2/3 is a masked one; "possible" and "required" pixels;
how one iteration changes them. -/
import FdtdxLemmas.C25Argmax

namespace Fdtdx.C25

/-! ### the selected touch -/

section best
variable {α : Type} [LT α] [DecidableRel (α := α) (· < ·)]

theorem am_some (d : Dims) (mask : Tab) (vals : Nat → α) {a : α}
    (h : (argmaxOpt (masked d mask vals)).2 = some a) :
    ∃ i j, inb d i j = true ∧ (argmaxOpt (masked d mask vals)).1 = i * d.w + j ∧ look mask i j = true := by
  by_cases hne : masked d mask vals = []
  · rw [hne] at h; simp [argmaxOpt] at h
  obtain ⟨h1, _⟩ := argmaxOpt_spec (masked d mask vals) hne
  rw [h] at h1
  unfold masked at h1
  obtain ⟨i, j, hi, hj, hidx, hx⟩ := flat_getElem d.w _ d.h _ _ h1
  refine ⟨i, j, by simp [inb, hi, hj], hidx, ?_⟩
  by_cases hm : look mask i j = true
  · exact hm
  · simp [hm] at hx

theorem am_none (d : Dims) (mask : Tab) (vals : Nat → α)
    (h : (argmaxOpt (masked d mask vals)).2 = none) : ∀ i j, inb d i j = true → look mask i j = false := by
  intro i j hin
  by_contra hm
  obtain ⟨⟨a, ha⟩, _⟩ := argmax_masked d mask vals ⟨i, j, hin, by simpa using hm⟩
  rw [h] at ha; exact absurd ha (by simp)

theorem best_eq (d : Dims) (neg : α → α) (arr : Nat → α) (mS mV : Tab) (c : Nat) :
    best d neg arr mS mV c =
      if gtOpt (argmaxOpt (masked d mS arr)).2 (argmaxOpt (masked d mV fun n => neg (arr n))).2
      then .single true (argmaxOpt (masked d mS arr)).1 c
      else .single false (argmaxOpt (masked d mV fun n => neg (arr n))).1 c := rfl

/-- `select_best_*_touch`: if one of the two masks holds somewhere, the touch selected lies in the mask of its polarity -/
theorem best_spec (d : Dims) (neg : α → α) (arr : Nat → α) (mS mV : Tab) (c : Nat)
    (hex : ∃ i j, inb d i j = true ∧ (look mS i j = true ∨ look mV i j = true)) :
    (∃ i j, inb d i j = true ∧ look mS i j = true ∧ best d neg arr mS mV c = .single true (i * d.w + j) c) ∨
    (∃ i j, inb d i j = true ∧ look mV i j = true ∧ best d neg arr mS mV c = .single false (i * d.w + j) c) := by
  rw [best_eq]
  by_cases hg : gtOpt (argmaxOpt (masked d mS arr)).2 (argmaxOpt (masked d mV fun n => neg (arr n))).2 = true
  · rw [if_pos hg]
    obtain ⟨a, ha⟩ := gtOpt_some hg
    obtain ⟨i, j, hin, hidx, hm⟩ := am_some d mS arr ha
    exact Or.inl ⟨i, j, hin, hm, by rw [hidx]⟩
  · rw [if_neg hg]
    cases hv : (argmaxOpt (masked d mV fun n => neg (arr n))).2 with
    | some a =>
      obtain ⟨i, j, hin, hidx, hm⟩ := am_some d mV (fun n => neg (arr n)) hv
      exact Or.inr ⟨i, j, hin, hm, by rw [hidx]⟩
    | none =>
      exfalso
      have hS : (argmaxOpt (masked d mS arr)).2 = none := by
        cases hs : (argmaxOpt (masked d mS arr)).2 with
        | none => rfl
        | some a => rw [hs, hv] at hg; simp [gtOpt] at hg
      obtain ⟨i, j, hin, hm⟩ := hex
      rcases hm with hm | hm
      · rw [am_none d mS arr hS i j hin] at hm; exact absurd hm (by simp)
      · rw [am_none d mV _ hv i j hin] at hm; exact absurd hm (by simp)

end best

/-! ### possible and required pixels -/

/-- pixels that an existing or still valid solid touch covers -/
def possS (d : Dims) (b : Brush) (st : State) : Tab := dil d b (orT d st.s (derive d b st).validS)
def possV (d : Dims) (b : Brush) (st : State) : Tab := dil d b (orT d st.v (derive d b st).validV)
/-- pixels that are not solid yet and can no longer become void -/
def reqS (d : Dims) (b : Brush) (st : State) : Tab := andT d (notT d (dil d b st.s)) (notT d (possV d b st))
def reqV (d : Dims) (b : Brush) (st : State) : Tab := andT d (notT d (dil d b st.v)) (notT d (possS d b st))

theorem derive_validS (d : Dims) (b : Brush) (st : State) :
    (derive d b st).validS = andT d (notT d (dil d b (dil d b st.v))) (notT d st.s) := rfl
theorem derive_validV (d : Dims) (b : Brush) (st : State) :
    (derive d b st).validV = andT d (notT d (dil d b (dil d b st.s))) (notT d st.v) := rfl
theorem derive_resS (d : Dims) (b : Brush) (st : State) :
    (derive d b st).resS = andT d (dil d b (reqS d b st)) (derive d b st).validS := rfl
theorem derive_resV (d : Dims) (b : Brush) (st : State) :
    (derive d b st).resV = andT d (dil d b (reqV d b st)) (derive d b st).validV := rfl
theorem derive_freeS (d : Dims) (b : Brush) (st : State) :
    (derive d b st).freeS = andT d (notT d (dil d b (orT d (possV d b st) (dil d b st.v)))) (derive d b st).validS := rfl
theorem derive_freeV (d : Dims) (b : Brush) (st : State) :
    (derive d b st).freeV = andT d (notT d (dil d b (orT d (possS d b st) (dil d b st.s)))) (derive d b st).validV := rfl

theorem vS_iff (d : Dims) (b : Brush) (st : State) (i j : Nat) :
    look (derive d b st).validS i j = true ↔
      inb d i j = true ∧ look (dil d b (dil d b st.v)) i j = false ∧ look st.s i j = false := by
  rw [derive_validS]
  simp only [look_andT, look_notT, Bool.and_eq_true, Bool.not_eq_true']
  constructor
  · rintro ⟨h, ⟨_, h1⟩, ⟨_, h2⟩⟩; exact ⟨h, h1, h2⟩
  · rintro ⟨h, h1, h2⟩; exact ⟨h, ⟨h, h1⟩, ⟨h, h2⟩⟩

theorem vV_iff (d : Dims) (b : Brush) (st : State) (i j : Nat) :
    look (derive d b st).validV i j = true ↔
      inb d i j = true ∧ look (dil d b (dil d b st.s)) i j = false ∧ look st.v i j = false := by
  rw [derive_validV]
  simp only [look_andT, look_notT, Bool.and_eq_true, Bool.not_eq_true']
  constructor
  · rintro ⟨h, ⟨_, h1⟩, ⟨_, h2⟩⟩; exact ⟨h, h1, h2⟩
  · rintro ⟨h, h1, h2⟩; exact ⟨h, ⟨h, h1⟩, ⟨h, h2⟩⟩

theorem look_dil_inb {d : Dims} {b : Brush} {t : Tab} {i j : Nat} (h : look (dil d b t) i j = true) : inb d i j = true :=
  ((look_dil d b t i j).mp h).1

theorem look_dil_false {d : Dims} {b : Brush} {t : Tab} {pi pj : Nat} (hin : inb d pi pj = true)
    (h : look (dil d b t) pi pj = false) {ti tj : Nat} (ht : look t ti tj = true) : ¬ Cov b ti tj pi pj := by
  intro hc
  have := (look_dil d b t pi pj).mpr ⟨hin, ti, tj, ht, hc⟩
  rw [h] at this; exact absurd this (by simp)

theorem reqS_iff (d : Dims) (b : Brush) (st : State) (i j : Nat) :
    look (reqS d b st) i j = true ↔
      inb d i j = true ∧ look (dil d b st.s) i j = false ∧ look (possV d b st) i j = false := by
  unfold reqS
  simp only [look_andT, look_notT, Bool.and_eq_true, Bool.not_eq_true']
  constructor
  · rintro ⟨h, ⟨_, h1⟩, ⟨_, h2⟩⟩; exact ⟨h, h1, h2⟩
  · rintro ⟨h, h1, h2⟩; exact ⟨h, ⟨h, h1⟩, ⟨h, h2⟩⟩

theorem reqV_iff (d : Dims) (b : Brush) (st : State) (i j : Nat) :
    look (reqV d b st) i j = true ↔
      inb d i j = true ∧ look (dil d b st.v) i j = false ∧ look (possS d b st) i j = false := by
  unfold reqV
  simp only [look_andT, look_notT, Bool.and_eq_true, Bool.not_eq_true']
  constructor
  · rintro ⟨h, ⟨_, h1⟩, ⟨_, h2⟩⟩; exact ⟨h, h1, h2⟩
  · rintro ⟨h, h1, h2⟩; exact ⟨h, ⟨h, h1⟩, ⟨h, h2⟩⟩

theorem possS_iff (d : Dims) (b : Brush) (st : State) (pi pj : Nat) :
    look (possS d b st) pi pj = true ↔ inb d pi pj = true ∧
      ∃ ti tj, inb d ti tj = true ∧ (look st.s ti tj = true ∨ look (derive d b st).validS ti tj = true) ∧ Cov b ti tj pi pj := by
  unfold possS
  rw [look_dil]
  constructor
  · rintro ⟨h, ti, tj, ht, hc⟩
    rw [look_orT] at ht
    simp only [Bool.and_eq_true, Bool.or_eq_true] at ht
    exact ⟨h, ti, tj, ht.1, ht.2, hc⟩
  · rintro ⟨h, ti, tj, hin, ht, hc⟩
    refine ⟨h, ti, tj, ?_, hc⟩
    rw [look_orT]; simp only [Bool.and_eq_true, Bool.or_eq_true]; exact ⟨hin, ht⟩

theorem possV_iff (d : Dims) (b : Brush) (st : State) (pi pj : Nat) :
    look (possV d b st) pi pj = true ↔ inb d pi pj = true ∧
      ∃ ti tj, inb d ti tj = true ∧ (look st.v ti tj = true ∨ look (derive d b st).validV ti tj = true) ∧ Cov b ti tj pi pj := by
  unfold possV
  rw [look_dil]
  constructor
  · rintro ⟨h, ti, tj, ht, hc⟩
    rw [look_orT] at ht
    simp only [Bool.and_eq_true, Bool.or_eq_true] at ht
    exact ⟨h, ti, tj, ht.1, ht.2, hc⟩
  · rintro ⟨h, ti, tj, hin, ht, hc⟩
    refine ⟨h, ti, tj, ?_, hc⟩
    rw [look_orT]; simp only [Bool.and_eq_true, Bool.or_eq_true]; exact ⟨hin, ht⟩

/-! ### the invariants -/

/-- touches lie in the domain -/
def Bnd (d : Dims) (st : State) : Prop :=
  (∀ i j, look st.s i j = true → inb d i j = true) ∧ (∀ i j, look st.v i j = true → inb d i j = true)
/-- every pixel can still become solid or void -/
def Jinv (d : Dims) (b : Brush) (st : State) : Prop :=
  ∀ i j, inb d i j = true → look (possS d b st) i j = true ∨ look (possV d b st) i j = true
/-- required pixels of the two polarities never coexist -/
def Iinv (d : Dims) (b : Brush) (st : State) : Prop :=
  (∀ i j, look (reqS d b st) i j = false) ∨ (∀ i j, look (reqV d b st) i j = false)

/-- **an uncovered pixel admits a valid touch** as long as every pixel is possible for one polarity -/
theorem exists_valid_of_J (d : Dims) (b : Brush) (st : State) (hJ : Jinv d b st) (hu : uncovered d b st = true) :
    ∃ i j, inb d i j = true ∧ (look (derive d b st).validS i j = true ∨ look (derive d b st).validV i j = true) := by
  unfold uncovered at hu
  rw [anyCells_iff] at hu
  obtain ⟨pi, pj, hin, hp⟩ := hu
  simp only [Bool.not_eq_true', Bool.or_eq_false_iff] at hp
  rcases hJ pi pj hin with h | h
  · obtain ⟨_, ti, tj, htin, ht, hc⟩ := (possS_iff d b st pi pj).mp h
    rcases ht with ht | ht
    · exact absurd hc (look_dil_false hin hp.1 ht)
    · exact ⟨ti, tj, htin, Or.inl ht⟩
  · obtain ⟨_, ti, tj, htin, ht, hc⟩ := (possV_iff d b st pi pj).mp h
    rcases ht with ht | ht
    · exact absurd hc (look_dil_false hin hp.2 ht)
    · exact ⟨ti, tj, htin, Or.inr ht⟩

/-- a required pixel admits a resolving touch (same hypothesis) -/
theorem exists_res_of_reqS (d : Dims) (b : Brush) (hs : Sym b) (st : State) (hJ : Jinv d b st) {pi pj : Nat}
    (hr : look (reqS d b st) pi pj = true) : ∃ i j, inb d i j = true ∧ look (derive d b st).resS i j = true := by
  obtain ⟨hin, hns, hnv⟩ := (reqS_iff d b st pi pj).mp hr
  rcases hJ pi pj hin with h | h
  · obtain ⟨_, ti, tj, htin, ht, hc⟩ := (possS_iff d b st pi pj).mp h
    rcases ht with ht | ht
    · exact absurd hc (look_dil_false hin hns ht)
    · refine ⟨ti, tj, htin, ?_⟩
      rw [derive_resS, look_andT]
      simp only [Bool.and_eq_true]
      exact ⟨htin, (look_dil d b _ ti tj).mpr ⟨htin, pi, pj, hr, cov_symm hs hc⟩, ht⟩
  · rw [hnv] at h; exact absurd h (by simp)

theorem exists_res_of_reqV (d : Dims) (b : Brush) (hs : Sym b) (st : State) (hJ : Jinv d b st) {pi pj : Nat}
    (hr : look (reqV d b st) pi pj = true) : ∃ i j, inb d i j = true ∧ look (derive d b st).resV i j = true := by
  obtain ⟨hin, hnv, hns⟩ := (reqV_iff d b st pi pj).mp hr
  rcases hJ pi pj hin with h | h
  · rw [hns] at h; exact absurd h (by simp)
  · obtain ⟨_, ti, tj, htin, ht, hc⟩ := (possV_iff d b st pi pj).mp h
    rcases ht with ht | ht
    · exact absurd hc (look_dil_false hin hnv ht)
    · refine ⟨ti, tj, htin, ?_⟩
      rw [derive_resV, look_andT]
      simp only [Bool.and_eq_true]
      exact ⟨htin, (look_dil d b _ ti tj).mpr ⟨htin, pi, pj, hr, cov_symm hs hc⟩, ht⟩

/-! ### how one iteration changes the possible / required pixels -/

theorem flat_inj2 {w i j ti tj : Nat} (hj : j < w) (htj : tj < w) (h : i * w + j = ti * w + tj) : i = ti ∧ j = tj := by
  have hi : i = ti := by
    rcases Nat.lt_trichotomy i ti with hlt | heq | hgt
    · have : (i + 1) * w ≤ ti * w := Nat.mul_le_mul_right w hlt
      rw [Nat.add_mul] at this; omega
    · exact heq
    · have : (ti + 1) * w ≤ i * w := Nat.mul_le_mul_right w hgt
      rw [Nat.add_mul] at this; omega
  subst hi
  exact ⟨rfl, by omega⟩

theorem dil_congr2 (d : Dims) (b : Brush) {x y : Tab} (h : look x = look y) : dil d b x = dil d b y := by
  unfold dil; rw [h]

theorem dil_mono (d : Dims) (b : Brush) {x y : Tab} (h : ∀ i j, look x i j = true → look y i j = true) (i j : Nat)
    (hx : look (dil d b x) i j = true) : look (dil d b y) i j = true := by
  obtain ⟨hin, ti, tj, ht, hc⟩ := (look_dil d b x i j).mp hx
  exact (look_dil d b y i j).mpr ⟨hin, ti, tj, h ti tj ht, hc⟩

/-- state after adding one solid / one void touch -/
def addS (d : Dims) (st : State) (ti tj : Nat) : State := ⟨st.v, setIdx d st.s (ti * d.w + tj)⟩
def addV (d : Dims) (st : State) (ti tj : Nat) : State := ⟨setIdx d st.v (ti * d.w + tj), st.s⟩
/-- state after adding all free touches -/
def addFree (d : Dims) (b : Brush) (st : State) : State :=
  ⟨orT d st.v (derive d b st).freeV, orT d st.s (derive d b st).freeS⟩

section single
variable (d : Dims) (b : Brush) (st : State) (ti tj : Nat)

theorem possS_addS (hv : look (derive d b st).validS ti tj = true) :
    possS d b (addS d st ti tj) = possS d b st := by
  obtain ⟨hin, himp, hns⟩ := (vS_iff d b st ti tj).mp hv
  have hb := hin
  simp only [inb, Bool.and_eq_true, decide_eq_true_eq] at hb
  unfold possS
  apply dil_congr2
  funext i j
  rw [look_orT, look_orT, derive_validS, derive_validS]
  simp only [addS, look_andT, look_notT, look_setIdx]
  by_cases hij : inb d i j = true
  · have hbij := hij
    simp only [inb, Bool.and_eq_true, decide_eq_true_eq] at hbij
    simp only [hij, Bool.true_and]
    by_cases heq : i * d.w + j = ti * d.w + tj
    · obtain ⟨rfl, rfl⟩ := flat_inj2 hbij.2 hb.2 heq
      simp [himp, hns]
    · simp [heq]
  · simp [hij]

theorem possV_addV (hv : look (derive d b st).validV ti tj = true) :
    possV d b (addV d st ti tj) = possV d b st := by
  obtain ⟨hin, himp, hns⟩ := (vV_iff d b st ti tj).mp hv
  have hb := hin
  simp only [inb, Bool.and_eq_true, decide_eq_true_eq] at hb
  unfold possV
  apply dil_congr2
  funext i j
  rw [look_orT, look_orT, derive_validV, derive_validV]
  simp only [addV, look_andT, look_notT, look_setIdx]
  by_cases hij : inb d i j = true
  · have hbij := hij
    simp only [inb, Bool.and_eq_true, decide_eq_true_eq] at hbij
    simp only [hij, Bool.true_and]
    by_cases heq : i * d.w + j = ti * d.w + tj
    · obtain ⟨rfl, rfl⟩ := flat_inj2 hbij.2 hb.2 heq
      simp [himp, hns]
    · simp [heq]
  · simp [hij]

theorem reqV_addS (hv : look (derive d b st).validS ti tj = true) : reqV d b (addS d st ti tj) = reqV d b st := by
  unfold reqV; rw [possS_addS d b st ti tj hv]; rfl

theorem reqS_addV (hv : look (derive d b st).validV ti tj = true) : reqS d b (addV d st ti tj) = reqS d b st := by
  unfold reqS; rw [possV_addV d b st ti tj hv]; rfl

theorem pixV_sub_possV (st' : State) (hb : ∀ i j, look st'.v i j = true → inb d i j = true) (i j : Nat)
    (h : look (dil d b st'.v) i j = true) : look (possV d b st') i j = true := by
  unfold possV
  apply dil_mono d b _ i j h
  intro a c hac
  rw [look_orT]; simp [hb a c hac, hac]

theorem pixS_sub_possS (st' : State) (hb : ∀ i j, look st'.s i j = true → inb d i j = true) (i j : Nat)
    (h : look (dil d b st'.s) i j = true) : look (possS d b st') i j = true := by
  unfold possS
  apply dil_mono d b _ i j h
  intro a c hac
  rw [look_orT]; simp [hb a c hac, hac]

/-- adding a valid solid touch while no pixel is required void keeps both invariants -/
theorem inv_addS (hbnd : Bnd d st) (hv : look (derive d b st).validS ti tj = true)
    (_hJ : Jinv d b st) (hnr : ∀ i j, look (reqV d b st) i j = false) :
    Jinv d b (addS d st ti tj) ∧ Iinv d b (addS d st ti tj) := by
  refine ⟨?_, Or.inr (by rw [reqV_addS d b st ti tj hv]; exact hnr)⟩
  intro i j hin
  rw [possS_addS d b st ti tj hv]
  by_cases hp : look (possS d b st) i j = true
  · exact Or.inl hp
  · right
    have hp' : look (possS d b st) i j = false := by simpa using hp
    have hpv : look (dil d b st.v) i j = true := by
      by_contra hc
      have := (reqV_iff d b st i j).mpr ⟨hin, by simpa using hc, hp'⟩
      rw [hnr i j] at this; exact absurd this (by simp)
    exact pixV_sub_possV d b (addS d st ti tj) hbnd.2 i j hpv

theorem inv_addV (hbnd : Bnd d st) (hv : look (derive d b st).validV ti tj = true)
    (_hJ : Jinv d b st) (hnr : ∀ i j, look (reqS d b st) i j = false) :
    Jinv d b (addV d st ti tj) ∧ Iinv d b (addV d st ti tj) := by
  refine ⟨?_, Or.inl (by rw [reqS_addV d b st ti tj hv]; exact hnr)⟩
  intro i j hin
  rw [possV_addV d b st ti tj hv]
  by_cases hp : look (possV d b st) i j = true
  · exact Or.inr hp
  · left
    have hp' : look (possV d b st) i j = false := by simpa using hp
    have hps : look (dil d b st.s) i j = true := by
      by_contra hc
      have := (reqS_iff d b st i j).mpr ⟨hin, by simpa using hc, hp'⟩
      rw [hnr i j] at this; exact absurd this (by simp)
    exact pixS_sub_possS d b (addV d st ti tj) hbnd.1 i j hps

end single

/-! ### case 1: all free touches at once -/

section free
variable (d : Dims) (b : Brush) (hs : Sym b) (st : State)

theorem fS_iff (i j : Nat) : look (derive d b st).freeS i j = true ↔
    look (derive d b st).validS i j = true ∧ look (dil d b (orT d (possV d b st) (dil d b st.v))) i j = false := by
  rw [derive_freeS, look_andT, look_notT]
  constructor
  · intro h
    simp only [Bool.and_eq_true, Bool.not_eq_true'] at h
    exact ⟨h.2.2, h.2.1.2⟩
  · rintro ⟨hv, hf⟩
    have hin := ((vS_iff d b st i j).mp hv).1
    simp [hin, hv, hf]

theorem fV_iff (i j : Nat) : look (derive d b st).freeV i j = true ↔
    look (derive d b st).validV i j = true ∧ look (dil d b (orT d (possS d b st) (dil d b st.s))) i j = false := by
  rw [derive_freeV, look_andT, look_notT]
  constructor
  · intro h
    simp only [Bool.and_eq_true, Bool.not_eq_true'] at h
    exact ⟨h.2.2, h.2.1.2⟩
  · rintro ⟨hv, hf⟩
    have hin := ((vV_iff d b st i j).mp hv).1
    simp [hin, hv, hf]

include hs in
/-- a still valid solid touch is not made impossible by the free void touches -/
theorem validS_survives {ti tj : Nat} (hv : look (derive d b st).validS ti tj = true) :
    look (dil d b (dil d b (addFree d b st).v)) ti tj = false := by
  obtain ⟨hin, himp, _⟩ := (vS_iff d b st ti tj).mp hv
  by_contra hc
  obtain ⟨_, pi, pj, hp, hcp⟩ := (look_dil d b _ ti tj).mp (by simpa using hc)
  obtain ⟨hpin, ui, uj, hu, hcu⟩ := (look_dil d b _ pi pj).mp hp
  simp only [addFree] at hu
  rw [look_orT] at hu
  simp only [Bool.and_eq_true, Bool.or_eq_true] at hu
  rcases hu.2 with huv | huf
  · -- an existing void touch: the touch was impossible before
    have : look (dil d b (dil d b st.v)) ti tj = true :=
      (look_dil d b _ ti tj).mpr ⟨hin, pi, pj, (look_dil d b _ pi pj).mpr ⟨hpin, ui, uj, huv, hcu⟩, hcp⟩
    rw [himp] at this; exact absurd this (by simp)
  · -- a free void touch avoids every pixel a valid solid touch covers
    have hposs : look (possS d b st) pi pj = true :=
      (possS_iff d b st pi pj).mpr ⟨hpin, ti, tj, hin, Or.inr hv, cov_symm hs hcp⟩
    have hor : look (orT d (possS d b st) (dil d b st.s)) pi pj = true := by
      rw [look_orT]; simp [hpin, hposs]
    have : look (dil d b (orT d (possS d b st) (dil d b st.s))) ui uj = true :=
      (look_dil d b _ ui uj).mpr ⟨hu.1, pi, pj, hor, cov_symm hs hcu⟩
    rw [((fV_iff d b st ui uj).mp huf).2] at this; exact absurd this (by simp)

include hs in
theorem validV_survives {ti tj : Nat} (hv : look (derive d b st).validV ti tj = true) :
    look (dil d b (dil d b (addFree d b st).s)) ti tj = false := by
  obtain ⟨hin, himp, _⟩ := (vV_iff d b st ti tj).mp hv
  by_contra hc
  obtain ⟨_, pi, pj, hp, hcp⟩ := (look_dil d b _ ti tj).mp (by simpa using hc)
  obtain ⟨hpin, ui, uj, hu, hcu⟩ := (look_dil d b _ pi pj).mp hp
  simp only [addFree] at hu
  rw [look_orT] at hu
  simp only [Bool.and_eq_true, Bool.or_eq_true] at hu
  rcases hu.2 with huv | huf
  · have : look (dil d b (dil d b st.s)) ti tj = true :=
      (look_dil d b _ ti tj).mpr ⟨hin, pi, pj, (look_dil d b _ pi pj).mpr ⟨hpin, ui, uj, huv, hcu⟩, hcp⟩
    rw [himp] at this; exact absurd this (by simp)
  · have hposs : look (possV d b st) pi pj = true :=
      (possV_iff d b st pi pj).mpr ⟨hpin, ti, tj, hin, Or.inr hv, cov_symm hs hcp⟩
    have hor : look (orT d (possV d b st) (dil d b st.v)) pi pj = true := by
      rw [look_orT]; simp [hpin, hposs]
    have : look (dil d b (orT d (possV d b st) (dil d b st.v))) ui uj = true :=
      (look_dil d b _ ui uj).mpr ⟨hu.1, pi, pj, hor, cov_symm hs hcu⟩
    rw [((fS_iff d b st ui uj).mp huf).2] at this; exact absurd this (by simp)

theorem imp_mono_v (hbnd : Bnd d st) (i j : Nat) (h : look (dil d b (dil d b st.v)) i j = true) :
    look (dil d b (dil d b (addFree d b st).v)) i j = true := by
  apply dil_mono d b _ i j h
  intro a c hac
  apply dil_mono d b _ a c hac
  intro x y hxy
  simp only [addFree]; rw [look_orT]; simp [hbnd.2 x y hxy, hxy]

theorem imp_mono_s (hbnd : Bnd d st) (i j : Nat) (h : look (dil d b (dil d b st.s)) i j = true) :
    look (dil d b (dil d b (addFree d b st).s)) i j = true := by
  apply dil_mono d b _ i j h
  intro a c hac
  apply dil_mono d b _ a c hac
  intro x y hxy
  simp only [addFree]; rw [look_orT]; simp [hbnd.1 x y hxy, hxy]

include hs in
theorem possS_addFree (hbnd : Bnd d st) : possS d b (addFree d b st) = possS d b st := by
  unfold possS
  apply dil_congr2
  funext i j
  rw [look_orT, look_orT]
  by_cases hin : inb d i j = true
  · simp only [hin, Bool.true_and]
    by_cases hX : look st.s i j = true
    · have : look (addFree d b st).s i j = true := by simp only [addFree]; rw [look_orT]; simp [hin, hX]
      simp [hX, this]
    · have hX' : look st.s i j = false := by simpa using hX
      by_cases hI : look (dil d b (dil d b st.v)) i j = true
      · -- impossible before and after; not free
        have hI' := imp_mono_v d b st hbnd i j hI
        have hnv : look (derive d b st).validS i j = false := by
          by_contra hc
          have := ((vS_iff d b st i j).mp (by simpa using hc)).2.1
          rw [hI] at this; exact absurd this (by simp)
        have hnf : look (derive d b st).freeS i j = false := by
          by_contra hc
          have := ((fS_iff d b st i j).mp (by simpa using hc)).1
          rw [hnv] at this; exact absurd this (by simp)
        have hs' : look (addFree d b st).s i j = false := by
          simp only [addFree]; rw [look_orT]; simp [hX', hnf]
        have hnv' : look (derive d b (addFree d b st)).validS i j = false := by
          by_contra hc
          have := ((vS_iff d b (addFree d b st) i j).mp (by simpa using hc)).2.1
          rw [hI'] at this; exact absurd this (by simp)
        simp [hX', hnv, hs', hnv']
      · have hI0 : look (dil d b (dil d b st.v)) i j = false := by simpa using hI
        have hv : look (derive d b st).validS i j = true := (vS_iff d b st i j).mpr ⟨hin, hI0, hX'⟩
        have hI' := validS_survives d b hs st hv
        by_cases hF : look (addFree d b st).s i j = true
        · simp [hX', hv, hF]
        · have hF' : look (addFree d b st).s i j = false := by simpa using hF
          have hv' : look (derive d b (addFree d b st)).validS i j = true :=
            (vS_iff d b (addFree d b st) i j).mpr ⟨hin, hI', hF'⟩
          simp [hX', hv, hF', hv']
  · simp [hin]

include hs in
theorem possV_addFree (hbnd : Bnd d st) : possV d b (addFree d b st) = possV d b st := by
  unfold possV
  apply dil_congr2
  funext i j
  rw [look_orT, look_orT]
  by_cases hin : inb d i j = true
  · simp only [hin, Bool.true_and]
    by_cases hX : look st.v i j = true
    · have : look (addFree d b st).v i j = true := by simp only [addFree]; rw [look_orT]; simp [hin, hX]
      simp [hX, this]
    · have hX' : look st.v i j = false := by simpa using hX
      by_cases hI : look (dil d b (dil d b st.s)) i j = true
      · have hI' := imp_mono_s d b st hbnd i j hI
        have hnv : look (derive d b st).validV i j = false := by
          by_contra hc
          have := ((vV_iff d b st i j).mp (by simpa using hc)).2.1
          rw [hI] at this; exact absurd this (by simp)
        have hnf : look (derive d b st).freeV i j = false := by
          by_contra hc
          have := ((fV_iff d b st i j).mp (by simpa using hc)).1
          rw [hnv] at this; exact absurd this (by simp)
        have hs' : look (addFree d b st).v i j = false := by
          simp only [addFree]; rw [look_orT]; simp [hX', hnf]
        have hnv' : look (derive d b (addFree d b st)).validV i j = false := by
          by_contra hc
          have := ((vV_iff d b (addFree d b st) i j).mp (by simpa using hc)).2.1
          rw [hI'] at this; exact absurd this (by simp)
        simp [hX', hnv, hs', hnv']
      · have hI0 : look (dil d b (dil d b st.s)) i j = false := by simpa using hI
        have hv : look (derive d b st).validV i j = true := (vV_iff d b st i j).mpr ⟨hin, hI0, hX'⟩
        have hI' := validV_survives d b hs st hv
        by_cases hF : look (addFree d b st).v i j = true
        · simp [hX', hv, hF]
        · have hF' : look (addFree d b st).v i j = false := by simpa using hF
          have hv' : look (derive d b (addFree d b st)).validV i j = true :=
            (vV_iff d b (addFree d b st) i j).mpr ⟨hin, hI', hF'⟩
          simp [hX', hv, hF', hv']
  · simp [hin]

include hs in
/-- case 1 keeps both invariants -/
theorem inv_addFree (hbnd : Bnd d st) (hJ : Jinv d b st) (hI : Iinv d b st) :
    Jinv d b (addFree d b st) ∧ Iinv d b (addFree d b st) := by
  have e1 := possS_addFree d b hs st hbnd
  have e2 := possV_addFree d b hs st hbnd
  have mS : ∀ i j, look (dil d b st.s) i j = true → look (dil d b (addFree d b st).s) i j = true := by
    intro i j h
    apply dil_mono d b _ i j h
    intro x y hxy; simp only [addFree]; rw [look_orT]; simp [hbnd.1 x y hxy, hxy]
  have mV : ∀ i j, look (dil d b st.v) i j = true → look (dil d b (addFree d b st).v) i j = true := by
    intro i j h
    apply dil_mono d b _ i j h
    intro x y hxy; simp only [addFree]; rw [look_orT]; simp [hbnd.2 x y hxy, hxy]
  refine ⟨?_, ?_⟩
  · intro i j hin; rw [e1, e2]; exact hJ i j hin
  · rcases hI with h | h
    · left
      intro i j
      by_contra hc
      obtain ⟨hin, h1, h2⟩ := (reqS_iff d b _ i j).mp (by simpa using hc)
      rw [e2] at h2
      have h1' : look (dil d b st.s) i j = false := by
        by_contra hcc; rw [mS i j (by simpa using hcc)] at h1; exact absurd h1 (by simp)
      have := (reqS_iff d b st i j).mpr ⟨hin, h1', h2⟩
      rw [h i j] at this; exact absurd this (by simp)
    · right
      intro i j
      by_contra hc
      obtain ⟨hin, h1, h2⟩ := (reqV_iff d b _ i j).mp (by simpa using hc)
      rw [e1] at h2
      have h1' : look (dil d b st.v) i j = false := by
        by_contra hcc; rw [mV i j (by simpa using hcc)] at h1; exact absurd h1 (by simp)
      have := (reqV_iff d b st i j).mpr ⟨hin, h1', h2⟩
      rw [h i j] at this; exact absurd this (by simp)

end free

end Fdtdx.C25
