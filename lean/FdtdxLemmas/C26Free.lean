/-
Loop invariants of the solver, and the invariant of an axis of an object that nothing constrains: its three
slots stay unknown until the extension step writes `lo = 0`, `hi = volume size`.
-/
import FdtdxLemmas.C26Term

namespace Fdtdx.C26

variable {α : Type} [Add α] [Sub α] [Mul α] [Div α] [Neg α] [LT α] [DecidableLT α]
  [OfNat α 0] [OfNat α 1] [OfNat α 2]

set_option linter.unusedSectionVars false

/-! ### invariants: a predicate preserved by every assignment of an atom and by the extension step -/

theorem runGroup_inv (P : St → Prop) (c : Bool) : ∀ (as : List Atom) (σ : St) (chg : Bool) {σ' : St} {c' e' : Bool},
    (∀ a ∈ as, ∀ ρ x, P ρ → a.eval ρ = .set x → P (ρ.set a.target (some x))) → P σ →
    runGroup c as σ chg = .ok σ' c' e' → P σ'
  | [], σ, chg, σ', c', e', _, hP, h => by simp [runGroup] at h; rw [← h.1]; exact hP
  | a :: as, σ, chg, σ', c', e', hs, hP, h => by
    have hs' : ∀ b ∈ as, ∀ ρ x, P ρ → b.eval ρ = .set x → P (ρ.set b.target (some x)) :=
      fun b hb => hs b (by simp [hb])
    unfold runGroup at h
    split at h
    · exact runGroup_inv P c as σ chg hs' hP h
    · exact runGroup_inv P c as σ chg hs' hP h
    · rename_i x hx
      exact runGroup_inv P c as _ true hs' (hs a (by simp) σ x hP hx) h
    · split at h
      · simp at h; rw [← h.1]; exact hP
      · split at h
        · rename_i σ'' c'' _ hr
          simp at h; rw [← h.1]; exact runGroup_inv P c as σ chg hs' hP hr
        · cases h
    · split at h
      · simp at h; rw [← h.1]; exact hP
      · cases h

theorem runGroups_inv (P : St → Prop) : ∀ (gs : List Group) (s s' : PS),
    (∀ a ∈ allAtoms gs, ∀ ρ x, P ρ → a.eval ρ = .set x → P (ρ.set a.target (some x))) → P s.σ →
    runGroups gs s = some s' → P s'.σ
  | [], s, s', _, hP, h => by simp [runGroups] at h; subst h; exact hP
  | g :: gs, s, s', hs, hP, h => by
    unfold runGroups at h
    split at h
    · cases h
    · rename_i σ1 c1 e1 hg
      have h1 : P σ1 := runGroup_inv P _ _ _ _ (fun a ha => hs a (mem_allAtoms.2 ⟨g, by simp, ha⟩)) hP hg
      exact runGroups_inv P gs _ s' (fun a ha => by
        obtain ⟨g', hg', ha'⟩ := mem_allAtoms.1 ha
        exact hs a (mem_allAtoms.2 ⟨g', by simp [hg'], ha'⟩)) h1 h

theorem loop_inv (P : St → Prop) (sys : Sys α) (gs : List Group)
    (hstep : ∀ a ∈ allAtoms gs, ∀ ρ x, P ρ → a.eval ρ = .set x → P (ρ.set a.target (some x)))
    (hext : ∀ ρ, P ρ → P (extend sys ρ)) :
    ∀ (n : Nat) (σ : St) (e : List Nat) (τ : St) (e' : List Nat), P σ → loop sys gs n σ e = some (τ, e') → P τ
  | 0, σ, e, τ, e', hP, h => by simp [loop] at h; rw [← h.1]; exact hP
  | n + 1, σ, e, τ, e', hP, h => by
    rw [loop_succ] at h
    split at h
    · cases h
    · rename_i s hs
      have h1 : P s.σ := runGroups_inv P gs _ s hstep hP hs
      split at h
      · exact loop_inv P sys gs hstep hext n _ _ τ e' h1 h
      · split at h
        · exact loop_inv P sys gs hstep hext n _ _ τ e' (hext _ h1) h
        · simp at h; rw [← h.1]; exact h1

/-! ### an unconstrained axis -/

/-- the constraint has a rule that writes a slot of object `o` on axis `ax` -/
def Con.touches (c : Con α) (o ax : Nat) : Bool :=
  c.owner == o &&
    (match c with
     | .gridc _ es => es.any fun e => e.1 == ax
     | .realc _ es => es.any fun e => e.1 == ax
     | .pos _ _ es => es.any fun e => e.ax == ax
     | .size _ _ es => es.any fun e => e.ax == ax
     | .ext _ _ ax' _ _ _ _ => ax' == ax)

/-- nothing says anything about axis `ax` of the object(s) named `id`: no static shape or position, no
constraint on that axis -/
def Unconstrained (sys : Sys α) (id ax : Nat) : Prop :=
  (∀ o ∈ sys.objs, o.id = id → o.gshape.getD ax none = none ∧ o.rshape.getD ax none = none ∧
    o.rpos.getD ax none = none) ∧
  ∀ c ∈ sys.cons, c.touches id ax = false

def bookHi (id ax : Nat) : Atom := ⟨[⟨id, ax, .lo⟩, ⟨id, ax, .size⟩], false, ⟨id, ax, .hi⟩, addF⟩
def bookLo (id ax : Nat) : Atom := ⟨[⟨id, ax, .hi⟩, ⟨id, ax, .size⟩], false, ⟨id, ax, .lo⟩, subF⟩
def bookSize (id ax : Nat) : Atom := ⟨[⟨id, ax, .hi⟩, ⟨id, ax, .lo⟩], false, ⟨id, ax, .size⟩, subF⟩

theorem conAtoms_touch (g : Grid α) (vol : Nat) (c : Con α) (a : Atom) (ha : a ∈ c.atoms g vol false)
    (hf : ∃ vs x, a.f vs = some x) : c.touches a.target.o a.target.ax = true := by
  obtain ⟨vs, x, hfx⟩ := hf
  have hraise : ∀ o ax, a = raiseAtom o ax → False := by
    intro o ax h; subst h; simp [raiseAtom] at hfx
  have hguard : ∀ o ax k, a ∈ offsetGuard g o ax k → False := by
    intro o ax k h
    unfold offsetGuard at h
    split at h
    · simp at h; exact hraise _ _ h.2
    · simp at h
  cases c with
  | gridc o es =>
    simp only [Con.atoms] at ha
    split at ha
    · simp at ha; exact (hraise _ _ ha).elim
    · simp only [List.mem_map] at ha
      obtain ⟨⟨ax, hi, c⟩, he, rfl⟩ := ha
      simp only [Con.touches, Con.owner, beq_self_eq_true, Bool.true_and, List.any_eq_true]
      exact ⟨_, he, by simp⟩
  | realc o es =>
    simp only [Con.atoms, List.mem_map] at ha
    obtain ⟨⟨ax, hi, c⟩, he, rfl⟩ := ha
    simp only [Con.touches, Con.owner, beq_self_eq_true, Bool.true_and, List.any_eq_true]
    exact ⟨_, he, by simp⟩
  | pos o t es =>
    simp only [Con.atoms, List.mem_flatMap, List.mem_append, List.mem_cons] at ha
    obtain ⟨e, he, h | h | h | h⟩ := ha
    · exact (hguard _ _ _ h).elim
    · subst h
      simp only [Con.touches, Con.owner, beq_self_eq_true, Bool.true_and, List.any_eq_true]
      exact ⟨e, he, by simp⟩
    · subst h
      simp only [Con.touches, Con.owner, beq_self_eq_true, Bool.true_and, List.any_eq_true]
      exact ⟨e, he, by simp⟩
    · simp at h
  | size o t es =>
    simp only [Con.atoms, List.mem_flatMap, List.mem_append, List.mem_cons] at ha
    obtain ⟨e, he, h | h | h⟩ := ha
    · exact (hguard _ _ _ h).elim
    · subst h
      simp only [Con.touches, Con.owner, beq_self_eq_true, Bool.true_and, List.any_eq_true]
      exact ⟨e, he, by simp⟩
    · simp at h
  | ext o t ax hi opos off goff =>
    simp only [Con.atoms, List.mem_append] at ha
    rcases ha with h | h
    · exact (hguard _ _ _ h).elim
    · cases t with
      | some t => simp at h; subst h; simp [Con.touches, Con.owner]
      | none => simp at h; subst h; simp [Con.touches, Con.owner]

/-- the only atoms that can assign a slot of an unconstrained axis are the three bookkeeping rules -/
theorem free_atoms {sys : Sys α} {id ax : Nat} (hfree : Unconstrained sys id ax) {a : Atom}
    (ha : a ∈ allAtoms (groups sys)) (ho : a.target.o = id) (hax : a.target.ax = ax)
    (hf : ∃ vs x, a.f vs = some x) : a = bookHi id ax ∨ a = bookLo id ax ∨ a = bookSize id ax := by
  obtain ⟨gr, hgr, hag⟩ := mem_allAtoms.1 ha
  rcases mem_groups.1 hgr with ⟨o, hoo, h⟩ | ⟨o, hoo, h⟩ | ⟨o, hoo, h⟩ | ⟨c, hc, rfl⟩
  · exfalso
    simp only [Obj.posGroups, List.mem_flatMap] at h
    obtain ⟨ax', _, h⟩ := h
    split at h
    · simp at h
    · rename_i p hp
      simp at h
      have key : o.id = id ∧ ax' = ax := by
        rcases h with rfl | rfl <;> (simp at hag; subst hag; exact ⟨ho, hax⟩)
      obtain ⟨h1, h2⟩ := key
      subst h2
      have := (hfree.1 o hoo h1).2.2
      rw [this] at hp; cases hp
  · simp only [sliceGroups, List.mem_map] at h
    obtain ⟨ax', _, rfl⟩ := h
    simp at hag
    rcases hag with rfl | rfl
    · simp only at ho hax; subst ho hax; exact Or.inl rfl
    · simp only at ho hax; subst ho hax; exact Or.inr (Or.inl rfl)
  · simp only [shapeGroups, List.mem_map] at h
    obtain ⟨ax', _, rfl⟩ := h
    simp at hag
    subst hag
    simp only at ho hax; subst ho hax; exact Or.inr (Or.inr rfl)
  · exfalso
    have := conAtoms_touch sys.grid (volId sys) c a hag hf
    rw [ho, hax, hfree.2 c hc] at this
    cases this

/-- state of an unconstrained axis: nothing known yet, or extended over the whole volume -/
def FreeInv (sys : Sys α) (id ax : Nat) (vs : Int) (σ : St) : Prop :=
  σ ⟨volId sys, ax, .size⟩ = some vs ∧
  ((σ ⟨id, ax, .lo⟩ = none ∧ σ ⟨id, ax, .hi⟩ = none ∧ σ ⟨id, ax, .size⟩ = none) ∨
   (σ ⟨id, ax, .lo⟩ = some 0 ∧ σ ⟨id, ax, .hi⟩ = some vs ∧
     (σ ⟨id, ax, .size⟩ = none ∨ σ ⟨id, ax, .size⟩ = some vs)))

theorem set_other {σ : St} {t v : Var} {x : Int} (h : v ≠ t) : (σ.set t (some x)) v = σ v := by
  simp [St.set, h]

theorem set_self {σ : St} {t : Var} {x : Int} : (σ.set t (some x)) t = some x := by
  simp [St.set]

theorem freeInv_step {sys : Sys α} {id ax : Nat} {vs : Int} (hfree : Unconstrained sys id ax)
    (a : Atom) (ha : a ∈ allAtoms (groups sys)) (ρ : St) (x : Int) (hP : FreeInv sys id ax vs ρ)
    (he : a.eval ρ = .set x) : FreeInv sys id ax vs (ρ.set a.target (some x)) := by
  obtain ⟨vals, hp, hf, ht⟩ := (eval_set_iff a ρ x).1 he
  obtain ⟨hvol, hst⟩ := hP
  have hvne : (⟨volId sys, ax, .size⟩ : Var) ≠ a.target := by
    intro h; rw [← h, hvol] at ht; cases ht
  by_cases hmine : a.target.o = id ∧ a.target.ax = ax
  · -- one of the three bookkeeping rules
    rcases free_atoms hfree ha hmine.1 hmine.2 ⟨vals, x, hf⟩ with rfl | rfl | rfl
    · -- hi := lo + size: needs lo and size known and hi unknown — impossible in both states
      exfalso
      simp only [bookHi] at hp ht
      rcases hst with ⟨h1, _, _⟩ | ⟨_, h2, _⟩
      · simp [premVals, h1] at hp
      · rw [h2] at ht; cases ht
    · exfalso
      simp only [bookLo] at hp ht
      rcases hst with ⟨_, h2, _⟩ | ⟨h1, _, _⟩
      · simp [premVals, h2] at hp
      · rw [h1] at ht; cases ht
    · -- size := hi - lo
      simp only [bookSize] at hp ht hf ⊢
      rcases hst with ⟨_, h2, _⟩ | ⟨h1, h2, _⟩
      · simp [premVals, h2] at hp
      · simp only [premVals, h1, h2] at hp
        cases hp
        simp only [subF, Option.some.injEq] at hf
        have hvne' : (⟨volId sys, ax, .size⟩ : Var) ≠ ⟨id, ax, .size⟩ := hvne
        refine ⟨by rw [set_other hvne']; exact hvol, Or.inr ⟨?_, ?_, Or.inr ?_⟩⟩
        · rw [set_other (by simp)]; exact h1
        · rw [set_other (by simp)]; exact h2
        · rw [set_self, ← hf]; simp
  · -- some other slot
    have hne : ∀ k, (⟨id, ax, k⟩ : Var) ≠ a.target := by
      intro k h
      apply hmine
      rw [← h]
      exact ⟨rfl, rfl⟩
    refine ⟨by rw [set_other hvne]; exact hvol, ?_⟩
    rw [set_other (hne .lo), set_other (hne .hi), set_other (hne .size)]
    exact hst

theorem freeInv_ext {sys : Sys α} {id ax : Nat} {vs : Int} (hfree : Unconstrained sys id ax)
    (hobj : isObj sys id = true) (hax : ax < 3) (ρ : St) (hP : FreeInv sys id ax vs ρ) :
    FreeInv sys id ax vs (extend sys ρ) := by
  obtain ⟨hvol, hst⟩ := hP
  have hv' : extend sys ρ ⟨volId sys, ax, .size⟩ = some vs := extend_mono sys ρ _ _ hvol
  refine ⟨hv', ?_⟩
  rw [extend_eq]
  have hsize : extendPt sys ρ ⟨id, ax, .size⟩ = ρ ⟨id, ax, .size⟩ := by
    simp [extendPt, extends_]
  have hnoext : ∀ hi, hasExt sys id ax hi = false := by
    intro hi
    unfold hasExt
    rw [List.any_eq_false]
    intro c hc
    have := hfree.2 c hc
    cases c with
    | ext o' t ax' hi' opos off goff =>
      intro hcon
      have hcon' : (o' == id && ax' == ax && hi' == hi) = true := hcon
      simp only [Bool.and_eq_true, beq_iff_eq] at hcon'
      obtain ⟨⟨h1, h2⟩, _⟩ := hcon'
      subst h1 h2
      simp [Con.touches, Con.owner] at this
    | _ => simp
  have hnopos : pendingPos sys ρ id ax = false := by
    unfold pendingPos
    rw [List.any_eq_false]
    intro c hc
    have := hfree.2 c hc
    cases c with
    | pos o' t es =>
      intro hcon
      have hcon' : (o' == id && es.any (fun e => e.ax == ax) &&
        ((ρ ⟨t, ax, .lo⟩).isNone || (ρ ⟨t, ax, .hi⟩).isNone)) = true := hcon
      simp only [Bool.and_eq_true, beq_iff_eq] at hcon'
      obtain ⟨⟨h1, h2⟩, _⟩ := hcon'
      subst h1
      simp [Con.touches, Con.owner, h2] at this
    | _ => simp
  rcases hst with ⟨h1, h2, h3⟩ | ⟨h1, h2, h3⟩
  · right
    have e1 : extends_ sys ρ ⟨id, ax, .lo⟩ = true := by
      simp [extends_, hax, hobj, h1, h2, h3, extensible, hnoext, hnopos]
    have e2 : extends_ sys ρ ⟨id, ax, .hi⟩ = true := by
      simp [extends_, hax, hobj, h1, h2, h3, extensible, hnoext, hnopos]
    refine ⟨by simp [extendPt, e1], by simp [extendPt, e2, hvol], Or.inl (by rw [hsize]; exact h3)⟩
  · right
    have e1 : extends_ sys ρ ⟨id, ax, .lo⟩ = false := by simp [extends_, h1]
    have e2 : extends_ sys ρ ⟨id, ax, .hi⟩ = false := by simp [extends_, h2]
    refine ⟨by simp [extendPt, e1, h1], by simp [extendPt, e2, h2], by rw [hsize]; exact h3⟩

end Fdtdx.C26
