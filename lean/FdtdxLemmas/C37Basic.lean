/-
Helper lemmas for C37 (and C38/C43): `absv`, first-minimum `argmin`, sorted edge lists, counting searches,
`minList`, `maxAbs`.  Everything over a linearly ordered field `K`.
-/
import FdtdxModel.C37
import Mathlib.Tactic.Ring
import Mathlib.Tactic.Linarith
import Mathlib.Tactic.FieldSimp
import Mathlib.Algebra.Order.Field.Basic
import Mathlib.Algebra.Order.Ring.Abs

set_option linter.unusedSectionVars false

namespace Fdtdx.C37

variable {K : Type} [Field K] [LinearOrder K] [IsStrictOrderedRing K]

theorem absv_eq_abs (x : K) : absv x = |x| := by
  unfold absv
  split_ifs with h
  · exact (abs_of_neg h).symm
  · exact (abs_of_nonneg (not_lt.mp h)).symm

/-! ### argmin = index of the first minimum -/

/-- `r` is the index of the first minimum of `l` -/
def IsFirstMin (l : List K) (r : Nat) : Prop :=
  r < l.length ∧ (∀ j, j < l.length → l.getD r 0 ≤ l.getD j 0) ∧ ∀ j, j < r → l.getD r 0 < l.getD j 0

theorem IsFirstMin.unique {l : List K} {r r' : Nat} (h : IsFirstMin l r) (h' : IsFirstMin l r') : r = r' := by
  rcases Nat.lt_trichotomy r r' with hlt | heq | hgt
  · exact absurd (h'.2.2 r hlt) (not_lt.mpr (h.2.1 r' h'.1))
  · exact heq
  · exact absurd (h.2.2 r' hgt) (not_lt.mpr (h'.2.1 r h.1))

theorem argminGo_spec (xs : List K) : ∀ (i bi : Nat) (bv : K),
    (argminGo xs i bi bv = bi ∧ ∀ p, p < xs.length → bv ≤ xs.getD p 0) ∨
    (∃ p, p < xs.length ∧ argminGo xs i bi bv = i + p ∧ xs.getD p 0 < bv ∧
      (∀ q, q < xs.length → xs.getD p 0 ≤ xs.getD q 0) ∧ ∀ q, q < p → xs.getD p 0 < xs.getD q 0) := by
  induction xs with
  | nil => intro i bi bv; left; exact ⟨rfl, fun p hp => absurd hp (by simp)⟩
  | cons x xs ih =>
    intro i bi bv
    by_cases hx : x < bv
    · have hr : argminGo (x :: xs) i bi bv = argminGo xs (i + 1) i x := by simp [argminGo, hx]
      rw [hr]
      rcases ih (i + 1) i x with ⟨h1, h2⟩ | ⟨p, hp, h1, h2, h3, h4⟩
      · right
        refine ⟨0, by simp, by simpa using h1, by simpa using hx, ?_, fun q hq => absurd hq (by omega)⟩
        intro q hq
        cases q with
        | zero => simp
        | succ q => simpa using h2 q (by simpa using hq)
      · right
        refine ⟨p + 1, by simpa using hp, by rw [h1]; omega, ?_, ?_, ?_⟩
        · simpa using lt_trans h2 hx
        · intro q hq
          cases q with
          | zero => simpa using le_of_lt h2
          | succ q => simpa using h3 q (by simpa using hq)
        · intro q hq
          cases q with
          | zero => simpa using h2
          | succ q => simpa using h4 q (by omega)
    · have hr : argminGo (x :: xs) i bi bv = argminGo xs (i + 1) bi bv := by simp [argminGo, hx]
      rw [hr]
      have hx' : bv ≤ x := not_lt.mp hx
      rcases ih (i + 1) bi bv with ⟨h1, h2⟩ | ⟨p, hp, h1, h2, h3, h4⟩
      · left
        refine ⟨h1, ?_⟩
        intro q hq
        cases q with
        | zero => simpa using hx'
        | succ q => simpa using h2 q (by simpa using hq)
      · right
        refine ⟨p + 1, by simpa using hp, by rw [h1]; omega, by simpa using h2, ?_, ?_⟩
        · intro q hq
          cases q with
          | zero => simpa using le_of_lt (lt_of_lt_of_le h2 hx')
          | succ q => simpa using h3 q (by simpa using hq)
        · intro q hq
          cases q with
          | zero => simpa using lt_of_lt_of_le h2 hx'
          | succ q => simpa using h4 q (by omega)

theorem argmin_isFirstMin (l : List K) (hl : l ≠ []) : IsFirstMin l (argmin l) := by
  cases l with
  | nil => exact absurd rfl hl
  | cons x xs =>
    show IsFirstMin (x :: xs) (argminGo xs 1 0 x)
    rcases argminGo_spec xs 1 0 x with ⟨h1, h2⟩ | ⟨p, hp, h1, h2, h3, h4⟩
    · rw [h1]
      refine ⟨by simp, ?_, fun j hj => absurd hj (by omega)⟩
      intro j hj
      cases j with
      | zero => simp
      | succ j => simpa using h2 j (by simpa using hj)
    · rw [h1]
      have e1 : (x :: xs).getD (1 + p) 0 = xs.getD p 0 := by rw [Nat.add_comm]; simp
      refine ⟨by simp; omega, ?_, ?_⟩
      · intro j hj
        rw [e1]
        cases j with
        | zero => simpa using le_of_lt h2
        | succ j => simpa using h3 j (by simpa using hj)
      · intro j hj
        rw [e1]
        cases j with
        | zero => simpa using h2
        | succ j => simpa using h4 j (by omega)

theorem argmin_eq_iff (l : List K) (hl : l ≠ []) (r : Nat) : argmin l = r ↔ IsFirstMin l r :=
  ⟨fun h => h ▸ argmin_isFirstMin l hl, fun h => (argmin_isFirstMin l hl).unique h⟩

/-- argmin over a tabulated function -/
theorem argmin_map_range (k : Nat) (hk : 0 < k) (f : Nat → K) :
    let r := argmin ((List.range k).map f)
    r < k ∧ (∀ j, j < k → f r ≤ f j) ∧ ∀ j, j < r → f r < f j := by
  have hne : (List.range k).map f ≠ [] := by
    intro h; have := congrArg List.length h; simp at this; omega
  obtain ⟨h1, h2, h3⟩ := argmin_isFirstMin _ hne
  have hlen : ((List.range k).map f).length = k := by simp
  have hget : ∀ j, j < k → ((List.range k).map f).getD j 0 = f j := by
    intro j hj
    simp [hj]
  intro r
  have hr : r < k := by rw [hlen] at h1; exact h1
  refine ⟨hr, ?_, ?_⟩
  · intro j hj
    have := h2 j (by rw [hlen]; exact hj)
    rwa [hget _ hr, hget _ hj] at this
  · intro j hj
    have := h3 j hj
    rwa [hget _ hr, hget _ (by omega)] at this

/-! ### sorted edge lists -/

/-- strictly increasing edges -/
def Sorted (e : List K) : Prop := ∀ i j, i < j → j < e.length → edge e i < edge e j

@[simp] theorem edge_cons_zero (x : K) (xs : List K) : edge (x :: xs) 0 = x := by simp [edge]
@[simp] theorem edge_cons_succ (x : K) (xs : List K) (j : Nat) : edge (x :: xs) (j + 1) = edge xs j := by
  simp [edge]

theorem Sorted.tail {x : K} {xs : List K} (h : Sorted (x :: xs)) :
    Sorted xs ∧ ∀ j, j < xs.length → x < edge xs j := by
  constructor
  · intro i j hij hj
    have := h (i + 1) (j + 1) (by omega) (by simpa using hj)
    simpa using this
  · intro j hj
    have := h 0 (j + 1) (by omega) (by simpa using hj)
    simpa using this

theorem Sorted.le {e : List K} (h : Sorted e) {i j : Nat} (hij : i ≤ j) (hj : j < e.length) :
    edge e i ≤ edge e j := by
  rcases Nat.eq_or_lt_of_le hij with rfl | hlt
  · exact le_rfl
  · exact le_of_lt (h i j hlt hj)

/-- the constructor's check implies `Sorted` -/
theorem sorted_of_strictlyIncreasing (e : List K) (h : strictlyIncreasing e = true) : Sorted e := by
  induction e with
  | nil => intro i j _ hj; simp at hj
  | cons a r ih =>
    cases r with
    | nil => intro i j hij hj; simp at hj; omega
    | cons b r =>
      simp only [strictlyIncreasing, Bool.and_eq_true, decide_eq_true_eq] at h
      have ihs := ih h.2
      intro i j hij hj
      cases j with
      | zero => omega
      | succ j =>
        have hj' : j < (b :: r).length := by simpa using hj
        have hbj : b ≤ edge (b :: r) j := by
          have := Sorted.le ihs (Nat.zero_le j) hj'
          simpa using this
        cases i with
        | zero => simpa using lt_of_lt_of_le h.1 hbj
        | succ i => simpa using ihs i j (by omega) hj'

theorem sorted_of_validEdges (e : List K) (h : validEdges e = true) : Sorted e ∧ 2 ≤ e.length := by
  simp only [validEdges, Bool.and_eq_true, decide_eq_true_eq] at h
  exact ⟨sorted_of_strictlyIncreasing e h.2, h.1⟩

/-! ### counting search (`np.searchsorted` on sorted input) -/

theorem filter_count_partition (l : List K) (p : K → Bool)
    (hmono : ∀ i j, i < j → j < l.length → p (l.getD j 0) = true → p (l.getD i 0) = true) :
    (l.filter p).length ≤ l.length ∧ ∀ j, j < l.length → (j < (l.filter p).length ↔ p (l.getD j 0) = true) := by
  induction l with
  | nil => simp
  | cons x xs ih =>
    have hmono' : ∀ i j, i < j → j < xs.length → p (xs.getD j 0) = true → p (xs.getD i 0) = true := by
      intro i j hij hj hp
      have := hmono (i + 1) (j + 1) (by omega) (by simpa using hj) (by simpa using hp)
      simpa using this
    obtain ⟨ihl, ihp⟩ := ih hmono'
    by_cases hx : p x = true
    · have hf : (x :: xs).filter p = x :: xs.filter p := by simp [List.filter, hx]
      rw [hf]
      refine ⟨by simpa using ihl, ?_⟩
      intro j hj
      cases j with
      | zero => simp [hx]
      | succ j =>
        have := ihp j (by simpa using hj)
        simpa using this
    · have hf : (x :: xs).filter p = xs.filter p := by simp [List.filter, hx]
      rw [hf]
      have hzero : (xs.filter p).length = 0 := by
        by_contra hne
        have hpos : 0 < (xs.filter p).length := Nat.pos_of_ne_zero hne
        have hxs : 0 < xs.length := lt_of_lt_of_le hpos ihl
        have h0 := (ihp 0 hxs).mp hpos
        have := hmono 0 1 (by omega) (by simpa using hxs) (by simpa using h0)
        exact hx (by simpa using this)
      refine ⟨by omega, ?_⟩
      intro j hj
      rw [hzero]
      constructor
      · intro h; omega
      · intro hp
        exfalso
        cases j with
        | zero => exact hx (by simpa using hp)
        | succ j =>
          have := hmono 0 (j + 1) (by omega) hj hp
          exact hx (by simpa using this)

theorem countLE_spec (e : List K) (hs : Sorted e) (c : K) :
    countLE e c ≤ e.length ∧ ∀ j, j < e.length → (j < countLE e c ↔ edge e j ≤ c) := by
  have := filter_count_partition e (fun x => !decide (c < x)) (by
    intro i j hij hj hp
    have hlt := hs i j hij hj
    simp only [edge] at hlt
    simp only [Bool.not_eq_true', decide_eq_false_iff_not, not_lt] at hp ⊢
    exact le_trans (le_of_lt hlt) hp)
  refine ⟨this.1, ?_⟩
  intro j hj
  rw [show countLE e c = (e.filter fun x => !decide (c < x)).length from rfl, this.2 j hj]
  simp [edge]

theorem countLT_spec (e : List K) (hs : Sorted e) (c : K) :
    countLT e c ≤ e.length ∧ ∀ j, j < e.length → (j < countLT e c ↔ edge e j < c) := by
  have := filter_count_partition e (fun x => decide (x < c)) (by
    intro i j hij hj hp
    have hlt := hs i j hij hj
    simp only [edge] at hlt
    simp only [decide_eq_true_eq] at hp ⊢
    exact lt_trans hlt hp)
  refine ⟨this.1, ?_⟩
  intro j hj
  rw [show countLT e c = (e.filter fun x => decide (x < c)).length from rfl, this.2 j hj]
  simp [edge]

/-! ### `minList`, `maxAbs` -/

theorem foldl_min_spec (xs : List K) : ∀ m : K,
    let r := xs.foldl (fun m y => if y < m then y else m) m
    r ≤ m ∧ (∀ x ∈ xs, r ≤ x) ∧ (r = m ∨ r ∈ xs) := by
  induction xs with
  | nil => intro m; simp
  | cons y ys ih =>
    intro m
    simp only [List.foldl_cons]
    by_cases hy : y < m
    · simp only [hy, if_true]
      obtain ⟨h1, h2, h3⟩ := ih y
      refine ⟨le_trans h1 (le_of_lt hy), ?_, ?_⟩
      · intro x hx
        rcases List.mem_cons.mp hx with rfl | hx
        · exact h1
        · exact h2 x hx
      · rcases h3 with h3 | h3
        · right; rw [h3]; exact List.mem_cons_self
        · right; exact List.mem_cons_of_mem _ h3
    · simp only [hy, if_false]
      obtain ⟨h1, h2, h3⟩ := ih m
      refine ⟨h1, ?_, ?_⟩
      · intro x hx
        rcases List.mem_cons.mp hx with rfl | hx
        · exact le_trans h1 (not_lt.mp hy)
        · exact h2 x hx
      · rcases h3 with h3 | h3
        · left; exact h3
        · right; exact List.mem_cons_of_mem _ h3

theorem minList_le (l : List K) (x : K) (hx : x ∈ l) : minList l ≤ x := by
  cases l with
  | nil => simp at hx
  | cons a r =>
    obtain ⟨h1, h2, _⟩ := foldl_min_spec r a
    rcases List.mem_cons.mp hx with rfl | hx
    · exact h1
    · exact h2 x hx

theorem minList_mem (l : List K) (hl : l ≠ []) : minList l ∈ l := by
  cases l with
  | nil => exact absurd rfl hl
  | cons a r =>
    obtain ⟨_, _, h3⟩ := foldl_min_spec r a
    rcases h3 with h3 | h3
    · show List.foldl _ a r ∈ _
      rw [h3]; exact List.mem_cons_self
    · exact List.mem_cons_of_mem _ h3

theorem foldl_maxAbs_le_iff (xs : List K) : ∀ (m b : K),
    xs.foldl (fun m x => if m < absv x then absv x else m) m ≤ b ↔ m ≤ b ∧ ∀ x ∈ xs, |x| ≤ b := by
  induction xs with
  | nil => intro m b; simp
  | cons y ys ih =>
    intro m b
    rw [List.foldl_cons, ih]
    simp only [absv_eq_abs, List.mem_cons, forall_eq_or_imp]
    constructor
    · rintro ⟨h1, h2⟩
      split_ifs at h1 with hy
      · exact ⟨le_trans (le_of_lt hy) h1, h1, h2⟩
      · exact ⟨h1, le_trans (not_lt.mp hy) h1, h2⟩
    · rintro ⟨h1, h2, h3⟩
      refine ⟨?_, h3⟩
      split_ifs <;> assumption

theorem maxAbs_le_iff (l : List K) (b : K) : maxAbs l ≤ b ↔ 0 ≤ b ∧ ∀ x ∈ l, |x| ≤ b :=
  foldl_maxAbs_le_iff l 0 b

theorem maxAbs_nonneg (l : List K) : 0 ≤ maxAbs l := ((maxAbs_le_iff l (maxAbs l)).mp le_rfl).1

theorem abs_le_maxAbs (l : List K) (x : K) (hx : x ∈ l) : |x| ≤ maxAbs l :=
  ((maxAbs_le_iff l (maxAbs l)).mp le_rfl).2 x hx

end Fdtdx.C37
