/- C25 helper lemmas: array views, dilation = union of brush footprints, symmetry of the covering relation. -/
import FdtdxModel.C25
import Mathlib.Tactic.Linarith

namespace Fdtdx.C25

theorem row_getD {α : Type} (n : Nat) (f : Nat → α) (d : α) (i : Nat) :
    (row n f).getD i d = if i < n then f i else d := by
  unfold row
  by_cases h : i < n <;> simp [Array.getD, h]

theorem look_tab (d : Dims) (f : Img) (i j : Nat) : look (tab d f) i j = (inb d i j && f i j) := by
  unfold look tab inb
  rw [row_getD]
  by_cases hi : i < d.h
  · simp only [hi, if_true]
    rw [row_getD]
    by_cases hj : j < d.w <;> simp [hj]
  · simp [hi]

theorem anyCells_iff (d : Dims) (p : Img) :
    anyCells d p = true ↔ ∃ i j, inb d i j = true ∧ p i j = true := by
  unfold anyCells inb
  simp only [List.any_eq_true, List.mem_range, Bool.and_eq_true, decide_eq_true_eq]
  constructor
  · rintro ⟨i, hi, j, hj, h⟩; exact ⟨i, j, ⟨hi, hj⟩, h⟩
  · rintro ⟨i, j, ⟨hi, hj⟩, h⟩; exact ⟨i, hi, j, hj, h⟩

/-- the touch at (ti, tj) covers the pixel (pi, pj): the pixel lies in the brush placed with its centre on the touch
(as `convolve2d` places it) -/
def Cov (b : Brush) (ti tj pi pj : Nat) : Prop :=
  ∃ a bb, a < b.size ∧ bb < b.size ∧ look b.cells a bb = true ∧ pi + b.c = ti + a ∧ pj + b.c = tj + bb

/-- point symmetry of the brush (true for `circular_brush`) -/
def Sym (b : Brush) : Prop :=
  ∀ a bb, a < b.size → bb < b.size → look b.cells a bb = look b.cells (2 * b.c - a) (2 * b.c - bb)

theorem dilI_iff (b : Brush) (img : Img) (pi pj : Nat) :
    dilI b img pi pj = true ↔ ∃ ti tj, img ti tj = true ∧ Cov b ti tj pi pj := by
  unfold dilI Cov
  simp only [List.any_eq_true, List.mem_range, Bool.and_eq_true, decide_eq_true_eq]
  constructor
  · rintro ⟨a, ha, bb, hb, ⟨⟨hc, h1⟩, h2⟩, himg⟩
    exact ⟨_, _, himg, a, bb, ha, hb, hc, by omega, by omega⟩
  · rintro ⟨ti, tj, himg, a, bb, ha, hb, hc, h1, h2⟩
    refine ⟨a, ha, bb, hb, ⟨⟨hc, by omega⟩, by omega⟩, ?_⟩
    have e1 : pi + b.c - a = ti := by omega
    have e2 : pj + b.c - bb = tj := by omega
    rw [e1, e2]; exact himg

theorem cov_symm {b : Brush} (hs : Sym b) {ti tj pi pj : Nat} (h : Cov b ti tj pi pj) : Cov b pi pj ti tj := by
  obtain ⟨a, bb, ha, hb, hc, h1, h2⟩ := h
  unfold Brush.size at ha hb
  refine ⟨2 * b.c - a, 2 * b.c - bb, by unfold Brush.size; omega, by unfold Brush.size; omega, ?_, by omega, by omega⟩
  rw [← hs a bb (by unfold Brush.size; omega) (by unfold Brush.size; omega)]; exact hc

theorem look_dil (d : Dims) (b : Brush) (t : Tab) (pi pj : Nat) :
    look (dil d b t) pi pj = true ↔ inb d pi pj = true ∧ ∃ ti tj, look t ti tj = true ∧ Cov b ti tj pi pj := by
  unfold dil
  rw [look_tab, Bool.and_eq_true, dilI_iff]

theorem look_orT (d : Dims) (x y : Tab) (i j : Nat) : look (orT d x y) i j = (inb d i j && (look x i j || look y i j)) := by
  unfold orT; rw [look_tab]
theorem look_andT (d : Dims) (x y : Tab) (i j : Nat) : look (andT d x y) i j = (inb d i j && (look x i j && look y i j)) := by
  unfold andT; rw [look_tab]
theorem look_notT (d : Dims) (x : Tab) (i j : Nat) : look (notT d x) i j = (inb d i j && !look x i j) := by
  unfold notT; rw [look_tab]
theorem look_setIdx (d : Dims) (t : Tab) (idx i j : Nat) :
    look (setIdx d t idx) i j = (inb d i j && (look t i j || decide (i * d.w + j = idx))) := by
  unfold setIdx; rw [look_tab]

end Fdtdx.C25
