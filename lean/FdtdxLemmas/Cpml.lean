/-
Helper lemmas about the CPML model (`FdtdxModel/Cpml.lean`) shared by C03 and C12:
  * the PML loop of the curls is a left fold: it leaves a value alone when every PML does (`foldl_fixed`);
  * a PML cell with zero profile (a = 0, κ-term absent or 1/κ = 1) and ψ = 0 contributes nothing and keeps ψ = 0
    (`stepCpml1_clean`);
  * geometry of full-face boxes (`faceBox`) and their interface layers (`ifaceBox`);
  * locality (stencil footprint) of the forward / backward differences.
-/
import FdtdxModel.Cpml
import FdtdxProps.C02
import Mathlib.Tactic.Ring
import Mathlib.Tactic.Linarith

namespace Fdtdx.Cpml
open Fdtdx Fdtdx.Yee

theorem foldl_fixed {α β : Type} (f : α → β → α) (acc : α) (l : List β) (h : ∀ s ∈ l, f acc s = acc) :
    l.foldl f acc = acc := by
  induction l with
  | nil => rfl
  | cons s t ih =>
    simp only [List.foldl_cons]
    rw [h s (by simp)]
    exact ih (fun s' hs' => h s' (by simp [hs']))

section
variable {K : Type} [Field K]

/-- zero profile at offset `o`: both `a` coefficients vanish and the κ term is absent or trivial -/
def CleanAt (p : Pml K) (o : Nat) : Prop :=
  p.aE o = 0 ∧ p.aH o = 0 ∧ (p.kappaDefault = true ∨ (p.ikE o = 1 ∧ p.ikH o = 1))

/-- with zero profile and ψ = 0, `step_cpml` returns correction 0 and ψ' = 0 (for either coefficient set and
either value of `simulate_boundaries`) -/
theorem stepCpml1_clean (p : Pml K) (isE sim : Bool) (o : Nat) (d : K) (h : CleanAt p o) :
    stepCpml1 p isE sim o d 0 = (0, 0) := by
  obtain ⟨h1, h2, h3⟩ := h
  unfold stepCpml1
  rcases h3 with hk | ⟨hk1, hk2⟩
  · cases isE <;> cases sim <;> simp [h1, h2, hk]
  · cases isE <;> cases sim <;> cases p.kappaDefault <;> simp [h1, h2, hk1, hk2]

/-! ### geometry -/

def dimOf (cf : Cfg K) (a : Nat) : Nat := match a with | 0 => cf.nx | 1 => cf.ny | _ => cf.nz
def wrapOf (cf : Cfg K) (a : Nat) : Bool := match a with | 0 => cf.bx.wrap | 1 => cf.by_.wrap | _ => cf.bz.wrap

/-- the box of a PML spans a full face of the volume with thickness `1 ≤ th ≤ n` on a non-wrapping axis
(what `boundary_objects_from_config` + placement produce) -/
def FaceGeo (cf : Cfg K) (q : Pml K) : Prop :=
  q.axis < 3 ∧ wrapOf cf q.axis = false ∧
    ∃ th, 1 ≤ th ∧ th ≤ dimOf cf q.axis ∧ q.box = faceBox cf.nx cf.ny cf.nz q.axis q.plus th

/-- the interface box of PML `q` -/
def Pml.iface (q : Pml K) : Box := ifaceBox q.box q.axis q.plus

/-- offset (along the axis) of the interface layer inside the box -/
def Pml.ifOff (q : Pml K) : Nat := if q.plus then 0 else q.box.hi q.axis - q.box.lo q.axis - 1

theorem axis_cases {n : Nat} (h : n < 3) : n = 0 ∨ n = 1 ∨ n = 2 := by omega

/-- the interface layer lies inside the box, at offset `ifOff` -/
theorem iface_sub (cf : Cfg K) (q : Pml K) (hg : FaceGeo cf q) (i j k : Nat) (h : q.iface.mem i j k) :
    q.box.mem i j k ∧ q.off i j k = q.ifOff := by
  obtain ⟨ha, -, th, h1, h2, hb⟩ := hg
  unfold Pml.iface at h
  unfold Pml.off Pml.ifOff
  rcases axis_cases ha with h0 | h0 | h0 <;> rw [h0] at hb h2 h ⊢ <;> rw [hb] at h ⊢ <;>
    cases hp : q.plus <;> simp [hp, faceBox, ifaceBox, Box.mem, Box.lo, Box.hi, axIdx, dimOf] at h h2 ⊢ <;> omega

/-- stepping forward along x out of the complement of a full-face box lands on its interface layer -/
theorem next_x (cf : Cfg K) (q : Pml K) (hg : FaceGeo cf q) (i j k : Nat)
    (hn : ¬ q.box.mem i j k) (hm : q.box.mem (i + 1) j k) : q.iface.mem (i + 1) j k := by
  obtain ⟨ha, -, th, h1, h2, hb⟩ := hg
  unfold Pml.iface
  rcases axis_cases ha with h0 | h0 | h0 <;> rw [h0] at hb h2 ⊢ <;> rw [hb] at hn hm ⊢ <;>
    cases hp : q.plus <;> simp [hp, faceBox, ifaceBox, Box.mem, dimOf] at hn hm h2 ⊢ <;> omega

theorem next_y (cf : Cfg K) (q : Pml K) (hg : FaceGeo cf q) (i j k : Nat)
    (hn : ¬ q.box.mem i j k) (hm : q.box.mem i (j + 1) k) : q.iface.mem i (j + 1) k := by
  obtain ⟨ha, -, th, h1, h2, hb⟩ := hg
  unfold Pml.iface
  rcases axis_cases ha with h0 | h0 | h0 <;> rw [h0] at hb h2 ⊢ <;> rw [hb] at hn hm ⊢ <;>
    cases hp : q.plus <;> simp [hp, faceBox, ifaceBox, Box.mem, dimOf] at hn hm h2 ⊢ <;> omega

theorem next_z (cf : Cfg K) (q : Pml K) (hg : FaceGeo cf q) (i j k : Nat)
    (hn : ¬ q.box.mem i j k) (hm : q.box.mem i j (k + 1)) : q.iface.mem i j (k + 1) := by
  obtain ⟨ha, -, th, h1, h2, hb⟩ := hg
  unfold Pml.iface
  rcases axis_cases ha with h0 | h0 | h0 <;> rw [h0] at hb h2 ⊢ <;> rw [hb] at hn hm ⊢ <;>
    cases hp : q.plus <;> simp [hp, faceBox, ifaceBox, Box.mem, dimOf] at hn hm h2 ⊢ <;> omega

/-- stepping backward along x out of the complement of a full-face box lands on its interface layer, and the box
is then an x-box (so its interface layer spans the full y, z ranges) -/
theorem prev_x (cf : Cfg K) (q : Pml K) (hg : FaceGeo cf q) (i j k : Nat)
    (hb1 : i + 1 < cf.nx) (hn : ¬ q.box.mem (i + 1) j k) (hm : q.box.mem i j k) :
    q.iface.mem i j k ∧ ∀ j' k', j' < cf.ny → k' < cf.nz → q.iface.mem i j' k' := by
  obtain ⟨ha, -, th, h1, h2, hb⟩ := hg
  unfold Pml.iface
  rcases axis_cases ha with h0 | h0 | h0 <;> rw [h0] at hb h2 ⊢ <;> rw [hb] at hn hm ⊢ <;>
    cases hp : q.plus <;> simp [hp, faceBox, ifaceBox, Box.mem, dimOf] at hn hm h2 ⊢ <;>
    first | omega | (refine ⟨by omega, fun j' k' hj hk => by omega⟩)

theorem prev_y (cf : Cfg K) (q : Pml K) (hg : FaceGeo cf q) (i j k : Nat)
    (hb1 : j + 1 < cf.ny) (hn : ¬ q.box.mem i (j + 1) k) (hm : q.box.mem i j k) :
    q.iface.mem i j k ∧ ∀ i' k', i' < cf.nx → k' < cf.nz → q.iface.mem i' j k' := by
  obtain ⟨ha, -, th, h1, h2, hb⟩ := hg
  unfold Pml.iface
  rcases axis_cases ha with h0 | h0 | h0 <;> rw [h0] at hb h2 ⊢ <;> rw [hb] at hn hm ⊢ <;>
    cases hp : q.plus <;> simp [hp, faceBox, ifaceBox, Box.mem, dimOf] at hn hm h2 ⊢ <;>
    first | omega | (refine ⟨by omega, fun i' k' hi hk => by omega⟩)

theorem prev_z (cf : Cfg K) (q : Pml K) (hg : FaceGeo cf q) (i j k : Nat)
    (hb1 : k + 1 < cf.nz) (hn : ¬ q.box.mem i j (k + 1)) (hm : q.box.mem i j k) :
    q.iface.mem i j k ∧ ∀ i' j', i' < cf.nx → j' < cf.ny → q.iface.mem i' j' k := by
  obtain ⟨ha, -, th, h1, h2, hb⟩ := hg
  unfold Pml.iface
  rcases axis_cases ha with h0 | h0 | h0 <;> rw [h0] at hb h2 ⊢ <;> rw [hb] at hn hm ⊢ <;>
    cases hp : q.plus <;> simp [hp, faceBox, ifaceBox, Box.mem, dimOf] at hn hm h2 ⊢ <;>
    first | omega | (refine ⟨by omega, fun i' j' hi hj => by omega⟩)

/-- on a wrapping axis there is no PML, so membership in a box does not depend on that coordinate -/
theorem wrap_x (cf : Cfg K) (q : Pml K) (hg : FaceGeo cf q) (hw : cf.bx.wrap = true) (i i' j k : Nat)
    (hi : i < cf.nx) (hi' : i' < cf.nx) : q.box.mem i j k ↔ q.box.mem i' j k := by
  obtain ⟨ha, hwq, th, h1, h2, hb⟩ := hg
  rcases axis_cases ha with h0 | h0 | h0 <;> rw [h0] at hb h2 hwq <;> rw [hb] <;>
    cases hp : q.plus <;> simp [hp, faceBox, Box.mem, dimOf, wrapOf, hw] at hwq h2 ⊢ <;> omega

theorem wrap_y (cf : Cfg K) (q : Pml K) (hg : FaceGeo cf q) (hw : cf.by_.wrap = true) (i j j' k : Nat)
    (hj : j < cf.ny) (hj' : j' < cf.ny) : q.box.mem i j k ↔ q.box.mem i j' k := by
  obtain ⟨ha, hwq, th, h1, h2, hb⟩ := hg
  rcases axis_cases ha with h0 | h0 | h0 <;> rw [h0] at hb h2 hwq <;> rw [hb] <;>
    cases hp : q.plus <;> simp [hp, faceBox, Box.mem, dimOf, wrapOf, hw] at hwq h2 ⊢ <;> omega

theorem wrap_z (cf : Cfg K) (q : Pml K) (hg : FaceGeo cf q) (hw : cf.bz.wrap = true) (i j k k' : Nat)
    (hk : k < cf.nz) (hk' : k' < cf.nz) : q.box.mem i j k ↔ q.box.mem i j k' := by
  obtain ⟨ha, hwq, th, h1, h2, hb⟩ := hg
  rcases axis_cases ha with h0 | h0 | h0 <;> rw [h0] at hb h2 hwq <;> rw [hb] <;>
    cases hp : q.plus <;> simp [hp, faceBox, Box.mem, dimOf, wrapOf, hw] at hwq h2 ⊢ <;> omega

/-! ### stencil footprint: a difference at a cell reads the cell and one neighbour (or the wrapped cell) -/

theorem dFwd_congr_x (cf : Cfg K) (f g : F3 K) (i j k : Nat) (h0 : f i j k = g i j k)
    (h1 : i + 1 < cf.nx → f (i + 1) j k = g (i + 1) j k)
    (h2 : ¬ i + 1 < cf.nx → cf.bx.wrap = true → f 0 j k = g 0 j k) : dFwd cf 0 f i j k = dFwd cf 0 g i j k := by
  unfold dFwd next1
  by_cases hc : i + 1 < cf.nx
  · simp [hc, h0, h1 hc]
  · by_cases hw : cf.bx.wrap = true
    · simp [hc, hw, h0, h2 hc hw]
    · simp [hc, hw, h0]

theorem dFwd_congr_y (cf : Cfg K) (f g : F3 K) (i j k : Nat) (h0 : f i j k = g i j k)
    (h1 : j + 1 < cf.ny → f i (j + 1) k = g i (j + 1) k)
    (h2 : ¬ j + 1 < cf.ny → cf.by_.wrap = true → f i 0 k = g i 0 k) : dFwd cf 1 f i j k = dFwd cf 1 g i j k := by
  unfold dFwd next1
  by_cases hc : j + 1 < cf.ny
  · simp [hc, h0, h1 hc]
  · by_cases hw : cf.by_.wrap = true
    · simp [hc, hw, h0, h2 hc hw]
    · simp [hc, hw, h0]

theorem dFwd_congr_z (cf : Cfg K) (f g : F3 K) (i j k : Nat) (h0 : f i j k = g i j k)
    (h1 : k + 1 < cf.nz → f i j (k + 1) = g i j (k + 1))
    (h2 : ¬ k + 1 < cf.nz → cf.bz.wrap = true → f i j 0 = g i j 0) : dFwd cf 2 f i j k = dFwd cf 2 g i j k := by
  unfold dFwd next1
  by_cases hc : k + 1 < cf.nz
  · simp [hc, h0, h1 hc]
  · by_cases hw : cf.bz.wrap = true
    · simp [hc, hw, h0, h2 hc hw]
    · simp [hc, hw, h0]

theorem dBwd_congr_x (cf : Cfg K) (f g : F3 K) (i j k : Nat) (h0 : f i j k = g i j k)
    (h1 : ∀ i', i = i' + 1 → f i' j k = g i' j k)
    (h2 : i = 0 → cf.bx.wrap = true → f (cf.nx - 1) j k = g (cf.nx - 1) j k) :
    dBwd cf 0 f i j k = dBwd cf 0 g i j k := by
  unfold dBwd prev1
  cases i with
  | zero =>
    by_cases hw : cf.bx.wrap = true
    · simp [hw, h0, h2 rfl hw]
    · simp [hw, h0]
  | succ i' => simp [h0, h1 i' rfl]

theorem dBwd_congr_y (cf : Cfg K) (f g : F3 K) (i j k : Nat) (h0 : f i j k = g i j k)
    (h1 : ∀ j', j = j' + 1 → f i j' k = g i j' k)
    (h2 : j = 0 → cf.by_.wrap = true → f i (cf.ny - 1) k = g i (cf.ny - 1) k) :
    dBwd cf 1 f i j k = dBwd cf 1 g i j k := by
  unfold dBwd prev1
  cases j with
  | zero =>
    by_cases hw : cf.by_.wrap = true
    · simp [hw, h0, h2 rfl hw]
    · simp [hw, h0]
  | succ j' => simp [h0, h1 j' rfl]

theorem dBwd_congr_z (cf : Cfg K) (f g : F3 K) (i j k : Nat) (h0 : f i j k = g i j k)
    (h1 : ∀ k', k = k' + 1 → f i j k' = g i j k')
    (h2 : k = 0 → cf.bz.wrap = true → f i j (cf.nz - 1) = g i j (cf.nz - 1)) :
    dBwd cf 2 f i j k = dBwd cf 2 g i j k := by
  unfold dBwd prev1
  cases k with
  | zero =>
    by_cases hw : cf.bz.wrap = true
    · simp [hw, h0, h2 rfl hw]
    · simp [hw, h0]
  | succ k' => simp [h0, h1 k' rfl]

/-- the plain curls in terms of the directional differences -/
theorem curlE_x (cf : Cfg K) (E : V3 K) (i j k : Nat) :
    (curlE cf E).x i j k = dFwd cf 1 E.z i j k - dFwd cf 2 E.y i j k := rfl
theorem curlE_y (cf : Cfg K) (E : V3 K) (i j k : Nat) :
    (curlE cf E).y i j k = dFwd cf 2 E.x i j k - dFwd cf 0 E.z i j k := rfl
theorem curlE_z (cf : Cfg K) (E : V3 K) (i j k : Nat) :
    (curlE cf E).z i j k = dFwd cf 0 E.y i j k - dFwd cf 1 E.x i j k := rfl
theorem curlH_x (cf : Cfg K) (H : V3 K) (i j k : Nat) :
    (curlH cf H).x i j k = dBwd cf 1 H.z i j k - dBwd cf 2 H.y i j k := rfl
theorem curlH_y (cf : Cfg K) (H : V3 K) (i j k : Nat) :
    (curlH cf H).y i j k = dBwd cf 2 H.x i j k - dBwd cf 0 H.z i j k := rfl
theorem curlH_z (cf : Cfg K) (H : V3 K) (i j k : Nat) :
    (curlH cf H).z i j k = dBwd cf 0 H.y i j k - dBwd cf 1 H.x i j k := rfl

/-- the Yee steps are the `…with` forms fed with the plain curls (the CPML model extends, does not fork, them) -/
theorem stepE_eq (cf : Cfg K) (m : Mat K) (jE E H : V3 K) : stepE cf m jE E H = updEwith cf m jE (curlH cf H) E := rfl
theorem stepH_eq (cf : Cfg K) (m : Mat K) (jH E H : V3 K) : stepH cf m jH E H = updHwith cf m jH (curlE cf E) H := rfl
theorem revStepH_eq (cf : Cfg K) (m : Mat K) (jH E H : V3 K) :
    revStepH cf m jH E H = revHwith cf m jH (curlE cf E) H := rfl
theorem revStepE_eq (cf : Cfg K) (m : Mat K) (jE E H : V3 K) :
    revStepE cf m jE E H = revEwith cf m jE (curlH cf H) E := rfl

end
end Fdtdx.Cpml
