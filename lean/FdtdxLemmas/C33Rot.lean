/-
C33 helper lemmas, third layer: the shared Yee model is invariant under the cyclic relabelling of the axes
(new x = old y, new y = old z, new z = old x): `curlE`, `curlH` commute definitionally, the wall masks up to
commutativity of `||`, hence `stepE`, `stepH`, `forward`, `steps` commute with `rotV` / `rotCfg` / `rotMat`; the model's
reduction along y (z) is the reduction along x of the once (twice) relabelled configuration.
-/
import FdtdxLemmas.C33Step
namespace Fdtdx.C33
open Fdtdx Fdtdx.Yee

section
variable {K : Type} [Field K]

/-- relabel the axes cyclically: the new x axis is the old y axis (new (i,j,k) = old (y,z,x) indices) -/
def rotF (f : F3 K) : F3 K := fun i j k => f k i j
def rotV (V : V3 K) : V3 K := { x := rotF V.y, y := rotF V.z, z := rotF V.x }
def rotCfg (cf : Cfg K) : Cfg K :=
  { nx := cf.ny, ny := cf.nz, nz := cf.nx, bx := cf.by_, by_ := cf.bz, bz := cf.bx,
    sfx := cf.sfy, sfy := cf.sfz, sfz := cf.sfx, sbx := cf.sby, sby := cf.sbz, sbz := cf.sbx, c := cf.c, eta0 := cf.eta0 }
def rotMat (mt : Mat K) : Mat K :=
  { invEps := rotV mt.invEps, invMu := rotV mt.invMu, sigE := mt.sigE.map rotV, sigH := mt.sigH.map rotV }

theorem curlE_rot (cf : Cfg K) (E : V3 K) : curlE (rotCfg cf) (rotV E) = rotV (curlE cf E) := rfl
theorem curlH_rot (cf : Cfg K) (H : V3 K) : curlH (rotCfg cf) (rotV H) = rotV (curlH cf H) := rfl

theorem pecMask_rot (cf : Cfg K) (i j k : Nat) :
    pecMask (rotCfg cf) 0 i j k = pecMask cf 1 k i j ∧ pecMask (rotCfg cf) 1 i j k = pecMask cf 2 k i j ∧
    pecMask (rotCfg cf) 2 i j k = pecMask cf 0 k i j := by
  simp only [pecMask, rotCfg]
  refine ⟨?_, ?_, ?_⟩ <;> simp [Bool.or_comm]

theorem pmcMask_rot (cf : Cfg K) (i j k : Nat) :
    pmcMask (rotCfg cf) 0 i j k = pmcMask cf 1 k i j ∧ pmcMask (rotCfg cf) 1 i j k = pmcMask cf 2 k i j ∧
    pmcMask (rotCfg cf) 2 i j k = pmcMask cf 0 k i j := by
  simp only [pmcMask, rotCfg]
  refine ⟨?_, ?_, ?_⟩ <;> simp [Bool.or_comm]

theorem optAt_rot (s : Option (V3 K)) (i j k : Nat) :
    optAt ((s.map rotV).map (·.x)) i j k = optAt (s.map (·.y)) k i j ∧
    optAt ((s.map rotV).map (·.y)) i j k = optAt (s.map (·.z)) k i j ∧
    optAt ((s.map rotV).map (·.z)) i j k = optAt (s.map (·.x)) k i j := by
  cases s <;> exact ⟨rfl, rfl, rfl⟩

theorem V3_ext (A B : V3 K) (hx : ∀ i j k, A.x i j k = B.x i j k) (hy : ∀ i j k, A.y i j k = B.y i j k)
    (hz : ∀ i j k, A.z i j k = B.z i j k) : A = B := by
  cases A; cases B
  simp only [V3.mk.injEq]
  exact ⟨funext fun i => funext fun j => funext fun k => hx i j k,
    funext fun i => funext fun j => funext fun k => hy i j k,
    funext fun i => funext fun j => funext fun k => hz i j k⟩

theorem stepE_rot (cf : Cfg K) (mt : Mat K) (jE E H : V3 K) :
    stepE (rotCfg cf) (rotMat mt) (rotV jE) (rotV E) (rotV H) = rotV (stepE cf mt jE E H) := by
  apply V3_ext <;> intro i j k
  · simp only [stepE, projE, maskV, addV, curlH_rot, rotMat, (optAt_rot mt.sigE i j k).1, (pecMask_rot cf i j k).1]
    rfl
  · simp only [stepE, projE, maskV, addV, curlH_rot, rotMat, (optAt_rot mt.sigE i j k).2.1, (pecMask_rot cf i j k).2.1]
    rfl
  · simp only [stepE, projE, maskV, addV, curlH_rot, rotMat, (optAt_rot mt.sigE i j k).2.2, (pecMask_rot cf i j k).2.2]
    rfl

theorem stepH_rot (cf : Cfg K) (mt : Mat K) (jH E H : V3 K) :
    stepH (rotCfg cf) (rotMat mt) (rotV jH) (rotV E) (rotV H) = rotV (stepH cf mt jH E H) := by
  apply V3_ext <;> intro i j k
  · simp only [stepH, projH, maskV, addV, curlE_rot, rotMat, (optAt_rot mt.sigH i j k).1, (pmcMask_rot cf i j k).1]
    rfl
  · simp only [stepH, projH, maskV, addV, curlE_rot, rotMat, (optAt_rot mt.sigH i j k).2.1, (pmcMask_rot cf i j k).2.1]
    rfl
  · simp only [stepH, projH, maskV, addV, curlE_rot, rotMat, (optAt_rot mt.sigH i j k).2.2, (pmcMask_rot cf i j k).2.2]
    rfl


theorem forward_rot (cf : Cfg K) (mt : Mat K) (jE jH E H : V3 K) :
    forward (rotCfg cf) (rotMat mt) (rotV jE) (rotV jH) (rotV E) (rotV H)
      = (rotV (forward cf mt jE jH E H).1, rotV (forward cf mt jE jH E H).2) := by
  simp only [forward, stepE_rot, stepH_rot]

/-- the time stepping commutes with the cyclic relabelling of the axes -/
theorem steps_rot (cf : Cfg K) (mt : Mat K) (jE jH E H : V3 K) (n : Nat) :
    steps (rotCfg cf) (rotMat mt) (rotV jE) (rotV jH) n (rotV E, rotV H)
      = (rotV (steps cf mt jE jH n (E, H)).1, rotV (steps cf mt jE jH n (E, H)).2) := by
  induction n with
  | zero => rfl
  | succ n ih => simp only [steps, ih, forward_rot]

theorem reduceCfg_rot_y (cf : Cfg K) : rotCfg (reduceCfg 1 cf) = reduceCfg 0 (rotCfg cf) := rfl
theorem reduceCfg_rot_z (cf : Cfg K) : rotCfg (rotCfg (reduceCfg 2 cf)) = reduceCfg 0 (rotCfg (rotCfg cf)) := rfl
theorem upperV_rot_y (m : Nat) (V : V3 K) : rotV (upperV 1 m V) = upperV 0 m (rotV V) := rfl
theorem upperV_rot_z (m : Nat) (V : V3 K) : rotV (rotV (upperV 2 m V)) = upperV 0 m (rotV (rotV V)) := rfl
theorem upperMat_rot_y (m : Nat) (mt : Mat K) : rotMat (upperMat 1 m mt) = upperMat 0 m (rotMat mt) := by
  obtain ⟨ie, im, sE, sH⟩ := mt
  cases sE <;> cases sH <;> rfl
theorem upperMat_rot_z (m : Nat) (mt : Mat K) :
    rotMat (rotMat (upperMat 2 m mt)) = upperMat 0 m (rotMat (rotMat mt)) := by
  obtain ⟨ie, im, sE, sH⟩ := mt
  cases sE <;> cases sH <;> rfl

/-! ### restriction along one axis keeps parity / invariance about the other planes -/

/-- parity about a plane normal to y (read through `rotV`) survives the restriction to the upper half along x -/
theorem SymE.upper_x {r my : Nat} {V : V3 K} (h : SymE my r (rotV V)) (mx : Nat) : SymE my r (rotV (upperV 0 mx V)) :=
  ⟨fun d j k hd => h.x d j (mx + k) hd, fun d j k hd => h.y d j (mx + k) hd, fun d j k hd => h.z d j (mx + k) hd,
   fun j k h0 => h.y0 j (mx + k) h0, fun j k h0 => h.z0 j (mx + k) h0⟩

theorem SymH.upper_x {r my : Nat} {V : V3 K} (h : SymH my r (rotV V)) (mx : Nat) : SymH my r (rotV (upperV 0 mx V)) :=
  ⟨fun d j k hd => h.x d j (mx + k) hd, fun j k h0 => h.x0 j (mx + k) h0, fun d j k hd => h.y d j (mx + k) hd,
   fun d j k hd => h.z d j (mx + k) hd⟩

/-- y-invariant materials stay y-invariant under the restriction along x -/
theorem XInv.upper_x {mt : Mat K} (h : XInv (rotMat mt)) (mx : Nat) : XInv (rotMat (upperMat 0 mx mt)) := by
  obtain ⟨ie, im, sE, sH⟩ := mt
  refine ⟨fun i i' j k => h.ex i i' j (mx + k), fun i i' j k => h.ey i i' j (mx + k), fun i i' j k => h.ez i i' j (mx + k),
    fun i i' j k => h.mx i i' j (mx + k), fun i i' j k => h.my i i' j (mx + k), fun i i' j k => h.mz i i' j (mx + k),
    ?_, ?_, ?_, ?_, ?_, ?_⟩
  all_goals
    intro v hv i i' j k
    first
      | (cases sE with
         | none => simp [rotMat, upperMat] at hv
         | some w =>
           simp only [rotMat, upperMat, Option.map_some, Option.some.injEq] at hv
           subst hv
           first
             | exact h.sEx (rotV w) rfl i i' j (mx + k)
             | exact h.sEy (rotV w) rfl i i' j (mx + k)
             | exact h.sEz (rotV w) rfl i i' j (mx + k))
      | (cases sH with
         | none => simp [rotMat, upperMat] at hv
         | some w =>
           simp only [rotMat, upperMat, Option.map_some, Option.some.injEq] at hv
           subst hv
           first
             | exact h.sHx (rotV w) rfl i i' j (mx + k)
             | exact h.sHy (rotV w) rfl i i' j (mx + k)
             | exact h.sHz (rotV w) rfl i i' j (mx + k))

theorem SymE.upper_xy {r mz : Nat} {V : V3 K} (h : SymE mz r (rotV (rotV V))) (mx my : Nat) :
    SymE mz r (rotV (rotV (upperV 1 my (upperV 0 mx V)))) :=
  ⟨fun d j k hd => h.x d (mx + j) (my + k) hd, fun d j k hd => h.y d (mx + j) (my + k) hd,
   fun d j k hd => h.z d (mx + j) (my + k) hd, fun j k h0 => h.y0 (mx + j) (my + k) h0,
   fun j k h0 => h.z0 (mx + j) (my + k) h0⟩

theorem SymH.upper_xy {r mz : Nat} {V : V3 K} (h : SymH mz r (rotV (rotV V))) (mx my : Nat) :
    SymH mz r (rotV (rotV (upperV 1 my (upperV 0 mx V)))) :=
  ⟨fun d j k hd => h.x d (mx + j) (my + k) hd, fun j k h0 => h.x0 (mx + j) (my + k) h0,
   fun d j k hd => h.y d (mx + j) (my + k) hd, fun d j k hd => h.z d (mx + j) (my + k) hd⟩

theorem XInv.upper_xy {mt : Mat K} (h : XInv (rotMat (rotMat mt))) (mx my : Nat) :
    XInv (rotMat (rotMat (upperMat 1 my (upperMat 0 mx mt)))) := by
  obtain ⟨ie, im, sE, sH⟩ := mt
  refine ⟨fun i i' j k => h.ex i i' (mx + j) (my + k), fun i i' j k => h.ey i i' (mx + j) (my + k),
    fun i i' j k => h.ez i i' (mx + j) (my + k), fun i i' j k => h.mx i i' (mx + j) (my + k),
    fun i i' j k => h.my i i' (mx + j) (my + k), fun i i' j k => h.mz i i' (mx + j) (my + k), ?_, ?_, ?_, ?_, ?_, ?_⟩
  all_goals
    intro v hv i i' j k
    first
      | (cases sE with
         | none => simp [rotMat, upperMat] at hv
         | some w =>
           simp only [rotMat, upperMat, Option.map_some, Option.some.injEq] at hv
           subst hv
           first
             | exact h.sEx (rotV (rotV w)) rfl i i' (mx + j) (my + k)
             | exact h.sEy (rotV (rotV w)) rfl i i' (mx + j) (my + k)
             | exact h.sEz (rotV (rotV w)) rfl i i' (mx + j) (my + k))
      | (cases sH with
         | none => simp [rotMat, upperMat] at hv
         | some w =>
           simp only [rotMat, upperMat, Option.map_some, Option.some.injEq] at hv
           subst hv
           first
             | exact h.sHx (rotV (rotV w)) rfl i i' (mx + j) (my + k)
             | exact h.sHy (rotV (rotV w)) rfl i i' (mx + j) (my + k)
             | exact h.sHz (rotV (rotV w)) rfl i i' (mx + j) (my + k))

end
end Fdtdx.C33
