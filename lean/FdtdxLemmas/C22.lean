/-
Helper lemmas for C22: the model's left-fold sums as `Finset` sums; linearity, convex bounds and reflection
of the cropped convolution; point-wise facts about the padded array.
-/
import FdtdxModel.C22
import Mathlib.Algebra.BigOperators.Field
import Mathlib.Algebra.BigOperators.Intervals
import Mathlib.Algebra.Order.BigOperators.Ring.Finset
import Mathlib.Algebra.Order.Field.Basic
import Mathlib.Tactic.Ring
import Mathlib.Tactic.Linarith

namespace Fdtdx.C22
open Finset

section field
variable {K : Type} [Field K]

theorem sumRange_eq_sum (n : Nat) (f : Nat → K) : sumRange n f = ∑ i ∈ range n, f i := by
  induction n with
  | zero => simp [sumRange]
  | succ n ih => rw [sumRange, ih, sum_range_succ]

theorem conv_eq (p : Nat) (k A : Nat → Nat → K) (i j : Nat) :
    conv p k A i j = ∑ a ∈ range (2 * p + 1), ∑ b ∈ range (2 * p + 1), A (i + 2 * p - a) (j + 2 * p - b) * k a b := by
  unfold conv
  rw [sumRange_eq_sum]
  exact sum_congr rfl fun a _ => sumRange_eq_sum _ _

/-- the convolution is linear in the padded array -/
theorem conv_comb (p : Nat) (k A B : Nat → Nat → K) (s t : K) (i j : Nat) :
    conv p k (fun r c => s * A r c + t * B r c) i j = s * conv p k A i j + t * conv p k B i j := by
  simp only [conv_eq, mul_sum, ← sum_add_distrib]
  refine sum_congr rfl fun a _ => sum_congr rfl fun b _ => ?_
  ring

/-- a constant padded array is reproduced when the kernel sums to one -/
theorem conv_const (p : Nat) (k : Nat → Nat → K) (v : K)
    (hsum : ∑ a ∈ range (2 * p + 1), ∑ b ∈ range (2 * p + 1), k a b = 1) (i j : Nat) :
    conv p k (fun _ _ => v) i j = v := by
  rw [conv_eq]
  simp only [← mul_sum]
  rw [hsum, mul_one]

/-- reflection of the padded array along axis 0 reflects the cropped output when the kernel is symmetric -/
theorem conv_mirror0 (p nx : Nat) (k A A' : Nat → Nat → K)
    (hk : ∀ a b, a ≤ 2 * p → k (2 * p - a) b = k a b)
    (hA : ∀ r c, r < nx + 2 * p → A' r c = A (nx + 2 * p - 1 - r) c) {i : Nat} (hi : i < nx) (j : Nat) :
    conv p k A' i j = conv p k A (nx - 1 - i) j := by
  rw [conv_eq, conv_eq]
  rw [← sum_range_reflect (fun a => ∑ b ∈ range (2 * p + 1), A (nx - 1 - i + 2 * p - a) (j + 2 * p - b) * k a b)]
  refine sum_congr rfl fun a ha => sum_congr rfl fun b _ => ?_
  have ha' : a ≤ 2 * p := by have := mem_range.mp ha; omega
  have e1 : 2 * p + 1 - 1 - a = 2 * p - a := by omega
  rw [e1, hk a b ha', hA _ _ (by omega)]
  congr 2; omega

/-- … and along axis 1 -/
theorem conv_mirror1 (p ny : Nat) (k A A' : Nat → Nat → K)
    (hk : ∀ a b, b ≤ 2 * p → k a (2 * p - b) = k a b)
    (hA : ∀ r c, c < ny + 2 * p → A' r c = A r (ny + 2 * p - 1 - c)) (i : Nat) {j : Nat} (hj : j < ny) :
    conv p k A' i j = conv p k A i (ny - 1 - j) := by
  rw [conv_eq, conv_eq]
  refine sum_congr rfl fun a _ => ?_
  rw [← sum_range_reflect (fun b => A (i + 2 * p - a) (ny - 1 - j + 2 * p - b) * k a b)]
  refine sum_congr rfl fun b hb => ?_
  have hb' : b ≤ 2 * p := by have := mem_range.mp hb; omega
  have e1 : 2 * p + 1 - 1 - b = 2 * p - b := by omega
  rw [e1, hk a b hb', hA _ _ (by omega)]
  congr 2; omega

end field

section ordered
variable {K : Type} [Field K] [LinearOrder K] [IsStrictOrderedRing K]

/-- convex combination: non-negative weights summing to one keep the output between bounds of the padded array -/
theorem conv_bounds (p : Nat) (k A : Nat → Nat → K) (lo hi : K) (hk : ∀ a b, 0 ≤ k a b)
    (hsum : ∑ a ∈ range (2 * p + 1), ∑ b ∈ range (2 * p + 1), k a b = 1)
    (hA : ∀ r c, lo ≤ A r c ∧ A r c ≤ hi) (i j : Nat) :
    lo ≤ conv p k A i j ∧ conv p k A i j ≤ hi := by
  rw [conv_eq]
  constructor
  · calc lo = ∑ a ∈ range (2 * p + 1), ∑ b ∈ range (2 * p + 1), lo * k a b := by
            simp only [← mul_sum]; rw [hsum, mul_one]
      _ ≤ _ := sum_le_sum fun a _ => sum_le_sum fun b _ => mul_le_mul_of_nonneg_right (hA _ _).1 (hk a b)
  · calc _ ≤ ∑ a ∈ range (2 * p + 1), ∑ b ∈ range (2 * p + 1), hi * k a b :=
            sum_le_sum fun a _ => sum_le_sum fun b _ => mul_le_mul_of_nonneg_right (hA _ _).2 (hk a b)
      _ = hi := by simp only [← mul_sum]; rw [hsum, mul_one]

end ordered

end Fdtdx.C22
