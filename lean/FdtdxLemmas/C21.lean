/-
Generic facts about averaging a function with its composition by an involution (used by C21):
for `σ` mapping a finite index set `s` into itself with `σ (σ i) = i` on `s`, the map
`P v = (v + v ∘ σ) / 2` produces σ-invariant functions, is idempotent, fixes σ-invariant functions and
preserves the sum over `s` (characteristic ≠ 2).
-/
import Mathlib.Algebra.BigOperators.Field
import Mathlib.Algebra.BigOperators.Group.Finset.Basic
import Mathlib.Tactic.Ring
import Mathlib.Tactic.FieldSimp
import Mathlib.Tactic.LinearCombination

namespace Fdtdx.AvgInvol

variable {ι K : Type} [Field K]

/-- `(v + v ∘ σ) / 2` -/
def avg (σ : ι → ι) (v : ι → K) : ι → K := fun i => (v i + v (σ i)) / 2

variable {σ : ι → ι} {s : Finset ι}

theorem avg_invariant (hinv : ∀ i ∈ s, σ (σ i) = i) (v : ι → K) {i : ι} (hi : i ∈ s) :
    avg σ v (σ i) = avg σ v i := by
  unfold avg; rw [hinv i hi, add_comm]

theorem avg_fixed (h2 : (2 : K) ≠ 0) {v : ι → K} {i : ι} (hv : v (σ i) = v i) : avg σ v i = v i := by
  unfold avg; rw [hv]; field_simp; ring

theorem avg_idem (h2 : (2 : K) ≠ 0) (hinv : ∀ i ∈ s, σ (σ i) = i) (v : ι → K) {i : ι} (hi : i ∈ s) :
    avg σ (avg σ v) i = avg σ v i :=
  avg_fixed h2 (avg_invariant hinv v hi)

theorem sum_comp_invol (hmap : ∀ i ∈ s, σ i ∈ s) (hinv : ∀ i ∈ s, σ (σ i) = i) (v : ι → K) :
    ∑ i ∈ s, v (σ i) = ∑ i ∈ s, v i :=
  Finset.sum_nbij' σ σ hmap hmap hinv hinv (fun _ _ => rfl)

theorem avg_sum (h2 : (2 : K) ≠ 0) (hmap : ∀ i ∈ s, σ i ∈ s) (hinv : ∀ i ∈ s, σ (σ i) = i) (v : ι → K) :
    ∑ i ∈ s, avg σ v i = ∑ i ∈ s, v i := by
  unfold avg
  rw [← Finset.sum_div, Finset.sum_add_distrib, sum_comp_invol hmap hinv]
  field_simp; ring

/-- conversely, an invariant function is its own average, so the σ-invariant functions are exactly the image of `avg σ` -/
theorem invariant_iff_fixed (h2 : (2 : K) ≠ 0) (v : ι → K) (i : ι) : avg σ v i = v i ↔ v (σ i) = v i := by
  unfold avg
  constructor
  · intro h
    have : v i + v (σ i) = 2 * v i := by field_simp at h; linear_combination h
    linear_combination this
  · intro h; rw [h]; field_simp; ring

end Fdtdx.AvgInvol
