/-
Helper lemmas for C33 (symmetry reduction across an electric plane normal to x): one-dimensional halo accessors
under index shift / negation, wall masks of the reduced configuration, oddness of the scalar updates.
-/
import FdtdxModel.C33
import Mathlib.Tactic.Ring
import Mathlib.Algebra.Field.Basic

namespace Fdtdx.C33
open Fdtdx Fdtdx.Yee

section
variable {K : Type} [Field K]

/-! ### 1-D halo accessors -/

theorem prev1_shift (n n' : Nat) (b b' : AxisBC K) (g g' : Nat → K) (m i : Nat) (hi : 0 < i)
    (h : g (i - 1) = g' (m + (i - 1))) : prev1 n b g i = prev1 n' b' g' (m + i) := by
  have h1 : i ≠ 0 := by omega
  have h2 : m + i ≠ 0 := by omega
  have h3 : m + i - 1 = m + (i - 1) := by omega
  unfold prev1
  rw [if_neg h1, if_neg h2, h3, h]

theorem next1_shift (m n' : Nat) (b b' : AxisBC K) (g g' : Nat → K) (i : Nat) (hi : i < m) (hn : n' = 2 * m)
    (hb : b.wrap = false) (hb' : b'.wrap = false)
    (h : i + 1 < m → g (i + 1) = g' (m + (i + 1))) : next1 m b g i = next1 n' b' g' (m + i) := by
  subst hn
  by_cases hlt : i + 1 < m
  · have h2 : m + i + 1 < 2 * m := by omega
    have h3 : m + i + 1 = m + (i + 1) := by omega
    unfold next1
    rw [if_pos hlt, if_pos h2, h3, h hlt]
  · have h2 : ¬ (m + i + 1 < 2 * m) := by omega
    unfold next1
    rw [if_neg hlt, if_neg h2]
    simp [hb, hb']

theorem prev1_pos (n : Nat) (b : AxisBC K) (g : Nat → K) (i : Nat) (hi : 0 < i) : prev1 n b g i = g (i - 1) := by
  have h1 : i ≠ 0 := by omega
  simp [prev1, h1]

theorem next1_lt (n : Nat) (b : AxisBC K) (g : Nat → K) (i : Nat) (hi : i + 1 < n) : next1 n b g i = g (i + 1) := by
  simp [next1, hi]

theorem prev1_neg (n : Nat) (b : AxisBC K) (g : Nat → K) (i : Nat) :
    prev1 n b (fun t => - g t) i = - prev1 n b g i := by
  unfold prev1
  split_ifs <;> simp

theorem next1_neg (n : Nat) (b : AxisBC K) (g : Nat → K) (i : Nat) :
    next1 n b (fun t => - g t) i = - next1 n b g i := by
  unfold next1
  split_ifs <;> simp

theorem prev1_zero (n : Nat) (b : AxisBC K) (i : Nat) : prev1 n b (fun _ => (0 : K)) i = 0 := by
  unfold prev1
  split_ifs <;> simp

theorem next1_zero (n : Nat) (b : AxisBC K) (i : Nat) : next1 n b (fun _ => (0 : K)) i = 0 := by
  unfold next1
  split_ifs <;> simp

/-! ### scalar updates are odd (and vanish at zero) -/

theorem updE1_neg (c eta0 e cu ie : K) (sig : Option K) :
    updE1 c eta0 (-e) (-cu) ie sig = - updE1 c eta0 e cu ie sig := by
  cases sig with
  | none => simp only [updE1]; ring
  | some s => simp only [updE1]; ring

theorem updH1_neg (c eta0 h cu im : K) (sig : Option K) :
    updH1 c eta0 (-h) (-cu) im sig = - updH1 c eta0 h cu im sig := by
  cases sig with
  | none => simp only [updH1]; ring
  | some s => simp only [updH1]; ring

theorem updE1_zero (c eta0 ie : K) (sig : Option K) : updE1 c eta0 0 0 ie sig = 0 := by
  cases sig <;> simp [updE1]

theorem updH1_zero (c eta0 im : K) (sig : Option K) : updH1 c eta0 0 0 im sig = 0 := by
  cases sig <;> simp [updH1]

/-! ### wall layers along the halved axis -/

theorem onWall_upper (lo hi lo' : Bool) (m i : Nat) (hi0 : 0 < i) :
    onWall lo hi m i = onWall lo' hi (2 * m) (m + i) := by
  have h1 : (i == 0) = false := by simp; omega
  have h2 : (m + i == 0) = false := by simp; omega
  have h3 : (m + i + 1 == 2 * m) = (i + 1 == m) := by
    rw [Bool.eq_iff_iff]; simp; omega
  simp [onWall, h1, h2, h3]

theorem onWall_upper_nolo (hi lo' : Bool) (m i : Nat) (hm : 0 < m) :
    onWall false hi m i = onWall lo' hi (2 * m) (m + i) := by
  have h2 : (m + i == 0) = false := by simp; omega
  have h3 : (m + i + 1 == 2 * m) = (i + 1 == m) := by
    rw [Bool.eq_iff_iff]; simp; omega
  simp [onWall, h2, h3]

/-- away from both ends no wall layer -/
theorem onWall_interior (lo hi : Bool) (n i : Nat) (h0 : 0 < i) (h1 : i + 1 < n) : onWall lo hi n i = false := by
  have a : (i == 0) = false := by simp; omega
  have b : (i + 1 == n) = false := by simp; omega
  simp [onWall, a, b]

theorem onWall_nohi (lo : Bool) (n i : Nat) (h0 : 0 < i) : onWall lo false n i = false := by
  have a : (i == 0) = false := by simp; omega
  simp [onWall, a]

end
end Fdtdx.C33
