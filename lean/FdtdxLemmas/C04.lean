/-
Helper lemmas for C04: unfolding of the fuelled while loop, the reverse-loop invariant, the schedule of the
reverse loop, the forward pass with checkpoints and the arithmetic of the slice boundaries.
-/
import FdtdxModel.C04
import Mathlib.Tactic.Ring
import Mathlib.Tactic.Linarith
import Mathlib.Tactic.Set

namespace Fdtdx.C04

variable {S F P CS CP CP' : Type}

/-! ### while loop -/

theorem whileFuel_zero {σ : Type} (cond : σ → Bool) (body : σ → σ) (x : σ) : whileFuel cond body 0 x = x := rfl

theorem whileFuel_false {σ : Type} (cond : σ → Bool) (body : σ → σ) (n : Nat) (x : σ) (h : cond x = false) :
    whileFuel cond body n x = x := by
  cases n with
  | zero => rfl
  | succ n => simp [whileFuel, h]

theorem whileFuel_true {σ : Type} (cond : σ → Bool) (body : σ → σ) (n : Nat) (x : σ) (h : cond x = true) :
    whileFuel cond body (n + 1) x = whileFuel cond body n (body x) := by
  simp [whileFuel, h]

/-! ### hypotheses of the gradient theorem -/

/-- What the reverse loop needs from the system, relative to an agreement relation on states (`agree ŝ s`: the
reconstructed state `ŝ` is as good as the true state `s`) and a projection `π` of parameter cotangents (the cells
at which the gradient is claimed). -/
structure Hyp (sys : Sys S F P CS CP) (p : P) (agree : S → S → Prop) (π : CP → CP') (addP' : CP' → CP' → CP') : Prop where
  /-- Aᵀ is the same at agreeing states -/
  vjpS_agree : ∀ (n : Nat) ŝ s c, agree ŝ s → sys.vjpS n ŝ p c = sys.vjpS n s p c
  /-- the claimed part of Bᵀ is the same at agreeing states -/
  vjpP_agree : ∀ (n : Nat) ŝ s c, agree ŝ s → π (sys.vjpP n ŝ p c) = π (sys.vjpP n s p c)
  /-- one reverse step: agreement with the state after step `n` gives agreement with the state before it -/
  g_agree : ∀ (n : Nat) ŝ s, agree ŝ (sys.f n s p) → agree (sys.g n ŝ p) s
  /-- replacing the fields of an agreeing state by the true fields keeps agreement -/
  setF_agree : ∀ ŝ s, agree ŝ s → agree (sys.setF ŝ (sys.getF s)) s
  π_add : ∀ a b, π (sys.addP a b) = addP' (π a) (π b)

/-- every checkpoint that can fire at a time step `n ≥ 0` holds the true fields of that time step -/
def CksOK (sys : Sys S F P CS CP) (p : P) (s0 : S) (cks : List (Int × F)) : Prop :=
  ∀ ck ∈ cks, ∀ n : Nat, ck.1 = (n : Int) → ck.2 = sys.getF (traj sys p s0 n)

theorem applyCheckpoints_agree {sys : Sys S F P CS CP} {p : P} {agree : S → S → Prop} {π : CP → CP'}
    {addP' : CP' → CP' → CP'} (h : Hyp sys p agree π addP') (s0 : S) (n : Nat) :
    ∀ (cks : List (Int × F)) (ŝ : S), CksOK sys p s0 cks → agree ŝ (traj sys p s0 n) →
      agree (applyCheckpoints sys cks (n : Int) ŝ) (traj sys p s0 n) := by
  intro cks
  induction cks with
  | nil => intro ŝ _ ha; simpa [applyCheckpoints] using ha
  | cons ck rest ih =>
    intro ŝ hck ha
    have hrest : CksOK sys p s0 rest := fun c hc => hck c (List.mem_cons_of_mem _ hc)
    simp only [applyCheckpoints, List.foldl_cons]
    by_cases ht : (n : Int) = ck.1
    · rw [if_pos ht]
      have := hck ck (List.mem_cons_self) n ht.symm
      rw [this]
      exact ih _ hrest (h.setF_agree _ _ ha)
    · rw [if_neg ht]
      exact ih _ hrest ha

/-! ### the reverse loop -/

theorem reverseBody_t (sys : Sys S F P CS CP) (p : P) (cks : List (Int × F)) (c : Carry S CS CP) :
    (reverseBody sys p cks c).t = c.t - 1 := rfl

theorem reverseBody_log (sys : Sys S F P CS CP) (p : P) (cks : List (Int × F)) (c : Carry S CS CP) :
    (reverseBody sys p cks c).log = c.log ++ [Ev.bwd c.t, Ev.vjp (c.t - 1)] := rfl

/-- Invariant of the (fixed) reverse loop, by induction on the time step: starting at time step `T` from a state
that agrees with the true one and a cotangent that equals the exact one (parameter part: up to `π`), the loop ends
at time step 0 with the exact reverse-mode result. -/
theorem loop_invariant {sys : Sys S F P CS CP} {p : P} {agree : S → S → Prop} {π : CP → CP'}
    {addP' : CP' → CP' → CP'} (h : Hyp sys p agree π addP') (s0 : S) (cks : List (Int × F))
    (hck : CksOK sys p s0 cks) :
    ∀ (T fuel : Nat) (c : Carry S CS CP) (e : CS × CP), T ≤ fuel → c.t = (T : Int) →
      agree c.s (traj sys p s0 T) → c.cs = e.1 → π c.cp = π e.2 →
      (whileFuel condFixed (reverseBody sys p cks) fuel c).t = 0 ∧
      (whileFuel condFixed (reverseBody sys p cks) fuel c).cs = (exactBwd sys p s0 T e).1 ∧
      π (whileFuel condFixed (reverseBody sys p cks) fuel c).cp = π (exactBwd sys p s0 T e).2 ∧
      agree (whileFuel condFixed (reverseBody sys p cks) fuel c).s s0 := by
  intro T
  induction T with
  | zero =>
    intro fuel c e _ ht ha hcs hcp
    have hc : condFixed c = false := by simp [condFixed, ht]
    rw [whileFuel_false _ _ _ _ hc]
    exact ⟨by simpa using ht, by simpa [exactBwd] using hcs, by simpa [exactBwd] using hcp, by simpa [traj] using ha⟩
  | succ T ih =>
    intro fuel c e hf ht ha hcs hcp
    obtain ⟨fuel', rfl⟩ : ∃ f', fuel = f' + 1 := ⟨fuel - 1, by omega⟩
    have hc : condFixed c = true := by simp [condFixed, ht]
    rw [whileFuel_true _ _ _ _ hc]
    have ht' : c.t - 1 = (T : Int) := by rw [ht]; push_cast; ring
    -- the state after the checkpoint reset and the reverse step agrees with the true state at T
    have ha1 : agree (applyCheckpoints sys cks c.t c.s) (traj sys p s0 (T + 1)) := by
      rw [ht]; exact applyCheckpoints_agree h s0 (T + 1) cks c.s hck ha
    have ha2 : agree (sys.g (T : Int) (applyCheckpoints sys cks c.t c.s) p) (traj sys p s0 T) :=
      h.g_agree T _ _ (by simpa [traj] using ha1)
    have key := ih fuel' (reverseBody sys p cks c) (stepVjp sys (T : Int) (traj sys p s0 T) p e) (by omega)
      (by rw [reverseBody_t, ht'])
      (by simp only [reverseBody, bodyFn]; rw [ht']; exact ha2)
      (by
        simp only [reverseBody, bodyFn, stepVjp]; rw [ht', hcs]
        exact h.vjpS_agree T _ _ _ ha2)
      (by
        simp only [reverseBody, bodyFn, stepVjp]; rw [ht', h.π_add, h.π_add, hcp, hcs]
        rw [h.vjpP_agree T _ _ _ ha2])
    simpa [exactBwd] using key

/-! ### schedule of the reverse loop -/

/-- `[T-1, T-2, …, 0]` -/
def countdown : Nat → List Int
  | 0 => []
  | n + 1 => (n : Int) :: countdown n

theorem stepsVisited_reverseBody (sys : Sys S F P CS CP) (p : P) (cks : List (Int × F)) (c : Carry S CS CP) :
    stepsVisited (reverseBody sys p cks c) = stepsVisited c ++ [c.t - 1] := by
  simp [stepsVisited, reverseBody, bodyFn, List.filterMap_append]

theorem schedule_fixed (sys : Sys S F P CS CP) (p : P) (cks : List (Int × F)) :
    ∀ (T fuel : Nat) (c : Carry S CS CP), T ≤ fuel → c.t = (T : Int) →
      stepsVisited (whileFuel condFixed (reverseBody sys p cks) fuel c) = stepsVisited c ++ countdown T ∧
      condFixed (whileFuel condFixed (reverseBody sys p cks) fuel c) = false ∧
      (whileFuel condFixed (reverseBody sys p cks) fuel c).t = 0 := by
  intro T
  induction T with
  | zero =>
    intro fuel c _ ht
    have hc : condFixed c = false := by simp [condFixed, ht]
    rw [whileFuel_false _ _ _ _ hc]
    exact ⟨by simp [countdown], hc, by simpa using ht⟩
  | succ T ih =>
    intro fuel c hf ht
    obtain ⟨fuel', rfl⟩ : ∃ f', fuel = f' + 1 := ⟨fuel - 1, by omega⟩
    have hc : condFixed c = true := by simp [condFixed, ht]
    rw [whileFuel_true _ _ _ _ hc]
    have ht' : c.t - 1 = (T : Int) := by rw [ht]; push_cast; ring
    obtain ⟨h1, h2⟩ := ih fuel' (reverseBody sys p cks c) (by omega) (by rw [reverseBody_t, ht'])
    refine ⟨?_, h2⟩
    rw [h1, stepsVisited_reverseBody, ht']
    simp [countdown]

/-- the as-found loop is the fixed loop followed by one more body execution (the phantom step at t = −1) -/
theorem asFound_eq_fixed_then_body (sys : Sys S F P CS CP) (p : P) (cks : List (Int × F)) :
    ∀ (T fuel : Nat) (c : Carry S CS CP), T ≤ fuel → c.t = (T : Int) →
      whileFuel AsFound.cond (reverseBody sys p cks) (fuel + 1) c =
        reverseBody sys p cks (whileFuel condFixed (reverseBody sys p cks) fuel c) := by
  intro T
  induction T with
  | zero =>
    intro fuel c _ ht
    have hc : condFixed c = false := by simp [condFixed, ht]
    have ha : AsFound.cond c = true := by simp [AsFound.cond, ht]
    rw [whileFuel_false _ _ _ _ hc, whileFuel_true _ _ _ _ ha]
    apply whileFuel_false
    simp [AsFound.cond, reverseBody_t, ht]
  | succ T ih =>
    intro fuel c hf ht
    obtain ⟨fuel', rfl⟩ : ∃ f', fuel = f' + 1 := ⟨fuel - 1, by omega⟩
    have hc : condFixed c = true := by simp [condFixed, ht]
    have ha : AsFound.cond c = true := by simp [AsFound.cond, ht]; omega
    rw [whileFuel_true _ _ _ _ hc, whileFuel_true _ _ _ _ ha]
    have ht' : c.t - 1 = (T : Int) := by rw [ht]; push_cast; ring
    exact ih fuel' (reverseBody sys p cks c) (by omega) (by rw [reverseBody_t, ht'])

/-! ### forward pass -/

theorem fwdLoop_spec (sys : Sys S F P CS CP) (p : P) (s0 : S) :
    ∀ (d lo : Nat), fwdLoop sys p ((lo + d : Nat) : Int) d ((lo : Int), traj sys p s0 lo) =
      (((lo + d : Nat) : Int), traj sys p s0 (lo + d)) := by
  intro d
  induction d with
  | zero => intro lo; simp [fwdLoop, whileFuel]
  | succ d ih =>
    intro lo
    unfold fwdLoop
    rw [whileFuel_true]
    · have := ih (lo + 1)
      unfold fwdLoop at this
      have e1 : lo + 1 + d = lo + (d + 1) := by omega
      rw [e1] at this
      simpa [traj] using this
    · simp

/-- `b[1:-1]` by index -/
theorem drop_dropLast_eq (b : List Nat) (k : Nat) (hb : b.length = k + 1) :
    (b.drop 1).dropLast = (List.range (k - 1)).map (fun i => b.getD (i + 1) 0) := by
  apply List.ext_getElem
  · simp [hb]
  · intro i h1 h2
    have hi : i + 1 < b.length := by simp [hb] at h1; omega
    simp [List.getD_eq_getElem?_getD, List.getElem?_eq_getElem hi]

/-- `segmented_forward` on a monotone boundary list starting at 0: the state after the first `m` slices and the
checkpoints captured so far -/
theorem segmentedForward_prefix (sys : Sys S F P CS CP) (p : P) (s0 : S) (b : List Nat) (k : Nat)
    (h0 : b.getD 0 0 = 0) (hmono : ∀ i, i < k → b.getD i 0 ≤ b.getD (i + 1) 0) :
    ∀ m, m ≤ k →
      (List.range m).foldl (fun (acc : (Int × S) × List F) seg =>
          let hi := b.getD (seg + 1) 0
          let lo := b.getD seg 0
          let st := fwdLoop sys p (hi : Int) (hi - lo) acc.1
          (st, if seg + 1 < k then acc.2 ++ [sys.getF st.2] else acc.2))
        (((0 : Int), s0), []) =
      ((((b.getD m 0 : Nat) : Int), traj sys p s0 (b.getD m 0)),
        (List.range (min m (k - 1))).map (fun i => sys.getF (traj sys p s0 (b.getD (i + 1) 0)))) := by
  intro m
  induction m with
  | zero => intro _; rw [List.range_zero, List.foldl_nil, h0]; simp [traj]
  | succ m ih =>
    intro hm
    rw [List.range_succ, List.foldl_append, ih (by omega)]
    simp only [List.foldl_cons, List.foldl_nil]
    have hle := hmono m (by omega)
    have hsplit : b.getD (m + 1) 0 = b.getD m 0 + (b.getD (m + 1) 0 - b.getD m 0) := by omega
    have hf := fwdLoop_spec sys p s0 (b.getD (m + 1) 0 - b.getD m 0) (b.getD m 0)
    rw [← hsplit] at hf
    rw [hf]
    by_cases hlt : m + 1 < k
    · rw [if_pos hlt]
      have e1 : min (m + 1) (k - 1) = m + 1 := by omega
      have e2 : min m (k - 1) = m := by omega
      rw [e1, e2, List.range_succ, List.map_append]
      rfl
    · rw [if_neg hlt]
      have e1 : min (m + 1) (k - 1) = min m (k - 1) := by omega
      rw [e1]

theorem segmentedForward_spec (sys : Sys S F P CS CP) (p : P) (s0 : S) (b : List Nat) (k : Nat)
    (hb : b.length = k + 1) (h0 : b.getD 0 0 = 0) (hmono : ∀ i, i < k → b.getD i 0 ≤ b.getD (i + 1) 0) :
    segmentedForward sys p b s0 =
      ((((b.getD k 0 : Nat) : Int), traj sys p s0 (b.getD k 0)),
        ((b.drop 1).dropLast).map (fun n => sys.getF (traj sys p s0 n))) := by
  unfold segmentedForward
  have hk : b.length - 1 = k := by omega
  simp only [hk]
  rw [segmentedForward_prefix sys p s0 b k h0 hmono k (le_refl _), drop_dropLast_eq b k hb]
  have e : min k (k - 1) = k - 1 := by omega
  rw [e, List.map_map]
  rfl

/-! ### slice boundaries -/

theorem roundDiv_zero (k : Nat) (hk : 0 < k) : roundDiv 0 k = 0 := by
  simp [roundDiv, hk]

theorem roundDiv_mul (k T : Nat) (hk : 0 < k) : roundDiv (k * T) k = T := by
  simp [roundDiv, hk, Nat.mul_div_cancel_left T hk]

theorem roundDiv_mono (k : Nat) (hk : 0 < k) (a a' : Nat) (h : a ≤ a') : roundDiv a k ≤ roundDiv a' k := by
  have hq : a / k ≤ a' / k := Nat.div_le_div_right h
  have hr : a % k < k := Nat.mod_lt _ hk
  have hr' : a' % k < k := Nat.mod_lt _ hk
  have ha : k * (a / k) + a % k = a := Nat.div_add_mod a k
  have ha' : k * (a' / k) + a' % k = a' := Nat.div_add_mod a' k
  have hsame : a / k = a' / k → a % k ≤ a' % k := by
    intro e; rw [e] at ha; omega
  unfold roundDiv
  simp only
  generalize a / k = q at *
  generalize a' / k = q' at *
  generalize a % k = r at *
  generalize a' % k = r' at *
  by_cases hqq : q = q'
  · have := hsame hqq
    subst hqq
    split_ifs <;> omega
  · split_ifs <;> omega

theorem sliceBoundaries_length (T k : Nat) : (sliceBoundaries T k).length = k + 1 := by
  simp [sliceBoundaries]

theorem sliceBoundaries_getD (T k i : Nat) (hi : i ≤ k) : (sliceBoundaries T k).getD i 0 = roundDiv (i * T) k := by
  have h1 : (List.range (k + 1))[i]? = some i := List.getElem?_range (by omega)
  simp [List.getD_eq_getElem?_getD, sliceBoundaries, h1]

/-- checkpoints paired with their own time steps are valid -/
theorem cksOK_zip (sys : Sys S F P CS CP) (p : P) (s0 : S) (ts : List Nat) :
    CksOK sys p s0 ((ts.map (fun (n : Nat) => (n : Int))).zip (ts.map (fun n => sys.getF (traj sys p s0 n)))) := by
  induction ts with
  | nil => intro ck h; simp at h
  | cons t rest ih =>
    intro ck h n hn
    simp only [List.map_cons, List.zip_cons_cons, List.mem_cons] at h
    rcases h with h | h
    · subst h
      simp only at hn ⊢
      have : t = n := by exact_mod_cast hn
      rw [this]
    · exact ih ck h n hn

/-! ### trajectory-relative hypotheses (what concrete solver steps can discharge) -/

/-- `Hyp` restricted to the states of the true forward trajectory of a `T`-step run: everything is only required
where the reverse loop actually evaluates it.  (A concrete step is invertible only on states satisfying its wall
conditions, and the PML reverse step reads the recording of the forward run it undoes.) -/
structure HypTraj (sys : Sys S F P CS CP) (p : P) (s0 : S) (T : Nat) (agree : S → S → Prop) (π : CP → CP')
    (addP' : CP' → CP' → CP') : Prop where
  vjpS_agree : ∀ n, n < T → ∀ ŝ c, agree ŝ (traj sys p s0 n) → sys.vjpS n ŝ p c = sys.vjpS n (traj sys p s0 n) p c
  vjpP_agree : ∀ n, n < T → ∀ ŝ c, agree ŝ (traj sys p s0 n) →
    π (sys.vjpP n ŝ p c) = π (sys.vjpP n (traj sys p s0 n) p c)
  g_agree : ∀ n, n < T → ∀ ŝ, agree ŝ (traj sys p s0 (n + 1)) → agree (sys.g n ŝ p) (traj sys p s0 n)
  setF_agree : ∀ n, n ≤ T → ∀ ŝ, agree ŝ (traj sys p s0 n) →
    agree (sys.setF ŝ (sys.getF (traj sys p s0 n))) (traj sys p s0 n)
  π_add : ∀ a b, π (sys.addP a b) = addP' (π a) (π b)

theorem Hyp.toTraj {sys : Sys S F P CS CP} {p : P} {agree : S → S → Prop} {π : CP → CP'}
    {addP' : CP' → CP' → CP'} (h : Hyp sys p agree π addP') (s0 : S) (T : Nat) : HypTraj sys p s0 T agree π addP' :=
  { vjpS_agree := fun n _ ŝ c ha => h.vjpS_agree n ŝ _ c ha
    vjpP_agree := fun n _ ŝ c ha => h.vjpP_agree n ŝ _ c ha
    g_agree := fun n _ ŝ ha => h.g_agree n ŝ _ (by simpa [traj] using ha)
    setF_agree := fun n _ ŝ ha => h.setF_agree ŝ _ ha
    π_add := h.π_add }

theorem applyCheckpoints_agree_traj {sys : Sys S F P CS CP} {p : P} {s0 : S} {T : Nat} {agree : S → S → Prop}
    {π : CP → CP'} {addP' : CP' → CP' → CP'} (h : HypTraj sys p s0 T agree π addP') (n : Nat) (hn : n ≤ T) :
    ∀ (cks : List (Int × F)) (ŝ : S), CksOK sys p s0 cks → agree ŝ (traj sys p s0 n) →
      agree (applyCheckpoints sys cks (n : Int) ŝ) (traj sys p s0 n) := by
  intro cks
  induction cks with
  | nil => intro ŝ _ ha; simpa [applyCheckpoints] using ha
  | cons ck rest ih =>
    intro ŝ hck ha
    have hrest : CksOK sys p s0 rest := fun c hc => hck c (List.mem_cons_of_mem _ hc)
    simp only [applyCheckpoints, List.foldl_cons]
    by_cases ht : (n : Int) = ck.1
    · rw [if_pos ht]
      have := hck ck (List.mem_cons_self) n ht.symm
      rw [this]
      exact ih _ hrest (h.setF_agree n hn _ ha)
    · rw [if_neg ht]
      exact ih _ hrest ha

/-- the reverse-loop invariant under trajectory-relative hypotheses -/
theorem loop_invariant_traj {sys : Sys S F P CS CP} {p : P} {s0 : S} {T : Nat} {agree : S → S → Prop} {π : CP → CP'}
    {addP' : CP' → CP' → CP'} (h : HypTraj sys p s0 T agree π addP') (cks : List (Int × F))
    (hck : CksOK sys p s0 cks) :
    ∀ (T' fuel : Nat) (c : Carry S CS CP) (e : CS × CP), T' ≤ T → T' ≤ fuel → c.t = (T' : Int) →
      agree c.s (traj sys p s0 T') → c.cs = e.1 → π c.cp = π e.2 →
      (whileFuel condFixed (reverseBody sys p cks) fuel c).t = 0 ∧
      (whileFuel condFixed (reverseBody sys p cks) fuel c).cs = (exactBwd sys p s0 T' e).1 ∧
      π (whileFuel condFixed (reverseBody sys p cks) fuel c).cp = π (exactBwd sys p s0 T' e).2 ∧
      agree (whileFuel condFixed (reverseBody sys p cks) fuel c).s s0 := by
  intro T'
  induction T' with
  | zero =>
    intro fuel c e _ _ ht ha hcs hcp
    have hc : condFixed c = false := by simp [condFixed, ht]
    rw [whileFuel_false _ _ _ _ hc]
    exact ⟨by simpa using ht, by simpa [exactBwd] using hcs, by simpa [exactBwd] using hcp, by simpa [traj] using ha⟩
  | succ T' ih =>
    intro fuel c e hT hf ht ha hcs hcp
    obtain ⟨fuel', rfl⟩ : ∃ f', fuel = f' + 1 := ⟨fuel - 1, by omega⟩
    have hc : condFixed c = true := by simp [condFixed, ht]
    rw [whileFuel_true _ _ _ _ hc]
    have ht' : c.t - 1 = (T' : Int) := by rw [ht]; push_cast; ring
    have ha1 : agree (applyCheckpoints sys cks c.t c.s) (traj sys p s0 (T' + 1)) := by
      rw [ht]; exact applyCheckpoints_agree_traj h (T' + 1) hT cks c.s hck ha
    have ha2 : agree (sys.g (T' : Int) (applyCheckpoints sys cks c.t c.s) p) (traj sys p s0 T') :=
      h.g_agree T' (by omega) _ ha1
    have key := ih fuel' (reverseBody sys p cks c) (stepVjp sys (T' : Int) (traj sys p s0 T') p e) (by omega) (by omega)
      (by rw [reverseBody_t, ht'])
      (by simp only [reverseBody, bodyFn]; rw [ht']; exact ha2)
      (by
        simp only [reverseBody, bodyFn, stepVjp]; rw [ht', hcs]
        exact h.vjpS_agree T' (by omega) _ _ ha2)
      (by
        simp only [reverseBody, bodyFn, stepVjp]; rw [ht', h.π_add, h.π_add, hcp, hcs]
        rw [h.vjpP_agree T' (by omega) _ _ ha2])
    simpa [exactBwd] using key

end Fdtdx.C04
