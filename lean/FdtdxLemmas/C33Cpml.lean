/-
C33 helper lemmas for the CPML step (`FdtdxModel/Cpml.lean`): outside every PML box the PML loops of curl_E / curl_H do
nothing; the parity predicates only look at the slab of layers around the plane.
-/
import FdtdxLemmas.C33Rot
import FdtdxModel.Cpml
namespace Fdtdx.C33
open Fdtdx Fdtdx.Yee Fdtdx.Cpml

section
variable {K : Type} [Field K]
variable {cf : Cfg K} {m : Nat}

/-- no PML box meets the slab of x-layers `m - r ≤ i < m + r` (the window of `r` pairs around the plane) -/
def Clear (pmls : List (PmlSt K)) (m r : Nat) : Prop :=
  ∀ st ∈ pmls, ∀ i j k, m - r ≤ i → i < m + r → ¬ st.p.box.mem i j k

theorem foldl_applyE_clear (sim : Bool) (E : V3 K) (comp i j k : Nat) (pmls : List (PmlSt K))
    (h : ∀ st ∈ pmls, ¬ st.p.box.mem i j k) (acc : K) : pmls.foldl (applyE cf sim E comp i j k) acc = acc := by
  induction pmls generalizing acc with
  | nil => rfl
  | cons st tl ih =>
    have h1 : ¬ st.p.box.mem i j k := h st (List.mem_cons_self ..)
    simp only [List.foldl_cons, applyE, if_neg h1]
    exact ih (fun s hs => h s (List.mem_cons_of_mem _ hs)) acc

theorem foldl_applyH_clear (sim : Bool) (H : V3 K) (comp i j k : Nat) (pmls : List (PmlSt K))
    (h : ∀ st ∈ pmls, ¬ st.p.box.mem i j k) (acc : K) : pmls.foldl (applyH cf sim H comp i j k) acc = acc := by
  induction pmls generalizing acc with
  | nil => rfl
  | cons st tl ih =>
    have h1 : ¬ st.p.box.mem i j k := h st (List.mem_cons_self ..)
    simp only [List.foldl_cons, applyH, if_neg h1]
    exact ih (fun s hs => h s (List.mem_cons_of_mem _ hs)) acc

theorem Clear.mono {pmls : List (PmlSt K)} {r r' : Nat} (h : Clear pmls m r) (hr : r' ≤ r) : Clear pmls m r' :=
  fun st hs i j k h1 h2 => h st hs i j k (by omega) (by omega)

theorem Clear.updPsiE {pmls : List (PmlSt K)} {r : Nat} (h : Clear pmls m r) (sim : Bool) (H : V3 K) :
    Clear (pmls.map (updPsiE cf sim H)) m r := by
  intro st hs i j k h1 h2
  obtain ⟨s0, hs0, rfl⟩ := List.mem_map.mp hs
  exact h s0 hs0 i j k h1 h2

theorem Clear.updPsiH {pmls : List (PmlSt K)} {r : Nat} (h : Clear pmls m r) (sim : Bool) (E : V3 K) :
    Clear (pmls.map (updPsiH cf sim E)) m r := by
  intro st hs i j k h1 h2
  obtain ⟨s0, hs0, rfl⟩ := List.mem_map.mp hs
  exact h s0 hs0 i j k h1 h2

/-- the parity predicates only look at the slab -/
theorem SymE.congr {r : Nat} {V V' : V3 K} (h : SymE m r V)
    (e : ∀ i j k, m - r ≤ i → i < m + r → V'.x i j k = V.x i j k ∧ V'.y i j k = V.y i j k ∧ V'.z i j k = V.z i j k) :
    SymE m r V' := by
  refine ⟨fun d j k hd => ?_, fun d j k hd => ?_, fun d j k hd => ?_, fun j k h0 => ?_, fun j k h0 => ?_⟩
  · rw [(e (m + d) j k (by omega) (by omega)).1, (e (m - 1 - d) j k (by omega) (by omega)).1]; exact h.x d j k hd
  · rw [(e (m + d) j k (by omega) (by omega)).2.1, (e (m - d) j k (by omega) (by omega)).2.1]; exact h.y d j k hd
  · rw [(e (m + d) j k (by omega) (by omega)).2.2, (e (m - d) j k (by omega) (by omega)).2.2]; exact h.z d j k hd
  · rw [(e m j k (by omega) (by omega)).2.1]; exact h.y0 j k h0
  · rw [(e m j k (by omega) (by omega)).2.2]; exact h.z0 j k h0

theorem SymH.congr {r : Nat} {V V' : V3 K} (h : SymH m r V)
    (e : ∀ i j k, m - r ≤ i → i < m + r → V'.x i j k = V.x i j k ∧ V'.y i j k = V.y i j k ∧ V'.z i j k = V.z i j k) :
    SymH m r V' := by
  refine ⟨fun d j k hd => ?_, fun j k h0 => ?_, fun d j k hd => ?_, fun d j k hd => ?_⟩
  · rw [(e (m + d) j k (by omega) (by omega)).1, (e (m - d) j k (by omega) (by omega)).1]; exact h.x d j k hd
  · rw [(e m j k (by omega) (by omega)).1]; exact h.x0 j k h0
  · rw [(e (m + d) j k (by omega) (by omega)).2.1, (e (m - 1 - d) j k (by omega) (by omega)).2.1]; exact h.y d j k hd
  · rw [(e (m + d) j k (by omega) (by omega)).2.2, (e (m - 1 - d) j k (by omega) (by omega)).2.2]; exact h.z d j k hd

end
end Fdtdx.C33
