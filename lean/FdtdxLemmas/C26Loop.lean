/-
Helper lemmas about the solver loop of `FdtdxModel/C26.lean`: the tabulated extension step equals its
pointwise definition, states only grow (set-once), a successful run ends in a state on which every atom is
stable, and the confluence argument behind C27 (two runs over the same atoms and the same extension function
reach the same quiescent states).
-/
import FdtdxLemmas.C26Engine

namespace Fdtdx.C26

variable {α : Type}

/-! ### the extension step -/

theorem lookup_map_self {β : Type} (F : Var → β) : ∀ (ks : List Var) (v : Var),
    (ks.map fun w => (w, F w)).lookup v = if v ∈ ks then some (F v) else none
  | [], v => by simp
  | k :: ks, v => by
    simp only [List.map_cons, List.lookup_cons, List.mem_cons]
    by_cases h : v = k
    · subst h; simp
    · have : (v == k) = false := by simpa using h
      rw [this, lookup_map_self F ks v]
      simp [h]

theorem mem_objVars {sys : Sys α} {v : Var} :
    v ∈ objVars sys ↔ (∃ o ∈ sys.objs, o.id = v.o) ∧ v.ax < 3 := by
  unfold objVars axes3
  constructor
  · intro h
    simp only [List.mem_flatMap] at h
    obtain ⟨o, ho, ax, hax, hv⟩ := h
    simp at hax hv
    rcases hv with rfl | rfl | rfl <;> exact ⟨⟨o, ho, rfl⟩, by rcases hax with rfl | rfl | rfl <;> simp⟩
  · rintro ⟨⟨o, ho, hid⟩, hax⟩
    simp only [List.mem_flatMap]
    refine ⟨o, ho, v.ax, ?_, ?_⟩
    · have : v.ax = 0 ∨ v.ax = 1 ∨ v.ax = 2 := by omega
      simpa using this
    · rcases v with ⟨vo, vax, vk⟩
      subst hid
      cases vk <;> simp

theorem isObj_iff {sys : Sys α} {id : Nat} : isObj sys id = true ↔ ∃ o ∈ sys.objs, o.id = id := by
  simp [isObj]

theorem extends_false_of_not_mem {sys : Sys α} {σ : St} {v : Var} (h : v ∉ objVars sys) :
    extends_ sys σ v = false := by
  rw [mem_objVars] at h
  unfold extends_
  cases hk : v.k with
  | size => rfl
  | lo =>
    by_cases h1 : v.ax < 3
    · have : isObj sys v.o = false := by
        cases hh : isObj sys v.o with
        | false => rfl
        | true => exact absurd ⟨isObj_iff.1 hh, h1⟩ h
      simp [this]
    · simp [h1]
  | hi =>
    by_cases h1 : v.ax < 3
    · have : isObj sys v.o = false := by
        cases hh : isObj sys v.o with
        | false => rfl
        | true => exact absurd ⟨isObj_iff.1 hh, h1⟩ h
      simp [this]
    · simp [h1]

/-- the tabulated state is the pointwise one -/
theorem extend_eq (sys : Sys α) (σ : St) : extend sys σ = extendPt sys σ := by
  funext v
  unfold extend stOfTbl extendTbl
  rw [lookup_map_self]
  by_cases h : v ∈ objVars sys
  · simp [h]
  · simp only [h, if_false]
    unfold extendPt
    rw [extends_false_of_not_mem h]
    simp

theorem stOfTbl_extendTbl (sys : Sys α) (σ : St) : stOfTbl (extendTbl sys σ) σ = extend sys σ := rfl

theorem extends_none {sys : Sys α} {σ : St} {v : Var} (h : extends_ sys σ v = true) : σ v = none := by
  unfold extends_ at h
  cases hk : v.k with
  | size => simp [hk] at h
  | lo =>
    simp [hk] at h
    exact h.1.2
  | hi =>
    simp [hk] at h
    exact h.1.2

theorem extend_mono (sys : Sys α) (σ : St) : σ.le (extend sys σ) := by
  rw [extend_eq]
  intro v x hv
  unfold extendPt
  by_cases h : extends_ sys σ v = true
  · rw [extends_none h] at hv; cases hv
  · simp [h, hv]

/-! ### the loop -/

theorem loop_succ (sys : Sys α) (gs : List Group) (n : Nat) (σ : St) (e : List Nat) :
    loop sys gs (n + 1) σ e =
      match runGroups gs ⟨σ, e, false⟩ with
      | none => none
      | some s =>
        if s.chg then loop sys gs n s.σ s.errs
        else if extChanged sys s.σ then loop sys gs n (extend sys s.σ) s.errs
        else some (s.σ, unresolved sys s.σ ++ s.errs) := by
  rfl

/-- errors are never cleared -/
theorem loop_errs (sys : Sys α) (gs : List Group) : ∀ (n : Nat) (σ : St) (e : List Nat) (τ : St) (e' : List Nat),
    loop sys gs n σ e = some (τ, e') → ∃ l, e' = l ++ e
  | 0, σ, e, τ, e', h => by
    simp [loop] at h
    exact ⟨_, h.2.symm⟩
  | n + 1, σ, e, τ, e', h => by
    rw [loop_succ] at h
    split at h
    · cases h
    · rename_i s hs
      obtain ⟨_, ⟨l, hl⟩, _⟩ := runGroups_mono gs _ s hs
      simp only at hl
      split at h
      · obtain ⟨l2, h2⟩ := loop_errs sys gs n _ _ τ e' h
        exact ⟨l2 ++ l, by rw [h2, hl]; simp⟩
      · split at h
        · obtain ⟨l2, h2⟩ := loop_errs sys gs n _ _ τ e' h
          exact ⟨l2 ++ l, by rw [h2, hl]; simp⟩
        · simp at h
          exact ⟨unresolved sys s.σ ++ l, by rw [← h.2, hl]; simp⟩

theorem loop_errs_nil {sys : Sys α} {gs : List Group} {n : Nat} {σ τ : St} {e : List Nat}
    (h : loop sys gs n σ e = some (τ, [])) : e = [] := by
  obtain ⟨l, hl⟩ := loop_errs sys gs n σ e τ [] h
  have := congrArg List.length hl
  simp at this
  exact List.eq_nil_of_length_eq_zero (by omega)

/-- set-once: whatever is known at some point of the loop keeps its value until the end -/
theorem loop_mono (sys : Sys α) (gs : List Group) : ∀ (n : Nat) (σ : St) (e : List Nat) (τ : St) (e' : List Nat),
    loop sys gs n σ e = some (τ, e') → σ.le τ
  | 0, σ, e, τ, e', h => by
    simp [loop] at h
    rw [h.1]; exact St.le_refl _
  | n + 1, σ, e, τ, e', h => by
    rw [loop_succ] at h
    split at h
    · cases h
    · rename_i s hs
      obtain ⟨hle, _, _⟩ := runGroups_mono gs _ s hs
      simp only at hle
      split at h
      · exact St.le_trans hle (loop_mono sys gs n _ _ τ e' h)
      · split at h
        · exact St.le_trans hle (St.le_trans (extend_mono sys s.σ) (loop_mono sys gs n _ _ τ e' h))
        · simp at h
          rw [← h.1]; exact hle

def StableAll (gs : List Group) (τ : St) : Prop := ∀ a ∈ allAtoms gs, Stable a τ

/-- what a successful run ends in: a state on which every atom is stable, nothing left to extend,
nothing unresolved -/
theorem loop_sound (sys : Sys α) (gs : List Group) (hne : sys.objs ≠ []) :
    ∀ (n : Nat) (σ : St) (e : List Nat) (τ : St),
    loop sys gs n σ e = some (τ, []) →
      StableAll gs τ ∧ extChanged sys τ = false ∧ unresolved sys τ = []
  | 0, σ, e, τ, h => by
    exfalso
    simp [loop] at h
    exact hne h.2.1
  | n + 1, σ, e, τ, h => by
    have he : e = [] := loop_errs_nil h
    subst he
    rw [loop_succ] at h
    split at h
    · cases h
    · rename_i s hs
      split at h
      · exact loop_sound sys gs hne n _ _ τ h
      · rename_i hc
        split at h
        · exact loop_sound sys gs hne n _ _ τ h
        · rename_i hx
          simp at h
          obtain ⟨h1, h2, h3⟩ := h
          have hc' : s.chg = false := by simpa using hc
          obtain ⟨hσ, hst⟩ := runGroups_quiet gs σ [] s hs hc' (by simp [h3])
          subst h1
          refine ⟨?_, by simpa using hx, h2⟩
          rw [hσ]; exact hst

/-! ### confluence -/

/-- the run runs out of fuel (`max_iter`) before it settles -/
inductive Exhausts (sys : Sys α) (gs : List Group) : Nat → St → List Nat → Prop
  | zero (σ e) : Exhausts sys gs 0 σ e
  | pass {n σ e s} : runGroups gs ⟨σ, e, false⟩ = some s → s.chg = true →
      Exhausts sys gs n s.σ s.errs → Exhausts sys gs (n + 1) σ e
  | ext {n σ e s} : runGroups gs ⟨σ, e, false⟩ = some s → s.chg = false → extChanged sys s.σ = true →
      Exhausts sys gs n (extend sys s.σ) s.errs → Exhausts sys gs (n + 1) σ e

/-- no atom of the list is `strict` -/
def NoStrict (gs : List Group) : Prop := ∀ a ∈ allAtoms gs, a.strict = false

theorem runGroups_ok {τ : St} : ∀ (gs : List Group) (s : PS), StableAll gs τ → NoStrict gs → s.σ.le τ →
    ∃ s', runGroups gs s = some s' ∧ s'.errs = s.errs
  | [], s, _, _, _ => ⟨s, rfl, rfl⟩
  | g :: gs, s, hst, hns, hle => by
    have hg : ∀ a ∈ g.atoms, Stable a τ := fun a ha => hst a (mem_allAtoms.2 ⟨g, by simp, ha⟩)
    have hr : ∀ a ∈ g.atoms, StrictReady a s.σ := fun a ha hs => by
      have := hns a (mem_allAtoms.2 ⟨g, by simp, ha⟩)
      rw [this] at hs; cases hs
    obtain ⟨σ', c', hrun⟩ := runGroup_ok g.caught g.atoms s.σ false hg hr hle
    have hle' : σ'.le τ := runGroup_le _ _ _ _ hg hle hrun
    have hst' : StableAll gs τ := fun a ha => by
      obtain ⟨g', hg', ha'⟩ := mem_allAtoms.1 ha
      exact hst a (mem_allAtoms.2 ⟨g', by simp [hg'], ha'⟩)
    have hns' : NoStrict gs := fun a ha => by
      obtain ⟨g', hg', ha'⟩ := mem_allAtoms.1 ha
      exact hns a (mem_allAtoms.2 ⟨g', by simp [hg'], ha'⟩)
    obtain ⟨s', h1, h2⟩ := runGroups_ok gs ⟨σ', s.errs, s.chg || c'⟩ hst' hns' hle'
    refine ⟨s', ?_, h2⟩
    rw [runGroups, hrun]
    simpa using h1

/-- two descriptions of the same system: same atoms, same extension step, same notion of "unresolved" -/
structure SameSys (sA sB : Sys α) (gA gB : List Group) : Prop where
  atoms : ∀ a, a ∈ allAtoms gA ↔ a ∈ allAtoms gB
  ext : ∀ σ, extend sA σ = extend sB σ
  extc : ∀ σ, extChanged sA σ = extChanged sB σ
  unres : ∀ σ, unresolved sA σ = [] ↔ unresolved sB σ = []
  objsA : sA.objs ≠ []
  noStrict : NoStrict gB

/-- the two runs have the same stable states above them -/
def SameClosure (gs : List Group) (a b : St) : Prop := ∀ q, StableAll gs q → (a.le q ↔ b.le q)

theorem SameClosure.pass {gs : List Group} {a b : St} {e : List Nat} {c : Bool} {s : PS}
    (h : SameClosure gs a b) (hs : runGroups gs ⟨a, e, c⟩ = some s) : SameClosure gs s.σ b := by
  intro q hq
  obtain ⟨hle, _, _⟩ := runGroups_mono gs _ s hs
  constructor
  · intro h1; exact (h q hq).1 (St.le_trans hle h1)
  · intro h1; exact runGroups_le gs _ s hq ((h q hq).2 h1) hs

theorem SameClosure.symm {gs : List Group} {a b : St} (h : SameClosure gs a b) : SameClosure gs b a :=
  fun q hq => (h q hq).symm

theorem SameClosure.refl (gs : List Group) (a : St) : SameClosure gs a a := fun _ _ => Iff.rfl

theorem stableAll_congr {gA gB : List Group} (h : ∀ a, a ∈ allAtoms gA ↔ a ∈ allAtoms gB) (q : St) :
    StableAll gA q ↔ StableAll gB q :=
  ⟨fun hq a ha => hq a ((h a).2 ha), fun hq a ha => hq a ((h a).1 ha)⟩

/-- A's continuation once it has reached a quiescent state `a` -/
def afterQuiet (sys : Sys α) (gs : List Group) (n : Nat) (a : St) : Option (St × List Nat) :=
  if extChanged sys a then loop sys gs n (extend sys a) [] else some (a, unresolved sys a ++ [])

theorem confluent_inner {sA sB : Sys α} {gA gB : List Group} (hs : SameSys sA sB gA gB) {τ : St} {nA : Nat} {a : St}
    (IH : ∀ (a b : St) (nB : Nat), SameClosure gA a b → loop sA gA nA a [] = some (τ, []) →
      loop sB gB nB b [] = some (τ, []) ∨ Exhausts sB gB nB b [])
    (hqa : StableAll gA a) (hA : afterQuiet sA gA nA a = some (τ, [])) :
    ∀ (nB : Nat) (b : St), b.le a → SameClosure gA a b →
      loop sB gB nB b [] = some (τ, []) ∨ Exhausts sB gB nB b []
  | 0, b, _, _ => Or.inr (Exhausts.zero _ _)
  | nB + 1, b, hle, hcl => by
    have hqaB : StableAll gB a := (stableAll_congr hs.atoms a).1 hqa
    obtain ⟨s, hrun, herr⟩ := runGroups_ok gB ⟨b, [], false⟩ hqaB hs.noStrict hle
    simp only at herr
    have hle' : s.σ.le a := runGroups_le gB _ s hqaB hle hrun
    have hcl' : SameClosure gA a s.σ := by
      intro q hq
      have hqB := (stableAll_congr hs.atoms q).1 hq
      obtain ⟨hm, _, _⟩ := runGroups_mono gB _ s hrun
      simp only at hm
      constructor
      · intro h1; exact runGroups_le gB _ s hqB ((hcl q hq).1 h1) hrun
      · intro h1; exact (hcl q hq).2 (St.le_trans hm h1)
    rw [loop_succ, hrun]
    by_cases hc : s.chg = true
    · simp only [hc, if_true]
      rw [herr]
      rcases confluent_inner hs IH hqa hA nB s.σ hle' hcl' with h | h
      · exact Or.inl h
      · exact Or.inr (Exhausts.pass hrun hc (by rw [herr]; exact h))
    · have hc' : s.chg = false := by simpa using hc
      obtain ⟨hσ, hst⟩ := runGroups_quiet gB b [] s hrun hc' (by simp [herr])
      have hstA : StableAll gA b := (stableAll_congr hs.atoms b).2 hst
      have hab : a = b := St.le_antisymm ((hcl b hstA).2 (St.le_refl b)) hle
      subst hab
      simp only [hc', Bool.false_eq_true, if_false]
      rw [hσ, herr]
      unfold afterQuiet at hA
      rw [← hs.extc a]
      by_cases hx : extChanged sA a = true
      · simp only [hx, if_true] at hA ⊢
        rw [← hs.ext a]
        rcases IH _ _ nB (SameClosure.refl gA _) hA with h | h
        · exact Or.inl h
        · refine Or.inr (Exhausts.ext hrun hc' ?_ ?_)
          · rw [hσ, ← hs.extc a]; exact hx
          · rw [hσ, herr, ← hs.ext a]; exact h
      · simp only [hx, Bool.false_eq_true, if_false] at hA ⊢
        left
        simp at hA
        obtain ⟨h1, h2⟩ := hA
        have := (hs.unres a).1 h2
        subst h1
        simp [this]

/-- **confluence**: if run A succeeds, run B (same atoms in any order, same extension function) ends in the
same state without errors — unless B's `max_iter` is too small for it to settle -/
theorem confluent {sA sB : Sys α} {gA gB : List Group} (hs : SameSys sA sB gA gB) {τ : St} :
    ∀ (nA : Nat) (a b : St) (nB : Nat), SameClosure gA a b → loop sA gA nA a [] = some (τ, []) →
      loop sB gB nB b [] = some (τ, []) ∨ Exhausts sB gB nB b []
  | 0, a, b, nB, _, h => by
    exfalso
    simp [loop] at h
    exact hs.objsA h.2
  | nA + 1, a, b, nB, hcl, h => by
    have IH := confluent hs (τ := τ) nA
    rw [loop_succ] at h
    split at h
    · cases h
    · rename_i s hrun
      split at h
      · -- A's pass changed something: same closure, continue with less fuel for A
        have he : s.errs = [] := loop_errs_nil h
        rw [he] at h
        exact IH s.σ b nB (hcl.pass hrun) h
      · rename_i hc
        have hc' : s.chg = false := by simpa using hc
        have he : s.errs = [] := by
          split at h
          · exact loop_errs_nil h
          · simp at h; exact h.2.2
        obtain ⟨hσ, hst⟩ := runGroups_quiet gA a [] s hrun hc' (by simp [he])
        have hle : b.le a := (hcl a hst).1 (St.le_refl a)
        have hA : afterQuiet sA gA nA a = some (τ, []) := by
          unfold afterQuiet
          rw [hσ, he] at h
          exact h
        exact confluent_inner hs IH hst hA nB b hle hcl

end Fdtdx.C26
