/- C23 helper lemmas: the masked planar dilations on the function view; soundness, growth and closure under
face adjacency; counting argument for the fixpoint loop. -/
import FdtdxLemmas.C23Basic
import FdtdxLemmas.C23Spec

namespace Fdtdx.C23

/-! ### function view of one dilation round -/

def sub1 (s : Shape) (m a : Img) : Img := fun i j k => inb s i j k && (m i j k && dilXY a i j k)
def sub2 (s : Shape) (m a : Img) : Img := fun i j k => inb s i j k && (m i j k && dilXZ a i j k)
def sub3 (s : Shape) (m a : Img) : Img := fun i j k => inb s i j k && (m i j k && dilYZ a i j k)
def stepI (s : Shape) (m a : Img) : Img := sub3 s m (sub2 s m (sub1 s m a))

theorem look_tab' (s : Shape) (f : Img) : look (tab s f) = fun i j k => inb s i j k && f i j k := by
  funext i j k; exact look_tab s f i j k

theorem look_step (s : Shape) (m a : Tab) : look (step s m a) = stepI s (look m) (look a) := by
  unfold step stepI
  simp only [look_tab']
  rfl

def Sub (a b : Img) : Prop := ∀ i j k, a i j k = true → b i j k = true
def Inside (s : Shape) (m a : Img) : Prop := ∀ i j k, a i j k = true → inb s i j k = true ∧ m i j k = true

theorem Sub.trans {a b c : Img} (h1 : Sub a b) (h2 : Sub b c) : Sub a c := fun i j k h => h2 i j k (h1 i j k h)

theorem sub1_inside (s m a) : Inside s m (sub1 s m a) := by
  intro i j k h; simp only [sub1, Bool.and_eq_true] at h; exact ⟨h.1, h.2.1⟩
theorem sub2_inside (s m a) : Inside s m (sub2 s m a) := by
  intro i j k h; simp only [sub2, Bool.and_eq_true] at h; exact ⟨h.1, h.2.1⟩
theorem sub3_inside (s m a) : Inside s m (sub3 s m a) := by
  intro i j k h; simp only [sub3, Bool.and_eq_true] at h; exact ⟨h.1, h.2.1⟩
theorem stepI_inside (s m a) : Inside s m (stepI s m a) := sub3_inside _ _ _

theorem sub1_ge {s m a} (h : Inside s m a) : Sub a (sub1 s m a) := by
  intro i j k ha; have := h i j k ha
  simp [sub1, dilXY, this.1, this.2, ha]
theorem sub2_ge {s m a} (h : Inside s m a) : Sub a (sub2 s m a) := by
  intro i j k ha; have := h i j k ha
  simp [sub2, dilXZ, this.1, this.2, ha]
theorem sub3_ge {s m a} (h : Inside s m a) : Sub a (sub3 s m a) := by
  intro i j k ha; have := h i j k ha
  simp [sub3, dilYZ, this.1, this.2, ha]

theorem stepI_ge {s m a} (h : Inside s m a) : Sub a (stepI s m a) :=
  (sub1_ge h).trans ((sub2_ge (sub1_inside s m a)).trans (sub3_ge (sub2_inside s m _)))

theorem sub1_le_stepI (s m a) : Sub (sub1 s m a) (stepI s m a) :=
  (sub2_ge (sub1_inside s m a)).trans (sub3_ge (sub2_inside s m _))

theorem sub2_le_stepI (s m a) : Sub (sub2 s m (sub1 s m a)) (stepI s m a) :=
  sub3_ge (sub2_inside s m _)

/-! ### soundness: a dilation only adds cells that are face-adjacent to present ones and lie in the mask -/

section sound
variable {s : Shape} {m seed : Img}

theorem sub1_sound {a : Img} (h : ∀ i j k, a i j k = true → Reach s m seed i j k) :
    ∀ i j k, sub1 s m a i j k = true → Reach s m seed i j k := by
  intro i j k hs
  simp only [sub1, dilXY, Bool.and_eq_true, Bool.or_eq_true, decide_eq_true_eq] at hs
  obtain ⟨hin, hm, hd⟩ := hs
  rcases hd with (((h0 | ⟨hp, h1⟩) | h2) | ⟨hp, h3⟩) | h4
  · exact h _ _ _ h0
  · exact .step (h _ _ _ h1) (Or.inl ⟨rfl, rfl, Or.inr (by omega)⟩) hin hm
  · exact .step (h _ _ _ h2) (Or.inl ⟨rfl, rfl, Or.inl rfl⟩) hin hm
  · exact .step (h _ _ _ h3) (Or.inr (Or.inl ⟨rfl, rfl, Or.inr (by omega)⟩)) hin hm
  · exact .step (h _ _ _ h4) (Or.inr (Or.inl ⟨rfl, rfl, Or.inl rfl⟩)) hin hm

theorem sub2_sound {a : Img} (h : ∀ i j k, a i j k = true → Reach s m seed i j k) :
    ∀ i j k, sub2 s m a i j k = true → Reach s m seed i j k := by
  intro i j k hs
  simp only [sub2, dilXZ, Bool.and_eq_true, Bool.or_eq_true, decide_eq_true_eq] at hs
  obtain ⟨hin, hm, hd⟩ := hs
  rcases hd with (((h0 | ⟨hp, h1⟩) | h2) | ⟨hp, h3⟩) | h4
  · exact h _ _ _ h0
  · exact .step (h _ _ _ h1) (Or.inl ⟨rfl, rfl, Or.inr (by omega)⟩) hin hm
  · exact .step (h _ _ _ h2) (Or.inl ⟨rfl, rfl, Or.inl rfl⟩) hin hm
  · exact .step (h _ _ _ h3) (Or.inr (Or.inr ⟨rfl, rfl, Or.inr (by omega)⟩)) hin hm
  · exact .step (h _ _ _ h4) (Or.inr (Or.inr ⟨rfl, rfl, Or.inl rfl⟩)) hin hm

theorem sub3_sound {a : Img} (h : ∀ i j k, a i j k = true → Reach s m seed i j k) :
    ∀ i j k, sub3 s m a i j k = true → Reach s m seed i j k := by
  intro i j k hs
  simp only [sub3, dilYZ, Bool.and_eq_true, Bool.or_eq_true, decide_eq_true_eq] at hs
  obtain ⟨hin, hm, hd⟩ := hs
  rcases hd with (((h0 | ⟨hp, h1⟩) | h2) | ⟨hp, h3⟩) | h4
  · exact h _ _ _ h0
  · exact .step (h _ _ _ h1) (Or.inr (Or.inl ⟨rfl, rfl, Or.inr (by omega)⟩)) hin hm
  · exact .step (h _ _ _ h2) (Or.inr (Or.inl ⟨rfl, rfl, Or.inl rfl⟩)) hin hm
  · exact .step (h _ _ _ h3) (Or.inr (Or.inr ⟨rfl, rfl, Or.inr (by omega)⟩)) hin hm
  · exact .step (h _ _ _ h4) (Or.inr (Or.inr ⟨rfl, rfl, Or.inl rfl⟩)) hin hm

theorem stepI_sound {a : Img} (h : ∀ i j k, a i j k = true → Reach s m seed i j k) :
    ∀ i j k, stepI s m a i j k = true → Reach s m seed i j k :=
  sub3_sound (sub2_sound (sub1_sound h))

end sound

/-! ### closure: a set inside the mask that one round does not enlarge is closed under face adjacency -/

theorem closed_of_fix {s : Shape} {m r : Img} (hin : Inside s m r) (hfix : Sub (stepI s m r) r)
    {i j k i' j' k' : Nat} (hr : r i j k = true) (hadj : Adj i j k i' j' k')
    (hb : inb s i' j' k' = true) (hm : m i' j' k' = true) : r i' j' k' = true := by
  apply hfix
  rcases hadj with ⟨rfl, rfl, h | h⟩ | ⟨rfl, rfl, h | h⟩ | ⟨rfl, rfl, h | h⟩
  · -- i = i' + 1
    subst h
    apply sub1_le_stepI
    simp [sub1, dilXY, hb, hm, hr]
  · subst h
    apply sub1_le_stepI
    simp [sub1, dilXY, hb, hm, hr]
  · subst h
    apply sub1_le_stepI
    simp [sub1, dilXY, hb, hm, hr]
  · subst h
    apply sub1_le_stepI
    simp [sub1, dilXY, hb, hm, hr]
  · subst h
    apply sub2_le_stepI
    have h1 := sub1_ge hin _ _ _ hr
    simp [sub2, dilXZ, hb, hm, h1]
  · subst h
    apply sub2_le_stepI
    have h1 := sub1_ge hin _ _ _ hr
    simp [sub2, dilXZ, hb, hm, h1]

theorem reach_le_fix {s : Shape} {m seed r : Img} (hin : Inside s m r) (hfix : Sub (stepI s m r) r)
    (hseed : ∀ i j k, inb s i j k = true → m i j k = true → seed i j k = true → r i j k = true) :
    ∀ i j k, Reach s m seed i j k → r i j k = true := by
  intro i j k h
  induction h with
  | base hb hm hs => exact hseed _ _ _ hb hm hs
  | step _ hadj hb hm ih => exact closed_of_fix hin hfix ih hadj hb hm

end Fdtdx.C23

namespace Fdtdx.C23

/-! ### counting cells: a strictly growing chain inside the index box has at most `cells s` links -/

def box (s : Shape) : Finset (Nat × Nat × Nat) := Finset.range s.nx ×ˢ Finset.range s.ny ×ˢ Finset.range s.nz

def count (s : Shape) (a : Img) : Nat := ((box s).filter fun c => a c.1 c.2.1 c.2.2 = true).card

theorem mem_box (s : Shape) (c : Nat × Nat × Nat) : c ∈ box s ↔ inb s c.1 c.2.1 c.2.2 = true := by
  simp [box, inb, and_assoc]

theorem count_le (s : Shape) (a : Img) : count s a ≤ cells s := by
  unfold count
  refine (Finset.card_filter_le _ _).trans ?_
  simp [box, cells, Nat.mul_assoc]

theorem count_lt {s : Shape} {a b : Img} (hab : Sub a b)
    (hne : ∃ i j k, inb s i j k = true ∧ a i j k ≠ b i j k) : count s a < count s b := by
  unfold count
  apply Finset.card_lt_card
  rw [Finset.ssubset_iff_of_subset]
  · obtain ⟨i, j, k, hin, hne⟩ := hne
    refine ⟨(i, j, k), ?_, ?_⟩
    · simp only [Finset.mem_filter, mem_box]
      refine ⟨hin, ?_⟩
      by_contra hb
      have : a i j k = false := by
        by_contra ha
        exact hb (hab i j k (by simpa using ha))
      apply hne; rw [this]; simpa using hb
    · simp only [Finset.mem_filter, mem_box, not_and]
      intro _ ha
      apply hne
      rw [ha, hab i j k ha]
  · intro c hc
    simp only [Finset.mem_filter] at hc ⊢
    exact ⟨hc.1, hab _ _ _ hc.2⟩

/-! ### the loop `iterate_until_unchanged` -/

structure FixSpec (s : Shape) (m a r : Img) : Prop where
  ge : Sub a r
  inside : Inside s m r
  fix : stepI s m r = r
  sound : ∀ seed : Img, (∀ i j k, a i j k = true → Reach s m seed i j k) →
    ∀ i j k, r i j k = true → Reach s m seed i j k

theorem eq_of_eqT {s : Shape} {a b : Tab} (h : eqT s a b = true)
    (ha : ∀ i j k, look a i j k = true → inb s i j k = true)
    (hb : ∀ i j k, look b i j k = true → inb s i j k = true) : look a = look b := by
  funext i j k
  by_cases hin : inb s i j k = true
  · exact (eqT_iff s a b).mp h i j k hin
  · have h1 : look a i j k = false := by
      by_contra hh; exact hin (ha i j k (by simpa using hh))
    have h2 : look b i j k = false := by
      by_contra hh; exact hin (hb i j k (by simpa using hh))
    rw [h1, h2]

theorem ne_of_not_eqT {s : Shape} {a b : Tab} (h : ¬ eqT s a b = true) :
    ∃ i j k, inb s i j k = true ∧ look a i j k ≠ look b i j k := by
  rw [eqT_iff] at h
  push Not at h
  exact h

theorem fixFrom_spec (s : Shape) (m : Tab) : ∀ (fuel : Nat) (a : Tab), Inside s (look m) (look a) →
    cells s < fuel + count s (look a) →
    FixSpec s (look m) (look a) (look (fixFrom s (step s m) fuel a)) := by
  intro fuel
  induction fuel with
  | zero =>
    intro a _ hc
    have := count_le s (look a)
    omega
  | succ fuel ih =>
    intro a hin hc
    have hb : look (step s m a) = stepI s (look m) (look a) := look_step s m a
    have hbin : Inside s (look m) (look (step s m a)) := by rw [hb]; exact stepI_inside _ _ _
    simp only [fixFrom]
    by_cases heq : eqT s a (step s m a) = true
    · rw [if_pos heq]
      have hab : look a = look (step s m a) :=
        eq_of_eqT heq (fun i j k h => (hin i j k h).1) (fun i j k h => (hbin i j k h).1)
      refine ⟨?_, hbin, ?_, ?_⟩
      · rw [← hab]; exact fun _ _ _ h => h
      · rw [← hab]; exact hb.symm.trans hab.symm
      · intro seed h; rw [← hab]; exact h
    · rw [if_neg heq]
      have hge : Sub (look a) (look (step s m a)) := by rw [hb]; exact stepI_ge hin
      have hlt := count_lt hge (ne_of_not_eqT heq)
      have := ih (step s m a) hbin (by omega)
      refine ⟨hge.trans this.ge, this.inside, this.fix, ?_⟩
      intro seed h
      apply this.sound seed
      rw [hb]
      exact stepI_sound h

end Fdtdx.C23
