/-
Helper lemmas for C35: algebra of the coefficient map and of its inversion (any field of characteristic 0),
scaling invariance of the pair quotient, the bridge from pair arithmetic to `ℂ`.
-/
import FdtdxModel.C35
import Mathlib.Tactic.Ring
import Mathlib.Tactic.FieldSimp
import Mathlib.Tactic.Linarith
import Mathlib.Algebra.Field.Basic
import Mathlib.Algebra.CharZero.Defs
import Mathlib.Analysis.Complex.Basic

namespace Fdtdx.C35
set_option linter.unusedSectionVars false

section field
variable {K : Type} [Field K] [CharZero K]

theorem two_ne : (2 : K) ≠ 0 := two_ne_zero

/-- the pair quotient does not see a common non-zero real factor -/
theorem cdiv_scale (s n1 n2 d1 d2 : K) (hs : s ≠ 0) :
    cdiv (s * n1, s * n2) (s * d1, s * d2) = cdiv (n1, n2) (d1, d2) := by
  have hss : s * s ≠ 0 := mul_ne_zero hs hs
  have e1 : s * d1 * (s * d1) + s * d2 * (s * d2) = (s * s) * (d1 * d1 + d2 * d2) := by ring
  have e2 : s * n1 * (s * d1) + s * n2 * (s * d2) = (s * s) * (n1 * d1 + n2 * d2) := by ring
  have e3 : s * n2 * (s * d1) - s * n1 * (s * d2) = (s * s) * (n2 * d1 - n1 * d2) := by ring
  simp only [cdiv, e1, e2, e3, mul_div_mul_left _ _ hss]

variable (u : Uni K) (dt : K)

theorem two_add_ne (hD : 1 + u.g * dt / 2 ≠ 0) : 2 + u.g * dt ≠ 0 := by
  intro h; apply hD; linear_combination h / 2

theorem coef_c1 : (coef u dt).c1 = (2 - (u.w0 * u.w0) * (dt * dt)) / (1 + u.g * dt / 2) := rfl
theorem coef_c2 : (coef u dt).c2 = -(1 - u.g * dt / 2) / (1 + u.g * dt / 2) := rfl
theorem coef_c3 : (coef u dt).c3 = (u.a * (dt * dt) - u.b * dt) / (1 + u.g * dt / 2) := rfl
theorem coef_c4 : (coef u dt).c4 = (u.b * dt) / (1 + u.g * dt / 2) := rfl

/-- `1 - c2 = 2 / D`: never zero, so the `safe_denom` substitution of the code is dead for real poles -/
theorem one_sub_c2 (hD : 1 + u.g * dt / 2 ≠ 0) : 1 - (coef u dt).c2 = 2 / (1 + u.g * dt / 2) := by
  rw [coef_c2, eq_div_iff hD, sub_mul, div_mul_cancel₀ _ hD]; ring

theorem one_sub_c2_ne (hD : 1 + u.g * dt / 2 ≠ 0) : 1 - (coef u dt).c2 ≠ 0 := by
  rw [one_sub_c2 u dt hD]; exact div_ne_zero two_ne hD

/-- `gamma dt = 2 (1 + c2) / (1 - c2)` -/
theorem inv_gdt (hD : 1 + u.g * dt / 2 ≠ 0) :
    2 * (1 + (coef u dt).c2) / (1 - (coef u dt).c2) = u.g * dt := by
  rw [one_sub_c2 u dt hD, coef_c2, div_div_eq_mul_div, mul_assoc, mul_div_cancel_left₀ _ two_ne, add_mul,
    div_mul_cancel₀ _ hD]
  ring

/-- `omega_0² dt² = 2 - c1 D` -/
theorem inv_w2 (hD : 1 + u.g * dt / 2 ≠ 0) :
    2 - (coef u dt).c1 * (1 + u.g * dt / 2) = (u.w0 * u.w0) * (dt * dt) := by
  rw [coef_c1, div_mul_cancel₀ _ hD]; ring

/-- `a dt² = (c3 + c4) D` -/
theorem inv_a (hD : 1 + u.g * dt / 2 ≠ 0) :
    ((coef u dt).c3 + (coef u dt).c4) * (1 + u.g * dt / 2) = u.a * (dt * dt) := by
  rw [coef_c3, coef_c4, ← add_div, div_mul_cancel₀ _ hD]; ring

/-- `b dt = c4 D` -/
theorem inv_b (hD : 1 + u.g * dt / 2 ≠ 0) :
    (coef u dt).c4 * (1 + u.g * dt / 2) = u.b * dt := by
  rw [coef_c4, div_mul_cancel₀ _ hD]

/-- a slot with `c3 = c4 = 0` belongs to a pole that does not couple -/
theorem uncoupled_of_c34 (hdt : dt ≠ 0) (hD : 1 + u.g * dt / 2 ≠ 0)
    (h3 : (coef u dt).c3 = 0) (h4 : (coef u dt).c4 = 0) : u.a = 0 ∧ u.b = 0 := by
  have hb : u.b * dt = 0 := by rw [← inv_b u dt hD, h4, zero_mul]
  have ha : u.a * (dt * dt) = 0 := by rw [← inv_a u dt hD, h3, h4]; ring
  have hb' : u.b = 0 := (mul_eq_zero.mp hb).resolve_right hdt
  have ha' : u.a = 0 := (mul_eq_zero.mp ha).resolve_right (mul_ne_zero hdt hdt)
  exact ⟨ha', hb'⟩

end field

/-! ### bridge to `ℂ` -/

/-- a model pair as a complex number -/
def toC (p : ℝ × ℝ) : ℂ := ⟨p.1, p.2⟩

theorem toC_cdiv (n d : ℝ × ℝ) : toC (cdiv n d) = toC n / toC d := by
  apply Complex.ext
  · simp only [toC, cdiv, Complex.div_re, Complex.normSq_apply]; rw [add_div]
  · simp only [toC, cdiv, Complex.div_im, Complex.normSq_apply]; rw [sub_div]

theorem toC_cadd (x y : ℝ × ℝ) : toC (cadd x y) = toC x + toC y := by
  apply Complex.ext <;> simp [toC, cadd]

theorem toC_mk (x y : ℝ) : toC (x, y) = (x : ℂ) + (y : ℂ) * Complex.I := by
  apply Complex.ext <;> simp [toC]

end Fdtdx.C35
