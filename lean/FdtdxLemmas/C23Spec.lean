/- C23 specification vocabulary: face adjacency and reachability inside a mask (the property's "connected
through face-adjacent material").  No reference to the dilation algorithm. -/
import FdtdxModel.C23

namespace Fdtdx.C23

/-- two cells share a face: they differ by exactly one in exactly one coordinate -/
def Adj (i j k i' j' k' : Nat) : Prop :=
  (j = j' ∧ k = k' ∧ (i = i' + 1 ∨ i' = i + 1)) ∨
  (i = i' ∧ k = k' ∧ (j = j' + 1 ∨ j' = j + 1)) ∨
  (i = i' ∧ j = j' ∧ (k = k' + 1 ∨ k' = k + 1))

/-- cells of the mask `m` (inside the index box of `s`) that can be reached from a seed cell lying in the mask
by a path of face-adjacent mask cells -/
inductive Reach (s : Shape) (m seed : Img) : Nat → Nat → Nat → Prop
  | base {i j k : Nat} : inb s i j k = true → m i j k = true → seed i j k = true → Reach s m seed i j k
  | step {i j k i' j' k' : Nat} : Reach s m seed i j k → Adj i j k i' j' k' →
      inb s i' j' k' = true → m i' j' k' = true → Reach s m seed i' j' k'

/-- bottom layer z = 0 -/
def bottomI : Img := fun _ _ k => decide (k = 0)

/-- material connected to the bottom layer -/
def Conn (s : Shape) (m : Img) (i j k : Nat) : Prop := Reach s m bottomI i j k

/-- background connected to the top or to one of the four sides -/
def OpenAir (s : Shape) (m : Img) (i j k : Nat) : Prop := Reach s (fun i j k => !m i j k) (faces s) i j k

theorem Reach.inb {s : Shape} {m seed : Img} {i j k : Nat} (h : Reach s m seed i j k) : inb s i j k = true := by
  cases h <;> assumption

theorem Reach.mask {s : Shape} {m seed : Img} {i j k : Nat} (h : Reach s m seed i j k) : m i j k = true := by
  cases h <;> assumption

end Fdtdx.C23
