/-
Summation by parts for Bloch-periodic halos: sesquilinear version of `FdtdxLemmas/Sums.lean`.
The right ghost cell is the first cell times `pp`, the left ghost the last cell times `pm`; the code sets
`pp = exp(i k L)` and `pm = conj pp`.  Only `star pm = pp` is needed.
-/
import FdtdxLemmas.Sums
import Mathlib.Algebra.Star.BigOperators
import Mathlib.Algebra.Star.Basic

open Finset
namespace Fdtdx
open Fdtdx.Yee Fdtdx.C01

section
variable {K : Type} [Field K] [StarRing K]

/-- zero halo, or wrap with conjugate ghost multipliers (periodic: pp = pm = 1; Bloch: pp = phase, pm = conj phase) -/
def BlochHalo (b : AxisBC K) : Prop := b.wrap = true → star b.pm = b.pp

theorem sum_next_prev_star (n : Nat) (b : AxisBC K) (hb : BlochHalo b) (e h : Nat → K) :
    ∑ i ∈ range n, star (h i) * next1 n b e i = ∑ i ∈ range n, e i * star (prev1 n b h i) := by
  cases n with
  | zero => simp
  | succ m =>
    have h1 : ∑ i ∈ range (m + 1), star (h i) * next1 (m + 1) b e i
        = ∑ i ∈ range m, star (h i) * e (i + 1) + star (h m) * (if b.wrap then e 0 * b.pp else 0) := by
      rw [sum_range_succ]; congr 1
      · apply sum_congr rfl; intro i hi
        have : i + 1 < m + 1 := by have := mem_range.mp hi; omega
        simp [next1, this]
      · simp [next1]
    have h2 : ∑ i ∈ range (m + 1), e i * star (prev1 (m + 1) b h i)
        = ∑ i ∈ range m, e (i + 1) * star (h i) + e 0 * star (if b.wrap then h m * b.pm else 0) := by
      rw [sum_range_succ']; simp [prev1]
    rw [h1, h2]
    have hs : ∑ i ∈ range m, star (h i) * e (i + 1) = ∑ i ∈ range m, e (i + 1) * star (h i) :=
      sum_congr rfl fun i _ => mul_comm _ _
    rw [hs]
    by_cases hw : b.wrap = true
    · have hp := hb hw
      simp only [hw, if_true, star_mul', hp]
      ring
    · simp [hw]

/-- vanishing residue, sesquilinear form -/
theorem sbp_residue_star (n : Nat) (b : AxisBC K) (hb : BlochHalo b) (e h : Nat → K) :
    ∑ i ∈ range n, (star (h i) * (next1 n b e i - e i) + e i * (star (h i) - star (prev1 n b h i))) = 0 := by
  have := sum_next_prev_star n b hb e h
  have expand : ∀ i, star (h i) * (next1 n b e i - e i) + e i * (star (h i) - star (prev1 n b h i))
      = star (h i) * next1 n b e i - e i * star (prev1 n b h i) := fun i => by ring
  simp only [expand, sum_sub_distrib, this, sub_self]

theorem residue_z_star (nx ny nz : Nat) (b : AxisBC K) (hb : BlochHalo b) (a : Nat → Nat → K) (h e : F3 K) :
    sum3 nx ny nz (fun i j k => a i j * (star (h i j k) * (next1 nz b (fun k' => e i j k') k - e i j k)
        + e i j k * (star (h i j k) - star (prev1 nz b (fun k' => h i j k') k)))) = 0 := by
  rw [sum3_eq]
  refine sum_eq_zero fun i _ => sum_eq_zero fun j _ => ?_
  rw [← mul_sum, sbp_residue_star nz b hb (fun k' => e i j k') (fun k' => h i j k'), mul_zero]

theorem residue_y_star (nx ny nz : Nat) (b : AxisBC K) (hb : BlochHalo b) (a : Nat → Nat → K) (h e : F3 K) :
    sum3 nx ny nz (fun i j k => a i k * (star (h i j k) * (next1 ny b (fun j' => e i j' k) j - e i j k)
        + e i j k * (star (h i j k) - star (prev1 ny b (fun j' => h i j' k) j)))) = 0 := by
  rw [sum3_eq]
  refine sum_eq_zero fun i _ => ?_
  rw [sum_comm]
  refine sum_eq_zero fun k _ => ?_
  rw [← mul_sum, sbp_residue_star ny b hb (fun j' => e i j' k) (fun j' => h i j' k), mul_zero]

theorem residue_x_star (nx ny nz : Nat) (b : AxisBC K) (hb : BlochHalo b) (a : Nat → Nat → K) (h e : F3 K) :
    sum3 nx ny nz (fun i j k => a j k * (star (h i j k) * (next1 nx b (fun i' => e i' j k) i - e i j k)
        + e i j k * (star (h i j k) - star (prev1 nx b (fun i' => h i' j k) i)))) = 0 := by
  rw [sum3_eq, sum_comm]
  refine sum_eq_zero fun j _ => ?_
  rw [sum_comm]
  refine sum_eq_zero fun k _ => ?_
  rw [← mul_sum, sbp_residue_star nx b hb (fun i' => e i' j k) (fun i' => h i' j k), mul_zero]

end
end Fdtdx
