/-
The forward-difference curl (`curl_E`) and the backward-difference curl (`curl_H`) of the Yee model are mutual
adjoints for the staggered-volume pairings, on any grid shape, for any mix of zero and periodic halos and any
metric (non-uniform widths).
-/
import FdtdxLemmas.Sums

open Finset
namespace Fdtdx
open Fdtdx.Yee Fdtdx.C01

section
variable {K : Type} [CommRing K]

/-- the widths `W` are those of the metric scales of `cf`: `w·sf = ref`, `d·sb = ref` on every axis -/
structure MetricOK (cf : Cfg K) (W : Widths K) (ref : K) : Prop where
  fx : ∀ i, W.wx i * cf.sfx i = ref
  fy : ∀ j, W.wy j * cf.sfy j = ref
  fz : ∀ k, W.wz k * cf.sfz k = ref
  bx : ∀ i, W.dx i * cf.sbx i = ref
  by_ : ∀ j, W.dy j * cf.sby j = ref
  bz : ∀ k, W.dz k * cf.sbz k = ref

structure HalosReal (cf : Cfg K) : Prop where
  x : RealHalo cf.bx
  y : RealHalo cf.by_
  z : RealHalo cf.bz

/-- the pointwise algebra behind the adjointness: integrand of ⟨H, curlE G⟩ minus integrand of ⟨curlH H, G⟩
is `ref` times six summation-by-parts residues -/
theorem alg (ref dx dy dz wx wy wz sfx sfy sfz sbx sby sbz Hx Hy Hz Gx Gy Gz
    NyGz NzGy NzGx NxGz NxGy NyGx PyHz PzHy PzHx PxHz PxHy PyHx : K)
    (h1 : wx * sfx = ref) (h2 : wy * sfy = ref) (h3 : wz * sfz = ref)
    (h4 : dx * sbx = ref) (h5 : dy * sby = ref) (h6 : dz * sbz = ref) :
    (dx * wy * wz * (Hx * ((NyGz - Gz) * sfy - (NzGy - Gy) * sfz))
      + wx * dy * wz * (Hy * ((NzGx - Gx) * sfz - (NxGz - Gz) * sfx))
      + wx * wy * dz * (Hz * ((NxGy - Gy) * sfx - (NyGx - Gx) * sfy)))
    - (wx * dy * dz * (((Hz - PyHz) * sby - (Hy - PzHy) * sbz) * Gx)
      + dx * wy * dz * (((Hx - PzHx) * sbz - (Hz - PxHz) * sbx) * Gy)
      + dx * dy * wz * (((Hy - PxHy) * sbx - (Hx - PyHx) * sby) * Gz))
    = ref * (dx * wz) * (Hx * (NyGz - Gz) + Gz * (Hx - PyHx))
      - ref * (dx * wy) * (Hx * (NzGy - Gy) + Gy * (Hx - PzHx))
      + ref * (wx * dy) * (Hy * (NzGx - Gx) + Gx * (Hy - PzHy))
      - ref * (dy * wz) * (Hy * (NxGz - Gz) + Gz * (Hy - PxHy))
      + ref * (wy * dz) * (Hz * (NxGy - Gy) + Gy * (Hz - PxHz))
      - ref * (wx * dz) * (Hz * (NyGx - Gx) + Gx * (Hz - PyHz)) := by
  linear_combination
    (dx * wz * Hx * (NyGz - Gz) - wx * dz * Hz * (NyGx - Gx)) * h2
    + (wx * dy * Hy * (NzGx - Gx) - dx * wy * Hx * (NzGy - Gy)) * h3
    + (wy * dz * Hz * (NxGy - Gy) - dy * wz * Hy * (NxGz - Gz)) * h1
    + (dx * wz * Gz * (Hx - PyHx) - wx * dz * Gx * (Hz - PyHz)) * h5
    + (wx * dy * Gx * (Hy - PzHy) - dx * wy * Gy * (Hx - PzHx)) * h6
    + (wy * dz * Gy * (Hz - PxHz) - dy * wz * Gz * (Hy - PxHy)) * h4

/-- **curl adjointness**: ⟨H, curlE G⟩_wH = ⟨curlH H, G⟩_wE for every grid shape, every zero/periodic halo mix
and every metric. -/
theorem curl_adjoint (cf : Cfg K) (W : Widths K) (ref : K) (hm : MetricOK cf W ref) (hh : HalosReal cf)
    (H G : V3 K) :
    pairH cf W H (curlE cf G) = pairE cf W (curlH cf H) G := by
  rw [← sub_eq_zero]
  unfold pairH pairE
  rw [← sum3_sub]
  have key : ∀ i j k,
      (W.dx i * W.wy j * W.wz k * (H.x i j k * (curlE cf G).x i j k)
        + W.wx i * W.dy j * W.wz k * (H.y i j k * (curlE cf G).y i j k)
        + W.wx i * W.wy j * W.dz k * (H.z i j k * (curlE cf G).z i j k))
      - (W.wx i * W.dy j * W.dz k * ((curlH cf H).x i j k * G.x i j k)
        + W.dx i * W.wy j * W.dz k * ((curlH cf H).y i j k * G.y i j k)
        + W.dx i * W.dy j * W.wz k * ((curlH cf H).z i j k * G.z i j k))
      = ref * (W.dx i * W.wz k) * (H.x i j k * (next1 cf.ny cf.by_ (fun j' => G.z i j' k) j - G.z i j k)
            + G.z i j k * (H.x i j k - prev1 cf.ny cf.by_ (fun j' => H.x i j' k) j))
        - ref * (W.dx i * W.wy j) * (H.x i j k * (next1 cf.nz cf.bz (fun k' => G.y i j k') k - G.y i j k)
            + G.y i j k * (H.x i j k - prev1 cf.nz cf.bz (fun k' => H.x i j k') k))
        + ref * (W.wx i * W.dy j) * (H.y i j k * (next1 cf.nz cf.bz (fun k' => G.x i j k') k - G.x i j k)
            + G.x i j k * (H.y i j k - prev1 cf.nz cf.bz (fun k' => H.y i j k') k))
        - ref * (W.dy j * W.wz k) * (H.y i j k * (next1 cf.nx cf.bx (fun i' => G.z i' j k) i - G.z i j k)
            + G.z i j k * (H.y i j k - prev1 cf.nx cf.bx (fun i' => H.y i' j k) i))
        + ref * (W.wy j * W.dz k) * (H.z i j k * (next1 cf.nx cf.bx (fun i' => G.y i' j k) i - G.y i j k)
            + G.y i j k * (H.z i j k - prev1 cf.nx cf.bx (fun i' => H.z i' j k) i))
        - ref * (W.wx i * W.dz k) * (H.z i j k * (next1 cf.ny cf.by_ (fun j' => G.x i j' k) j - G.x i j k)
            + G.x i j k * (H.z i j k - prev1 cf.ny cf.by_ (fun j' => H.z i j' k) j)) := by
    intro i j k
    simp only [curlE, curlH]
    exact alg ref (W.dx i) (W.dy j) (W.dz k) (W.wx i) (W.wy j) (W.wz k) (cf.sfx i) (cf.sfy j) (cf.sfz k)
      (cf.sbx i) (cf.sby j) (cf.sbz k) _ _ _ _ _ _ _ _ _ _ _ _ _ _ _ _ _ _
      (hm.fx i) (hm.fy j) (hm.fz k) (hm.bx i) (hm.by_ j) (hm.bz k)
  rw [sum3_congr _ _ _ _ _ (fun i j k _ _ _ => key i j k)]
  -- split the six residues and kill each with the summation-by-parts lemma of its axis
  have r1 := residue_y cf.nx cf.ny cf.nz cf.by_ hh.y (fun i k => ref * (W.dx i * W.wz k)) H.x G.z
  have r2 := residue_z cf.nx cf.ny cf.nz cf.bz hh.z (fun i j => ref * (W.dx i * W.wy j)) H.x G.y
  have r3 := residue_z cf.nx cf.ny cf.nz cf.bz hh.z (fun i j => ref * (W.wx i * W.dy j)) H.y G.x
  have r4 := residue_x cf.nx cf.ny cf.nz cf.bx hh.x (fun j k => ref * (W.dy j * W.wz k)) H.y G.z
  have r5 := residue_x cf.nx cf.ny cf.nz cf.bx hh.x (fun j k => ref * (W.wy j * W.dz k)) H.z G.y
  have r6 := residue_y cf.nx cf.ny cf.nz cf.by_ hh.y (fun i k => ref * (W.wx i * W.dz k)) H.z G.x
  simp only [sum3_sub, sum3_add] at *
  rw [r1, r2, r3, r4, r5, r6]
  ring

end
end Fdtdx
