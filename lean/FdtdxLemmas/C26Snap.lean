/-
The snapping functions of `FdtdxModel/C26.lean` over an ordered field: `argminAbs` returns an index of a
nearest element ("nearest-edge snapping"), first one on ties.
-/
import FdtdxModel.C26
import Mathlib.Algebra.Order.Field.Basic
import Mathlib.Algebra.Order.Group.Abs
import Mathlib.Tactic.Linarith

namespace Fdtdx.C26

variable {K : Type} [Field K] [LinearOrder K] [IsStrictOrderedRing K]

theorem absv_eq_abs (x : K) : absv x = |x| := by
  unfold absv
  split
  · rename_i h; exact (abs_of_neg h).symm
  · rename_i h; exact (abs_of_nonneg (not_lt.1 h)).symm

/-- invariant of the scan: `bi` is the first index of the minimum among the elements seen so far -/
theorem argminAux_spec (c : K) (full : List K) : ∀ (xs : List K) (i bi : Nat) (bv : K),
    full.drop i = xs → bi < i → i ≤ full.length → bv = |full.getD bi 0 - c| →
    (∀ j, j < i → bv ≤ |full.getD j 0 - c|) → (∀ j, j < bi → bv < |full.getD j 0 - c|) →
    let r := argminAux c xs i bi bv
    r < full.length ∧ (∀ j, j < full.length → |full.getD r 0 - c| ≤ |full.getD j 0 - c|) ∧
      (∀ j, j < r → |full.getD r 0 - c| < |full.getD j 0 - c|)
  | [], i, bi, bv, hd, hbi, hi, hbv, hmin, hfirst => by
    have hlen : full.length ≤ i := by
      by_contra hc
      have : (full.drop i).length = full.length - i := List.length_drop
      rw [hd] at this; simp at this; omega
    simp only [argminAux]
    refine ⟨by omega, fun j hj => ?_, fun j hj => ?_⟩
    · rw [← hbv]; exact hmin j (by omega)
    · rw [← hbv]; exact hfirst j hj
  | x :: xs, i, bi, bv, hd, hbi, hi, hbv, hmin, hfirst => by
    have hil : i < full.length := by
      by_contra hc
      have : full.drop i = [] := List.drop_eq_nil_of_le (by omega)
      rw [this] at hd; cases hd
    have hx : full.getD i 0 = x := by
      have : (full.drop i)[0]? = some x := by rw [hd]; rfl
      rw [List.getElem?_drop] at this
      simp only [Nat.add_zero] at this
      simp [List.getD, this]
    have hd' : full.drop (i + 1) = xs := by
      have := congrArg List.tail hd
      simpa [List.tail_drop] using this
    simp only [argminAux]
    rw [absv_eq_abs]
    split
    · rename_i hlt
      refine argminAux_spec c full xs (i + 1) i _ hd' (by omega) (by omega) (by rw [hx]) ?_ ?_
      · intro j hj
        rcases Nat.lt_succ_iff_lt_or_eq.1 hj with h | h
        · exact le_trans (le_of_lt hlt) (hmin j h)
        · subst h; rw [hx]
      · intro j hj
        exact lt_of_lt_of_le hlt (hmin j hj)
    · rename_i hge
      refine argminAux_spec c full xs (i + 1) bi bv hd' (by omega) (by omega) hbv ?_ hfirst
      intro j hj
      rcases Nat.lt_succ_iff_lt_or_eq.1 hj with h | h
      · exact hmin j h
      · subst h; rw [hx]; exact not_lt.1 hge

/-- **nearest snapping**: `argminAbs xs c` is the first index whose element is closest to `c` -/
theorem argminAbs_nearest (xs : List K) (c : K) (hne : xs ≠ []) :
    argminAbs xs c < xs.length ∧
    (∀ j, j < xs.length → |xs.getD (argminAbs xs c) 0 - c| ≤ |xs.getD j 0 - c|) ∧
    (∀ j, j < argminAbs xs c → |xs.getD (argminAbs xs c) 0 - c| < |xs.getD j 0 - c|) := by
  cases xs with
  | nil => exact absurd rfl hne
  | cons x rest =>
    simp only [argminAbs]
    rw [absv_eq_abs]
    have := argminAux_spec c (x :: rest) rest 1 0 |x - c| (by simp) (by omega) (by simp) (by simp)
      (fun j hj => by have : j = 0 := by omega
                      subst this; simp) (fun j hj => by omega)
    exact this

/-- `coord_to_index(…, snap="nearest")` returns the index of a grid edge nearest to the coordinate -/
theorem coordToIndex_nearest (g : Grid K) (ax : Nat) (c : K) (hne : g.edges ax ≠ []) :
    ∃ i : Nat, coordToIndex g ax c = (i : Int) ∧ i < (g.edges ax).length ∧
      ∀ j, j < (g.edges ax).length → |getE (g.edges ax) i - c| ≤ |getE (g.edges ax) j - c| := by
  obtain ⟨h1, h2, _⟩ := argminAbs_nearest (g.edges ax) c hne
  exact ⟨argminAbs (g.edges ax) c, rfl, h1, h2⟩

end Fdtdx.C26
