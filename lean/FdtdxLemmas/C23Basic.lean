/- C23 helper lemmas: function view of materialised arrays, cell-wise equality test. -/
import FdtdxModel.C23
import Mathlib.Data.Finset.Card
import Mathlib.Data.Finset.Prod
import Mathlib.Tactic.Linarith

namespace Fdtdx.C23

theorem row_getD {α : Type} (n : Nat) (f : Nat → α) (d : α) (i : Nat) :
    (row n f).getD i d = if i < n then f i else d := by
  unfold row
  by_cases h : i < n
  · simp [Array.getD, h]
  · simp [Array.getD, h]

theorem look_tab (s : Shape) (f : Img) (i j k : Nat) :
    look (tab s f) i j k = (inb s i j k && f i j k) := by
  unfold look tab inb
  rw [row_getD]
  by_cases hi : i < s.nx
  · simp only [hi, if_true]
    rw [row_getD]
    by_cases hj : j < s.ny
    · simp only [hj, if_true]
      rw [row_getD]
      by_cases hk : k < s.nz <;> simp [hk]
    · simp [hj]
  · simp [hi]

theorem allCells_iff (s : Shape) (p : Img) :
    allCells s p = true ↔ ∀ i j k, inb s i j k = true → p i j k = true := by
  unfold allCells inb
  simp only [List.all_eq_true, List.mem_range, Bool.and_eq_true, decide_eq_true_eq]
  constructor
  · intro h i j k ⟨⟨hi, hj⟩, hk⟩; exact h i hi j hj k hk
  · intro h i hi j hj k hk; exact h i j k ⟨⟨hi, hj⟩, hk⟩

theorem eqT_iff (s : Shape) (a b : Tab) :
    eqT s a b = true ↔ ∀ i j k, inb s i j k = true → look a i j k = look b i j k := by
  unfold eqT
  rw [allCells_iff]
  simp

end Fdtdx.C23
