/-
Helper lemmas for C05 / C06 / C07: the bounded while loop of `FdtdxModel/C05.lean` and Python's `round`.
-/
import FdtdxModel.C05
import Mathlib.Tactic.Ring
import Mathlib.Tactic.Linarith
import Mathlib.Logic.Function.Iterate

namespace Fdtdx.C05

/-! ### Python `round` of a rational -/

/-- `|round(n/d) - n/d| ≤ 1/2`, multiplied out -/
theorem roundHalfEven_bounds (n d : Nat) (hd : 0 < d) :
    2 * (d * roundHalfEven n d) ≤ 2 * n + d ∧ 2 * n ≤ 2 * (d * roundHalfEven n d) + d := by
  have h := Nat.div_add_mod n d
  have hr := Nat.mod_lt n hd
  have hs : d * (n / d + 1) = d * (n / d) + d := Nat.mul_succ _ _
  unfold roundHalfEven
  split
  · omega
  · split
    · rw [hs]; omega
    · split
      · omega
      · rw [hs]; omega

/-- an exact quotient is its own rounding -/
theorem roundHalfEven_mul (q d : Nat) (hd : 0 < d) : roundHalfEven (d * q) d = q := by
  unfold roundHalfEven
  rw [Nat.mul_mod_right, Nat.mul_div_cancel_left _ hd]
  simp [hd]

theorem roundHalfEven_zero (d : Nat) (hd : 0 < d) : roundHalfEven 0 d = 0 := by
  have := roundHalfEven_mul 0 d hd
  simpa using this

/-- `round` is monotone (weakly) in the numerator -/
theorem roundHalfEven_mono (n m d : Nat) (hd : 0 < d) (h : n ≤ m) : roundHalfEven n d ≤ roundHalfEven m d := by
  -- n = d q1 + r1, m = d q2 + r2.  If q1 < q2 then R n ≤ q1 + 1 ≤ q2 ≤ R m.  If q1 = q2 then r1 ≤ r2 and the
  -- three-way case split is monotone in r.
  have h1 := Nat.div_add_mod n d
  have h2 := Nat.div_add_mod m d
  have hr1 := Nat.mod_lt n hd
  have hr2 := Nat.mod_lt m hd
  have hq : n / d ≤ m / d := Nat.div_le_div_right h
  have hlo : ∀ x, x / d ≤ roundHalfEven x d := by
    intro x; unfold roundHalfEven; split
    · exact Nat.le_refl _
    · split
      · omega
      · split <;> omega
  have hhi : ∀ x, roundHalfEven x d ≤ x / d + 1 := by
    intro x; unfold roundHalfEven; split
    · omega
    · split
      · omega
      · split <;> omega
  rcases Nat.lt_or_ge (n / d) (m / d) with hlt | hge
  · calc roundHalfEven n d ≤ n / d + 1 := hhi n
      _ ≤ m / d := hlt
      _ ≤ roundHalfEven m d := hlo m
  · have heq : n / d = m / d := Nat.le_antisymm hq hge
    have hrr : n % d ≤ m % d := by
      rw [heq] at h1
      have : d * (m / d) + n % d ≤ d * (m / d) + m % d := by omega
      omega
    unfold roundHalfEven
    rw [heq]
    split_ifs <;> omega

/-! ### the bounded while loop -/

section loop
variable {τ : Type}

theorem whileLoop_zero (cond : τ → Bool) (body : τ → τ) (s : τ) : whileLoop cond body 0 s = s := rfl

theorem whileLoop_succ (cond : τ → Bool) (body : τ → τ) (m : Nat) (s : τ) :
    whileLoop cond body (m + 1) s = if cond s then whileLoop cond body m (body s) else s := rfl

/-- a loop whose condition is false at the start does nothing -/
theorem whileLoop_of_false (cond : τ → Bool) (body : τ → τ) (m : Nat) (s : τ) (h : cond s = false) :
    whileLoop cond body m s = s := by
  cases m with
  | zero => rfl
  | succ m => rw [whileLoop_succ, h]; simp

/-- number of iterations the loop performs: first `j < m` with the condition false at `body^[j] s`, else `m` -/
def iterCount (cond : τ → Bool) (body : τ → τ) : Nat → τ → Nat
  | 0, _ => 0
  | m + 1, s => if cond s then iterCount cond body m (body s) + 1 else 0

theorem iterCount_le (cond : τ → Bool) (body : τ → τ) (m : Nat) (s : τ) : iterCount cond body m s ≤ m := by
  induction m generalizing s with
  | zero => exact Nat.le_refl _
  | succ m ih =>
    unfold iterCount
    split
    · have := ih (body s); omega
    · omega

/-- the loop is `body` iterated `iterCount` times -/
theorem whileLoop_eq_iterate (cond : τ → Bool) (body : τ → τ) (m : Nat) (s : τ) :
    whileLoop cond body m s = body^[iterCount cond body m s] s := by
  induction m generalizing s with
  | zero => rfl
  | succ m ih =>
    rw [whileLoop_succ]; unfold iterCount
    split
    · rw [ih, Function.iterate_succ_apply]
    · rfl

/-- every state visited before the loop stopped satisfied the condition -/
theorem iterCount_cond_true (cond : τ → Bool) (body : τ → τ) (m : Nat) (s : τ) (j : Nat)
    (hj : j < iterCount cond body m s) : cond (body^[j] s) = true := by
  induction m generalizing s j with
  | zero => simp [iterCount] at hj
  | succ m ih =>
    unfold iterCount at hj
    split at hj
    · rename_i hc
      cases j with
      | zero => simpa using hc
      | succ j =>
        rw [Function.iterate_succ_apply]
        exact ih (body s) j (by omega)
    · omega

/-- the loop stopped because the condition became false, or because the iteration bound was reached -/
theorem iterCount_stop (cond : τ → Bool) (body : τ → τ) (m : Nat) (s : τ) :
    iterCount cond body m s = m ∨ cond (body^[iterCount cond body m s] s) = false := by
  induction m generalizing s with
  | zero => left; rfl
  | succ m ih =>
    unfold iterCount
    split
    · rcases ih (body s) with h | h
      · left; omega
      · right; rw [Function.iterate_succ_apply]; exact h
    · rename_i hc
      right; simpa using hc

/-- characterisation: `c` is the iteration count iff `c ≤ m`, the condition holds at the first `c` states and
(`c = m` or the condition fails at state `c`) -/
theorem iterCount_unique (cond : τ → Bool) (body : τ → τ) (m : Nat) (s : τ) (c : Nat) (hc : c ≤ m)
    (htrue : ∀ j, j < c → cond (body^[j] s) = true) (hstop : c = m ∨ cond (body^[c] s) = false) :
    iterCount cond body m s = c := by
  have hle := iterCount_le cond body m s
  rcases Nat.lt_trichotomy (iterCount cond body m s) c with h | h | h
  · rcases iterCount_stop cond body m s with h' | h'
    · omega
    · have := htrue _ h; rw [this] at h'; exact Bool.noConfusion h'
  · exact h
  · rcases hstop with h' | h'
    · omega
    · have := iterCount_cond_true cond body m s c h; rw [this] at h'; exact Bool.noConfusion h'

end loop

/-! ### time loops: the condition only looks at the step counter -/

section time
variable {σ : Type}

theorem step_iterate_fst (body : Nat → σ → σ) (n : Nat) (s : Nat × σ) : ((step body)^[n] s).1 = s.1 + n := by
  induction n generalizing s with
  | zero => rfl
  | succ n ih => rw [Function.iterate_succ_apply, ih]; simp [step]; omega

/-- a loop `while hi > t` with at least `hi - t` allowed iterations runs exactly to `hi` -/
theorem whileLoop_until (body : Nat → σ → σ) (hi m : Nat) (s : Nat × σ) (hm : hi - s.1 ≤ m) :
    whileLoop (fun s => decide (hi > s.1)) (step body) m s = (step body)^[hi - s.1] s := by
  rw [whileLoop_eq_iterate]
  congr 1
  apply iterCount_unique
  · exact hm
  · intro j hj
    rw [step_iterate_fst]; simp; omega
  · by_cases h : hi - s.1 = m
    · left; exact h
    · right; rw [step_iterate_fst]; simp; omega

end time

end Fdtdx.C05
