/-
C19 — model of `fdtdx.objects.device.parameters.discretization.ClosestIndex.__call__` and of
`fdtdx.core.jax.ste.straight_through_estimator`.

Mirrors (after the `fix:` commit recorded in props/C19.findings.json):
  ClosestIndex.__call__, `mapping_from_inverse_permittivities=False`:
      discrete = jnp.clip(jnp.round(arr), 0, n_materials - 1)            → `closestRound`
      (`jnp.round` = round-half-to-even, modelled by `roundHalfEven` on top of a floor function)
  ClosestIndex.__call__, `mapping_from_inverse_permittivities=True` (isotropic / diagonal sets):
      table   = 1 / compute_allowed_permittivities(materials)            (n_materials, n_components),
                materials ordered by ascending permittivity (the harness passes the table in that order)
      dist    = |arr[..., None, None] - table|.sum(-1)                    → `dist`
      discrete = jnp.argmin(dist, -1)  (first minimiser)                  → `argmin`, `closestInv`
  both: the transform acts voxel-wise, the output has the input's shape  → `Arr`, `transformRound/Inv`
  straight_through_estimator(x, y) = x - stop_gradient(x) + stop_gradient(y) → `ste`, with dual numbers
      (`Dual`: value + tangent, `Dual.sg` drops the tangent) as the model of forward-mode differentiation.

Simplified / not modelled: NaN inputs (`argmin` treats NaN as minimal, `round(NaN)=NaN`); the fully
anisotropic table (3x3 matrix inverse) is only observed on the implementation side by K.

`AsFound` keeps the behaviour of the pinned tree for isotropic sets: `arr[..., None]` against the
`(n,1)` table lines the material axis up with the LAST ARRAY AXIS, and the argmin runs over an axis of
length one.
-/
import FdtdxModel.Proto
namespace Fdtdx.C19

/-! ### integer rounding branch -/

/-- `jnp.clip(r, 0, n-1)` = `minimum(maximum(r, 0), n-1)` on integers -/
def clipI (r : Int) (n : Nat) : Int := min (max r 0) ((n : Int) - 1)

/-- `jnp.round` (round half to even) built from a floor function `floorI` and the embedding `cast` -/
def roundHalfEven {α : Type} [Sub α] [Div α] [LT α] [DecidableLT α] [OfNat α 1] [OfNat α 2]
    (floorI : α → Int) (cast : Int → α) (x : α) : Int :=
  let f := floorI x
  let d := x - cast f
  if d < 1 / 2 then f
  else if 1 / 2 < d then f + 1
  else if f % 2 = 0 then f else f + 1

/-- one voxel of the default branch -/
def closestRound {α : Type} [Sub α] [Div α] [LT α] [DecidableLT α] [OfNat α 1] [OfNat α 2]
    (floorI : α → Int) (cast : Int → α) (n : Nat) (x : α) : Int :=
  clipI (roundHalfEven floorI cast x) n

/-! ### nearest inverse permittivity branch -/

/-- `jnp.abs(a - b)` -/
def absDiff {α : Type} [Sub α] [Neg α] [LT α] [DecidableLT α] [OfNat α 0] (a b : α) : α :=
  let d := a - b
  if d < 0 then -d else d

/-- `|x - row|.sum()` over the tensor components of one material -/
def dist {α : Type} [Add α] [Sub α] [Neg α] [LT α] [DecidableLT α] [OfNat α 0] (row : List α) (x : α) : α :=
  row.foldl (fun acc c => acc + absDiff x c) 0

/-- scan of `jnp.argmin`: `i` next index, `b` best index so far, `bv` its value; strict `<` keeps the first -/
def argminGo {α : Type} [LT α] [DecidableLT α] : List α → Nat → Nat → α → Nat
  | [], _, b, _ => b
  | d :: r, i, b, bv => if d < bv then argminGo r (i + 1) i d else argminGo r (i + 1) b bv

/-- `jnp.argmin` of a 1-d array (first minimiser; 0 for the empty list, which the code never builds) -/
def argmin {α : Type} [LT α] [DecidableLT α] : List α → Nat
  | [] => 0
  | d :: r => argminGo r 1 0 d

/-- table of inverse permittivities, `1 / allowed_perm_array` -/
def invTable {α : Type} [Div α] [OfNat α 1] (eps : List (List α)) : List (List α) :=
  eps.map (fun row => row.map (fun e => 1 / e))

/-- one voxel of the inverse-permittivity branch; `eps` = permittivity rows of the ordered materials -/
def closestInv {α : Type} [Add α] [Sub α] [Neg α] [Div α] [LT α] [DecidableLT α] [OfNat α 0] [OfNat α 1]
    (eps : List (List α)) (x : α) : Nat :=
  argmin ((invTable eps).map (fun row => dist row x))

/-! ### arrays: shape + flat data -/

structure Arr (β : Type) where
  shape : List Nat
  data : List β
  deriving DecidableEq, Repr

def Arr.wf {β : Type} (a : Arr β) : Bool := a.shape.foldl (· * ·) 1 == a.data.length

def transformRound {α : Type} [Sub α] [Div α] [LT α] [DecidableLT α] [OfNat α 1] [OfNat α 2]
    (floorI : α → Int) (cast : Int → α) (n : Nat) (a : Arr α) : Arr Int :=
  ⟨a.shape, a.data.map (closestRound floorI cast n)⟩

def transformInv {α : Type} [Add α] [Sub α] [Neg α] [Div α] [LT α] [DecidableLT α] [OfNat α 0] [OfNat α 1]
    (eps : List (List α)) (a : Arr α) : Arr Nat :=
  ⟨a.shape, a.data.map (closestInv eps)⟩

/-! ### straight-through estimator -/

/-- `x - stop_gradient(x) + stop_gradient(y)` with the stop-gradient operation as a parameter -/
def ste {β : Type} [Add β] [Sub β] (sg : β → β) (x y : β) : β := x - sg x + sg y

/-- dual numbers: value and tangent (forward-mode derivative along one input direction) -/
structure Dual (α : Type) where
  v : α
  d : α

instance {α : Type} [Add α] : Add (Dual α) := ⟨fun a b => ⟨a.v + b.v, a.d + b.d⟩⟩
instance {α : Type} [Sub α] : Sub (Dual α) := ⟨fun a b => ⟨a.v - b.v, a.d - b.d⟩⟩

/-- `jax.lax.stop_gradient`: same value, zero tangent -/
def Dual.sg {α : Type} [OfNat α 0] (a : Dual α) : Dual α := ⟨a.v, 0⟩

/-! ### Behaviour of the pinned tree before the fix (refutation witnesses only) -/
namespace AsFound

/-- numpy broadcasting of two axis lengths -/
def bdim (a b : Nat) : Option Nat :=
  if a = b then some a else if a = 1 then some b else if b = 1 then some a else none

/-- isotropic set of `n` materials: `dist = |arr[..., None] - table(n,1)|` has shape
`shape.dropLast ++ [bdim d n, 1]` (d = last array axis, absent for rank 0); the argmin over the trailing
axis of length one is 0 everywhere, and the STE broadcasts the input against it.  `none` = exception. -/
def closestInvIso (n : Nat) (shape : List Nat) : Option (Arr Nat) :=
  match shape.getLast? with
  | none => some ⟨[n], List.replicate n 0⟩
  | some d =>
    match bdim d n with
    | none => none
    | some m =>
      let s := shape.dropLast ++ [m]
      some ⟨s, List.replicate (s.foldl (· * ·) 1) 0⟩

end AsFound

/-! ### Driver -/
open Proto

def floorF (x : Float) : Int := (Float.floor x).toInt64.toInt
def castF (i : Int) : Float := Float.ofInt i

/-- split a token list at the first `|` -/
def splitBar (l : List String) : List String × List String :=
  (l.takeWhile (· ≠ "|"), (l.dropWhile (· ≠ "|")).drop 1)

def chunks {β : Type} (c : Nat) : Nat → List β → List (List β)
  | 0, _ => []
  | n + 1, l => l.take c :: chunks c n (l.drop c)

/-- ops:
  `round n r s_1 … s_r | x …`            → `s_1 … s_r | idx …`   (default branch; r = rank)
  `inv n c e_11 … e_nc r s_1 … s_r | x …` → `s_1 … s_r | idx …`   (inverse branch; permittivity rows, c ∈ {1,3})
  `asfound n r s_1 … s_r`                → `s' … | idx …` or `error` (pinned tree, isotropic)
  `ste x dx y dy`                        → value and tangent of the straight-through estimator
-/
def handle : List String → String
  | "round" :: n :: r :: rest =>
    match natsOf [n, r] with
    | some [n, r] =>
      let (sh, xs) := splitBar rest
      match natsOf sh, floatsOfHex xs with
      | some sh, some xs =>
        let a : Arr Float := ⟨sh, xs⟩
        if sh.length ≠ r ∨ !a.wf ∨ n = 0 then "error" else
        let o := transformRound floorF castF n a
        s!"{showNats o.shape} | {showInts o.data}"
      | _, _ => "bad-op"
    | _ => "bad-op"
  | "inv" :: n :: c :: rest =>
    match natsOf [n, c] with
    | some [n, c] =>
      match takeN (n * c) rest with
      | some (es, r :: rest2) =>
        let (sh, xs) := splitBar rest2
        match floatsOfHex es, parseNat r, natsOf sh, floatsOfHex xs with
        | some es, some r, some sh, some xs =>
          let a : Arr Float := ⟨sh, xs⟩
          if sh.length ≠ r ∨ !a.wf ∨ n = 0 ∨ (c ≠ 1 ∧ c ≠ 3) then "error" else
          let o := transformInv (chunks c n es) a
          s!"{showNats o.shape} | {showNats o.data}"
        | _, _, _, _ => "bad-op"
      | _ => "bad-op"
    | _ => "bad-op"
  | "asfound" :: n :: r :: sh =>
    match natsOf [n, r], natsOf sh with
    | some [n, r], some sh =>
      if sh.length ≠ r then "bad-op" else
      match AsFound.closestInvIso n sh with
      | some o => s!"{showNats o.shape} | {showNats o.data}"
      | none => "error"
    | _, _ => "bad-op"
  | ["ste", x, dx, y, dy] =>
    match floatsOfHex [x, dx, y, dy] with
    | some [x, dx, y, dy] =>
      let o := ste Dual.sg (⟨x, dx⟩ : Dual Float) ⟨y, dy⟩
      s!"{hexOfFloat o.v} {hexOfFloat o.d}"
    | _ => "bad-op"
  | _ => "bad-op"

end Fdtdx.C19
