/-
C27 — placement does not depend on the order of objects or constraints.
Same model as C26 (`FdtdxModel/C26.lean`); this file only re-exports the line-protocol handler so that the
C27 check is an independent command with its own driver prefix.
-/
import FdtdxModel.C26
namespace Fdtdx.C27

def handle : List String → String := C26.handle

end Fdtdx.C27
