/-
C43 — model of `get_voxel_mask_for_shape` of `Sphere`, `Cylinder`, `ExtrudedPolygon`
(`src/fdtdx/objects/static_material/{sphere,cylinder,polygon}.py`, `polygon_to_mask_at_points` of `core/grid.py`).

An object occupies the index box `[lo_a, up_a)` on each axis of a grid given by its edge lists.  Mirrors:

  local_centers(axis)   resolved grid : `0.5*(e[lo:up] + e[lo+1:up+1]) - e[lo]`                (`localCenter`)
                        no grid yet   : `(arange(n) + 0.5) * spacing`                           (`uniformCenter`)
  real_shape            `e[up] - e[lo]` per axis (`grid.slice_extent`), shape centre = `0.5 * real_shape`
  Sphere                `((x-cx)/rx)**2 + ((y-cy)/ry)**2 + ((z-cz)/rz)**2 < 1`
  Cylinder              `(((h-ch)/r)**2 + ((v-cv)/r)**2) < 1` on the two transverse axes (ascending order), broadcast
                        along `axis` (mask has extent 1 there)
  ExtrudedPolygon       vertices shifted by `(0.5*real_h, 0.5*real_v)`, 2-D mask at the local cell centres, repeated
                        along `axis`.  The interior test itself is matplotlib's `Path.contains_points` (external); here it
                        is the even–odd crossing-number rule (`pointInPolygon`), compared differentially on points away
                        from the polygon boundary only.

Scalars are generic.  `x**2` is `x*x`.
-/
import FdtdxModel.Proto
import FdtdxModel.C37
namespace Fdtdx.C43
open Fdtdx.C37

section generic
variable {α : Type} [Add α] [Sub α] [Mul α] [Div α] [Neg α] [LT α] [DecidableLT α]
variable [OfNat α 0] [OfNat α 1] [OfNat α 2] [OfNat α 3]

/-- local centre of cell `i` of the box starting at edge `lo` (resolved-grid branch) -/
def localCenter (e : List α) (lo i : Nat) : α := half * (edge e (lo + i) + edge e (lo + i + 1)) - edge e lo

/-- legacy branch without a resolved grid -/
def uniformCenter (cast : Nat → α) (h : α) (i : Nat) : α := (cast i + half) * h

/-- `0.5 * real_shape[axis]` -/
def shapeCenter (e : List α) (lo up : Nat) : α := half * (edge e up - edge e lo)

def sq (x : α) : α := x * x

/-- normalised offset of cell `i` from the shape centre -/
def normOffset (e : List α) (lo up : Nat) (r : α) (i : Nat) : α := (localCenter e lo i - shapeCenter e lo up) / r

/-- `Sphere.get_voxel_mask_for_shape` at cell `(i, j, k)` of the box -/
def ellipsoidMaskAt (ex ey ez : List α) (lx ux ly uy lz uz : Nat) (rx ry rz : α) (i j k : Nat) : Bool :=
  decide (sq (normOffset ex lx ux rx i) + sq (normOffset ey ly uy ry j) + sq (normOffset ez lz uz rz k) < 1)

/-- `Cylinder.get_voxel_mask_for_shape` at transverse cell `(i, j)`; the mask does not depend on the axial index -/
def cylinderMaskAt (eh ev : List α) (lh uh lv uv : Nat) (r : α) (i j : Nat) : Bool :=
  decide (sq (normOffset eh lh uh r i) + sq (normOffset ev lv uv r j) < 1)

/-- one edge of the even–odd rule: does the ray from `(px, py)` towards +x cross segment `a → b`? -/
def crosses (px py : α) (a b : α × α) : Bool :=
  (decide (py < a.2) != decide (py < b.2)) &&
    decide (px < (b.1 - a.1) * (py - a.2) / (b.2 - a.2) + a.1)

/-- closed polygon `v₀ … v_{m-1}` (implicitly closed): odd number of crossings -/
def pointInPolygon (vs : List (α × α)) (px py : α) : Bool :=
  match vs with
  | [] => false
  | v0 :: _ =>
    let segs := vs.zip (vs.drop 1 ++ [v0])
    segs.foldl (fun acc s => acc != crosses px py s.1 s.2) false

/-- `ExtrudedPolygon` 2-D mask at transverse cell `(i, j)`: vertices shifted to local coordinates -/
def polygonMaskAt (vs : List (α × α)) (eh ev : List α) (lh uh lv uv : Nat) (i j : Nat) : Bool :=
  let ch := shapeCenter eh lh uh
  let cv := shapeCenter ev lv uv
  pointInPolygon (vs.map fun v => (v.1 + ch, v.2 + cv)) (localCenter eh lh i) (localCenter ev lv j)

/-- extrusion (`jnp.repeat` along `axis`): the 3-D mask at `(i, j, k)` reads the 2-D mask at the two transverse indices -/
def extrude (axis : Nat) (m2 : Nat → Nat → Bool) (i j k : Nat) : Bool :=
  if axis = 0 then m2 j k else if axis = 1 then m2 i k else m2 i j

end generic

/-! ### Driver -/
open Proto

def bits (l : List Bool) : String := String.ofList (l.map fun b => if b then '1' else '0')

def pairsOf : List Float → List (Float × Float)
  | a :: b :: r => (a, b) :: pairsOf r
  | _ => []

/-- ops:
  `lcenters lo up e…`                                        → local centres of the box cells
  `ucenters h n`                                             → legacy uniform centres
  `ell rx ry rz lx ux ly uy lz uz nx ny ex… ey… ez…`         → mask bits, row-major (x, y, z)
  `cyl r lh uh lv uv nh eh… ev…`                             → 2-D mask bits, row-major (h, v)
  `poly m lh uh lv uv nh vx0 vy0 … eh… ev…`                  → 2-D mask bits (m vertices)
-/
def handle : List String → String
  | "lcenters" :: lo :: up :: es =>
    match natsOf [lo, up], floatsOfHex es with
    | some [lo, up], some e =>
      if lo ≤ up ∧ up < e.length then showFloats ((List.range (up - lo)).map (localCenter e lo)) else "bad-op"
    | _, _ => "bad-op"
  | ["ucenters", h, n] =>
    match floatOfHex h, parseNat n with
    | some h, some n => showFloats ((List.range n).map (uniformCenter Float.ofNat h))
    | _, _ => "bad-op"
  | "ell" :: rx :: ry :: rz :: lx :: ux :: ly :: uy :: lz :: uz :: nx :: ny :: es =>
    match floatsOfHex [rx, ry, rz], natsOf [lx, ux, ly, uy, lz, uz, nx, ny], floatsOfHex es with
    | some [rx, ry, rz], some [lx, ux, ly, uy, lz, uz, nx, ny], some all =>
      match C37.split3 nx ny all with
      | some (ex, ey, ez) =>
        if lx ≤ ux ∧ ux < ex.length ∧ ly ≤ uy ∧ uy < ey.length ∧ lz ≤ uz ∧ uz < ez.length then
          bits ((List.range (ux - lx)).flatMap fun i => (List.range (uy - ly)).flatMap fun j =>
            (List.range (uz - lz)).map fun k => ellipsoidMaskAt ex ey ez lx ux ly uy lz uz rx ry rz i j k)
        else "bad-op"
      | none => "bad-op"
    | _, _, _ => "bad-op"
  | "cyl" :: r :: lh :: uh :: lv :: uv :: nh :: es =>
    match floatOfHex r, natsOf [lh, uh, lv, uv, nh], floatsOfHex es with
    | some r, some [lh, uh, lv, uv, nh], some all =>
      if all.length < nh then "bad-op" else
      let eh := all.take nh
      let ev := all.drop nh
      if lh ≤ uh ∧ uh < eh.length ∧ lv ≤ uv ∧ uv < ev.length then
        bits ((List.range (uh - lh)).flatMap fun i => (List.range (uv - lv)).map fun j =>
          cylinderMaskAt eh ev lh uh lv uv r i j)
      else "bad-op"
    | _, _, _ => "bad-op"
  | "poly" :: m :: lh :: uh :: lv :: uv :: nh :: es =>
    match natsOf [m, lh, uh, lv, uv, nh], floatsOfHex es with
    | some [m, lh, uh, lv, uv, nh], some all =>
      if all.length < 2 * m + nh ∨ m = 0 then "bad-op" else
      let vs := pairsOf (all.take (2 * m))
      let eh := (all.drop (2 * m)).take nh
      let ev := all.drop (2 * m + nh)
      if lh ≤ uh ∧ uh < eh.length ∧ lv ≤ uv ∧ uv < ev.length then
        bits ((List.range (uh - lh)).flatMap fun i => (List.range (uv - lv)).map fun j =>
          polygonMaskAt vs eh ev lh uh lv uv i j)
      else "bad-op"
    | _, _ => "bad-op"
  | _ => "bad-op"

end Fdtdx.C43
