/-
C37 — model of the geometry helpers of `fdtdx.core.grid.RectilinearGrid` (`src/fdtdx/core/grid.py`).

One axis is a list of edge coordinates `e = [e₀, …, eₙ]` (n cells).  Mirrors, literally:

  __post_init__        : ≥ 2 entries, strictly increasing (`validEdges`); cell widths `np.diff`;
                         per-axis minimum widths; the uniformity rule
                            max|w - s| > 1e-4·|s| + 8·eps·max|edge|  ⇒ not uniform   (s = first x width)
                         `_uniform_spacing = round(s, 14)` when uniform (the rounding is a parameter `rnd`)
  coord_to_index       : nearest = `np.argmin(|e - c|)` (FIRST minimum), lower = `searchsorted(right) - 1`
                         (−1 below the first edge), upper = `searchsorted(left)` (n+1 above the last edge)
  length_to_cell_count : negative length rejected, else `coord_to_index(e₀ + length)`
  bounds_for_center    : size ≤ 0 / size > n rejected; lower = argmin_l |½(e_l + e_{l+size}) − center|
  bounds_for_anchor    : same with anchors `e_l + ½(pos+1)(e_{l+size} − e_l)`
  anchor_coordinate    : `e_lo + ½(pos+1)(e_up − e_lo)`
  axis_extent, centers, face_area, cell_volume
  cfl_time_step        : uniform branch `(cf/√3)·min(uniform_spacing, min_spacing)/c` (after the `fix:` commit
                         recorded in props/C37.findings.json; the as-found branch used `uniform_spacing` alone and
                         is kept in `AsFound`), general branch `cf / (c·√(1/mx² + 1/my² + 1/mz²))`
  reduce_symmetric     : per symmetric axis: n < 2 or odd rejected, `allclose(w, reverse w, rtol=1e-4, atol=0)`
                         else rejected, keeps `edges[n/2:]`

Simplifications: `np.searchsorted` (binary search) is modelled by counting (equal on sorted input); `max > b` is
kept as a fold; Python negative indices / slice clamping are not modelled (K uses in-range indices only);
NaN inputs are out of scope.  Scalars are generic (bare operation classes): the same definitions run on `Float`
in the driver and are reasoned about over a linearly ordered field in `FdtdxProps/C37.lean`.  `sqrt`, `rnd`
(`np.round(·, 14)`), the tolerance `1e-4` and `8·eps` are explicit parameters.
-/
import FdtdxModel.Proto
namespace Fdtdx.C37

section generic
variable {α : Type}

/-- `np.abs` -/
def absv [Neg α] [LT α] [DecidableLT α] [OfNat α 0] (x : α) : α := if x < 0 then -x else x

def argminGo [LT α] [DecidableLT α] : List α → Nat → Nat → α → Nat
  | [], _, bi, _ => bi
  | x :: xs, i, bi, bv => if x < bv then argminGo xs (i + 1) i x else argminGo xs (i + 1) bi bv

/-- `np.argmin`: index of the FIRST minimum -/
def argmin [LT α] [DecidableLT α] : List α → Nat
  | [] => 0
  | x :: xs => argminGo xs 1 0 x

/-- `1/2`, exact on binary64 -/
def half [OfNat α 1] [OfNat α 2] [Div α] : α := 1 / 2

variable [Add α] [Sub α] [Mul α] [Div α] [Neg α] [LT α] [DecidableLT α]
variable [OfNat α 0] [OfNat α 1] [OfNat α 2] [OfNat α 3]

/-- edge `i` (0 outside; never used outside by the theorems) -/
def edge (e : List α) (i : Nat) : α := e.getD i 0

/-- strictly increasing, as `jnp.any(jnp.diff(edges) <= 0)` rejects -/
def strictlyIncreasing : List α → Bool
  | a :: b :: r => decide (a < b) && strictlyIncreasing (b :: r)
  | _ => true

def validEdges (e : List α) : Bool := decide (2 ≤ e.length) && strictlyIncreasing e

/-! ### coord_to_index -/

def nearest (e : List α) (c : α) : Nat := argmin (e.map fun x => absv (x - c))

/-- `np.searchsorted(e, c, side="right")` on sorted input: number of edges ≤ c -/
def countLE (e : List α) (c : α) : Nat := (e.filter fun x => !decide (c < x)).length

/-- `np.searchsorted(e, c, side="left")` on sorted input: number of edges < c -/
def countLT (e : List α) (c : α) : Nat := (e.filter fun x => decide (x < c)).length

def lowerIdx (e : List α) (c : α) : Int := (countLE e c : Int) - 1
def upperIdx (e : List α) (c : α) : Nat := countLT e c

inductive Snap where | nearest | lower | upper
  deriving DecidableEq, Repr

def coordToIndex (e : List α) (c : α) : Snap → Int
  | .nearest => (nearest e c : Int)
  | .lower => lowerIdx e c
  | .upper => (upperIdx e c : Int)

/-- `length_to_cell_count` -/
def lengthToCellCount (e : List α) (len : α) (s : Snap) : Except String Int :=
  if len < 0 then .error "err-neg" else .ok (coordToIndex e (edge e 0 + len) s)

/-! ### interval choice -/

/-- `0.5 * (edges[l] + edges[l + size])` -/
def intervalCenter (e : List α) (size l : Nat) : α := half * (edge e l + edge e (l + size))

/-- `anchor_coordinate`: `lower + 0.5 * (position + 1.0) * (upper - lower)` -/
def anchorCoordinate (e : List α) (lo up : Nat) (pos : α) : α :=
  edge e lo + half * (pos + 1) * (edge e up - edge e lo)

/-- shared guard of `bounds_for_center` / `bounds_for_anchor`; returns the number of candidates -/
def candidates (e : List α) (size : Int) : Except String (Nat × Nat) :=
  if size ≤ 0 then .error "err-size"
  else if (e.length : Int) - size - 1 < 0 then .error "err-fit"
  else .ok (size.toNat, e.length - size.toNat)

def boundsForCenter (e : List α) (size : Int) (center : α) : Except String (Nat × Nat) :=
  match candidates e size with
  | .error m => .error m
  | .ok (s, k) =>
    let lo := argmin ((List.range k).map fun l => absv (intervalCenter e s l - center))
    .ok (lo, lo + s)

def boundsForAnchor (e : List α) (size : Int) (anchor pos : α) : Except String (Nat × Nat) :=
  match candidates e size with
  | .error m => .error m
  | .ok (s, k) =>
    let lo := argmin ((List.range k).map fun l => absv (anchorCoordinate e l (l + s) pos - anchor))
    .ok (lo, lo + s)

/-! ### extents, widths, centres, areas, volumes -/

/-- `axis_extent` -/
def extent (e : List α) (lo up : Nat) : α := edge e up - edge e lo

/-- cell width `i` = `np.diff(edges)[i]` -/
def width (e : List α) (i : Nat) : α := edge e (i + 1) - edge e i

def widths (e : List α) : List α := (List.range (e.length - 1)).map (width e)

/-- `centers`: `0.5 * (edges[:-1] + edges[1:])` -/
def center (e : List α) (i : Nat) : α := half * (edge e i + edge e (i + 1))
def centers (e : List α) : List α := (List.range (e.length - 1)).map (center e)

/-- `face_area` entry: `widths_a[i] * widths_b[j]` (a < b the transverse axes in ascending order) -/
def faceAreaAt (ea eb : List α) (i j : Nat) : α := width ea i * width eb j

/-- `cell_volume` entry: `dx[i] * dy[j] * dz[k]` -/
def cellVolumeAt (ex ey ez : List α) (i j k : Nat) : α := width ex i * width ey j * width ez k

def rangeFrom (lo up : Nat) : List Nat := (List.range (up - lo)).map (· + lo)

def faceArea (ea eb : List α) (la ua lb ub : Nat) : List α :=
  (rangeFrom la ua).flatMap fun i => (rangeFrom lb ub).map fun j => faceAreaAt ea eb i j

def cellVolume (ex ey ez : List α) (x0 x1 y0 y1 z0 z1 : Nat) : List α :=
  (rangeFrom x0 x1).flatMap fun i => (rangeFrom y0 y1).flatMap fun j =>
    (rangeFrom z0 z1).map fun k => cellVolumeAt ex ey ez i j k

/-! ### minimum widths, uniformity, CFL -/

/-- `np.min` -/
def minList : List α → α
  | [] => 0
  | x :: xs => xs.foldl (fun m y => if y < m then y else m) x

/-- `np.max(np.abs(·))` -/
def maxAbs (l : List α) : α := l.foldl (fun m x => if m < absv x then absv x else m) 0

def minSpacing (e : List α) : α := minList (widths e)

/-- one axis of the uniformity loop: `max|w - s| > tol·|s| + eps8·max|edge|` makes the grid non-uniform -/
def axisUniform (tol eps8 s : α) (e : List α) : Bool :=
  !decide (tol * absv s + eps8 * maxAbs e < maxAbs ((widths e).map fun w => w - s))

/-- nominal spacing: first width of the x axis -/
def nominal (ex : List α) : α := width ex 0

def isUniform (tol eps8 : α) (ex ey ez : List α) : Bool :=
  axisUniform tol eps8 (nominal ex) ex && axisUniform tol eps8 (nominal ex) ey && axisUniform tol eps8 (nominal ex) ez

/-- `_uniform_spacing` -/
def uniformSpacing (rnd : α → α) (tol eps8 : α) (ex ey ez : List α) : Option α :=
  if isUniform tol eps8 ex ey ez then some (rnd (nominal ex)) else none

/-- `min(self._min_spacings)` -/
def minOf3 (a b c : α) : α := minList [a, b, c]

/-- general branch of `cfl_time_step` -/
def cflGeneral (sqrt : α → α) (cf c mx my mz : α) : α :=
  cf / (c * sqrt (1 / (mx * mx) + 1 / (my * my) + 1 / (mz * mz)))

/-- `cfl_time_step` (after the fix) -/
def cflTimeStep (sqrt : α → α) (cf c : α) (uni : Option α) (mx my mz : α) : α :=
  match uni with
  | some s =>
    let m := minOf3 mx my mz
    let sp := if m < s then m else s        -- Python `min(s, m)`
    (cf / sqrt 3) * sp / c
  | none => cflGeneral sqrt cf c mx my mz

namespace AsFound
/-- `cfl_time_step` of the pinned tree: the uniform branch trusts the rounded nominal spacing -/
def cflTimeStep (sqrt : α → α) (cf c : α) (uni : Option α) (mx my mz : α) : α :=
  match uni with
  | some s => (cf / sqrt 3) * s / c
  | none => cflGeneral sqrt cf c mx my mz
end AsFound

/-! ### reduce_symmetric -/

/-- `jnp.allclose(w, w[::-1], rtol=tol, atol=0)` -/
def mirrorOK (tol : α) (w : List α) : Bool :=
  (w.zip w.reverse).all fun p => !decide (tol * absv p.2 < absv (p.1 - p.2))

def reduceAxis (tol : α) (sym : Bool) (e : List α) : Except String (List α) :=
  if !sym then .ok e
  else
    let n := e.length - 1
    if n < 2 ∨ n % 2 ≠ 0 then .error "err-odd"
    else if !mirrorOK tol (widths e) then .error "err-mirror"
    else .ok (e.drop (n / 2))

def reduceSymmetric (tol : α) (sx sy sz : Bool) (ex ey ez : List α) : Except String (List α × List α × List α) :=
  match reduceAxis tol sx ex with
  | .error m => .error m
  | .ok rx =>
    match reduceAxis tol sy ey with
    | .error m => .error m
    | .ok ry =>
      match reduceAxis tol sz ez with
      | .error m => .error m
      | .ok rz => .ok (rx, ry, rz)

end generic

/-! ### Driver -/
open Proto

/-- `np.round(x, 14)` for the magnitudes used here: `rint(x·1e14)/1e14`, `rint` by the 2^52 trick -/
def round14 (x : Float) : Float :=
  let y := x * 1e14
  let big : Float := 4503599627370496.0
  let r := if y.abs < big then (if y < 0 then -((-y + big) - big) else (y + big) - big) else y
  r / 1e14

def parseSnap : String → Option Snap
  | "nearest" => some .nearest
  | "lower" => some .lower
  | "upper" => some .upper
  | _ => none

def showBounds : Except String (Nat × Nat) → String
  | .ok (a, b) => s!"{a} {b}"
  | .error m => m

/-- split `l` into three lists of lengths `a`, `b` and the rest -/
def split3 (a b : Nat) (l : List Float) : Option (List Float × List Float × List Float) :=
  if l.length < a + b then none else some (l.take a, (l.drop a).take b, l.drop (a + b))

def symFlag : String → Option Bool
  | "0" => some false
  | "1" => some true
  | _ => none

/-- ops (all floats as 16-hex-digit bit patterns, `e…` = the edge list of one axis):
  `snap <nearest|lower|upper> c e…`            → index
  `len2cells <mode> length e…`                 → index | err-neg
  `bcenter size center e…`                     → `lo up` | err-size | err-fit
  `banchor size anchor pos e…`                 → `lo up` | err-size | err-fit
  `anchorc lo up pos e…`                       → float
  `extent lo up e…`                            → float
  `centers e…`, `widths e…`                    → floats
  `area la ua lb ub na ea… eb…`                → floats, row-major (na = number of entries of ea)
  `vol x0 x1 y0 y1 z0 z1 nx ny ex… ey… ez…`    → floats, row-major
  `grid cf c tol eps8 nx ny ex… ey… ez…`       → `invalid` | `<uniform 0/1> <uniform spacing|none> mx my mz dt dtAsFound`
  `symred sx sy sz tol nx ny ex… ey… ez…`      → `err-…` | `kx ky | rx… | ry… | rz…`
-/
def handle : List String → String
  | "snap" :: mode :: c :: es =>
    match parseSnap mode, floatOfHex c, floatsOfHex es with
    | some m, some c, some e => toString (coordToIndex e c m)
    | _, _, _ => "bad-op"
  | "len2cells" :: mode :: len :: es =>
    match parseSnap mode, floatOfHex len, floatsOfHex es with
    | some m, some len, some e =>
      match lengthToCellCount e len m with
      | .ok i => toString i
      | .error msg => msg
    | _, _, _ => "bad-op"
  | "bcenter" :: size :: c :: es =>
    match parseInt size, floatOfHex c, floatsOfHex es with
    | some s, some c, some e => showBounds (boundsForCenter e s c)
    | _, _, _ => "bad-op"
  | "banchor" :: size :: a :: p :: es =>
    match parseInt size, floatOfHex a, floatOfHex p, floatsOfHex es with
    | some s, some a, some p, some e => showBounds (boundsForAnchor e s a p)
    | _, _, _, _ => "bad-op"
  | "anchorc" :: lo :: up :: p :: es =>
    match natsOf [lo, up], floatOfHex p, floatsOfHex es with
    | some [lo, up], some p, some e =>
      if lo < e.length ∧ up < e.length then hexOfFloat (anchorCoordinate e lo up p) else "bad-op"
    | _, _, _ => "bad-op"
  | "extent" :: lo :: up :: es =>
    match natsOf [lo, up], floatsOfHex es with
    | some [lo, up], some e => if lo < e.length ∧ up < e.length then hexOfFloat (extent e lo up) else "bad-op"
    | _, _ => "bad-op"
  | "centers" :: es =>
    match floatsOfHex es with
    | some e => showFloats (centers e)
    | none => "bad-op"
  | "widths" :: es =>
    match floatsOfHex es with
    | some e => showFloats (widths e)
    | none => "bad-op"
  | "area" :: la :: ua :: lb :: ub :: na :: es =>
    match natsOf [la, ua, lb, ub, na], floatsOfHex es with
    | some [la, ua, lb, ub, na], some all =>
      if all.length < na then "bad-op" else
      let ea := all.take na
      let eb := all.drop na
      if ua < ea.length ∧ ub < eb.length ∧ la ≤ ua ∧ lb ≤ ub then showFloats (faceArea ea eb la ua lb ub) else "bad-op"
    | _, _ => "bad-op"
  | "vol" :: x0 :: x1 :: y0 :: y1 :: z0 :: z1 :: nx :: ny :: es =>
    match natsOf [x0, x1, y0, y1, z0, z1, nx, ny], floatsOfHex es with
    | some [x0, x1, y0, y1, z0, z1, nx, ny], some all =>
      match split3 nx ny all with
      | some (ex, ey, ez) =>
        if x1 < ex.length ∧ y1 < ey.length ∧ z1 < ez.length ∧ x0 ≤ x1 ∧ y0 ≤ y1 ∧ z0 ≤ z1
        then showFloats (cellVolume ex ey ez x0 x1 y0 y1 z0 z1) else "bad-op"
      | none => "bad-op"
    | _, _ => "bad-op"
  | "grid" :: cf :: c :: tol :: eps8 :: nx :: ny :: es =>
    match floatsOfHex [cf, c, tol, eps8], natsOf [nx, ny], floatsOfHex es with
    | some [cf, c, tol, eps8], some [nx, ny], some all =>
      match split3 nx ny all with
      | some (ex, ey, ez) =>
        if !(validEdges ex && validEdges ey && validEdges ez) then "invalid" else
        let uni := uniformSpacing round14 tol eps8 ex ey ez
        let mx := minSpacing ex
        let my := minSpacing ey
        let mz := minSpacing ez
        let u := match uni with
          | some s => "1 " ++ hexOfFloat s
          | none => "0 none"
        s!"{u} {hexOfFloat mx} {hexOfFloat my} {hexOfFloat mz} {hexOfFloat (cflTimeStep Float.sqrt cf c uni mx my mz)} {hexOfFloat (AsFound.cflTimeStep Float.sqrt cf c uni mx my mz)}"
      | none => "bad-op"
    | _, _, _ => "bad-op"
  | "symred" :: sx :: sy :: sz :: tol :: nx :: ny :: es =>
    match symFlag sx, symFlag sy, symFlag sz, floatOfHex tol, natsOf [nx, ny], floatsOfHex es with
    | some sx, some sy, some sz, some tol, some [nx, ny], some all =>
      match split3 nx ny all with
      | some (ex, ey, ez) =>
        match reduceSymmetric tol sx sy sz ex ey ez with
        | .error m => m
        | .ok (rx, ry, rz) => s!"{rx.length} {ry.length} | {showFloats rx} | {showFloats ry} | {showFloats rz}"
      | none => "bad-op"
    | _, _, _, _, _, _ => "bad-op"
  | _ => "bad-op"

end Fdtdx.C37
