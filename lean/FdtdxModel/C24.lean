/-
C24 — model of
  `binary_median_filter`                      (objects/device/parameters/binary_transform.py)
  `advanced_padding`                          (core/misc.py; the six edges are padded one after the other, so later
                                               edges also replicate / fill the corners created by earlier ones)
  `compute_allowed_indices` (both variants)   (objects/device/parameters/utils.py)
  `nearest_index(..., allowed_indices=…)`     (utils.py) as used by `PillarDiscretization.__call__`

Median filter: the padded array is convolved with a ones-kernel along each axis in turn (`mode="same"`, zero
outside the padded array; for an even kernel size the window is the one `convolve` produces: one more cell on
the low side), divided by the kernel volume and rounded half-to-even (`jnp.round`).  Counts are exact small
integers in float32, so they are modelled as `Nat`; the quotient is rounded with integer arithmetic
(`roundHE`).  Padding modes modelled: constant (value 0/1), edge, wrap, reflect, symmetric (widths small enough
for a single fold; otherwise the model answers `unsupported`).  `convolve` raises when a kernel is longer than
the padded axis while another axis is longer than 1 (`error`).

Pillars: `enumCols` mirrors the loops (`itertools.product` order, fill index, number of filled top layers); the
implementation then de-duplicates through a Python `set` / `jnp.unique`, so only the SET of columns is
compared.  `nearest` takes the implementation's column list as input (its order decides ties of `argmin`).
Scalars of `nearest` are generic (`Float` in the driver, a linear order in the theorems); `sqrt` and `abs` are
passed in.
-/
import FdtdxModel.Proto
namespace Fdtdx.C24

/-! ### arrays -/

abbrev Tab (α : Type) := Array (Array (Array α))

structure Dims where
  nx : Nat
  ny : Nat
  nz : Nat
  deriving Repr, DecidableEq

def Dims.get (d : Dims) : Nat → Nat
  | 0 => d.nx
  | 1 => d.ny
  | _ => d.nz

def Dims.set (d : Dims) (ax n : Nat) : Dims :=
  match ax with
  | 0 => { d with nx := n }
  | 1 => { d with ny := n }
  | _ => { d with nz := n }

def inb (d : Dims) (i j k : Nat) : Bool := decide (i < d.nx) && decide (j < d.ny) && decide (k < d.nz)

def row {α : Type} (n : Nat) (f : Nat → α) : Array α := ((List.range n).map f).toArray

def tab {α : Type} (d : Dims) (f : Nat → Nat → Nat → α) : Tab α :=
  row d.nx fun i => row d.ny fun j => row d.nz fun k => f i j k

/-- function view; `dflt` outside -/
def look {α : Type} (dflt : α) (t : Tab α) : Nat → Nat → Nat → α :=
  fun i j k => ((t.getD i #[]).getD j #[]).getD k dflt

/-! ### advanced_padding -/

inductive Mode where
  | constant (v : Bool)
  | edge
  | wrap
  | reflect
  | symmetric
  deriving Repr, DecidableEq

structure Edge where
  w : Nat
  mode : Mode
  deriving Repr, DecidableEq

/-- source index (in the old axis of length `n`) of new index `i` after padding `w` cells at the low (`isEnd =
false`) or high end; `none` = the constant value -/
def srcIdx (mode : Mode) (n w : Nat) (isEnd : Bool) (i : Nat) : Option Nat :=
  if !isEnd then
    if w ≤ i then some (i - w) else
    let t := w - i      -- distance below index 0, 1 … w
    match mode with
    | .constant _ => none
    | .edge => some 0
    | .wrap => some (n - t)
    | .reflect => some t
    | .symmetric => some (t - 1)
  else
    if i < n then some i else
    let t := i - n + 1  -- distance beyond index n-1, 1 … w
    match mode with
    | .constant _ => none
    | .edge => some (n - 1)
    | .wrap => some (t - 1)
    | .reflect => some (n - 1 - t)
    | .symmetric => some (n - t)

/-- widths for which `srcIdx` is the single-fold formula of `jnp.pad` -/
def supported (mode : Mode) (n w : Nat) : Bool :=
  match mode with
  | .constant _ => true
  | .edge => decide (0 < n) || decide (w = 0)
  | .wrap => decide (w ≤ n)
  | .symmetric => decide (w ≤ n)
  | .reflect => decide (w + 1 ≤ n) || decide (w = 0)

def constOf : Mode → Bool
  | .constant v => v
  | _ => false

/-- one `jnp.pad` call of `advanced_padding`: edge number `e` (0 = x low, 1 = x high, 2 = y low, …) -/
def padEdge (d : Dims) (t : Tab Bool) (e : Nat) (ed : Edge) : Dims × Tab Bool :=
  let ax := e / 2
  let isEnd := e % 2 != 0
  let n := d.get ax
  let d' := d.set ax (n + ed.w)
  let src := srcIdx ed.mode n ed.w isEnd
  let f := look false t
  (d', tab d' fun i j k =>
    match ax with
    | 0 => match src i with | some ii => f ii j k | none => constOf ed.mode
    | 1 => match src j with | some jj => f i jj k | none => constOf ed.mode
    | _ => match src k with | some kk => f i j kk | none => constOf ed.mode)

def padAll (d : Dims) (t : Tab Bool) (edges : List Edge) : Dims × Tab Bool :=
  (edges.zipIdx).foldl (fun (acc : Dims × Tab Bool) (p : Edge × Nat) => padEdge acc.1 acc.2 p.2 p.1) (d, t)

/-! ### box filter and rounding -/

/-- low-side reach of `convolve(…, ones(k), mode="same")`: the window of output `i` is `i - b … i - b + k - 1` -/
def reach (k : Nat) : Nat := k - 1 - (k - 1) / 2

/-- Σ_{d < k} g (i + d - b), entries with `i + d < b` are outside (zero) -/
def wsum (k b : Nat) (g : Nat → Nat) (i : Nat) : Nat :=
  ((List.range k).map fun d => if b ≤ i + d then g (i + d - b) else 0).sum

def passX (d : Dims) (k : Nat) (t : Tab Nat) : Tab Nat :=
  tab d fun i j kk => wsum k (reach k) (fun ii => look 0 t ii j kk) i
def passY (d : Dims) (k : Nat) (t : Tab Nat) : Tab Nat :=
  tab d fun i j kk => wsum k (reach k) (fun jj => look 0 t i jj kk) j
def passZ (d : Dims) (k : Nat) (t : Tab Nat) : Tab Nat :=
  tab d fun i j kk => wsum k (reach k) (fun c => look 0 t i j c) kk

/-- round-half-to-even of `s / K` (K > 0) in integer arithmetic -/
def roundHE (s K : Nat) : Nat :=
  let q := s / K
  let r := s % K
  if 2 * r < K then q else if K < 2 * r then q + 1 else (if q % 2 = 0 then q else q + 1)

structure MedCfg where
  kx : Nat
  ky : Nat
  kz : Nat
  edges : List Edge     -- six entries
  deriving Repr

/-- padded array, its dims -/
def padded (d : Dims) (a : Tab Bool) (c : MedCfg) : Dims × Tab Bool := padAll d a c.edges

/-- box counts on the padded grid -/
def boxCounts (pd : Dims) (p : Tab Bool) (c : MedCfg) : Tab Nat :=
  let p0 : Tab Nat := tab pd fun i j k => if look false p i j k then 1 else 0
  passZ pd c.kz (passY pd c.ky (passX pd c.kx p0))

def lowW (c : MedCfg) (ax : Nat) : Nat := ((c.edges.getD (2 * ax) ⟨0, .edge⟩).w)

/-- `binary_median_filter` -/
def median (d : Dims) (a : Tab Bool) (c : MedCfg) : Tab Bool :=
  let (pd, p) := padded d a c
  let cnt := boxCounts pd p c
  let K := c.kx * c.ky * c.kz
  tab d fun i j k => decide (roundHE (look 0 cnt (i + lowW c 0) (j + lowW c 1) (k + lowW c 2)) K = 1)

/-- where `jax.scipy.signal.convolve` raises: a kernel longer than its (padded) axis while another axis is longer
than the kernel's extent 1 -/
def convRaises (pd : Dims) (c : MedCfg) : Bool :=
  let bad := fun (k n o1 o2 : Nat) => decide (n < k) && (decide (1 < o1) || decide (1 < o2))
  bad c.kx pd.nx pd.ny pd.nz || bad c.ky pd.ny pd.nx pd.nz || bad c.kz pd.nz pd.nx pd.ny

/-! ### pillars: allowed columns -/

/-- `itertools.product(vals, repeat = n)` -/
def product (vals : List Nat) : Nat → List (List Nat)
  | 0 => [[]]
  | n + 1 => vals.flatMap fun v => (product vals n).map fun rest => v :: rest

def distinctCount (l : List Nat) : Nat := l.eraseDups.length

/-- the loops of `compute_allowed_indices_without_holes(_single_polymer_columns)` before de-duplication -/
def enumCols (single : Bool) (L : Nat) (indices fills : List Nat) : List (List Nat) :=
  if single && fills.isEmpty then product indices L else
  let valid := indices.filter fun x => !fills.contains x
  (product valid L).flatMap fun perm =>
    fills.flatMap fun f =>
      (List.range (L + 1)).filterMap fun i =>
        let col := perm.take (L - i) ++ List.replicate i f
        if single then
          (if distinctCount col = 1 || decide (distinctCount (col.filter fun x => !fills.contains x) ≤ 1) then some col else none)
        else some col

/-! ### pillars: nearest allowed column -/

/-- first index of a minimal entry (`jnp.argmin`) -/
def argminFirst {α : Type} [LT α] [DecidableRel (α := α) (· < ·)] : List α → Nat
  | [] => 0
  | x :: xs =>
    let rec go (best : α) (bi : Nat) (i : Nat) : List α → Nat
      | [] => bi
      | y :: ys => if y < best then go y i (i + 1) ys else go best bi (i + 1) ys
    go x 0 1 xs

section dist
variable {α : Type} [Add α] [Sub α] [Mul α] [Div α] [OfNat α 0]

def sumL (l : List α) : α := l.foldl (· + ·) 0

def diffs : List α → List α
  | a :: b :: rest => (b - a) :: diffs (b :: rest)
  | _ => []

/-- `jnp.linalg.norm(values - allowed, axis)` -/
def distEuclid (sqrt : α → α) (v a : List α) : α :=
  sqrt (sumL ((List.zipWith (· - ·) v a).map fun x => x * x))

/-- `mean |diff v - diff a| + |mean v - mean a|` -/
def distPerm (abs : α → α) (cast : Nat → α) (v a : List α) : α :=
  let dv := diffs v
  let da := diffs a
  sumL ((List.zipWith (· - ·) dv da).map abs) / cast dv.length
    + abs (sumL v / cast v.length - sumL a / cast a.length)

/-- distances of one input column to every allowed column; `euclid` is also used when the column has one layer -/
def distances (euclid : Bool) (sqrt abs : α → α) (cast : Nat → α) (matVals : List α) (cols : List (List Nat))
    (v : List α) : List α :=
  cols.map fun col =>
    let a := col.map fun m => matVals.getD m 0
    if euclid || v.length = 1 then distEuclid sqrt v a else distPerm abs cast v a

end dist

/-! ### Driver -/
open Proto

def modeOf (name val : String) : Option Mode :=
  match name with
  | "constant" => (match val with | "0" => some (.constant false) | "1" => some (.constant true) | _ => none)
  | "edge" => some .edge
  | "wrap" => some .wrap
  | "reflect" => some .reflect
  | "symmetric" => some .symmetric
  | _ => none

def edgesOf : List String → Option (List Edge)
  | [] => some []
  | w :: m :: v :: rest => do
    let w ← parseNat w
    let mode ← modeOf m v
    let tl ← edgesOf rest
    pure (⟨w, mode⟩ :: tl)
  | _ => none

def bitsOf (str : String) : Option (List Bool) :=
  str.toList.mapM fun c => if c = '1' then some true else if c = '0' then some false else none

def ofBits (d : Dims) (bs : Array Bool) : Tab Bool :=
  tab d fun i j k => bs.getD ((i * d.ny + j) * d.nz + k) false

def toBits (d : Dims) (t : Tab Bool) : String :=
  String.ofList <| (List.range d.nx).flatMap fun i => (List.range d.ny).flatMap fun j =>
    (List.range d.nz).map fun k => if look false t i j k then '1' else '0'

def digitsOf (s : String) : Option (List Nat) :=
  s.toList.mapM fun c => if '0' ≤ c ∧ c ≤ '9' then some (c.toNat - '0'.toNat) else none

def showCol (c : List Nat) : String := String.ofList (c.map fun n => Char.ofNat ('0'.toNat + n))

/-- insertion sort + de-duplication of the column strings (canonical form of a set) -/
def canonSet (l : List String) : List String :=
  (l.foldl (fun acc s => if acc.contains s then acc else s :: acc) []).mergeSort (fun a b => decide (a ≤ b))

/-- ops
  `med nx ny nz kx ky kz (w mode val)×6 bits` → filtered bits | `error` | `unsupported`
  `cols single L nIndices fill…`               → sorted distinct allowed columns, `|`-separated digit strings
  `near euclid L nMat mat… nCols col… v…`      → `argmin dist…` (binary64 hex)
-/
def handle : List String → String
  | "med" :: nx :: ny :: nz :: kx :: ky :: kz :: rest =>
    match natsOf [nx, ny, nz, kx, ky, kz], takeN 18 rest with
    | some [nx, ny, nz, kx, ky, kz], some (es, [bits]) =>
      match edgesOf es, bitsOf bits with
      | some edges, some bs =>
        let d : Dims := ⟨nx, ny, nz⟩
        if bs.length ≠ nx * ny * nz ∨ nx * ny * nz = 0 ∨ kx * ky * kz = 0 then "bad-op" else
        let c : MedCfg := ⟨kx, ky, kz, edges⟩
        -- every pad call must be inside the modelled range
        let ok := (edges.zipIdx).foldl (fun (acc : Bool × Dims) (p : Edge × Nat) =>
          let n := acc.2.get (p.2 / 2)
          (acc.1 && supported p.1.mode n p.1.w, acc.2.set (p.2 / 2) (n + p.1.w))) (true, d)
        if !ok.1 then "unsupported" else
        let a := ofBits d bs.toArray
        let (pd, _) := padded d a c
        if convRaises pd c then "error" else toBits d (median d a c)
      | _, _ => "bad-op"
    | _, _ => "bad-op"
  | "cols" :: single :: L :: nInd :: fills =>
    match natsOf [single, L, nInd], natsOf fills with
    | some [single, L, nInd], some fills =>
      if single > 1 then "bad-op" else
      "|".intercalate (canonSet ((enumCols (single = 1) L (List.range nInd) fills).map showCol))
    | _, _ => "bad-op"
  | "near" :: euclid :: L :: nMat :: rest =>
    match natsOf [euclid, L, nMat] with
    | some [euclid, L, nMat] =>
      match takeN nMat rest with
      | some (mats, nCols :: rest2) =>
        match parseNat nCols with
        | some nCols =>
          match takeN nCols rest2 with
          | some (cols, vs) =>
            match floatsOfHex mats, cols.mapM digitsOf, floatsOfHex vs with
            | some mats, some cols, some vs =>
              if euclid > 1 ∨ vs.length ≠ L ∨ cols.any (fun c => c.length ≠ L ∨ c.any (· ≥ nMat)) ∨ cols.isEmpty ∨ L = 0 then "bad-op" else
              let ds := distances (euclid = 1) Float.sqrt Float.abs Float.ofNat mats cols vs
              s!"{argminFirst ds} {showFloats ds}"
            | _, _, _ => "bad-op"
          | none => "bad-op"
        | none => "bad-op"
      | _ => "bad-op"
    | _ => "bad-op"
  | _ => "bad-op"

end Fdtdx.C24
