/-
Line-protocol (de)serialisation of the shared Yee model (`FdtdxModel/Yee.lean`) for the drivers of the
field properties (C01, C02, C09, C10, C11, …), on binary64 (`Float`) and on complex binary64 (`Cx`).

Request layout after the op token (all numbers as described in Proto.lean):

  kind                      `r` (real) | `c` (complex: every scalar is two floats re im)
  nx ny nz
  3 × axis                  wrap pp pm pecLo pecHi pmcLo pmcHi        (flags 0/1, pp pm scalars)
  grid                      `u`  |  `n` ref wx[nx] wy[ny] wz[nz]       (ref, widths: real floats)
  c eta0                    real floats
  invEps[3N] invMu[3N]      scalars, component-major then row-major (i,j,k)
  sigE                      `0` | `1` values[3N]      (real floats)
  sigH                      `0` | `1` values[3N]
  src                       `0` | `1` jE[3N] jH[3N]
  nsteps
  E[3N] H[3N]

Reply: E[3N] H[3N] after the operation, same encoding.
-/
import FdtdxModel.Yee
namespace Fdtdx.YeeIO
open Fdtdx.Proto Fdtdx.Yee

/-- complex binary64 -/
structure Cx where
  re : Float
  im : Float
deriving Inhabited

instance : Add Cx := ⟨fun a b => ⟨a.re + b.re, a.im + b.im⟩⟩
instance : Sub Cx := ⟨fun a b => ⟨a.re - b.re, a.im - b.im⟩⟩
instance : Neg Cx := ⟨fun a => ⟨-a.re, -a.im⟩⟩
instance : Mul Cx := ⟨fun a b => ⟨a.re * b.re - a.im * b.im, a.re * b.im + a.im * b.re⟩⟩
instance : Div Cx := ⟨fun a b =>
  let d := b.re * b.re + b.im * b.im
  ⟨(a.re * b.re + a.im * b.im) / d, (a.im * b.re - a.re * b.im) / d⟩⟩
instance : OfNat Cx n := ⟨⟨Float.ofNat n, 0.0⟩⟩
def Cx.ofReal (x : Float) : Cx := ⟨x, 0.0⟩
def Cx.conj (a : Cx) : Cx := ⟨a.re, -a.im⟩

abbrev P := StateT (List String) Option

def tok : P String := do
  match (← get) with
  | [] => failure
  | t :: ts => set ts; pure t

def pNat : P Nat := do let t ← tok; (parseNat t : Option Nat)
def pFloat : P Float := do let t ← tok; (floatOfHex t : Option Float)
def pBool : P Bool := do
  let t ← tok
  if t == "1" then pure true else if t == "0" then pure false else failure

/-- scalar codec -/
class Codec (α : Type) where
  parse : P α
  emit : α → List String
  ofReal : Float → α

instance : Codec Float := ⟨pFloat, fun x => [hexOfFloat x], id⟩
instance : Codec Cx := ⟨do let a ← pFloat; let b ← pFloat; pure ⟨a, b⟩,
  fun z => [hexOfFloat z.re, hexOfFloat z.im], Cx.ofReal⟩

def pMany {β : Type} (p : P β) : Nat → P (Array β)
  | 0 => pure #[]
  | n + 1 => do
    let mut out : Array β := Array.mkEmpty (n + 1)
    for _ in [0:n + 1] do
      out := out.push (← p)
    pure out

section
variable {α : Type} [Codec α] [Inhabited α]

def pAxis : P (AxisBC α) := do
  let w ← pBool; let pp ← Codec.parse; let pm ← Codec.parse
  let a ← pBool; let b ← pBool; let c ← pBool; let d ← pBool
  pure ⟨w, pp, pm, a, b, c, d⟩

def pV3 (nx ny nz : Nat) (p : P α) : P (V3 α) := do
  let arr ← pMany p (3 * (nx * ny * nz))
  pure (unflatten nx ny nz arr)

def pOptV3 (nx ny nz : Nat) (p : P α) : P (Option (V3 α)) := do
  if (← pBool) then pure (some (← pV3 nx ny nz p)) else pure none

structure Req (α : Type) where
  cf : Cfg α
  m : Mat α
  src : Option (V3 α × V3 α)
  nsteps : Nat
  E : V3 α
  H : V3 α

variable [Add α] [Sub α] [Mul α] [Div α] [OfNat α 0] [OfNat α 1] [OfNat α 2]

def pReq : P (Req α) := do
  let nx ← pNat; let ny ← pNat; let nz ← pNat
  let bx ← pAxis (α := α); let by_ ← pAxis (α := α); let bz ← pAxis (α := α)
  let g ← tok
  let one : Nat → α := fun _ => 1
  let mut sfx := one; let mut sfy := one; let mut sfz := one
  let mut sbx := one; let mut sby := one; let mut sbz := one
  if g == "n" then
    let ref ← pFloat
    let wx ← pMany pFloat nx; let wy ← pMany pFloat ny; let wz ← pMany pFloat nz
    let r : α := Codec.ofReal ref
    let f (w : Array Float) : Nat → α := fun i => Codec.ofReal (w[i]!)
    sfx := metricFwd r (f wx); sfy := metricFwd r (f wy); sfz := metricFwd r (f wz)
    sbx := metricBwd r (f wx); sby := metricBwd r (f wy); sbz := metricBwd r (f wz)
  else if g != "u" then failure
  let c ← pFloat; let eta0 ← pFloat
  let invEps ← pV3 nx ny nz (Codec.parse (α := α))
  let invMu ← pV3 nx ny nz (Codec.parse (α := α))
  let real : P α := do pure (Codec.ofReal (← pFloat))
  let sigE ← pOptV3 nx ny nz real
  let sigH ← pOptV3 nx ny nz real
  let src ← do
    if (← pBool) then
      let jE ← pV3 nx ny nz (Codec.parse (α := α)); let jH ← pV3 nx ny nz (Codec.parse (α := α))
      pure (some (jE, jH))
    else pure none
  let nsteps ← pNat
  let E ← pV3 nx ny nz (Codec.parse (α := α)); let H ← pV3 nx ny nz (Codec.parse (α := α))
  if !(← get).isEmpty then failure
  pure { cf := ⟨nx, ny, nz, bx, by_, bz, sfx, sfy, sfz, sbx, sby, sbz, Codec.ofReal c, Codec.ofReal eta0⟩,
         m := ⟨invEps, invMu, sigE, sigH⟩, src := src, nsteps := nsteps, E := E, H := H }

def emitV3 (nx ny nz : Nat) (V : V3 α) : List String :=
  (flatten nx ny nz V).flatMap Codec.emit

def zeroV : V3 α := constV 0

/-- `fwd`: nsteps forward steps (the same source terms every step) -/
def runFwd (r : Req α) : V3 α × V3 α := Id.run do
  let (jE, jH) := r.src.getD (zeroV, zeroV)
  let mut E := r.E; let mut H := r.H
  for _ in [0:r.nsteps] do
    let (E', H') := forward r.cf r.m jE jH E H
    E := materialize r.cf.nx r.cf.ny r.cf.nz E'
    H := materialize r.cf.nx r.cf.ny r.cf.nz H'
  return (E, H)

/-- `bwd`: nsteps backward steps -/
def runBwd (r : Req α) : V3 α × V3 α := Id.run do
  let (jE, jH) := r.src.getD (zeroV, zeroV)
  let mut E := r.E; let mut H := r.H
  for _ in [0:r.nsteps] do
    let (E', H') := backward r.cf r.m jE jH E H
    H := materialize r.cf.nx r.cf.ny r.cf.nz H'
    E := materialize r.cf.nx r.cf.ny r.cf.nz E'
  return (E, H)

def reply (r : Req α) (res : V3 α × V3 α) : String :=
  joinSp (emitV3 r.cf.nx r.cf.ny r.cf.nz res.1 ++ emitV3 r.cf.nx r.cf.ny r.cf.nz res.2)

def handleOp (op : String) (rest : List String) : String :=
  match (pReq (α := α)).run rest with
  | none => "bad-op"
  | some (r, _) =>
    if op == "fwd" then reply r (runFwd r)
    else if op == "bwd" then reply r (runBwd r)
    else if op == "curlE" then reply r (curlE r.cf r.E, zeroV)
    else if op == "curlH" then reply r (curlH r.cf r.H, zeroV)
    else "bad-op"

end

/-- ops `fwd | bwd | curlE | curlH`, then kind `r | c`, then the request -/
def handleYee : List String → String
  | op :: "r" :: rest => handleOp (α := Float) op rest
  | op :: "c" :: rest => handleOp (α := Cx) op rest
  | _ => "bad-op"

end Fdtdx.YeeIO
