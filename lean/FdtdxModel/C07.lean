/-
C07 — model of `fdtdx/fdtd/stop_conditions.py` (TimeStepCondition, EnergyThresholdCondition,
DetectorConvergenceCondition: `setup`, `_validate`, `__call__`) and of the loop that consumes them,
`checkpointed_fdtd` (`eqxi.while_loop(max_steps = time_steps_total, cond_fun = condition)`), which is
`C05.checkpointedRun`.

A condition's `__call__` returns True = continue.  It is a function of the simulation state `(t, arrays)`;
for the driver the state-dependent part is passed in as a trace taken from a plain run of the implementation:
  EnergyThresholdCondition   E t = sum(compute_energy(fields at step t))
  DetectorConvergenceCondition   the detector's readings array (column 0), from which the model recomputes
                                 the spectra distance itself (`specDist`)

Mirrors (after the `fix:` commit recorded in props/C07.findings.json):
  TimeStepCondition.__call__            T > t
  EnergyThresholdCondition.setup        max_steps := T if None; min_steps := round(T*0.1) if None  (Python round =
                                        half to even; T*0.1 is formed in binary64 — equal to the exact T/10 rounding
                                        for all T ≤ 200000, checked offline and by K up to 400)
                          ._validate    threshold ≤ 0 → ValueError; min_steps < 0 → ValueError
                          .__call__     (t < max_steps) ∧ (t < min_steps ∨ ¬ (E < threshold))
  DetectorConvergenceCondition.setup    spp := round(period/dt) (an input here), max_steps := T if None,
                                        min_steps := (prev_periods+1)*spp if None
                          ._validate    (p+1)*spp > T → ValueError; p < 1 → ValueError; threshold < 0 → ValueError;
                                        min_steps < (p+1)*spp → ValueError  (detector lookup errors are not modelled)
                          .__call__     (t < max_steps) ∧ (¬ (t ≥ min_steps) ∨ ¬ converged),
                                        converged = (t ≥ min_steps) ∧ specDist t < threshold
                          _compute_converged: start_ref = clip(t-(p+1)spp, 0, T-p*spp), start_last = clip(t-spp, 0, T-spp),
                                        reference = mean over the p periods, |rfft| of both (n = spp), 2-norm of the
                                        difference of the magnitudes.

`AsFound` keeps the `__call__` of the pinned tree: time_condition = t < T (max_steps never read) and
`(¬ min_steps_condition) ∨ (time_condition ∧ ¬ converged)`.

Scalars are generic; cos/sin/sqrt and 2π are arguments (Float functions in the driver).
-/
import FdtdxModel.C05
namespace Fdtdx.C07
open Fdtdx.C05

/-! ### continue-predicates as functions of the step and of the trace -/

/-- `TimeStepCondition.__call__` -/
def timeCond (T t : Nat) : Bool := decide (T > t)

/-- `EnergyThresholdCondition.__call__`; `below t` = (total energy at step t < threshold) -/
def energyCond (maxS minS : Nat) (below : Nat → Bool) (t : Nat) : Bool :=
  decide (t < maxS) && (decide (t < minS) || !(below t))

/-- `converged` of DetectorConvergenceCondition: the `lax.cond` on `t ≥ min_steps` -/
def detConverged (minS : Nat) (close : Nat → Bool) (t : Nat) : Bool :=
  if t ≥ minS then close t else false

/-- `DetectorConvergenceCondition.__call__` (fixed); `close t` = (spectra distance at step t < threshold) -/
def detCond (maxS minS : Nat) (close : Nat → Bool) (t : Nat) : Bool :=
  decide (t < maxS) && (!(decide (t ≥ minS)) || !(detConverged minS close t))

namespace AsFound
/-- `DetectorConvergenceCondition.__call__` of the pinned tree: `max_steps` is not an argument at all -/
def detCond (T minS : Nat) (close : Nat → Bool) (t : Nat) : Bool :=
  !(decide (t ≥ minS)) || (decide (t < T) && !(detConverged minS close t))
end AsFound

/-- step at which `run_fdtd(stopping_condition = c)` halts when the condition's report at step t is `cont t`:
the while loop of `checkpointed_fdtd` on the bare counter -/
def stopStep (T : Nat) (cont : Nat → Bool) : Nat :=
  whileLoop cont (· + 1) T 0

/-! ### setup / validation -/

/-- `round(T * 0.1)` -/
def roundTenth (T : Nat) : Nat := roundHalfEven T 10

/-- EnergyThresholdCondition.setup: returns (max_steps, min_steps).  `thrPos` = (threshold > 0); a negative
user-supplied min_steps is the `minNeg` flag (Nat cannot hold it). -/
def energySetup (T : Nat) (thrPos : Bool) (minS maxS : Option Nat) (minNeg : Bool := false) : Except String (Nat × Nat) :=
  if !thrPos then .error "ValueError threshold"
  else if minNeg then .error "ValueError min_steps"
  else .ok (maxS.getD T, minS.getD (roundTenth T))

/-- DetectorConvergenceCondition.setup: returns (max_steps, min_steps).  `thrNonneg` = (threshold ≥ 0). -/
def detSetup (T spp p : Nat) (pValid thrNonneg : Bool) (minS maxS : Option Nat) : Except String (Nat × Nat) :=
  let m := minS.getD ((p + 1) * spp)
  if (p + 1) * spp > T then .error "ValueError window"
  else if !pValid then .error "ValueError prev_periods"
  else if !thrNonneg then .error "ValueError threshold"
  else if m < (p + 1) * spp then .error "ValueError min_steps"
  else .ok (maxS.getD T, m)

/-! ### the spectra distance of `_compute_converged` -/

section dist
variable {α : Type} [Add α] [Sub α] [Mul α] [Div α] [OfNat α 0]

def sumList (l : List α) : α := l.foldl (· + ·) 0

/-- `jnp.clip(x, lo, hi)` on integers -/
def clipInt (x lo hi : Int) : Int := min (max x lo) hi

/-- `|rfft(x, n = spp)[f]|` for a length-spp list -/
def dftMag (cosF sinF sqrtF : α → α) (cast : Nat → α) (twoPi : α) (spp : Nat) (x : Nat → α) (f : Nat) : α :=
  let ang := fun j => twoPi * cast (f * j) / cast spp
  let re := sumList ((List.range spp).map (fun j => x j * cosF (ang j)))
  let im := sumList ((List.range spp).map (fun j => x j * sinF (ang j)))
  sqrtF (re * re + im * im)

/-- spectra distance at step `t` from the readings column `r` (index → value, 0 outside the array) -/
def specDist (cosF sinF sqrtF : α → α) (cast : Nat → α) (twoPi : α) (T spp p : Nat) (r : Nat → α) (t : Nat) : α :=
  let startRef := (clipInt ((t : Int) - ((p + 1) * spp : Nat)) 0 ((T : Int) - (p * spp : Nat))).toNat
  let startLast := (clipInt ((t : Int) - (spp : Nat)) 0 ((T : Int) - (spp : Nat))).toNat
  let refMean := fun j => sumList ((List.range p).map (fun i => r (startRef + i * spp + j))) / cast p
  let last := fun j => r (startLast + j)
  let d := (List.range (spp / 2 + 1)).map (fun f =>
    dftMag cosF sinF sqrtF cast twoPi spp refMean f - dftMag cosF sinF sqrtF cast twoPi spp last f)
  sqrtF (sumList (d.map (fun x => x * x)))

end dist

/-! ### Driver -/
open Proto

def optNat (s : String) : Option (Option Nat) :=
  if s = "-" then some none else (parseNat s).map some

def twoPiF : Float := 6.283185307179586

def distF (T spp p : Nat) (r : List Float) (t : Nat) : Float :=
  specDist Float.cos Float.sin Float.sqrt Float.ofNat twoPiF T spp p (fun i => r.getD i 0.0) t

/-- ops (`-` = None for optional min/max):
  `tenth T`                                   → round(T*0.1)
  `time T`                                    → stop step under TimeStepCondition
  `energy T thr min max E_0 … E_T`            → `max_steps min_steps stop` or `error …`   (thr, E as bit patterns)
  `det T spp p thr min max r_0 … r_{T-1}`     → `max_steps min_steps stop` or `error …`   (fixed behaviour)
  `detasfound T spp p thr min max r_0 …`      → same with the pinned tree's `__call__`
  `dist T spp p r_0 … r_{T-1}`                → spectra distances for t = (p+1)*spp … T as bit patterns
-/
def handle : List String → String
  | ["tenth", T] =>
    match parseNat T with
    | some T => toString (roundTenth T)
    | none => "bad-op"
  | ["time", T] =>
    match parseNat T with
    | some T => toString (stopStep T (timeCond T))
    | none => "bad-op"
  | "energy" :: T :: thr :: mn :: mx :: es =>
    match parseNat T, floatOfHex thr, optNat mn, optNat mx, floatsOfHex es with
    | some T, some thr, some mn, some mx, some es =>
      if es.length ≠ T + 1 then "bad-op" else
      match energySetup T (decide (thr > 0.0)) mn mx with
      | .error e => "error " ++ e
      | .ok (maxS, minS) =>
        let below := fun t => decide (es.getD t 0.0 < thr)
        s!"{maxS} {minS} {stopStep T (energyCond maxS minS below)}"
    | _, _, _, _, _ => "bad-op"
  | "det" :: T :: spp :: p :: thr :: mn :: mx :: rs =>
    match natsOf [T, spp, p], floatOfHex thr, optNat mn, optNat mx, floatsOfHex rs with
    | some [T, spp, p], some thr, some mn, some mx, some rs =>
      if rs.length ≠ T then "bad-op" else
      match detSetup T spp p (decide (p ≥ 1)) (decide (thr ≥ 0.0)) mn mx with
      | .error e => "error " ++ e
      | .ok (maxS, minS) =>
        let close := fun t => decide (distF T spp p rs t < thr)
        s!"{maxS} {minS} {stopStep T (detCond maxS minS close)}"
    | _, _, _, _, _ => "bad-op"
  | "detasfound" :: T :: spp :: p :: thr :: mn :: mx :: rs =>
    match natsOf [T, spp, p], floatOfHex thr, optNat mn, optNat mx, floatsOfHex rs with
    | some [T, spp, p], some thr, some mn, some mx, some rs =>
      if rs.length ≠ T then "bad-op" else
      match detSetup T spp p (decide (p ≥ 1)) (decide (thr ≥ 0.0)) mn mx with
      | .error e => "error " ++ e
      | .ok (maxS, minS) =>
        let close := fun t => decide (distF T spp p rs t < thr)
        s!"{maxS} {minS} {stopStep T (AsFound.detCond T minS close)}"
    | _, _, _, _, _ => "bad-op"
  | "dist" :: T :: spp :: p :: rs =>
    match natsOf [T, spp, p], floatsOfHex rs with
    | some [T, spp, p], some rs =>
      if rs.length ≠ T ∨ spp = 0 ∨ p = 0 ∨ (p + 1) * spp > T then "bad-op" else
      showFloats ((List.range (T + 1 - (p + 1) * spp)).map (fun i => distF T spp p rs ((p + 1) * spp + i)))
    | _, _ => "bad-op"
  | _ => "bad-op"

end Fdtdx.C07
