/-
C26 / C27 — model of the object-placement constraint solver of
`fdtdx/fdtd/initialization.py` (`resolve_object_constraints`, `_apply_constraints_iteratively` and everything
it calls) together with the grid snapping functions of `fdtdx/core/grid.py` (`RectilinearGrid.coord_to_index`,
`length_to_cell_count`, `bounds_for_center`, `anchor_coordinate`, `bounds_for_anchor`, `axis_extent`) and the
constraint classes of `fdtdx/objects/object.py`.

Shape of the model (DESIGN §5 C26/C27): a *set-once rule engine*.
  * variables `Var = (object id, axis, lo | hi | size)`; a state is a partial assignment `St = Var → Option Int`
    (`slice_dict` + `shape_dict`);
  * an `Atom` is a rule `(premises, target, f)`: "once every premise is known, the target must equal `f premises`"
    — assign if unknown, conflict if different, `f = none` when the code raises;
  * a `Group` is what one `try:` block / one object rule does: the atoms of one constraint in order (an error
    aborts the rest of the group and flags the owner — `errors[c.object] = …`), or one bookkeeping rule of one
    object (`caught = false`: a conflict flags the owner and continues; a raise propagates = `Outcome.raised`);
  * `groups` = `compile`: the list of groups of one pass in the order of the code
      step 2 `_resolve_static_positions_iterative`  (objects in list order)
      step 3 `_update_grid_slices_from_shapes`       "
      step 4 `_update_grid_shapes_from_slices`       "
      step 5 the constraints in list order;
  * `loop` = the `for iteration in range(max_iter)` loop: pass; if nothing changed `_extend_to_inf_if_possible`
    (`extend`, a pointwise function of the quiescent state and of the constraint *set*); if still nothing changed
    `_handle_unresolved_objects` and stop;
  * `validate` = the bounds check at the end of `resolve_object_constraints`.

The definitions here are the solver AFTER the three `fix:` commits recorded in props/C26.findings.json and
props/C27.findings.json (no early "everything resolved" exit and running out of `max_iter` flags every object;
`partial_real_position` is verified also when both bounds are already known; an extension to the volume
boundary is postponed while that boundary is unknown).  The behaviour of the pinned tree is kept in
`namespace AsFound` (early exit, skip, raise) for the machine-checked refutation witnesses.

Simplifications (each is covered by K, which compares complete outcomes):
  * the grid is an input (three edge lists, `is_uniform`, `uniform_spacing`); `_resolve_grid_from_volume` is not
    modelled;
  * the initial state and the extension step are written pointwise (per variable) instead of as loops over the
    object dict — distinct objects write distinct keys;
  * step 3 of the code (one branch on which of lo/hi is known) is the atom pair
    `hi := lo + size`, `lo := hi - size`, which acts identically on every state;
  * error messages are dropped: `errs` is the list of flagged object ids;
  * scalars are generic (`Float` in the driver, any ordered field in the theorems); NaN/inf are not modelled.
-/
import FdtdxModel.Proto
namespace Fdtdx.C26

/-! ### Rule engine -/

inductive Kind | lo | hi | size
  deriving DecidableEq, Repr

structure Var where
  o : Nat
  ax : Nat
  k : Kind
  deriving DecidableEq, Repr

/-- `slice_dict` and `shape_dict` together -/
abbrev St := Var → Option Int

def St.set (σ : St) (v : Var) (x : Option Int) : St := fun w => if w = v then x else σ w

structure Atom where
  prem : List Var
  /-- an unknown premise raises instead of postponing the rule -/
  strict : Bool
  target : Var
  /-- `none`: the code raises -/
  f : List Int → Option Int

inductive Res | skip | same | set (x : Int) | conflict | raise
  deriving DecidableEq, Repr

def premVals (σ : St) : List Var → Option (List Int)
  | [] => some []
  | v :: vs =>
    match σ v, premVals σ vs with
    | some x, some xs => some (x :: xs)
    | _, _ => none

def Atom.eval (a : Atom) (σ : St) : Res :=
  match premVals σ a.prem with
  | none => if a.strict then .raise else .skip
  | some vs =>
    match a.f vs with
    | none => .raise
    | some x =>
      match σ a.target with
      | none => .set x
      | some y => if y = x then .same else .conflict

structure Group where
  owner : Nat
  /-- inside the `try:` of the constraint loop -/
  caught : Bool
  atoms : List Atom

inductive GRes | ok (σ : St) (chg err : Bool) | crash

/-- one `_apply_*_constraint` call (caught) / one bookkeeping rule of one object and axis (no caught) -/
def runGroup (caught : Bool) : List Atom → St → Bool → GRes
  | [], σ, chg => .ok σ chg false
  | a :: as, σ, chg =>
    match a.eval σ with
    | .skip => runGroup caught as σ chg
    | .same => runGroup caught as σ chg
    | .set x => runGroup caught as (σ.set a.target (some x)) true
    | .conflict =>
      if caught then .ok σ false true
      else match runGroup caught as σ chg with
        | .ok σ' c _ => .ok σ' c true
        | .crash => .crash
    | .raise => if caught then .ok σ false true else .crash

structure PS where
  σ : St
  errs : List Nat
  chg : Bool

/-- one pass over all groups; `none`: an exception escapes `resolve_object_constraints` -/
def runGroups : List Group → PS → Option PS
  | [], s => some s
  | g :: gs, s =>
    match runGroup g.caught g.atoms s.σ false with
    | .crash => none
    | .ok σ c e => runGroups gs ⟨σ, if e then g.owner :: s.errs else s.errs, s.chg || c⟩

/-! ### Grid snapping (generic scalars) -/

section Scalar
variable {α : Type} [Add α] [Sub α] [Mul α] [Div α] [Neg α] [LT α] [DecidableLT α]
  [OfNat α 0] [OfNat α 1] [OfNat α 2]

def absv (x : α) : α := if x < 0 then -x else x

def argminAux (c : α) : List α → Nat → Nat → α → Nat
  | [], _, bi, _ => bi
  | x :: xs, i, bi, bv =>
    let d := absv (x - c)
    if d < bv then argminAux c xs (i + 1) i d else argminAux c xs (i + 1) bi bv

/-- `np.argmin(np.abs(xs - c))`: first index of the minimum -/
def argminAbs (xs : List α) (c : α) : Nat :=
  match xs with
  | [] => 0
  | x :: xs => argminAux c xs 1 0 (absv (x - c))

/-- realised `RectilinearGrid` (+ what `SimulationConfig` answers about it) -/
structure Grid (α : Type) where
  ex : List α
  ey : List α
  ez : List α
  /-- `grid.is_uniform` -/
  uniform : Bool
  /-- `config.uniform_spacing()` (used on uniform grids only) -/
  h : α
  /-- the literal `1e-6` of `_real_length_to_grid_size` -/
  eps6 : α
  /-- int → float -/
  ofInt : Int → α

def Grid.edges (g : Grid α) : Nat → List α
  | 0 => g.ex
  | 1 => g.ey
  | _ => g.ez

def getE (e : List α) (i : Nat) : α := e.getD i 0

/-- numpy indexing with a Python int: negative wraps once, otherwise IndexError -/
def npIdx (len : Nat) (i : Int) : Option Nat :=
  if 0 ≤ i ∧ i < (len : Int) then some i.toNat
  else if i < 0 ∧ -(len : Int) ≤ i then some (i + len).toNat
  else none

/-- jax indexing with a Python int: negative wraps once, then clamped -/
def jaxIdx (len : Nat) (i : Int) : Nat :=
  let j := if i < 0 then i + len else i
  if j < 0 then 0 else if j ≥ (len : Int) then len - 1 else j.toNat

def minList : List α → Option α
  | [] => none
  | x :: xs =>
    match minList xs with
    | none => some x
    | some m => some (if x < m then x else m)

def widths : List α → List α
  | a :: b :: rest => (b - a) :: widths (b :: rest)
  | _ => []

/-- `grid.min_spacing` -/
def Grid.minSpacing (g : Grid α) : α :=
  match minList ((minList (widths g.ex)).toList ++ (minList (widths g.ey)).toList ++ (minList (widths g.ez)).toList) with
  | some m => m
  | none => 0

/-- `coord_to_index(axis, c, snap="nearest")` -/
def coordToIndex (g : Grid α) (ax : Nat) (c : α) : Int := (argminAbs (g.edges ax) c : Nat)

/-- `np.searchsorted(edges, c, side="left")` on a sorted list -/
def searchLeft (c : α) : List α → Nat
  | [] => 0
  | x :: xs => if x < c then searchLeft c xs + 1 else 0

/-- `_real_length_to_grid_size`; `none` = ValueError (negative length) -/
def realLengthToGridSize (g : Grid α) (ax : Nat) (len : α) : Option Int :=
  let e := g.edges ax
  let e0 := getE e 0
  if g.uniform then
    if len < 0 then none else some (coordToIndex g ax (e0 + len))
  else
    let endc := e0 + len
    let ei := argminAbs e endc
    if absv (endc - getE e ei) < g.eps6 * g.minSpacing then some (ei : Nat)
    else if len < 0 then none
    else
      let cnt := searchLeft (e0 + len) e
      some (((if cnt < e.length - 1 then cnt else e.length - 1) : Nat) : Int)

/-- candidate lower indices of an interval of `size` cells; `none` = ValueError -/
def lowerCands (e : List α) (size : Int) : Option (List Nat) :=
  if size ≤ 0 then none
  else
    let maxLower : Int := (e.length : Int) - size - 1
    if maxLower < 0 then none else some (List.range (maxLower.toNat + 1))

/-- `bounds_for_center` (lower bound) -/
def boundsForCenter (g : Grid α) (ax : Nat) (center : α) (size : Int) : Option Int :=
  let e := g.edges ax
  match lowerCands e size with
  | none => none
  | some cs => some (argminAbs (cs.map fun l => (getE e l + getE e (l + size.toNat)) / 2) center : Nat)

/-- `_center_to_bounds_for_grid` (lower bound) -/
def centerToBounds (g : Grid α) (ax : Nat) (rpos : α) (size : Int) : Option Int :=
  let e := g.edges ax
  boundsForCenter g ax (rpos + (getE e 0 + getE e (e.length - 1)) / 2) size

/-- `anchor_coordinate`; `none` = IndexError -/
def anchorCoordinate (g : Grid α) (ax : Nat) (lo hi : Int) (pos : α) : Option α :=
  let e := g.edges ax
  match npIdx e.length lo, npIdx e.length hi with
  | some l, some u => some (getE e l + ((pos + 1) / 2) * (getE e u - getE e l))
  | _, _ => none

/-- `bounds_for_anchor` (lower bound) -/
def boundsForAnchor (g : Grid α) (ax : Nat) (size : Int) (anchor pos : α) : Option Int :=
  let e := g.edges ax
  match lowerCands e size with
  | none => none
  | some cs =>
    some (argminAbs (cs.map fun l => getE e l + ((pos + 1) / 2) * (getE e (l + size.toNat) - getE e l)) anchor : Nat)

/-- `axis_extent` (indexes a jax array) -/
def axisExtent (g : Grid α) (ax : Nat) (lo hi : Int) : α :=
  let e := g.edges ax
  getE e (jaxIdx e.length hi) - getE e (jaxIdx e.length lo)

def optAdd (x : α) : Option α → α
  | some y => x + y
  | none => x

/-- `x += k * config.uniform_spacing()` guarded by `if k:` -/
def gridAdd (g : Grid α) (x : α) : Option Int → α
  | some k => if k = 0 then x else x + g.ofInt k * g.h
  | none => x

/-! ### Objects and constraints -/

structure Obj (α : Type) where
  id : Nat
  isVol : Bool
  /-- `partial_grid_shape`, `partial_real_shape`, `partial_real_position` (3 entries each) -/
  gshape : List (Option Int)
  rshape : List (Option α)
  rpos : List (Option α)

structure PosE (α : Type) where
  ax : Nat
  own : α
  other : α
  margin : Option α
  gmargin : Option Int

structure SizeE (α : Type) where
  ax : Nat
  oax : Nat
  prop : α
  off : Option α
  goff : Option Int

inductive Con (α : Type)
  | gridc (o : Nat) (es : List (Nat × Bool × Int))
  | realc (o : Nat) (es : List (Nat × Bool × α))
  | pos (o other : Nat) (es : List (PosE α))
  | size (o other : Nat) (es : List (SizeE α))
  | ext (o : Nat) (other : Option Nat) (ax : Nat) (hi : Bool) (opos : α) (off : Option α) (goff : Option Int)

structure Sys (α : Type) where
  grid : Grid α
  objs : List (Obj α)
  cons : List (Con α)

def Con.owner : Con α → Nat
  | .gridc o _ => o
  | .realc o _ => o
  | .pos o _ _ => o
  | .size o _ _ => o
  | .ext o _ _ _ _ _ _ => o

def Con.other : Con α → Option Nat
  | .gridc _ _ => none
  | .realc _ _ => none
  | .pos _ t _ => some t
  | .size _ t _ => some t
  | .ext _ t _ _ _ _ _ => t

def sideKind (hi : Bool) : Kind := if hi then .hi else .lo

def raiseAtom (o ax : Nat) : Atom := ⟨[], false, ⟨o, ax, .lo⟩, fun _ => none⟩

/-- `_raise_for_nonuniform_grid_offsets` -/
def offsetGuard (g : Grid α) (o ax : Nat) (k : Option Int) : List Atom :=
  if !g.uniform && (match k with | some k => k != 0 | none => false) then [raiseAtom o ax] else []

def posLower (g : Grid α) (e : PosE α) : List Int → Option Int
  | [ob0, ob1, sz] =>
    match anchorCoordinate g e.ax ob0 ob1 e.other with
    | none => none
    | some a => boundsForAnchor g e.ax sz (gridAdd g (optAdd a e.margin) e.gmargin) e.own
  | _ => none

def posUpper (g : Grid α) (e : PosE α) : List Int → Option Int
  | [ob0, ob1, sz] => (posLower g e [ob0, ob1, sz]).map (· + sz)
  | _ => none

def sizeF (g : Grid α) (e : SizeE α) : List Int → Option Int
  | [_, b0, b1] => realLengthToGridSize g e.ax (gridAdd g (optAdd (axisExtent g e.oax b0 b1 * e.prop) e.off) e.goff)
  | _ => none

def extF (g : Grid α) (ax : Nat) (opos : α) (off : Option α) (goff : Option Int) : List Int → Option Int
  | [b0, b1] =>
    match anchorCoordinate g ax b0 b1 opos with
    | none => none
    | some a => some (coordToIndex g ax (gridAdd g (optAdd a off) goff))
  | _ => none

def idF : List Int → Option Int
  | [x] => some x
  | _ => none

/-- the atoms of one constraint, in the order the code evaluates them.  `strictVol`: an extension to the
volume boundary raises while that boundary is unknown (pinned tree) instead of being postponed -/
def Con.atoms (g : Grid α) (vol : Nat) (strictVol : Bool) : Con α → List Atom
  | .gridc o es =>
    if !g.uniform then [raiseAtom o 0]
    else es.map fun (ax, hi, c) => ⟨[], false, ⟨o, ax, sideKind hi⟩, fun _ => some c⟩
  | .realc o es => es.map fun (ax, hi, c) => ⟨[], false, ⟨o, ax, sideKind hi⟩, fun _ => some (coordToIndex g ax c)⟩
  | .pos o t es =>
    es.flatMap fun e =>
      let prem : List Var := [⟨t, e.ax, .lo⟩, ⟨t, e.ax, .hi⟩, ⟨o, e.ax, .size⟩]
      offsetGuard g o e.ax e.gmargin ++
        [⟨prem, false, ⟨o, e.ax, .lo⟩, posLower g e⟩, ⟨prem, false, ⟨o, e.ax, .hi⟩, posUpper g e⟩]
  | .size o t es =>
    es.flatMap fun e =>
      offsetGuard g o e.ax e.goff ++
        [⟨[⟨t, e.oax, .size⟩, ⟨t, e.oax, .lo⟩, ⟨t, e.oax, .hi⟩], false, ⟨o, e.ax, .size⟩, sizeF g e⟩]
  | .ext o t ax hi opos off goff =>
    offsetGuard g o ax goff ++
      (match t with
       | some t => [⟨[⟨t, ax, .lo⟩, ⟨t, ax, .hi⟩], false, ⟨o, ax, sideKind hi⟩, extF g ax opos off goff⟩]
       | none => [⟨[⟨vol, ax, sideKind hi⟩], strictVol, ⟨o, ax, sideKind hi⟩, idF⟩])

def axes3 : List Nat := [0, 1, 2]

def lowerF (g : Grid α) (ax : Nat) (p : α) : List Int → Option Int
  | [sz] => centerToBounds g ax p sz
  | _ => none

def upperF (g : Grid α) (ax : Nat) (p : α) : List Int → Option Int
  | [sz] => (centerToBounds g ax p sz).map (· + sz)
  | _ => none

/-- step 2: `_resolve_static_positions_iterative` for one object -/
def Obj.posGroups (g : Grid α) (o : Obj α) : List Group :=
  axes3.flatMap fun ax =>
    match o.rpos.getD ax none with
    | none => []
    | some p =>
      [⟨o.id, false, [⟨[⟨o.id, ax, .size⟩], false, ⟨o.id, ax, .lo⟩, lowerF g ax p⟩]⟩,
       ⟨o.id, false, [⟨[⟨o.id, ax, .size⟩], false, ⟨o.id, ax, .hi⟩, upperF g ax p⟩]⟩]

def addF : List Int → Option Int
  | [a, b] => some (a + b)
  | _ => none

def subF : List Int → Option Int
  | [a, b] => some (a - b)
  | _ => none

/-- step 3: `_update_grid_slices_from_shapes` for one object -/
def sliceGroups (id : Nat) : List Group :=
  axes3.map fun ax =>
    ⟨id, false, [⟨[⟨id, ax, .lo⟩, ⟨id, ax, .size⟩], false, ⟨id, ax, .hi⟩, addF⟩,
                 ⟨[⟨id, ax, .hi⟩, ⟨id, ax, .size⟩], false, ⟨id, ax, .lo⟩, subF⟩]⟩

/-- step 4: `_update_grid_shapes_from_slices` for one object -/
def shapeGroups (id : Nat) : List Group :=
  axes3.map fun ax => ⟨id, false, [⟨[⟨id, ax, .hi⟩, ⟨id, ax, .lo⟩], false, ⟨id, ax, .size⟩, subF⟩]⟩

def volId (sys : Sys α) : Nat :=
  match sys.objs.find? (·.isVol) with
  | some v => v.id
  | none => 0

def posGroupsAll (sys : Sys α) : List Group := sys.objs.flatMap (·.posGroups sys.grid)

def conGroups (sys : Sys α) (strictVol : Bool := false) : List Group :=
  sys.cons.map fun c => ⟨c.owner, true, c.atoms sys.grid (volId sys) strictVol⟩

def bookGroups (sys : Sys α) : List Group :=
  sys.objs.flatMap (fun o => sliceGroups o.id) ++ sys.objs.flatMap (fun o => shapeGroups o.id)

/-- `compile`: every group of one pass, in the order of the code -/
def groups (sys : Sys α) : List Group := posGroupsAll sys ++ bookGroups sys ++ conGroups sys

/-! ### Initial state -/

/-- `_resolve_static_shapes` for one object and axis; outer `none` = the code raises -/
def Obj.staticSize (g : Grid α) (o : Obj α) (ax : Nat) : Option (Option Int) :=
  match o.gshape.getD ax none with
  | some n => some (some n)
  | none =>
    match o.rshape.getD ax none with
    | some len =>
      match realLengthToGridSize g ax len with
      | some n => some (some n)
      | none => none
    | none => some none

/-- `_resolve_static_positions_initial` for one object and axis: `some (some lower)` when position and size
are both static; outer `none` = the code raises -/
def Obj.staticLower (g : Grid α) (o : Obj α) (ax : Nat) : Option (Option Int) :=
  match o.rpos.getD ax none, o.staticSize g ax with
  | some p, some (some sz) =>
    match centerToBounds g ax p sz with
    | some l => some (some l)
    | none => none
  | _, _ => some none

def Obj.initCrashes (g : Grid α) (o : Obj α) : Bool :=
  axes3.any fun ax => (o.staticSize g ax).isNone || (o.staticLower g ax).isNone

def Obj.initVal (g : Grid α) (o : Obj α) (ax : Nat) (k : Kind) : Option Int :=
  let sz : Option Int := (o.staticSize g ax).getD none
  match k with
  | .size => sz
  | .lo =>
    match (o.staticLower g ax).getD none with
    | some l => some l
    | none => if o.isVol then some 0 else none
  | .hi =>
    match (o.staticLower g ax).getD none, sz with
    | some l, some s => some (l + s)
    | _, _ => none

def findObj (sys : Sys α) (id : Nat) : Option (Obj α) := sys.objs.find? (·.id == id)

/-- state before the first pass; `none` = an exception escapes -/
def init (sys : Sys α) : Option St :=
  if sys.objs.any (·.initCrashes sys.grid) then none
  else some fun v =>
    if v.ax < 3 then
      match findObj sys v.o with
      | some o => o.initVal sys.grid v.ax v.k
      | none => none
    else none

/-! ### Extension to infinity -/

def hasExt (sys : Sys α) (o ax : Nat) (hi : Bool) : Bool :=
  sys.cons.any fun
    | .ext o' _ ax' hi' _ _ _ => o' == o && ax' == ax && hi' == hi
    | _ => false

def pendingPos (sys : Sys α) (σ : St) (o ax : Nat) : Bool :=
  sys.cons.any fun
    | .pos o' t es =>
      o' == o && es.any (·.ax == ax) && ((σ ⟨t, ax, .lo⟩).isNone || (σ ⟨t, ax, .hi⟩).isNone)
    | _ => false

/-- `(o, direction) ∈ extension_obj` after all removals -/
def extensible (sys : Sys α) (σ : St) (o ax : Nat) (hi : Bool) : Bool :=
  !hasExt sys o ax hi && !pendingPos sys σ o ax &&
    (match σ ⟨o, ax, .lo⟩, σ ⟨o, ax, .hi⟩, σ ⟨o, ax, .size⟩ with
     | some _, some _, _ => false
     | some _, none, some _ => !hi
     | none, some _, some _ => hi
     | none, none, some _ => !hi
     | _, _, _ => true)

def isObj (sys : Sys α) (id : Nat) : Bool := sys.objs.any (·.id == id)

/-- the slot `v` is written by `_extend_to_inf_if_possible` -/
def extends_ (sys : Sys α) (σ : St) (v : Var) : Bool :=
  match v.k with
  | .size => false
  | .lo => v.ax < 3 && isObj sys v.o && (σ v).isNone && extensible sys σ v.o v.ax false
  | .hi => v.ax < 3 && isObj sys v.o && (σ v).isNone && extensible sys σ v.o v.ax true

/-- the state after `_extend_to_inf_if_possible`, pointwise -/
def extendPt (sys : Sys α) (σ : St) : St := fun v =>
  if extends_ sys σ v then
    (match v.k with
     | .lo => some 0
     | _ => σ ⟨volId sys, v.ax, .size⟩)
  else σ v

/-- every slot of every object -/
def objVars (sys : Sys α) : List Var :=
  sys.objs.flatMap fun o => axes3.flatMap fun ax => [⟨o.id, ax, .lo⟩, ⟨o.id, ax, .hi⟩, ⟨o.id, ax, .size⟩]

/-- the values `extendPt` gives to the object slots, as a table (computed once per extension round) -/
def extendTbl (sys : Sys α) (σ : St) : List (Var × Option Int) :=
  (objVars sys).map fun v => (v, extendPt sys σ v)

/-- a state given by a table over some slots and a fallback state (`noinline`: the table must be an
evaluated argument of the closure, not a computation inside it) -/
@[noinline] def stOfTbl (tbl : List (Var × Option Int)) (σ : St) : St := fun v =>
  match tbl.lookup v with
  | some r => r
  | none => σ v

/-- `extendPt`, tabulated so that states do not become towers of closures; the table is an evaluated
value captured by the closure (`extend = extendPt` is proved in FdtdxLemmas/C26Loop.lean) -/
def extend (sys : Sys α) (σ : St) : St := stOfTbl (extendTbl sys σ) σ

/-- `resolved_something` of `_extend_to_inf_if_possible` -/
def extChanged (sys : Sys α) (σ : St) : Bool :=
  sys.objs.any fun o => axes3.any fun ax => extends_ sys σ ⟨o.id, ax, .lo⟩ || extends_ sys σ ⟨o.id, ax, .hi⟩

/-! ### Loop, validation, entry point -/

def sliceUnknown (σ : St) (id : Nat) : Bool :=
  axes3.any fun ax => (σ ⟨id, ax, .lo⟩).isNone || (σ ⟨id, ax, .hi⟩).isNone

/-- `_handle_unresolved_objects` -/
def unresolved (sys : Sys α) (σ : St) : List Nat :=
  (sys.objs.filter fun o => sliceUnknown σ o.id).map (·.id)

/-- `for iteration in range(max_iter)`; `none` = an exception escapes -/
def loop (sys : Sys α) (gs : List Group) : Nat → St → List Nat → Option (St × List Nat)
  | 0, σ, e => some (σ, sys.objs.map (·.id) ++ e)          -- max_iter reached: nothing was verified
  | n + 1, σ, e =>
    match runGroups gs ⟨σ, e, false⟩ with
    | none => none
    | some s =>
      if s.chg then loop sys gs n s.σ s.errs
      else if extChanged sys s.σ then loop sys gs n (stOfTbl (extendTbl sys s.σ) s.σ) s.errs   -- = extend sys s.σ
      else some (s.σ, unresolved sys s.σ ++ s.errs)

inductive Outcome
  | raised
  | done (σ : St) (errs : List Nat)

/-- bounds validation of one non-volume object: `none` = TypeError (volume bound unknown),
`some b` = flagged or not -/
def objBad (σ : St) (vol id : Nat) : Option Bool :=
  if sliceUnknown σ id then some true
  else if axes3.any (fun ax => (σ ⟨vol, ax, .lo⟩).isNone || (σ ⟨vol, ax, .hi⟩).isNone) then none
  else some (axes3.any fun ax =>
    match σ ⟨id, ax, .lo⟩, σ ⟨id, ax, .hi⟩, σ ⟨vol, ax, .lo⟩, σ ⟨vol, ax, .hi⟩ with
    | some s1, some s2, some v1, some v2 => decide (s1 < v1) || decide (s2 > v2) || decide (s2 ≤ s1)
    | _, _, _, _ => true)

def validate (sys : Sys α) (σ : St) (errs : List Nat) : Option (List Nat) :=
  let vol := volId sys
  let others := sys.objs.filter fun o => o.id != vol
  if others.any (fun o => (objBad σ vol o.id).isNone) then none
  else some ((others.filter fun o => (objBad σ vol o.id) == some true).map (·.id) ++ errs)

def nodupIds : List Nat → Bool
  | [] => true
  | x :: xs => !xs.contains x && nodupIds xs

/-- the checks at the top of `resolve_object_constraints` / `_resolve_volume_name` -/
def wellFormed (sys : Sys α) : Bool :=
  nodupIds (sys.objs.map (·.id)) &&
  (sys.objs.filter (·.isVol)).length == 1 &&
  sys.cons.all fun c => isObj sys c.owner && (match c.other with | some t => isObj sys t | none => true)

/-- `resolve_object_constraints` -/
def solve (sys : Sys α) (maxIter : Nat) : Outcome :=
  if !wellFormed sys then .raised
  else
    match init sys with
    | none => .raised
    | some σ₀ =>
      match loop sys (groups sys) maxIter σ₀ [] with
      | none => .raised
      | some (σ, e) =>
        match validate sys σ e with
        | none => .raised
        | some e' => .done σ e'

/-! ### Behaviour of the pinned tree before the fixes -/
namespace AsFound

/-- the "check if we already resolved everything" test -/
def allResolved (sys : Sys α) (σ : St) : Bool :=
  sys.objs.all fun o => axes3.all fun ax =>
    (σ ⟨o.id, ax, .size⟩).isSome && (σ ⟨o.id, ax, .lo⟩).isSome && (σ ⟨o.id, ax, .hi⟩).isSome

/-- step 2 with `if b0 is not None and b1 is not None: continue` -/
def posGroupsAll (sys : Sys α) (σ : St) : List Group :=
  (C26.posGroupsAll sys).filter fun g =>
    g.atoms.any fun a => (σ ⟨a.target.o, a.target.ax, .lo⟩).isNone || (σ ⟨a.target.o, a.target.ax, .hi⟩).isNone

def loop (sys : Sys α) : Nat → St → List Nat → Option (St × List Nat)
  | 0, σ, e => some (σ, unresolved sys σ ++ e)
  | n + 1, σ, e =>
    if allResolved sys σ then some (σ, e)
    else
      match runGroups (posGroupsAll sys σ ++ bookGroups sys ++ conGroups sys true) ⟨σ, e, false⟩ with
      | none => none
      | some s =>
        if s.chg then loop sys n s.σ s.errs
        else if extChanged sys s.σ then loop sys n (stOfTbl (extendTbl sys s.σ) s.σ) s.errs
        else some (s.σ, unresolved sys s.σ ++ s.errs)

def solve (sys : Sys α) (maxIter : Nat) : Outcome :=
  if !wellFormed sys then .raised
  else
    match init sys with
    | none => .raised
    | some σ₀ =>
      match loop sys maxIter σ₀ [] with
      | none => .raised
      | some (σ, e) =>
        match validate sys σ e with
        | none => .raised
        | some e' => .done σ e'

end AsFound
end Scalar

/-! ### Driver -/
open Proto

abbrev P := StateT (List String) Option

def tok : P String := fun s =>
  match s with
  | [] => none
  | t :: ts => some (t, ts)

def pNat : P Nat := do
  let t ← tok
  match t.toNat? with
  | some n => pure n
  | none => failure

def pInt : P Int := do
  let t ← tok
  match t.toInt? with
  | some n => pure n
  | none => failure

def pFloat : P Float := do
  let t ← tok
  match floatOfHex t with
  | some x => pure x
  | none => failure

def pBool : P Bool := do
  let n ← pNat
  if n = 0 then pure false else if n = 1 then pure true else failure

def pOpt {β : Type} (p : P β) : P (Option β) := fun s =>
  match s with
  | "N" :: ts => some (none, ts)
  | _ => (p s).map fun (x, r) => (some x, r)

def pMany {β : Type} (p : P β) : Nat → P (List β)
  | 0 => pure []
  | n + 1 => do
    let x ← p
    let xs ← pMany p n
    pure (x :: xs)

def pKey (k : String) : P Unit := do
  let t ← tok
  if t = k then pure () else failure

def pEdges : P (List Float) := do
  pKey "E"
  let n ← pNat
  pMany pFloat n

def pAxis : P Nat := do
  let a ← pNat
  if a < 3 then pure a else failure

def pObj : P (Obj Float) := do
  let id ← pNat
  let v ← pBool
  let gs ← pMany (pOpt pInt) 3
  let rs ← pMany (pOpt pFloat) 3
  let rp ← pMany (pOpt pFloat) 3
  pure ⟨id, v, gs, rs, rp⟩

def pCon : P (Con Float) := do
  let t ← tok
  match t with
  | "G" =>
    let o ← pNat
    let k ← pNat
    let es ← pMany (do let a ← pAxis; let s ← pBool; let c ← pInt; pure (a, s, c)) k
    pure (.gridc o es)
  | "R" =>
    let o ← pNat
    let k ← pNat
    let es ← pMany (do let a ← pAxis; let s ← pBool; let c ← pFloat; pure (a, s, c)) k
    pure (.realc o es)
  | "P" =>
    let o ← pNat
    let u ← pNat
    let k ← pNat
    let es ← pMany (do
      let a ← pAxis; let own ← pFloat; let oth ← pFloat; let m ← pOpt pFloat; let gm ← pOpt pInt
      pure (⟨a, own, oth, m, gm⟩ : PosE Float)) k
    pure (.pos o u es)
  | "S" =>
    let o ← pNat
    let u ← pNat
    let k ← pNat
    let es ← pMany (do
      let a ← pAxis; let oa ← pAxis; let pr ← pFloat; let off ← pOpt pFloat; let go ← pOpt pInt
      pure (⟨a, oa, pr, off, go⟩ : SizeE Float)) k
    pure (.size o u es)
  | "X" =>
    let o ← pNat
    let u ← pOpt pNat
    let a ← pAxis
    let hi ← pBool
    let op ← pFloat
    let off ← pOpt pFloat
    let go ← pOpt pInt
    pure (.ext o u a hi op off go)
  | _ => failure

def pSys : P (Sys Float × Nat) := do
  let maxIter ← pNat
  let uni ← pBool
  let h ← pFloat
  let ex ← pEdges
  let ey ← pEdges
  let ez ← pEdges
  pKey "O"
  let n ← pNat
  let objs ← pMany pObj n
  pKey "C"
  let m ← pNat
  let cons ← pMany pCon m
  pure (⟨⟨ex, ey, ez, uni, h, 1e-6, Float.ofInt⟩, objs, cons⟩, maxIter)

def showOpt : Option Int → String
  | some x => toString x
  | none => "N"

def showOutcome (sys : Sys Float) : Outcome → String
  | .raised => "raised"
  | .done σ errs =>
    let es := (sys.objs.filter fun o => errs.contains o.id).map fun o => toString o.id
    let sl := sys.objs.map fun o =>
      joinSp (toString o.id :: (axes3.flatMap fun ax => [showOpt (σ ⟨o.id, ax, .lo⟩), showOpt (σ ⟨o.id, ax, .hi⟩)]))
    s!"done | {joinSp es} | {" ; ".intercalate sl}"

/-- ops:
  `solve   <maxIter> <uniform> <h> E n e… E n e… E n e… O n <obj>… C m <con>…`   solver after the fixes
  `asfound …same…`                                                              solver of the pinned tree
  reply: `raised`  |  `done | <flagged ids> | id lo hi lo hi lo hi ; …`  (N = None)
-/
def handle : List String → String
  | "solve" :: rest =>
    match pSys rest with
    | some ((sys, maxIter), []) => showOutcome sys (solve sys maxIter)
    | _ => "bad-op"
  | "asfound" :: rest =>
    match pSys rest with
    | some ((sys, maxIter), []) => showOutcome sys (AsFound.solve sys maxIter)
    | _ => "bad-op"
  | _ => "bad-op"

end Fdtdx.C26
