/-
C34 — model of the symmetric-placement bookkeeping.

Mirrors
  fdtdx/core/misc.py      : `validate_symmetric_axis_cells`
  fdtdx/fdtd/symmetry.py  : `reduce_resolved_slices` (plane index, reduced volume, per-object clip / drop /
                            unclipped extent), `make_symmetry_walls` (which axes get a wall, its slice, its name)
  fdtdx/core/grid.py      : `RectilinearGrid.reduce_symmetric` (per axis: `reduceEdges`, generic scalars)
as called from `place_objects` (fdtdx/fdtd/initialization.py, steps 4, 5, 6, 7, 8).

Everything is integer arithmetic on `(start, stop)` pairs; `n // 2` is only evaluated for `n ≥ 2`, where
Python's floor division and Lean's `/` on `Int` agree.  Warnings (asymmetric straddle, dropped Bloch boundary)
are not modelled.  The grid re-resolution of step 5 is not modelled (K observes its result, the reduced shape).
-/
import FdtdxModel.Proto
namespace Fdtdx.C34

abbrev Sl := Int × Int

/-- `validate_symmetric_axis_cells` raises -/
def badCells (n : Int) : Bool := n < 2 || n % 2 != 0

/-- per axis: absolute index of the symmetry plane (`mid_abs[a]`); `none` = ValueError -/
def planeIndex (sym : Int) (vol : Sl) : Option Int :=
  if sym ≠ 0 then
    if badCells (vol.2 - vol.1) then none else some (vol.1 + (vol.2 - vol.1) / 2)
  else some vol.1

/-- per axis: the reduced volume slice (`new_vol[a]`) -/
def reducedVol (sym : Int) (vol : Sl) (m : Int) : Sl :=
  if sym ≠ 0 then (0, vol.2 - m) else vol

/-- per axis: the volume's recorded unclipped slice -/
def volUnreduced (sym : Int) (vol : Sl) (m : Int) : Sl :=
  if sym ≠ 0 then (vol.1 - m, vol.2 - m) else vol

/-- per axis: clipped slice of an object -/
def clipAxis (sym : Int) (volHi m : Int) (s : Sl) : Sl :=
  if sym ≠ 0 then (max s.1 m - m, min s.2 volHi - m) else s

/-- per axis: the object is dropped because of this axis -/
def dropAxis (sym : Int) (volHi m : Int) (s : Sl) : Bool :=
  sym ≠ 0 && decide ((clipAxis sym volHi m s).2 ≤ (clipAxis sym volHi m s).1)

/-- per axis: recorded unclipped extent (reduced coordinates) -/
def unclippedAxis (sym : Int) (m : Int) (s : Sl) : Sl :=
  if sym ≠ 0 then (s.1 - m, s.2 - m) else s

structure Reduced where
  vol : List Sl                 -- new volume slice per axis
  volUn : List Sl               -- volume's unreduced slice
  shape : List Int              -- reduced_volume_shape
  objs : List (Option (List Sl × List Sl))   -- per object: none = dropped, else (clipped, unclipped)
  deriving Repr

/-- `reduce_resolved_slices` on three axes; `none` = ValueError (odd / too small symmetric axis) -/
def reduceSlices (sym : List Int) (vol : List Sl) (objs : List (List Sl)) : Option Reduced := do
  let ms ← (List.range 3).mapM (fun a => planeIndex (sym.getD a 0) (vol.getD a (0, 0)))
  let ax := fun (a : Nat) => (sym.getD a 0, vol.getD a (0, 0), ms.getD a 0)
  let nv := (List.range 3).map (fun a => let (s, v, m) := ax a; reducedVol s v m)
  let vu := (List.range 3).map (fun a => let (s, v, m) := ax a; volUnreduced s v m)
  let os := objs.map (fun o =>
    let drop := (List.range 3).any (fun a => let (s, v, m) := ax a; dropAxis s v.2 m (o.getD a (0, 0)))
    if drop then none else
      some ((List.range 3).map (fun a => let (s, v, m) := ax a; clipAxis s v.2 m (o.getD a (0, 0))),
            (List.range 3).map (fun a => let (s, _, m) := ax a; unclippedAxis s m (o.getD a (0, 0)))))
  pure { vol := nv, volUn := vu, shape := nv.map (fun p => p.2 - p.1), objs := os }

/-- `straddles_symmetry_plane`: the recorded unclipped start is negative -/
def straddles (unclippedStart : Int) : Bool := unclippedStart < 0

/-- axes that get a wall object (`make_symmetry_walls`): electric planes only -/
def wallAxes (sym : List Int) : List Nat := (List.range 3).filter (fun a => sym.getD a 0 == -1)

/-- grid slice of the wall on axis `a` -/
def wallSlice (shape : List Int) (a : Nat) : List Sl :=
  (List.range 3).map (fun b => if b = a then (0, 1) else (0, shape.getD b 0))

def axisName (a : Nat) : String := match a with | 0 => "x" | 1 => "y" | _ => "z"

/-- `f"_sym_wall_{_AXIS_NAMES[a]}"` -/
def wallBase (a : Nat) : String := "_sym_wall_" ++ axisName a

/-- candidate `k` of the unique-name loop: the base name, then `base_1`, `base_2`, … (decimal counter) -/
def wallCandidate (a : Nat) (k : Nat) : String :=
  wallBase a ++ (if k = 0 then "" else "_" ++ toString k)

/-- first candidate not in use (the `while name in used` loop; at most `used.length` collisions) -/
def wallName (used : List String) (a : Nat) : String :=
  match (List.range (used.length + 1)).find? (fun k => !used.contains (wallCandidate a k)) with
  | some k => wallCandidate a k
  | none => wallCandidate a (used.length + 1)

/-- names of all walls, in axis order, each added to `used` before the next -/
def wallNames (used : List String) (axes : List Nat) : List String :=
  match axes with
  | [] => []
  | a :: rest => let n := wallName used a; n :: wallNames (n :: used) rest

/-! ### explicit non-uniform grids: `RectilinearGrid.reduce_symmetric` (fdtdx/core/grid.py)

Generic scalars: `le` is the comparison (`fun a b => a <= b` on binary64, `decide (a ≤ b)` in the theorems). -/

/-- `np.diff(edges)` -/
def widths {α : Type} [Sub α] (e : List α) : List α := List.zipWith (fun a b => b - a) e (e.drop 1)

def absv {α : Type} [Neg α] [OfNat α 0] (le : α → α → Bool) (x : α) : α := if le 0 x then x else -x

/-- one entry of `jnp.allclose(a, b, rtol, atol=0)`: `|a - b| <= rtol * |b|` -/
def closeTo {α : Type} [Sub α] [Mul α] [Neg α] [OfNat α 0] (le : α → α → Bool) (rtol a b : α) : Bool :=
  le (absv le (a - b)) (rtol * absv le b)

/-- `allclose(widths, widths[::-1], rtol=1e-4, atol=0.0)` -/
def mirrorSymmetric {α : Type} [Sub α] [Mul α] [Neg α] [OfNat α 0] (le : α → α → Bool) (rtol : α)
    (w : List α) : Bool :=
  (List.zipWith (closeTo le rtol) w w.reverse).all id

inductive GridErr where
  | cells      -- odd or < 2 cell count (validate_symmetric_axis_cells)
  | widths     -- cell widths not mirror-symmetric about the centre
  deriving DecidableEq, Repr

/-- one axis of `reduce_symmetric`: the kept edges `edges[n // 2:]`, or the ValueError raised -/
def reduceEdges {α : Type} [Sub α] [Mul α] [Neg α] [OfNat α 0] (le : α → α → Bool) (rtol : α)
    (sym : Int) (e : List α) : Except GridErr (List α) :=
  if sym = 0 then .ok e else
  let n : Int := (e.length : Int) - 1
  if badCells n then .error .cells
  else if !mirrorSymmetric le rtol (widths e) then .error .widths
  else .ok (e.drop ((e.length - 1) / 2))

/-- rebuild the full widths from the kept ones: `concatenate([flip(widths), widths])` -/
def mirrorWidths {α : Type} (w : List α) : List α := w.reverse ++ w

/-! ### Driver -/
open Proto

def showSl (p : Sl) : String := s!"{p.1} {p.2}"
def showSls (l : List Sl) : String := joinSp (l.map showSl)

def pairs : List Int → List Sl
  | a :: b :: t => (a, b) :: pairs t
  | _ => []

/-- ops:
  `reduce sx sy sz v0 v1 v2 v3 v4 v5 k (6 ints per object)…`
       → `error` | `vol | volUnreduced | shape | obj ; obj ; … | wall axes | wall slices`
         obj = `D` (dropped) or `clipped(6) / unclipped(6)`
  `wallnames a… | used names…`   (axes then `|` then the names in use)
  `grid sym rtol e0 e1 …`         → `ok kept edges…` | `error cells` | `error widths` (one axis of reduce_symmetric)
-/
def handle : List String → String
  | "reduce" :: sx :: sy :: sz :: rest =>
    match intsOf [sx, sy, sz], intsOf rest with
    | some sym, some (v0 :: v1 :: v2 :: v3 :: v4 :: v5 :: k :: os) =>
      if k < 0 ∨ os.length ≠ 6 * k.toNat then "bad-op" else
      let vol := pairs [v0, v1, v2, v3, v4, v5]
      let objs := (List.range k.toNat).map (fun i => pairs ((os.drop (6 * i)).take 6))
      match reduceSlices sym vol objs with
      | none => "error"
      | some r =>
        let so := r.objs.map (fun o => match o with
          | none => "D"
          | some (c, u) => s!"{showSls c} / {showSls u}")
        let wa := wallAxes sym
        s!"{showSls r.vol} | {showSls r.volUn} | {showInts r.shape} | {" ; ".intercalate so} | {showNats wa} | {" ; ".intercalate (wa.map (fun a => showSls (wallSlice r.shape a)))}"
    | _, _ => "bad-op"
  | "grid" :: sym :: rtol :: es =>
    match parseInt sym, floatOfHex rtol, floatsOfHex es with
    | some sym, some rtol, some es =>
      if es.length < 2 then "bad-op" else
      match reduceEdges (fun (a b : Float) => decide (a ≤ b)) rtol sym es with
      | .ok r => s!"ok {showFloats r}"
      | .error .cells => "error cells"
      | .error .widths => "error widths"
    | _, _, _ => "bad-op"
  | "wallnames" :: rest =>
    let axes := rest.takeWhile (· ≠ "|")
    let used := (rest.dropWhile (· ≠ "|")).drop 1
    match natsOf axes with
    | some ax => if ax.any (· > 2) then "bad-op" else joinSp (wallNames used ax)
    | none => "bad-op"
  | _ => "bad-op"

end Fdtdx.C34
