/-
C05 — model of the forward time loops of `fdtdx/fdtd/fdtd.py` and of the dispatch in
`fdtdx/fdtd/wrapper.py` (shared by C06 and C07, which import this file).

Mirrors:
  _reversible_slice_boundaries(T, k) = [round(i*T/k) for i in range(k+1)]
        `roundHalfEven n d` is Python's `round` (half to even) of the EXACT rational n/d.  The code
        forms i*T/k in binary64 first; that quotient is the correctly rounded value of the rational, and it
        is a tie / below a tie / above a tie exactly when the rational is, as long as i*T < 2^53 and the
        quotient's fraction is representable at that magnitude (true for every run length that fits in
        memory).  Stated as a hypothesis of the model; checked exhaustively by K for T ≤ 40 (200).
  eqxi.while_loop(max_steps, cond_fun, body_fun, init_val)  = `whileLoop` (at most max_steps iterations,
        stops at the first state whose cond is false)
  forward(state) = (t+1, body t arrays)                     = `step body`   (body is a parameter: the Yee
        update + sources + detector recording of step t; nothing about it is assumed)
  reversible_fdtd: reset, `num_ckpt > 0 and num_slices > T` error, `segmented_forward` (one while loop per
        slice with max_steps = hi - lo and cond hi > t; the FieldState after every slice but the last is
        captured as a checkpoint)                           = `reversibleRun`, `segState`, `checkpointsOf`
  checkpointed_fdtd: reset, while_loop(max_steps = T, cond = stopping condition (default
        TimeStepCondition: T > t))                          = `checkpointedRun`, `timeStepCond`
  run_fdtd: NotImplementedError for (stopping_condition, gradient_config) both given; dispatch on
        gradient_config None / "checkpointed" / "reversible" = `runFdtd`

Simplified: the time step is a `Nat` (int32 in the code); `kind="lax"/"checkpointed"` and the number of
`checkpoints` of the equinox loop only change how the reverse pass recomputes, not the primal value, so they do
not appear; the dispersive `NotImplementedError` of `reversible_fdtd` is the flag `dispersive`.
-/
import FdtdxModel.Proto
namespace Fdtdx.C05

/-- Python `round(n/d)` of the exact rational `n/d` (`d > 0`): nearest integer, ties to even. -/
def roundHalfEven (n d : Nat) : Nat :=
  if 2 * (n % d) < d then n / d
  else if d < 2 * (n % d) then n / d + 1
  else if (n / d) % 2 = 0 then n / d else n / d + 1

/-- `s_i = round(i*T/k)` -/
def boundary (T k i : Nat) : Nat := roundHalfEven (i * T) k

/-- `_reversible_slice_boundaries(T, k)` (k ≥ 1; `k = 0` is a ZeroDivisionError in Python, unreachable from
`reversible_fdtd` where `k = num_checkpoints_reversible + 1`). -/
def sliceBoundaries (T k : Nat) : List Nat := (List.range (k + 1)).map (boundary T k)

/-- `eqxi.while_loop(max_steps=m, cond_fun, body_fun, init_val)` -/
def whileLoop {τ : Type} (cond : τ → Bool) (body : τ → τ) : Nat → τ → τ
  | 0, s => s
  | m + 1, s => if cond s then whileLoop cond body m (body s) else s

/-- one `forward` call: the arrays are updated with the step index `t`, then `t` is incremented -/
def step {σ : Type} (body : Nat → σ → σ) (s : Nat × σ) : Nat × σ := (s.1 + 1, body s.1 s.2)

/-- `TimeStepCondition.__call__`: continue while `T > t` -/
def timeStepCond {σ : Type} (T : Nat) (s : Nat × σ) : Bool := decide (T > s.1)

/-- state after the first `seg` slices of `segmented_forward` (boundaries `b`) -/
def segState {σ : Type} (b : Nat → Nat) (body : Nat → σ → σ) (s0 : Nat × σ) : Nat → Nat × σ
  | 0 => s0
  | seg + 1 =>
    whileLoop (fun s => decide (b (seg + 1) > s.1)) (step body) (b (seg + 1) - b seg) (segState b body s0 seg)

/-- the checkpoints captured by `segmented_forward`: arrays after slice 1 … k-1 -/
def checkpointsOf {σ : Type} (b : Nat → Nat) (body : Nat → σ → σ) (s0 : Nat × σ) (k : Nat) : List σ :=
  (List.range (k - 1)).map (fun i => (segState b body s0 (i + 1)).2)

/-- `segmented_forward(arr)` with `num_slices = k` -/
def segmentedForward {σ : Type} (T k : Nat) (body : Nat → σ → σ) (a : σ) : (Nat × σ) × List σ :=
  (segState (boundary T k) body (0, a) k, checkpointsOf (boundary T k) body (0, a) k)

/-- `reversible_fdtd` forward value (no differentiation) -/
def reversibleRun {σ : Type} (T numCkpt : Nat) (dispersive : Bool) (reset : σ → σ) (body : Nat → σ → σ) (a : σ) :
    Except String (Nat × σ) :=
  if dispersive then .error "NotImplementedError"
  else if numCkpt > 0 ∧ numCkpt + 1 > T then .error "num_checkpoints_reversible"
  else .ok (segmentedForward T (numCkpt + 1) body (reset a)).1

/-- `checkpointed_fdtd` with stopping condition `cond` -/
def checkpointedRun {σ : Type} (T : Nat) (cond : Nat × σ → Bool) (reset : σ → σ) (body : Nat → σ → σ) (a : σ) :
    Nat × σ :=
  whileLoop cond (step body) T (0, reset a)

/-- `config.gradient_config` -/
inductive Grad where
  | none
  | checkpointed (numCheckpoints : Nat)
  | reversible (numCkptReversible : Nat)
  deriving Repr, DecidableEq

/-- `run_fdtd(arrays, objects, config, stopping_condition)` -/
def runFdtd {σ : Type} (T : Nat) (g : Grad) (stopping : Option (Nat × σ → Bool)) (dispersive : Bool)
    (reset : σ → σ) (body : Nat → σ → σ) (a : σ) : Except String (Nat × σ) :=
  match g, stopping with
  | .checkpointed _, some _ => .error "NotImplementedError"
  | .reversible _, some _ => .error "NotImplementedError"
  | .none, some c => .ok (checkpointedRun T c reset body a)
  | .none, none => .ok (checkpointedRun T (timeStepCond T) reset body a)
  | .checkpointed _, none => .ok (checkpointedRun T (timeStepCond T) reset body a)
  | .reversible c, none => reversibleRun T c dispersive reset body a

/-! ### Driver: the loops are run on a state that logs the step indices handed to `forward` -/
open Proto

/-- logging body: the "arrays" are the list of step indices executed so far -/
def logBody (t : Nat) (a : List Nat) : List Nat := a ++ [t]

def showRun (r : Nat × List Nat) : String := s!"{r.1} | {showNats r.2}"

/-- ops:
  `bounds T k`        → the k+1 slice boundaries                      (`error` for k = 0)
  `rev T c pre`       → reversible run with c interior checkpoints, started from a container whose log
                        already holds `pre` entries (reset empties it):
                        `final t | executed steps | number of steps executed before each checkpoint`
  `ckpt T pre`        → checkpointed / no-gradient run: `final t | executed steps`
  `run T g x pre sc`  → run_fdtd dispatch, g ∈ {none, ckpt, rev}, x = checkpoint count, sc ∈ {0,1} custom stopping
                        condition given (the model uses TimeStepCondition for it): `final t | executed steps` or error
-/
def handle : List String → String
  | ["bounds", T, k] =>
    match natsOf [T, k] with
    | some [T, k] => if k = 0 then "error" else showNats (sliceBoundaries T k)
    | _ => "bad-op"
  | ["rev", T, c, pre] =>
    match natsOf [T, c, pre] with
    | some [T, c, pre] =>
      let a0 := List.replicate pre 0
      match reversibleRun T c false (fun _ => ([] : List Nat)) logBody a0 with
      | .error e => "error " ++ e
      | .ok r =>
        let cps := (segmentedForward T (c + 1) logBody ([] : List Nat)).2
        s!"{showRun r} | {showNats (cps.map List.length)}"
    | _ => "bad-op"
  | ["ckpt", T, pre] =>
    match natsOf [T, pre] with
    | some [T, pre] =>
      showRun (checkpointedRun T (timeStepCond T) (fun _ => ([] : List Nat)) logBody (List.replicate pre 0))
    | _ => "bad-op"
  | ["run", T, g, x, pre, sc] =>
    match natsOf [T, x, pre, sc] with
    | some [T, x, pre, sc] =>
      let gr : Option Grad := if g = "none" then some .none else if g = "ckpt" then some (.checkpointed x)
        else if g = "rev" then some (.reversible x) else none
      match gr with
      | none => "bad-op"
      | some gr =>
        if sc > 1 then "bad-op" else
        let stop : Option (Nat × List Nat → Bool) := if sc = 1 then some (timeStepCond T) else none
        match runFdtd T gr stop false (fun _ => ([] : List Nat)) logBody (List.replicate pre 0) with
        | .error e => "error " ++ e
        | .ok r => showRun r
    | _ => "bad-op"
  | _ => "bad-op"

end Fdtdx.C05
