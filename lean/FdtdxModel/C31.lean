/-
C31 — model of `fdtdx/conversion/json.py`: `_export_json` and `_import_obj_from_json` on a value AST.

`Val` is the serialisable fragment of Python values that `_export_json` accepts:
  None, bool, int/float (`Num`), str, a JAX dtype, numpy/JAX arrays (their `tolist()` data), dataclasses (public
  `__dict__` entries), TreeClass instances (their public = init fields), dicts with string keys, lists, tuples.
`J` is the JSON document (what `json.dumps` / `json.loads` carry).  Reserved keys, exactly as in the code:
  `__module__`, `__name__` (every wrapper), `__value__` (dataclass / sequence / array payload), `__dtype__`.

  `exportJ`  mirrors `_export_json` after the repair recorded in props/C31.findings.json: a dict containing ANY of the
             four reserved keys is rejected (the pinned tree only asserted the first two — `AsFound.exportJ` keeps
             that behaviour for the refutation witnesses).
  `importJ`  mirrors `_import_obj_from_json`: `__dtype__` first, then `__value__` (dict → dataclass kwargs,
             list → `cls(list)` for list / tuple / numpy.array, scalar → 0-d array), then `__name__ == "dict"`,
             otherwise `cls(**kwargs)`.
Abstracted (trusted, see props): `importlib`/`getattr` class lookup and the constructors `cls(**kwargs)` (the object
built from its public fields), `np.array(list)`, the dtype name table (`str(dtype)` ↔ `getattr(jax.numpy, name)`),
`json.dumps(sort_keys=True)`/`json.loads` (key order is irrelevant to `importJ` up to the order of fields).
-/
import FdtdxModel.Proto
namespace Fdtdx.C31

inductive Num where
  | int (i : Int)
  | flt (bits : Nat)        -- a binary64 by its bit pattern (opaque)
  deriving DecidableEq, Repr

inductive Val where
  | none
  | bool (b : Bool)
  | num (x : Num)
  | str (s : String)
  | dtype (name : String)                                        -- full exported name, e.g. "jax.numpy.float32"
  | array (data : Val)                                           -- `tolist()` data: nested `list`s of numbers, or a number
  | dataclass (mod name : String) (fields : List (String × Val))
  | obj (mod name : String) (fields : List (String × Val))       -- TreeClass: public fields in declaration order
  | dict (entries : List (String × Val))
  | list (items : List Val)
  | tuple (items : List Val)

inductive J where
  | null
  | bool (b : Bool)
  | num (x : Num)
  | str (s : String)
  | arr (items : List J)
  | obj (kvs : List (String × J))

def reserved : List String := ["__module__", "__name__", "__value__", "__dtype__"]

def wrap (mod name : String) (rest : List (String × J)) : J :=
  .obj (("__module__", .str mod) :: ("__name__", .str name) :: rest)

mutual
/-- `_export_json`; `none` = an exception (assertion / NotImplementedError) -/
def exportJ : Val → Option J
  | .none => some .null
  | .bool b => some (.bool b)
  | .num x => some (.num x)
  | .str s => some (.str s)
  | .dtype n => some (.obj [("__dtype__", .str n)])
  | .array d => (exportRaw d).map fun r => wrap "numpy" "array" [("__value__", r)]
  | .dataclass m n fs => (exportFields fs).map fun r => wrap m n [("__value__", .obj r)]
  | .obj m n fs => (exportFields fs).map fun r => wrap m n r
  | .dict es => (exportDict es).map fun r => wrap "builtins" "dict" r
  | .list xs => (exportList xs).map fun r => wrap "builtins" "list" [("__value__", .arr r)]
  | .tuple xs => (exportList xs).map fun r => wrap "builtins" "tuple" [("__value__", .arr r)]
/-- fields of a TreeClass / dataclass: no key check in the code -/
def exportFields : List (String × Val) → Option (List (String × J))
  | [] => some []
  | (k, v) :: rest =>
    match exportJ v, exportFields rest with
    | some a, some b => some ((k, a) :: b)
    | _, _ => Option.none
/-- entries of a dict: reserved keys are rejected -/
def exportDict : List (String × Val) → Option (List (String × J))
  | [] => some []
  | (k, v) :: rest =>
    if reserved.contains k then Option.none else
    match exportJ v, exportDict rest with
    | some a, some b => some ((k, a) :: b)
    | _, _ => Option.none
def exportList : List Val → Option (List J)
  | [] => some []
  | v :: rest =>
    match exportJ v, exportList rest with
    | some a, some b => some (a :: b)
    | _, _ => Option.none
/-- `ndarray.tolist()`: nested plain lists of numbers (not wrapped) -/
def exportRaw : Val → Option J
  | .num x => some (.num x)
  | .bool b => some (.bool b)
  | .list xs => (exportRawList xs).map .arr
  | _ => Option.none
def exportRawList : List Val → Option (List J)
  | [] => some []
  | v :: rest =>
    match exportRaw v, exportRawList rest with
    | some a, some b => some (a :: b)
    | _, _ => Option.none
end

def lookupV (fs : List (String × Val)) (k : String) : Option Val :=
  match fs.find? (fun p => p.1 == k) with
  | some p => some p.2
  | Option.none => Option.none

def dropMeta (fs : List (String × Val)) : List (String × Val) :=
  fs.filter fun p => !(p.1 == "__module__" || p.1 == "__name__")

/-- the non-recursive part of `_import_obj_from_json` for a JSON object whose entries have been imported
(`__value__` holding the imported payload: kwargs as a `dict`, a sequence as a `list`, or a scalar) -/
def assemble (fs : List (String × Val)) : Option Val :=
  match lookupV fs "__dtype__" with
  | some (.str n) => some (.dtype n)
  | some _ => Option.none
  | Option.none =>
    match lookupV fs "__module__", lookupV fs "__name__" with
    | some (.str m), some (.str n) =>
      match lookupV fs "__value__" with
      | some (.dict r) => some (.dataclass m n r)
      | some (.list r) =>
        if m == "builtins" && n == "list" then some (.list r)
        else if m == "builtins" && n == "tuple" then some (.tuple r)
        else if m == "numpy" && n == "array" then some (.array (.list r))
        else Option.none
      | some (.num x) => if m == "numpy" && n == "array" then some (.array (.num x)) else Option.none
      | some (.bool b) => if m == "numpy" && n == "array" then some (.array (.bool b)) else Option.none
      | some _ => Option.none
      | Option.none => some (if n == "dict" then .dict (dropMeta fs) else .obj m n (dropMeta fs))
    | _, _ => Option.none

mutual
/-- `_import_obj_from_json`; `none` = an exception or a class outside the modelled table -/
def importJ : J → Option Val
  | .null => some .none
  | .bool b => some (.bool b)
  | .num x => some (.num x)
  | .str s => some (.str s)
  | .arr xs => (importList xs).map .list
  | .obj kvs => (importFields kvs).bind assemble
/-- the payload under `__value__`: a JSON object is a kwargs dict (each value imported), a JSON list a sequence -/
def importPayload : J → Option Val
  | .obj fs => (importFields fs).map .dict
  | .arr xs => (importList xs).map .list
  | .null => some .none
  | .bool b => some (.bool b)
  | .num x => some (.num x)
  | .str s => some (.str s)
def importFields : List (String × J) → Option (List (String × Val))
  | [] => some []
  | (k, v) :: rest =>
    match (if k == "__value__" then importPayload v else importJ v), importFields rest with
    | some a, some b => some ((k, a) :: b)
    | _, _ => Option.none
def importList : List J → Option (List Val)
  | [] => some []
  | v :: rest =>
    match importJ v, importList rest with
    | some a, some b => some (a :: b)
    | _, _ => Option.none
end

/-! ### the pinned tree: only `__module__` and `__name__` are asserted for dict keys -/
namespace AsFound

def exportDictEntries (ex : Val → Option J) : List (String × Val) → Option (List (String × J))
  | [] => some []
  | (k, v) :: rest =>
    if k == "__module__" || k == "__name__" then Option.none else
    match ex v, exportDictEntries ex rest with
    | some a, some b => some ((k, a) :: b)
    | _, _ => Option.none

/-- export of a dict of exportable leaves, as found (enough for the witnesses) -/
def exportFlatDict (es : List (String × Val)) : Option J :=
  (exportDictEntries exportJ es).map fun r => wrap "builtins" "dict" r

end AsFound

/-! ### Driver (protocol glue) -/
open Proto

def unhex (s : String) : Option String :=
  let rec go : List Char → List Char → Option (List Char)
    | [], acc => some acc.reverse
    | a :: b :: rest, acc =>
      match hexDigit a, hexDigit b with
      | some x, some y => go rest (Char.ofNat (x * 16 + y) :: acc)
      | _, _ => Option.none
    | _, _ => Option.none
  (go s.toList []).map String.ofList

def hexStr (s : String) : String :=
  String.ofList (s.toList.flatMap fun c => [hexChar (c.toNat / 16 % 16), hexChar (c.toNat % 16)])

def nameOf (t : String) : Option String :=
  match t.toList with
  | 'x' :: rest => unhex (String.ofList rest)
  | _ => Option.none

partial def readVal (toks : List String) : Option (Val × List String) :=
  let rec many (n : Nat) (toks : List String) (acc : List Val) : Option (List Val × List String) :=
    match n with
    | 0 => some (acc.reverse, toks)
    | n + 1 => match readVal toks with
      | some (v, toks) => many n toks (v :: acc)
      | Option.none => Option.none
  let rec named (n : Nat) (toks : List String) (acc : List (String × Val)) : Option (List (String × Val) × List String) :=
    match n, toks with
    | 0, toks => some (acc.reverse, toks)
    | n + 1, k :: toks => match nameOf k, readVal toks with
      | some k, some (v, toks) => named n toks ((k, v) :: acc)
      | _, _ => Option.none
    | _, _ => Option.none
  match toks with
  | "N" :: rest => some (.none, rest)
  | "B0" :: rest => some (.bool false, rest)
  | "B1" :: rest => some (.bool true, rest)
  | "I" :: i :: rest => i.toInt?.map fun i => (.num (.int i), rest)
  | "F" :: h :: rest => (parseHex h).map fun b => (.num (.flt b), rest)
  | "S" :: s :: rest => (nameOf s).map fun s => (.str s, rest)
  | "Y" :: s :: rest => (nameOf s).map fun s => (.dtype s, rest)
  | "R" :: rest => (readVal rest).map fun (v, rest) => (.array v, rest)
  | "C" :: m :: n :: k :: rest => do
    let m ← nameOf m; let n ← nameOf n; let k ← k.toNat?
    let (fs, rest) ← named k rest []
    pure (.dataclass m n fs, rest)
  | "O" :: m :: n :: k :: rest => do
    let m ← nameOf m; let n ← nameOf n; let k ← k.toNat?
    let (fs, rest) ← named k rest []
    pure (.obj m n fs, rest)
  | "D" :: k :: rest => do
    let k ← k.toNat?
    let (fs, rest) ← named k rest []
    pure (.dict fs, rest)
  | "L" :: k :: rest => do
    let k ← k.toNat?
    let (xs, rest) ← many k rest []
    pure (.list xs, rest)
  | "T" :: k :: rest => do
    let k ← k.toNat?
    let (xs, rest) ← many k rest []
    pure (.tuple xs, rest)
  | _ => Option.none

def showNum : Num → List String
  | .int i => ["I", toString i]
  | .flt b => ["F", toHex16 b]

partial def showVal : Val → List String
  | .none => ["N"]
  | .bool b => [if b then "B1" else "B0"]
  | .num x => showNum x
  | .str s => ["S", "x" ++ hexStr s]
  | .dtype s => ["Y", "x" ++ hexStr s]
  | .array d => "R" :: showVal d
  | .dataclass m n fs => ["C", "x" ++ hexStr m, "x" ++ hexStr n, toString fs.length] ++ fs.flatMap fun p => ("x" ++ hexStr p.1) :: showVal p.2
  | .obj m n fs => ["O", "x" ++ hexStr m, "x" ++ hexStr n, toString fs.length] ++ fs.flatMap fun p => ("x" ++ hexStr p.1) :: showVal p.2
  | .dict fs => ["D", toString fs.length] ++ fs.flatMap fun p => ("x" ++ hexStr p.1) :: showVal p.2
  | .list xs => ["L", toString xs.length] ++ xs.flatMap showVal
  | .tuple xs => ["T", toString xs.length] ++ xs.flatMap showVal

partial def showJ : J → List String
  | .null => ["n"]
  | .bool b => [if b then "b1" else "b0"]
  | .num (.int i) => ["i", toString i]
  | .num (.flt b) => ["f", toHex16 b]
  | .str s => ["s", "x" ++ hexStr s]
  | .arr xs => ["a", toString xs.length] ++ xs.flatMap showJ
  | .obj kvs => ["o", toString kvs.length] ++ kvs.flatMap fun p => ("x" ++ hexStr p.1) :: showJ p.2

/-- ops:
  `export <val>`  → `error` | `ok <json> | same` | `ok <json> | diff <re-imported val or error>`
      (`same` = `importJ (exportJ v)` renders identically to `v`) -/
def handle : List String → String
  | "export" :: rest =>
    match readVal rest with
    | some (v, []) =>
      match exportJ v with
      | Option.none => "error"
      | some j =>
        let back := match importJ j with
          | some v' => if showVal v' == showVal v then ["same"] else "diff" :: showVal v'
          | Option.none => ["diff", "error"]
        joinSp (["ok"] ++ showJ j ++ ["|"] ++ back)
    | _ => "bad-op"
  | _ => "bad-op"

end Fdtdx.C31
