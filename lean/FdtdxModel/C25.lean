/-
C25 — model of `BrushConstraint2D._generator` (objects/device/parameters/discretization.py) and of
`dilate_jax` (binary_transform.py) for odd-sized brushes, and of `circular_brush` (`circularBrush`, rational diameter).

  dilate_jax(img, brush)  : `dil` — `convolve2d(img, brush, mode="same", boundary="fill") != 0`:
                            out[i][j] = ∃ (a,b) with brush[a][b] and img[i + c - a][j + c - b], c = (size-1)/2
                            (a true convolution: the brush is applied point-reflected; irrelevant for symmetric brushes)
  cond_fn                 : `uncovered`
  body_fn                 : `derive` (all intermediate arrays of Algorithm 1), `choose` (which touches to add:
                            case 1 all free touches, case 2 best resolving touch, case 3 best valid touch, with
                            `argmax` of `where(mask, ±arr, -inf)`: first maximal entry, index 0 when every entry is
                            -inf), `apply`
  eqxi.while_loop         : `run` with a fuel; the real loop is unbounded.  The driver reports when the fuel runs
                            out or an iteration changes nothing (then the real loop would spin forever).

Design values are generic (`Float` in the driver); `-inf` is `none`.
-/
import FdtdxModel.Proto
namespace Fdtdx.C25

abbrev Img := Nat → Nat → Bool
abbrev Tab := Array (Array Bool)

structure Dims where
  h : Nat
  w : Nat
  deriving Repr, DecidableEq

def inb (d : Dims) (i j : Nat) : Bool := decide (i < d.h) && decide (j < d.w)

def row {α : Type} (n : Nat) (f : Nat → α) : Array α := ((List.range n).map f).toArray
def tab (d : Dims) (f : Img) : Tab := row d.h fun i => row d.w fun j => f i j
def look (t : Tab) : Img := fun i j => (t.getD i #[]).getD j false

def anyCells (d : Dims) (p : Img) : Bool :=
  (List.range d.h).any fun i => (List.range d.w).any fun j => p i j

/-- square brush of odd size `2c+1`, `cells a b` for `a, b ≤ 2c` -/
structure Brush where
  c : Nat
  cells : Tab

def Brush.size (b : Brush) : Nat := 2 * b.c + 1

/-- squared distance |a - c|² with truncated subtraction (one of the two terms is zero) -/
def sqd (a c : Nat) : Nat := (a - c) * (a - c) + (c - a) * (c - a)

/-- `circular_brush(diameter = p/q)`: size = ceil(diameter) rounded up to the next odd number, cell (a, b) is set iff its
distance to the centre is ≤ diameter/2, i.e. 4·q²·dist² ≤ p² (exact; the code compares `sqrt(dist²) <= diameter / 2`) -/
def circularBrush (p q : Nat) : Brush :=
  let s0 := (p + q - 1) / q
  let s := if s0 % 2 = 0 then s0 + 1 else s0
  let c := (s - 1) / 2
  ⟨c, tab ⟨2 * c + 1, 2 * c + 1⟩ fun a b => decide (4 * q * q * (sqd a c + sqd b c) ≤ p * p)⟩

/-- `dilate_jax` on the function view (img is false outside the domain) -/
def dilI (b : Brush) (img : Img) : Img := fun i j =>
  (List.range b.size).any fun a => (List.range b.size).any fun bb =>
    look b.cells a bb && decide (a ≤ i + b.c) && decide (bb ≤ j + b.c) && img (i + b.c - a) (j + b.c - bb)

def dil (d : Dims) (b : Brush) (t : Tab) : Tab := tab d (dilI b (look t))

def orT (d : Dims) (x y : Tab) : Tab := tab d fun i j => look x i j || look y i j
def andT (d : Dims) (x y : Tab) : Tab := tab d fun i j => look x i j && look y i j
def notT (d : Dims) (x : Tab) : Tab := tab d fun i j => !look x i j

structure State where
  v : Tab   -- touches_void
  s : Tab   -- touches_solid

/-- the arrays computed at the top of `body_fn` -/
structure Derived where
  pixS : Tab
  pixV : Tab
  validS : Tab
  validV : Tab
  resS : Tab
  resV : Tab
  freeS : Tab
  freeV : Tab

def derive (d : Dims) (b : Brush) (st : State) : Derived :=
  let pixS := dil d b st.s
  let pixV := dil d b st.v
  let impS := dil d b pixV
  let impV := dil d b pixS
  let validS := andT d (notT d impS) (notT d st.s)
  let validV := andT d (notT d impV) (notT d st.v)
  let possS := dil d b (orT d st.s validS)
  let possV := dil d b (orT d st.v validV)
  let reqS := andT d (notT d pixS) (notT d possV)
  let reqV := andT d (notT d pixV) (notT d possS)
  let resS := andT d (dil d b reqS) validS
  let resV := andT d (dil d b reqV) validV
  let freeS := andT d (notT d (dil d b (orT d possV pixV))) validS
  let freeV := andT d (notT d (dil d b (orT d possS pixS))) validV
  ⟨pixS, pixV, validS, validV, resS, resV, freeS, freeV⟩

/-- `cond_fn`: some pixel is neither solid nor void -/
def uncovered (d : Dims) (b : Brush) (st : State) : Bool :=
  anyCells d fun i j => !(look (dil d b st.s) i j || look (dil d b st.v) i j)

section choice
variable {α : Type} [LT α] [DecidableRel (α := α) (· < ·)]

/-- `a > b` on values with `-inf = none` -/
def gtOpt : Option α → Option α → Bool
  | none, _ => false
  | some _, none => true
  | some a, some b => decide (b < a)

/-- (`jnp.argmax`, `jnp.max`) of a non-empty list: first maximal entry -/
def argmaxOpt : List (Option α) → Nat × Option α
  | [] => (0, none)
  | x :: xs =>
    let rec go (best : Option α) (bi i : Nat) : List (Option α) → Nat × Option α
      | [] => (bi, best)
      | y :: ys => if gtOpt y best then go y i (i + 1) ys else go best bi (i + 1) ys
    go x 0 1 xs

inductive Choice where
  | free (fv fs : Tab)            -- case 1
  | single (solid : Bool) (idx : Nat) (case : Nat)   -- cases 2 and 3: flat index i*w + j

/-- `where(mask, vals, -inf)` flattened in C order -/
def masked (d : Dims) (mask : Tab) (vals : Nat → α) : List (Option α) :=
  (List.range d.h).flatMap fun i => (List.range d.w).map fun j =>
    if look mask i j then some (vals (i * d.w + j)) else none

/-- `select_best_*_touch` -/
def best (d : Dims) (neg : α → α) (arr : Nat → α) (mS mV : Tab) (case : Nat) : Choice :=
  let (iS, maxS) := argmaxOpt (masked d mS arr)
  let (iV, maxV) := argmaxOpt (masked d mV fun n => neg (arr n))
  if gtOpt maxS maxV then .single true iS case else .single false iV case

def choose (d : Dims) (neg : α → α) (arr : Nat → α) (dv : Derived) : Choice :=
  if anyCells d fun i j => look dv.freeS i j || look dv.freeV i j then .free dv.freeV dv.freeS
  else if anyCells d fun i j => look dv.resS i j || look dv.resV i j then best d neg arr dv.resS dv.resV 2
  else best d neg arr dv.validS dv.validV 3

end choice

/-- `.flatten().at[idx].set(True).reshape(...)` -/
def setIdx (d : Dims) (t : Tab) (idx : Nat) : Tab := tab d fun i j => look t i j || decide (i * d.w + j = idx)

def apply (d : Dims) (st : State) : Choice → State
  | .free fv fs => ⟨orT d st.v fv, orT d st.s fs⟩
  | .single true idx _ => ⟨st.v, setIdx d st.s idx⟩
  | .single false idx _ => ⟨setIdx d st.v idx, st.s⟩

/-- the touches added by `ch` are valid ones (case 1: the free touches; cases 2, 3: an in-domain touch that is valid
for its polarity).  This is what the theorems call a good choice; the driver reports whether every iteration made one. -/
def goodChoice (d : Dims) (dv : Derived) : Choice → Bool
  | .free fv fs => eqT' d fv dv.freeV && eqT' d fs dv.freeS
  | .single true idx _ => anyCells d fun i j => decide (i * d.w + j = idx) && look dv.validS i j
  | .single false idx _ => anyCells d fun i j => decide (i * d.w + j = idx) && look dv.validV i j
where eqT' (d : Dims) (x y : Tab) : Bool := !(anyCells d fun i j => look x i j != look y i j)

def eqT (d : Dims) (x y : Tab) : Bool := !(anyCells d fun i j => look x i j != look y i j)

/-- outcome of the loop: final state, iterations, how it ended, cases taken -/
structure Outcome where
  st : State
  iters : Nat
  status : String      -- "done" | "stuck" (an iteration changed nothing) | "fuel"
  cases : List Nat
  allGood : Bool       -- every iteration added valid touches only

def run {α : Type} [LT α] [DecidableRel (α := α) (· < ·)] (d : Dims) (b : Brush) (neg : α → α) (arr : Nat → α) :
    Nat → State → Nat → List Nat → Bool → Outcome
  | 0, st, n, cs, g => ⟨st, n, "fuel", cs.reverse, g⟩
  | fuel + 1, st, n, cs, g =>
    if !uncovered d b st then ⟨st, n, "done", cs.reverse, g⟩ else
    let dv := derive d b st
    let ch := choose d neg arr dv
    let st' := apply d st ch
    let g' := g && goodChoice d dv ch
    let c := match ch with | .free _ _ => 1 | .single _ _ k => k
    if eqT d st.v st'.v && eqT d st.s st'.s then ⟨st', n + 1, "stuck", (c :: cs).reverse, g'⟩
    else run d b neg arr fuel st' (n + 1) (c :: cs) g'

/-- `_generator`: returns `dilate(touches_solid)` -/
def generator {α : Type} [LT α] [DecidableRel (α := α) (· < ·)] (d : Dims) (b : Brush) (neg : α → α) (arr : Nat → α) : Outcome × Tab :=
  let z := tab d fun _ _ => false
  let o := run d b neg arr (2 * d.h * d.w + 2) ⟨z, z⟩ 0 [] true
  (o, dil d b o.st.s)

/-! ### Driver -/
open Proto

def bitsOf (str : String) : Option (List Bool) :=
  str.toList.mapM fun c => if c = '1' then some true else if c = '0' then some false else none

def toBits (d : Dims) (t : Tab) : String :=
  String.ofList <| (List.range d.h).flatMap fun i => (List.range d.w).map fun j => if look t i j then '1' else '0'

def ofBits (d : Dims) (bs : Array Bool) : Tab := tab d fun i j => bs.getD (i * d.w + j) false

/-- ops
  `gen h w bsize brushbits v_0 … v_{h·w-1}`  (values binary64 hex, C order; bsize odd)
      → `status iters solidbits touchS touchV allGood cases…` | `error` (convolve2d raises: one axis shorter, one longer than
        the brush) | `unsupported` (design not larger than the brush in any axis)
  `dil h w bsize brushbits imgbits`          → dilated bits
  `brush p q`                                → `size bits` of circular_brush(p/q)
-/
def handle : List String → String
  | "gen" :: h :: w :: bs :: bbits :: vals =>
    match natsOf [h, w, bs], bitsOf bbits, floatsOfHex vals with
    | some [h, w, bs], some bb, some vs =>
      if bs % 2 = 0 ∨ bb.length ≠ bs * bs ∨ vs.length ≠ h * w ∨ h * w = 0 then "bad-op" else
      -- convolve2d: image and brush must be comparable in both axes; image smaller than the brush is not modelled
      if ¬ (bs ≤ h ∧ bs ≤ w) then (if h ≤ bs ∧ w ≤ bs then "unsupported" else "error") else
      let d : Dims := ⟨h, w⟩
      let br : Brush := ⟨bs / 2, ofBits ⟨bs, bs⟩ bb.toArray⟩
      let va := vs.toArray
      let (o, sol) := generator d br (fun x : Float => -x) (fun n => va.getD n 0.0)
      s!"{o.status} {o.iters} {toBits d sol} {toBits d o.st.s} {toBits d o.st.v} {if o.allGood then 1 else 0} {showNats o.cases}"
    | _, _, _ => "bad-op"
  | ["brush", p, q] =>
    match natsOf [p, q] with
    | some [p, q] =>
      if q = 0 then "bad-op" else
      let br := circularBrush p q
      s!"{br.size} {toBits ⟨br.size, br.size⟩ br.cells}"
    | _ => "bad-op"
  | ["dil", h, w, bs, bbits, ibits] =>
    match natsOf [h, w, bs], bitsOf bbits, bitsOf ibits with
    | some [h, w, bs], some bb, some ib =>
      if bs % 2 = 0 ∨ bb.length ≠ bs * bs ∨ ib.length ≠ h * w ∨ h * w = 0 then "bad-op" else
      let d : Dims := ⟨h, w⟩
      let br : Brush := ⟨bs / 2, ofBits ⟨bs, bs⟩ bb.toArray⟩
      toBits d (dil d br (ofBits d ib.toArray))
    | _, _, _ => "bad-op"
  | _ => "bad-op"

end Fdtdx.C25
