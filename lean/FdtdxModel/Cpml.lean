/-
CPML absorbing layers and boundary-interface recording on top of the shared Yee model (`FdtdxModel/Yee.lean`).

Mirrors
  fdtdx/objects/boundaries/perfectly_matched_layer.py
      _compute_pml_profile (uniform branch, `_compute_nonuniform_pml_depths`)  → `depthsUniform`, `depthsEdges`, `profile`
      place_on_grid  (sigma_end default, a / b / 1/kappa arrays for E and H)      → `sigmaEndDefault`, `coefB`, `coefA`, `coefArrays`
      step_cpml                                                                  → `stepCpml1`
      apply_field_reset                                                          → `resetP`
  fdtdx/core/physics/curl.py       the `for pml in objects.pml_objects` loops of curl_E / curl_H
                                   (which derivative, which curl component, which sign, psi update,
                                   `simulate_boundaries`)                        → `applyE`, `applyH`, `curlEp`, `curlHp`, `updPsiH`, `updPsiE`
  fdtdx/objects/boundaries/boundary.py   interface_slice / interface_slice_tuple → `ifaceBox`
  fdtdx/objects/boundaries/initialization.py  boundary_objects_from_config: a boundary of thickness `th`
                                   at the low / high end of its axis spanning the full face           → `faceBox`
  fdtdx/fdtd/misc.py, update.py    collect_boundary_interfaces / add_boundary_interfaces /
                                   collect_interfaces / add_interfaces                               → `restore`
  fdtdx/fdtd/forward.py, backward.py   forward (update_E, update_H with PML) and backward (add_interfaces, reverse H,
                                   reverse E with `simulate_boundaries=False`, field reset)           → `forwardP`, `backwardP`

Representation.  A PML object is its static data `Pml` (axis, direction, index box, the `kappa_start == kappa_end == 1`
flag of `step_cpml`, and the six coefficient arrays, indexed by the offset along the axis from the low end of the
box) together with its four auxiliary arrays (`psi_E[name] = (e1, e2)`, `psi_H[name] = (h1, h2)`), as functions of
the absolute cell index (only cells of the box are meaningful).  The list order is `objects.pml_objects`.

Simplifications (all stated, none hides a branch of the code):
  * the recorded interface values are handed in as ONE pair of full fields `RE`, `RH` (the forward state after the
    step being undone); `restore` reads them on the interface slices only.  With a lossless recorder every PML's
    recorded slice equals that state on its slice, so "later PML overwrites earlier one" is immaterial.
  * `b = expm1(x) + 1` is `(exp x - 1) + 1` with `exp` a parameter; `nan_to_num(nan=0)` is a parameter `fix`
    (Float: NaN ↦ 0; over a field: identity, where `x / 0 = 0` already yields the 0 the code produces for 0/0).
  * `x.at[s].add(-c)` is written `x - c` (identical in IEEE arithmetic and in any ring).
  * real scalars only in the driver ops.
-/
import FdtdxModel.YeeIO
namespace Fdtdx.Cpml
open Fdtdx.Yee

/-- half-open index box `[lo0,hi0) × [lo1,hi1) × [lo2,hi2)` (`grid_slice_tuple`) -/
structure Box where
  lo0 : Nat
  hi0 : Nat
  lo1 : Nat
  hi1 : Nat
  lo2 : Nat
  hi2 : Nat
deriving DecidableEq, Repr

def Box.mem (b : Box) (i j k : Nat) : Prop :=
  (b.lo0 ≤ i ∧ i < b.hi0) ∧ (b.lo1 ≤ j ∧ j < b.hi1) ∧ (b.lo2 ≤ k ∧ k < b.hi2)

instance (b : Box) (i j k : Nat) : Decidable (b.mem i j k) := by unfold Box.mem; infer_instance

def Box.lo (b : Box) (a : Nat) : Nat := match a with | 0 => b.lo0 | 1 => b.lo1 | _ => b.lo2
def Box.hi (b : Box) (a : Nat) : Nat := match a with | 0 => b.hi0 | 1 => b.hi1 | _ => b.hi2

/-- `grid_slice_tuple` of a boundary object of thickness `th` placed by `boundary_objects_from_config` on the
low (`plus = false`) or high face of `axis`: the full face in the other two axes -/
def faceBox (nx ny nz axis : Nat) (plus : Bool) (th : Nat) : Box :=
  match axis with
  | 0 => if plus then ⟨nx - th, nx, 0, ny, 0, nz⟩ else ⟨0, th, 0, ny, 0, nz⟩
  | 1 => if plus then ⟨0, nx, ny - th, ny, 0, nz⟩ else ⟨0, nx, 0, th, 0, nz⟩
  | _ => if plus then ⟨0, nx, 0, ny, nz - th, nz⟩ else ⟨0, nx, 0, ny, 0, th⟩

/-- `interface_slice_tuple`: the innermost cell layer of the box along `axis`
("+": `(lo, lo+1)`, "-": `(hi-1, hi)`) -/
def ifaceBox (b : Box) (axis : Nat) (plus : Bool) : Box :=
  match axis with
  | 0 => if plus then { b with hi0 := b.lo0 + 1 } else { b with lo0 := b.hi0 - 1 }
  | 1 => if plus then { b with hi1 := b.lo1 + 1 } else { b with lo1 := b.hi1 - 1 }
  | _ => if plus then { b with hi2 := b.lo2 + 1 } else { b with lo2 := b.hi2 - 1 }

/-- coordinate of a cell along axis `a` -/
def axIdx (a i j k : Nat) : Nat := match a with | 0 => i | 1 => j | _ => k

/-- static data of one placed `PerfectlyMatchedLayer` -/
structure Pml (α : Type) where
  axis : Nat
  plus : Bool            -- direction "+"
  box : Box
  kappaDefault : Bool    -- `self.kappa_start == 1.0 and self.kappa_end == 1.0`
  aE : Nat → α           -- pml_a_E, offset along the axis
  bE : Nat → α
  ikE : Nat → α          -- inv_kappa_E
  aH : Nat → α
  bH : Nat → α
  ikH : Nat → α

/-- a PML with its auxiliary fields -/
structure PmlSt (α : Type) where
  p : Pml α
  e1 : F3 α
  e2 : F3 α
  h1 : F3 α
  h2 : F3 α

def V3.get {α : Type} (V : V3 α) (c : Nat) : F3 α := match c with | 0 => V.x | 1 => V.y | _ => V.z

section ops
variable {α : Type} [Add α] [Sub α] [Mul α] [Div α] [OfNat α 0] [OfNat α 1] [OfNat α 2]

/-- one derivative of `step_cpml` at one cell: returns `(corr, psi_new)`.
`isCurlE` selects the H coefficient set; `o` is the offset of the cell along the PML axis -/
def stepCpml1 (p : Pml α) (isCurlE sim : Bool) (o : Nat) (d psi : α) : α × α :=
  let a := if isCurlE then p.aH o else p.aE o
  let b := if isCurlE then p.bH o else p.bE o
  let ik := if isCurlE then p.ikH o else p.ikE o
  let psiN := if sim then b * psi + a * d else psi
  let corr := if p.kappaDefault then psiN else (ik - 1) * d + psiN
  (corr, psiN)

/-- forward difference along axis `a` with the halo rule and metric of the scene (the `d?E?` terms of `curl_E`) -/
def dFwd (cf : Cfg α) (a : Nat) (f : F3 α) : F3 α := fun i j k =>
  match a with
  | 0 => (next1 cf.nx cf.bx (fun i' => f i' j k) i - f i j k) * cf.sfx i
  | 1 => (next1 cf.ny cf.by_ (fun j' => f i j' k) j - f i j k) * cf.sfy j
  | _ => (next1 cf.nz cf.bz (fun k' => f i j k') k - f i j k) * cf.sfz k

/-- backward difference along axis `a` (the `d?H?` terms of `curl_H`) -/
def dBwd (cf : Cfg α) (a : Nat) (f : F3 α) : F3 α := fun i j k =>
  match a with
  | 0 => (f i j k - prev1 cf.nx cf.bx (fun i' => f i' j k) i) * cf.sbx i
  | 1 => (f i j k - prev1 cf.ny cf.by_ (fun j' => f i j' k) j) * cf.sby j
  | _ => (f i j k - prev1 cf.nz cf.bz (fun k' => f i j k') k) * cf.sbz k

/-- offset of cell (i,j,k) along the axis of PML `p` -/
def Pml.off (p : Pml α) (i j k : Nat) : Nat := axIdx p.axis i j k - p.box.lo p.axis

/-- one iteration of the PML loop of `curl_E` at component `comp` of cell (i,j,k):
`d_field_1 = d_a F_j`, `d_field_2 = d_a F_i` with `i = (a+1)%3`, `j = (a+2)%3`;
`curl_i -= corr_1`, `curl_j += corr_2` inside `pml.grid_slice` -/
def applyE (cf : Cfg α) (sim : Bool) (E : V3 α) (comp i j k : Nat) (acc : α) (st : PmlSt α) : α :=
  if st.p.box.mem i j k then
    let a := st.p.axis
    if comp = (a + 1) % 3 then
      acc - (stepCpml1 st.p true sim (st.p.off i j k) (dFwd cf a (V3.get E ((a + 2) % 3)) i j k) (st.h1 i j k)).1
    else if comp = (a + 2) % 3 then
      acc + (stepCpml1 st.p true sim (st.p.off i j k) (dFwd cf a (V3.get E ((a + 1) % 3)) i j k) (st.h2 i j k)).1
    else acc
  else acc

def applyH (cf : Cfg α) (sim : Bool) (H : V3 α) (comp i j k : Nat) (acc : α) (st : PmlSt α) : α :=
  if st.p.box.mem i j k then
    let a := st.p.axis
    if comp = (a + 1) % 3 then
      acc - (stepCpml1 st.p false sim (st.p.off i j k) (dBwd cf a (V3.get H ((a + 2) % 3)) i j k) (st.e1 i j k)).1
    else if comp = (a + 2) % 3 then
      acc + (stepCpml1 st.p false sim (st.p.off i j k) (dBwd cf a (V3.get H ((a + 1) % 3)) i j k) (st.e2 i j k)).1
    else acc
  else acc

/-- `curl_E` with PML objects: the plain curl, then the corrections of every PML in list order -/
def curlEp (cf : Cfg α) (sim : Bool) (pmls : List (PmlSt α)) (E : V3 α) : V3 α :=
  let base := curlE cf E
  { x := fun i j k => pmls.foldl (applyE cf sim E 0 i j k) (base.x i j k)
    y := fun i j k => pmls.foldl (applyE cf sim E 1 i j k) (base.y i j k)
    z := fun i j k => pmls.foldl (applyE cf sim E 2 i j k) (base.z i j k) }

def curlHp (cf : Cfg α) (sim : Bool) (pmls : List (PmlSt α)) (H : V3 α) : V3 α :=
  let base := curlH cf H
  { x := fun i j k => pmls.foldl (applyH cf sim H 0 i j k) (base.x i j k)
    y := fun i j k => pmls.foldl (applyH cf sim H 1 i j k) (base.y i j k)
    z := fun i j k => pmls.foldl (applyH cf sim H 2 i j k) (base.z i j k) }

/-- `psi_H_updated[pml.name]` of `curl_E` -/
def updPsiH (cf : Cfg α) (sim : Bool) (E : V3 α) (st : PmlSt α) : PmlSt α :=
  let a := st.p.axis
  { st with
    h1 := fun i j k => if st.p.box.mem i j k then
        (stepCpml1 st.p true sim (st.p.off i j k) (dFwd cf a (V3.get E ((a + 2) % 3)) i j k) (st.h1 i j k)).2
      else st.h1 i j k
    h2 := fun i j k => if st.p.box.mem i j k then
        (stepCpml1 st.p true sim (st.p.off i j k) (dFwd cf a (V3.get E ((a + 1) % 3)) i j k) (st.h2 i j k)).2
      else st.h2 i j k }

/-- `psi_E_updated[pml.name]` of `curl_H` -/
def updPsiE (cf : Cfg α) (sim : Bool) (H : V3 α) (st : PmlSt α) : PmlSt α :=
  let a := st.p.axis
  { st with
    e1 := fun i j k => if st.p.box.mem i j k then
        (stepCpml1 st.p false sim (st.p.off i j k) (dBwd cf a (V3.get H ((a + 2) % 3)) i j k) (st.e1 i j k)).2
      else st.e1 i j k
    e2 := fun i j k => if st.p.box.mem i j k then
        (stepCpml1 st.p false sim (st.p.off i j k) (dBwd cf a (V3.get H ((a + 1) % 3)) i j k) (st.e2 i j k)).2
      else st.e2 i j k }

/-- the material part of `update_E` for a given curl (`Yee.stepE cf m jE E H = updEwith cf m jE (curlH cf H) E`) -/
def updEwith (cf : Cfg α) (m : Mat α) (jE cu E : V3 α) : V3 α :=
  projE cf (addV
    { x := fun i j k => updE1 cf.c cf.eta0 (E.x i j k) (cu.x i j k) (m.invEps.x i j k) (optAt (m.sigE.map (·.x)) i j k)
      y := fun i j k => updE1 cf.c cf.eta0 (E.y i j k) (cu.y i j k) (m.invEps.y i j k) (optAt (m.sigE.map (·.y)) i j k)
      z := fun i j k => updE1 cf.c cf.eta0 (E.z i j k) (cu.z i j k) (m.invEps.z i j k) (optAt (m.sigE.map (·.z)) i j k) }
    jE)

def updHwith (cf : Cfg α) (m : Mat α) (jH cu H : V3 α) : V3 α :=
  projH cf (addV
    { x := fun i j k => updH1 cf.c cf.eta0 (H.x i j k) (cu.x i j k) (m.invMu.x i j k) (optAt (m.sigH.map (·.x)) i j k)
      y := fun i j k => updH1 cf.c cf.eta0 (H.y i j k) (cu.y i j k) (m.invMu.y i j k) (optAt (m.sigH.map (·.y)) i j k)
      z := fun i j k => updH1 cf.c cf.eta0 (H.z i j k) (cu.z i j k) (m.invMu.z i j k) (optAt (m.sigH.map (·.z)) i j k) }
    jH)

def revHwith (cf : Cfg α) (m : Mat α) (jH cu H : V3 α) : V3 α :=
  let H0 := subV H jH
  projH cf
    { x := fun i j k => revH1 cf.c cf.eta0 (H0.x i j k) (cu.x i j k) (m.invMu.x i j k) (optAt (m.sigH.map (·.x)) i j k)
      y := fun i j k => revH1 cf.c cf.eta0 (H0.y i j k) (cu.y i j k) (m.invMu.y i j k) (optAt (m.sigH.map (·.y)) i j k)
      z := fun i j k => revH1 cf.c cf.eta0 (H0.z i j k) (cu.z i j k) (m.invMu.z i j k) (optAt (m.sigH.map (·.z)) i j k) }

def revEwith (cf : Cfg α) (m : Mat α) (jE cu E : V3 α) : V3 α :=
  let E0 := subV E jE
  projE cf
    { x := fun i j k => revE1 cf.c cf.eta0 (E0.x i j k) (cu.x i j k) (m.invEps.x i j k) (optAt (m.sigE.map (·.x)) i j k)
      y := fun i j k => revE1 cf.c cf.eta0 (E0.y i j k) (cu.y i j k) (m.invEps.y i j k) (optAt (m.sigE.map (·.y)) i j k)
      z := fun i j k => revE1 cf.c cf.eta0 (E0.z i j k) (cu.z i j k) (m.invEps.z i j k) (optAt (m.sigE.map (·.z)) i j k) }

/-- `forward` with PML objects: `update_E` (curl_H with psi_E), then `update_H` (curl_E of the new E with psi_H) -/
def forwardP (cf : Cfg α) (m : Mat α) (jE jH : V3 α) (sim : Bool) (pmls : List (PmlSt α)) (E H : V3 α) :
    V3 α × V3 α × List (PmlSt α) :=
  let E' := updEwith cf m jE (curlHp cf sim pmls H) E
  let pm1 := pmls.map (updPsiE cf sim H)
  let H' := updHwith cf m jH (curlEp cf sim pm1 E') H
  (E', H', pm1.map (updPsiH cf sim E'))

/-- cell lies on the interface slice of some PML (`collect_boundary_interfaces` / `add_boundary_interfaces`) -/
def onIface (ps : List (Pml α)) (i j k : Nat) : Bool :=
  ps.any fun q => decide ((ifaceBox q.box q.axis q.plus).mem i j k)

/-- cell lies in the grid slice of some PML -/
def inPml (ps : List (Pml α)) (i j k : Nat) : Bool :=
  ps.any fun q => decide (q.box.mem i j k)

def selV (c : Nat → Nat → Nat → Bool) (A B : V3 α) : V3 α where
  x := fun i j k => if c i j k then A.x i j k else B.x i j k
  y := fun i j k => if c i j k then A.y i j k else B.y i j k
  z := fun i j k => if c i j k then A.z i j k else B.z i j k

/-- `add_boundary_interfaces`: the recorded values `R` overwrite the field on every interface slice -/
def restore (ps : List (Pml α)) (R F : V3 α) : V3 α := selV (onIface ps) R F

/-- `PerfectlyMatchedLayer.apply_field_reset` for every PML: zero inside the PML boxes -/
def resetP (ps : List (Pml α)) (F : V3 α) : V3 α := selV (inPml ps) (constV 0) F

/-- `backward` with PML objects: restore the interfaces from the recording, reverse H with `curl_E` (psi frozen:
`simulate_boundaries=False`), reverse E with `curl_H` of the reversed H, optionally zero the PML regions -/
def backwardP (cf : Cfg α) (m : Mat α) (jE jH : V3 α) (pmls : List (PmlSt α)) (RE RH : V3 α) (reset : Bool)
    (E H : V3 α) : V3 α × V3 α :=
  let ps := pmls.map (·.p)
  let E1 := restore ps RE E
  let H1 := restore ps RH H
  let H' := revHwith cf m jH (curlEp cf false pmls E1) H1
  let E' := revEwith cf m jE (curlHp cf false pmls H') E1
  if reset then (resetP ps E', resetP ps H') else (E', H')

end ops

/-! ### profile and coefficient formulas (`_compute_pml_profile`, `place_on_grid`) -/
section coef
variable {α : Type} [Add α] [Sub α] [Mul α] [Div α] [OfNat α 0] [OfNat α 1] [OfNat α 2]

/-- uniform grid: depths of the E and H samples of cell `i` (0-based, low index first) and the normaliser.
"-": `dE = arange(L-1,-1,-1)`, `dH = append(arange(L-1.5,-0.5,-1), 0)`;
"+": `dE = insert(arange(0.5, L-0.5, 1), 0, 0)`, `dH = arange(0, L)`; `cast` embeds naturals, `half` is 0.5 -/
def depthsUniform (cast : Nat → α) (half : α) (plus : Bool) (L : Nat) : (Nat → α) × (Nat → α) × α :=
  if plus then
    (fun i => if i = 0 then 0 else cast (i - 1) + half, fun i => cast i, cast L)
  else
    (fun i => cast (L - 1 - i), fun i => if i + 1 = L then 0 else cast (L - 2 - i) + half, cast L)

/-- non-uniform grid (`_compute_nonuniform_pml_depths`): `e 0 … e L` are the grid edges of the PML slice -/
def depthsEdges (e : Nat → α) (plus : Bool) (L : Nat) : (Nat → α) × (Nat → α) × α :=
  let c : Nat → α := fun i => (e i + e (i + 1)) / 2
  if plus then
    (fun i => if i = 0 then 0 else c (i - 1) - e 0, fun i => e i - e 0, e L - e 0)
  else
    (fun i => e L - e (i + 1), fun i => if i + 1 = L then 0 else e L - c (i + 1), e L - e 0)

/-- `value_start + (value_end - value_start) * power(d / norm, order)` -/
def profile (pow : α → α → α) (vs ve order norm d : α) : α := vs + (ve - vs) * pow (d / norm) order

/-- `b = expm1(-dt/eps0 * (sigma/kappa + alpha)) + 1` with `expm1 x = exp x - 1` -/
def coefB (exp : α → α) (dt eps0 sigma kappa alpha : α) : α :=
  (exp ((0 - dt) / eps0 * (sigma / kappa + alpha)) - 1) + 1

/-- `a = nan_to_num((b - 1) * sigma / (sigma + alpha * kappa) / kappa, nan=0)` -/
def coefA (fix : α → α) (b sigma kappa alpha : α) : α :=
  fix ((b - 1) * sigma / (sigma + alpha * kappa) / kappa)

/-- graded parameters of one layer -/
structure Grading (α : Type) where
  sigS : α
  sigE : α
  sigO : α
  kapS : α
  kapE : α
  kapO : α
  alS : α
  alE : α
  alO : α

/-- the six coefficient arrays of `place_on_grid` from the E / H depth arrays: (aE, bE, ikE, aH, bH, ikH) -/
def coefArrays (exp : α → α) (pow : α → α → α) (fix : α → α) (g : Grading α) (dt eps0 : α)
    (dp : (Nat → α) × (Nat → α) × α) : (Nat → α) × (Nat → α) × (Nat → α) × (Nat → α) × (Nat → α) × (Nat → α) :=
  let norm := dp.2.2
  let sg (d : Nat → α) : Nat → α := fun i => profile pow g.sigS g.sigE g.sigO norm (d i)
  let kp (d : Nat → α) : Nat → α := fun i => profile pow g.kapS g.kapE g.kapO norm (d i)
  let al (d : Nat → α) : Nat → α := fun i => profile pow g.alS g.alE g.alO norm (d i)
  let bb (d : Nat → α) : Nat → α := fun i => coefB exp dt eps0 (sg d i) (kp d i) (al d i)
  let aa (d : Nat → α) : Nat → α := fun i => coefA fix (bb d i) (sg d i) (kp d i) (al d i)
  (aa dp.1, bb dp.1, fun i => 1 / kp dp.1 i, aa dp.2.1, bb dp.2.1, fun i => 1 / kp dp.2.1 i)

/-- `sigma_end = -(sigma_order + 1) * log(1e-6) / (2 * (eta0 / 1.0) * pml_thickness)` -/
def sigmaEndDefault (log : α → α) (tiny order eta0 thick : α) : α :=
  (0 - (order + 1)) * log tiny / (2 * (eta0 / 1) * thick)

end coef

/-! ### driver (binary64) -/
open Fdtdx.Proto Fdtdx.YeeIO

def pBox : P Box := do
  let a ← pNat; let b ← pNat; let c ← pNat; let d ← pNat; let e ← pNat; let f ← pNat
  pure ⟨a, b, c, d, e, f⟩

def Box.vol (b : Box) : Nat := (b.hi0 - b.lo0) * (b.hi1 - b.lo1) * (b.hi2 - b.lo2)

/-- box-shaped array (row-major over the box) as a function of the absolute index, 0 outside -/
def boxF3 (b : Box) (d : Array Float) : F3 Float := fun i j k =>
  if b.mem i j k then d[((i - b.lo0) * (b.hi1 - b.lo1) + (j - b.lo1)) * (b.hi2 - b.lo2) + (k - b.lo2)]! else 0

def tabBox (b : Box) (f : F3 Float) : Array Float := Id.run do
  let mut out : Array Float := Array.mkEmpty b.vol
  for i in [b.lo0:b.hi0] do
    for j in [b.lo1:b.hi1] do
      for k in [b.lo2:b.hi2] do
        out := out.push (f i j k)
  return out

def arrFn (d : Array Float) : Nat → Float := fun i => d[i]!

def pPml : P (PmlSt Float) := do
  let axis ← pNat
  if axis > 2 then failure
  let plus ← pBool
  let box ← pBox
  let kd ← pBool
  let L ← pNat
  if L != box.hi axis - box.lo axis then failure
  let aE ← pMany pFloat L; let bE ← pMany pFloat L; let ikE ← pMany pFloat L
  let aH ← pMany pFloat L; let bH ← pMany pFloat L; let ikH ← pMany pFloat L
  let n := box.vol
  let e1 ← pMany pFloat n; let e2 ← pMany pFloat n; let h1 ← pMany pFloat n; let h2 ← pMany pFloat n
  pure { p := ⟨axis, plus, box, kd, arrFn aE, arrFn bE, arrFn ikE, arrFn aH, arrFn bH, arrFn ikH⟩,
         e1 := boxF3 box e1, e2 := boxF3 box e2, h1 := boxF3 box h1, h2 := boxF3 box h2 }

def pPmls : P (List (PmlSt Float)) := do
  let n ← pNat
  let mut out : Array (PmlSt Float) := #[]
  for _ in [0:n] do
    out := out.push (← pPml)
  pure out.toList

def emitPsi (sel : PmlSt Float → List (F3 Float)) (pmls : List (PmlSt Float)) : List String :=
  pmls.flatMap fun st => (sel st).flatMap fun f => (tabBox st.p.box f).toList.map hexOfFloat

def emitV (r : Req Float) (V : V3 Float) : List String := emitV3 r.cf.nx r.cf.ny r.cf.nz V

/-- `pmlfwd sim <pmls> <yee request>` → E H and (e1 e2 h1 h2) of every PML after one `forward` -/
def opFwd : P String := do
  let sim ← pBool
  let pmls ← pPmls
  let r ← pReq (α := Float)
  let (jE, jH) := r.src.getD (zeroV, zeroV)
  let (E', H', pm) := forwardP r.cf r.m jE jH sim pmls r.E r.H
  pure (joinSp (emitV r E' ++ emitV r H' ++ emitPsi (fun st => [st.e1, st.e2, st.h1, st.h2]) pm))

/-- `pmlbwd reset nx ny nz RE[3N] RH[3N] <pmls> <yee request>` → E H after one `backward` -/
def opBwd : P String := do
  let reset ← pBool
  let nx ← pNat; let ny ← pNat; let nz ← pNat
  let RE ← pV3 nx ny nz pFloat
  let RH ← pV3 nx ny nz pFloat
  let pmls ← pPmls
  let r ← pReq (α := Float)
  if r.cf.nx != nx || r.cf.ny != ny || r.cf.nz != nz then failure
  let (jE, jH) := r.src.getD (zeroV, zeroV)
  let (E', H') := backwardP r.cf r.m jE jH pmls RE RH reset r.E r.H
  pure (joinSp (emitV r E' ++ emitV r H'))

/-- `pmlcurlE sim <pmls> <yee request>` → curl_E(E) and (h1 h2) of every PML;  `pmlcurlH` → curl_H(H), (e1 e2) -/
def opCurl (isE : Bool) : P String := do
  let sim ← pBool
  let pmls ← pPmls
  let r ← pReq (α := Float)
  if isE then
    pure (joinSp (emitV r (curlEp r.cf sim pmls r.E)
      ++ emitPsi (fun st => [st.h1, st.h2]) (pmls.map (updPsiH r.cf sim r.E))))
  else
    pure (joinSp (emitV r (curlHp r.cf sim pmls r.H)
      ++ emitPsi (fun st => [st.e1, st.e2]) (pmls.map (updPsiE r.cf sim r.H))))

/-- `stepcpml isCurlE sim <pml> d1[B] d2[B]` → corr1 corr2 psi1 psi2 (box-shaped), the public `step_cpml` -/
def opStep : P String := do
  let isE ← pBool
  let sim ← pBool
  let st ← pPml
  let n := st.p.box.vol
  let d1 := boxF3 st.p.box (← pMany pFloat n)
  let d2 := boxF3 st.p.box (← pMany pFloat n)
  if !(← get).isEmpty then failure
  let psi1 := if isE then st.h1 else st.e1
  let psi2 := if isE then st.h2 else st.e2
  let r1 : F3 (Float × Float) := fun i j k => stepCpml1 st.p isE sim (st.p.off i j k) (d1 i j k) (psi1 i j k)
  let r2 : F3 (Float × Float) := fun i j k => stepCpml1 st.p isE sim (st.p.off i j k) (d2 i j k) (psi2 i j k)
  let out := [fun i j k => (r1 i j k).1, fun i j k => (r2 i j k).1, fun i j k => (r1 i j k).2, fun i j k => (r2 i j k).2]
  pure (joinSp (out.flatMap fun f => (tabBox st.p.box f).toList.map hexOfFloat))

def nanFix (x : Float) : Float := if x.isNaN then 0 else x

/-- `coef plus L (u | n e[L+1]) dt eps0 sigS sigE sigO kapS kapE kapO alS alE alO` → aE bE ikE aH bH ikH (each L) -/
def opCoef : P String := do
  let plus ← pBool
  let L ← pNat
  let g ← tok
  let dp ← do
    if g == "u" then pure (depthsUniform (fun n => Float.ofNat n) 0.5 plus L)
    else if g == "n" then
      let e ← pMany pFloat (L + 1)
      pure (depthsEdges (arrFn e) plus L)
    else failure
  let dt ← pFloat; let eps0 ← pFloat
  let v ← pMany pFloat 9
  if !(← get).isEmpty then failure
  let gr : Grading Float := ⟨v[0]!, v[1]!, v[2]!, v[3]!, v[4]!, v[5]!, v[6]!, v[7]!, v[8]!⟩
  let (aE, bE, ikE, aH, bH, ikH) := coefArrays Float.exp Float.pow nanFix gr dt eps0 dp
  let tab (f : Nat → Float) : List String := (List.range L).map fun i => hexOfFloat (f i)
  pure (joinSp (tab aE ++ tab bE ++ tab ikE ++ tab aH ++ tab bH ++ tab ikH))

/-- `sigend tiny order eta0 thick` → default sigma_end -/
def opSigEnd : P String := do
  let tiny ← pFloat; let order ← pFloat; let eta0 ← pFloat; let thick ← pFloat
  if !(← get).isEmpty then failure
  pure (hexOfFloat (sigmaEndDefault Float.log tiny order eta0 thick))

/-- `iface nx ny nz axis plus th` → grid box and interface box (6 + 6 naturals) -/
def opIface : P String := do
  let nx ← pNat; let ny ← pNat; let nz ← pNat; let axis ← pNat
  if axis > 2 then failure
  let plus ← pBool; let th ← pNat
  if !(← get).isEmpty then failure
  let b := faceBox nx ny nz axis plus th
  let f := ifaceBox b axis plus
  pure (showNats [b.lo0, b.hi0, b.lo1, b.hi1, b.lo2, b.hi2, f.lo0, f.hi0, f.lo1, f.hi1, f.lo2, f.hi2])

def runOp (p : P String) (rest : List String) : String :=
  match p.run rest with
  | some (s, _) => s
  | none => "bad-op"

/-- ops of the CPML model; the Yee request inside is always real (`r` token omitted) -/
def handleCpml : List String → String
  | "pmlfwd" :: rest => runOp opFwd rest
  | "pmlbwd" :: rest => runOp opBwd rest
  | "pmlcurlE" :: rest => runOp (opCurl true) rest
  | "pmlcurlH" :: rest => runOp (opCurl false) rest
  | "stepcpml" :: rest => runOp opStep rest
  | "coef" :: rest => runOp opCoef rest
  | "sigend" :: rest => runOp opSigEnd rest
  | "iface" :: rest => runOp opIface rest
  | _ => "bad-op"

end Fdtdx.Cpml
