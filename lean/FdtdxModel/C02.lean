/-
C02 — driver entry for the round-trip property: the model is the shared Yee model (`FdtdxModel/Yee.lean`,
`forward` / `backward`); ops `fwd`, `bwd` of `YeeIO` with the probed additive source terms in the request, and ops
`afwd`, `abwd` of `YeeAnisoIO` (any material tier, in particular full 3×3 tensors: `FdtdxModel/YeeAniso.lean`).
-/
import FdtdxModel.YeeIO
import FdtdxModel.YeeAnisoIO
namespace Fdtdx.C02

def handle : List String → String
  | "afwd" :: rest => YeeAnisoIO.handleAniso ("afwd" :: rest)
  | "abwd" :: rest => YeeAnisoIO.handleAniso ("abwd" :: rest)
  | l => YeeIO.handleYee l

end Fdtdx.C02
