/-
C02 — driver entry for the round-trip property: the model is the shared Yee model (`FdtdxModel/Yee.lean`,
`forward` / `backward`); ops `fwd`, `bwd` of `YeeIO` with the probed additive source terms in the request.
-/
import FdtdxModel.YeeIO
namespace Fdtdx.C02

def handle : List String → String := YeeIO.handleYee

end Fdtdx.C02
