/-
C15 — model of the detector co-location path of fdtdx.

Mirrors
  core/misc.py            pad_fields                      (per-axis wrap / constant halo, applied axis after axis)
  fdtd/update.py          pad_fields_for_boundaries       (wrap axes; low halo of a `config.symmetry` axis is zeroed)
                          pad_fields_with_symmetry_mirror (electric symmetry wall: low halo := parity * mirror partner,
                                                           partner = 2nd cell for components sampled on the plane, 1st otherwise)
                          update_detector_states          (`is_interior` dispatch, haloed block + `region_slice`, full-domain
                                                           fallback, raw slice without exact interpolation, H time-centring)
  core/physics/curl.py    _backward_edge_average, interpolate_fields (literal, on pre-padded arrays in padded-index coordinates)
  core/physics/symmetry.py field_component_parity (wall = -1), component_sits_on_plane, mirror_pairs_on_plane

Arrays are functions `Int → Int → Int → α` (one per component); a halo is a rule on the index.  The sequential
`jnp.pad` / `.at[].set` updates of the padded array are modelled by their closed form: every axis resolves its
index independently to "zero" or to (sign, in-range index); the padded value is the product of the signs times the
raw value, zero being absorbing (tied to the code by the `full` correspondence op, all 8 corners included).

Simplified / not modelled: Bloch phase correction of the halo (`BlochBoundary.apply_pad_correction`, complex fields
only; a periodic boundary is a Bloch boundary with zero vector, which is the no-op branch); the per-detector
on/off gate and time-slot map (C14).  Scalars are generic (`Float` in the driver, any field in the theorems).
-/
import FdtdxModel.Proto
namespace Fdtdx.C15

abbrev F3 (α : Type) := Int → Int → Int → α

/-- halo configuration of one axis -/
structure Ax where
  n : Nat        -- number of cells
  wrap : Bool    -- some boundary object on this axis has `uses_wrap_padding`
  sym : Int      -- `config.symmetry[axis]`: 0 none, -1 electric (a `_is_symmetry_wall` object exists), +1 magnetic
  deriving Repr, DecidableEq

inductive Ft | E | H
  deriving Repr, DecidableEq

/-- `field_component_parity(ft, c, axis, wall = -1) = -1` -/
def oddPEC : Ft → Nat → Nat → Bool
  | .E, c, a => c != a
  | .H, c, a => c == a

/-- `component_sits_on_plane(ft, c, axis)` (= `mirror_pairs_on_plane` for wall = -1) -/
def onPlane : Ft → Nat → Nat → Bool
  | .E, c, a => c != a
  | .H, c, a => c == a

/-- what a (possibly halo) index of one axis refers to -/
inductive Res
  | zero
  | at (neg : Bool) (i : Int)
  deriving Repr, DecidableEq

/-- high halo (index ≥ n): wrap or constant zero -/
def resHigh (ax : Ax) (i : Int) : Res := if ax.wrap then .at false (i - ax.n) else .zero

/-- index `i ∈ [-1, n]` of component `c` of field `ft` along axis `a` -/
def resolve (ax : Ax) (ft : Ft) (c a : Nat) (i : Int) : Res :=
  if 0 ≤ i ∧ i < ax.n then .at false i
  else if i < 0 then
    if ax.sym = -1 then
      -- mirror: padded[0] := parity * padded[src+1], src = 1 for on-plane components, 0 otherwise
      let src : Int := if onPlane ft c a then 1 else 0
      match (if src < ax.n then Res.at false src else resHigh ax src) with
      | .zero => .zero
      | .at b j => .at (b != oddPEC ft c a) j
    else if ax.wrap ∧ ax.sym = 0 then .at false (i + ax.n)
    else .zero
  else resHigh ax i

def sgn {α : Type} [Neg α] (b : Bool) (x : α) : α := if b then -x else x

abbrev Cfg := Ax × Ax × Ax

/-- `pad_fields_with_symmetry_mirror(fields, …, ft)[c]` in domain-index coordinates (halo = index -1 and n) -/
def padded {α : Type} [Neg α] [OfNat α 0] (cfg : Cfg) (ft : Ft) (c : Nat) (f : F3 α) : F3 α := fun i j k =>
  match resolve cfg.1 ft c 0 i, resolve cfg.2.1 ft c 1 j, resolve cfg.2.2 ft c 2 k with
  | .at b0 i', .at b1 j', .at b2 k' => sgn ((b0 != b1) != b2) (f i' j' k')
  | _, _, _ => 0

/-- `previous_widths = concatenate([widths[:1], widths[:-1]])` -/
def prevW {α : Type} (w : Int → α) (i : Int) : α := if i ≤ 0 then w 0 else w (i - 1)

/-- `_backward_edge_average` for one sample; `wc`/`wp` = width of the current / previous cell -/
def bea {α : Type} [Add α] [Mul α] [Div α] [OfNat α 2] (nu : Bool) (wc wp cur prev : α) : α :=
  if nu then (cur * (wp / 2) + prev * (wc / 2)) / (wc / 2 + wp / 2)
  else (cur + prev) / 2

/-- the (possibly `region_slice`d) width tables seen by `interpolate_fields`, local output index ↦ width -/
structure Wts (α : Type) where
  cx : Int → α
  px : Int → α
  cy : Int → α
  py : Int → α

section interp
variable {α : Type} [Add α] [Mul α] [Div α] [OfNat α 2]

/-- `interpolate_fields(E_pad, ·)[0]`; `Ep c` is the pre-padded component in padded-index coordinates
(`[1:-1]` ↦ `l+1`, `[:-2]` ↦ `l`, `[2:]` ↦ `l+2`) -/
def interpE (nu : Bool) (W : Wts α) (Ep : Nat → F3 α) (c : Nat) : F3 α := fun i j k =>
  let bx := bea nu (W.cx i) (W.px i)
  let by' := bea nu (W.cy j) (W.py j)
  match c with
  | 0 => (bx (Ep 0 (i+1) (j+1) (k+1)) (Ep 0 i (j+1) (k+1)) + bx (Ep 0 (i+1) (j+1) (k+2)) (Ep 0 i (j+1) (k+2))) / 2
  | 1 => (by' (Ep 1 (i+1) (j+1) (k+1)) (Ep 1 (i+1) j (k+1)) + by' (Ep 1 (i+1) (j+1) (k+2)) (Ep 1 (i+1) j (k+2))) / 2
  | _ => Ep 2 (i+1) (j+1) (k+1)

/-- `interpolate_fields(·, H_pad)[1]` -/
def interpH (nu : Bool) (W : Wts α) (Hp : Nat → F3 α) (c : Nat) : F3 α := fun i j k =>
  let bx := bea nu (W.cx i) (W.px i)
  let by' := bea nu (W.cy j) (W.py j)
  match c with
  | 0 => by' (Hp 0 (i+1) (j+1) (k+1)) (Hp 0 (i+1) j (k+1))
  | 1 => bx (Hp 1 (i+1) (j+1) (k+1)) (Hp 1 i (j+1) (k+1))
  | _ => (by' (bx (Hp 2 (i+1) (j+1) (k+1)) (Hp 2 i (j+1) (k+1))) (bx (Hp 2 (i+1) j (k+1)) (Hp 2 i j (k+1)))
          + by' (bx (Hp 2 (i+1) (j+1) (k+2)) (Hp 2 i (j+1) (k+2))) (bx (Hp 2 (i+1) j (k+2)) (Hp 2 i j (k+2)))) / 2

/-- `(H_prev + H) / 2` -/
def havg (H Hprev : Nat → F3 α) (c : Nat) : F3 α := fun i j k => (Hprev c i j k + H c i j k) / 2

end interp

/-- cell widths of the three axes, domain index ↦ width -/
structure Widths (α : Type) where
  x : Int → α
  y : Int → α
  z : Int → α

def fullW {α : Type} (w : Widths α) : Wts α := ⟨w.x, prevW w.x, w.y, prevW w.y⟩

/-- widths[start:stop], previous_widths[start:stop] -/
def blockW {α : Type} (w : Widths α) (s0 s1 : Int) : Wts α :=
  ⟨fun l => w.x (s0 + l), fun l => prevW w.x (s0 + l), fun l => w.y (s1 + l), fun l => prevW w.y (s1 + l)⟩

structure Box where
  s0 : Int
  e0 : Int
  s1 : Int
  e1 : Int
  s2 : Int
  e2 : Int
  deriving Repr, DecidableEq

def Box.valid (b : Box) (cfg : Cfg) : Bool :=
  decide (0 ≤ b.s0) && decide (b.s0 < b.e0) && decide (b.e0 ≤ cfg.1.n) &&
  decide (0 ≤ b.s1) && decide (b.s1 < b.e1) && decide (b.e1 ≤ cfg.2.1.n) &&
  decide (0 ≤ b.s2) && decide (b.s2 < b.e2) && decide (b.e2 ≤ cfg.2.2.n)

/-- `is_interior(detector)` -/
def Box.interior (b : Box) (cfg : Cfg) : Bool :=
  decide (1 ≤ b.s0) && decide (b.e0 ≤ (cfg.1.n : Int) - 1) &&
  decide (1 ≤ b.s1) && decide (b.e1 ≤ (cfg.2.1.n : Int) - 1) &&
  decide (1 ≤ b.s2) && decide (b.e2 ≤ (cfg.2.2.n : Int) - 1)

section record
variable {α : Type} [Add α] [Mul α] [Div α] [Neg α] [OfNat α 0] [OfNat α 2]

/-- full-domain interpolation (`full[0]` in `update_detector_states`), domain index -/
def fullE (cfg : Cfg) (nu : Bool) (w : Widths α) (E : Nat → F3 α) (c : Nat) : F3 α :=
  interpE nu (fullW w) (fun c p q r => padded cfg .E c (E c) (p - 1) (q - 1) (r - 1)) c

/-- `full[1]`: interpolation of the padded time-centred H -/
def fullH (cfg : Cfg) (nu : Bool) (w : Widths α) (H Hprev : Nat → F3 α) (c : Nat) : F3 α :=
  interpH nu (fullW w) (fun c p q r => padded cfg .H c (havg H Hprev c) (p - 1) (q - 1) (r - 1)) c

/-- interior path: `interpolate_fields(E[block], ·, region_slice)`; block = region plus a one-cell halo -/
def blockE (nu : Bool) (w : Widths α) (b : Box) (E : Nat → F3 α) (c : Nat) : F3 α :=
  interpE nu (blockW w b.s0 b.s1) (fun c p q r => E c (b.s0 - 1 + p) (b.s1 - 1 + q) (b.s2 - 1 + r)) c

def blockH (nu : Bool) (w : Widths α) (b : Box) (H Hprev : Nat → F3 α) (c : Nat) : F3 α :=
  interpH nu (blockW w b.s0 b.s1) (fun c p q r => havg H Hprev c (b.s0 - 1 + p) (b.s1 - 1 + q) (b.s2 - 1 + r)) c

/-- `E_reg` handed to `detector.update` (local index inside the box) -/
def recE (cfg : Cfg) (nu : Bool) (w : Widths α) (exact : Bool) (b : Box) (E : Nat → F3 α) (c : Nat) : F3 α :=
  fun i j k =>
    if !exact then E c (b.s0 + i) (b.s1 + j) (b.s2 + k)
    else if b.interior cfg then blockE nu w b E c i j k
    else fullE cfg nu w E c (b.s0 + i) (b.s1 + j) (b.s2 + k)

/-- `H_reg` handed to `detector.update` -/
def recH (cfg : Cfg) (nu : Bool) (w : Widths α) (exact : Bool) (b : Box) (H Hprev : Nat → F3 α) (c : Nat) : F3 α :=
  fun i j k =>
    if !exact then H c (b.s0 + i) (b.s1 + j) (b.s2 + k)
    else if b.interior cfg then blockH nu w b H Hprev c i j k
    else fullH cfg nu w H Hprev c (b.s0 + i) (b.s1 + j) (b.s2 + k)

end record

/-! ### Driver -/
open Proto

/-- component array `(3, nx, ny, nz)` in C order as a function (0 outside) -/
def ofArray (n0 n1 n2 : Nat) (a : Array Float) (c : Nat) : F3 Float := fun i j k =>
  if 0 ≤ i ∧ i < n0 ∧ 0 ≤ j ∧ j < n1 ∧ 0 ≤ k ∧ k < n2 ∧ c < 3 then
    a.getD ((((c * n0 + i.toNat) * n1 + j.toNat) * n2) + k.toNat) 0.0
  else 0.0

def widthFn (a : Array Float) (off : Nat) : Int → Float := fun i => a.getD (off + i.toNat) 0.0

def tabulate (s0 e0 s1 e1 s2 e2 : Int) (f : Nat → F3 Float) : List Float := Id.run do
  let mut out : Array Float := #[]
  for c in [0:3] do
    for i in [0:(e0 - s0).toNat] do
      for j in [0:(e1 - s1).toNat] do
        for k in [0:(e2 - s2).toNat] do
          out := out.push (f c (s0 + i) (s1 + j) (s2 + k))
  return out.toList

def parseBool : String → Option Bool
  | "0" => some false
  | "1" => some true
  | _ => none

def okSym (s : Int) : Bool := s == 0 || s == 1 || s == -1

/-- ops (n = nx ny nz, wr = wrap flags, sy = symmetry entries, then the data
`widths(nx+ny+nz) E(3N) H(3N) Hprev(3N)` as binary64 bit patterns):
  `full n wr sy nu data`                      → full-domain `E_interp(3N) H_interp(3N)`
  `rec  n wr sy nu exact s0 e0 s1 e1 s2 e2 data` → `E_reg H_reg` of the box (what `Detector.update` receives)
  `pad  n wr sy ft data`                      → padded array `(3, nx+2, ny+2, nz+2)` of E (ft=0) / of H (ft=1; data's H)
-/
def handle : List String → String
  | op :: n0 :: n1 :: n2 :: w0 :: w1 :: w2 :: y0 :: y1 :: y2 :: rest =>
    match natsOf [n0, n1, n2], [w0, w1, w2].mapM parseBool, intsOf [y0, y1, y2] with
    | some [n0, n1, n2], some [w0, w1, w2], some [y0, y1, y2] =>
      if n0 = 0 ∨ n1 = 0 ∨ n2 = 0 ∨ !(okSym y0 && okSym y1 && okSym y2) then "error" else
      let cfg : Cfg := (⟨n0, w0, y0⟩, ⟨n1, w1, y1⟩, ⟨n2, w2, y2⟩)
      let N := n0 * n1 * n2
      let nW := n0 + n1 + n2
      let withData (data : List String) (k : Widths Float → (Nat → F3 Float) → (Nat → F3 Float) → (Nat → F3 Float) → String) : String :=
        if data.length ≠ nW + 9 * N then "bad-op" else
        match floatsOfHex data with
        | none => "bad-op"
        | some fs =>
          let a := fs.toArray
          let wa := a.extract 0 nW
          let W : Widths Float := ⟨widthFn wa 0, widthFn wa n0, widthFn wa (n0 + n1)⟩
          let E := ofArray n0 n1 n2 (a.extract nW (nW + 3 * N))
          let H := ofArray n0 n1 n2 (a.extract (nW + 3 * N) (nW + 6 * N))
          let Hp := ofArray n0 n1 n2 (a.extract (nW + 6 * N) (nW + 9 * N))
          k W E H Hp
      match op, rest with
      | "full", nu :: data =>
        match parseBool nu with
        | some nu => withData data fun W E H Hp =>
            showFloats (tabulate 0 n0 0 n1 0 n2 (fullE cfg nu W E) ++ tabulate 0 n0 0 n1 0 n2 (fullH cfg nu W H Hp))
        | none => "bad-op"
      | "pad", ft :: data =>
        match parseBool ft with
        | some ft => withData data fun _ E H _ =>
            let f := if ft then H else E
            let t : Ft := if ft then .H else .E
            showFloats (tabulate (-1) (n0 + 1) (-1) (n1 + 1) (-1) (n2 + 1) (fun c => padded cfg t c (f c)))
        | none => "bad-op"
      | "rec", nu :: ex :: s0 :: e0 :: s1 :: e1 :: s2 :: e2 :: data =>
        match parseBool nu, parseBool ex, intsOf [s0, e0, s1, e1, s2, e2] with
        | some nu, some ex, some [s0, e0, s1, e1, s2, e2] =>
          let b : Box := ⟨s0, e0, s1, e1, s2, e2⟩
          if !b.valid cfg then "error" else
          withData data fun W E H Hp =>
            showFloats (tabulate 0 (e0 - s0) 0 (e1 - s1) 0 (e2 - s2) (recE cfg nu W ex b E)
              ++ tabulate 0 (e0 - s0) 0 (e1 - s1) 0 (e2 - s2) (recH cfg nu W ex b H Hp))
        | _, _, _ => "bad-op"
      | _, _ => "bad-op"
    | _, _, _ => "bad-op"
  | _ => "bad-op"

end Fdtdx.C15
