/-
C39 — model of `fdtdx/materials.py`:

  `_normalize_material_property`          → `normalize` (scalar / 3-tuple of floats / 9-tuple / nested 3x3, error branches:
                                             3-tuple with non-`float` entries, rows of wrong length, other lengths)
  `_is_property_isotropic`, `_is_property_diagonally_anisotropic`, `Material.is_magnetic`,
  `is_electrically_conductive`, `is_magnetically_conductive`   → `isIso`, `isDiag`, `isMagnetic`, `isConductive`
                                             with `math.isclose(a, b)` (rel_tol passed in, abs_tol = 0) as `close`
  `compute_ordered_material_name_tuples`  → `ordered` : stable insertion sort by the lexicographic key
                                             (permittivity[0], permeability[0], electric_conductivity[0], magnetic_conductivity[0])
  `compute_allowed_permittivities/…permeabilities/…electric_conductivities/…magnetic_conductivities`,
  `compute_ordered_names`                 → `allowed`, `orderedNames` (projections of `ordered`)
  `compute_allowed_dispersive_coefficients` (row order only) → `dispersiveTable`
  `_split_complex_property`, `Material.from_complex_permittivity` (incl. the singular-real-part check)
                                          → `splitComplex`, `fromComplex`, `det3`

Simplifications: values are finite numbers (no NaN/inf: `math.isclose` special-cases inf); a 9-tuple is modelled for
numeric entries only (the code returns any 9-tuple unchecked); Python's `sorted` is modelled as a stable insertion sort
(same result for every input: a stable sort is unique); `np.linalg.det` is the cofactor expansion (K avoids matrices
within rounding distance of the singularity threshold).  Scalars are generic.
-/
import FdtdxModel.Proto
namespace Fdtdx.C39

section generic
variable {α : Type}

/-- an entry of a tuple passed as material property -/
inductive Item (α : Type) where
  | flt (v : α)          -- a Python `float`
  | other (v : α)        -- a number that is not an instance of `float` (int, numpy scalar, complex …)
  | row (xs : List α)    -- a tuple
  deriving Repr

inductive Input (α : Type) where
  | scalar (v : α)               -- anything that is not a tuple
  | tuple (items : List (Item α))
  deriving Repr

def Item.val? : Item α → Option α
  | .flt v => some v
  | .other v => some v
  | .row _ => none

/-- `_normalize_material_property`; `none` = ValueError -/
def normalize [OfNat α 0] : Input α → Option (List α)
  | .scalar v => some [v, 0, 0, 0, v, 0, 0, 0, v]
  | .tuple items =>
    if items.length = 3 then
      match items with
      | [.row a, .row b, .row c] =>
        if a.length ≠ 3 ∨ b.length ≠ 3 ∨ c.length ≠ 3 then none else some (a ++ b ++ c)
      | [.flt x, .flt y, .flt z] => some [x, 0, 0, 0, y, 0, 0, 0, z]
      | _ => none
    else if items.length = 9 then items.mapM Item.val?
    else none

variable [LT α] [DecidableRel (α := α) (· < ·)] [LE α] [DecidableRel (α := α) (· ≤ ·)]
  [Sub α] [Mul α] [Neg α] [OfNat α 0] [OfNat α 1]

def absv (x : α) : α := if x < 0 then -x else x

/-- `math.isclose(a, b, rel_tol=rel)` for finite arguments:
`a == b or |b-a| <= |rel*b| or |b-a| <= |rel*a|` -/
def close (rel a b : α) : Bool :=
  (!decide (a < b) && !decide (b < a)) ||
  decide (absv (b - a) ≤ absv (rel * b)) || decide (absv (b - a) ≤ absv (rel * a))

def at9 (p : List α) (i : Nat) : α := p.getD i 0

/-- `_is_property_diagonally_anisotropic` -/
def isDiag (rel : α) (p : List α) : Bool :=
  [1, 2, 3, 5, 6, 7].all fun i => close rel (at9 p i) 0

/-- `_is_property_isotropic` -/
def isIso (rel : α) (p : List α) : Bool :=
  close rel (at9 p 0) (at9 p 4) && close rel (at9 p 4) (at9 p 8) && isDiag rel p

/-- `Material.is_magnetic` (real entries) -/
def isMagnetic (rel : α) (p : List α) : Bool :=
  !((List.range 9).all fun i => close rel (at9 p i) (if i % 4 = 0 then 1 else 0))

/-- `Material.is_electrically_conductive` / `is_magnetically_conductive` -/
def isConductive (rel : α) (p : List α) : Bool :=
  !((List.range 9).all fun i => close rel (at9 p i) 0)

/-- the four normalised properties of a `Material` -/
structure Mat (α : Type) where
  eps : List α
  mu : List α
  sigE : List α
  sigM : List α
  /-- the material's zero-padded dispersive recurrence rows (c1, c2, c3, c4 of its poles, flattened; all zero for a
  non-dispersive material).  The numbers come from `compute_pole_coefficients_tensor` (property C35) and are opaque here:
  C39 is only about WHICH material's rows sit at which index. -/
  disp : List α := []
  deriving Repr

/-- sort key of `compute_ordered_material_name_tuples` -/
def key (m : Mat α) : α × α × α × α := (at9 m.eps 0, at9 m.mu 0, at9 m.sigE 0, at9 m.sigM 0)

/-- Python tuple `<` on the key, using only `<` on the entries (entries are totally ordered numbers) -/
def keyLt (a b : α × α × α × α) : Bool :=
  decide (a.1 < b.1) || (!decide (b.1 < a.1) &&
    (decide (a.2.1 < b.2.1) || (!decide (b.2.1 < a.2.1) &&
      (decide (a.2.2.1 < b.2.2.1) || (!decide (b.2.2.1 < a.2.2.1) && decide (a.2.2.2 < b.2.2.2))))))

/-- insert `x` in front of the first element that is not smaller: elements inserted later (= earlier in the input,
see `sortBy`) come first among equal keys -/
def insertBy {β : Type} (lt : β → β → Bool) (x : β) : List β → List β
  | [] => [x]
  | y :: ys => if lt y x then y :: insertBy lt x ys else x :: y :: ys

/-- stable insertion sort (`sorted(..., reverse=False)`) -/
def sortBy {β : Type} (lt : β → β → Bool) : List β → List β
  | [] => []
  | x :: xs => insertBy lt x (sortBy lt xs)

/-- `compute_ordered_material_name_tuples` on the dict items in insertion order -/
def ordered {ν : Type} (ms : List (ν × Mat α)) : List (ν × Mat α) :=
  sortBy (fun a b => keyLt (key a.2) (key b.2)) ms

def orderedNames {ν : Type} (ms : List (ν × Mat α)) : List ν := (ordered ms).map (·.1)

/-- mode 0: isotropic `(p[0],)`, 1: diagonal `(p[0], p[4], p[8])`, 2: full 9-tuple -/
def project (mode : Nat) (p : List α) : List α :=
  if mode = 0 then [at9 p 0] else if mode = 1 then [at9 p 0, at9 p 4, at9 p 8] else p

/-- `compute_allowed_<prop>` for the property selected by `sel` -/
def allowed {ν : Type} (sel : Mat α → List α) (mode : Nat) (ms : List (ν × Mat α)) : List (List α) :=
  (ordered ms).map fun m => project mode (sel m.2)

/-- `compute_allowed_dispersive_coefficients`: row `i` of every coefficient array is the block of the `i`-th material of
`ordered` (the loop `for m_idx, (_, mat) in enumerate(ordered)`) -/
def dispersiveTable {ν : Type} (ms : List (ν × Mat α)) : List (List α) :=
  (ordered ms).map fun m => m.2.disp

/-! ### complex permittivity -/

/-- `_split_complex_property` on the flat list of (real, imaginary) parts: σ = ω · vac · ε'' -/
def splitComplex (omega vac : α) (v : List (α × α)) : List α × List α :=
  (v.map (·.1), v.map fun c => omega * vac * c.2)

/-- shape of a complex property: 0 scalar, 1 flat tuple, 2 nested 3x3 (already flattened, row lengths given) -/
def shapeInput (shape : Nat) (rows : List Nat) (xs : List α) : Option (Input α) :=
  if shape = 0 then (match xs with | [v] => some (.scalar v) | _ => none)
  else if shape = 1 then some (.tuple (xs.map .flt))
  else if rows = [3, 3, 3] ∧ xs.length = 9 then some (.tuple (xs.map .flt))   -- nested 3x3 is flattened first
  else none

variable [Add α]

def det3 (m : List α) : α :=
  at9 m 0 * (at9 m 4 * at9 m 8 - at9 m 5 * at9 m 7) - at9 m 1 * (at9 m 3 * at9 m 8 - at9 m 5 * at9 m 6)
    + at9 m 2 * (at9 m 3 * at9 m 7 - at9 m 4 * at9 m 6)

def maxAbs (m : List α) : α := m.foldl (fun acc x => if acc < absv x then absv x else acc) 0

/-- the invertibility check of `from_complex_permittivity`: `|det| < tol * max(1, max|m|^3)` → ValueError -/
def singular (tol : α) (m : List α) : Bool :=
  let mx := maxAbs m
  let cube := mx * mx * mx
  decide (absv (det3 m) < tol * (if (1 : α) < cube then cube else 1))

/-- `Material.from_complex_permittivity`: permittivity and permeability given as (shape, rows, flat complex list) -/
def fromComplex (omega eps0 mu0 tol : α) (se : Nat) (re : List Nat) (e : List (α × α))
    (sm : Nat) (rm : List Nat) (m : List (α × α)) : Option (Mat α) := do
  let (er, es) := splitComplex omega eps0 e
  let (mr, msg) := splitComplex omega mu0 m
  let erN ← (shapeInput se re er).bind normalize
  if singular tol erN then none
  let mrN ← (shapeInput sm rm mr).bind normalize
  if singular tol mrN then none
  let esN ← (shapeInput se re es).bind normalize
  let msN ← (shapeInput sm rm msg).bind normalize
  pure { eps := erN, mu := mrN, sigE := esN, sigM := msN }

end generic

/-! ### Driver -/
open Proto

def readItems : Nat → List String → Option (List (Item Float) × List String)
  | 0, rest => some ([], rest)
  | n + 1, "F" :: v :: rest => do
    let x ← floatOfHex v
    let (is, rest) ← readItems n rest
    pure (.flt x :: is, rest)
  | n + 1, "O" :: v :: rest => do
    let x ← floatOfHex v
    let (is, rest) ← readItems n rest
    pure (.other x :: is, rest)
  | n + 1, "R" :: k :: rest => do
    let k ← k.toNat?
    let (vs, rest) ← takeN k rest
    let xs ← floatsOfHex vs
    let (is, rest) ← readItems n rest
    pure (.row xs :: is, rest)
  | _, _ => none

def readInput : List String → Option (Input Float)
  | ["S", v] => (floatOfHex v).map .scalar
  | "T" :: n :: rest => do
    let n ← n.toNat?
    let (is, rest) ← readItems n rest
    if rest.isEmpty then pure (.tuple is) else none
  | _ => none

def chunk (k : Nat) : Nat → List Float → List (List Float)
  | 0, _ => []
  | n + 1, xs => xs.take k :: chunk k n (xs.drop k)

def pairs : List Float → List (Float × Float)
  | a :: b :: rest => (a, b) :: pairs rest
  | _ => []

/-- ops:
  `norm <input>`                         → `ok <9 floats>` | `error`
  `pred <rel> <9 floats>`                → `<iso> <diag> <magnetic> <conductive>`
  `mats <mode> <n> <36 floats>*n`        → `<order: original indices> | <eps lists> | <mu lists> | <sigE lists> | <sigM lists>`
  `matsd <n> <L> <(36+L) floats>*n`      → `<order> | <dispersive rows in canonical order, L floats each>`
  `cplx <omega> <eps0> <mu0> <tol> <se> <k rows…> <ne> <2ne floats> <sm> <k rows…> <nm> <2nm floats>` → `ok <36 floats>` | `error`
-/
def handle : List String → String
  | "norm" :: rest =>
    match readInput rest with
    | some inp => match normalize inp with
      | some p => "ok " ++ showFloats p
      | none => "error"
    | none => "bad-op"
  | "pred" :: rel :: vs =>
    match floatOfHex rel, floatsOfHex vs with
    | some rel, some p =>
      if p.length ≠ 9 then "bad-op" else
      showBools [isIso rel p, isDiag rel p, isMagnetic rel p, isConductive rel p]
    | _, _ => "bad-op"
  | "mats" :: mode :: n :: vs =>
    match natsOf [mode, n], floatsOfHex vs with
    | some [mode, n], some xs =>
      if xs.length ≠ 36 * n ∨ mode > 2 then "bad-op" else
      let ms : List (Nat × Mat Float) := (List.range n).zip ((chunk 36 n xs).map fun c =>
        ({ eps := c.take 9, mu := (c.drop 9).take 9, sigE := (c.drop 18).take 9, sigM := c.drop 27 } : Mat Float))
      let sh := fun (l : List (List Float)) => showFloats l.flatten
      joinSp [showNats (orderedNames ms), "|", sh (allowed Mat.eps mode ms), "|", sh (allowed Mat.mu mode ms), "|",
              sh (allowed Mat.sigE mode ms), "|", sh (allowed Mat.sigM mode ms)]
    | _, _ => "bad-op"
  | "matsd" :: n :: l :: vs =>
    match natsOf [n, l], floatsOfHex vs with
    | some [n, l], some xs =>
      if xs.length ≠ (36 + l) * n then "bad-op" else
      let ms : List (Nat × Mat Float) := (List.range n).zip ((chunk (36 + l) n xs).map fun c =>
        ({ eps := c.take 9, mu := (c.drop 9).take 9, sigE := (c.drop 18).take 9, sigM := (c.drop 27).take 9,
           disp := c.drop 36 } : Mat Float))
      joinSp [showNats (orderedNames ms), "|", showFloats (dispersiveTable ms).flatten]
    | _, _ => "bad-op"
  | "cplx" :: om :: e0 :: m0 :: tol :: rest =>
    let readProp : List String → Option (Nat × List Nat × List (Float × Float) × List String) := fun toks =>
      match toks with
      | s :: k :: rest => do
        let s ← s.toNat?
        let k ← k.toNat?
        let (rw, rest) ← takeN k rest
        let rows ← natsOf rw
        match rest with
        | n :: rest => do
          let n ← n.toNat?
          let (vs, rest) ← takeN (2 * n) rest
          let xs ← floatsOfHex vs
          pure (s, rows, pairs xs, rest)
        | [] => none
      | _ => none
    match floatsOfHex [om, e0, m0, tol], readProp rest with
    | some [om, e0, m0, tol], some (se, re, e, rest) =>
      match readProp rest with
      | some (sm, rm, m, []) =>
        match fromComplex om e0 m0 tol se re e sm rm m with
        | some r => "ok " ++ showFloats (r.eps ++ r.mu ++ r.sigE ++ r.sigM)
        | none => "error"
      | _ => "bad-op"
    | _, _ => "bad-op"
  | _ => "bad-op"

end Fdtdx.C39
