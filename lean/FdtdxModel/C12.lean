/-
C12 — driver entry: profile / coefficient formulas, `step_cpml` and the PML loops of the curls are modelled in
`FdtdxModel/Cpml.lean`; ops `coef`, `sigend`, `stepcpml`, `pmlcurlE`, `pmlcurlH`, `pmlfwd`, `iface` of `Cpml.handleCpml`.
-/
import FdtdxModel.Cpml
namespace Fdtdx.C12

def handle : List String → String := Cpml.handleCpml

end Fdtdx.C12
