/-
C30 — model of `fdtdx.interfaces.time_filter.LinearReconstructEveryK` and of the
`Recorder.compress / decompress` pipeline around it (`fdtdx/interfaces/recorder.py`),
plus `DtypeConversion` as an embedding/retraction pair.

Mirrors (after the two `fix:` commits recorded in known_findings.json):
  init_shapes        : `_save_time_steps`  = arange(start, T, k) (+ T-1 if missing)
                       `_time_to_arr_idx`  = index of the last saved step ≤ t (0 before the first)
  time_to_array_index: index if t is a saved step, else -1
  compress           : data[idx] := value   when idx ≠ -1
  indices_to_decompress, decompress : saved → data[idx]; else
                       prev + ((t - p)/(n - p)) * (next - prev), p = save[idx], n = save[idx+1]

The `AsFound` section keeps the two behaviours of the pinned tree that violated the property
(first-match lookup of the previous save time; `[:k] = 0` clearing of the index map), used for the
machine-checked refutation witnesses in `FdtdxProps/C30.lean`.

Scalars are generic: the same definitions run on `Float` in the driver and are reasoned about over
an arbitrary field in the theorems.  `cast : Nat → α` stands for the int→float conversion.
-/
import FdtdxModel.Proto
namespace Fdtdx.C30

structure Cfg where
  T : Nat      -- time_steps_max
  k : Nat      -- save every k
  s : Nat      -- start_recording_after
  deriving Repr, DecidableEq

/-- number of entries of `jnp.arange(s, T, k)` -/
def nReg (c : Cfg) : Nat := (c.T - c.s + c.k - 1) / c.k

/-- `t` is one of the saved time steps -/
def saved (c : Cfg) (t : Nat) : Bool :=
  decide (c.s ≤ t) && decide (t < c.T) && (decide ((t - c.s) % c.k = 0) || decide (t + 1 = c.T))

/-- number of saved steps = `_array_size` -/
def arraySize (c : Cfg) : Nat :=
  if (c.T - 1 - c.s) % c.k = 0 then nReg c else nReg c + 1

/-- `_save_time_steps[i]` (clamped like a JAX gather for i ≥ size) -/
def saveTime (c : Cfg) (i : Nat) : Nat := min (c.s + i * c.k) (c.T - 1)

/-- the list `_save_time_steps` -/
def saveSteps (c : Cfg) : List Nat := (List.range (arraySize c)).map (saveTime c)

/-- `_time_to_arr_idx[t]`: index of the last saved step ≤ t, 0 before the first one -/
def arrIdx (c : Cfg) (t : Nat) : Nat :=
  if t < c.s then 0
  else if t + 1 = c.T ∧ (t - c.s) % c.k ≠ 0 then (t - c.s) / c.k + 1
  else (t - c.s) / c.k

/-- `time_to_array_index` -/
def timeToArrayIndex (c : Cfg) (t : Nat) : Int :=
  if saved c t then (arrIdx c t : Int) else -1

/-- one `Recorder.compress` call on an array modelled as `index → value` -/
def compressStep {α : Type} (c : Cfg) (data : Nat → α) (t : Nat) (v : α) : Nat → α :=
  if saved c t then fun i => if i = arrIdx c t then v else data i else data

/-- all compress calls of a run that records `rec t` at step t, for steps 0 … n-1 -/
def compressUpTo {α : Type} (c : Cfg) (rec : Nat → α) (init : Nat → α) : Nat → (Nat → α)
  | 0 => init
  | n + 1 => compressStep c (compressUpTo c rec init n) n (rec n)

def lerp {α : Type} [Add α] [Sub α] [Mul α] (p n f : α) : α := p + f * (n - p)

/-- `decompress` of step `t` from the stored data -/
def decompress {α : Type} [Add α] [Sub α] [Mul α] [Div α] (cast : Nat → α)
    (c : Cfg) (data : Nat → α) (t : Nat) : α :=
  let i := arrIdx c t
  if saved c t then data i
  else
    let p := saveTime c i
    let n := saveTime c (i + 1)
    lerp (data i) (data (i + 1)) (cast (t - p) / cast (n - p))

/-! ### Behaviour of the pinned tree before the fixes (refutation witnesses only) -/
namespace AsFound

/-- `_time_to_arr_idx` with the `.at[:k].set(0)` clearing inside the fill loop (k ≥ 2) -/
def arrIdx (c : Cfg) (t : Nat) : Nat :=
  if c.k ≥ 2 ∧ t < c.k then 0 else C30.arrIdx c t

/-- `index_1d_array(_time_to_arr_idx, i)`: first t with map t = i, 0 if none (argmax of all-false) -/
def firstWith (c : Cfg) (i : Nat) : Nat :=
  match (List.range c.T).find? (fun t => arrIdx c t == i) with
  | some t => t
  | none => 0

def decompress {α : Type} [Add α] [Sub α] [Mul α] [Div α] (cast : Int → α)
    (c : Cfg) (data : Nat → α) (t : Nat) : α :=
  let i := arrIdx c t
  if saved c t then data i
  else
    let p := firstWith c i
    let n := firstWith c (i + 1)
    lerp (data i) (data (i + 1)) (cast ((t : Int) - p) / cast ((n : Int) - p))

end AsFound

/-! ### DtypeConversion: compress = `astype(target)`, decompress = `astype(input dtype)` -/

/-- A dtype conversion pair; `widening` conversions satisfy `down (up x) = x`. -/
structure Conv (α β : Type) where
  up : α → β      -- compress
  down : β → α    -- decompress

/-- full pipeline `[DtypeConversion, LinearReconstructEveryK]` as in `Recorder` -/
def pipelineDecompress {α β : Type} [Add β] [Sub β] [Mul β] [Div β] (cv : Conv α β) (cast : Nat → β)
    (c : Cfg) (rec : Nat → α) (zero : β) (t : Nat) : α :=
  cv.down (decompress cast c (compressUpTo c (fun u => cv.up (rec u)) (fun _ => zero) c.T) t)

/-! ### Driver -/
open Proto

/-- ops:
  `maps T k s`                → `size | save steps | arrIdx 0..T-1 | timeToArrayIndex 0..T-1`
  `dec T k s t v_0 … v_{T-1}` → decompressed value at t after recording v_u at step u (binary64)
-/
def handle : List String → String
  | ["maps", T, k, s] =>
    match natsOf [T, k, s] with
    | some [T, k, s] =>
      let c : Cfg := ⟨T, k, s⟩
      if k = 0 ∨ s ≥ T then "error" else
      s!"{arraySize c} | {showNats (saveSteps c)} | {showNats ((List.range T).map (arrIdx c))} | {showInts ((List.range T).map (timeToArrayIndex c))}"
    | _ => "bad-op"
  | "dec" :: T :: k :: s :: t :: vs =>
    match natsOf [T, k, s, t], floatsOfHex vs with
    | some [T, k, s, t], some vs =>
      let c : Cfg := ⟨T, k, s⟩
      if k = 0 ∨ s ≥ T ∨ vs.length ≠ T ∨ t ≥ T then "error" else
      let rec_ : Nat → Float := fun u => vs.getD u 0.0
      let data := compressUpTo c rec_ (fun _ => 0.0) T
      hexOfFloat (decompress Float.ofNat c data t)
    | _, _ => "bad-op"
  | _ => "bad-op"

end Fdtdx.C30
