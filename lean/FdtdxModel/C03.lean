/-
C03 — driver entry: the model is `FdtdxModel/Cpml.lean` (`forwardP`, `backwardP`, `ifaceBox`, `faceBox`) on top of the
shared Yee model; ops `pmlfwd`, `pmlbwd`, `pmlcurlE`, `pmlcurlH`, `stepcpml`, `coef`, `sigend`, `iface` of
`Cpml.handleCpml`, everything else goes to the plain Yee ops of `YeeIO`.
-/
import FdtdxModel.Cpml
namespace Fdtdx.C03

def handle (toks : List String) : String :=
  match Cpml.handleCpml toks with
  | "bad-op" => YeeIO.handleYee toks
  | r => r

end Fdtdx.C03
