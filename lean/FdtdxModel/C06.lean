/-
C06 — model of `custom_fdtd_forward` (`fdtdx/fdtd/fdtd.py`) and `ArrayContainer.reset`
(`fdtdx/fdtd/container.py`).  The loops and `run_fdtd` come from `FdtdxModel/C05.lean`.

Mirrors (after the `fix:` commit recorded in props/C06.findings.json):
  ArrayContainer.reset(reset_detector_states=True, reset_recording_state=False):
        fields            := tree.map(zeros_like)             → every entry becomes the literal 0
        detector_states   := zeros_like (when the flag is set) → the literal 0
        recording_state   := zeros_like (only when its flag is set and a recording state exists)
        everything else (inverse permittivity / permeability, conductivities, dispersive coefficients,
        initial_inv_permittivities) is carried over unchanged                         = `Container.reset`
  The pinned tree reset detector and recording states with `v * 0` — NOT the literal 0: on binary64 a
  non-finite entry stays NaN and a negative one becomes -0.0.  That behaviour is kept as `AsFound.reset`
  (used for the refutation witness and by the `resetasfound` driver op).
  custom_fdtd_forward(arrays, …, reset_container, record_detectors, start_time, end_time):
        optional reset, state = (start_time, arrays),
        while_loop(max_steps = time_steps_total, cond = end_time > t, body = forward(record_detectors))
                                                                                       = `customForward`
        (as found the iteration bound is the TOTAL step count, whatever start/end are)
        `record_detectors` only selects the step function (`forward(record_detectors=…)`); the optional reset is the
        full `arrays.reset()` whatever the flag is                                      = `customForwardRD`
  detector recording as seen by the reset/record bookkeeping: a detector state is a list of rows, row i is written
        by `forward` (when recording) at the steps listed for it — one step per row for the row-per-on-step
        detectors, all on-steps for the accumulating ones (PhasorDetector)              = `Tag`, `recordBody`

The container is a record of flat lists of scalars (the pytree leaves, flattened); shapes are the list
lengths.  Scalars are generic (`[Mul α] [OfNat α 0]`): `Float` in the driver, a field or the extended
scalars `Ext K` (a field plus one non-finite element) in the theorems.
-/
import FdtdxModel.C05
namespace Fdtdx.C06
open Fdtdx.C05

/-- the pytree leaves of an `ArrayContainer`, flattened -/
structure Container (α : Type) where
  fields : List α        -- FieldState: E, H, psi_E, psi_H (and dispersive polarisation)
  det : List α           -- detector_states
  recording : Option (List α)   -- recording_state (None without a recorder)
  mat : List α           -- materials and coefficient arrays (never touched by reset)
  deriving Repr, DecidableEq

section
variable {α : Type} [Mul α] [OfNat α 0]

/-- `jax.tree.map(jnp.zeros_like, ·)` -/
def zerosLike (l : List α) : List α := l.map (fun _ => 0)

/-- `{k: v * 0}` -/
def timesZero (l : List α) : List α := l.map (fun v => v * 0)

/-- the components of `FieldState` (fdtd/container.py): every one of them is per-time-step state.  `psi_E/psi_H` are the
CPML auxiliaries, `dispersive_P_curr/_prev` the ADE polarisation at the current and the previous step (the history the
recurrence `P_next = c1·P_curr + c2·P_prev + c3·E` reads). -/
structure FieldState (α : Type) where
  E : List α
  H : List α
  psiE : List α
  psiH : List α
  pCurr : List α
  pPrev : List α
  deriving Repr, DecidableEq

/-- the pytree leaves of a FieldState in flattening order — what `Container.fields` holds -/
def FieldState.leaves (f : FieldState α) : List α := f.E ++ f.H ++ f.psiE ++ f.psiH ++ f.pCurr ++ f.pPrev

/-- `jax.tree.map(jnp.zeros_like, self.fields)`: ONE map over every component, the polarisation history included -/
def FieldState.zeroAll (f : FieldState α) : FieldState α :=
  { E := zerosLike f.E, H := zerosLike f.H, psiE := zerosLike f.psiE, psiH := zerosLike f.psiH,
    pCurr := zerosLike f.pCurr, pPrev := zerosLike f.pPrev }

/-- `ArrayContainer.reset(reset_detector_states, reset_recording_state)` -/
def Container.reset (c : Container α) (resetDet : Bool := true) (resetRec : Bool := false) : Container α :=
  { fields := zerosLike c.fields
    det := if resetDet then zerosLike c.det else c.det
    recording := if resetRec then c.recording.map zerosLike else c.recording
    mat := c.mat }

namespace AsFound
/-- `reset` of the pinned tree: detector and recording states are multiplied by 0 -/
def reset (c : Container α) (resetDet : Bool := true) (resetRec : Bool := false) : Container α :=
  { fields := zerosLike c.fields
    det := if resetDet then timesZero c.det else c.det
    recording := if resetRec then c.recording.map timesZero else c.recording
    mat := c.mat }
end AsFound

end

/-- `custom_fdtd_forward`: `T` = config.time_steps_total, `body` = forward with the chosen `record_detectors` -/
def customForward {σ : Type} (T : Nat) (resetContainer : Bool) (reset : σ → σ) (body : Nat → σ → σ)
    (start stop : Nat) (a : σ) : Nat × σ :=
  whileLoop (fun s => decide (stop > s.1)) (step body) T (start, if resetContainer then reset a else a)

/-- `custom_fdtd_forward` with the `record_detectors` flag explicit: it chooses the step function and nothing else -/
def customForwardRD {σ : Type} (T : Nat) (resetContainer recordDetectors : Bool) (reset : σ → σ)
    (body : Bool → Nat → σ → σ) (start stop : Nat) (a : σ) : Nat × σ :=
  customForward T resetContainer reset (body recordDetectors) start stop a

/-- provenance of one detector-state row: the literal zero, the value the container held before the call, or a value
written by `forward` during the call -/
inductive Tag where
  | zero
  | kept (i : Nat)
  | recorded
  deriving DecidableEq, Repr

instance : OfNat Tag 0 := ⟨.zero⟩

/-- `forward(record_detectors = rd)` on provenance tags: row i is (over)written at step t iff recording and
t is one of the steps of row i; fields are written at every step -/
def recordBody (rows : List (List Nat)) (rd : Bool) (t : Nat) (c : Container Tag) : Container Tag :=
  { c with
    fields := c.fields.map (fun _ => Tag.recorded)
    det := if rd then (c.det.zip rows).map (fun (v, steps) => if steps.contains t then Tag.recorded else v) else c.det }

/-- a history of consecutive partial runs `a_0 → a_1 → … → a_n` on the same container (no reset in between) -/
def runHistory {σ : Type} (T : Nat) (body : Nat → σ → σ) : List Nat → Nat × σ → Nat × σ
  | a :: b :: rest, s => runHistory T body (b :: rest) (customForward T false id body a b s.2)
  | _, s => s

/-! ### Driver -/
open Proto

def showRec : Option (List Float) → String
  | none => "none"
  | some l => "some " ++ showFloats l

def parseRow (s : String) : Option (List Nat) :=
  if s = "-" then some [] else (s.splitOn ",").mapM parseNat

def showTag : Tag → String
  | .zero => "z"
  | .kept i => s!"k{i}"
  | .recorded => "r"

def resetOp (asFound : Bool) : List String → String
  | rd :: rr :: nF :: nD :: nR :: nM :: vs =>
    match natsOf [rd, rr, nF, nD, nR, nM], floatsOfHex vs with
    | some [rd, rr, nF, nD, nR, nM], some vs =>
      if rd > 1 ∨ rr > 1 ∨ vs.length ≠ nF + nD + nR + nM then "bad-op" else
      let c : Container Float :=
        { fields := vs.take nF
          det := (vs.drop nF).take nD
          recording := if nR = 0 then none else some ((vs.drop (nF + nD)).take nR)
          mat := vs.drop (nF + nD + nR) }
      let r := if asFound then AsFound.reset c (rd == 1) (rr == 1) else c.reset (rd == 1) (rr == 1)
      s!"{showFloats r.fields} | {showFloats r.det} | {showRec r.recording} | {showFloats r.mat}"
    | _, _ => "bad-op"
  | _ => "bad-op"

/-- ops:
  `cf T start stop pre reset`  → one custom_fdtd_forward on the logging container (C05.logBody) holding `pre`
                                 earlier entries: `final t | executed steps` (the log keeps the earlier entries
                                 unless reset = 1)
  `hist T a0 a1 … an`          → consecutive partial runs from a reset container: `final t | executed steps`
  `cfrd T start stop reset rd row…` → custom_fdtd_forward(reset_container, record_detectors) on a container whose
                                 detector rows hold earlier values; each `row` token lists the steps that write the row
                                 (`3`, `0,3,6`, `-` for none): `final t | tag per row` with z = exactly zero,
                                 k<i> = the earlier value of row i, r = written during the call
  `resetfs nE nH nPsiE nPsiH nPcurr nPprev v…` → the six FieldState components after reset, one group each, and
                                 whether Container.reset on their concatenated leaves is all +0.0
  `resetasfound …`             → same arguments as `reset`, the pinned tree's `v*0` behaviour
  `reset rd rr nF nD nR nM v…` → Container.reset with flags rd, rr on nF field, nD detector, nR recording
                                 (nR = 0 with rr… see below) and nM material values (binary64 bit patterns):
                                 `fields | det | recording | mat` as bit patterns; `hasrec` is encoded as nR ≥ 1,
                                 a container without recording state is nR = 0
-/
def handle : List String → String
  | ["cf", T, start, stop, pre, rs] =>
    match natsOf [T, start, stop, pre, rs] with
    | some [T, start, stop, pre, rs] =>
      if rs > 1 then "bad-op" else
      showRun (customForward T (rs == 1) (fun _ => ([] : List Nat)) logBody start stop (List.replicate pre 0))
    | _ => "bad-op"
  | "hist" :: T :: pts =>
    match parseNat T, natsOf pts with
    | some T, some pts =>
      match pts with
      | [] => "bad-op"
      | a0 :: _ => showRun (runHistory T logBody pts (a0, ([] : List Nat)))
    | _, _ => "bad-op"
  | "cfrd" :: T :: start :: stop :: rs :: rd :: rows =>
    match natsOf [T, start, stop, rs, rd], rows.mapM parseRow with
    | some [T, start, stop, rs, rd], some rows =>
      if rs > 1 ∨ rd > 1 then "bad-op" else
      let c : Container Tag := { fields := [Tag.kept 0], det := (List.range rows.length).map Tag.kept, recording := none, mat := [] }
      let r := customForwardRD T (rs == 1) (rd == 1) (fun x => x.reset) (recordBody rows) start stop c
      s!"{r.1} | {joinSp (r.2.det.map showTag)}"
    | _, _ => "bad-op"
  | "resetfs" :: nE :: nH :: nPe :: nPh :: nPc :: nPp :: vs =>
    match natsOf [nE, nH, nPe, nPh, nPc, nPp], floatsOfHex vs with
    | some [nE, nH, nPe, nPh, nPc, nPp], some vs =>
      if vs.length ≠ nE + nH + nPe + nPh + nPc + nPp then "bad-op" else
      let f : FieldState Float :=
        { E := vs.take nE, H := (vs.drop nE).take nH, psiE := (vs.drop (nE + nH)).take nPe,
          psiH := (vs.drop (nE + nH + nPe)).take nPh, pCurr := (vs.drop (nE + nH + nPe + nPh)).take nPc,
          pPrev := vs.drop (nE + nH + nPe + nPh + nPc) }
      let c : Container Float := { fields := f.leaves, det := [], recording := none, mat := [] }
      let z := f.zeroAll
      let viaContainer := if c.reset.fields.all (fun x => x.toBits == 0) then "1" else "0"
      s!"{showFloats z.E} | {showFloats z.H} | {showFloats z.psiE} | {showFloats z.psiH} | {showFloats z.pCurr} | {showFloats z.pPrev} | {viaContainer}"
    | _, _ => "bad-op"
  | "reset" :: rest => resetOp false rest
  | "resetasfound" :: rest => resetOp true rest
  | _ => "bad-op"

end Fdtdx.C06
