/-
C28 — model of the static-material part of `_init_arrays` (`fdtdx/fdtd/initialization.py`): tier selection
(`ObjectContainer.all_objects_*` in `fdtdx/fdtd/container.py`, predicates of `fdtdx/materials.py`), allocation
(component counts, scalar permeability, `None` conductivities, `conductivity_spacing`) and the painter loop over
`sorted(objects.static_material_objects, key=lambda o: o.placement_order)`.

Mirrors:
  Material predicates   `_is_property_isotropic`, `_is_property_diagonally_anisotropic`, `is_magnetic`,
                        `is_electrically_conductive`, `is_magnetically_conductive` — all through `math.isclose`
                        (passed in as `close`, so the driver uses the rel_tol=1e-9/abs_tol=0 float test and the
                        theorems work with any Boolean relation)
  tier selection        `num_*_components` = 1 if all materials (static objects AND devices, every entry of a
                        `materials` dict) are isotropic, 3 if all diagonal, else 9
  allocation            inv_permeabilities = scalar 1.0 iff no material is magnetic; conductivity arrays only when
                        some material is conductive; `conductivity_spacing = c * dt / courant_number`
  painter loop          stable sort by placement_order (`List.mergeSort` is stable; Python's `sorted` too), then
                        UniformMaterialObject:       arr[:, slice] = value             (1/x, or 3x3 inverse at tier 9)
                        StaticMultiMaterialObject:   arr[:, slice] = inv(inv(arr) + mask * (value - inv(arr)))
                                                     cond[:, slice] += mask * (value*spacing - cond)
  sub-pixel smoothing   per OBJECT (`use_subpixel = any_object_subpixel_smoothing and o.subpixel_smoothing`): a smoothed
                        multi-material object runs the diagonal Farjadpour blend on its whole grid slice
                        (eps_bar/eps_h from the xx entries of the object material and of what lies underneath,
                        eps_ii = eps_bar - (eps_bar - eps_h) n_i^2), every other object is painted as usual; any smoothed
                        object forces the 3-component permittivity tier
Simplified / not modelled: the full-tensor smoothing variant (`subpixel_full_tensor`), fractional fill (the fill
fraction is the 0/1 voxel mask, as for Sphere/Cylinder), dispersion arrays, complex fields, sharding.  A multi-material
object paints one material (`material_name`, as Sphere/Cylinder do); its whole `materials` dict still enters the
tier selection.  The voxel mask and the grid slice are inputs (rasterisation is C43).  Arrays are functions
cell → `V9` (nine stored components, of which the first `n` are meaningful at tier `n`); scalars are generic.
`V9` is a plain record so that the compiled loop stores values instead of re-evaluating nested closures.
-/
import FdtdxModel.Proto
namespace Fdtdx.C28

/-- a `Material`: four normalised 9-tuples (xx,xy,xz,yx,yy,yz,zx,zy,zz), as functions of the index 0..8 -/
structure Mat (α : Type) where
  eps : Nat → α
  mu : Nat → α
  sigE : Nat → α
  sigM : Nat → α

/-- a placed static object; `ι` is the type of grid cells -/
structure SObj (ι α : Type) where
  order : Int               -- placement_order
  uniform : Bool            -- UniformMaterialObject (incl. SimulationVolume) / StaticMultiMaterialObject
  inBox : ι → Bool          -- the cell lies in `grid_slice`
  mask : ι → Bool           -- `get_voxel_mask_for_shape()` at the cell (read for multi-material objects only)
  mat : Mat α               -- the material painted
  mats : List (Mat α)       -- every material attached to the object (`material` or all `materials.values()`)
  smooth : Bool             -- `subpixel_smoothing` (multi-material objects only)
  nrm2 : ι → Nat → α        -- squared components n_i^2 of `get_interface_normal_for_shape()` (read when smoothed)

variable {ι α : Type}

/-- the object paints the cell -/
def covers (o : SObj ι α) (c : ι) : Bool := o.inBox c && (o.uniform || o.mask c)

/-- `sorted(static_material_objects, key=placement_order)` -/
def sortObjs (l : List (SObj ι α)) : List (SObj ι α) := l.mergeSort (fun a b => decide (a.order ≤ b.order))

/-! ### tier selection -/
section tiers
variable [OfNat α 0] [OfNat α 1] (close : α → α → Bool)

def offDiagZero (p : Nat → α) : Bool :=
  close (p 1) 0 && close (p 2) 0 && close (p 3) 0 && close (p 5) 0 && close (p 6) 0 && close (p 7) 0

/-- `_is_property_isotropic` -/
def isIso (p : Nat → α) : Bool := close (p 0) (p 4) && close (p 4) (p 8) && offDiagZero close p

/-- `_is_property_diagonally_anisotropic` -/
def isDiag (p : Nat → α) : Bool := offDiagZero close p

/-- NOT `is_magnetic`: the tensor is the identity -/
def isUnit (p : Nat → α) : Bool := close (p 0) 1 && close (p 4) 1 && close (p 8) 1 && offDiagZero close p

/-- NOT `is_*_conductive`: all nine entries vanish -/
def isNull (p : Nat → α) : Bool := close (p 0) 0 && close (p 4) 0 && close (p 8) 0 && offDiagZero close p

/-- component count of one property over all materials of the scene -/
def tierOf (ps : List (Nat → α)) : Nat :=
  if ps.all (isIso close) then 1 else if ps.all (isDiag close) then 3 else 9

end tiers

/-! ### values stored per tier -/
section values
variable [Add α] [Sub α] [Mul α] [Div α] [OfNat α 0] [OfNat α 1]

/-- the tuple written for a property at tier `n`: (p0), (p0,p4,p8) or all nine -/
def tierVal (n : Nat) (p : Nat → α) : Nat → α :=
  if n = 1 then fun _ => p 0 else if n = 3 then fun k => p (4 * k) else p

def det3 (m : Nat → α) : α :=
  m 0 * (m 4 * m 8 - m 5 * m 7) - m 1 * (m 3 * m 8 - m 5 * m 6) + m 2 * (m 3 * m 7 - m 4 * m 6)

/-- adjugate of a row-major 3x3 matrix -/
def adj3 (m : Nat → α) (k : Nat) : α :=
  match k with
  | 0 => m 4 * m 8 - m 5 * m 7
  | 1 => m 2 * m 7 - m 1 * m 8
  | 2 => m 1 * m 5 - m 2 * m 4
  | 3 => m 5 * m 6 - m 3 * m 8
  | 4 => m 0 * m 8 - m 2 * m 6
  | 5 => m 2 * m 3 - m 0 * m 5
  | 6 => m 3 * m 7 - m 4 * m 6
  | 7 => m 1 * m 6 - m 0 * m 7
  | 8 => m 0 * m 4 - m 1 * m 3
  | _ => 0

/-- `jnp.linalg.inv` of the reshaped 3x3 tensor, flattened -/
def inv3x3 (m : Nat → α) : Nat → α := fun k => adj3 m k / det3 m

/-- `1 / arr` for tiers 1 and 3, matrix inverse for tier 9 (`_invert_property`) -/
def invTier (n : Nat) (v : Nat → α) : Nat → α :=
  if n = 9 then inv3x3 v else fun k => 1 / v k

/-- nine stored components of one cell -/
structure V9 (α : Type) where
  x0 : α
  x1 : α
  x2 : α
  x3 : α
  x4 : α
  x5 : α
  x6 : α
  x7 : α
  x8 : α

def V9.get (v : V9 α) : Nat → α
  | 0 => v.x0 | 1 => v.x1 | 2 => v.x2 | 3 => v.x3 | 4 => v.x4 | 5 => v.x5 | 6 => v.x6 | 7 => v.x7 | _ => v.x8

def V9.ofFn (f : Nat → α) : V9 α := ⟨f 0, f 1, f 2, f 3, f 4, f 5, f 6, f 7, f 8⟩

/-- one painter step on one cell of an inverse-stored property (`inv_permittivities`, `inv_permeabilities`) -/
def paintInv (n : Nat) (prop : Mat α → Nat → α) (c : ι) (cur : V9 α) (o : SObj ι α) : V9 α :=
  if o.inBox c then
    if o.uniform then V9.ofFn (invTier n (tierVal n (prop o.mat)))
    else
      let p := V9.ofFn (invTier n cur.get)
      let cv := tierVal n (prop o.mat)
      let m : α := if o.mask c then 1 else 0
      let q := V9.ofFn (fun k => p.get k + m * (cv k - p.get k))
      V9.ofFn (invTier n q.get)
  else cur

/-- one painter step on one cell of `inv_permittivities`: a smoothed multi-material object blends the xx entries
over its whole grid slice (diagonal variant), everything else is `paintInv`.  The switch is the object's own flag. -/
def paintEps (n : Nat) (c : ι) (cur : V9 α) (o : SObj ι α) : V9 α :=
  if o.smooth && !o.uniform then
    if o.inBox c then
      let p := V9.ofFn (invTier n cur.get)
      let cv := tierVal n o.mat.eps
      let m : α := if o.mask c then 1 else 0          -- fill fraction (0/1: no fractional rasteriser)
      let eps1 := p.get 0
      let eps2 := cv 0
      let epsBar := m * eps2 + (1 - m) * eps1
      let epsH := 1 / (m / eps2 + (1 - m) / eps1)
      let delta := epsBar - epsH
      let q := V9.ofFn (fun k => epsBar - delta * o.nrm2 c k)
      V9.ofFn (invTier n q.get)
    else cur
  else paintInv n (·.eps) c cur o

/-- one painter step on one cell of a conductivity array -/
def paintCond (n : Nat) (sp : α) (prop : Mat α → Nat → α) (c : ι) (cur : V9 α) (o : SObj ι α) : V9 α :=
  if o.inBox c then
    if o.uniform then V9.ofFn (fun k => tierVal n (prop o.mat) k * sp)
    else
      let m : α := if o.mask c then 1 else 0
      V9.ofFn (fun k => cur.get k + m * (tierVal n (prop o.mat) k * sp - cur.get k))
  else cur

/-- a painter step on the whole array -/
def paintArr (step : ι → V9 α → SObj ι α → V9 α) (arr : ι → V9 α) (o : SObj ι α) : ι → V9 α :=
  fun c => step c (arr c) o

/-- the loop over the sorted objects, starting from the zero array -/
def paintAll (step : ι → V9 α → SObj ι α → V9 α) (objs : List (SObj ι α)) : ι → V9 α :=
  (sortObjs objs).foldl (paintArr step) (fun _ => V9.ofFn (fun _ => 0))

/-- `conductivity_spacing = constants.c * config.time_step_duration / config.courant_number` -/
def condSpacing (c dt courant : α) : α := c * dt / courant

/-- what `_init_arrays` hands to the ArrayContainer (static material part) -/
structure Arrays (ι α : Type) where
  nEps : Nat
  invEps : ι → V9 α
  invMu : Option (Nat × (ι → V9 α))      -- `none` = the Python scalar 1.0
  sigE : Option (Nat × (ι → V9 α))       -- `none` = Python None
  sigM : Option (Nat × (ι → V9 α))

/-- every material of the scene, as `_iter_materials` yields them: static objects, then devices -/
def allMats (objs : List (SObj ι α)) (devMats : List (Mat α)) : List (Mat α) :=
  objs.flatMap (·.mats) ++ devMats

def initArrays (close : α → α → Bool) (c dt courant : α) (objs : List (SObj ι α)) (devMats : List (Mat α)) :
    Arrays ι α :=
  let ms := allMats objs devMats
  -- any smoothed object: `isotropic_permittivity = False; diagonally_anisotropic_permittivity = True`
  let nEps := if objs.any (fun o => o.smooth && !o.uniform) then 3 else tierOf close (ms.map (·.eps))
  let nMu := tierOf close (ms.map (·.mu))
  let nSe := tierOf close (ms.map (·.sigE))
  let nSm := tierOf close (ms.map (·.sigM))
  let sp := condSpacing c dt courant
  { nEps := nEps
    invEps := paintAll (paintEps nEps) objs
    invMu := if ms.all (fun m => isUnit close m.mu) then none
             else some (nMu, paintAll (paintInv nMu (·.mu)) objs)
    sigE := if ms.all (fun m => isNull close m.sigE) then none
            else some (nSe, paintAll (paintCond nSe sp (·.sigE)) objs)
    sigM := if ms.all (fun m => isNull close m.sigM) then none
            else some (nSm, paintAll (paintCond nSm sp (·.sigM)) objs) }

end values

/-! ### Driver -/
open Proto

/-- `math.isclose(a, b)` with the default `rel_tol=1e-9`, `abs_tol=0.0` -/
def closeF (a b : Float) : Bool :=
  a == b || (!(a.isInf || b.isInf) &&
    ((b - a).abs ≤ (1e-9 * b).abs || (b - a).abs ≤ (1e-9 * a).abs))

def bitsOf (s : String) (n : Nat) : Option (Array Bool) :=
  if s.length ≠ n then none else
  s.toList.foldl (fun acc ch => match acc with
    | none => none
    | some a => if ch = '1' then some (a.push true) else if ch = '0' then some (a.push false) else none) (some #[])

def matOf (l : List Float) : Mat Float :=
  let a := l.toArray
  { eps := fun k => a.getD k 0.0, mu := fun k => a.getD (9 + k) 0.0,
    sigE := fun k => a.getD (18 + k) 0.0, sigM := fun k => a.getD (27 + k) 0.0 }

/-- `cnt` materials of 36 hex floats each -/
def takeMats : Nat → List String → Option (List (Mat Float) × List String)
  | 0, rest => some ([], rest)
  | cnt + 1, rest =>
    match takeN 36 rest with
    | none => none
    | some (hd, tl) =>
      match floatsOfHex hd, takeMats cnt tl with
      | some fs, some (ms, r) => some (matOf fs :: ms, r)
      | _, _ => none

/-- objects: `order kind boxbits maskbits [3N hex: n_i^2 component-major, kind 2 only] nmats mat…`
with kind 1 = uniform, 0 = multi-material, 2 = multi-material with sub-pixel smoothing -/
def takeObjs (N : Nat) : Nat → List String → Option (List (SObj Nat Float) × List String)
  | 0, rest => some ([], rest)
  | cnt + 1, ord :: uni :: bb :: mb :: rest0 =>
    if uni ≠ "0" ∧ uni ≠ "1" ∧ uni ≠ "2" then none else
    let nrmPart : Option (Array Float × List String) :=
      if uni == "2" then
        match takeN (3 * N) rest0 with
        | some (hd, tl) => (floatsOfHex hd).map (fun fs => (fs.toArray, tl))
        | none => none
      else some (#[], rest0)
    match nrmPart with
    | some (nrm, nm :: rest) =>
      match parseInt ord, bitsOf bb N, bitsOf mb N, parseNat nm with
      | some ord, some bb, some mb, some nm =>
        if nm = 0 then none else
        match takeMats nm rest with
        | some (m :: ms, r) =>
          match takeObjs N cnt r with
          | some (os, r') =>
            some ({ order := ord, uniform := uni == "1", inBox := fun c => bb.getD c false,
                    mask := fun c => mb.getD c false, mat := m, mats := m :: ms, smooth := uni == "2",
                    nrm2 := fun c k => nrm.getD (k * N + c) 0.0 } :: os, r')
          | none => none
        | _ => none
      | _, _, _, _ => none
    | _ => none
  | _, _ => none

def showArr (N n : Nat) (f : Nat → V9 Float) : String :=
  let cells := (List.range N).map f
  showFloats ((List.range n).flatMap (fun k => cells.map (fun v => v.get k)))

def showOpt (N : Nat) (none_ : String) : Option (Nat × (Nat → V9 Float)) → String
  | none => none_
  | some (n, f) => s!"{n} {showArr N n f}"

/-- ops:
  `paint N c dt courant nobj obj… ndev mat…` → `nEps <eps> | <nMu mu or scalar> | <nSe sigE or none> | <nSm sigM or none>`
      (floats as hex; arrays component-major, then cells in the flat order of the request's bit strings)
  `close a b` → math.isclose bit
-/
def handle : List String → String
  | ["close", a, b] =>
    match floatOfHex a, floatOfHex b with
    | some a, some b => if closeF a b then "1" else "0"
    | _, _ => "bad-op"
  | "paint" :: N :: c :: dt :: cn :: nobj :: rest =>
    match parseNat N, floatsOfHex [c, dt, cn], parseNat nobj with
    | some N, some [c, dt, cn], some nobj =>
      match takeObjs N nobj rest with
      | some (objs, ndev :: rest') =>
        match parseNat ndev with
        | some ndev =>
          match takeMats ndev rest' with
          | some (devs, []) =>
            let a := initArrays closeF c dt cn objs devs
            s!"{a.nEps} {showArr N a.nEps a.invEps} | {showOpt N "scalar" a.invMu} | {showOpt N "none" a.sigE} | {showOpt N "none" a.sigM}"
          | _ => "bad-op"
        | none => "bad-op"
      | _ => "bad-op"
    | _, _, _ => "bad-op"
  | _ => "bad-op"

end Fdtdx.C28
