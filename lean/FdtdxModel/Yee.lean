/-
Shared model of the non-dispersive Yee time step of fdtdx (isotropic / diagonally anisotropic tier):

  fdtdx/core/misc.py            pad_fields                      → `next1` / `prev1` (zero or wrap halo, one cell)
  fdtdx/objects/boundaries/bloch.py  apply_pad_correction       → ghost multipliers `pp` (right ghost) / `pm` (left ghost)
  fdtdx/core/physics/curl.py    _metric_scale, curl_E, curl_H   → `sf*` / `sb*`, `curlE`, `curlH`   (no PML terms here)
  fdtdx/fdtd/update.py          update_E, update_H (diagonal branch, optional conductivity), the reverse updates,
                                apply_boundary_post_E/H_update (PEC / PMC tangential zeroing)
  fdtdx/fdtd/forward.py / backward.py   forward = E update then H update;  backward = reverse H then reverse E

A 3-D array is a function `Nat → Nat → Nat → α` (only indices below the shape are meaningful); a vector field
is three of them.  Everything is generic in the scalar type: the driver instantiates `Float`, the theorems a
field.  Sources are *additive, field-independent* terms `jE`, `jH` handed in by the caller (that is the contract
of `Source.update_E/update_H`, checked separately by the correspondence of C02/C10/C13).

Not modelled here: full 3×3 tensors (`YeeAniso`), CPML (`Cpml`), dispersion (`C36`).
-/
import FdtdxModel.Proto
namespace Fdtdx.Yee

abbrev F3 (α : Type) := Nat → Nat → Nat → α

structure V3 (α : Type) where
  x : F3 α
  y : F3 α
  z : F3 α

/-- boundary data of one axis -/
structure AxisBC (α : Type) where
  wrap : Bool          -- any boundary object on this axis uses wrap padding (periodic / Bloch)
  pp : α               -- multiplier of the right ghost cell (Bloch phase, 1 for periodic)
  pm : α               -- multiplier of the left ghost cell (conjugate phase, 1 for periodic)
  pecLo : Bool         -- PerfectElectricConductor at the min face
  pecHi : Bool
  pmcLo : Bool         -- PerfectMagneticConductor at the min face
  pmcHi : Bool

structure Cfg (α : Type) where
  nx : Nat
  ny : Nat
  nz : Nat
  bx : AxisBC α
  by_ : AxisBC α
  bz : AxisBC α
  sfx : Nat → α        -- forward-stencil metric scale (curl_E), 1 on a uniform grid
  sfy : Nat → α
  sfz : Nat → α
  sbx : Nat → α        -- backward-stencil metric scale (curl_H)
  sby : Nat → α
  sbz : Nat → α
  c : α                -- config.courant_number
  eta0 : α

section ops
variable {α : Type} [Add α] [Sub α] [Mul α] [Div α] [OfNat α 0] [OfNat α 1] [OfNat α 2]

/-- value at `i+1` of a padded 1-D line: zero halo, or wrap with the right-ghost multiplier -/
def next1 (n : Nat) (b : AxisBC α) (g : Nat → α) (i : Nat) : α :=
  if i + 1 < n then g (i + 1) else if b.wrap then g 0 * b.pp else 0

/-- value at `i-1` of a padded 1-D line -/
def prev1 (n : Nat) (b : AxisBC α) (g : Nat → α) (i : Nat) : α :=
  if i = 0 then (if b.wrap then g (n - 1) * b.pm else 0) else g (i - 1)

/-- `_metric_scale(..., "forward")`: reference_spacing / width -/
def metricFwd (ref : α) (w : Nat → α) (i : Nat) : α := ref / w i

/-- `_metric_scale(..., "backward")`: reference_spacing / (0.5 (w_i + w_{i-1})), with w_{-1} := w_0 -/
def metricBwd (ref : α) (w : Nat → α) (i : Nat) : α :=
  ref / ((w i + (if i = 0 then w 0 else w (i - 1))) / 2)

/-- `curl_E` without PML terms: forward differences -/
def curlE (cf : Cfg α) (E : V3 α) : V3 α where
  x := fun i j k =>
    (next1 cf.ny cf.by_ (fun j' => E.z i j' k) j - E.z i j k) * cf.sfy j
      - (next1 cf.nz cf.bz (fun k' => E.y i j k') k - E.y i j k) * cf.sfz k
  y := fun i j k =>
    (next1 cf.nz cf.bz (fun k' => E.x i j k') k - E.x i j k) * cf.sfz k
      - (next1 cf.nx cf.bx (fun i' => E.z i' j k) i - E.z i j k) * cf.sfx i
  z := fun i j k =>
    (next1 cf.nx cf.bx (fun i' => E.y i' j k) i - E.y i j k) * cf.sfx i
      - (next1 cf.ny cf.by_ (fun j' => E.x i j' k) j - E.x i j k) * cf.sfy j

/-- `curl_H` without PML terms: backward differences -/
def curlH (cf : Cfg α) (H : V3 α) : V3 α where
  x := fun i j k =>
    (H.z i j k - prev1 cf.ny cf.by_ (fun j' => H.z i j' k) j) * cf.sby j
      - (H.y i j k - prev1 cf.nz cf.bz (fun k' => H.y i j k') k) * cf.sbz k
  y := fun i j k =>
    (H.x i j k - prev1 cf.nz cf.bz (fun k' => H.x i j k') k) * cf.sbz k
      - (H.z i j k - prev1 cf.nx cf.bx (fun i' => H.z i' j k) i) * cf.sbx i
  z := fun i j k =>
    (H.y i j k - prev1 cf.nx cf.bx (fun i' => H.y i' j k) i) * cf.sbx i
      - (H.x i j k - prev1 cf.ny cf.by_ (fun j' => H.x i j' k) j) * cf.sby j

/-- cell lies in the one-cell layer of a wall at the low/high face of an axis of length `n` -/
def onWall (lo hi : Bool) (n i : Nat) : Bool := (lo && i == 0) || (hi && i + 1 == n)

/-- component `comp` (0,1,2) is zeroed at (i,j,k) by a PEC (`apply_post_E_update`): tangential to a wall axis -/
def pecMask (cf : Cfg α) (comp : Nat) (i j k : Nat) : Bool :=
  (comp != 0 && onWall cf.bx.pecLo cf.bx.pecHi cf.nx i) ||
  (comp != 1 && onWall cf.by_.pecLo cf.by_.pecHi cf.ny j) ||
  (comp != 2 && onWall cf.bz.pecLo cf.bz.pecHi cf.nz k)

def pmcMask (cf : Cfg α) (comp : Nat) (i j k : Nat) : Bool :=
  (comp != 0 && onWall cf.bx.pmcLo cf.bx.pmcHi cf.nx i) ||
  (comp != 1 && onWall cf.by_.pmcLo cf.by_.pmcHi cf.ny j) ||
  (comp != 2 && onWall cf.bz.pmcLo cf.bz.pmcHi cf.nz k)

def maskV (m : Nat → Nat → Nat → Nat → Bool) (V : V3 α) : V3 α where
  x := fun i j k => if m 0 i j k then 0 else V.x i j k
  y := fun i j k => if m 1 i j k then 0 else V.y i j k
  z := fun i j k => if m 2 i j k then 0 else V.z i j k

/-- `apply_boundary_post_E_update` -/
def projE (cf : Cfg α) (E : V3 α) : V3 α := maskV (pecMask cf) E
/-- `apply_boundary_post_H_update` -/
def projH (cf : Cfg α) (H : V3 α) : V3 α := maskV (pmcMask cf) H

/-- materials of the diagonal tier; `none` conductivity = the `sigma is None` branch -/
structure Mat (α : Type) where
  invEps : V3 α
  invMu : V3 α
  sigE : Option (V3 α)
  sigH : Option (V3 α)

/-- the E update of one component at one cell (before sources and walls) -/
def updE1 (c eta0 : α) (e curl ie : α) (sig : Option α) : α :=
  match sig with
  | none => e + c * curl * ie
  | some s => ((1 - c * s * eta0 * ie / 2) * e + c * curl * ie) / (1 + c * s * eta0 * ie / 2)

/-- the H update of one component at one cell -/
def updH1 (c eta0 : α) (h curl im : α) (sig : Option α) : α :=
  match sig with
  | none => h - c * curl * im
  | some s => ((1 - c * s / eta0 * im / 2) * h - c * curl * im) / (1 + c * s / eta0 * im / 2)

/-- reverse of `updE1` (`update_E_reverse`, after the source term has been removed) -/
def revE1 (c eta0 : α) (e curl ie : α) (sig : Option α) : α :=
  match sig with
  | none => (e - c * curl * ie) / 1
  | some s => (e * (1 + c * s * eta0 * ie / 2) - c * curl * ie) / (1 - c * s * eta0 * ie / 2)

def revH1 (c eta0 : α) (h curl im : α) (sig : Option α) : α :=
  match sig with
  | none => (h + c * curl * im) / 1
  | some s => (h * (1 + c * s / eta0 * im / 2) + c * curl * im) / (1 - c * s / eta0 * im / 2)

def optAt (s : Option (F3 α)) (i j k : Nat) : Option α := s.map (fun f => f i j k)

def addV (A B : V3 α) : V3 α where
  x := fun i j k => A.x i j k + B.x i j k
  y := fun i j k => A.y i j k + B.y i j k
  z := fun i j k => A.z i j k + B.z i j k

def subV (A B : V3 α) : V3 α where
  x := fun i j k => A.x i j k - B.x i j k
  y := fun i j k => A.y i j k - B.y i j k
  z := fun i j k => A.z i j k - B.z i j k

/-- `update_E`: curl of H, material update, additive source term `jE`, PEC walls -/
def stepE (cf : Cfg α) (m : Mat α) (jE : V3 α) (E H : V3 α) : V3 α :=
  let cu := curlH cf H
  projE cf (addV
    { x := fun i j k => updE1 cf.c cf.eta0 (E.x i j k) (cu.x i j k) (m.invEps.x i j k) (optAt (m.sigE.map (·.x)) i j k)
      y := fun i j k => updE1 cf.c cf.eta0 (E.y i j k) (cu.y i j k) (m.invEps.y i j k) (optAt (m.sigE.map (·.y)) i j k)
      z := fun i j k => updE1 cf.c cf.eta0 (E.z i j k) (cu.z i j k) (m.invEps.z i j k) (optAt (m.sigE.map (·.z)) i j k) }
    jE)

/-- `update_H` (uses the already updated E) -/
def stepH (cf : Cfg α) (m : Mat α) (jH : V3 α) (E H : V3 α) : V3 α :=
  let cu := curlE cf E
  projH cf (addV
    { x := fun i j k => updH1 cf.c cf.eta0 (H.x i j k) (cu.x i j k) (m.invMu.x i j k) (optAt (m.sigH.map (·.x)) i j k)
      y := fun i j k => updH1 cf.c cf.eta0 (H.y i j k) (cu.y i j k) (m.invMu.y i j k) (optAt (m.sigH.map (·.y)) i j k)
      z := fun i j k => updH1 cf.c cf.eta0 (H.z i j k) (cu.z i j k) (m.invMu.z i j k) (optAt (m.sigH.map (·.z)) i j k) }
    jH)

/-- `forward`: (E, H) ↦ (E', H') -/
def forward (cf : Cfg α) (m : Mat α) (jE jH : V3 α) (E H : V3 α) : V3 α × V3 α :=
  let E' := stepE cf m jE E H
  (E', stepH cf m jH E' H)

/-- `update_H_reverse`: remove the source term, undo the update with the curl of the *current* E, PMC walls -/
def revStepH (cf : Cfg α) (m : Mat α) (jH : V3 α) (E H : V3 α) : V3 α :=
  let cu := curlE cf E
  let H0 := subV H jH
  projH cf
    { x := fun i j k => revH1 cf.c cf.eta0 (H0.x i j k) (cu.x i j k) (m.invMu.x i j k) (optAt (m.sigH.map (·.x)) i j k)
      y := fun i j k => revH1 cf.c cf.eta0 (H0.y i j k) (cu.y i j k) (m.invMu.y i j k) (optAt (m.sigH.map (·.y)) i j k)
      z := fun i j k => revH1 cf.c cf.eta0 (H0.z i j k) (cu.z i j k) (m.invMu.z i j k) (optAt (m.sigH.map (·.z)) i j k) }

/-- `update_E_reverse` (uses the already reversed H) -/
def revStepE (cf : Cfg α) (m : Mat α) (jE : V3 α) (E H : V3 α) : V3 α :=
  let cu := curlH cf H
  let E0 := subV E jE
  projE cf
    { x := fun i j k => revE1 cf.c cf.eta0 (E0.x i j k) (cu.x i j k) (m.invEps.x i j k) (optAt (m.sigE.map (·.x)) i j k)
      y := fun i j k => revE1 cf.c cf.eta0 (E0.y i j k) (cu.y i j k) (m.invEps.y i j k) (optAt (m.sigE.map (·.y)) i j k)
      z := fun i j k => revE1 cf.c cf.eta0 (E0.z i j k) (cu.z i j k) (m.invEps.z i j k) (optAt (m.sigE.map (·.z)) i j k) }

/-- `backward` (without interfaces / field reset): reverse H, then reverse E -/
def backward (cf : Cfg α) (m : Mat α) (jE jH : V3 α) (E H : V3 α) : V3 α × V3 α :=
  let H' := revStepH cf m jH E H
  (revStepE cf m jE E H', H')

end ops

/-! ### execution support: flat arrays (row-major (i,j,k)), used by the drivers only -/

structure A3 (α : Type) where
  nx : Nat
  ny : Nat
  nz : Nat
  data : Array α

def A3.toF3 {α : Type} [Inhabited α] (a : A3 α) : F3 α :=
  fun i j k => a.data[(i * a.ny + j) * a.nz + k]!

def tabulate {α : Type} (nx ny nz : Nat) (f : F3 α) : A3 α :=
  { nx := nx, ny := ny, nz := nz,
    data := Id.run do
      let mut out : Array α := Array.mkEmpty (nx * ny * nz)
      for i in [0:nx] do
        for j in [0:ny] do
          for k in [0:nz] do
            out := out.push (f i j k)
      return out }

/-- evaluate a vector field on the grid once and turn it back into functions (cuts closure chains between steps) -/
def materialize {α : Type} [Inhabited α] (nx ny nz : Nat) (V : V3 α) : V3 α :=
  let ax := tabulate nx ny nz V.x
  let ay := tabulate nx ny nz V.y
  let az := tabulate nx ny nz V.z
  { x := ax.toF3, y := ay.toF3, z := az.toF3 }

def flatten {α : Type} (nx ny nz : Nat) (V : V3 α) : List α :=
  (tabulate nx ny nz V.x).data.toList ++ (tabulate nx ny nz V.y).data.toList ++ (tabulate nx ny nz V.z).data.toList

/-- split a flat list of `3·n` values (component-major, then row-major) into a vector field -/
def unflatten {α : Type} [Inhabited α] (nx ny nz : Nat) (l : Array α) : V3 α :=
  let n := nx * ny * nz
  { x := (A3.mk nx ny nz (l.extract 0 n)).toF3
    y := (A3.mk nx ny nz (l.extract n (2 * n))).toF3
    z := (A3.mk nx ny nz (l.extract (2 * n) (3 * n))).toF3 }

def constV {α : Type} (a : α) : V3 α := { x := fun _ _ _ => a, y := fun _ _ _ => a, z := fun _ _ _ => a }

end Fdtdx.Yee
