/-
C09 — tiling operations along the y and z axes (the x versions are in `FdtdxModel/C09.lean`): supercell field with
per-copy factor, plainly tiled materials, supercell configuration (m·n cells on the axis, supercell ghost multipliers,
tiled metric scales of that axis).  Specification-side definitions only (no fdtdx code is modelled here); the time step is
`Yee.forward`.
-/
import FdtdxModel.C09
namespace Fdtdx.C09
open Fdtdx.Yee

section
variable {α : Type} [Mul α]

def tileY (n : Nat) (w : Nat → α) (V : V3 α) : V3 α where
  x := fun i j k => V.x i (j % n) k * w (j / n)
  y := fun i j k => V.y i (j % n) k * w (j / n)
  z := fun i j k => V.z i (j % n) k * w (j / n)

def tileZ (n : Nat) (w : Nat → α) (V : V3 α) : V3 α where
  x := fun i j k => V.x i j (k % n) * w (k / n)
  y := fun i j k => V.y i j (k % n) * w (k / n)
  z := fun i j k => V.z i j (k % n) * w (k / n)

def retileY (n : Nat) (V : V3 α) : V3 α where
  x := fun i j k => V.x i (j % n) k
  y := fun i j k => V.y i (j % n) k
  z := fun i j k => V.z i (j % n) k

def retileZ (n : Nat) (V : V3 α) : V3 α where
  x := fun i j k => V.x i j (k % n)
  y := fun i j k => V.y i j (k % n)
  z := fun i j k => V.z i j (k % n)

def tileCfgY (m : Nat) (P Q : α) (cf : Cfg α) : Cfg α :=
  { cf with ny := m * cf.ny, by_ := { cf.by_ with pp := P, pm := Q },
            sfy := fun j => cf.sfy (j % cf.ny), sby := fun j => cf.sby (j % cf.ny) }

def tileCfgZ (m : Nat) (P Q : α) (cf : Cfg α) : Cfg α :=
  { cf with nz := m * cf.nz, bz := { cf.bz with pp := P, pm := Q },
            sfz := fun k => cf.sfz (k % cf.nz), sbz := fun k => cf.sbz (k % cf.nz) }

def tileMatY (n : Nat) (mt : Mat α) : Mat α :=
  { invEps := retileY n mt.invEps, invMu := retileY n mt.invMu,
    sigE := mt.sigE.map (retileY n), sigH := mt.sigH.map (retileY n) }

def tileMatZ (n : Nat) (mt : Mat α) : Mat α :=
  { invEps := retileZ n mt.invEps, invMu := retileZ n mt.invMu,
    sigE := mt.sigE.map (retileZ n), sigH := mt.sigH.map (retileZ n) }

end
end Fdtdx.C09
