/-
C20 — model of `fdtdx/objects/device/parameters/projection.py`:

  tanhProjection      : `tanh_projection(x, beta, eta)` literally, including the double-`where` guard
                        (`safe_beta = where(is_inf | is_zero, 1, beta)`), the three candidate results and the
                        nested `where(is_zero, clip, where(is_inf, step, tanh_formula))`.
  grad0 / grad1       : `jnp.gradient` of a 2-D array with unit spacing (central differences inside,
                        one-sided differences on the two edge rows / columns; needs >= 2 entries per axis).
  smoothedCell        : the element-wise part of `smoothed_projection` (fill factor polynomial, the
                        `needs_smoothing` mask incl. the `norm_floor` guard of the repaired tree, the two
                        effective projections, the final `where`).
  smoothedProjection  : `smoothed_projection(rho, beta, eta, resolution)` on an `n x m` array.
  resolveAxes         : the glue of `SubpixelSmoothedProjection.__call__`: first axis of size 1 is the
                        vertical one, the voxel sizes of the two remaining axes must agree.

`tanh`, `sqrt`, `isInf`, `isZero` and the number `0.55` are parameters: the driver passes `Float.tanh`,
`Float.sqrt`, `Float.isInf`, `(· == 0)` and the bit pattern of the Python literal, the theorems use
`Real.tanh`, `Real.sqrt` and arbitrary predicates (ℝ has no infinite element; the "β = ∞" theorems
are about the branch `isInf β = true`).  `cast : Nat → α` stands for the small integer literals
(15/16, 5/8, 3/16, 1/2).  Simplified: `x**3`, `x**5` are written as repeated products (XLA's
`integer_pow` uses repeated squaring: same value over a field, a few ulp on binary64);
`jnp.gradient`'s `* 0.5` is `/ 2` (the same binary64 number barring underflow).
-/
import FdtdxModel.Proto
namespace Fdtdx.C20

section generic
variable {α : Type} [Add α] [Sub α] [Mul α] [Div α] [OfNat α 0] [OfNat α 1] [LT α] [DecidableLT α]

/-- `jnp.clip(x, 0, 1)` -/
def clip01 (x : α) : α := if x < 0 then 0 else if 1 < x then 1 else x

/-- `jnp.where(x > eta, 1.0, 0.0)` -/
def step (eta x : α) : α := if eta < x then 1 else 0

/-- `safe_beta` of the double-`where` guard -/
def safeBeta (isInf isZero : α → Bool) (beta : α) : α := if isInf beta || isZero beta then 1 else beta

/-- `divisor` for an (already safe) beta -/
def divisor (tanh : α → α) (b eta : α) : α := tanh (b * eta) + tanh (b * (1 - eta))

/-- `dividend` for an (already safe) beta -/
def dividend (tanh : α → α) (b eta x : α) : α := tanh (b * eta) + tanh (b * (x - eta))

/-- `tanh_projection(x, beta, eta)` -/
def tanhProjection (tanh : α → α) (isInf isZero : α → Bool) (beta eta x : α) : α :=
  let b := safeBeta isInf isZero beta
  let tanhResult := dividend tanh b eta x / divisor tanh b eta
  let infResult := step eta x
  let zeroResult := clip01 x
  if isZero beta then zeroResult else if isInf beta then infResult else tanhResult

/-- `jnp.gradient(rho)[0]` at `(i, j)` for `n ≥ 2` rows -/
def grad0 (two : α) (n : Nat) (rho : Nat → Nat → α) (i j : Nat) : α :=
  if i = 0 then rho 1 j - rho 0 j
  else if i + 1 = n then rho (n - 1) j - rho (n - 2) j
  else (rho (i + 1) j - rho (i - 1) j) / two

/-- `jnp.gradient(rho)[1]` at `(i, j)` for `m ≥ 2` columns -/
def grad1 (two : α) (m : Nat) (rho : Nat → Nat → α) (i j : Nat) : α :=
  if j = 0 then rho i 1 - rho i 0
  else if j + 1 = m then rho i (m - 1) - rho i (m - 2)
  else (rho i (j + 1) - rho i (j - 1)) / two

/-- `rho_filtered_grad_helper` -/
def gradHelper (dx g0 g1 : α) : α := (g0 / dx) * (g0 / dx) + (g1 / dx) * (g1 / dx)

/-- `nonzero_norm = abs(helper) > norm_floor`, `norm_floor = finfo(dtype).tiny * 2**20` (a parameter here:
any number ≥ 0 in the theorems, the binary64 value in the driver) -/
def nonzeroNorm (abs : α → α) (floor h : α) : Bool := decide (floor < abs h)

/-- `rho_filtered_grad_norm_eff` -/
def normEff (abs sqrt : α → α) (floor h : α) : α :=
  if nonzeroNorm abs floor h then sqrt (if nonzeroNorm abs floor h then h else 1) else 1

/-- `needs_smoothing` -/
def needsSmoothing (abs sqrt : α → α) (floor R eta rho h : α) : Bool :=
  nonzeroNorm abs floor h && decide (abs ((eta - rho) / normEff abs sqrt floor h) < R)

/-- fill factor `F` (sign = +1) and `F_minus` (sign = -1) for an already safe `d/R` -/
def fillPlus (cast : Nat → α) (s : α) : α :=
  cast 1 / cast 2 - cast 15 / cast 16 * s + cast 5 / cast 8 * (s * s * s) - cast 3 / cast 16 * (s * s * s * s * s)

def fillMinus (cast : Nat → α) (s : α) : α :=
  cast 1 / cast 2 + cast 15 / cast 16 * s - cast 5 / cast 8 * (s * s * s) + cast 3 / cast 16 * (s * s * s * s * s)

/-- everything of `smoothed_projection` that happens in one cell, given the cell value `rho`, the
two gradient components, `dx = 1/resolution` and `R = 0.55*dx` -/
def smoothedCell (tanh sqrt abs : α → α) (isInf isZero : α → Bool) (cast : Nat → α)
    (floor beta eta dx R rho g0 g1 : α) : α :=
  let proj := tanhProjection tanh isInf isZero beta eta
  let h := gradHelper dx g0 g1
  let ne := normEff abs sqrt floor h
  let d := (eta - rho) / ne
  let needs := needsSmoothing abs sqrt floor R eta rho h
  let dR := d / R
  let s := if needs then dR else 0
  let F := if needs then fillPlus cast s else 1
  let Fm := if needs then fillMinus cast s else 1
  let rhoMinus := rho - R * ne * F
  let rhoPlus := rho + R * ne * Fm
  let smoothed := (1 - F) * proj rhoMinus + F * proj rhoPlus
  if needs then smoothed else proj rho

/-- `smoothed_projection(rho, beta, eta, resolution)` at cell `(i, j)` of an `n × m` array -/
def smoothedProjection (tanh sqrt abs : α → α) (isInf isZero : α → Bool) (cast : Nat → α) (c055 floor : α)
    (beta eta resolution : α) (n m : Nat) (rho : Nat → Nat → α) (i j : Nat) : α :=
  let dx := 1 / resolution
  let R := c055 * dx
  smoothedCell tanh sqrt abs isInf isZero cast floor beta eta dx R (rho i j)
    (grad0 (cast 2) n rho i j) (grad1 (cast 2) m rho i j)

end generic

/-- glue of `SubpixelSmoothedProjection.__call__`: `(vertical, first, second)` axes of a 3-D shape, or an
error when no axis has size 1 (`tuple.index` raises) -/
def resolveAxes (shape : List Nat) : Option (Nat × Nat × Nat) :=
  match shape with
  | [a, b, c] =>
    let v? := if a = 1 then some 0 else if b = 1 then some 1 else if c = 1 then some 2 else none
    v?.map (fun v => (v, (if v ≠ 0 then 0 else 1), (if v ≠ 2 then 2 else 1)))
  | _ => none

/-! ### Driver -/
open Proto

def fabs (x : Float) : Float := Float.abs x
def fIsZero (x : Float) : Bool := x == 0

/-- ops:
  `tanh beta eta x_0 … x_{k-1}`                       → projected values
  `parts beta eta x`                                  → `safe_beta divisor dividend`
  `smooth n m beta eta resolution c055 floor v_0 … v_{nm-1}` → smoothed projection (row major), `error` if n<2 or m<2
  `axes a b c`                                        → `vertical first second` or `error`
-/
def handle : List String → String
  | "tanh" :: beta :: eta :: xs =>
    match floatsOfHex [beta, eta], floatsOfHex xs with
    | some [beta, eta], some xs =>
      showFloats (xs.map (tanhProjection Float.tanh Float.isInf fIsZero beta eta))
    | _, _ => "bad-op"
  | ["parts", beta, eta, x] =>
    match floatsOfHex [beta, eta, x] with
    | some [beta, eta, x] =>
      let b := safeBeta Float.isInf fIsZero beta
      showFloats [b, divisor Float.tanh b eta, dividend Float.tanh b eta x]
    | _ => "bad-op"
  | "smooth" :: n :: m :: beta :: eta :: res :: c :: fl :: vs =>
    match natsOf [n, m], floatsOfHex [beta, eta, res, c, fl], floatsOfHex vs with
    | some [n, m], some [beta, eta, res, c, fl], some vs =>
      if vs.length ≠ n * m then "bad-op" else
      if n < 2 ∨ m < 2 then "error" else
      let arr := vs.toArray
      let rho : Nat → Nat → Float := fun i j => arr.getD (i * m + j) 0.0
      let f := smoothedProjection Float.tanh Float.sqrt fabs Float.isInf fIsZero Float.ofNat c fl beta eta res n m rho
      showFloats ((List.range n).flatMap (fun i => (List.range m).map (fun j => f i j)))
    | _, _, _ => "bad-op"
  | ["axes", a, b, c] =>
    match natsOf [a, b, c] with
    | some [a, b, c] =>
      match resolveAxes [a, b, c] with
      | some (v, f, s) => s!"{v} {f} {s}"
      | none => "error"
    | _ => "bad-op"
  | _ => "bad-op"

end Fdtdx.C20
