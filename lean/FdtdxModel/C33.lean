/-
C33 — symmetry reduction across an ELECTRIC plane (config.symmetry[a] = -1), on top of the shared Yee model.

  fdtdx/fdtd/symmetry.py   reduce_resolved_slices  (volume: keep the upper half, n ↦ n/2, odd counts are rejected by
                                                    validate_symmetric_axis_cells; the min-side boundary object of the
                                                    axis is dropped, the max-side one survives)      → `reduceCfg`, `upperV`
                           make_symmetry_walls     (PEC object, direction "-", one cell thick, at reduced index 0)
                                                                                                     → `reduceAxis.pecLo`
  fdtdx/fdtd/update.py     pad_fields_for_boundaries: on a config.symmetry axis the min-side halo is zero even when the
                           axis still reports wrap padding (surviving far-side periodic boundary)    → `reduceAxis.pm := 0`
                           (the left ghost of `Yee.prev1` is `g (n-1) * pm`; the right ghost keeps `pp`)
  RectilinearGrid.reduce_symmetric: the kept half's edges; `_metric_scale(.., "backward")` then pads w₋₁ := w₀ on the
                           REDUCED grid, i.e. sb'(0) = ref / w(m) = sf(m)                            → `reduceCfg.sb*`

The reduced state / materials / sources are the restriction of the full arrays to the upper half (`upperV`,
`upperMat`).  Ops: those of `YeeIO` (`fwd`, …) plus

  redfwd <axes> r <full request>     `axes` = distinct digits of the electric symmetry axes ("0", "12", "012"): run `nsteps`
                                     forward steps of the REDUCED configuration (single-axis reduction once per axis) on the
                                     restricted state, reply = reduced E, H;  `error` when a cell count along an axis is odd.
-/
import FdtdxModel.YeeIO
namespace Fdtdx.C33
open Fdtdx.Yee

section
variable {α : Type}

/-- restriction of a scalar array to the kept upper half along `axis`: reduced cell `i` = full cell `m + i` -/
def upperF (axis m : Nat) (f : F3 α) : F3 α :=
  match axis with
  | 0 => fun i j k => f (m + i) j k
  | 1 => fun i j k => f i (m + j) k
  | _ => fun i j k => f i j (m + k)

def upperV (axis m : Nat) (V : V3 α) : V3 α :=
  { x := upperF axis m V.x, y := upperF axis m V.y, z := upperF axis m V.z }

def upperMat (axis m : Nat) (M : Mat α) : Mat α :=
  { invEps := upperV axis m M.invEps, invMu := upperV axis m M.invMu,
    sigE := M.sigE.map (upperV axis m), sigH := M.sigH.map (upperV axis m) }

variable [OfNat α 0]

/-- boundary data of the symmetric axis after the reduction: PEC wall on the min face, zero min-side halo, the far
(max) face keeps what the full domain had there -/
def reduceAxis (b : AxisBC α) : AxisBC α :=
  { wrap := b.wrap, pp := b.pp, pm := 0, pecLo := true, pecHi := b.pecHi, pmcLo := false, pmcHi := b.pmcHi }

/-- the reduced configuration for an electric symmetry plane normal to `axis` -/
def reduceCfg (axis : Nat) (cf : Cfg α) : Cfg α :=
  match axis with
  | 0 =>
    { cf with nx := cf.nx / 2, bx := reduceAxis cf.bx,
              sfx := fun i => cf.sfx (cf.nx / 2 + i),
              sbx := fun i => if i = 0 then cf.sfx (cf.nx / 2) else cf.sbx (cf.nx / 2 + i) }
  | 1 =>
    { cf with ny := cf.ny / 2, by_ := reduceAxis cf.by_,
              sfy := fun i => cf.sfy (cf.ny / 2 + i),
              sby := fun i => if i = 0 then cf.sfy (cf.ny / 2) else cf.sby (cf.ny / 2 + i) }
  | _ =>
    { cf with nz := cf.nz / 2, bz := reduceAxis cf.bz,
              sfz := fun i => cf.sfz (cf.nz / 2 + i),
              sbz := fun i => if i = 0 then cf.sfz (cf.nz / 2) else cf.sbz (cf.nz / 2 + i) }

/-- number of cells of the full domain along `axis` -/
def cellsAlong (axis : Nat) (cf : Cfg α) : Nat :=
  match axis with
  | 0 => cf.nx
  | 1 => cf.ny
  | _ => cf.nz

end

/-- the symmetric axes of a request: a non-empty string of distinct digits out of 0,1,2 (`"0"`, `"01"`, `"012"`, …) -/
def parseAxes (s : String) : Option (List Nat) :=
  let l := s.toList.mapM fun ch =>
    if ch == '0' then some 0 else if ch == '1' then some 1 else if ch == '2' then some 2 else none
  match l with
  | some (a :: as) => if (a :: as).eraseDups.length == (a :: as).length then some (a :: as) else none
  | _ => none

open YeeIO in
/-- reduce a request across one electric plane; `none` when the cell count along the axis is odd -/
def reduceReq (a : Nat) (r : Req Float) : Option (Req Float) :=
  let n := cellsAlong a r.cf
  if n % 2 != 0 then none else
  let m := n / 2
  some { cf := reduceCfg a r.cf, m := upperMat a m r.m,
         src := r.src.map (fun p => (upperV a m p.1, upperV a m p.2)),
         nsteps := r.nsteps, E := upperV a m r.E, H := upperV a m r.H }

open Proto YeeIO in
/-- `redfwd axes r …full request…`: several electric planes = the single-axis reduction applied once per axis
(place_objects reduces every `config.symmetry` axis independently and adds one PEC wall per electric plane) -/
def redOp (ax : String) (rest : List String) : String :=
  match parseAxes ax with
  | none => "bad-op"
  | some axes =>
    match (pReq (α := Float)).run rest with
    | none => "bad-op"
    | some (r, _) =>
      match axes.foldlM (fun q a => reduceReq a q) r with
      | none => "error"
      | some rr => reply rr (runFwd rr)

def handle : List String → String
  | "redfwd" :: ax :: "r" :: rest => redOp ax rest
  | toks => YeeIO.handleYee toks

end Fdtdx.C33
