/-
C29 — model of `SimulationObject.check_overlap` (`fdtdx/objects/object.py`) and of the two object loops
that use it: step 11 of `place_objects` and the last loop of `apply_params`
(`fdtdx/fdtd/initialization.py`).

Mirrors (after the `fix:` commit recorded in props/C29.findings.json):
  check_overlap      : for axis in 0..2: if s_end < o_start or o_end < s_start: return False; return True
                       (`_grid_slice_tuple[axis] = (start, end)`, end exclusive as a cell range, but the
                       comparison is on the closed index range, so touching boxes count as overlapping)
  place_objects §11  : obj.apply(arrays)  iff  not any(d.check_overlap(obj) for d in devices)
  apply_params loop  : obj.apply(arrays') iff      any(d.check_overlap(obj) for d in devices)
                       (`devices` = the Device instances of the same object list, in list order)

An object carries NO kind: the decision "wait for apply_params?" looks at boxes and at which list entries are
Devices, nothing else — sources, detectors, the volume, static objects and the devices themselves are all treated
alike (Device.apply, Detector.apply etc. may be no-ops, they are still called).
Simplified: an object is (box, isDevice, state); `apply` is an abstract function of the arrays and
the object that yields the new state (the real `apply` never moves an object; K checks the slices are
unchanged).  Random keys are not modelled (the sources used in K have no random parts).

The `AsFound` section keeps the predicate of the pinned tree (any-axis endpoint test), used for the
machine-checked refutation witnesses in `FdtdxProps/C29.lean`.
-/
import FdtdxModel.Proto
namespace Fdtdx.C29

/-- one axis of `_grid_slice_tuple`: `(start, end)` -/
abbrev Iv := Int × Int

structure Box where
  x : Iv
  y : Iv
  z : Iv
  deriving Repr, DecidableEq

/-- per-axis test of the repaired loop body: NOT (`s_end < o_start or o_end < s_start`) -/
def meetAxis (s o : Iv) : Bool := !(decide (s.2 < o.1) || decide (o.2 < s.1))

/-- `self.check_overlap(other)` -/
def checkOverlap (s o : Box) : Bool := meetAxis s.x o.x && meetAxis s.y o.y && meetAxis s.z o.z

namespace AsFound
/-- per-axis test of the pinned tree: `o_start <= s_start <= o_end or o_start <= s_end <= o_end` -/
def hitAxis (s o : Iv) : Bool :=
  (decide (o.1 ≤ s.1) && decide (s.1 ≤ o.2)) || (decide (o.1 ≤ s.2) && decide (s.2 ≤ o.2))

/-- pinned `check_overlap`: True as soon as one axis hits -/
def checkOverlap (s o : Box) : Bool := hitAxis s.x o.x || hitAxis s.y o.y || hitAxis s.z o.z
end AsFound

/-- a placed object: its box, whether it is a `Device`, and the state its `apply` last produced -/
structure Obj (σ : Type) where
  box : Box
  isDevice : Bool
  st : σ

section loops
variable {σ A : Type}

/-- `any([d.check_overlap(obj) for d in devices])` with an arbitrary overlap predicate -/
def overlapsDeviceWith (ov : Box → Box → Bool) (objs : List (Obj σ)) (o : Obj σ) : Bool :=
  (objs.filter (·.isDevice)).any (fun d => ov d.box o.box)

def overlapsDevice (objs : List (Obj σ)) (o : Obj σ) : Bool := overlapsDeviceWith checkOverlap objs o

/-- step 11 of `place_objects`: apply the objects that do not depend on any device -/
def placeLoopWith (ov : Box → Box → Bool) (apply : A → Obj σ → σ) (arr : A) (objs : List (Obj σ)) : List (Obj σ) :=
  objs.map (fun o => if overlapsDeviceWith ov objs o then o else { o with st := apply arr o })

/-- object loop of `apply_params`: re-apply the objects that overlap a device -/
def paramsLoopWith (ov : Box → Box → Bool) (apply : A → Obj σ → σ) (arr : A) (objs : List (Obj σ)) : List (Obj σ) :=
  objs.map (fun o => if overlapsDeviceWith ov objs o then { o with st := apply arr o } else o)

def placeLoop (apply : A → Obj σ → σ) (arr : A) (objs : List (Obj σ)) : List (Obj σ) :=
  placeLoopWith checkOverlap apply arr objs

def paramsLoop (apply : A → Obj σ → σ) (arr : A) (objs : List (Obj σ)) : List (Obj σ) :=
  paramsLoopWith checkOverlap apply arr objs

end loops

/-! ### Driver -/
open Proto

def boxOf : List Int → Option Box
  | [a, b, c, d, e, f] => some ⟨(a, b), (c, d), (e, f)⟩
  | _ => none

/-- all intervals `(lo, hi)` with `0 ≤ lo < hi ≤ n`, ordered by (lo, hi) -/
def intervals (n : Nat) : List Iv :=
  (List.range n).flatMap (fun lo => (List.range (n - lo)).map (fun d => ((lo : Int), ((lo + d + 1 : Nat) : Int))))

/-- all boxes over `intervals n`, x-major -/
def boxes (n : Nat) : List Box :=
  (intervals n).flatMap (fun x => (intervals n).flatMap (fun y => (intervals n).map (fun z => ⟨x, y, z⟩)))

def bit (b : Bool) : Char := if b then '1' else '0'

/-- split a flat coordinate list into boxes of six -/
def boxesOf : List Int → Option (List Box)
  | [] => some []
  | a :: b :: c :: d :: e :: f :: rest => (boxesOf rest).map (fun l => ⟨(a, b), (c, d), (e, f)⟩ :: l)
  | _ => none

/-- `(d|o) x0 x1 y0 y1 z0 z1` repeated: objects of any kind in list order, `d` marks a Device -/
def takeTagged : List String → Option (List (Obj Char))
  | [] => some []
  | k :: a :: b :: c :: d :: e :: f :: rest =>
    if k ≠ "d" ∧ k ≠ "o" then none else
    match intsOf [a, b, c, d, e, f], takeTagged rest with
    | some [a, b, c, d, e, f], some l => some (⟨⟨(a, b), (c, d), (e, f)⟩, k == "d", '-'⟩ :: l)
    | _, _ => none
  | _ => none

/-- ops:
  `ov  sx0 sx1 sy0 sy1 sz0 sz1  ox0 ox1 oy0 oy1 oz0 oz1` → `<checkOverlap> <AsFound.checkOverlap>` (bits)
  `row n sx0 … sz1`   → one bit per box `o` of `boxes n` (x-major): `checkOverlap s o`
  `decide (d|o x0 x1 y0 y1 z0 z1)×n` → per object of the list (any kind), `P` or `A`: which loop applies it
  `loops nd (6 ints)×nd  no (6 ints)×no` → per non-device object one char: which loop applies it
       `P` = only place_objects (no device overlaps), `A` = only apply_params
-/
def handle : List String → String
  | "decide" :: rest =>
    -- the decision of both loops for EVERY object of the list (volume, devices, sources, detectors, …): one char
    -- per object, `P` = applied by place_objects step 11, `A` = applied by the apply_params loop
    match takeTagged rest with
    | some all =>
      let afterPlace := placeLoop (fun (_ : Unit) _ => 'P') () all
      let afterParams := paramsLoop (fun (_ : Unit) _ => 'A') () afterPlace
      String.ofList (afterParams.map (·.st))
    | none => "bad-op"
  | "ov" :: rest =>
    match intsOf rest with
    | some l =>
      if l.length ≠ 12 then "bad-op" else
      match boxOf (l.take 6), boxOf (l.drop 6) with
      | some s, some o => s!"{bit (checkOverlap s o)} {bit (AsFound.checkOverlap s o)}"
      | _, _ => "bad-op"
    | none => "bad-op"
  | "row" :: n :: rest =>
    match parseNat n, intsOf rest with
    | some n, some l =>
      match boxOf l with
      | some s => String.ofList ((boxes n).map (fun o => bit (checkOverlap s o)))
      | none => "bad-op"
    | _, _ => "bad-op"
  | "loops" :: nd :: rest =>
    match parseNat nd, intsOf rest with
    | some nd, some l =>
      if l.length < 6 * nd + 1 then "bad-op" else
      let dl := l.take (6 * nd)
      match l.drop (6 * nd) with
      | no :: ol =>
        if no < 0 ∨ ol.length ≠ 6 * no.toNat then "bad-op" else
        match boxesOf dl, boxesOf ol with
        | some ds, some os =>
          let devs : List (Obj Char) := ds.map (fun b => ⟨b, true, 'D'⟩)
          let others : List (Obj Char) := os.map (fun b => ⟨b, false, '-'⟩)
          let all := devs ++ others
          -- run both loops with distinguishable `apply`s and read the states of the non-devices
          let afterPlace := placeLoop (fun (_ : Unit) _ => 'P') () all
          let afterParams := paramsLoop (fun (_ : Unit) _ => 'A') () afterPlace
          String.ofList ((afterParams.drop ds.length).map (·.st))
        | _, _ => "bad-op"
      | [] => "bad-op"
    | _, _ => "bad-op"
  | _ => "bad-op"

end Fdtdx.C29
