/-
C08 — cyclic relabelling of the axes (x → y, y → z, z → x) on the shared Yee model (`FdtdxModel/Yee.lean`).

`rot` is the action of the relabelling on everything a time step reads:

  arrays        the cell that was at (i, j, k) sits at (k, i, j) in the relabelled scene:   (rotF f) i j k = f j k i
                (numpy: `np.transpose(a, (2, 0, 1))`)
  vector fields components cycle as well: new x = old z, new y = old x, new z = old y
                (numpy: `np.transpose(A, (0, 3, 1, 2))[[2, 0, 1]]`)
  Cfg           shape, per-axis boundary data (wrap flag, ghost multipliers, PEC/PMC wall flags) and metric scales move
                to the next axis
  Mat           diagonal tensors and conductivities are vector fields
  sources       additive terms jE, jH are vector fields
  raw records   a FieldDetector record without co-location is a slice of E/H, a PoyntingFluxDetector record is a slice
                of `cross E H` (fdtdx.core.physics.metrics.compute_poynting_flux) — `crossV` below

The driver ops are those of `YeeIO` plus `rotfwd` / `rotbwd`: the request is given in the ORIGINAL orientation, the model
rotates it with `rot` and answers with the result of the rotated scene (in the rotated layout). The correspondence check
compares that with the real code run on the scene that was rebuilt in the rotated orientation through the public API.
-/
import FdtdxModel.YeeIO
import FdtdxModel.Cpml
namespace Fdtdx.C08
open Fdtdx.Yee

/-- relabelled array: new (i, j, k) is the old cell (j, k, i) -/
def rotF {α : Type} (f : F3 α) : F3 α := fun i j k => f j k i

/-- relabelled vector field -/
def rotV {α : Type} (V : V3 α) : V3 α where
  x := rotF V.z
  y := rotF V.x
  z := rotF V.y

/-- relabelled configuration: everything that belongs to axis a moves to axis a+1 -/
def rotC {α : Type} (cf : Cfg α) : Cfg α where
  nx := cf.nz
  ny := cf.nx
  nz := cf.ny
  bx := cf.bz
  by_ := cf.bx
  bz := cf.by_
  sfx := cf.sfz
  sfy := cf.sfx
  sfz := cf.sfy
  sbx := cf.sbz
  sby := cf.sbx
  sbz := cf.sby
  c := cf.c
  eta0 := cf.eta0

def rotM {α : Type} (m : Mat α) : Mat α where
  invEps := rotV m.invEps
  invMu := rotV m.invMu
  sigE := m.sigE.map rotV
  sigH := m.sigH.map rotV

section
variable {α : Type} [Sub α] [Mul α]

/-- `compute_poynting_flux(E, H)` for real fields: the raw record of a PoyntingFluxDetector without co-location -/
def crossV (E H : V3 α) : V3 α where
  x := fun i j k => E.y i j k * H.z i j k - E.z i j k * H.y i j k
  y := fun i j k => E.z i j k * H.x i j k - E.x i j k * H.z i j k
  z := fun i j k => E.x i j k * H.y i j k - E.y i j k * H.x i j k

end

open Fdtdx.Proto Fdtdx.YeeIO
section
variable {α : Type} [Codec α] [Inhabited α] [Add α] [Sub α] [Mul α] [Div α] [OfNat α 0] [OfNat α 1] [OfNat α 2]

def rotReq (r : Req α) : Req α :=
  { cf := rotC r.cf, m := rotM r.m, src := r.src.map (fun p => (rotV p.1, rotV p.2)), nsteps := r.nsteps,
    E := rotV r.E, H := rotV r.H }

def handleRot (op : String) (rest : List String) : String :=
  match (pReq (α := α)).run rest with
  | none => "bad-op"
  | some (r, _) =>
    let r' := rotReq r
    -- cut the closure chains of the rotated inputs once
    let mat (V : V3 α) := materialize r'.cf.nx r'.cf.ny r'.cf.nz V
    let r' : Req α := { r' with
      m := ⟨mat r'.m.invEps, mat r'.m.invMu, r'.m.sigE.map mat, r'.m.sigH.map mat⟩,
      src := r'.src.map (fun p => (mat p.1, mat p.2)), E := mat r'.E, H := mat r'.H }
    if op == "rotfwd" then reply r' (runFwd r')
    else if op == "rotbwd" then reply r' (runBwd r')
    else if op == "rotpoynting" then reply r' (crossV r'.E r'.H, zeroV)
    else "bad-op"

end

/-! ### CPML layers (`FdtdxModel/Cpml.lean`): index boxes, static PML data, psi arrays -/
open Fdtdx.Cpml in
/-- relabelled index box (`grid_slice_tuple`): what was the extent along axis a is the extent along axis a+1 -/
def rotBox (b : Cpml.Box) : Cpml.Box := ⟨b.lo2, b.hi2, b.lo0, b.hi0, b.lo1, b.hi1⟩

/-- relabelled PML: the axis moves on; direction, kappa flag and the six coefficient arrays (indexed by the offset along
the PML's own axis) are unchanged -/
def rotP {α : Type} (p : Cpml.Pml α) : Cpml.Pml α := { p with axis := (p.axis + 1) % 3, box := rotBox p.box }

/-- relabelled PML with its auxiliary fields -/
def rotSt {α : Type} (s : Cpml.PmlSt α) : Cpml.PmlSt α := ⟨rotP s.p, rotF s.e1, rotF s.e2, rotF s.h1, rotF s.h2⟩

/-- `rotpmlfwd sim <pmls> <yee request>`: the request (orientation r) is relabelled in Lean — scene, materials, sources,
fields and every PML — and one `forwardP` step of the relabelled scene is returned in the relabelled layout:
E H, then (e1 e2 h1 h2) of every PML in request order, each over its relabelled box -/
def opRotPmlFwd : YeeIO.P String := do
  let sim ← YeeIO.pBool
  let pmls ← Cpml.pPmls
  let r ← YeeIO.pReq (α := Float)
  let r' := rotReq r
  let mat (V : V3 Float) := materialize r'.cf.nx r'.cf.ny r'.cf.nz V
  let (jE, jH) := (r'.src.map (fun p => (mat p.1, mat p.2))).getD (YeeIO.zeroV, YeeIO.zeroV)
  let m' : Mat Float := ⟨mat r'.m.invEps, mat r'.m.invMu, r'.m.sigE.map mat, r'.m.sigH.map mat⟩
  let pm' := pmls.map fun st =>
    let s := rotSt st
    let tb (f : F3 Float) : F3 Float := Cpml.boxF3 s.p.box (Cpml.tabBox s.p.box f)
    ({ s with e1 := tb s.e1, e2 := tb s.e2, h1 := tb s.h1, h2 := tb s.h2 } : Cpml.PmlSt Float)
  let (E', H', pm) := Cpml.forwardP r'.cf m' jE jH sim pm' (mat r'.E) (mat r'.H)
  pure (Proto.joinSp (Cpml.emitV r' E' ++ Cpml.emitV r' H'
    ++ Cpml.emitPsi (fun st => [st.e1, st.e2, st.h1, st.h2]) pm))

/-- `fdtdx.core.axis.get_oriented_transverse_axes(axis)` followed by the axis itself: the right-handed
(horizontal, vertical, propagation) triple used by plane sources, dipoles and `tilted_polarization_vectors` -/
def hvp (axis : Nat) : Nat × Nat × Nat := ((axis + 1) % 3, (axis + 2) % 3, axis)

/-- `fdtdx.core.axis.get_transverse_axes(axis)`: the two other axes in ascending order (NOT equivariant) -/
def ascendingAxes (axis : Nat) : Nat × Nat :=
  match axis with
  | 0 => (1, 2)
  | 1 => (0, 2)
  | _ => (0, 1)

/-- ops: `fwd | bwd | curlE | curlH` (YeeIO) and `rotfwd | rotbwd | rotpoynting`, then kind `r | c`, then the request;
`hvp a`, `ascending a` for a = 0, 1, 2 -/
def handle : List String → String
  | "rotpmlfwd" :: rest => Cpml.runOp opRotPmlFwd rest
  | ["hvp", a] => match Proto.parseNat a with
    | some n => if n > 2 then "bad-op" else Proto.showNats [(hvp n).1, (hvp n).2.1, (hvp n).2.2]
    | none => "bad-op"
  | ["ascending", a] => match Proto.parseNat a with
    | some n => if n > 2 then "bad-op" else Proto.showNats [(ascendingAxes n).1, (ascendingAxes n).2]
    | none => "bad-op"
  | "rotfwd" :: "r" :: rest => handleRot (α := Float) "rotfwd" rest
  | "rotbwd" :: "r" :: rest => handleRot (α := Float) "rotbwd" rest
  | "rotpoynting" :: "r" :: rest => handleRot (α := Float) "rotpoynting" rest
  | "rotfwd" :: "c" :: rest => handleRot (α := YeeIO.Cx) "rotfwd" rest
  | "rotbwd" :: "c" :: rest => handleRot (α := YeeIO.Cx) "rotbwd" rest
  | toks => YeeIO.handleYee toks

end Fdtdx.C08
