/-
C09 — tiling operations along y and z for the any-tier Yee step (`FdtdxModel/YeeAniso.lean`); the x versions are in
`FdtdxModel/C09Aniso.lean`, the field / configuration tilings in `FdtdxModel/C09Axes.lean`.  Specification-side
definitions only; theorems in `FdtdxProps/C09AnisoAxes.lean`.
-/
import FdtdxModel.C09Aniso
import FdtdxModel.C09Axes
namespace Fdtdx.C09
open Fdtdx.Yee Fdtdx.YeeAniso

def tileTensY {α : Type} (n : Nat) : Tens α → Tens α
  | .scalar a => .scalar a
  | .iso f => .iso (fun i j k => f i (j % n) k)
  | .diag v => .diag ⟨fun i j k => v.x i (j % n) k, fun i j k => v.y i (j % n) k, fun i j k => v.z i (j % n) k⟩
  | .full t => .full (fun i j k => t i (j % n) k)

def tileTensZ {α : Type} (n : Nat) : Tens α → Tens α
  | .scalar a => .scalar a
  | .iso f => .iso (fun i j k => f i j (k % n))
  | .diag v => .diag ⟨fun i j k => v.x i j (k % n), fun i j k => v.y i j (k % n), fun i j k => v.z i j (k % n)⟩
  | .full t => .full (fun i j k => t i j (k % n))

def tileMatAY {α : Type} (n : Nat) (m : MatA α) : MatA α where
  invEps := tileTensY n m.invEps
  invMu := tileTensY n m.invMu
  sigE := m.sigE.map (tileTensY n)
  sigH := m.sigH.map (tileTensY n)

def tileMatAZ {α : Type} (n : Nat) (m : MatA α) : MatA α where
  invEps := tileTensZ n m.invEps
  invMu := tileTensZ n m.invMu
  sigE := m.sigE.map (tileTensZ n)
  sigH := m.sigH.map (tileTensZ n)

/-- tiled cell widths of the y / z axis -/
def tileAWY {α : Type} (n : Nat) (w : AW α) : AW α := ⟨w.wx, fun j => w.wy (j % n), w.wz⟩
def tileAWZ {α : Type} (n : Nat) (w : AW α) : AW α := ⟨w.wx, w.wy, fun k => w.wz (k % n)⟩

end Fdtdx.C09
