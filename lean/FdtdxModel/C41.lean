/-
C41 — model of
  `fdtdx/core/wavelength.py`          `WaveCharacter._check_input`, `get_period`, `get_wavelength`, `get_frequency`
  `fdtdx/core/window.py`              `linear_rampup` (= `jnp.clip(t/d, 0, 1)`), `gaussian_envelope`
  `fdtdx/objects/sources/profile.py`  `SingleFrequencyProfile.get_amplitude`, `GaussianPulseProfile.get_amplitude`
                                      (+ its `__post_init__` check), `CustomTimeSignalProfile.get_amplitude` and its
                                      `__post_init__` validation

Scalars are generic; the transcendental functions are explicit arguments (`cosf`, `expf`: `real(exp(-iθ)) = cos θ`),
as are `floor : α → Int` and the int→float conversion `cast`.  The driver instantiates them with `Float.cos`,
`Float.exp`, `Float.floor`; the theorems assume only `|cosf x| ≤ 1`, `0 < expf x`, `expf x ≤ 1` for `x ≤ 0`,
`expf 0 = 1` and are instantiated with `Real.cos` / `Real.exp`.  The order of the floating-point operations follows
the Python expressions (`2 * jnp.pi * time / period + phase_shift + self.phase_shift` is `((2π·t)/period + a) + b`).
Not modelled: plotting helpers, `TukeyWindow`, the jit/array glue (K runs the real classes on arrays of times).
-/
import FdtdxModel.Proto
namespace Fdtdx.C41

section generic
variable {α : Type}

/-- the three optional fields of `WaveCharacter` -/
structure Wave (α : Type) where
  period : Option α
  wavelength : Option α
  frequency : Option α
  deriving Repr

/-- `_check_input`: exactly one of the three is given -/
def Wave.valid (w : Wave α) : Bool :=
  (w.period.isSome.toNat + w.frequency.isSome.toNat + w.wavelength.isSome.toNat) == 1

variable [Add α] [Sub α] [Mul α] [Div α] [Neg α] [OfNat α 0] [OfNat α 1]

/-- `get_period` (`none` = "This should never happen") -/
def getPeriod (c : α) (w : Wave α) : Option α :=
  match w.period with
  | some p => some p
  | none => match w.wavelength with
    | some l => some (l / c)
    | none => match w.frequency with
      | some f => some (1 / f)
      | none => none

/-- `get_wavelength` -/
def getWavelength (c : α) (w : Wave α) : Option α :=
  match w.wavelength with
  | some l => some l
  | none => match w.period with
    | some p => some (p * c)
    | none => match w.frequency with
      | some f => some (c / f)
      | none => none

/-- `get_frequency` -/
def getFrequency (c : α) (w : Wave α) : Option α :=
  match w.frequency with
  | some f => some f
  | none => match w.period with
    | some p => some (1 / p)
    | none => match w.wavelength with
      | some l => some (c / l)
      | none => none

variable [LT α] [DecidableRel (α := α) (· < ·)]

/-- `jnp.clip(x, lo, hi) = minimum(maximum(x, lo), hi)` -/
def clip (x lo hi : α) : α :=
  let m := if x < lo then lo else x
  if hi < m then hi else m

/-- `linear_rampup(time, ramp_duration)` -/
def rampup (t d : α) : α := clip (t / d) 0 1

/-- `SingleFrequencyProfile.get_amplitude(time, period, phase_shift)`;
`nStartup` = `num_startup_periods`, `selfPhase` = the profile's own `phase_shift` -/
def cwAmplitude (cosf : α → α) (twoPi nStartup selfPhase period phase t : α) : α :=
  let timePhase := twoPi * t / period + phase + selfPhase
  rampup t (nStartup * period) * cosf timePhase

/-- `gaussian_envelope(time, center, sigma) = exp(-(t - center)^2 / (2 sigma^2))` -/
def gaussEnvelope (expf : α → α) (two : α) (t center sigma : α) : α :=
  expf (-((t - center) * (t - center)) / (two * (sigma * sigma)))

/-- `GaussianPulseProfile.get_amplitude`; `sw`, `fc` = `get_frequency()` of spectral width and centre wave -/
def gaussAmplitude (cosf expf : α → α) (two six twoPi sw fc centerPhase phase t : α) : α :=
  let sigma := 1 / (twoPi * sw)
  let t0 := six * sigma
  gaussEnvelope expf two t t0 sigma * cosf (twoPi * fc * t + phase + centerPhase)

/-- `CustomTimeSignalProfile.__post_init__` (1-d signal of `n` samples): true = accepted -/
def customValid (n : Nat) (dt : α) (interp : Nat) : Bool :=
  decide (2 ≤ n) && decide (0 < dt) && decide (interp ≤ 1)

/-- `CustomTimeSignalProfile.get_amplitude`; `interp` 0 = linear, 1 = nearest; `half` = 0.5 -/
def customAmplitude (floor : α → Int) (cast : Int → α) (half : α) (signal : List α) (start dt outside : α)
    (interp : Nat) (t : α) : α :=
  let idx := (t - start) / dt
  let k := floor idx
  let frac := idx - cast k
  let n : Int := signal.length
  let valid := decide (0 ≤ k) && decide (k < n)
  let i0 := if k < 0 then 0 else if n - 1 < k then n - 1 else k
  let i1 := if n - 1 < i0 + 1 then n - 1 else i0 + 1      -- i0 + 1 ≥ 0 always
  let y0 := signal.getD i0.toNat 0
  let y1 := signal.getD i1.toNat 0
  let y := if interp = 1 then (if frac < half then y0 else y1) else (1 - frac) * y0 + frac * y1
  if valid then y else outside

end generic

/-! ### Driver -/
open Proto

def optF (s : String) : Option (Option Float) :=
  if s = "-" then some none else (floatOfHex s).map some

def showOptF : Option Float → String
  | some x => hexOfFloat x
  | none => "none"

def floorInt (x : Float) : Int :=
  let f := x.floor
  if f < 0 then -((-f).toUInt64.toNat : Int) else (f.toUInt64.toNat : Int)

/-- ops:
  `wave <c> <period|-> <wavelength|-> <frequency|->`                       → `error` | `<P> <L> <F>`
  `cw <twoPi> <nStartup> <selfPhase> <period> <phase> t…`                  → amplitudes
  `gauss <twoPi> <sw> <fc> <centerPhase> <phase> t…`                       → amplitudes
  `genv <center> <sigma> t…`                                               → envelope values
  `custom <start> <dt> <outside> <interp> <n> s_0…s_{n-1} t…`              → `error` | amplitudes
-/
def handle : List String → String
  | ["wave", c, p, l, f] =>
    match floatOfHex c, optF p, optF l, optF f with
    | some c, some p, some l, some f =>
      let w : Wave Float := ⟨p, l, f⟩
      if !w.valid then "error" else
      joinSp [showOptF (getPeriod c w), showOptF (getWavelength c w), showOptF (getFrequency c w)]
    | _, _, _, _ => "bad-op"
  | "cw" :: a :: b :: c :: d :: e :: ts =>
    match floatsOfHex [a, b, c, d, e], floatsOfHex ts with
    | some [twoPi, ns, sp, period, phase], some ts =>
      showFloats (ts.map (cwAmplitude Float.cos twoPi ns sp period phase))
    | _, _ => "bad-op"
  | "gauss" :: a :: b :: c :: d :: e :: ts =>
    match floatsOfHex [a, b, c, d, e], floatsOfHex ts with
    | some [twoPi, sw, fc, cp, phase], some ts =>
      showFloats (ts.map (gaussAmplitude Float.cos Float.exp 2.0 6.0 twoPi sw fc cp phase))
    | _, _ => "bad-op"
  | "genv" :: a :: b :: ts =>
    match floatsOfHex [a, b], floatsOfHex ts with
    | some [center, sigma], some ts => showFloats (ts.map fun t => gaussEnvelope Float.exp 2.0 t center sigma)
    | _, _ => "bad-op"
  | "custom" :: a :: b :: c :: interp :: n :: rest =>
    match floatsOfHex [a, b, c], natsOf [interp, n] with
    | some [start, dt, outside], some [interp, n] =>
      match takeN n rest with
      | some (sv, tv) =>
        match floatsOfHex sv, floatsOfHex tv with
        | some s, some ts =>
          if !customValid n dt interp then "error" else
          showFloats (ts.map (customAmplitude floorInt Float.ofInt 0.5 s start dt outside interp))
        | _, _ => "bad-op"
      | none => "bad-op"
    | _, _ => "bad-op"
  | _ => "bad-op"

end Fdtdx.C41
