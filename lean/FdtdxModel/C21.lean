/-
C21 — model of `fdtdx/objects/device/parameters/symmetries.py` (eight transforms).

Every transform computes `(v + other) / 2` where `other[i] = v[σ i]` for an index map `σ` of the 3-D
array (the 2-D transforms squeeze the FIRST axis of size 1 — `v.shape.index(1)` —, act on the two
remaining axes in their order, and expand again; in 3-D index terms that is a map of two of the three
axes).  The index maps that occur:

  flip a          `v_2d[::-1, :]`, `v_2d[:, ::-1]`, `jnp.flip(v, axis)`            i_a ↦ n_a − 1 − i_a
  flip a b        `v_2d[::-1, ::-1]`                                               two axes reversed
  flip 0 1 2      `v[::-1, ::-1, ::-1]`
  swap a b        `v_2d.T`, `jnp.transpose(v, axes)`                               i_a ↔ i_b
  anti a b        `v_2d[::-1, ::-1].T`, `transpose(flip(flip(v, a), b), axes)`     (i_a, i_b) ↦ (n−1−i_b, n−1−i_a)

`resolve` mirrors the option handling of the eight `__call__`s: which axes a transform touches for a
given shape, `ValueError` for an unknown `mirror_axis` / `diagonal_plane`, `ValueError` of
`tuple.index` when a 2-D transform gets a shape without a singleton axis, and the shape error of
`v + other` when a transposition is asked for a non-square pair of axes.
Simplified: for a transposition of axes of sizes (1, n) JAX would broadcast `(1,n)+(n,1)` to `(n,n)` instead
of raising; the model reports an error there and the harness does not generate such shapes (they are not
"square where required").
-/
import FdtdxModel.Proto
namespace Fdtdx.C21

abbrev Idx := Nat × Nat × Nat
abbrev Shape := Nat × Nat × Nat

/-- the index maps of the module -/
inductive Op
  | flip0 | flip1 | flip2 | flip01 | flip02 | flip12 | flip012
  | swap01 | swap02 | swap12 | anti01 | anti02 | anti12
  deriving Repr, DecidableEq

/-- `other[i] = v[sigma s op i]` for an array of shape `s` -/
def sigma (s : Shape) (op : Op) (i : Idx) : Idx :=
  let (n0, n1, n2) := s
  let (a, b, c) := i
  match op with
  | .flip0 => (n0 - 1 - a, b, c)
  | .flip1 => (a, n1 - 1 - b, c)
  | .flip2 => (a, b, n2 - 1 - c)
  | .flip01 => (n0 - 1 - a, n1 - 1 - b, c)
  | .flip02 => (n0 - 1 - a, b, n2 - 1 - c)
  | .flip12 => (a, n1 - 1 - b, n2 - 1 - c)
  | .flip012 => (n0 - 1 - a, n1 - 1 - b, n2 - 1 - c)
  | .swap01 => (b, a, c)
  | .swap02 => (c, b, a)
  | .swap12 => (a, c, b)
  | .anti01 => (n0 - 1 - b, n1 - 1 - a, c)
  | .anti02 => (n0 - 1 - c, b, n2 - 1 - a)
  | .anti12 => (a, n1 - 1 - c, n2 - 1 - b)

/-- shapes on which the addition `v + other` is defined without broadcasting -/
def valid (s : Shape) : Op → Bool
  | .swap01 | .anti01 => s.1 == s.2.1
  | .swap02 | .anti02 => s.1 == s.2.2
  | .swap12 | .anti12 => s.2.1 == s.2.2
  | _ => true

/-- `(v + other) / 2` -/
def apply {α : Type} [Add α] [Div α] [OfNat α 2] (s : Shape) (op : Op) (v : Idx → α) : Idx → α :=
  fun i => (v i + v (sigma s op i)) / 2

/-- `v.shape.index(1)` -/
def verticalAxis (s : Shape) : Option Nat :=
  if s.1 = 1 then some 0 else if s.2.1 = 1 then some 1 else if s.2.2 = 1 then some 2 else none

/-- option handling of the eight transforms: `name`, the string option (`mirror_axis` /
`diagonal_plane`, "-" when the transform has none) and the boolean option (`min_min_to_max_max`):
which index map the transform applies to an array of shape `s`, before any shape check -/
def pick (name opt : String) (mm : Bool) (s : Shape) : Except String Op :=
  match name with
  | "horizontal2d" => match verticalAxis s with
      | some 0 => .ok Op.flip1 | some _ => .ok Op.flip0 | none => .error "no-singleton-axis"
  | "vertical2d" => match verticalAxis s with
      | some 2 => .ok Op.flip1 | some _ => .ok Op.flip2 | none => .error "no-singleton-axis"
  | "point2d" => match verticalAxis s with
      | some 0 => .ok Op.flip12 | some 1 => .ok Op.flip02 | some _ => .ok Op.flip01
      | none => .error "no-singleton-axis"
  | "diagonal2d" => match verticalAxis s with
      | some 0 => .ok (if mm then Op.swap12 else Op.anti12)
      | some 1 => .ok (if mm then Op.swap02 else Op.anti02)
      | some _ => .ok (if mm then Op.swap01 else Op.anti01)
      | none => .error "no-singleton-axis"
  | "horizontal3d" =>
      if opt = "x" then .ok Op.flip0 else if opt = "y" then .ok Op.flip1 else .error "mirror-axis"
  | "vertical3d" => .ok Op.flip2
  | "point3d" => .ok Op.flip012
  | "diagonal3d" =>
      if opt = "xy" then .ok (if mm then Op.swap01 else Op.anti01)
      else if opt = "xz" then .ok (if mm then Op.swap02 else Op.anti02)
      else if opt = "yz" then .ok (if mm then Op.swap12 else Op.anti12)
      else .error "diagonal-plane"
  | _ => .error "bad-op"

/-- … and the shape error of `v + other` for a transposition of a non-square pair -/
def resolve (name opt : String) (mm : Bool) (s : Shape) : Except String Op :=
  match pick name opt mm s with
  | .ok op => if valid s op then .ok op else .error "shape-mismatch"
  | .error e => .error e

/-! ### Driver -/
open Proto

/-- op: `sym <name> <opt> <mm 0|1> n0 n1 n2 v_0 …` (row major) → transformed values or `error` -/
def handle : List String → String
  | "sym" :: name :: opt :: mm :: n0 :: n1 :: n2 :: vs =>
    match natsOf [mm, n0, n1, n2], floatsOfHex vs with
    | some [mm, n0, n1, n2], some vs =>
      if vs.length ≠ n0 * n1 * n2 ∨ mm > 1 then "bad-op" else
      let s : Shape := (n0, n1, n2)
      match resolve name opt (mm == 1) s with
      | .error "bad-op" => "bad-op"
      | .error _ => "error"
      | .ok op =>
        let arr := vs.toArray
        let v : Idx → Float := fun (a, b, c) => arr.getD ((a * n1 + b) * n2 + c) 0.0
        let out := apply s op v
        showFloats ((List.range n0).flatMap fun a => (List.range n1).flatMap fun b =>
          (List.range n2).map fun c => out (a, b, c))
    | _, _ => "bad-op"
  | _ => "bad-op"

end Fdtdx.C21
