/-
C38 — model of how the three grid descriptions of fdtdx become the solver grid, and of the metric factors of
the Yee curl (`src/fdtdx/core/grid.py`, `src/fdtdx/fdtd/initialization.py`, `src/fdtdx/core/physics/curl.py`).

Mirrors:
  UniformGrid.resolve(shape)            origin = center − n·h/2 ; RectilinearGrid.uniform(shape, h, origin):
                                        spacing ≤ 0 / a non-positive cell count rejected; edges = origin + h·arange(n+1)
  RectilinearGrid.uniform(shape, h, center=…)   lower = center − n·h/2 (same expression), same edges
  QuasiUniformGrid.resolve(shape)       odd cell count rejected; lower = center − n·s/2 ; edges = lower + s·arange(n+1);
                                        (a 0-cell axis then fails the RectilinearGrid constructor)
  _resolve_grid_from_volume             cell count of an axis given as a length: `round(length / spacing)` (Python round,
                                        half to even); an explicit RectilinearGrid is kept as is and must match the
                                        volume shape (place_objects raises otherwise)
  _metric_scale                         1.0 when the grid is flagged uniform, else ref / w_i (forward stencil) or
                                        ref / (½(w_i + w_{i−1})) with w_{−1} := w_0 (backward), ref = c·dt / courant_number
  _backward_edge_average                ½(cur + prev) when uniform, else (cur·½w_{i−1} + prev·½w_i)/(½w_i + ½w_{i−1})
  curl term                             (next − cur) · scale

The geometry helpers, uniformity rule and `cfl_time_step` are those of `FdtdxModel/C37.lean`.
Scalars are generic; `cast : Nat → α` is the int→float conversion of `arange` / `shape[a] * spacing`.
-/
import FdtdxModel.Proto
import FdtdxModel.C37
namespace Fdtdx.C38
open Fdtdx.C37

section generic
variable {α : Type} [Add α] [Sub α] [Mul α] [Div α] [Neg α] [LT α] [DecidableLT α]
variable [OfNat α 0] [OfNat α 1] [OfNat α 2] [OfNat α 3]

/-- `lower + h * arange(n + 1)` with `lower = center − n·h/2` -/
def uniformEdges (cast : Nat → α) (center h : α) (n : Nat) : List α :=
  (List.range (n + 1)).map fun i => (center - cast n * h / 2) + h * cast i

/-- one axis of `UniformGrid(spacing=h, center=c).resolve(shape)` = `RectilinearGrid.uniform(shape, h, center=c)` -/
def resolveUniformAxis (cast : Nat → α) (center h : α) (n : Int) : Except String (List α) :=
  if !(0 < h) then .error "err-spacing"
  else if n ≤ 0 then .error "err-shape"
  else .ok (uniformEdges cast center h n.toNat)

/-- one axis of `QuasiUniformGrid(...).resolve(shape)` with spacing `s` on this axis -/
def resolveQuasiAxis (cast : Nat → α) (center s : α) (n : Int) : Except String (List α) :=
  if !(0 < s) then .error "err-spacing"
  else if n % 2 ≠ 0 then .error "err-odd"
  else if n ≤ 0 then .error "invalid"          -- fewer than two edges: RectilinearGrid constructor
  else .ok (uniformEdges cast center s n.toNat)

/-- an explicit `RectilinearGrid` is used as given; its shape must be the volume's -/
def resolveExplicitAxis (e : List α) (n : Int) : Except String (List α) :=
  if !validEdges e then .error "invalid"
  else if (e.length : Int) - 1 ≠ n then .error "err-mismatch"
  else .ok e

/-- `round(length / spacing)` of `_resolve_grid_from_volume` — the policy's `center` does NOT enter the cell count -/
def cellsFromLength (rnd : α → Int) (len h : α) : Int := rnd (len / h)

/-- `_resolve_grid_from_volume` for one axis of a volume declared by its physical length, uniform policy with `center` -/
def resolveUniformFromLength (cast : Nat → α) (rnd : α → Int) (center h len : α) : Except String (List α) :=
  resolveUniformAxis cast center h (cellsFromLength rnd len h)

/-- same for the quasi-uniform policy (spacing `s` on this axis) -/
def resolveQuasiFromLength (cast : Nat → α) (rnd : α → Int) (center s len : α) : Except String (List α) :=
  resolveQuasiAxis cast center s (cellsFromLength rnd len s)

/-! ### metric factors of the curl -/

/-- `c0 * config.time_step_duration / config.courant_number` -/
def referenceSpacing (c dt cn : α) : α := c * dt / cn

/-- `config.courant_number = courant_factor / sqrt(3)` -/
def courantNumber (sqrt : α → α) (cf : α) : α := cf / sqrt 3

/-- width behind cell `i` as `_metric_scale` pads it: `concatenate([w[:1], w[:-1]])` -/
def prevWidth (e : List α) (i : Nat) : α := width e (i - 1)

def metricScale (nonuniform : Bool) (ref : α) (e : List α) (backward : Bool) (i : Nat) : α :=
  if !nonuniform then 1
  else if backward then ref / (half * (width e i + prevWidth e i))
  else ref / width e i

/-- `(F[next] − F[cur]) * scale` -/
def curlTerm (scale next cur : α) : α := (next - cur) * scale

/-- `_backward_edge_average` -/
def backwardEdgeAverage (nonuniform : Bool) (e : List α) (i : Nat) (cur prev : α) : α :=
  if !nonuniform then half * (cur + prev)
  else (cur * (half * prevWidth e i) + prev * (half * width e i)) / (half * width e i + half * prevWidth e i)

end generic

/-! ### Driver -/
open Proto

/-- Python `round(x)` on a binary64 (half to even) -/
def roundHalfEven (x : Float) : Int :=
  let f := x.floor
  let d := x - f
  let fi : Int := f.toInt64.toInt
  if d < 0.5 then fi else if 0.5 < d then fi + 1 else if fi % 2 = 0 then fi else fi + 1

def showAxis : Except String (List Float) → String
  | .ok e => showFloats e
  | .error m => m

/-- ops:
  `resolve <uniform|quasi> center h n`          → edges | err-…
  `explicit n e…`                               → edges | invalid | err-mismatch
  `cells length h`                              → `round(length/h)`
  `resolvelen <uniform|quasi> center h length`  → edges of the axis of a volume declared by its length | err-…
  `mscale nonuni<0|1> backward<0|1> cf c dt e…` → metric scale per cell (dt given), floats
  `eavg nonuni<0|1> cur prev i e…`              → float
  `grid …`                                      → the `grid` op of C37 (uniform flag, spacing, min widths, dt)
-/
def handle : List String → String
  | ["resolve", kind, center, h, n] =>
    match floatsOfHex [center, h], parseInt n with
    | some [c, h], some n =>
      if kind = "uniform" then showAxis (resolveUniformAxis Float.ofNat c h n)
      else if kind = "quasi" then showAxis (resolveQuasiAxis Float.ofNat c h n)
      else "bad-op"
    | _, _ => "bad-op"
  | "explicit" :: n :: es =>
    match parseInt n, floatsOfHex es with
    | some n, some e => showAxis (resolveExplicitAxis e n)
    | _, _ => "bad-op"
  | ["resolvelen", kind, center, h, len] =>
    match floatsOfHex [center, h, len] with
    | some [c, h, len] =>
      if kind = "uniform" then showAxis (resolveUniformFromLength Float.ofNat roundHalfEven c h len)
      else if kind = "quasi" then showAxis (resolveQuasiFromLength Float.ofNat roundHalfEven c h len)
      else "bad-op"
    | _ => "bad-op"
  | ["cells", len, h] =>
    match floatsOfHex [len, h] with
    | some [len, h] => toString (cellsFromLength roundHalfEven len h)
    | _ => "bad-op"
  | "mscale" :: nu :: bw :: cf :: c :: dt :: es =>
    match C37.symFlag nu, C37.symFlag bw, floatsOfHex [cf, c, dt], floatsOfHex es with
    | some nu, some bw, some [cf, c, dt], some e =>
      let ref := referenceSpacing c dt (courantNumber Float.sqrt cf)
      showFloats ((List.range (e.length - 1)).map fun i => metricScale nu ref e bw i)
    | _, _, _, _ => "bad-op"
  | "eavg" :: nu :: cur :: prev :: i :: es =>
    match C37.symFlag nu, floatsOfHex [cur, prev], parseNat i, floatsOfHex es with
    | some nu, some [cur, prev], some i, some e =>
      if i + 1 < e.length then hexOfFloat (backwardEdgeAverage nu e i cur prev) else "bad-op"
    | _, _, _, _ => "bad-op"
  | "grid" :: rest => C37.handle ("grid" :: rest)
  | _ => "bad-op"

end Fdtdx.C38
