/-
C08 — cyclic relabelling of the axes for the any-tier Yee step (`FdtdxModel/YeeAniso.lean`): action of x → y → z → x on
3×3 tensors (R·T·Rᵀ = a permutation of the nine components), on the four material tiers (`Tens`), on `MatA` and on the
cell widths used by the spacing-weighted averages.  Definitions only (no driver ops); theorems in
`FdtdxProps/C08Aniso.lean`.

  numpy: a (9, Nx, Ny, Nz) tensor array T becomes  T.reshape(3,3,…)[[2,0,1]][:, [2,0,1]] transposed by (2,0,1) in space
  (harness/c08.py `rot_material`), i.e. new (a, b) entry = old (a−1, b−1) entry.
-/
import FdtdxModel.C08
import FdtdxModel.YeeAniso
namespace Fdtdx.C08
open Fdtdx.Yee Fdtdx.YeeAniso

/-- R·m·Rᵀ for the cyclic relabelling: new x = old z, new y = old x, new z = old y -/
def rotM3 {α : Type} (m : M3 α) : M3 α := ⟨m.zz, m.zx, m.zy, m.xz, m.xx, m.xy, m.yz, m.yx, m.yy⟩

/-- relabelled tensor field -/
def rotT {α : Type} (t : F3 (M3 α)) : F3 (M3 α) := fun i j k => rotM3 (t j k i)

def rotTens {α : Type} : Tens α → Tens α
  | .scalar a => .scalar a
  | .iso f => .iso (rotF f)
  | .diag v => .diag (rotV v)
  | .full t => .full (rotT t)

def rotMA {α : Type} (m : MatA α) : MatA α where
  invEps := rotTens m.invEps
  invMu := rotTens m.invMu
  sigE := m.sigE.map rotTens
  sigH := m.sigH.map rotTens

def rotAW {α : Type} (w : AW α) : AW α := ⟨w.wz, w.wx, w.wy⟩

/-- the axis index moves on: 0 → 1, 1 → 2, (anything else = 2) → 0 -/
def rotAx (ax : Nat) : Nat :=
  match ax with
  | 0 => 1
  | 1 => 2
  | _ => 0

end Fdtdx.C08
