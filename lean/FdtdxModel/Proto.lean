/-
Line protocol shared by every model driver (K, correspondence).

One request per line: `<PROPERTY> <op> <arg> ...`, tokens separated by single blanks.
Floats cross the protocol as the 16-hex-digit bit pattern of their IEEE binary64 value
(`Float.ofBits` / `Float.toBits`), never as decimal text.  Integers are decimal.
One reply line per request.  Nothing here imports Mathlib, so the driver links as a native exe.
-/
namespace Fdtdx.Proto

def hexDigit (c : Char) : Option Nat :=
  if '0' ≤ c ∧ c ≤ '9' then some (c.toNat - '0'.toNat)
  else if 'a' ≤ c ∧ c ≤ 'f' then some (c.toNat - 'a'.toNat + 10)
  else if 'A' ≤ c ∧ c ≤ 'F' then some (c.toNat - 'A'.toNat + 10)
  else none

def parseHex (s : String) : Option Nat :=
  if s.isEmpty then none else
  s.foldl (fun acc c => match acc, hexDigit c with
    | some a, some d => some (a * 16 + d)
    | _, _ => none) (some 0)

/-- binary64 from its 16-hex-digit bit pattern -/
def floatOfHex (s : String) : Option Float :=
  (parseHex s).map (fun n => Float.ofBits (UInt64.ofNat n))

def hexChar (n : Nat) : Char :=
  if n < 10 then Char.ofNat ('0'.toNat + n) else Char.ofNat ('a'.toNat + (n - 10))

def toHex16 (n : Nat) : String :=
  String.ofList ((List.range 16).map (fun i => hexChar ((n / 16 ^ (15 - i)) % 16)))

def hexOfFloat (x : Float) : String := toHex16 x.toBits.toNat

def parseInt (s : String) : Option Int := s.toInt?
def parseNat (s : String) : Option Nat := s.toNat?

def floatsOfHex (l : List String) : Option (List Float) := l.mapM floatOfHex
def intsOf (l : List String) : Option (List Int) := l.mapM parseInt
def natsOf (l : List String) : Option (List Nat) := l.mapM parseNat

def joinSp (l : List String) : String := " ".intercalate l
def showFloats (l : List Float) : String := joinSp (l.map hexOfFloat)
def showInts (l : List Int) : String := joinSp (l.map toString)
def showNats (l : List Nat) : String := joinSp (l.map toString)
def showBools (l : List Bool) : String := joinSp (l.map (fun b => if b then "1" else "0"))

def tokens (line : String) : List String :=
  ((line.trimAscii.toString.splitOn " ").filter (· ≠ ""))

/-- take `n` tokens -/
def takeN (n : Nat) (l : List String) : Option (List String × List String) :=
  if l.length < n then none else some (l.take n, l.drop n)

partial def loop (h : IO.FS.Stream) (out : IO.FS.Stream) (handle : List String → String) : IO Unit := do
  let line ← h.getLine
  if line.isEmpty then return ()
  let toks := tokens line
  if toks.isEmpty then loop h out handle else
  out.putStrLn (handle toks)
  out.flush
  loop h out handle

end Fdtdx.Proto
