/-
C11 — complex field storage reproduces real runs.  The time step is the shared Yee model (`FdtdxModel/Yee.lean`,
generic in the scalar type; `YeeIO` runs it on binary64 (`r`) and on complex binary64 (`c`)).  This file adds

  mapV / mapBC / mapCfg / mapMat    transport of a whole configuration along a scalar map `φ` (real → complex embedding)
  fdtdx/objects/sources/tfsf.py     `incident_H_component` / `incident_E_component` of `_tfsf_inject_{E,H}_face`:
                                    the quadrature branch `Re(p)·amp + Im(p)·amp_quad` is taken iff the incident
                                    *profile* has a complex dtype (never because the fields are complex)   → `incidentComponent`
  fdtdx/core/physics/metrics.py     compute_energy with |·|² (`jnp.square(jnp.abs(E))`), compute_poynting_flux with
                                    `E × conj(H)` followed by `.real` in the detector                      → `detEnergyG`, `poyntingG`

Driver ops: those of `YeeIO` (`fwd r|c …`), `pmlfwd` of the CPML model (through `C10Ext.handleExt`), plus `tfsfamp cplx re im amp quad` → one value.
-/
import FdtdxModel.YeeIO
import FdtdxModel.C10Ext
namespace Fdtdx.C11
open Fdtdx.Yee

def mapV {α β : Type} (φ : α → β) (V : V3 α) : V3 β where
  x := fun i j k => φ (V.x i j k)
  y := fun i j k => φ (V.y i j k)
  z := fun i j k => φ (V.z i j k)

def mapBC {α β : Type} (φ : α → β) (b : AxisBC α) : AxisBC β :=
  { wrap := b.wrap, pp := φ b.pp, pm := φ b.pm, pecLo := b.pecLo, pecHi := b.pecHi, pmcLo := b.pmcLo, pmcHi := b.pmcHi }

def mapCfg {α β : Type} (φ : α → β) (cf : Cfg α) : Cfg β :=
  { nx := cf.nx, ny := cf.ny, nz := cf.nz, bx := mapBC φ cf.bx, by_ := mapBC φ cf.by_, bz := mapBC φ cf.bz,
    sfx := fun i => φ (cf.sfx i), sfy := fun i => φ (cf.sfy i), sfz := fun i => φ (cf.sfz i),
    sbx := fun i => φ (cf.sbx i), sby := fun i => φ (cf.sby i), sbz := fun i => φ (cf.sbz i),
    c := φ cf.c, eta0 := φ cf.eta0 }

def mapMat {α β : Type} (φ : α → β) (m : Mat α) : Mat β :=
  { invEps := mapV φ m.invEps, invMu := mapV φ m.invMu, sigE := m.sigE.map (mapV φ), sigH := m.sigH.map (mapV φ) }

section
variable {α : Type} [Add α] [Sub α] [Mul α] [Div α] [OfNat α 0] [OfNat α 1] [OfNat α 2]

/-- `incident_H_component(axis)` at one cell: `re`, `im` = real / imaginary part of the incident profile value,
`amp` = temporal amplitude · static factor, `quad` = the same with the phase shifted by −π/2;
`cplx` = `jnp.iscomplexobj(incident_H)` (and no dispersive H filter). -/
def incidentComponent (cplx : Bool) (re im amp quad : α) : α :=
  if cplx then re * amp + im * quad else re * amp

/-- energy density with an abstract squared modulus `nsq` (x·x for real storage, |z|² for complex storage);
materials are real (`ρ`) -/
def detEnergyG {ρ : Type} [Add ρ] [Mul ρ] [Div ρ] [OfNat ρ 1] [OfNat ρ 2] (nsq : α → ρ) (ie im : V3 ρ) (E H : V3 α)
    (i j k : Nat) : ρ :=
  (1 / 2 * (1 / ie.x i j k) * nsq (E.x i j k) + 1 / 2 * (1 / ie.y i j k) * nsq (E.y i j k)
      + 1 / 2 * (1 / ie.z i j k) * nsq (E.z i j k))
    + (1 / 2 * (1 / im.x i j k) * nsq (H.x i j k) + 1 / 2 * (1 / im.y i j k) * nsq (H.y i j k)
      + 1 / 2 * (1 / im.z i j k) * nsq (H.z i j k))

/-- `compute_poynting_flux(E, H).real`: Re(E × conj H) with abstract conjugation and real part -/
def poyntingG {ρ : Type} (conj : α → α) (re : α → ρ) (E H : V3 α) : V3 ρ where
  x := fun i j k => re (E.y i j k * conj (H.z i j k) - E.z i j k * conj (H.y i j k))
  y := fun i j k => re (E.z i j k * conj (H.x i j k) - E.x i j k * conj (H.z i j k))
  z := fun i j k => re (E.x i j k * conj (H.y i j k) - E.y i j k * conj (H.x i j k))

end

open Proto in
def ampOp : List String → String
  | [cplx, re, im, amp, quad] =>
    match floatsOfHex [re, im, amp, quad] with
    | some [re, im, amp, quad] =>
      if cplx == "0" || cplx == "1" then hexOfFloat (incidentComponent (cplx == "1") re im amp quad) else "bad-op"
    | _ => "bad-op"
  | _ => "bad-op"

def handle : List String → String
  | "tfsfamp" :: rest => ampOp rest
  | toks =>
    match C10.handleExt toks with
    | "bad-op" => YeeIO.handleYee toks
    | r => r

end Fdtdx.C11
