/-
C35 — model of the pole → recurrence-coefficient map of `fdtdx/dispersion.py` and of its inverse.

Mirrors
  `LorentzPole / DrudePole / CCPRPole` accessors `omega_0_axes, gamma_axes, coupling_sq_axes,
      coupling_edot_axes`                                   → `lorentz`, `drude`, `ccpr` (one axis each)
  `CCPRPole.from_critical_point`                            → `critical`   (cos φ, sin φ passed in)
  `Pole._validate_orientation` (normalisation of `u`)       → `normalize`  (sqrt passed in)
  `compute_pole_coefficients_per_axis` (one pole, one axis) → `coef`, `coefChecked` (the `omega_0*dt >= 2`
      ValueError on axes that couple)
  `compute_pole_coefficients_tensor` (oriented pole)        → `tensorOriented` (`K < 0` ValueError)
  `susceptibility_from_coefficients`                        → `chiPole`, `chiSum`, `chi9`
      (pole mask, `safe_denom`, inversion formulas, complex division, sum over the pole axis, and the
       `_expand_recurrence_to_coupling` row rule for 9-component couplings)
and adds the frequency response of the stored recurrence itself (`resp`), which has no counterpart
function in fdtdx: it is what the time loop `P⁺ = c1 P + c2 P⁻ + c3 E + c4 E⁺` does to `E_n = e^{-iωn dt}`.

Complex numbers are pairs `(re, im)`; `cdiv` is the textbook quotient.  Scalars are generic: the same
definitions run on `Float` in the driver and are reasoned about over fields in `FdtdxProps/C35.lean`.
Simplified: numpy broadcasting over cells (the map is pointwise), `float()` conversions, the
`len(tuple) != 3` / non-finite-orientation argument errors.
-/
import FdtdxModel.Proto
namespace Fdtdx.C35

section generic
variable {α : Type} [Add α] [Sub α] [Mul α] [Div α] [Neg α] [OfNat α 0] [OfNat α 1] [OfNat α 2]

/-- unified parameters of one axis of a pole: `p'' + g p' + w0² p = a E + b E'` -/
structure Uni (α : Type) where
  w0 : α
  g : α
  a : α
  b : α

/-- `LorentzPole`: `coupling_sq = delta_epsilon * omega_0**2` -/
def lorentz (w0 g de : α) : Uni α := ⟨w0, g, de * (w0 * w0), 0⟩

/-- `DrudePole`: `omega_0 = 0`, `coupling_sq = omega_p**2` -/
def drude (wp g : α) : Uni α := ⟨0, g, wp * wp, 0⟩

/-- `CCPRPole`: `omega_0 = |q|`, `gamma = -2 Re q`, `a = -2 Re(r q*)`, `b = 2 Re r` -/
def ccpr (sqrt : α → α) (qre qim rre rim : α) : Uni α :=
  ⟨sqrt (qre * qre + qim * qim), -(2 * qre), -(2 * (rre * qre + rim * qim)), 2 * rre⟩

/-- `from_critical_point`: `q = -Γ - iΩ`, `r = i A Ω e^{iφ}`; returns `(q.re, q.im, r.re, r.im)` -/
def critical (A cosφ sinφ Ω Γ : α) : α × α × α × α :=
  (-Γ, -Ω, -(A * Ω * sinφ), A * Ω * cosφ)

structure Coef (α : Type) where
  c1 : α
  c2 : α
  c3 : α
  c4 : α

/-- the four coefficients of one pole on one axis -/
def coef (u : Uni α) (dt : α) : Coef α :=
  let gdt := u.g * dt
  let den := 1 + gdt / 2
  ⟨(2 - (u.w0 * u.w0) * (dt * dt)) / den,
   -(1 - gdt / 2) / den,
   (u.a * (dt * dt) - u.b * dt) / den,
   (u.b * dt) / den⟩

/-- with the placement-time guard: `none` = ValueError (`omega_0*dt >= 2` on an axis that couples) -/
def coefChecked [BEq α] [LE α] [DecidableLE α] (u : Uni α) (dt : α) : Option (Coef α) :=
  if (u.a != 0 || u.b != 0) && decide (2 ≤ u.w0 * dt) then none else some (coef u dt)

def cdiv (n d : α × α) : α × α :=
  let m := d.1 * d.1 + d.2 * d.2
  ((n.1 * d.1 + n.2 * d.2) / m, (n.2 * d.1 - n.1 * d.2) / m)

def cadd (x y : α × α) : α × α := (x.1 + y.1, x.2 + y.2)

/-- one pole slot of `susceptibility_from_coefficients` -/
def chiPole [BEq α] (c : Coef α) (omega dt : α) : α × α :=
  let mask := c.c1 != 0 || c.c3 != 0 || c.c4 != 0
  if !mask then (0, 0) else
  let om2 := 1 - c.c2
  let safe := if om2 == 0 then 1 else om2
  let gdt := 2 * (1 + c.c2) / safe
  let half := 1 + gdt / 2
  let w2 := 2 - c.c1 * half
  let adt2 := (c.c3 + c.c4) * half
  let bdt := c.c4 * half
  let od := omega * dt
  cdiv (adt2, -(od * bdt)) (w2 - od * od, -(gdt * od))

/-- `jnp.sum(chi_per_pole, axis=0)` -/
def chiSum [BEq α] (cs : List (Coef α)) (omega dt : α) : α × α :=
  cs.foldl (fun acc c => cadd acc (chiPole c omega dt)) (0, 0)

/-- 9-component coupling: entry `3i+j` uses the oscillator `(c1,c2)` of row `i`
    (`_expand_recurrence_to_coupling` = `repeat(·, 3, axis=1)`) -/
def chi9 [BEq α] (ps : List (List α × List α × List α × List α)) (zero : α) (omega dt : α) : List (α × α) :=
  (List.range 9).map (fun e =>
    chiSum (ps.map (fun p => (⟨p.1.getD (e / 3) zero, p.2.1.getD (e / 3) zero,
                               p.2.2.1.getD e zero, p.2.2.2.getD e zero⟩ : Coef α))) omega dt)

/-- frequency response of the stored recurrence at `z = e^{-iθ}`, θ = ω dt:
    `χ_disc = (c3 + c4 z) / (z - c1 - c2 z⁻¹)` -/
def resp (c : Coef α) (cosθ sinθ : α) : α × α :=
  cdiv (c.c3 + c.c4 * cosθ, -(c.c4 * sinθ)) (cosθ - c.c1 - c.c2 * cosθ, -sinθ - c.c2 * sinθ)

/-- the declared pole model `χ(ω) = (a - iωb)/(w0² - ω² - iγω)` (what `DispersionModel.susceptibility_axes`
    evaluates); only used as the right-hand side of theorems and of the K oracle -/
def chiDeclared (u : Uni α) (omega : α) : α × α :=
  cdiv (u.a, -(omega * u.b)) (u.w0 * u.w0 - omega * omega, -(u.g * omega))

def absf [LT α] [DecidableLT α] (x : α) : α := if x < 0 then -x else x
def maxf [LT α] [DecidableLT α] (x y : α) : α := if x < y then y else x

/-- `_validate_orientation`: scale by the max-abs component, then divide by the 2-norm; `none` = ValueError -/
def normalize [BEq α] [LT α] [DecidableLT α] (sqrt : α → α) (ux uy uz : α) : Option (α × α × α) :=
  let scale := maxf (maxf (absf ux) (absf uy)) (absf uz)
  if scale == 0 then none else
  let sx := ux / scale
  let sy := uy / scale
  let sz := uz / scale
  let norm := sqrt (sx * sx + sy * sy + sz * sz)
  some (sx / norm, sy / norm, sz / norm)

/-- `compute_pole_coefficients_tensor` for one oriented pole (orientation already normalised):
    `(c1, c2, c3[0..8])`, `c4 = 0`; `none` = ValueError -/
def tensorOriented [BEq α] [LE α] [DecidableLE α] [LT α] [DecidableLT α]
    (u : Uni α) (dir : α × α × α) (dt : α) : Option (α × α × List α) :=
  match coefChecked u dt with
  | none => none
  | some c =>
    if u.a < 0 then none else
    let den := 1 + u.g * dt / 2
    let s := u.a * (dt * dt) / den
    let v := [dir.1, dir.2.1, dir.2.2]
    some (c.c1, c.c2, v.flatMap (fun x => v.map (fun y => s * (x * y))))

end generic

/-! ### Driver -/
open Proto

private def showPair (p : Float × Float) : String := s!"{hexOfFloat p.1} {hexOfFloat p.2}"
private def showCoef (c : Coef Float) : String := showFloats [c.c1, c.c2, c.c3, c.c4]
private def showOpt (o : Option (Coef Float)) : String :=
  match o with | none => "error" | some c => showCoef c

private def coefsOf : List Float → Option (List (Coef Float))
  | [] => some []
  | a :: b :: c :: d :: r => (coefsOf r).map (fun l => ⟨a, b, c, d⟩ :: l)
  | _ => none

private def poles9Of : List Float → Option (List (List Float × List Float × List Float × List Float))
  | [] => some []
  | l => if l.length < 24 then none else
      (poles9Of (l.drop 24)).map (fun r =>
        (l.take 3, (l.drop 3).take 3, (l.drop 6).take 9, (l.drop 15).take 9) :: r)
termination_by l => l.length
decreasing_by simp; omega

/-- ops (all numbers as binary64 bit patterns):
  `lor w0 g de dt` | `dru wp g dt` | `ccpr qre qim rre rim dt` | `uni w0 g a b dt`  → `c1 c2 c3 c4` or `error`
  `cp A cosφ sinφ Ω Γ`                      → `qre qim rre rim`
  `chi omega dt c1 c2 c3 c4 …`              → `re im` of the summed susceptibility
  `chi9 omega dt (c1×3 c2×3 c3×9 c4×9) …`   → 9 × `re im`
  `resp c1 c2 c3 c4 cosθ sinθ`              → `re im`
  `decl w0 g a b omega`                     → `re im` of the declared pole model
  `norm ux uy uz`                           → `ux uy uz` normalised or `error`
  `tens w0 g a b ux uy uz dt`               → `c1 c2 c3×9` (u already normalised) or `error`
-/
def handle : List String → String
  | "lor" :: xs => match floatsOfHex xs with
    | some [w0, g, de, dt] => showOpt (coefChecked (lorentz w0 g de) dt)
    | _ => "bad-op"
  | "dru" :: xs => match floatsOfHex xs with
    | some [wp, g, dt] => showOpt (coefChecked (drude wp g) dt)
    | _ => "bad-op"
  | "ccpr" :: xs => match floatsOfHex xs with
    | some [qre, qim, rre, rim, dt] => showOpt (coefChecked (ccpr Float.sqrt qre qim rre rim) dt)
    | _ => "bad-op"
  | "uni" :: xs => match floatsOfHex xs with
    | some [w0, g, a, b, dt] => showOpt (coefChecked ⟨w0, g, a, b⟩ dt)
    | _ => "bad-op"
  | "cp" :: xs => match floatsOfHex xs with
    | some [A, c, s, Om, Ga] =>
      let r := critical A c s Om Ga
      showFloats [r.1, r.2.1, r.2.2.1, r.2.2.2]
    | _ => "bad-op"
  | "chi" :: xs => match floatsOfHex xs with
    | some (omega :: dt :: rest) => match coefsOf rest with
      | some cs => showPair (chiSum cs omega dt)
      | none => "bad-op"
    | _ => "bad-op"
  | "chi9" :: xs => match floatsOfHex xs with
    | some (omega :: dt :: rest) => match poles9Of rest with
      | some ps => joinSp ((chi9 ps 0.0 omega dt).map showPair)
      | none => "bad-op"
    | _ => "bad-op"
  | "resp" :: xs => match floatsOfHex xs with
    | some [c1, c2, c3, c4, c, s] => showPair (resp ⟨c1, c2, c3, c4⟩ c s)
    | _ => "bad-op"
  | "decl" :: xs => match floatsOfHex xs with
    | some [w0, g, a, b, omega] => showPair (chiDeclared ⟨w0, g, a, b⟩ omega)
    | _ => "bad-op"
  | "norm" :: xs => match floatsOfHex xs with
    | some [ux, uy, uz] => match normalize Float.sqrt ux uy uz with
      | some (x, y, z) => showFloats [x, y, z]
      | none => "error"
    | _ => "bad-op"
  | "tens" :: xs => match floatsOfHex xs with
    | some [w0, g, a, b, ux, uy, uz, dt] => match tensorOriented ⟨w0, g, a, b⟩ (ux, uy, uz) dt with
      | some (c1, c2, c3) => showFloats (c1 :: c2 :: c3)
      | none => "error"
    | _ => "bad-op"
  | _ => "bad-op"

end Fdtdx.C35
