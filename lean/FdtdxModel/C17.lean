/-
C17 — model of the phasor (running DFT) detectors.

Mirrors
  objects/detectors/phasor.py
    PhasorDetector._resolve_dft_stride      → `resolveStride` (explicit stride: `max(1, int(sub))`), `autoStride` ("auto")
    PhasorDetector._calculate_on_list       → `thin` (`active[::stride]`, untouched for stride ≤ 1)
    PhasorDetector.place_on_grid            → `windowArr` (apodization(t·dt) · on-mask, or the on-mask alone),
                                              `windowSum`, placement error when the sum is not positive
    PhasorDetector._static_scale            → `staticScale` (continuous: 2 / Σw, pulse: stride)
    PhasorDetector.update (+ the `lax.cond` gate of fdtd/update.update_detector_states on the thinned on-mask)
                                            → `phContrib`, `phStep`, `phRun`
  core/window.py
    gaussian_envelope / GaussianWindow, tukey_envelope / TukeyWindow → `winAt`
  objects/detectors/poynting_flux.py
    _phasor_poynting_vector (jnp.cross(E, conj H).real)          → `poyntingRe`
    PhasorPoyntingFluxDetector.compute_poynting_flux              → `planeFlux`
    ClosedSurfacePhasorPoyntingFluxDetector.update                → `phContrib` on the face cells (after the fix:
                                              the apodization weight is applied like in PhasorDetector;
                                              `AsFound.csContrib` keeps the pinned behaviour without it)
    ClosedSurfacePhasorPoyntingFluxDetector.compute_net_flux      → `netFlux`

Scalars are generic: `α` the real scalar, `β` the phasor type with `smul : α → β → β` (real × complex).  The
driver runs `α = Float`, `β = Cx Float`; the theorems take any commutative ring and any module over it.
`exp`, `cos`, `sin`, π and `floor` are explicit arguments.  Volume reduction (`reduce_volume`) and component
selection are linear maps applied to the per-step record before accumulation; they are applied to the history on
the Python side (C16 owns them).  Not modelled: the complex64 storage path (K runs complex128).
-/
import FdtdxModel.Proto
namespace Fdtdx.C17

/-! ### complex numbers as pairs -/
structure Cx (α : Type) where
  re : α
  im : α
  deriving Repr

namespace Cx
variable {α : Type}
instance [Add α] : Add (Cx α) := ⟨fun a b => ⟨a.re + b.re, a.im + b.im⟩⟩
instance [Sub α] : Sub (Cx α) := ⟨fun a b => ⟨a.re - b.re, a.im - b.im⟩⟩
instance [Add α] [Sub α] [Mul α] : Mul (Cx α) :=
  ⟨fun a b => ⟨a.re * b.re - a.im * b.im, a.re * b.im + a.im * b.re⟩⟩
def conj [Neg α] (a : Cx α) : Cx α := ⟨a.re, -a.im⟩
/-- real × complex, as numpy computes it -/
def smul [Mul α] (r : α) (a : Cx α) : Cx α := ⟨r * a.re, r * a.im⟩
end Cx

/-! ### stride thinning -/

/-- `kept[t] = True for t in active[::stride]`; `c` = number of active steps seen so far -/
def thinFrom (stride : Nat) : Nat → List Bool → List Bool
  | _, [] => []
  | c, true :: l => decide (c % stride = 0) :: thinFrom stride (c + 1) l
  | c, false :: l => false :: thinFrom stride c l

/-- `PhasorDetector._calculate_on_list` on the base on-list -/
def thin (stride : Nat) (l : List Bool) : List Bool := if stride ≤ 1 then l else thinFrom stride 0 l

/-- `max(1, int(sub))` -/
def resolveStride (sub : Int) : Nat := max 1 sub.toNat

/-- `"auto"`: `max(1, floor(1 / (12 · f_max · dt)))`, 1 when `f_max ≤ 0` or `dt ≤ 0` -/
def autoStride {α : Type} [Mul α] [Div α] [LE α] [DecidableLE α] [OfNat α 0] (one twelve : α) (floorNat : α → Nat)
    (fmax dt : α) : Nat :=
  if fmax ≤ 0 ∨ dt ≤ 0 then 1 else max 1 (floorNat (one / (twelve * fmax * dt)))

/-! ### apodization windows -/

inductive Win (α : Type) where
  | rect
  | gauss (center sigma : α)
  | tukey (start stop alpha : α)

/-- `TemporalWindow.get_window(time)` -/
def winAt {α : Type} [Add α] [Sub α] [Mul α] [Div α] [Neg α] [LE α] [LT α] [DecidableLE α] [DecidableLT α]
    [OfNat α 0] [OfNat α 1] [OfNat α 2] (half pi : α) (exp cos : α → α) : Win α → α → α
  | .rect, _ => 1
  | .gauss c sg, time => exp (-((time - c) * (time - c)) / (2 * (sg * sg)))
  | .tukey st en alpha, time =>
    let duration := en - st
    let x := (time - st) / duration
    let inRange : Bool := decide (0 ≤ x) && decide (x ≤ 1)
    if alpha ≤ 0 then (if inRange then 1 else 0) else
    let h := alpha / 2
    let left := half * (1 + cos (pi * (x / h - 1)))
    let right := half * (1 + cos (pi * ((x - 1) / h + 1)))
    let w := if x < h then left else if 1 - h < x then right else 1
    if inRange then w else 0

/-- `_window_at_time_step_arr[t]`: apodization at `t·dt` times the (thinned) on-mask; the mask alone without apodization -/
def windowArr {α : Type} [Mul α] [OfNat α 0] [OfNat α 1] (apod : Option (α → α)) (cast : Nat → α) (dt : α)
    (on : Nat → Bool) (t : Nat) : α :=
  let m : α := if on t then 1 else 0
  match apod with
  | none => m
  | some f => f (cast t * dt) * m

/-- `Σ_{t<n} f t` as a left fold (the code uses `jnp.sum`) -/
def sumTo {α : Type} [Add α] [OfNat α 0] (f : Nat → α) : Nat → α
  | 0 => 0
  | n + 1 => sumTo f n + f n

inductive Mode where | continuous | pulse
  deriving DecidableEq, Repr

/-- `_static_scale` -/
def staticScale {α : Type} [Div α] [OfNat α 2] (cast : Nat → α) (mode : Mode) (windowSum : α) (stride : Nat) : α :=
  match mode with
  | .continuous => 2 / windowSum
  | .pulse => cast stride

/-! ### accumulation -/

/-- `EH * phasors * static_scale * window_weight` for one real sample `x` and one frequency's phasor `ph` -/
def phContrib {α β : Type} (smul : α → β → β) (x : α) (ph : β) (scale w : α) : β :=
  smul w (smul scale (smul x ph))

/-- one gated `update`: `state ± contribution` at a kept step, unchanged otherwise -/
def phStep {α β : Type} [Add β] [Sub β] (smul : α → β → β) (inverse : Bool) (on : Nat → Bool)
    (x : Nat → α) (ph : Nat → β) (scale : α) (w : Nat → α) (st : β) (t : Nat) : β :=
  if on t then
    (if inverse then st - phContrib smul (x t) (ph t) scale (w t) else st + phContrib smul (x t) (ph t) scale (w t))
  else st

/-- the state after steps `0 … n-1` -/
def phRun {α β : Type} [Add β] [Sub β] (smul : α → β → β) (inverse : Bool) (on : Nat → Bool)
    (x : Nat → α) (ph : Nat → β) (scale : α) (w : Nat → α) (init : β) : Nat → β
  | 0 => init
  | n + 1 => phStep smul inverse on x ph scale w (phRun smul inverse on x ph scale w init n) n

/-- `exp(1j · ω · t·dt)` with `ω = 2π·f` -/
def phasorAt {α : Type} [Mul α] (twoPi : α) (cos sin : α → α) (cast : Nat → α) (f dt : α) (t : Nat) : Cx α :=
  let ang := (twoPi * f) * (cast t * dt)
  ⟨cos ang, sin ang⟩

namespace AsFound
/-- `ClosedSurfacePhasorPoyntingFluxDetector.update` of the pinned tree: `EH * phasors * static_scale`,
    no apodization weight although `static_scale = 2 / Σ window` -/
def csContrib {α β : Type} (smul : α → β → β) (x : α) (ph : β) (scale _w : α) : β := smul scale (smul x ph)

def csRun {α β : Type} [Add β] (smul : α → β → β) (on : Nat → Bool)
    (x : Nat → α) (ph : Nat → β) (scale : α) (w : Nat → α) (init : β) : Nat → β
  | 0 => init
  | n + 1 => if on n then csRun smul on x ph scale w init n + csContrib smul (x n) (ph n) scale (w n)
             else csRun smul on x ph scale w init n
end AsFound

/-! ### phasor Poynting flux -/

/-- six complex components `(Ex, Ey, Ez, Hx, Hy, Hz)` of one cell -/
structure Cell (α : Type) where
  e : Fin 3 → Cx α
  h : Fin 3 → Cx α
  area : α

/-- real part of `a · conj b` -/
def reMulConj {α : Type} [Add α] [Mul α] (a b : Cx α) : α := a.re * b.re + a.im * b.im

/-- component `a` of `Re(E × conj H)` (`jnp.cross(E, conj(H)).real`) -/
def poyntingRe {α : Type} [Add α] [Sub α] [Mul α] (e h : Fin 3 → Cx α) (a : Fin 3) : α :=
  reMulConj (e (a + 1)) (h (a + 2)) - reMulConj (e (a + 2)) (h (a + 1))

/-- `Σ_cells S_a · area` -/
def faceSum {α : Type} [Add α] [Sub α] [Mul α] [OfNat α 0] (a : Fin 3) : List (Cell α) → α
  | [] => 0
  | c :: l => poyntingRe c.e c.h a * c.area + faceSum a l

/-- `PhasorPoyntingFluxDetector.compute_poynting_flux` (propagation-axis component) -/
def planeFlux {α : Type} [Add α] [Sub α] [Mul α] [Neg α] [OfNat α 0] (half : α) (mode : Mode) (negDir : Bool)
    (a : Fin 3) (cells : List (Cell α)) : α :=
  let f := faceSum a cells
  let f := if negDir then -f else f      -- pv = -pv before the weighted sum
  match mode with
  | .continuous => half * f
  | .pulse => f

/-- one face of the closed surface: normal axis, `true` = max face (sign +1), its cells -/
structure Face (α : Type) where
  axis : Fin 3
  isMax : Bool
  cells : List (Cell α)

/-- `compute_net_flux`: Σ_faces ±Σ S_a·area, orientation, ½ in continuous mode -/
def netFlux {α : Type} [Add α] [Sub α] [Mul α] [Neg α] [OfNat α 0] (half : α) (mode : Mode) (inward : Bool)
    (faces : List (Face α)) : α :=
  let net := faces.foldl (fun acc f => if f.isMax then acc + faceSum f.axis f.cells else acc - faceSum f.axis f.cells) 0
  let net := if inward then -net else net
  match mode with
  | .continuous => half * net
  | .pulse => net

/-! ### Driver -/
open Proto

instance : DecidableLE Float := fun a b => Float.decLe a b
instance : DecidableLT Float := fun a b => Float.decLt a b

def piF : Float := 3.141592653589793

def parseWin : List String → Option (Win Float × List String)
  | "rect" :: r => some (.rect, r)
  | "gauss" :: c :: s :: r => match floatOfHex c, floatOfHex s with
    | some c, some s => some (.gauss c s, r)
    | _, _ => none
  | "tukey" :: a :: b :: al :: r => match floatOfHex a, floatOfHex b, floatOfHex al with
    | some a, some b, some al => some (.tukey a b al, r)
    | _, _, _ => none
  | _ => none

def parseBits (l : List String) : Option (List Bool) :=
  l.mapM (fun s => if s = "1" then some true else if s = "0" then some false else none)

def parseCx : List Float → Option (List (Cx Float))
  | [] => some []
  | a :: b :: r => (parseCx r).map (fun l => ⟨a, b⟩ :: l)
  | _ => none

def cellOf (v : List Float) : Option (Cell Float) :=
  match v with
  | [a0, a1, a2, a3, a4, a5, a6, a7, a8, a9, a10, a11, ar] =>
    some { e := fun i => if i = 0 then ⟨a0, a1⟩ else if i = 1 then ⟨a2, a3⟩ else ⟨a4, a5⟩,
           h := fun i => if i = 0 then ⟨a6, a7⟩ else if i = 1 then ⟨a8, a9⟩ else ⟨a10, a11⟩,
           area := ar }
  | _ => none

/-- `n` cells of 13 floats each -/
def parseCells : Nat → List String → Option (List (Cell Float) × List String)
  | 0, r => some ([], r)
  | n + 1, r =>
    if r.length < 13 then none else
    match floatsOfHex (r.take 13) with
    | none => none
    | some v => match cellOf v, parseCells n (r.drop 13) with
      | some c, some (cs, rest) => some (c :: cs, rest)
      | _, _ => none

def parseAxis (s : String) : Option (Fin 3) :=
  if s = "0" then some 0 else if s = "1" then some 1 else if s = "2" then some 2 else none

def parseFaces : Nat → List String → Option (List (Face Float) × List String)
  | 0, r => some ([], r)
  | k + 1, ax :: mx :: n :: r =>
    match parseAxis ax, parseNat n with
    | some a, some n =>
      if mx ≠ "0" ∧ mx ≠ "1" then none else
      match parseCells n r with
      | some (cs, rest) => (parseFaces k rest).map (fun (fs, rr) => (⟨a, mx = "1", cs⟩ :: fs, rr))
      | none => none
    | _, _ => none
  | _, _ => none

def parseMode (s : String) : Option Mode :=
  if s = "continuous" then some .continuous else if s = "pulse" then some .pulse else none

/-- ops
  `thin stride b_0 … b_{T-1}`                     → thinned bits
  `stride sub`                                    → resolved explicit stride
  `auto fmax dt`                                  → "auto" stride
  `win <window> dt T`                             → window values at t·dt, t < T
  `dft T dt f mode stride inv <window> b_0…b_{T-1} x_0…x_{T-1}`
        (base on-list bits `b`, real history `x`)  → `ok re im | windowSum scale | kept bits`  /  `error window-sum`
  `plane mode negdir axis n <13 floats per cell>` → flux
  `net mode inward k [axis isMax n cells…]*k`     → net flux
-/
def handle : List String → String
  | "thin" :: s :: bs =>
    match parseNat s, parseBits bs with
    | some s, some l => showBools (thin s l)
    | _, _ => "bad-op"
  | ["stride", s] => match parseInt s with
    | some s => toString (resolveStride s)
    | none => "bad-op"
  | ["auto", f, dt] => match floatOfHex f, floatOfHex dt with
    | some f, some dt => toString (autoStride (1.0 : Float) 12.0 (fun x => x.floor.toUInt64.toNat) f dt)
    | _, _ => "bad-op"
  | "win" :: rest =>
    match parseWin rest with
    | some (w, [dt, T]) => match floatOfHex dt, parseNat T with
      | some dt, some T =>
        showFloats ((List.range T).map (fun t => winAt (0.5 : Float) piF Float.exp Float.cos w (Float.ofNat t * dt)))
      | _, _ => "bad-op"
    | _ => "bad-op"
  | "dft" :: T :: dt :: f :: mode :: stride :: inv :: rest =>
    match parseNat T, floatOfHex dt, floatOfHex f, parseMode mode, parseNat stride, parseNat inv, parseWin rest with
    | some T, some dt, some f, some mode, some stride, some inv, some (w, rest) =>
      if rest.length ≠ 2 * T ∨ inv > 1 ∨ stride = 0 then "bad-op" else
      match parseBits (rest.take T), floatsOfHex (rest.drop T) with
      | some base, some xs =>
        let kept := thin stride base
        let on : Nat → Bool := fun t => kept.getD t false
        let apod : Option (Float → Float) := match w with
          | .rect => none
          | w => some (winAt (0.5 : Float) piF Float.exp Float.cos w)
        let wa := windowArr apod Float.ofNat dt on
        let ws := sumTo wa T
        if !(0 < ws) || !ws.isFinite then "error window-sum" else
        let sc := staticScale Float.ofNat mode ws stride
        let st := phRun Cx.smul (inv = 1) on (fun t => xs.getD t 0.0)
                    (phasorAt (2.0 * piF) Float.cos Float.sin Float.ofNat f dt) sc wa (⟨0.0, 0.0⟩ : Cx Float) T
        s!"ok {hexOfFloat st.re} {hexOfFloat st.im} | {hexOfFloat ws} {hexOfFloat sc} | {showBools kept}"
      | _, _ => "bad-op"
    | _, _, _, _, _, _, _ => "bad-op"
  | "plane" :: mode :: neg :: ax :: n :: rest =>
    match parseMode mode, parseNat neg, parseAxis ax, parseNat n with
    | some mode, some neg, some a, some n =>
      if neg > 1 then "bad-op" else
      match parseCells n rest with
      | some (cs, []) => hexOfFloat (planeFlux (0.5 : Float) mode (neg = 1) a cs)
      | _ => "bad-op"
    | _, _, _, _ => "bad-op"
  | "net" :: mode :: inw :: k :: rest =>
    match parseMode mode, parseNat inw, parseNat k with
    | some mode, some inw, some k =>
      if inw > 1 then "bad-op" else
      match parseFaces k rest with
      | some (fs, []) => hexOfFloat (netFlux (0.5 : Float) mode (inw = 1) fs)
      | _ => "bad-op"
    | _, _, _ => "bad-op"
  | _ => "bad-op"

end Fdtdx.C17
