/-
Line-protocol (de)serialisation of the any-tier Yee step `FdtdxModel/YeeAniso.lean` (ops `afwd`, `abwd`), on binary64
(`r`) and complex binary64 (`c`).  Helpers and the scalar codec come from `YeeIO`.

Request layout after the op token:

  kind                      `r` | `c` (field scalars and ghost multipliers are two floats re im)
  nx ny nz
  3 × axis                  wrap pp pm pecLo pecHi pmcLo pmcHi
  grid                      `u`  |  `n` ref wx[nx] wy[ny] wz[nz]     (`n`: metric scales AND spacing-weighted averaging)
  c eta0                    real floats
  invEps                    tier values[tier·N]        tier ∈ {1, 3, 9}; real floats, component-major then row-major (i,j,k)
  invMu                     `0` value  |  tier values[tier·N]       (`0` = Python scalar)
  sigE                      `n`  |  tier values[tier·N]
  sigH                      `n`  |  tier values[tier·N]
  src                       `0` | `1` jE[3N] jH[3N]                   (field scalars)
  nsteps
  E[3N] H[3N]

Reply: E[3N] H[3N] after the operation.  Anything malformed (unknown tier, wrong token count, …) → `bad-op`.
-/
import FdtdxModel.YeeAniso
import FdtdxModel.YeeIO
namespace Fdtdx.YeeAnisoIO
open Fdtdx.Proto Fdtdx.Yee Fdtdx.YeeAniso Fdtdx.YeeIO

section
variable {α : Type} [Codec α] [Inhabited α]

structure ReqA (α : Type) where
  cf : Cfg α
  aw : Option (AW α)
  m : MatA α
  src : Option (V3 α × V3 α)
  nsteps : Nat
  E : V3 α
  H : V3 α

variable [Add α] [Sub α] [Mul α] [Div α] [OfNat α 0] [OfNat α 1] [OfNat α 2] [OfNat α 4]

/-- a real material array of `tier` ∈ {1,3,9} leading components -/
def pTensTier (nx ny nz : Nat) (tier : String) : P (Tens α) := do
  let n := nx * ny * nz
  let comp (arr : Array Float) (c : Nat) : F3 α :=
    fun i j k => Codec.ofReal (arr[c * n + ((i * ny + j) * nz + k)]!)
  if tier == "1" then
    let arr ← pMany pFloat n
    pure (.iso (comp arr 0))
  else if tier == "3" then
    let arr ← pMany pFloat (3 * n)
    pure (.diag ⟨comp arr 0, comp arr 1, comp arr 2⟩)
  else if tier == "9" then
    let arr ← pMany pFloat (9 * n)
    pure (.full (fun i j k =>
      ⟨comp arr 0 i j k, comp arr 1 i j k, comp arr 2 i j k, comp arr 3 i j k, comp arr 4 i j k, comp arr 5 i j k,
       comp arr 6 i j k, comp arr 7 i j k, comp arr 8 i j k⟩))
  else failure

def pReqA : P (ReqA α) := do
  let nx ← pNat; let ny ← pNat; let nz ← pNat
  let bx ← pAxis (α := α); let by_ ← pAxis (α := α); let bz ← pAxis (α := α)
  let g ← tok
  let one : Nat → α := fun _ => 1
  let mut sfx := one; let mut sfy := one; let mut sfz := one
  let mut sbx := one; let mut sby := one; let mut sbz := one
  let mut aw : Option (AW α) := none
  if g == "n" then
    let ref ← pFloat
    let wx ← pMany pFloat nx; let wy ← pMany pFloat ny; let wz ← pMany pFloat nz
    let r : α := Codec.ofReal ref
    let f (w : Array Float) : Nat → α := fun i => Codec.ofReal (w[i]!)
    sfx := metricFwd r (f wx); sfy := metricFwd r (f wy); sfz := metricFwd r (f wz)
    sbx := metricBwd r (f wx); sby := metricBwd r (f wy); sbz := metricBwd r (f wz)
    aw := some ⟨f wx, f wy, f wz⟩
  else if g != "u" then failure
  let c ← pFloat; let eta0 ← pFloat
  let invEps ← pTensTier (α := α) nx ny nz (← tok)
  let tMu ← tok
  let invMu ← (if tMu == "0" then do pure (Tens.scalar (Codec.ofReal (← pFloat))) else pTensTier (α := α) nx ny nz tMu)
  let tSE ← tok
  let sigE ← (if tSE == "n" then pure none else do pure (some (← pTensTier (α := α) nx ny nz tSE)))
  let tSH ← tok
  let sigH ← (if tSH == "n" then pure none else do pure (some (← pTensTier (α := α) nx ny nz tSH)))
  let src ← do
    if (← pBool) then
      let jE ← pV3 nx ny nz (Codec.parse (α := α)); let jH ← pV3 nx ny nz (Codec.parse (α := α))
      pure (some (jE, jH))
    else pure none
  let nsteps ← pNat
  let E ← pV3 nx ny nz (Codec.parse (α := α)); let H ← pV3 nx ny nz (Codec.parse (α := α))
  if !(← get).isEmpty then failure
  pure { cf := ⟨nx, ny, nz, bx, by_, bz, sfx, sfy, sfz, sbx, sby, sbz, Codec.ofReal c, Codec.ofReal eta0⟩,
         aw := aw, m := ⟨invEps, invMu, sigE, sigH⟩, src := src, nsteps := nsteps, E := E, H := H }

/-- `afwd`: nsteps forward steps (the same source terms every step) -/
def runFwdA (r : ReqA α) : V3 α × V3 α := Id.run do
  let (jE, jH) := r.src.getD (zeroV, zeroV)
  let mut E := r.E; let mut H := r.H
  for _ in [0:r.nsteps] do
    let E' := materialize r.cf.nx r.cf.ny r.cf.nz (stepEA r.cf r.aw r.m jE E H)
    H := materialize r.cf.nx r.cf.ny r.cf.nz (stepHA r.cf r.aw r.m jH E' H)
    E := E'
  return (E, H)

/-- `abwd`: nsteps backward steps -/
def runBwdA (r : ReqA α) : V3 α × V3 α := Id.run do
  let (jE, jH) := r.src.getD (zeroV, zeroV)
  let mut E := r.E; let mut H := r.H
  for _ in [0:r.nsteps] do
    H := materialize r.cf.nx r.cf.ny r.cf.nz (revStepHA r.cf r.aw r.m jH E H)
    E := materialize r.cf.nx r.cf.ny r.cf.nz (revStepEA r.cf r.aw r.m jE E H)
  return (E, H)

def replyA (r : ReqA α) (res : V3 α × V3 α) : String :=
  joinSp (emitV3 r.cf.nx r.cf.ny r.cf.nz res.1 ++ emitV3 r.cf.nx r.cf.ny r.cf.nz res.2)

def handleOpA (op : String) (rest : List String) : String :=
  match (pReqA (α := α)).run rest with
  | none => "bad-op"
  | some (r, _) =>
    if op == "afwd" then replyA r (runFwdA r)
    else if op == "abwd" then replyA r (runBwdA r)
    else "bad-op"

end

/-- ops `afwd | abwd`, then kind `r | c`, then the request -/
def handleAniso : List String → String
  | op :: "r" :: rest => handleOpA (α := Float) op rest
  | op :: "c" :: rest => handleOpA (α := Cx) op rest
  | _ => "bad-op"

end Fdtdx.YeeAnisoIO
