/-
C04 — model of the custom-VJP machinery of `fdtdx.fdtd.fdtd.reversible_fdtd`
(`src/fdtdx/fdtd/fdtd.py`), i.e. of the code that turns the per-step VJP of
`forward_single_args_wrapper` and the reverse step `backward` into a gradient.

Mirrors (after the `fix:` commit recorded in props/C04.findings.json):
  _reversible_slice_boundaries : `sliceBoundaries`  (`round(i*T/k)`, Python half-to-even)
  checkpoint_times             : `checkpointTimes`  (interior boundaries `[1:-1]`)
  segmented_forward            : `segmentedForward` (one bounded `while hi > t` per slice, the full
                                 `FieldState` appended after every slice but the last)
  fdtd_fwd + fdtd_bwd wiring   : `gradReversibleWith` (residual = final state + checkpoints zipped with their times)
  cond_fun                     : `condFixed`        (`time_step > 0`; as found: `AsFound.cond`, `>= 0`)
  body_fn                      : `bodyFn`           (`backward` = decrement then reverse step `g`, then the
                                 VJP of one forward step AT THE RECONSTRUCTED STATE applied to the carried cotangent)
  reverse_body                 : `reverseBody`      (for every (checkpoint, s_i): fields := checkpoint when
                                 `time_step == s_i`, tested BEFORE the decrement)
  fdtd_bwd                     : `fdtdBwd`          (`eqxi.while_loop(kind="lax")` without `max_steps`, modelled
                                 with fuel `time_step + 2`; `fdtdBwd_exits` shows the fuel is never the reason to stop)
  exact autodiff (`checkpointed_fdtd` under `jax.grad`): `exactBwd`, the standard reverse accumulation of the
                                 per-step VJPs over the stored forward trajectory `traj`.

Abstract and generic: a system `Sys` gives the forward step `f t` (`forward`), the reverse step `g t`
(`backward` after its `time_step - 1`), and the linearisation data of one forward step as the two halves of its
VJP: `vjpS t s p` (= Aᵀ, cotangent of the state) and `vjpP t s p` (= Bᵀ, cotangent of the parameters
`inv_permittivities`, `inv_permeabilities`).  The parameters are passed through unchanged by every step, so the VJP
of the step w.r.t. the carried parameter cotangent is `cp + Bᵀ cs` (`stepVjp`).  `getF/setF` read and replace the
`fields` member (`arrs.aset("fields", …)`); detector and recording states are the rest of the state.

Simplifications: the cotangent 9-tuple is split into (state part, parameter part); cotangents returned as `None`
(E, H, psi, detector, recording) are dropped — only `cp` is the result.  The `log` member of the carry is
instrumentation (the events seen by the harness' wrappers around `backward` / `forward_single_args_wrapper`).

`Toy` is a concrete 1-D leapfrog instance (generic scalar) used by the driver: the harness runs the REAL
`reversible_fdtd` loop with the same toy step functions patched in and compares gradients bit-for-bit-ish (1e-9).
-/
import FdtdxModel.Proto
namespace Fdtdx.C04

/-! ### slice boundaries -/

/-- Python `round(a / k)` for naturals: nearest, ties to even. -/
def roundDiv (a k : Nat) : Nat :=
  let q := a / k
  let r := a % k
  if 2 * r < k then q else if k < 2 * r then q + 1 else if q % 2 = 0 then q else q + 1

/-- `_reversible_slice_boundaries(T, k)` = `[round(i*T/k) for i in range(k+1)]` -/
def sliceBoundaries (T k : Nat) : List Nat := (List.range (k + 1)).map (fun i => roundDiv (i * T) k)

/-- `slice_boundaries[1:-1]` -/
def checkpointTimes (T k : Nat) : List Nat := ((sliceBoundaries T k).drop 1).dropLast

/-! ### the abstract system -/

structure Sys (S F P CS CP : Type) where
  /-- `forward`: state at time step `t` ↦ state at `t+1` -/
  f : Int → S → P → S
  /-- `backward` after its decrement: `g t` maps the state at `t+1` to the (reconstructed) state at `t` -/
  g : Int → S → P → S
  /-- Aᵀ: VJP of `forward_single_args_wrapper` at `(t, s, p)` w.r.t. the state -/
  vjpS : Int → S → P → CS → CS
  /-- Bᵀ: VJP of `forward_single_args_wrapper` at `(t, s, p)` w.r.t. the parameters -/
  vjpP : Int → S → P → CS → CP
  addP : CP → CP → CP
  getF : S → F
  setF : S → F → S

variable {S F P CS CP : Type}

/-- VJP of one forward step `(s, p) ↦ (f t s p, p)` applied to the carried cotangent `(cs, cp)` -/
def stepVjp (sys : Sys S F P CS CP) (t : Int) (s : S) (p : P) (c : CS × CP) : CS × CP :=
  (sys.vjpS t s p c.1, sys.addP c.2 (sys.vjpP t s p c.1))

/-- the true forward trajectory: `traj n` is the state at time step `n` -/
def traj (sys : Sys S F P CS CP) (p : P) (s0 : S) : Nat → S
  | 0 => s0
  | n + 1 => sys.f (n : Int) (traj sys p s0 n) p

/-- exact reverse-mode accumulation over the stored trajectory: the VJPs of steps `T-1, T-2, …, 0`
applied in this order to the incoming cotangent -/
def exactBwd (sys : Sys S F P CS CP) (p : P) (s0 : S) : Nat → CS × CP → CS × CP
  | 0, c => c
  | T + 1, c => exactBwd sys p s0 T (stepVjp sys (T : Int) (traj sys p s0 T) p c)

/-- gradient w.r.t. the parameters by exact autodiff -/
def gradExact (sys : Sys S F P CS CP) (p : P) (s0 : S) (T : Nat) (cs : CS) (cp0 : CP) : CP :=
  (exactBwd sys p s0 T (cs, cp0)).2

/-! ### generic loops -/

/-- `eqxi.while_loop(cond, body, init)` with an iteration bound -/
def whileFuel {σ : Type} (cond : σ → Bool) (body : σ → σ) : Nat → σ → σ
  | 0, x => x
  | n + 1, x => if cond x then whileFuel cond body n (body x) else x

/-! ### forward pass with checkpoints (`segmented_forward`, `fdtd_fwd`) -/

/-- one slice: `while hi > time_step` with `max_steps` as fuel -/
def fwdLoop (sys : Sys S F P CS CP) (p : P) (hi : Int) (maxSteps : Nat) (st : Int × S) : Int × S :=
  whileFuel (fun x => decide (hi > x.1)) (fun x => (x.1 + 1, sys.f x.1 x.2 p)) maxSteps st

/-- `segmented_forward` for the boundary list `b = [s_0, …, s_k]` -/
def segmentedForward (sys : Sys S F P CS CP) (p : P) (b : List Nat) (s0 : S) : (Int × S) × List F :=
  let k := b.length - 1
  (List.range k).foldl (fun (acc : (Int × S) × List F) seg =>
      let hi := b.getD (seg + 1) 0
      let lo := b.getD seg 0
      let st := fwdLoop sys p (hi : Int) (hi - lo) acc.1
      (st, if seg + 1 < k then acc.2 ++ [sys.getF st.2] else acc.2))
    (((0 : Int), s0), [])

/-! ### backward pass (`fdtd_bwd`) -/

inductive Ev where
  | bwd (t : Int)   -- `backward` entered with this time step (it decrements first)
  | vjp (t : Int)   -- `jax.vjp(forward_single_args_wrapper)` taken at this time step
  deriving DecidableEq, Repr

structure Carry (S CS CP : Type) where
  t : Int
  s : S
  cs : CS
  cp : CP
  log : List Ev

/-- the `for ckpt_fields, s_i in zip(checkpoints, checkpoint_times)` chain of `lax.cond`s -/
def applyCheckpoints (sys : Sys S F P CS CP) (cks : List (Int × F)) (t : Int) (s : S) : S :=
  cks.foldl (fun s ck => if t = ck.1 then sys.setF s ck.2 else s) s

/-- `body_fn` -/
def bodyFn (sys : Sys S F P CS CP) (p : P) (c : Carry S CS CP) : Carry S CS CP :=
  let t' := c.t - 1
  let s' := sys.g t' c.s p
  { t := t', s := s',
    cs := sys.vjpS t' s' p c.cs,
    cp := sys.addP c.cp (sys.vjpP t' s' p c.cs),
    log := c.log ++ [Ev.bwd c.t, Ev.vjp t'] }

/-- `reverse_body` (equal to `body_fn` when there are no checkpoints) -/
def reverseBody (sys : Sys S F P CS CP) (p : P) (cks : List (Int × F)) (c : Carry S CS CP) : Carry S CS CP :=
  bodyFn sys p { c with s := applyCheckpoints sys cks c.t c.s }

/-- `cond_fun(start_time_step = 0)` after the fix -/
def condFixed (c : Carry S CS CP) : Bool := decide (c.t > 0)

def fdtdBwdWith (cond : Carry S CS CP → Bool) (sys : Sys S F P CS CP) (p : P) (cks : List (Int × F))
    (init : Carry S CS CP) : Carry S CS CP :=
  whileFuel cond (reverseBody sys p cks) (init.t + 2).toNat init

/-- the reverse loop of `fdtd_bwd` -/
def fdtdBwd (sys : Sys S F P CS CP) (p : P) (cks : List (Int × F)) (init : Carry S CS CP) : Carry S CS CP :=
  fdtdBwdWith condFixed sys p cks init

/-- time steps at which the per-step VJP was taken, in order -/
def stepsVisited (c : Carry S CS CP) : List Int :=
  c.log.filterMap (fun e => match e with | Ev.vjp t => some t | _ => none)

/-- `jax.grad` through `reversible_fdtd`: forward with checkpoints, then the reverse loop; the
result is the parameter cotangent (`cot[5]`, `cot[6]`) -/
def gradReversibleWith (cond : Carry S CS CP → Bool) (sys : Sys S F P CS CP) (p : P) (s0 : S) (T k : Nat)
    (cs : CS) (cp0 : CP) : CP :=
  let b := sliceBoundaries T k
  let r := segmentedForward sys p b s0
  let cks := (checkpointTimes T k).map (fun (n : Nat) => (n : Int)) |>.zip r.2
  (fdtdBwdWith cond sys p cks { t := r.1.1, s := r.1.2, cs := cs, cp := cp0, log := [] }).cp

def gradReversible (sys : Sys S F P CS CP) (p : P) (s0 : S) (T k : Nat) (cs : CS) (cp0 : CP) : CP :=
  gradReversibleWith condFixed sys p s0 T k cs cp0

/-! ### behaviour of the pinned tree before the fix -/
namespace AsFound

/-- `cond_fun` as found: `time_step >= start_time_step`, although the body decrements first -/
def cond (c : Carry S CS CP) : Bool := decide (c.t ≥ 0)

def fdtdBwd (sys : Sys S F P CS CP) (p : P) (cks : List (Int × F)) (init : Carry S CS CP) : Carry S CS CP :=
  fdtdBwdWith cond sys p cks init

def gradReversible (sys : Sys S F P CS CP) (p : P) (s0 : S) (T k : Nat) (cs : CS) (cp0 : CP) : CP :=
  gradReversibleWith cond sys p s0 T k cs cp0

end AsFound

/-! ### schedule on the trivial system (states carry no data) -/

def unitSys : Sys Unit Unit Unit Unit Unit :=
  { f := fun _ _ _ => (), g := fun _ _ _ => (), vjpS := fun _ _ _ _ => (), vjpP := fun _ _ _ _ => (),
    addP := fun _ _ => (), getF := fun _ => (), setF := fun _ _ => () }

def unitInit (T : Nat) : Carry Unit Unit Unit := { t := T, s := (), cs := (), cp := (), log := [] }

def fdtdBwd_fixed (T : Nat) : Carry Unit Unit Unit := fdtdBwd unitSys () [] (unitInit T)
def fdtdBwd_asFound (T : Nat) : Carry Unit Unit Unit := AsFound.fdtdBwd unitSys () [] (unitInit T)

/-! ### a concrete toy system: 1-D periodic leapfrog with a source scaled by the parameter

  e'_i = e_i + p_i (h_i − h_{i−1}) + p_i src_i(t)          src_i(t) = (t+2)(i+1)
  h'_i = h_i + cH (e'_{i+1} − e'_i)
  det'  = det with slot t := Σ_i e'_i
  reverse step: exact inverse of the two field updates, plus a deliberate defect `dlt · e'_i` on `e`
  (`dlt = 0`: exact inverse), detector states untouched (`record_detectors=False`).
-/
namespace Toy

structure St (α : Type) where
  e : List α
  h : List α
  det : List α
  deriving Repr, DecidableEq

variable {α : Type} [Add α] [Sub α] [Mul α] [OfNat α 0]

/-- periodic read -/
def pget (l : List α) (i : Int) : α := l.getD (i % (l.length : Int)).toNat 0

def tab (n : Nat) (fn : Int → α) : List α := (List.range n).map (fun (i : Nat) => fn (Int.ofNat i))

def sumL (l : List α) : α := l.foldl (· + ·) 0

def src (cast : Int → α) (t i : Int) : α := cast ((t + 2) * (i + 1))

def setSlot (l : List α) (t : Int) (v : α) : List α :=
  (List.range l.length).map (fun (j : Nat) => if Int.ofNat j = t then v else l.getD j 0)

def fwd (cast : Int → α) (cH : α) (t : Int) (s : St α) (p : List α) : St α :=
  let n := s.e.length
  let e' := tab n (fun i => pget s.e i + pget p i * (pget s.h i - pget s.h (i - 1)) + pget p i * src cast t i)
  let h' := tab n (fun i => pget s.h i + cH * (pget e' (i + 1) - pget e' i))
  { e := e', h := h', det := setSlot s.det t (sumL e') }

def bwd (cast : Int → α) (cH dlt : α) (t : Int) (s : St α) (p : List α) : St α :=
  let n := s.e.length
  let h := tab n (fun i => pget s.h i - cH * (pget s.e (i + 1) - pget s.e i))
  let e := tab n (fun i => pget s.e i - pget p i * (pget h i - pget h (i - 1)) - pget p i * src cast t i
                            + dlt * pget s.e i)
  { e := e, h := h, det := s.det }

/-- total cotangent arriving at `e'` -/
def ehat (cH : α) (t : Int) (c : St α) : List α :=
  let n := c.e.length
  let cd : α := if 0 ≤ t ∧ t < (c.det.length : Int) then c.det.getD t.toNat 0 else 0
  tab n (fun i => pget c.e i + cH * (pget c.h (i - 1) - pget c.h i) + cd)

def vjpS (cH : α) (t : Int) (_s : St α) (p : List α) (c : St α) : St α :=
  let n := c.e.length
  let eh := ehat cH t c
  { e := eh,
    h := tab n (fun i => pget c.h i + pget p i * pget eh i - pget p (i + 1) * pget eh (i + 1)),
    det := setSlot c.det t 0 }

def vjpP (cast : Int → α) (cH : α) (t : Int) (s : St α) (_p : List α) (c : St α) : List α :=
  let n := c.e.length
  let eh := ehat cH t c
  tab n (fun i => pget eh i * (pget s.h i - pget s.h (i - 1) + src cast t i))

def addL (a b : List α) : List α := tab a.length (fun i => pget a i + pget b i)

def sys (cast : Int → α) (cH dlt : α) : Sys (St α) (List α × List α) (List α) (St α) (List α) :=
  { f := fwd cast cH, g := bwd cast cH dlt, vjpS := vjpS cH, vjpP := vjpP cast cH, addP := addL,
    getF := fun s => (s.e, s.h), setF := fun s f => { s with e := f.1, h := f.2 } }

def zeros (n : Nat) : List α := tab n (fun _ => 0)

def init (n T : Nat) : St α := { e := zeros n, h := zeros n, det := zeros T }

end Toy

/-! ### Driver -/
open Proto

def showEv : Ev → String
  | Ev.bwd t => s!"b{t}"
  | Ev.vjp t => s!"v{t}"

def variantCond (v : String) : Option (Carry S CS CP → Bool) :=
  if v = "fixed" then some condFixed else if v = "asfound" then some AsFound.cond else none

/-- ops:
  `bounds T k`                         → slice boundaries `s_0 … s_k` (k = number of slices ≥ 1)
  `sched fixed|asfound T k`            → `<checkpoint times> | <events of the reverse loop>` on the trivial system
  `toy fixed|asfound n T k cH dlt p_0…p_{n-1} ce_0… ch_0… cd_0…cd_{T-1}`
                                       → `gradReversible` of the toy system (binary64), then `|`, then `gradExact`
-/
def handle : List String → String
  | ["bounds", T, k] =>
    match natsOf [T, k] with
    | some [T, k] => if k = 0 then "error" else showNats (sliceBoundaries T k)
    | _ => "bad-op"
  | ["sched", v, T, k] =>
    match natsOf [T, k], variantCond (S := Unit) (CS := Unit) (CP := Unit) v with
    | some [T, k], some cond =>
      if k = 0 ∨ (k > 1 ∧ k > T) then "error" else
      let cks := (checkpointTimes T k).map (fun (n : Nat) => ((n : Int), ()))
      let r := fdtdBwdWith cond unitSys () cks (unitInit T)
      s!"{showNats (checkpointTimes T k)} | {joinSp (r.log.map showEv)}"
    | _, _ => "bad-op"
  | "toy" :: v :: n :: T :: k :: rest =>
    match natsOf [n, T, k], floatsOfHex rest, variantCond (S := Toy.St Float) (CS := Toy.St Float) (CP := List Float) v with
    | some [n, T, k], some xs, some cond =>
      if k = 0 ∨ (k > 1 ∧ k > T) ∨ n = 0 ∨ xs.length ≠ 2 + 3 * n + T then "error" else
      let cH := xs.getD 0 0.0
      let dlt := xs.getD 1 0.0
      let xs := xs.drop 2
      let p := xs.take n
      let ce := (xs.drop n).take n
      let ch := (xs.drop (2 * n)).take n
      let cd := xs.drop (3 * n)
      let sy := Toy.sys Float.ofInt cH dlt
      let s0 : Toy.St Float := Toy.init n T
      let cot : Toy.St Float := { e := ce, h := ch, det := cd }
      let gr := gradReversibleWith cond sy p s0 T k cot (Toy.zeros n)
      let gx := gradExact sy p s0 T cot (Toy.zeros n)
      s!"{showFloats gr} | {showFloats gx}"
    | _, _, _ => "bad-op"
  | _ => "bad-op"

end Fdtdx.C04
