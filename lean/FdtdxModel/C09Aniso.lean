/-
C09 — tiling operations along x for the any-tier Yee step (`FdtdxModel/YeeAniso.lean`): tiled tensor fields, tiled
material tiers and tiled cell widths (for the spacing-weighted averages).  Definitions only; theorems in
`FdtdxProps/C09Aniso.lean`.
-/
import FdtdxModel.C09
import FdtdxModel.YeeAniso
namespace Fdtdx.C09
open Fdtdx.Yee Fdtdx.YeeAniso

/-- tiled scalar array without factor -/
def retileF {α : Type} (n : Nat) (f : F3 α) : F3 α := fun i j k => f (i % n) j k

/-- tiled tensor field -/
def retileT {α : Type} (n : Nat) (t : F3 (M3 α)) : F3 (M3 α) := fun i j k => t (i % n) j k

def tileTens {α : Type} (n : Nat) : Tens α → Tens α
  | .scalar a => .scalar a
  | .iso f => .iso (retileF n f)
  | .diag v => .diag ⟨retileF n v.x, retileF n v.y, retileF n v.z⟩
  | .full t => .full (retileT n t)

def tileMatAX {α : Type} (n : Nat) (m : MatA α) : MatA α where
  invEps := tileTens n m.invEps
  invMu := tileTens n m.invMu
  sigE := m.sigE.map (tileTens n)
  sigH := m.sigH.map (tileTens n)

/-- tiled cell widths of the x axis -/
def tileAWX {α : Type} (n : Nat) (w : AW α) : AW α := ⟨fun i => w.wx (i % n), w.wy, w.wz⟩

/-- supercell field of one component: copy q is the base array times `w q` -/
def tileF {α : Type} [Mul α] (n : Nat) (w : Nat → α) (S : F3 α) : F3 α := fun i j k => S (i % n) j k * w (i / n)

end Fdtdx.C09
