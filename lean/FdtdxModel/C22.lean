/-
C22 — model of `GaussianSmoothing2D._apply_smoothing` / `_create_gaussian_kernel`
(`fdtdx/objects/device/parameters/continuous.py`).

  rawKernel / kernelTotal / normKernel : `exp(-(x²+y²)/(2σ²))` on the `(6σ+1)²` grid, divided by its sum
  padRows   : the array after padding axis 0 with `pad_w = 3σ` copies of `padding_low_axis0` /
              `padding_high_axis0`, or of the first / last row when the option is `None`
  padded    : … after padding axis 1 with `pad_w` copies of the EXTENDED `padding_*_axis1` vector (its first /
              last entry repeated over the corner rows), or of the first / last column of the row-padded array
  conv      : `jax.scipy.signal.convolve(arr, kernel, mode="same")[pad_w:pad_w+nx, pad_w:pad_w+ny]`
              = Σ_a Σ_b padded[i + 2·pad_w − a][j + 2·pad_w − b] · kernel[a][b]   (the zero extension of mode
              "same" is never reached inside the cropped window)
  smooth    : the whole `_apply_smoothing` on the squeezed 2-D array
  verticalAxis : `x.shape.index(1)` (error when there is none)

Scalars are generic; `exp` and `cast : Nat → α` are parameters (driver: `Float.exp`, `Float.ofNat`).
The sums are left folds in index order; XLA's reduction / convolution order differs (round-off only).
-/
import FdtdxModel.Proto
namespace Fdtdx.C22

section generic
variable {α : Type} [Add α] [Mul α] [Div α] [Neg α] [OfNat α 0]

/-- `Σ_{i<n} f i`, folded from the left -/
def sumRange (n : Nat) (f : Nat → α) : α :=
  match n with
  | 0 => 0
  | n + 1 => sumRange n f + f n

/-- `x² + y²` of kernel entry `(a, b)` for centre `p` -/
def dist2 (p a b : Nat) : Nat :=
  ((a : Int) - p).natAbs ^ 2 + ((b : Int) - p).natAbs ^ 2

/-- unnormalised Gaussian table -/
def rawKernel (exp : α → α) (cast : Nat → α) (sigma a b : Nat) : α :=
  exp (-(cast (dist2 (3 * sigma) a b)) / cast (2 * sigma ^ 2))

/-- `jnp.sum(kernel)` -/
def kernelTotal (exp : α → α) (cast : Nat → α) (sigma : Nat) : α :=
  sumRange (6 * sigma + 1) fun a => sumRange (6 * sigma + 1) fun b => rawKernel exp cast sigma a b

/-- the normalised kernel -/
def normKernel (exp : α → α) (cast : Nat → α) (sigma a b : Nat) : α :=
  rawKernel exp cast sigma a b / kernelTotal exp cast sigma

/-- the four optional padding vectors -/
structure Pads (α : Type) where
  lo0 : Option (Nat → α)   -- padding_low_axis0  (length ny)
  hi0 : Option (Nat → α)   -- padding_high_axis0 (length ny)
  lo1 : Option (Nat → α)   -- padding_low_axis1  (length nx)
  hi1 : Option (Nat → α)   -- padding_high_axis1 (length nx)

/-- array after the axis-0 padding: rows `0 … nx+2p-1`, columns `0 … ny-1` -/
def padRows (p nx : Nat) (x : Nat → Nat → α) (P : Pads α) (r c : Nat) : α :=
  if r < p then (match P.lo0 with | some f => f c | none => x 0 c)
  else if r < p + nx then x (r - p) c
  else (match P.hi0 with | some f => f c | none => x (nx - 1) c)

/-- index into an axis-1 padding vector extended by its edge values over the corner rows -/
def extIdx (p nx r : Nat) : Nat := if r < p then 0 else if r < p + nx then r - p else nx - 1

/-- fully padded array: rows `0 … nx+2p-1`, columns `0 … ny+2p-1` -/
def padded (p nx ny : Nat) (x : Nat → Nat → α) (P : Pads α) (r c : Nat) : α :=
  if c < p then (match P.lo1 with | some f => f (extIdx p nx r) | none => padRows p nx x P r 0)
  else if c < p + ny then padRows p nx x P r (c - p)
  else (match P.hi1 with | some f => f (extIdx p nx r) | none => padRows p nx x P r (ny - 1))

/-- cropped "same" convolution of a padded array `A` with a `(2p+1)²` kernel -/
def conv (p : Nat) (k : Nat → Nat → α) (A : Nat → Nat → α) (i j : Nat) : α :=
  sumRange (2 * p + 1) fun a => sumRange (2 * p + 1) fun b => A (i + 2 * p - a) (j + 2 * p - b) * k a b

/-- `_apply_smoothing` with an arbitrary kernel table of half-width `p` -/
def smoothWith (p : Nat) (k : Nat → Nat → α) (nx ny : Nat) (x : Nat → Nat → α) (P : Pads α) (i j : Nat) : α :=
  conv p k (padded p nx ny x P) i j

/-- `_apply_smoothing` -/
def smooth (exp : α → α) (cast : Nat → α) (sigma nx ny : Nat) (x : Nat → Nat → α) (P : Pads α) (i j : Nat) : α :=
  smoothWith (3 * sigma) (normKernel exp cast sigma) nx ny x P i j

end generic

/-- `x.shape.index(1)` -/
def verticalAxis (s : List Nat) : Option Nat :=
  match s with
  | [a, b, c] => if a = 1 then some 0 else if b = 1 then some 1 else if c = 1 then some 2 else none
  | _ => none

/-! ### Driver -/
open Proto

private def vecOf (l : List Float) : Nat → Float :=
  let a := l.toArray
  fun i => a.getD i 0.0

/-- ops:
  `smooth sigma nx ny f0 f1 f2 f3 <x row major> <lo0 if f0> <hi0 if f1> <lo1 if f2> <hi1 if f3>` → smoothed values
  `kernel sigma` → normalised kernel table (row major)
  `axis a b c` → vertical axis or `error`
-/
def handle : List String → String
  | "smooth" :: sigma :: nx :: ny :: f0 :: f1 :: f2 :: f3 :: vs =>
    match natsOf [sigma, nx, ny, f0, f1, f2, f3], floatsOfHex vs with
    | some [sigma, nx, ny, f0, f1, f2, f3], some vs =>
      if f0 > 1 ∨ f1 > 1 ∨ f2 > 1 ∨ f3 > 1 then "bad-op" else
      if vs.length ≠ nx * ny + (f0 + f1) * ny + (f2 + f3) * nx then "bad-op" else
      if nx = 0 ∨ ny = 0 then "error" else
      let xs := vs.take (nx * ny)
      let r1 := vs.drop (nx * ny)
      let l0 := r1.take (f0 * ny); let r2 := r1.drop (f0 * ny)
      let h0 := r2.take (f1 * ny); let r3 := r2.drop (f1 * ny)
      let l1 := r3.take (f2 * nx); let r4 := r3.drop (f2 * nx)
      let h1 := r4.take (f3 * nx)
      let arr := xs.toArray
      let x : Nat → Nat → Float := fun i j => arr.getD (i * ny + j) 0.0
      let opt (f : Nat) (l : List Float) : Option (Nat → Float) := if f = 1 then some (vecOf l) else none
      let P : Pads Float := ⟨opt f0 l0, opt f1 h0, opt f2 l1, opt f3 h1⟩
      -- tabulate the kernel once
      let K := 6 * sigma + 1
      let tab := ((List.range K).flatMap fun a => (List.range K).map fun b => normKernel Float.exp Float.ofNat sigma a b).toArray
      let k : Nat → Nat → Float := fun a b => tab.getD (a * K + b) 0.0
      let f := smoothWith (3 * sigma) k nx ny x P
      showFloats ((List.range nx).flatMap fun i => (List.range ny).map fun j => f i j)
    | _, _ => "bad-op"
  | ["kernel", sigma] =>
    match parseNat sigma with
    | some sigma =>
      let K := 6 * sigma + 1
      showFloats ((List.range K).flatMap fun a => (List.range K).map fun b => normKernel Float.exp Float.ofNat sigma a b)
    | none => "bad-op"
  | ["axis", a, b, c] =>
    match natsOf [a, b, c] with
    | some s => match verticalAxis s with
      | some v => toString v
      | none => "error"
    | none => "bad-op"
  | _ => "bad-op"

end Fdtdx.C22
