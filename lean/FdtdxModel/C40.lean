/-
C40 — model of `TreeClass.aset` and `TreeClass._parse_operations` (`fdtdx/core/jax/pytrees.py`).

Mirrors
  `_parse_operations`  : `parseOps` — the character loop: optional `->` separator, `[...]` brackets with
                         `.strip()`ed content (integer, possibly negative → index; `'...'` → key; forbidden
                         characters), otherwise an attribute name up to the next `->` checked with
                         `str.isidentifier()`.  ASCII only (the generator only produces ASCII).
  `aset`               : `asetHeap` on a heap `Addr → Node` of objects (TreeClass instances: class id + `vars`),
                         lists, tuples, dicts (string or integer keys) and atoms.
      descent loop  → `descend`  (hasattr / `__getitem__` / `in`; a missing attribute or string key is accepted
                                  only for the last operation and only with `create_new_ok`)
      rebuild loop  → `setChild` (`.at["_aset"]` on a copy of the object, `copy()` + `__setitem__` for
                                  lists/dicts; tuples and atoms have no `__setitem__`)
Simplifications (stated, tied by K):
  * the two loops are fused into one recursion over the path: both loops are pure, the call fails iff any step of
    either fails, and failures are not distinguished (K compares ok/error only);
  * `.at["_aset"]` copies the object with `tree_copy` (a deep copy of nested containers); the model allocates one
    fresh node per path element and shares the siblings — indistinguishable through `deref`;
  * `hasattr` is true only for instance attributes (`vars`); methods/properties/dunders of the class are not
    modelled (the generator never uses such names); numpy arrays (which have `copy`/`__setitem__`) are atoms.
Everything is generic in the child type `β` (`Addr` for heap cells, `Tree` for the pure specification) so that the
same `descend`/`setChild` define both the implementation model and the specification of the theorems.
-/
import FdtdxModel.Proto
namespace Fdtdx.C40

inductive Key where
  | s (k : String)
  | i (k : Int)
  deriving DecidableEq, Repr

inductive Op where
  | attr (n : String)
  | idx (i : Int)
  | key (k : String)
  deriving DecidableEq, Repr

/-- one Python object; `β` is the type of references to children -/
inductive NodeF (β : Type) where
  | leaf (v : String)                          -- atom (int, str, None, array …), opaque
  | obj (cls : Nat) (fs : List (String × β))   -- TreeClass instance: class, `vars` in order
  | list (xs : List β)
  | tuple (xs : List β)
  | dict (es : List (Key × β))
  deriving Repr, DecidableEq

def NodeF.map {β γ : Type} (g : β → γ) : NodeF β → NodeF γ
  | .leaf v => .leaf v
  | .obj c fs => .obj c (fs.map fun p => (p.1, g p.2))
  | .list xs => .list (xs.map g)
  | .tuple xs => .tuple (xs.map g)
  | .dict es => .dict (es.map fun p => (p.1, g p.2))

/-- the children of a node, in order -/
def NodeF.kids {β : Type} : NodeF β → List β
  | .leaf _ => []
  | .obj _ fs => fs.map (·.2)
  | .list xs => xs
  | .tuple xs => xs
  | .dict es => es.map (·.2)

/-- constructor tag + class: what `type(x)` sees -/
def NodeF.ctor {β : Type} : NodeF β → Nat × Nat
  | .leaf _ => (0, 0)
  | .obj c _ => (1, c)
  | .list _ => (2, 0)
  | .tuple _ => (3, 0)
  | .dict _ => (4, 0)

/-! ### association lists (Python dict / `vars`) -/

def assocGet {κ β : Type} [DecidableEq κ] : List (κ × β) → κ → Option β
  | [], _ => none
  | (k', b) :: rest, k => if k' = k then some b else assocGet rest k

/-- `d[k] = b`: replace in place when present, append otherwise -/
def assocSet {κ β : Type} [DecidableEq κ] : List (κ × β) → κ → β → List (κ × β)
  | [], k, b => [(k, b)]
  | (k', b') :: rest, k, b => if k' = k then (k', b) :: rest else (k', b') :: assocSet rest k b

/-- Python sequence index: `-len ≤ i < len`, negative counts from the end -/
def pyIndex (len : Nat) (i : Int) : Option Nat :=
  if 0 ≤ i ∧ i < len then some i.toNat
  else if i < 0 ∧ -(len : Int) ≤ i then some (i + len).toNat
  else none

/-- result of one step of the descent loop -/
inductive Res (β : Type) where
  | child (b : β)   -- existing child
  | fresh           -- missing, will be created (last op, create_new_ok)
  | err
  deriving Repr

def Res.map {β γ : Type} (g : β → γ) : Res β → Res γ
  | .child b => .child (g b)
  | .fresh => .fresh
  | .err => .err

/-- one step of the descent loop of `aset` -/
def descend {β : Type} (n : NodeF β) (op : Op) (mayCreate : Bool) : Res β :=
  match n, op with
  | .obj _ fs, .attr nm =>
    match assocGet fs nm with
    | some b => .child b
    | none => if mayCreate then .fresh else .err
  | .list xs, .idx i =>
    match pyIndex xs.length i with
    | some j => match xs[j]? with | some b => .child b | none => .err
    | none => .err
  | .tuple xs, .idx i =>
    match pyIndex xs.length i with
    | some j => match xs[j]? with | some b => .child b | none => .err
    | none => .err
  | .dict es, .idx i =>
    match assocGet es (Key.i i) with
    | some b => .child b
    | none => .err
  | .dict es, .key k =>
    match assocGet es (Key.s k) with
    | some b => .child b
    | none => if mayCreate then .fresh else .err
  | _, _ => .err

/-- one step of the rebuild loop of `aset`: a copy of the node with the child under `op` replaced -/
def setChild {β : Type} (n : NodeF β) (op : Op) (b : β) : Option (NodeF β) :=
  match n, op with
  | .obj c fs, .attr nm => some (.obj c (assocSet fs nm b))
  | .list xs, .idx i => (pyIndex xs.length i).map fun j => .list (xs.set j b)
  | .dict es, .idx i => some (.dict (assocSet es (Key.i i) b))
  | .dict es, .key k => some (.dict (assocSet es (Key.s k) b))
  | _, _ => none

/-! ### heap -/

abbrev Addr := Nat
abbrev Node := NodeF Addr

structure Heap where
  cells : List Node
  deriving Repr, DecidableEq

def Heap.size (h : Heap) : Nat := h.cells.length
/-- dangling addresses read as an atom (every operation on an atom fails) -/
def Heap.node (h : Heap) (a : Addr) : Node := h.cells.getD a (.leaf "")
def Heap.alloc (h : Heap) (n : Node) : Heap × Addr := (⟨h.cells ++ [n]⟩, h.cells.length)

/-- `TreeClass.aset`: returns the extended heap and the address of the new root; `none` = an exception -/
def asetHeap (h : Heap) (v : Addr) (create : Bool) : List Op → Addr → Option (Heap × Addr)
  | [], _ => none
  | [op], a =>
    match descend (h.node a) op create with
    | .err => none
    | _ => (setChild (h.node a) op v).map h.alloc
  | op :: op2 :: rest, a =>
    match descend (h.node a) op false with
    | .child c =>
      match asetHeap h v create (op2 :: rest) c with
      | some (h1, c') => (setChild (h.node a) op c').map h1.alloc
      | none => none
    | _ => none

/-! ### `_parse_operations` -/

def isSpace (c : Char) : Bool := (9 ≤ c.toNat && c.toNat ≤ 13) || (28 ≤ c.toNat && c.toNat ≤ 32)
def isDigitC (c : Char) : Bool := '0' ≤ c && c ≤ '9'
def isAlphaU (c : Char) : Bool := ('a' ≤ c && c ≤ 'z') || ('A' ≤ c && c ≤ 'Z') || c = '_'

def stripL : List Char → List Char
  | c :: cs => if isSpace c then stripL cs else c :: cs
  | [] => []
def strip (cs : List Char) : List Char := (stripL (stripL cs).reverse).reverse

/-- `str.isdigit()` (ASCII) -/
def allDigits (cs : List Char) : Bool := !cs.isEmpty && cs.all isDigitC
def digitsVal (cs : List Char) : Nat := cs.foldl (fun acc c => acc * 10 + (c.toNat - '0'.toNat)) 0
/-- `str.isidentifier()` (ASCII) -/
def isIdent : List Char → Bool
  | [] => false
  | c :: cs => isAlphaU c && cs.all (fun d => isAlphaU d || isDigitC d)

/-- split at the first occurrence of `->` (not consumed) -/
def untilArrow : List Char → List Char × List Char
  | [] => ([], [])
  | '-' :: '>' :: rest => ([], '-' :: '>' :: rest)
  | c :: rest => let (a, b) := untilArrow rest; (c :: a, b)

/-- content of a bracket after `.strip()` → operation -/
def bracketOp (bc : List Char) : Option Op :=
  if allDigits bc then some (.idx (digitsVal bc))
  else match bc with
    | '-' :: ds => if allDigits ds then some (.idx (-(digitsVal ds : Int))) else
        -- a string starting with '-' cannot start with a quote
        none
    | '\'' :: _ =>
      if bc.getLast? = some '\'' then
        if bc.length < 2 then none else
        let sc := (bc.drop 1).dropLast
        if sc.contains '\'' then none
        else if sc.contains '[' || sc.contains ']' then none
        else some (.key (String.ofList sc))
      else none
    | _ => none

/-- the `->` separator expected before every operation but the first (`i > 0` in the code) -/
def sep (first : Bool) (cs : List Char) : Option (List Char) :=
  if first then some cs else
  match cs with
  | '-' :: '>' :: rest => if rest.isEmpty then none else some rest
  | _ => none

/-- one operation at the head of the remaining characters: a bracket (`[...]`) or an attribute name up to the next `->` -/
def stepOp : List Char → Option (Op × List Char)
  | [] => none
  | '[' :: rest =>
    let content := rest.takeWhile (· ≠ ']')
    let after := rest.dropWhile (· ≠ ']')
    match after with
    | [] => none
    | _ :: after' => (bracketOp (strip content)).map fun op => (op, after')
  | cs' =>
    let (name, rest) := untilArrow cs'
    if name.isEmpty then none
    else if !isIdent name then none
    else some (.attr (String.ofList name), rest)

/-- the `while i < len(s)` loop -/
def parseLoop : Nat → Bool → List Char → List Op → Option (List Op)
  | 0, _, _, _ => none
  | fuel + 1, first, cs, acc =>
    if !first && cs.isEmpty then some acc.reverse else
    match sep first cs with
    | none => none
    | some cs' =>
      match stepOp cs' with
      | none => none
      | some (op, rest) => parseLoop fuel false rest (op :: acc)

/-- `_parse_operations` on the characters of the path -/
def parseChars (cs : List Char) : Option (List Op) :=
  if cs.isEmpty then none else parseLoop (cs.length + 2) true cs []

def parseOps (s : String) : Option (List Op) := parseChars s.toList

/-! ### rendering a list of operations as a path (the syntax of the docstring: `a->b->[0]->['name']`) -/

def digitChar (d : Nat) : Char := Char.ofNat (48 + d)

/-- decimal digits of a natural number, most significant first -/
def natDigits (n : Nat) : List Char :=
  if n < 10 then [digitChar n] else natDigits (n / 10) ++ [digitChar (n % 10)]
termination_by n
decreasing_by omega

def intChars (i : Int) : List Char :=
  if i < 0 then '-' :: natDigits i.natAbs else natDigits i.toNat

def renderOp : Op → List Char
  | .attr n => n.toList
  | .idx i => '[' :: intChars i ++ [']']
  | .key k => '[' :: '\'' :: k.toList ++ ['\'', ']']

/-- the operations after the first one, each preceded by the separator -/
def renderTail : List Op → List Char
  | [] => []
  | op :: rest => '-' :: '>' :: renderOp op ++ renderTail rest

def renderChars : List Op → List Char
  | [] => []
  | op :: rest => renderOp op ++ renderTail rest

def renderPath (ops : List Op) : String := String.ofList (renderChars ops)

/-- the operations the parser can express: an attribute name must be an (ASCII) identifier — in particular it contains
no `-`, `>`, `[`, blank —, a key must not contain `'`, `[` or `]` (anything else, also `->`, blanks, the empty key, is
fine), an index is any integer -/
def wfOp : Op → Bool
  | .attr n => isIdent n.toList
  | .idx _ => true
  | .key k => k.toList.all fun c => !(c == '\'' || c == '[' || c == ']')

/-! ### Driver (protocol glue; not used by the theorems) -/
open Proto

def unhex (s : String) : Option String :=
  let cs := s.toList
  let rec go : List Char → List Char → Option (List Char)
    | [], acc => some acc.reverse
    | a :: b :: rest, acc =>
      match hexDigit a, hexDigit b with
      | some x, some y => go rest (Char.ofNat (x * 16 + y) :: acc)
      | _, _ => none
    | _, _ => none
  (go cs []).map String.ofList

def hexStr (s : String) : String :=
  String.ofList (s.toList.flatMap fun c => [hexChar (c.toNat / 16 % 16), hexChar (c.toNat % 16)])

/-- token `x<hex>` → string -/
def nameOf (t : String) : Option String :=
  match t.toList with
  | 'x' :: rest => unhex (String.ofList rest)
  | _ => none

def keyOf (t : String) : Option Key :=
  match t.toList with
  | 's' :: rest => (unhex (String.ofList rest)).map Key.s
  | 'i' :: rest => (String.ofList rest).toInt?.map Key.i
  | _ => none

def showKey : Key → String
  | .s k => "s" ++ hexStr k
  | .i k => "i" ++ toString k

/-- read one tree in prefix notation, allocating bottom-up (children get smaller addresses) -/
partial def readTree (toks : List String) (h : Heap) : Option (Addr × Heap × List String) :=
  let rec kids (n : Nat) (toks : List String) (h : Heap) (acc : List Addr) : Option (List Addr × Heap × List String) :=
    match n with
    | 0 => some (acc.reverse, h, toks)
    | n + 1 => match readTree toks h with
      | some (a, h, toks) => kids n toks h (a :: acc)
      | none => none
  let rec named {κ : Type} (rd : String → Option κ) (n : Nat) (toks : List String) (h : Heap) (acc : List (κ × Addr)) :
      Option (List (κ × Addr) × Heap × List String) :=
    match n, toks with
    | 0, toks => some (acc.reverse, h, toks)
    | n + 1, k :: toks => match rd k, readTree toks h with
      | some k, some (a, h, toks) => named rd n toks h ((k, a) :: acc)
      | _, _ => none
    | _, _ => none
  match toks with
  | "L" :: v :: rest => (nameOf v).map fun v => let (h, a) := h.alloc (.leaf v); (a, h, rest)
  | "A" :: n :: rest => do
    let n ← n.toNat?
    let (xs, h, rest) ← kids n rest h []
    let (h, a) := h.alloc (.list xs); pure (a, h, rest)
  | "T" :: n :: rest => do
    let n ← n.toNat?
    let (xs, h, rest) ← kids n rest h []
    let (h, a) := h.alloc (.tuple xs); pure (a, h, rest)
  | "O" :: c :: n :: rest => do
    let c ← c.toNat?
    let n ← n.toNat?
    let (fs, h, rest) ← named nameOf n rest h []
    let (h, a) := h.alloc (.obj c fs); pure (a, h, rest)
  | "D" :: n :: rest => do
    let n ← n.toNat?
    let (es, h, rest) ← named keyOf n rest h []
    let (h, a) := h.alloc (.dict es); pure (a, h, rest)
  | _ => none

/-- the value reachable from `a`, in the same prefix notation (fuel = address + 1 suffices on a well-formed heap) -/
def render (h : Heap) : Nat → Addr → List String
  | 0, _ => ["?"]
  | f + 1, a =>
    match h.node a with
    | .leaf v => ["L", "x" ++ hexStr v]
    | .obj c fs => ["O", toString c, toString fs.length] ++ fs.flatMap fun p => ("x" ++ hexStr p.1) :: render h f p.2
    | .list xs => ["A", toString xs.length] ++ xs.flatMap (render h f)
    | .tuple xs => ["T", toString xs.length] ++ xs.flatMap (render h f)
    | .dict es => ["D", toString es.length] ++ es.flatMap fun p => showKey p.1 :: render h f p.2

def showOp : Op → String
  | .attr n => "a" ++ hexStr n
  | .idx i => "i" ++ toString i
  | .key k => "k" ++ hexStr k

/-- ops:
  `parse <x‑hex path>`                               → `ok <ops…>` | `parse-error`
  `render <op>…`  (`a<hex>` | `i<int>` | `k<hex>`)   → `ok x<hex of the rendered path>` | `not-wf x<hex>` (rendered anyway)
  `aset <create 0|1> <x‑hex path> <root tree> <value tree>`
       → `parse-error` | `error` | `ok <#new cells> | <result tree> | <original tree after the call>` -/
def handle : List String → String
  | ["parse", p] =>
    match nameOf p with
    | some s => match parseOps s with
      | some ops => joinSp ("ok" :: ops.map showOp)
      | none => "parse-error"
    | none => "bad-op"
  | "render" :: toks =>
    let rd : String → Option Op := fun t =>
      match t.toList with
      | 'a' :: r => (unhex (String.ofList r)).map Op.attr
      | 'k' :: r => (unhex (String.ofList r)).map Op.key
      | 'i' :: r => (String.ofList r).toInt?.map Op.idx
      | _ => none
    match toks.mapM rd with
    | some ops => (if ops.all wfOp && !ops.isEmpty then "ok x" else "not-wf x") ++ hexStr (renderPath ops)
    | none => "bad-op"
  | "aset" :: c :: p :: rest =>
    match (if c = "0" then some false else if c = "1" then some true else none), nameOf p with
    | some create, some s =>
      match readTree rest ⟨[]⟩ with
      | some (root, h, rest) =>
        match readTree rest h with
        | some (v, h, []) =>
          match parseOps s with
          | none => "parse-error"
          | some ops =>
            match asetHeap h v create ops root with
            | none => "error"
            | some (h', r') =>
              joinSp (["ok", toString (h'.size - h.size), "|"] ++ render h' (r' + 1) r' ++ ["|"] ++ render h' (root + 1) root)
        | _ => "bad-op"
      | none => "bad-op"
    | _, _ => "bad-op"
  | _ => "bad-op"

end Fdtdx.C40
