/-
C01 — the discrete Yee energy of the shared Yee model (`FdtdxModel/Yee.lean`).

  Q(E,H) = Σ wE·ε·E² + Σ wH·μ·H² + c · Σ wH · H · curlE(E)

with staggered cell volumes  wE_x = w_x·d_y·d_z, wH_x = d_x·w_y·w_z (cyclic), `w` the primal cell widths and
`d` the dual widths.  For a state (E_n, H_{n+½}) produced by `forward`, the last two sums equal
Σ wH·μ·H_{n-½}·H_{n+½}: this is the property's "ε|E|² plus μ times the product of successive H half-steps"
written as a function of the current state only.  On a uniform grid w = d = 1.

The driver ops are those of `YeeIO` (`fwd`, `bwd`, `curlE`, `curlH`) plus `energy`.
-/
import FdtdxModel.YeeIO
namespace Fdtdx.C01
open Fdtdx.Yee

section
variable {α : Type} [Add α] [Sub α] [Mul α] [Div α] [OfNat α 0] [OfNat α 1] [OfNat α 2]

/-- Σ_{i<n} f i, by recursion (core only; equals the `Finset.range` sum, proved in FdtdxLemmas) -/
def sumTo (n : Nat) (f : Nat → α) : α :=
  match n with
  | 0 => 0
  | n + 1 => sumTo n f + f n

def sum3 (nx ny nz : Nat) (f : F3 α) : α :=
  sumTo nx fun i => sumTo ny fun j => sumTo nz fun k => f i j k

/-- primal (`w`) and dual (`d`) cell widths per axis -/
structure Widths (α : Type) where
  wx : Nat → α
  wy : Nat → α
  wz : Nat → α
  dx : Nat → α
  dy : Nat → α
  dz : Nat → α

/-- weighted pairing of an H-type field with another H-type field (face-centred volumes) -/
def pairH (cf : Cfg α) (W : Widths α) (A B : V3 α) : α :=
  sum3 cf.nx cf.ny cf.nz fun i j k =>
    W.dx i * W.wy j * W.wz k * (A.x i j k * B.x i j k)
    + W.wx i * W.dy j * W.wz k * (A.y i j k * B.y i j k)
    + W.wx i * W.wy j * W.dz k * (A.z i j k * B.z i j k)

/-- weighted pairing of two E-type fields (edge-centred volumes) -/
def pairE (cf : Cfg α) (W : Widths α) (A B : V3 α) : α :=
  sum3 cf.nx cf.ny cf.nz fun i j k =>
    W.wx i * W.dy j * W.dz k * (A.x i j k * B.x i j k)
    + W.dx i * W.wy j * W.dz k * (A.y i j k * B.y i j k)
    + W.dx i * W.dy j * W.wz k * (A.z i j k * B.z i j k)

def mulV (A B : V3 α) : V3 α where
  x := fun i j k => A.x i j k * B.x i j k
  y := fun i j k => A.y i j k * B.y i j k
  z := fun i j k => A.z i j k * B.z i j k

/-- the discrete energy; `eps`, `mu` are the (diagonal) permittivity / permeability -/
def energy (cf : Cfg α) (W : Widths α) (eps mu : V3 α) (E H : V3 α) : α :=
  pairE cf W (mulV eps E) E + pairH cf W (mulV mu H) H + cf.c * pairH cf W H (curlE cf E)

end

open Proto YeeIO in
/-- `energy r …request…` → Q of the request's (E,H) with ε = 1/invEps, μ = 1/invMu, on a uniform grid w = d = 1
(non-uniform requests are answered from the widths in the request: see `handle`). Real scalars only. -/
def energyOp (rest : List String) : String :=
  match (pReq (α := Float)).run rest with
  | none => "bad-op"
  | some (r, _) =>
    let inv (V : V3 Float) : V3 Float :=
      { x := fun i j k => 1 / V.x i j k, y := fun i j k => 1 / V.y i j k, z := fun i j k => 1 / V.z i j k }
    -- recover widths from the metric scales: w = ref / sf, d = ref / sb with ref = 1 (a common factor of Q)
    let W : Widths Float :=
      { wx := fun i => 1 / r.cf.sfx i, wy := fun j => 1 / r.cf.sfy j, wz := fun k => 1 / r.cf.sfz k,
        dx := fun i => 1 / r.cf.sbx i, dy := fun j => 1 / r.cf.sby j, dz := fun k => 1 / r.cf.sbz k }
    hexOfFloat (energy r.cf W (inv r.m.invEps) (inv r.m.invMu) r.E r.H)

def handle : List String → String
  | "energy" :: "r" :: rest => energyOp rest
  | toks => YeeIO.handleYee toks

end Fdtdx.C01
