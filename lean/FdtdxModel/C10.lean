/-
C10 — linearity.  The time step is the shared Yee model (`FdtdxModel/Yee.lean`); this file adds the vector-space
operations on fields used to state superposition and the detector record expressions whose degree is claimed:

  fdtdx/core/physics/metrics.py   compute_energy (isotropic / diagonal branch, real fields)   → `detEnergy`
                                  compute_poynting_flux (real fields: E × H)                  → `poynting`
  fdtdx/objects/detectors/field.py   FieldDetector.update: records the field values themselves (optionally the
                                  volume-weighted mean `_volume_weighted_spatial_mean`)       → `wmean`
  fdtdx/objects/boundaries/perfectly_matched_layer.py  step_cpml (one cell)                  → `cpmlStep`
  fdtdx/objects/detectors/phasor.py  PhasorDetector.update: state += EH · exp(iωt) · scale · window   → `phasorAcc`

A source is an additive term (`jE`, `jH` of `Yee.forward`); `static_amplitude_factor` multiplies that term
(tfsf.py `_tfsf_inject_*`: `get_amplitude(...) * static_amplitude_factor`; dipole.py: `scale = c * amplitude *
static_amplitude_factor * ...`) — checked on the real sources by the correspondence harness.

Driver ops: those of `YeeIO`, of `Cpml.handleCpml` (`pmlfwd`, …) and `afwd` of `YeeAnisoIO` (through `C10Ext.handleExt`), plus  `denergy r <request>` → N values, `poynting r <request>` → 3N values
(the request's E, H, invEps, invMu; everything else in the request is ignored), and
`cpml a b inv_kappa psi d sim kappaOne` → `corr psi_new` (one cell of `step_cpml`).
-/
import FdtdxModel.YeeIO
import FdtdxModel.C10Ext
namespace Fdtdx.C10
open Fdtdx.Yee

section
variable {α : Type} [Add α] [Sub α] [Mul α] [Div α] [OfNat α 0] [OfNat α 1] [OfNat α 2]

def smulV (a : α) (V : V3 α) : V3 α where
  x := fun i j k => a * V.x i j k
  y := fun i j k => a * V.y i j k
  z := fun i j k => a * V.z i j k

/-- `a • A + b • B` -/
def linV (a b : α) (A B : V3 α) : V3 α := addV (smulV a A) (smulV b B)

/-- `compute_energy`, diagonal branch: Σ_c ½·(1/inv_eps_c)·E_c² + Σ_c ½·(1/inv_mu_c)·H_c² at one cell -/
def detEnergy (ie im E H : V3 α) (i j k : Nat) : α :=
  (1 / 2 * (1 / ie.x i j k) * (E.x i j k * E.x i j k) + 1 / 2 * (1 / ie.y i j k) * (E.y i j k * E.y i j k)
      + 1 / 2 * (1 / ie.z i j k) * (E.z i j k * E.z i j k))
    + (1 / 2 * (1 / im.x i j k) * (H.x i j k * H.x i j k) + 1 / 2 * (1 / im.y i j k) * (H.y i j k * H.y i j k)
      + 1 / 2 * (1 / im.z i j k) * (H.z i j k * H.z i j k))

/-- `compute_poynting_flux` for real fields: E × H -/
def poynting (E H : V3 α) : V3 α where
  x := fun i j k => E.y i j k * H.z i j k - E.z i j k * H.y i j k
  y := fun i j k => E.z i j k * H.x i j k - E.x i j k * H.z i j k
  z := fun i j k => E.x i j k * H.y i j k - E.y i j k * H.x i j k

/-- Σ_{t<n} f t -/
def sumTo (n : Nat) (f : Nat → α) : α :=
  match n with
  | 0 => 0
  | n + 1 => sumTo n f + f n

/-- `_volume_weighted_spatial_mean` over an enumeration of the detector cells: Σ v·w / Σ w -/
def wmean (n : Nat) (w v : Nat → α) : α := sumTo n (fun t => v t * w t) / sumTo n w

/-- phasor state after `n` recorded steps: Σ_t obs t · (phase t · scale · window t); `ph t` is the whole weight -/
def phasorAcc (ph obs : Nat → α) (n : Nat) : α := sumTo n (fun t => obs t * ph t)

/-- `PerfectlyMatchedLayer.step_cpml` for one derivative `d` at one cell with auxiliary value `psi` and the cell's
coefficients `a`, `b`, `inv_kappa`: returns (correction added to the curl, new psi).  `sim` = simulate_boundaries,
`kappaOne` = the `kappa_start == kappa_end == 1` shortcut. -/
def cpmlStep (a b ik psi d : α) (sim kappaOne : Bool) : α × α :=
  let psiN := if sim then b * psi + a * d else psi
  (if kappaOne then psiN else (ik - 1) * d + psiN, psiN)

end

open Proto YeeIO in
def recordOp (op : String) (rest : List String) : String :=
  match (pReq (α := Float)).run rest with
  | none => "bad-op"
  | some (r, _) =>
    let nx := r.cf.nx; let ny := r.cf.ny; let nz := r.cf.nz
    if op == "denergy" then
      showFloats (tabulate nx ny nz (detEnergy r.m.invEps r.m.invMu r.E r.H)).data.toList
    else
      showFloats (flatten nx ny nz (poynting r.E r.H))

open Proto in
def cpmlOp : List String → String
  | [a, b, ik, psi, d, sim, kone] =>
    match floatsOfHex [a, b, ik, psi, d] with
    | some [a, b, ik, psi, d] =>
      if (sim == "0" || sim == "1") && (kone == "0" || kone == "1") then
        let r := cpmlStep a b ik psi d (sim == "1") (kone == "1")
        showFloats [r.1, r.2]
      else "bad-op"
    | _ => "bad-op"
  | _ => "bad-op"

def handle : List String → String
  | "cpml" :: rest => cpmlOp rest
  | "denergy" :: "r" :: rest => recordOp "denergy" rest
  | "poynting" :: "r" :: rest => recordOp "poynting" rest
  | toks =>
    -- `pmlfwd` … of the CPML model and `afwd` of the any-tier model (see C10Ext.handleExt), else the plain Yee ops
    match handleExt toks with
    | "bad-op" => YeeIO.handleYee toks
    | r => r

end Fdtdx.C10
