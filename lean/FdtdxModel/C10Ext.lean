/-
C10 — linear combinations of CPML states (fields + auxiliary psi arrays) for the linearity theorems about the full CPML
field loop (`FdtdxModel/Cpml.lean`: `forwardP` = `forward` with `PerfectlyMatchedLayer` objects).  The static data of a
layer (axis, box, coefficient arrays) is shared; only the four psi arrays are combined.  No new model of fdtdx code here:
`forwardP`, `curlEp`, `curlHp`, `stepCpml1` are those of `Cpml.lean` (tied to the code by the `pmlfwd` op, used by C03, C12
and by harness/c10.py), `forwardA` is that of `YeeAniso.lean` (`afwd` op).
-/
import FdtdxModel.Cpml
import FdtdxModel.YeeAnisoIO
namespace Fdtdx.C10
open Fdtdx.Yee Fdtdx.Cpml

section
variable {α : Type} [Add α] [Mul α]

def linF (a b : α) (f g : F3 α) : F3 α := fun i j k => a * f i j k + b * g i j k

/-- `a • s + b • t` on the psi arrays; the static layer data is that of `s` -/
def linSt (a b : α) (s t : PmlSt α) : PmlSt α :=
  { p := s.p, e1 := linF a b s.e1 t.e1, e2 := linF a b s.e2 t.e2, h1 := linF a b s.h1 t.h1, h2 := linF a b s.h2 t.h2 }

def linPmls (a b : α) (l1 l2 : List (PmlSt α)) : List (PmlSt α) := List.zipWith (linSt a b) l1 l2

end

/-- ops of `Cpml.handleCpml` (`pmlfwd`, …) and `afwd` of `YeeAnisoIO`, used by harness/c10.py and harness/c11.py to tie
`forwardP` / `forwardA` to the real `forward()` on the scenes of these properties -/
def handleExt (toks : List String) : String :=
  match toks with
  | "afwd" :: rest => YeeAnisoIO.handleAniso ("afwd" :: rest)
  | _ => Cpml.handleCpml toks

end Fdtdx.C10
