/-
C23 — model of the fabrication clean-up in
`fdtdx/objects/device/parameters/binary_transform.py` (after the two `fix:` commits recorded in
props/C23.findings.json):

  seperated_3d_dilation      : `step`   — three masked planar 4-neighbour dilations, in the order xy, xz, yz
                               (`convolve2d(mode="same", boundary="fill")` = zero outside the array)
  iterate_until_unchanged    : `fixFrom` — repeat `step` until the array does not change.  The real loop has no
                               bound; the model carries a fuel `cells + 2` that is proved never to run out
                               (FdtdxProps/C23.lean, `fixFrom_fixpoint`).
  compute_polymer_connection : `polymerConnection` (seed = whole bottom layer, NOT intersected with the matrix
                               — the first masked dilation does that; z = 1 is padded to 3 layers and the seed
                               sits in the middle layer; any other axis < 3 or z = 2 makes `convolve2d` raise)
  compute_air_connection     : `airConnection` (seed = top and the four side faces, intersected with the air)
  remove_floating_polymer    : `removeFloating`
  connect_slice              : `connectSlice` (its three in-slice floods still run `max(nx, ny)` rounds — as found)
  connect_holes_and_structures : `connectHoles`, including the out-of-range slice indices of the second loop
                               (`matrix[..., nz]` reads the clamped last layer, `.at[..., nz].set` is dropped)

`AsFound` keeps the behaviour of the pinned tree (`max(shape)` rounds; seed in the padding layer for z = 1)
for the machine-checked refutation witnesses.

Arrays are materialised between steps (`Tab`, nested arrays); `look` gives the function view used by the
theorems (`look (tab s f) i j k = inb s i j k && f i j k`).  Nothing here is simplified except that bool
arrays are compared cell by cell (`eqT`) instead of `jnp.any(new != old)`.
-/
import FdtdxModel.Proto
namespace Fdtdx.C23

abbrev Img := Nat → Nat → Nat → Bool

structure Shape where
  nx : Nat
  ny : Nat
  nz : Nat
  deriving Repr, DecidableEq

def inb (s : Shape) (i j k : Nat) : Bool := decide (i < s.nx) && decide (j < s.ny) && decide (k < s.nz)

def cells (s : Shape) : Nat := s.nx * s.ny * s.nz

abbrev Tab := Array (Array (Array Bool))

def row {α : Type} (n : Nat) (f : Nat → α) : Array α := ((List.range n).map f).toArray

/-- materialise a function on the index box of `s` -/
def tab (s : Shape) (f : Img) : Tab :=
  row s.nx fun i => row s.ny fun j => row s.nz fun k => f i j k

/-- function view of an array; `false` outside -/
def look (t : Tab) : Img := fun i j k => ((t.getD i #[]).getD j #[]).getD k false

def allCells (s : Shape) (p : Img) : Bool :=
  (List.range s.nx).all fun i => (List.range s.ny).all fun j => (List.range s.nz).all fun k => p i j k

/-- `not jnp.any(a != b)` -/
def eqT (s : Shape) (a b : Tab) : Bool := allCells s fun i j k => look a i j k == look b i j k

/-! ### planar 4-neighbour dilations (zero outside) -/

def dilXY (a : Img) : Img := fun i j k =>
  a i j k || (decide (0 < i) && a (i - 1) j k) || a (i + 1) j k || (decide (0 < j) && a i (j - 1) k) || a i (j + 1) k

def dilXZ (a : Img) : Img := fun i j k =>
  a i j k || (decide (0 < i) && a (i - 1) j k) || a (i + 1) j k || (decide (0 < k) && a i j (k - 1)) || a i j (k + 1)

def dilYZ (a : Img) : Img := fun i j k =>
  a i j k || (decide (0 < j) && a i (j - 1) k) || a i (j + 1) k || (decide (0 < k) && a i j (k - 1)) || a i j (k + 1)

/-- `seperated_3d_dilation(arr, n4, n4, n4, reduction_arr = m)` -/
def step (s : Shape) (m a : Tab) : Tab :=
  let a1 := tab s fun i j k => look m i j k && dilXY (look a) i j k
  let a2 := tab s fun i j k => look m i j k && dilXZ (look a1) i j k
  tab s fun i j k => look m i j k && dilYZ (look a2) i j k

/-- `jax.lax.fori_loop(0, n, body, a)` -/
def iterN (f : Tab → Tab) : Nat → Tab → Tab
  | 0, a => a
  | n + 1, a => iterN f n (f a)

/-- `iterate_until_unchanged`: returns the first `f a` that equals its argument -/
def fixFrom (s : Shape) (f : Tab → Tab) : Nat → Tab → Tab
  | 0, a => a
  | fuel + 1, a =>
    let b := f a
    if eqT s a b then b else fixFrom s f fuel b

def floodFix (s : Shape) (m seed : Tab) : Tab := fixFrom s (step s m) (cells s + 2) seed

def bottom (s : Shape) : Tab := tab s fun _ _ k => decide (k = 0)

/-- layer `kk` only -/
def layer (s : Shape) (kk : Nat) : Tab := tab s fun _ _ k => decide (k = kk)

def faces (s : Shape) : Img := fun i j k =>
  decide (k + 1 = s.nz) || decide (i = 0) || decide (i + 1 = s.nx) || decide (j = 0) || decide (j + 1 = s.ny)

/-- `convolve2d(image (a, b), kernel (3, 3))` raises "One input must be smaller than the other in every
dimension" unless the image is at least 3 in both axes or at most 3 in both axes -/
def mixed (a b : Nat) : Bool := !((decide (3 ≤ a) && decide (3 ≤ b)) || (decide (a ≤ 3) && decide (b ≤ 3)))

/-- shapes on which one of the three planar convolutions raises -/
def badShape (s : Shape) : Bool := mixed s.nx s.ny || mixed s.nx s.nz || mixed s.ny s.nz

/-- `compute_polymer_connection(matrix)` on shapes with nz ≠ 1 -/
def polymerConnection (s : Shape) (m : Tab) : Tab := floodFix s m (bottom s)

/-- the z = 1 branch: pad to three layers, seed the middle one, return the middle layer -/
def polymerConnectionPadded (s : Shape) (m : Tab) : Tab :=
  let s3 : Shape := ⟨s.nx, s.ny, 3⟩
  let mp := tab s3 fun i j k => decide (k = 1) && look m i j 0
  let c := floodFix s3 mp (layer s3 1)
  tab s fun i j _ => look c i j 1

/-- `compute_polymer_connection` with its shape dispatch (no error handling) -/
def conn (s : Shape) (m : Tab) : Tab :=
  if s.nz = 1 then polymerConnectionPadded s m else polymerConnection s m

/-- `compute_polymer_connection`; `none` = raises -/
def polymerConnection? (s : Shape) (m : Tab) : Option Tab :=
  if badShape (if s.nz = 1 then ⟨s.nx, s.ny, 3⟩ else s) then none else some (conn s m)

/-- `compute_air_connection(matrix)` -/
def airConnection (s : Shape) (m : Tab) : Tab :=
  let inv := tab s fun i j k => !look m i j k
  floodFix s inv (tab s fun i j k => faces s i j k && look inv i j k)

def removeFloatingWith (s : Shape) (m conn : Tab) : Tab :=
  -- matrix & ~(~connected & matrix)
  tab s fun i j k => look m i j k && !(!look conn i j k && look m i j k)

/-- `remove_floating_polymer` -/
def removeFloating (s : Shape) (m : Tab) : Tab := removeFloatingWith s m (conn s m)

def removeFloating? (s : Shape) (m : Tab) : Option Tab :=
  (polymerConnection? s m).map (removeFloatingWith s m)

/-! ### connect_slice (2-D slices are arrays of shape (nx, ny, 1)) -/

def dil8 (a : Img) : Img := fun i j k =>
  let r := fun (ii : Nat) =>
    a ii j k || (decide (0 < j) && a ii (j - 1) k) || a ii (j + 1) k
  r i || (decide (0 < i) && r (i - 1)) || r (i + 1)

/-- union of the four one-pixel shifts (the four `direction_kernels`) -/
def shifts4 (a : Img) : Img := fun i j k =>
  a (i + 1) j k || (decide (0 < j) && a i (j - 1) k) || (decide (0 < i) && a (i - 1) j k) || a i (j + 1) k

def flood2 (s2 : Shape) (mask : Tab) (n : Nat) (p : Tab) : Tab :=
  iterN (fun q => tab s2 fun i j k => dilXY (look q) i j k && look mask i j k) n p

def connectSlice (s2 : Shape) (lower middle upper save : Tab) : Tab × Tab :=
  let n := max s2.nx s2.ny
  let L := look lower
  let M := look middle
  let U := look upper
  let cp0 := tab s2 fun i j k => (U i j k && M i j k) || look save i j k
  let cp1 := flood2 s2 upper n cp0
  let nonc1 := tab s2 fun i j k => !(!U i j k || look cp1 i j k)
  let byLower := tab s2 fun i j k => look nonc1 i j k && (dilXY M i j k || L i j k)
  let middle' := tab s2 fun i j k => M i j k || look byLower i j k
  let cp1' := tab s2 fun i j k => look cp1 i j k || look byLower i j k
  let cp2 := flood2 s2 upper n cp1'
  let nonc2 := tab s2 fun i j k => !(!U i j k || look cp2 i j k)
  let regionUpper := tab s2 fun i j k => dil8 (look cp2) i j k
  let byUpper := tab s2 fun i j k => look nonc2 i j k && look regionUpper i j k
  let valid := tab s2 fun i j k => look regionUpper i j k && shifts4 (look byUpper) i j k
  let upper' := tab s2 fun i j k => U i j k || look valid i j k
  let cp3 := flood2 s2 upper' n cp2
  let nonc3 := tab s2 fun i j k => !(!U i j k || look cp3 i j k)
  let upper'' := tab s2 fun i j k => look upper' i j k && !look nonc3 i j k
  (middle', upper'')

def sliceZ (s2 : Shape) (t : Tab) (kk : Nat) : Tab := tab s2 fun i j _ => look t i j kk
def notT (s : Shape) (t : Tab) : Tab := tab s fun i j k => !look t i j k
def onesT (s : Shape) : Tab := tab s fun _ _ _ => true
/-- `.at[..., kk].set(sl)`; dropped when `kk` is out of range -/
def setZ (s : Shape) (t : Tab) (kk : Nat) (sl : Tab) : Tab :=
  tab s fun i j k => if k = kk then look sl i j 0 else look t i j k

/-- first loop of `connect_holes_and_structures`: `for i in range(nz - 1)` -/
def pass1 (s : Shape) : Nat → Nat → Tab → Tab
  | 0, _, m => m
  | todo + 1, i, m =>
    let s2 : Shape := ⟨s.nx, s.ny, 1⟩
    let cn := conn s m
    let lower := if i = 0 then onesT s2 else sliceZ s2 m (i - 1)
    let (newM, newU) := connectSlice s2 lower (sliceZ s2 m i) (sliceZ s2 m (i + 1)) (sliceZ s2 cn (i + 1))
    pass1 s todo (i + 1) (setZ s (setZ s m i newM) (i + 1) newU)

/-- second loop: `for i in range(nz, 0, -1)`; reads are clamped to the last layer -/
def pass2 (s : Shape) : Nat → Tab → Tab
  | 0, m => m
  | i + 1, m =>
    let ii := i + 1
    let s2 : Shape := ⟨s.nx, s.ny, 1⟩
    let cl := fun (k : Nat) => min k (s.nz - 1)
    let air := airConnection s m
    let lower := if ii = s.nz then onesT s2 else notT s2 (sliceZ s2 m (cl (ii + 1)))
    let (newM, newU) := connectSlice s2 lower (notT s2 (sliceZ s2 m (cl ii))) (notT s2 (sliceZ s2 m (ii - 1)))
      (sliceZ s2 air (ii - 1))
    pass2 s i (setZ s (setZ s m ii (notT s2 newM)) (ii - 1) (notT s2 newU))

/-- the matrix handed to the final clean-up of `connect_holes_and_structures` -/
def connectPre (s : Shape) (m : Tab) : Tab := pass2 s s.nz (pass1 s (s.nz - 1) 0 m)

/-- `connect_holes_and_structures` -/
def connectHoles (s : Shape) (m : Tab) : Tab := removeFloating s (connectPre s m)

def connectHoles? (s : Shape) (m : Tab) : Option Tab :=
  if badShape s then none else some (connectHoles s m)

/-! ### Behaviour of the pinned tree before the fixes (refutation witnesses only) -/
namespace AsFound

/-- `fori_loop(0, max(shape), …)` -/
def floodN (s : Shape) (m seed : Tab) (n : Nat) : Tab := iterN (step s m) n seed

def polymerConnection (s : Shape) (m : Tab) : Tab := floodN s m (bottom s) (max s.nx (max s.ny s.nz))

def removeFloating (s : Shape) (m : Tab) : Tab := removeFloatingWith s m (polymerConnection s m)

/-- z = 1 as found: padded to 3 layers but the seed stayed in (padding) layer 0 -/
def polymerConnectionPadded (s : Shape) (m : Tab) : Tab :=
  let s3 : Shape := ⟨s.nx, s.ny, 3⟩
  let mp := tab s3 fun i j k => decide (k = 1) && look m i j 0
  let c := floodN s3 mp (bottom s3) (max s.nx (max s.ny s.nz))
  tab s fun i j _ => look c i j 1

end AsFound

/-! ### Driver -/
open Proto

def bitsOf (str : String) : Option (List Bool) :=
  str.toList.mapM fun c => if c = '1' then some true else if c = '0' then some false else none

def ofBits (s : Shape) (bs : Array Bool) : Tab :=
  tab s fun i j k => bs.getD ((i * s.ny + j) * s.nz + k) false

def toBits (s : Shape) (t : Tab) : String :=
  String.ofList <| (List.range s.nx).flatMap fun i => (List.range s.ny).flatMap fun j =>
    (List.range s.nz).map fun k => if look t i j k then '1' else '0'

def reply (s : Shape) : Option Tab → String
  | some t => toBits s t
  | none => "error"

/-- ops (`bits` = nx·ny·nz characters 0/1, C order):
  `conn nx ny nz bits`    → compute_polymer_connection   (or `error` where the implementation raises)
  `air nx ny nz bits`     → compute_air_connection
  `rm nx ny nz bits`      → remove_floating_polymer
  `ch nx ny nz bits`      → connect_holes_and_structures
  `conn0 nx ny nz bits`   → compute_polymer_connection as found in the pinned tree (max(shape) rounds)
-/
def handle : List String → String
  | [op, nx, ny, nz, bits] =>
    match natsOf [nx, ny, nz], bitsOf bits with
    | some [nx, ny, nz], some bs =>
      let s : Shape := ⟨nx, ny, nz⟩
      if bs.length ≠ cells s ∨ cells s = 0 then "bad-op" else
      let m := ofBits s bs.toArray
      match op with
      | "conn" => reply s (polymerConnection? s m)
      | "air" => reply s (if badShape s then none else some (airConnection s m))
      | "rm" => reply s (removeFloating? s m)
      | "ch" => reply s (connectHoles? s m)
      | "conn0" => reply s (if badShape s then none else some (AsFound.polymerConnection s m))
      | _ => "bad-op"
    | _, _ => "bad-op"
  | _ => "bad-op"

end Fdtdx.C23
