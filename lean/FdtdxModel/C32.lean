/-
C32 — model of the symmetry *unfolding* helpers.

Mirrors
  fdtdx/core/physics/symmetry.py : `field_component_parity`, `component_sits_on_plane`,
                                   `mirror_pairs_on_plane`, `mirror_extend_low_side`
  fdtdx/fdtd/symmetry.py         : `unfold_fields`, `unfold_array`, `_colocated_on_plane_axes`,
                                   `_stored_component_spec`, `_component_signs`, `_reduce_factor`,
                                   `_poynting_parity`, `_unfold_poynting`, `_unfold_energy_slices`,
                                   `_unfold_one_detector` (Field / Phasor / Energy / PoyntingFlux branches),
                                   the `touched` rule of `unfold_detector_states`.

Arrays are nested lists; `jnp.flip` = `List.reverse`, `arr[1:]` = `List.drop 1`, `arr[0:1]` = `List.take 1`,
`jnp.concatenate` = `++`.  A 3-D array is `List (List (List α))` (x outermost).  Detector records are
normalised by the harness to the layout (outer, component, x, y, z): `outer` is the flattened leading axes
(time, or 1×frequencies), records without a component axis get one pseudo component.
Scalars are generic; `cast : Int → α` stands for the int→float promotion of `parity * array`.
`mirror_extend_low_side(.., parity=1, on_plane=True) * sign` (unfold_array) and `parity * flip(..)`
(mirror_extend_low_side) are both modelled as the left multiplication `cast p * x` (p = ±1: identical values).

`mirrorLow` is the behaviour after the `fix:` commit recorded in props/C32.findings.json (a single kept sample
on an on-plane axis is repeated); `AsFound.mirrorLow` is the literal pinned behaviour (the low block of a
single on-plane sample is EMPTY, so `unfold_fields` raised a shape error and `unfold_array` did not double).

Not modelled: DiffractiveDetector / unknown detector types (NotImplementedError), `unfold_source_mode`
(a wrapper that masks the propagation axis and calls `unfold_fields`), dtype promotion (checked by K's oracle).
-/
import FdtdxModel.Proto
namespace Fdtdx.C32

inductive FT where
  | E | H
  deriving DecidableEq, Repr

/-- `field_component_parity`; `none` = ValueError (wall ∉ {-1,+1}) -/
def fieldParity (ft : FT) (c a : Nat) (w : Int) : Option Int :=
  let normal := c == a
  if w = -1 then
    match ft with
    | .E => some (if normal then 1 else -1)
    | .H => some (if normal then -1 else 1)
  else if w = 1 then
    match ft with
    | .E => some (if normal then -1 else 1)
    | .H => some (if normal then 1 else -1)
  else none

/-- `component_sits_on_plane` -/
def sitsOnPlane (ft : FT) (c a : Nat) : Bool :=
  match ft with
  | .E => c != a
  | .H => c == a

/-- `mirror_pairs_on_plane` -/
def pairsOnPlane (ft : FT) (c a : Nat) (w : Int) : Bool := (w == -1) && sitsOnPlane ft c a

/-- the two axes other than `i`, ascending (`j, k = (x for x in range(3) if x != i)`) -/
def others (i : Nat) : Nat × Nat :=
  match i with
  | 0 => (1, 2)
  | 1 => (0, 2)
  | _ => (0, 1)

/-- `_poynting_parity` -/
def poyntingParity (i a : Nat) (w : Int) : Option Int := do
  let (j, k) := others i
  let pe ← fieldParity .E j a w
  let ph ← fieldParity .H k a w
  pure (pe * ph)

/-! ### one axis -/

/-- `mirror_extend_low_side` along the outermost axis; `act` = multiplication of one entry by the parity -/
def mirrorLow {β : Type} (act : β → β) (onPlane : Bool) (a : List β) : List β :=
  if !onPlane then a.reverse.map act
  else
    let m := ((a.drop 1).reverse).map act
    if m.isEmpty then a.map act else m.take 1 ++ m

/-- `concatenate([low, array])` -/
def unfoldList {β : Type} (act : β → β) (onPlane : Bool) (a : List β) : List β :=
  mirrorLow act onPlane a ++ a

/-- `restrict_to_kept_half` along one axis: `arr[n // 2 :]` -/
def upperHalf {β : Type} (l : List β) : List β := l.drop (l.length / 2)

namespace AsFound
/-- pinned behaviour: no special case for a single kept sample -/
def mirrorLow {β : Type} (act : β → β) (onPlane : Bool) (a : List β) : List β :=
  if !onPlane then a.reverse.map act
  else
    let m := ((a.drop 1).reverse).map act
    m.take 1 ++ m

def unfoldList {β : Type} (act : β → β) (onPlane : Bool) (a : List β) : List β :=
  mirrorLow act onPlane a ++ a
end AsFound

/-! ### three spatial axes -/

abbrev A3 (α : Type) := List (List (List α))

/-- mirror-and-concatenate a 3-D array along physical axis `axis` (0,1,2) with sign `s` -/
def unfoldAxis {α : Type} [Mul α] (axis : Nat) (s : α) (onPlane : Bool) (A : A3 α) : A3 α :=
  match axis with
  | 0 => unfoldList (fun P => P.map (fun r => r.map (fun x => s * x))) onPlane A
  | 1 => A.map (unfoldList (fun r => r.map (fun x => s * x)) onPlane)
  | _ => A.map (fun P => P.map (unfoldList (fun x => s * x) onPlane))

/-- keep the upper half along `axis` -/
def upperAxis {α : Type} (axis : Nat) (A : A3 α) : A3 α :=
  match axis with
  | 0 => upperHalf A
  | 1 => A.map upperHalf
  | _ => A.map (fun P => P.map upperHalf)

def sym3 (sx sy sz : Int) (a : Nat) : Int :=
  match a with
  | 0 => sx
  | 1 => sy
  | _ => sz

/-- one pass of the `for a in range(3)` loops: skipped when the axis carries no symmetry -/
def stage {α : Type} [Mul α] (w : Int) (a : Nat) (s : α) (onPlane : Bool) (X : A3 α) : A3 α :=
  if w = 0 then X else unfoldAxis a s onPlane X

/-- the three passes (x, then y, then z) on one component; `s a` / `op a` = sign and index map on axis `a` -/
def unfold3 {α : Type} [Mul α] (w : Nat → Int) (s : Nat → α) (op : Nat → Bool) (A : A3 α) : A3 α :=
  stage (w 2) 2 (s 2) (op 2) (stage (w 1) 1 (s 1) (op 1) (stage (w 0) 0 (s 0) (op 0) A))

/-- `_check_has_symmetry` fails -/
def noSym (sym : Nat → Int) : Bool := sym 0 == 0 && sym 1 == 0 && sym 2 == 0

/-- every entry is 0, -1 or +1 (otherwise `field_component_parity` raises) -/
def validSym (sym : Nat → Int) : Bool :=
  [0, 1, 2].all (fun a => sym a == 0 || sym a == -1 || sym a == 1)

/-- the parity as a number (only used under `validSym`, where `fieldParity` is `some`) -/
def parityD (ft : FT) (c a : Nat) (w : Int) : Int := (fieldParity ft c a w).getD 1

/-- `unfold_fields` on the list of components; `none` = ValueError
    (nothing to unfold, or an entry outside {-1,0,1}) -/
def unfoldFields {α : Type} [Mul α] (cast : Int → α) (ft : FT) (sym : Nat → Int)
    (F : List (A3 α)) : Option (List (A3 α)) :=
  if noSym sym || !validSym sym then none
  else some (F.mapIdx (fun c A =>
    unfold3 sym (fun a => cast (parityD ft c a (sym a))) (fun a => pairsOnPlane ft c a (sym a)) A))

/-- records in the layout (outer, component, x, y, z) -/
abbrev A5 (α : Type) := List (List (A3 α))

/-- `unfold_array` on the normalised layout: `signs a c` = sign of component `c` along axis `a`;
    `none` = ValueError (nothing to unfold); any non-zero entry counts as symmetric -/
def unfoldArray {α : Type} [Mul α] (sym : Nat → Int) (signs : Nat → Nat → α) (onPlaneAxes : List Nat)
    (R : A5 α) : Option (A5 α) :=
  if noSym sym then none
  else some (R.map (fun comps => comps.mapIdx (fun c A =>
    unfold3 sym (fun a => signs a c) (fun a => onPlaneAxes.contains a) A)))

/-! ### detectors -/

/-- `_COMPONENT_SPEC[i]` -/
def compSpec (i : Nat) : FT × Nat := if i < 3 then (.E, i) else (.H, i - 3)

/-- kinds handled by `_unfold_one_detector` -/
inductive Kind where
  | field | phasor | energy | poynting
  deriving DecidableEq, Repr

structure Det where
  kind : Kind
  comps : List Nat        -- indices into _COMPONENT_SPEC of the stored components, canonical order
  reduceVolume : Bool
  exact : Bool            -- exact_interpolation
  asSlices : Bool         -- EnergyDetector.as_slices
  keepAll : Bool          -- PoyntingFluxDetector.keep_all_components
  propAxis : Nat          -- PoyntingFluxDetector.propagation_axis
  deriving Repr

/-- `touched` of `unfold_detector_states`: the wall kind where the unclipped start is negative -/
def touchedOf (sym : Int) (unreducedStart : Int) : Int := if unreducedStart < 0 then sym else 0

/-- `_colocated_on_plane_axes` -/
def colocatedOnPlane (exact : Bool) (touched : Nat → Int) : List Nat :=
  if !exact then [] else [0, 1].filter (fun a => touched a == -1)

/-- per-component mirror parities along axis `a` (`_component_signs`, the Poynting signs, +1 for energy) -/
def compParities (d : Det) (a : Nat) (w : Int) : Option (List Int) :=
  match d.kind with
  | .field | .phasor => d.comps.mapM (fun i => fieldParity (compSpec i).1 (compSpec i).2 a w)
  | .energy => some [1]
  | .poynting =>
    if d.keepAll then [0, 1, 2].mapM (fun i => poyntingParity i a w)
    else [d.propAxis].mapM (fun i => poyntingParity i a w)

/-- one factor of `_reduce_factor`: `(1 + p) / 2` for a mean, `(1 + p)` for a sum -/
def reduceTerm {α : Type} [Div α] (cast : Int → α) (mean : Bool) (p : Int) : α :=
  if mean then cast (1 + p) / cast 2 else cast (1 + p)

/-- `_reduce_factor` for one component: product over the touched axes -/
def reduceFactor {α : Type} [Mul α] [Div α] (cast : Int → α) (mean : Bool) (ps : List Int) : α :=
  ps.foldl (fun f p => f * reduceTerm cast mean p) (cast 1)

def touchedAxes (touched : Nat → Int) : List Nat := [0, 1, 2].filter (fun a => touched a != 0)

/-- transpose of the per-axis parity lists: for each component the list over the touched axes -/
def perComponent (d : Det) (touched : Nat → Int) : Option (List (List Int)) := do
  let perAxis ← (touchedAxes touched).mapM (fun a => compParities d a (touched a))
  let n := match d.kind with
    | .field | .phasor => d.comps.length
    | .energy => 1
    | .poynting => if d.keepAll then 3 else 1
  pure ((List.range n).map (fun c => perAxis.map (fun l => l.getD c 1)))

/-- factors applied to a `reduce_volume` record, per component
    (Field/Phasor: mean; Poynting: sum; Energy: `2 ** count`) -/
def detFactors {α : Type} [Mul α] [Div α] (cast : Int → α) (d : Det) (touched : Nat → Int) :
    Option (List α) := do
  let pcs ← perComponent d touched
  match d.kind with
  | .field | .phasor => pure (pcs.map (reduceFactor cast true))
  | .energy => pure [cast ((2 : Int) ^ (touchedAxes touched).length)]
  | .poynting => pure (pcs.map (reduceFactor cast false))

/-- unfolding of a reduced record (outer, component): multiply by the per-component factor -/
def unfoldReduced {α : Type} [Mul α] (factors : List α) (R : List (List α)) : List (List α) :=
  R.map (fun row => List.zipWith (fun x f => x * f) row factors)

/-- unfolding of a spatial record of a detector touched by planes `touched` -/
def unfoldSpatial {α : Type} [Mul α] (cast : Int → α) (d : Det) (touched : Nat → Int) (R : A5 α) :
    Option (A5 α) := do
  let s0 ← if touched 0 = 0 then some [] else compParities d 0 (touched 0)
  let s1 ← if touched 1 = 0 then some [] else compParities d 1 (touched 1)
  let s2 ← if touched 2 = 0 then some [] else compParities d 2 (touched 2)
  let signs : Nat → Nat → α := fun a c => cast ((match a with | 0 => s0 | 1 => s1 | _ => s2).getD c 1)
  unfoldArray touched signs (colocatedOnPlane d.exact touched) R

/-- `_unfold_energy_slices` for one plane: `plane` 0 = "XY Plane", 1 = "XZ Plane", 2 = "YZ Plane";
    the record (T, a, b) is an `A3` whose axis 1 / 2 are the two in-plane physical axes -/
def unfoldEnergySlice {α : Type} [Mul α] (cast : Int → α) (exact : Bool) (touched : Nat → Int)
    (plane : Nat) (R : A3 α) : A3 α :=
  let (p, q) := match plane with
    | 0 => (0, 1)
    | 1 => (0, 2)
    | _ => (1, 2)
  let on := (colocatedOnPlane exact touched).filter (fun a => a == p || a == q)
  let R1 := if touched p = 0 then R else unfoldAxis 1 (cast 1) (on.contains p) R
  if touched q = 0 then R1 else unfoldAxis 2 (cast 1) (on.contains q) R1

/-! ### Driver -/
open Proto

def shape3 {α : Type} (A : A3 α) : List Nat :=
  [A.length, (A.headD []).length, ((A.headD []).headD []).length]

def toA3 {α : Type} (n0 n1 n2 : Nat) (l : List α) : A3 α :=
  (List.range n0).map (fun i => (List.range n1).map (fun j => (l.drop ((i * n1 + j) * n2)).take n2))

def flat3 {α : Type} (A : A3 α) : List α := (A.flatten).flatten

def toA5 {α : Type} (o c n0 n1 n2 : Nat) (l : List α) : A5 α :=
  (List.range o).map (fun i => (List.range c).map (fun j =>
    toA3 n0 n1 n2 ((l.drop ((i * c + j) * (n0 * n1 * n2))).take (n0 * n1 * n2))))

def flat5 {α : Type} (R : A5 α) : List α := ((R.map (fun cs => (cs.map flat3).flatten))).flatten

def shape5 {α : Type} (R : A5 α) : List Nat :=
  [R.length, (R.headD []).length] ++ shape3 ((R.headD []).headD [])

def ftOf : String → Option FT
  | "E" => some .E
  | "H" => some .H
  | _ => none

def kindOf : String → Option Kind
  | "field" => some .field
  | "phasor" => some .phasor
  | "energy" => some .energy
  | "poynting" => some .poynting
  | _ => none

def boolOf : String → Option Bool
  | "0" => some false
  | "1" => some true
  | _ => none

def showOptInt : Option Int → String
  | some p => toString p
  | none => "error"

def fcast (p : Int) : Float := Float.ofInt p

/-- canonical component indices from a 6-bit mask string such as `100101` (Ex, Hx, Hz) -/
def compsOfMask (m : String) : Option (List Nat) :=
  if m.length ≠ 6 ∨ m.toList.any (fun ch => ch ≠ '0' ∧ ch ≠ '1') then none
  else some ((List.range 6).filter (fun i => m.toList.getD i '0' == '1'))

def detOf (kind mask rv ex sl ka pa : String) : Option Det := do
  let k ← kindOf kind
  let comps ← compsOfMask mask
  let rv ← boolOf rv
  let ex ← boolOf ex
  let sl ← boolOf sl
  let ka ← boolOf ka
  let pa ← parseNat pa
  if pa > 2 then none else
  pure { kind := k, comps := comps, reduceVolume := rv, exact := ex, asSlices := sl, keepAll := ka, propAxis := pa }

/-- ops:
  `parity ft c a w`                     → ±1 | error
  `onplane ft c a w`                    → 0/1 (mirror_pairs_on_plane)
  `ppar i a w`                          → ±1 | error (_poynting_parity)
  `low p onPlane v…`                    → mirror_extend_low_side of a 1-D array (length | values)
  `fields ft sx sy sz n0 n1 n2 v…`      → unfold_fields of a (3,n0,n1,n2) array: `3 m0 m1 m2 | values` | error
  `array sx sy sz op0 op1 op2 o c n0 n1 n2 s(3c) v…` → unfold_array on layout (o,c,n0,n1,n2), signs per axis
  `touched sym start`                   → wall kind seen by a detector with that unclipped start
  `plan kind mask rv ex sl ka pa tx ty tz` → `onplane axes | parities axis0 | axis1 | axis2 | factors(hex)`
  `det kind mask rv ex sl ka pa tx ty tz o c n0 n1 n2 v…` → unfolded record (spatial: shape | values;
                                          reduce_volume: n0=n1=n2=1 and the factors are applied)
  `slice ex tx ty tz plane T a b v…`    → one plane of an as_slices EnergyDetector
-/
def handle : List String → String
  | ["parity", ft, c, a, w] =>
    match ftOf ft, natsOf [c, a], parseInt w with
    | some ft, some [c, a], some w => if c > 2 ∨ a > 2 then "bad-op" else showOptInt (fieldParity ft c a w)
    | _, _, _ => "bad-op"
  | ["onplane", ft, c, a, w] =>
    match ftOf ft, natsOf [c, a], parseInt w with
    | some ft, some [c, a], some w => if c > 2 ∨ a > 2 then "bad-op" else (if pairsOnPlane ft c a w then "1" else "0")
    | _, _, _ => "bad-op"
  | ["ppar", i, a, w] =>
    match natsOf [i, a], parseInt w with
    | some [i, a], some w => if i > 2 ∨ a > 2 then "bad-op" else showOptInt (poyntingParity i a w)
    | _, _ => "bad-op"
  | "low" :: p :: op :: vs =>
    match parseInt p, boolOf op, floatsOfHex vs with
    | some p, some op, some vs =>
      let r := mirrorLow (fun x => fcast p * x) op vs
      s!"{r.length} | {showFloats r}"
    | _, _, _ => "bad-op"
  | "fields" :: ft :: sx :: sy :: sz :: n0 :: n1 :: n2 :: vs =>
    match ftOf ft, intsOf [sx, sy, sz], natsOf [n0, n1, n2], floatsOfHex vs with
    | some ft, some [sx, sy, sz], some [n0, n1, n2], some vs =>
      if n0 = 0 ∨ n1 = 0 ∨ n2 = 0 ∨ vs.length ≠ 3 * n0 * n1 * n2 then "bad-op" else
      let F := (List.range 3).map (fun c => toA3 n0 n1 n2 ((vs.drop (c * (n0 * n1 * n2))).take (n0 * n1 * n2)))
      match unfoldFields fcast ft (sym3 sx sy sz) F with
      | none => "error"
      | some G => s!"{G.length} {showNats (shape3 (G.headD []))} | {showFloats ((G.map flat3).flatten)}"
    | _, _, _, _ => "bad-op"
  | "array" :: sx :: sy :: sz :: op0 :: op1 :: op2 :: o :: c :: n0 :: n1 :: n2 :: rest =>
    match intsOf [sx, sy, sz], [op0, op1, op2].mapM boolOf, natsOf [o, c, n0, n1, n2] with
    | some [sx, sy, sz], some [op0, op1, op2], some [o, c, n0, n1, n2] =>
      if o = 0 ∨ c = 0 ∨ n0 = 0 ∨ n1 = 0 ∨ n2 = 0 ∨ rest.length ≠ 3 * c + o * c * n0 * n1 * n2 then "bad-op" else
      match intsOf (rest.take (3 * c)), floatsOfHex (rest.drop (3 * c)) with
      | some sg, some vs =>
        let signs : Nat → Nat → Float := fun a k => fcast (((sg.drop (a * c)).take c).getD k 1)
        let on := (if op0 then [0] else []) ++ (if op1 then [1] else []) ++ (if op2 then [2] else [])
        match unfoldArray (sym3 sx sy sz) signs on (toA5 o c n0 n1 n2 vs) with
        | none => "error"
        | some R => s!"{showNats (shape5 R)} | {showFloats (flat5 R)}"
      | _, _ => "bad-op"
    | _, _, _ => "bad-op"
  | ["touched", s, st] =>
    match intsOf [s, st] with
    | some [s, st] => toString (touchedOf s st)
    | _ => "bad-op"
  | ["plan", kind, mask, rv, ex, sl, ka, pa, tx, ty, tz] =>
    match detOf kind mask rv ex sl ka pa, intsOf [tx, ty, tz] with
    | some d, some [tx, ty, tz] =>
      let t := sym3 tx ty tz
      let par := fun a => if t a = 0 then "-" else
        match compParities d a (t a) with
        | some l => showInts l
        | none => "error"
      let fac := match (detFactors fcast d t : Option (List Float)) with
        | some l => showFloats l
        | none => "error"
      s!"{showNats (colocatedOnPlane d.exact t)} | {par 0} | {par 1} | {par 2} | {fac}"
    | _, _ => "bad-op"
  | "det" :: kind :: mask :: rv :: ex :: sl :: ka :: pa :: tx :: ty :: tz :: o :: c :: n0 :: n1 :: n2 :: vs =>
    match detOf kind mask rv ex sl ka pa, intsOf [tx, ty, tz], natsOf [o, c, n0, n1, n2], floatsOfHex vs with
    | some d, some [tx, ty, tz], some [o, c, n0, n1, n2], some vs =>
      if o = 0 ∨ c = 0 ∨ n0 = 0 ∨ n1 = 0 ∨ n2 = 0 ∨ vs.length ≠ o * c * n0 * n1 * n2 then "bad-op" else
      let t := sym3 tx ty tz
      if d.reduceVolume then
        if n0 ≠ 1 ∨ n1 ≠ 1 ∨ n2 ≠ 1 then "bad-op" else
        match (detFactors fcast d t : Option (List Float)) with
        | none => "error"
        | some f =>
          if f.length ≠ c then "error" else
          let R := (List.range o).map (fun i => (vs.drop (i * c)).take c)
          s!"{o} {c} 1 1 1 | {showFloats ((unfoldReduced f R).flatten)}"
      else
        match unfoldSpatial fcast d t (toA5 o c n0 n1 n2 vs) with
        | none => "error"
        | some R => s!"{showNats (shape5 R)} | {showFloats (flat5 R)}"
    | _, _, _, _ => "bad-op"
  | "slice" :: ex :: tx :: ty :: tz :: plane :: T :: a :: b :: vs =>
    match boolOf ex, intsOf [tx, ty, tz], natsOf [plane, T, a, b], floatsOfHex vs with
    | some ex, some [tx, ty, tz], some [plane, T, a, b], some vs =>
      if plane > 2 ∨ T = 0 ∨ a = 0 ∨ b = 0 ∨ vs.length ≠ T * a * b then "bad-op" else
      let R := unfoldEnergySlice fcast ex (sym3 tx ty tz) plane (toA3 T a b vs)
      s!"{showNats (shape3 R)} | {showFloats (flat3 R)}"
    | _, _, _, _ => "bad-op"
  | _ => "bad-op"

end Fdtdx.C32
