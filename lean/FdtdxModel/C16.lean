/-
C16 — model of the detectors' `update` / post-processing reductions.

Mirrors (inputs are the already region-restricted, co-located `E`, `H` that `update_detector_states` passes in)
  objects/detectors/detector.py      _volume_weighted_spatial_mean            → `wmean`
  objects/detectors/field.py         FieldDetector.update                     → `fieldSpatial`, `fieldReduced`
                                     (components are stacked in the canonical order Ex,Ey,Ez,Hx,Hy,Hz by MEMBERSHIP,
                                      whatever the order of `components`)
  objects/detectors/energy.py        EnergyDetector.update                    → `energyDensity`, `energyReduced`, `sliceMean*`
  core/physics/metrics.py            compute_energy (diagonal / isotropic branch), compute_poynting_flux (real fields),
                                     net_poynting_flux_through_box            → `energyDensity`, `cross`, `closedNet`
  objects/detectors/poynting_flux.py PoyntingFluxDetector.update              → `poyntingSpatial`, `poyntingReduced`
                                     ClosedSurfacePoyntingFluxDetector.update → `closedNet`
                                     PhasorPoyntingFluxDetector.compute_poynting_flux → `phasorFlux`
                                     ClosedSurfacePhasorPoyntingFluxDetector.update / compute_net_flux → `faceStep`, `closedPhasorNet`
  objects/detectors/phasor.py        PhasorDetector.update                    → `phasorSpatialStep`, `phasorReducedStep`

Weights (cell volumes, per-axis face areas broadcast to the region) are inputs: they come from
`RectilinearGrid.cell_volume / face_area` (C37) and are read off the placed detector by the harness.
A phasor factor `ph = exp(iωt) · static_scale · window_weight` is an input (C17 owns its value).
Complex numbers are pairs.  Not modelled: the full-tensor (9-component) branch of `compute_energy`
(matrix inverse), complex E/H, positional energy slices, plotting.
-/
import FdtdxModel.Proto
namespace Fdtdx.C16

abbrev G3 (α : Type) := Nat → Nat → Nat → α
abbrev Shape := Nat × Nat × Nat

section sums
variable {α : Type} [Add α] [OfNat α 0]

def sumN : Nat → (Nat → α) → α
  | 0, _ => 0
  | n + 1, f => sumN n f + f n

def sum3 (n : Shape) (f : G3 α) : α :=
  sumN n.1 fun i => sumN n.2.1 fun j => sumN n.2.2 fun k => f i j k

end sums

def sgn {α : Type} [Neg α] (minus : Bool) (x : α) : α := if minus then -x else x

/-- the six components in canonical order -/
def comps6 {α : Type} (E H : Nat → G3 α) (q : Nat) : G3 α := if q < 3 then E q else H (q - 3)

/-- canonical indices of the selected components (`"Ex" in self.components`, …) -/
def selected (mask : List Bool) : List Nat := (List.range 6).filter fun q => mask.getD q false

section real
variable {α : Type} [Add α] [Sub α] [Mul α] [Div α] [Neg α] [OfNat α 0] [OfNat α 1] [OfNat α 2]

/-- `_volume_weighted_spatial_mean` -/
def wmean (n : Shape) (vol x : G3 α) : α := sum3 n (fun i j k => x i j k * vol i j k) / sum3 n vol

def fieldSpatial (mask : List Bool) (E H : Nat → G3 α) : List (G3 α) := (selected mask).map (comps6 E H)

def fieldReduced (n : Shape) (vol : G3 α) (mask : List Bool) (E H : Nat → G3 α) : List α :=
  (fieldSpatial mask E H).map (wmean n vol)

/-- `compute_energy`, diagonal branch: ½ Σ_c |E_c|²/inv_eps_c + ½ Σ_c |H_c|²/inv_mu_c -/
def energyDensity (E H ie im : Nat → G3 α) : G3 α := fun i j k =>
  sumN 3 (fun c => (1 / 2) * (1 / ie c i j k) * (E c i j k * E c i j k))
    + sumN 3 (fun c => (1 / 2) * (1 / im c i j k) * (H c i j k * H c i j k))

/-- `reduce_volume=True`: Σ energy · cell volume -/
def energyReduced (n : Shape) (vol : G3 α) (E H ie im : Nat → G3 α) : α :=
  sum3 n fun i j k => energyDensity E H ie im i j k * vol i j k

/-- `as_slices` with mean aggregation: `energy.mean(axis=2|1|0)` -/
def sliceMeanXY (cast : Nat → α) (n : Shape) (e : G3 α) (i j : Nat) : α := sumN n.2.2 (fun k => e i j k) / cast n.2.2
def sliceMeanXZ (cast : Nat → α) (n : Shape) (e : G3 α) (i k : Nat) : α := sumN n.2.1 (fun j => e i j k) / cast n.2.1
def sliceMeanYZ (cast : Nat → α) (n : Shape) (e : G3 α) (j k : Nat) : α := sumN n.1 (fun i => e i j k) / cast n.1

/-- `jnp.cross(E, conj(H))` for real fields -/
def cross (E H : Nat → G3 α) (c : Nat) : G3 α := fun i j k =>
  match c with
  | 0 => E 1 i j k * H 2 i j k - E 2 i j k * H 1 i j k
  | 1 => E 2 i j k * H 0 i j k - E 0 i j k * H 2 i j k
  | _ => E 0 i j k * H 1 i j k - E 1 i j k * H 0 i j k

/-- PoyntingFluxDetector, `reduce_volume=False` -/
def poyntingSpatial (minus keepAll : Bool) (axis : Nat) (E H : Nat → G3 α) : List (G3 α) :=
  let pf := fun c => (fun i j k => sgn minus (cross E H c i j k) : G3 α)
  if keepAll then [pf 0, pf 1, pf 2] else [pf axis]

/-- PoyntingFluxDetector, `reduce_volume=True`; `area a` = face-area weights for a face normal to `a` -/
def poyntingReduced (n : Shape) (area : Nat → G3 α) (minus keepAll : Bool) (axis : Nat) (E H : Nat → G3 α) : List α :=
  let pf := fun c => (fun i j k => sgn minus (cross E H c i j k) : G3 α)
  if keepAll then (List.range 3).map fun c => sum3 n fun i j k => pf c i j k * area c i j k
  else [sum3 n fun i j k => pf axis i j k * area axis i j k]

def axisLen (n : Shape) (a : Nat) : Nat := match a with | 0 => n.1 | 1 => n.2.1 | _ => n.2.2
def shape1 (n : Shape) (a : Nat) : Shape := match a with | 0 => (1, n.2.1, n.2.2) | 1 => (n.1, 1, n.2.2) | _ => (n.1, n.2.1, 1)
/-- restrict to the plane `index a = idx` -/
def fixAx {β : Type} (a idx : Nat) (g : G3 β) : G3 β := fun i j k =>
  match a with | 0 => g idx j k | 1 => g i idx k | _ => g i j idx
/-- `jnp.take(g, idx, axis=a).sum()` -/
def faceSum (n : Shape) (a idx : Nat) (g : G3 α) : α := sum3 (shape1 n a) (fixAx a idx g)

/-- `net_poynting_flux_through_box` + orientation of ClosedSurfacePoyntingFluxDetector -/
def closedNet (n : Shape) (area : Nat → G3 α) (axes : List Nat) (inward : Bool) (E H : Nat → G3 α) : α :=
  let net := axes.foldl (fun acc a =>
    let wgt : G3 α := fun i j k => cross E H a i j k * area a i j k
    acc + faceSum n a (axisLen n a - 1) wgt - faceSum n a 0 wgt) 0
  sgn inward net

/-! ### phasors (complex numbers as pairs) -/

structure Cx (α : Type) where
  re : α
  im : α

/-- one accumulation: `state ± x · ph`, `x` a real sample -/
def cstep (inverse : Bool) (s : Cx α) (x : α) (ph : Cx α) : Cx α :=
  if inverse then ⟨s.re - x * ph.re, s.im - x * ph.im⟩ else ⟨s.re + x * ph.re, s.im + x * ph.im⟩

/-- PhasorDetector.update, `reduce_volume=False`: state indexed by (frequency, selected slot, cell) -/
def phasorSpatialStep (inverse : Bool) (sel : List Nat) (E H : Nat → G3 α) (ph : Nat → Cx α)
    (s : Nat → Nat → G3 (Cx α)) : Nat → Nat → G3 (Cx α) := fun f q i j k =>
  cstep inverse (s f q i j k) (comps6 E H (sel.getD q 0) i j k) (ph f)

/-- PhasorDetector.update, `reduce_volume=True`: the increment is the volume-weighted mean of `EH · ph` -/
def phasorReducedStep (n : Shape) (vol : G3 α) (inverse : Bool) (sel : List Nat) (E H : Nat → G3 α) (ph : Nat → Cx α)
    (s : Nat → Nat → Cx α) : Nat → Nat → Cx α := fun f q =>
  let x := comps6 E H (sel.getD q 0)
  let dre := wmean n vol (fun i j k => x i j k * (ph f).re)
  let dim := wmean n vol (fun i j k => x i j k * (ph f).im)
  if inverse then ⟨(s f q).re - dre, (s f q).im - dim⟩ else ⟨(s f q).re + dre, (s f q).im + dim⟩

/-- `Re(a · conj b)` -/
def reMulConj (a b : Cx α) : α := a.re * b.re + a.im * b.im

/-- `_phasor_poynting_vector`: `Re(E × conj H)` of a 6-component phasor stack -/
def phasorCross (p : Nat → G3 (Cx α)) (c : Nat) : G3 α := fun i j k =>
  match c with
  | 0 => reMulConj (p 1 i j k) (p 5 i j k) - reMulConj (p 2 i j k) (p 4 i j k)
  | 1 => reMulConj (p 2 i j k) (p 3 i j k) - reMulConj (p 0 i j k) (p 5 i j k)
  | _ => reMulConj (p 0 i j k) (p 4 i j k) - reMulConj (p 1 i j k) (p 3 i j k)

/-- PhasorPoyntingFluxDetector.compute_poynting_flux for one frequency -/
def phasorFlux (n : Shape) (area : Nat → G3 α) (minus keepAll continuous : Bool) (axis : Nat) (p : Nat → G3 (Cx α)) : List α :=
  let pv := fun c => (fun i j k => sgn minus (phasorCross p c i j k) : G3 α)
  let fl := if keepAll then (List.range 3).map fun c => sum3 n fun i j k => pv c i j k * area c i j k
            else [sum3 n fun i j k => pv axis i j k * area axis i j k]
  if continuous then fl.map fun x => (1 / 2) * x else fl

/-- ClosedSurfacePhasorPoyntingFluxDetector.update: the stored face `(a, side)` accumulates the face of `EH · ph` -/
def faceStep (n : Shape) (inverse : Bool) (a : Nat) (maxSide : Bool) (E H : Nat → G3 α) (ph : Cx α)
    (s : Nat → G3 (Cx α)) : Nat → G3 (Cx α) := fun q i j k =>
  let idx := if maxSide then axisLen n a - 1 else 0
  cstep inverse (s q i j k) (fixAx a idx (comps6 E H q) i j k) ph

/-- ClosedSurfacePhasorPoyntingFluxDetector.compute_net_flux for one frequency; `face a side` = stored face phasors
(index along `a` is 0), `area a` the face-area weights of axis `a` -/
def closedPhasorNet (n : Shape) (area : Nat → G3 α) (axes : List Nat) (inward continuous : Bool)
    (face : Nat → Bool → Nat → G3 (Cx α)) : α :=
  let net := axes.foldl (fun acc a =>
    let term := fun (side : Bool) => sum3 (shape1 n a) fun i j k => phasorCross (face a side) a i j k * fixAx a 0 (area a) i j k
    acc + term true - term false) 0
  let net := sgn inward net
  if continuous then (1 / 2) * net else net

end real

/-! ### Driver -/
open Proto

def g3 (n : Shape) (a : Array Float) (off : Nat) : G3 Float := fun i j k =>
  if i < n.1 ∧ j < n.2.1 ∧ k < n.2.2 then a.getD (off + (i * n.2.1 + j) * n.2.2 + k) 0.0 else 0.0

/-- `(m, n0, n1, n2)` stack at offset -/
def g3s (n : Shape) (a : Array Float) (off : Nat) (c : Nat) : G3 Float := g3 n a (off + c * (n.1 * n.2.1 * n.2.2))

/-- complex stack stored as re-block then im-block per (slot) : offset + (2*slot + part) * N -/
def c3s (n : Shape) (a : Array Float) (off : Nat) (q : Nat) : G3 (Cx Float) := fun i j k =>
  let N := n.1 * n.2.1 * n.2.2
  ⟨g3 n a (off + (2 * q) * N) i j k, g3 n a (off + (2 * q + 1) * N) i j k⟩

def tab (n : Shape) (f : G3 Float) : List Float := Id.run do
  let mut out : Array Float := #[]
  for i in [0:n.1] do
    for j in [0:n.2.1] do
      for k in [0:n.2.2] do
        out := out.push (f i j k)
  return out.toList

def pb : String → Option Bool
  | "0" => some false
  | "1" => some true
  | _ => none

def maskOf (m : Nat) (len : Nat) : List Bool := (List.range len).map fun q => (m / 2 ^ q) % 2 == 1
def axesOf (m : Nat) : List Nat := (List.range 3).filter fun a => (m / 2 ^ a) % 2 == 1

/-- ops, all start with `n0 n1 n2`; data are binary64 bit patterns, arrays in C order, N = n0·n1·n2:
  `field   n reduce mask6            | vol(N) E(3N) H(3N)`                       → stacked record
  `energy  n mode(0 spatial|1 reduced|2 slice means) | vol(N) E H ie(3N) im(3N)` → record (mode 2: XY, XZ, YZ)
  `poynt   n minus reduce keepAll axis | area(3N) E H`                           → record
  `closed  n inward axesmask         | area(3N) E H`                             → scalar
  `phasor  n reduce inverse mask6 nf | vol(N) E H ph(2·nf) state(nf·nsel·(N|1)·2)` → new state (re block, im block per slot)
  `pflux   n minus keepAll continuous axis | area(3N) phasors(6·2·N)`            → flux (one frequency)
  `cface   n inverse a maxSide       | E H ph(2) state(6·2·Nface)`               → new face state
  `cnet    n inward continuous axesmask | area(3N) faces(for a in 0..2, side in min,max: 6·2·Nface_a)` → net (one frequency)
-/
def handle : List String → String
  | op :: n0 :: n1 :: n2 :: rest =>
    match natsOf [n0, n1, n2] with
    | some [n0, n1, n2] =>
      if n0 = 0 ∨ n1 = 0 ∨ n2 = 0 then "error" else
      let n : Shape := (n0, n1, n2)
      let N := n0 * n1 * n2
      let data (l : List String) (want : Nat) (k : Array Float → String) : String :=
        if l.length ≠ want then "bad-op" else
        match floatsOfHex l with
        | some fs => k fs.toArray
        | none => "bad-op"
      match op, rest with
      | "field", red :: m :: l =>
        match pb red, m.toNat? with
        | some red, some m =>
          if m = 0 ∨ m ≥ 64 then "error" else
          data l (7 * N) fun a =>
            let mask := maskOf m 6
            let E := g3s n a N; let H := g3s n a (4 * N)
            if red then showFloats (fieldReduced n (g3 n a 0) mask E H)
            else showFloats ((fieldSpatial mask E H).flatMap (tab n))
        | _, _ => "bad-op"
      | "energy", mode :: l =>
        match mode.toNat? with
        | some mode =>
          if mode > 2 then "bad-op" else
          data l (13 * N) fun a =>
            let vol := g3 n a 0
            let E := g3s n a N; let H := g3s n a (4 * N); let ie := g3s n a (7 * N); let im := g3s n a (10 * N)
            let e := energyDensity E H ie im
            if mode = 0 then showFloats (tab n e)
            else if mode = 1 then hexOfFloat (energyReduced n vol E H ie im)
            else showFloats (tab (n0, n1, 1) (fun i j _ => sliceMeanXY Float.ofNat n e i j)
                  ++ tab (n0, 1, n2) (fun i _ k => sliceMeanXZ Float.ofNat n e i k)
                  ++ tab (1, n1, n2) (fun _ j k => sliceMeanYZ Float.ofNat n e j k))
        | none => "bad-op"
      | "poynt", mi :: red :: ka :: ax :: l =>
        match pb mi, pb red, pb ka, ax.toNat? with
        | some mi, some red, some ka, some ax =>
          if ax > 2 then "error" else
          data l (9 * N) fun a =>
            let area := g3s n a 0; let E := g3s n a (3 * N); let H := g3s n a (6 * N)
            if red then showFloats (poyntingReduced n area mi ka ax E H)
            else showFloats ((poyntingSpatial mi ka ax E H).flatMap (tab n))
        | _, _, _, _ => "bad-op"
      | "closed", inw :: am :: l =>
        match pb inw, am.toNat? with
        | some inw, some am =>
          if am ≥ 8 then "error" else
          data l (9 * N) fun a =>
            hexOfFloat (closedNet n (g3s n a 0) (axesOf am) inw (g3s n a (3 * N)) (g3s n a (6 * N)))
        | _, _ => "bad-op"
      | "phasor", red :: inv :: m :: nf :: l =>
        match pb red, pb inv, m.toNat?, nf.toNat? with
        | some red, some inv, some m, some nf =>
          if m = 0 ∨ m ≥ 64 ∨ nf = 0 then "error" else
          let sel := selected (maskOf m 6)
          let ns := sel.length
          let cells := if red then 1 else N
          data l (7 * N + 2 * nf + nf * ns * cells * 2) fun a =>
            let vol := g3 n a 0; let E := g3s n a N; let H := g3s n a (4 * N)
            let ph : Nat → Cx Float := fun f => ⟨a.getD (7 * N + 2 * f) 0.0, a.getD (7 * N + 2 * f + 1) 0.0⟩
            let off := 7 * N + 2 * nf
            if red then
              let s : Nat → Nat → Cx Float := fun f q => ⟨a.getD (off + (f * ns + q) * 2) 0.0, a.getD (off + (f * ns + q) * 2 + 1) 0.0⟩
              let s' := phasorReducedStep n vol inv sel E H ph s
              showFloats ((List.range nf).flatMap fun f => (List.range ns).flatMap fun q => [(s' f q).re, (s' f q).im])
            else
              let s : Nat → Nat → G3 (Cx Float) := fun f q => c3s n a off (f * ns + q)
              let s' := phasorSpatialStep inv sel E H ph s
              showFloats ((List.range nf).flatMap fun f => (List.range ns).flatMap fun q =>
                tab n (fun i j k => (s' f q i j k).re) ++ tab n (fun i j k => (s' f q i j k).im))
        | _, _, _, _ => "bad-op"
      | "pflux", mi :: ka :: co :: ax :: l =>
        match pb mi, pb ka, pb co, ax.toNat? with
        | some mi, some ka, some co, some ax =>
          if ax > 2 then "error" else
          data l (3 * N + 12 * N) fun a =>
            showFloats (phasorFlux n (g3s n a 0) mi ka co ax (c3s n a (3 * N)))
        | _, _, _, _ => "bad-op"
      | "cface", inv :: ax :: mx :: l =>
        match pb inv, ax.toNat?, pb mx with
        | some inv, some ax, some mx =>
          if ax > 2 then "error" else
          let nfc := shape1 n ax
          let Nf := nfc.1 * nfc.2.1 * nfc.2.2
          data l (6 * N + 2 + 12 * Nf) fun a =>
            let E := g3s n a 0; let H := g3s n a (3 * N)
            let ph : Cx Float := ⟨a.getD (6 * N) 0.0, a.getD (6 * N + 1) 0.0⟩
            let s := c3s nfc a (6 * N + 2)
            let s' := faceStep n inv ax mx E H ph s
            showFloats ((List.range 6).flatMap fun q => tab nfc (fun i j k => (s' q i j k).re) ++ tab nfc (fun i j k => (s' q i j k).im))
        | _, _, _ => "bad-op"
      | "cnet", inw :: co :: am :: l =>
        match pb inw, pb co, am.toNat? with
        | some inw, some co, some am =>
          if am ≥ 8 then "error" else
          let nf := fun a => let s := shape1 n a; s.1 * s.2.1 * s.2.2
          let offA := fun a => 3 * N + (List.range a).foldl (fun acc b => acc + 24 * nf b) 0
          data l (3 * N + 24 * (nf 0 + nf 1 + nf 2)) fun arr =>
            let face : Nat → Bool → Nat → G3 (Cx Float) := fun a side =>
              c3s (shape1 n a) arr (offA a + (if side then 12 * nf a else 0))
            hexOfFloat (closedPhasorNet n (g3s n arr 0) (axesOf am) inw co face)
        | _, _, _ => "bad-op"
      | _, _ => "bad-op"
    | _ => "bad-op"
  | _ => "bad-op"

end Fdtdx.C16
