/-
C09 — periodic / Bloch supercells.  The time step is the shared Yee model (`FdtdxModel/Yee.lean`: wrap halo of
`pad_fields`, ghost multipliers of `BlochBoundary.apply_pad_correction`, `forward`).  This file adds the tiling
operations along the x axis used to state the supercell identity (the y / z versions are the same definitions with
the roles of the indices exchanged):

  tileX n w V        supercell field: copy q (cells q·n … q·n+n−1) is the base-cell field times the per-copy factor `w q`
                     (Bloch: w q = exp(i k L)^q; periodic: w q = 1)
  retileX n V        materials: tiled without factor
  tileCfgX m P Q cf  supercell configuration: m·nx cells, ghost multipliers P (right) and Q (left) — the code computes
                     them from the supercell length: exp(i k m L) and its conjugate —, metric scales tiled
  tileMatX n mt      tiled materials

Driver ops: those of `YeeIO` (`fwd r|c` on the base cell and on the supercell container) and `afwd` of `YeeAnisoIO`
(any material tier, used for the full-tensor cases; tiling operations for that tier in `FdtdxModel/C09Aniso.lean`).
-/
import FdtdxModel.YeeIO
import FdtdxModel.YeeAnisoIO
namespace Fdtdx.C09
open Fdtdx.Yee

section
variable {α : Type} [Mul α]

def tileX (n : Nat) (w : Nat → α) (V : V3 α) : V3 α where
  x := fun i j k => V.x (i % n) j k * w (i / n)
  y := fun i j k => V.y (i % n) j k * w (i / n)
  z := fun i j k => V.z (i % n) j k * w (i / n)

def retileX (n : Nat) (V : V3 α) : V3 α where
  x := fun i j k => V.x (i % n) j k
  y := fun i j k => V.y (i % n) j k
  z := fun i j k => V.z (i % n) j k

def tileCfgX (m : Nat) (P Q : α) (cf : Cfg α) : Cfg α :=
  { cf with nx := m * cf.nx, bx := { cf.bx with pp := P, pm := Q },
            sfx := fun i => cf.sfx (i % cf.nx), sbx := fun i => cf.sbx (i % cf.nx) }

def tileMatX (n : Nat) (mt : Mat α) : Mat α :=
  { invEps := retileX n mt.invEps, invMu := retileX n mt.invMu,
    sigE := mt.sigE.map (retileX n), sigH := mt.sigH.map (retileX n) }

end

def handle : List String → String
  | "afwd" :: rest => YeeAnisoIO.handleAniso ("afwd" :: rest)
  | l => YeeIO.handleYee l

end Fdtdx.C09
