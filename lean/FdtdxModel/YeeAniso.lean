/-
Fully anisotropic (9-component) tier of the Yee time step of fdtdx — extension of the shared model `FdtdxModel/Yee.lean`.

  fdtdx/core/misc.py   expand_to_3x3                                   → `Tens` (scalar | 1 | 3 | 9 components), `Tens.expand`
  fdtdx/fdtd/misc.py   compute_anisotropic_update_matrices             → `updMats`     (A = M1⁻¹ M2, B = c · M1⁻¹ · inv)
                       compute_anisotropic_update_matrices_reverse     → `updMatsRev`  (A = M2⁻¹ M1, B = c · M2⁻¹ · inv)
                         M1 = I + f, M2 = I − f, f = (c·η/2)·(inv · σ) per cell; `sigma is None` leaves M1 = M2 = I.
                         `jnp.linalg.solve` of a 3×3 system is modelled by the adjugate / determinant formula `M3.solve`
                         (LU and adjugate differ by rounding only; with M = I both return the right-hand side exactly).
                       avg_anisotropic_E_component / avg_anisotropic_H_component → `avgE` / `avgH`
                         (uniform four-point mean, and the spacing-weighted variant when aniso_widths is not None)
  fdtdx/fdtd/update.py get_anisotropic_averaging_widths                → `AW` (cell widths; the edge-replicated pad is `wPrev`)
                       pad_fields_for_boundaries on E / H / curl (`E_pad`, `H_pad`, `curl_pad`) → two-axis halo access
                         `nextAx` / `prevAx` = `Yee.next1` / `Yee.prev1` along one axis; a diagonal neighbour is the
                         composition along two axes (jnp.pad pads axis after axis and BlochBoundary.apply_pad_correction
                         multiplies whole ghost planes, so a corner ghost carries both multipliers and is zero as soon as
                         one of the two axes has a zero halo)
                       update_E / update_H / update_E_reverse / update_H_reverse, branch
                         `inv.shape[0] == 9 or (sigma is not None and sigma.shape[0] == 9)` → `stepEFull`, `stepHFull`,
                         `revStepEFull`, `revStepHFull`; the tier dispatch itself → `stepEA`, `stepHA`, `revStepEA`,
                         `revStepHA` (falls back to the diagonal tier of `Yee`), `forwardA`, `backwardA`.

Sources are additive field-independent terms and PEC / PMC walls are the projections of `Yee`, exactly as in the diagonal
tier.  Not modelled: dispersion (ADE branch), CPML.  Simplification: a *scalar* tensor argument is accepted for every
material (`expand_to_3x3` handles it); in fdtdx only `inv_permeabilities` can be a Python float.
-/
import FdtdxModel.Yee
namespace Fdtdx.YeeAniso
open Fdtdx.Yee

/-- a 3×3 matrix of scalars, row-major -/
structure M3 (α : Type) where
  xx : α
  xy : α
  xz : α
  yx : α
  yy : α
  yz : α
  zx : α
  zy : α
  zz : α

/-- cell widths of the three axes (`config.resolved_grid.cell_widths(axis)`), present on a non-uniform grid only -/
structure AW (α : Type) where
  wx : Nat → α
  wy : Nat → α
  wz : Nat → α

/-- a material array as stored in the ArrayContainer: Python scalar, or 1 / 3 / 9 leading components -/
inductive Tens (α : Type) where
  | scalar : α → Tens α
  | iso : F3 α → Tens α
  | diag : V3 α → Tens α
  | full : F3 (M3 α) → Tens α

def Tens.isFull {α : Type} : Tens α → Bool
  | .full _ => true
  | _ => false

/-- materials of any tier -/
structure MatA (α : Type) where
  invEps : Tens α
  invMu : Tens α
  sigE : Option (Tens α)
  sigH : Option (Tens α)

section ops
variable {α : Type} [Add α] [Sub α] [Mul α] [Div α] [OfNat α 0] [OfNat α 1] [OfNat α 2] [OfNat α 4]

/-! ### 3×3 algebra -/

def M3.one : M3 α := ⟨1, 0, 0, 0, 1, 0, 0, 0, 1⟩

def M3.add (a b : M3 α) : M3 α :=
  ⟨a.xx + b.xx, a.xy + b.xy, a.xz + b.xz, a.yx + b.yx, a.yy + b.yy, a.yz + b.yz, a.zx + b.zx, a.zy + b.zy, a.zz + b.zz⟩

def M3.sub (a b : M3 α) : M3 α :=
  ⟨a.xx - b.xx, a.xy - b.xy, a.xz - b.xz, a.yx - b.yx, a.yy - b.yy, a.yz - b.yz, a.zx - b.zx, a.zy - b.zy, a.zz - b.zz⟩

def M3.smul (s : α) (a : M3 α) : M3 α :=
  ⟨s * a.xx, s * a.xy, s * a.xz, s * a.yx, s * a.yy, s * a.yz, s * a.zx, s * a.zy, s * a.zz⟩

def M3.sdiv (a : M3 α) (d : α) : M3 α :=
  ⟨a.xx / d, a.xy / d, a.xz / d, a.yx / d, a.yy / d, a.yz / d, a.zx / d, a.zy / d, a.zz / d⟩

def M3.mul (a b : M3 α) : M3 α :=
  ⟨a.xx * b.xx + a.xy * b.yx + a.xz * b.zx, a.xx * b.xy + a.xy * b.yy + a.xz * b.zy, a.xx * b.xz + a.xy * b.yz + a.xz * b.zz,
   a.yx * b.xx + a.yy * b.yx + a.yz * b.zx, a.yx * b.xy + a.yy * b.yy + a.yz * b.zy, a.yx * b.xz + a.yy * b.yz + a.yz * b.zz,
   a.zx * b.xx + a.zy * b.yx + a.zz * b.zx, a.zx * b.xy + a.zy * b.yy + a.zz * b.zy, a.zx * b.xz + a.zy * b.yz + a.zz * b.zz⟩

def M3.det (a : M3 α) : α :=
  a.xx * (a.yy * a.zz - a.yz * a.zy) - a.xy * (a.yx * a.zz - a.yz * a.zx) + a.xz * (a.yx * a.zy - a.yy * a.zx)

/-- adjugate (transposed cofactor matrix): `adj a · a = det a · I` -/
def M3.adj (a : M3 α) : M3 α :=
  ⟨a.yy * a.zz - a.yz * a.zy, a.xz * a.zy - a.xy * a.zz, a.xy * a.yz - a.xz * a.yy,
   a.yz * a.zx - a.yx * a.zz, a.xx * a.zz - a.xz * a.zx, a.xz * a.yx - a.xx * a.yz,
   a.yx * a.zy - a.yy * a.zx, a.xy * a.zx - a.xx * a.zy, a.xx * a.yy - a.xy * a.yx⟩

/-- `jnp.linalg.solve(m, x)` for one cell: m⁻¹ · x -/
def M3.solve (m x : M3 α) : M3 α := (M3.mul (M3.adj m) x).sdiv (M3.det m)

/-- `M1`, `M2` of one cell; `etaF` is `eta0` for the electric and `1 / eta0` for the magnetic update -/
def lossMats (c etaF : α) (inv : M3 α) (sig : Option (M3 α)) : M3 α × M3 α :=
  match sig with
  | none => (M3.one, M3.one)
  | some s =>
    let f := M3.smul (c * etaF / 2) (M3.mul inv s)
    (M3.add M3.one f, M3.sub M3.one f)

/-- `compute_anisotropic_update_matrices` at one cell: (A, B) -/
def updMats (c etaF : α) (inv : M3 α) (sig : Option (M3 α)) : M3 α × M3 α :=
  let mm := lossMats c etaF inv sig
  (M3.solve mm.1 mm.2, M3.smul c (M3.solve mm.1 inv))

/-- `compute_anisotropic_update_matrices_reverse` at one cell -/
def updMatsRev (c etaF : α) (inv : M3 α) (sig : Option (M3 α)) : M3 α × M3 α :=
  let mm := lossMats c etaF inv sig
  (M3.solve mm.2 mm.1, M3.smul c (M3.solve mm.2 inv))

/-! ### `expand_to_3x3` and the broadcast of the diagonal tier -/

def Tens.expand : Tens α → F3 (M3 α)
  | .scalar a => fun _ _ _ => ⟨a, 0, 0, 0, a, 0, 0, 0, a⟩
  | .iso f => fun i j k => ⟨f i j k, 0, 0, 0, f i j k, 0, 0, 0, f i j k⟩
  | .diag v => fun i j k => ⟨v.x i j k, 0, 0, 0, v.y i j k, 0, 0, 0, v.z i j k⟩
  | .full t => t

/-- numpy broadcasting of a 0 / 1 / 3 component array against a (3, Nx, Ny, Nz) field (diagonal tier only; the value
for a full tensor is never used by a diagonal-tier branch) -/
def Tens.toV3 : Tens α → V3 α
  | .scalar a => constV a
  | .iso f => ⟨f, f, f⟩
  | .diag v => v
  | .full t => ⟨fun i j k => (t i j k).xx, fun i j k => (t i j k).yy, fun i j k => (t i j k).zz⟩

def MatA.diagMat (m : MatA α) : Mat α :=
  ⟨m.invEps.toV3, m.invMu.toV3, m.sigE.map Tens.toV3, m.sigH.map Tens.toV3⟩

def optFull (s : Option (Tens α)) : Bool :=
  match s with
  | none => false
  | some t => t.isFull

/-- `inv_eps.shape[0] == 9 or (sigma_E is not None and sigma_E.shape[0] == 9)` -/
def MatA.fullE (m : MatA α) : Bool := m.invEps.isFull || optFull m.sigE
def MatA.fullH (m : MatA α) : Bool := m.invMu.isFull || optFull m.sigH

/-! ### halo access along a chosen axis (0, 1, anything else = 2) -/

def nextAx (cf : Cfg α) (ax : Nat) (g : F3 α) : F3 α :=
  match ax with
  | 0 => fun i j k => next1 cf.nx cf.bx (fun i' => g i' j k) i
  | 1 => fun i j k => next1 cf.ny cf.by_ (fun j' => g i j' k) j
  | _ => fun i j k => next1 cf.nz cf.bz (fun k' => g i j k') k

def prevAx (cf : Cfg α) (ax : Nat) (g : F3 α) : F3 α :=
  match ax with
  | 0 => fun i j k => prev1 cf.nx cf.bx (fun i' => g i' j k) i
  | 1 => fun i j k => prev1 cf.ny cf.by_ (fun j' => g i j' k) j
  | _ => fun i j k => prev1 cf.nz cf.bz (fun k' => g i j k') k

def idxAx (ax i j k : Nat) : Nat :=
  match ax with
  | 0 => i
  | 1 => j
  | _ => k

def AW.ax (w : AW α) (ax : Nat) : Nat → α :=
  match ax with
  | 0 => w.wx
  | 1 => w.wy
  | _ => w.wz

/-- `jnp.roll(width, 1, axis)` on the edge-replicated widths: the previous width, `w[0]` again at index 0 -/
def wPrev (w : Nat → α) (i : Nat) : α := if i = 0 then w 0 else w (i - 1)

/-- `avg_anisotropic_E_component(pad(S-field), component, location, aniso_widths)` for the component array `S` -/
def avgE (cf : Cfg α) (aw : Option (AW α)) (comp loc : Nat) (S : F3 α) : F3 α :=
  match aw with
  | none => fun i j k =>
      (((S i j k + nextAx cf loc S i j k) + prevAx cf comp S i j k) + nextAx cf loc (prevAx cf comp S) i j k) / 4
  | some w =>
      let cen : F3 α := fun i j k => (1 / 2) * (S i j k + nextAx cf loc S i j k)
      fun i j k =>
        let wd := w.ax comp (idxAx comp i j k)
        let pw := wPrev (w.ax comp) (idxAx comp i j k)
        (cen i j k * pw + prevAx cf comp cen i j k * wd) / (wd + pw)

/-- `avg_anisotropic_H_component(pad(S-field), component, location, aniso_widths)` -/
def avgH (cf : Cfg α) (aw : Option (AW α)) (comp loc : Nat) (S : F3 α) : F3 α :=
  match aw with
  | none => fun i j k =>
      (((S i j k + prevAx cf loc S i j k) + nextAx cf comp S i j k) + prevAx cf loc (nextAx cf comp S) i j k) / 4
  | some w =>
      let onEdge : F3 α := fun i j k =>
        let wd := w.ax loc (idxAx loc i j k)
        let pw := wPrev (w.ax loc) (idxAx loc i j k)
        (S i j k * pw + prevAx cf loc S i j k * wd) / (wd + pw)
      fun i j k => (1 / 2) * (onEdge i j k + nextAx cf comp onEdge i j k)

/-! ### the full-tensor branches -/

/-- the three rows `A·(field, neighbours averaged to the row's location)`, resp. `B·(curl …)`, with averaging `avg` -/
def rowsApply (avg : Nat → Nat → F3 α → F3 α) (T : F3 (M3 α)) (V : V3 α) : V3 α where
  x := fun i j k => (T i j k).xx * V.x i j k + (T i j k).xy * avg 1 0 V.y i j k + (T i j k).xz * avg 2 0 V.z i j k
  y := fun i j k => (T i j k).yx * avg 0 1 V.x i j k + (T i j k).yy * V.y i j k + (T i j k).yz * avg 2 1 V.z i j k
  z := fun i j k => (T i j k).zx * avg 0 2 V.x i j k + (T i j k).zy * avg 1 2 V.y i j k + (T i j k).zz * V.z i j k

def sigAt (sig : Option (F3 (M3 α))) (i j k : Nat) : Option (M3 α) := sig.map (fun f => f i j k)

/-- `update_E`, full anisotropic branch: `E ← A·E + B·curl(H)`, sources, PEC walls -/
def stepEFull (cf : Cfg α) (aw : Option (AW α)) (inv : F3 (M3 α)) (sig : Option (F3 (M3 α))) (jE : V3 α) (E H : V3 α) : V3 α :=
  let cu := curlH cf H
  let A : F3 (M3 α) := fun i j k => (updMats cf.c cf.eta0 (inv i j k) (sigAt sig i j k)).1
  let B : F3 (M3 α) := fun i j k => (updMats cf.c cf.eta0 (inv i j k) (sigAt sig i j k)).2
  projE cf (addV (addV (rowsApply (avgE cf aw) A E) (rowsApply (avgE cf aw) B cu)) jE)

/-- `update_H`, full anisotropic branch: `H ← A·H − B·curl(E)` -/
def stepHFull (cf : Cfg α) (aw : Option (AW α)) (inv : F3 (M3 α)) (sig : Option (F3 (M3 α))) (jH : V3 α) (E H : V3 α) : V3 α :=
  let cu := curlE cf E
  let A : F3 (M3 α) := fun i j k => (updMats cf.c (1 / cf.eta0) (inv i j k) (sigAt sig i j k)).1
  let B : F3 (M3 α) := fun i j k => (updMats cf.c (1 / cf.eta0) (inv i j k) (sigAt sig i j k)).2
  projH cf (addV (subV (rowsApply (avgH cf aw) A H) (rowsApply (avgH cf aw) B cu)) jH)

/-- `update_E_reverse`, full anisotropic branch: sources removed, `E ← A_rev·E − B_rev·curl(H)` -/
def revStepEFull (cf : Cfg α) (aw : Option (AW α)) (inv : F3 (M3 α)) (sig : Option (F3 (M3 α))) (jE : V3 α) (E H : V3 α) : V3 α :=
  let cu := curlH cf H
  let E0 := subV E jE
  let A : F3 (M3 α) := fun i j k => (updMatsRev cf.c cf.eta0 (inv i j k) (sigAt sig i j k)).1
  let B : F3 (M3 α) := fun i j k => (updMatsRev cf.c cf.eta0 (inv i j k) (sigAt sig i j k)).2
  projE cf (subV (rowsApply (avgE cf aw) A E0) (rowsApply (avgE cf aw) B cu))

/-- `update_H_reverse`, full anisotropic branch: `H ← A_rev·H + B_rev·curl(E)` -/
def revStepHFull (cf : Cfg α) (aw : Option (AW α)) (inv : F3 (M3 α)) (sig : Option (F3 (M3 α))) (jH : V3 α) (E H : V3 α) : V3 α :=
  let cu := curlE cf E
  let H0 := subV H jH
  let A : F3 (M3 α) := fun i j k => (updMatsRev cf.c (1 / cf.eta0) (inv i j k) (sigAt sig i j k)).1
  let B : F3 (M3 α) := fun i j k => (updMatsRev cf.c (1 / cf.eta0) (inv i j k) (sigAt sig i j k)).2
  projH cf (addV (rowsApply (avgH cf aw) A H0) (rowsApply (avgH cf aw) B cu))

/-! ### tier dispatch and the time step -/

def stepEA (cf : Cfg α) (aw : Option (AW α)) (m : MatA α) (jE : V3 α) (E H : V3 α) : V3 α :=
  if m.fullE then stepEFull cf aw m.invEps.expand (m.sigE.map Tens.expand) jE E H else stepE cf m.diagMat jE E H

def stepHA (cf : Cfg α) (aw : Option (AW α)) (m : MatA α) (jH : V3 α) (E H : V3 α) : V3 α :=
  if m.fullH then stepHFull cf aw m.invMu.expand (m.sigH.map Tens.expand) jH E H else stepH cf m.diagMat jH E H

def revStepEA (cf : Cfg α) (aw : Option (AW α)) (m : MatA α) (jE : V3 α) (E H : V3 α) : V3 α :=
  if m.fullE then revStepEFull cf aw m.invEps.expand (m.sigE.map Tens.expand) jE E H else revStepE cf m.diagMat jE E H

def revStepHA (cf : Cfg α) (aw : Option (AW α)) (m : MatA α) (jH : V3 α) (E H : V3 α) : V3 α :=
  if m.fullH then revStepHFull cf aw m.invMu.expand (m.sigH.map Tens.expand) jH E H else revStepH cf m.diagMat jH E H

/-- `forward` for any material tier -/
def forwardA (cf : Cfg α) (aw : Option (AW α)) (m : MatA α) (jE jH : V3 α) (E H : V3 α) : V3 α × V3 α :=
  let E' := stepEA cf aw m jE E H
  (E', stepHA cf aw m jH E' H)

/-- `backward` for any material tier -/
def backwardA (cf : Cfg α) (aw : Option (AW α)) (m : MatA α) (jE jH : V3 α) (E H : V3 α) : V3 α × V3 α :=
  let H' := revStepHA cf aw m jH E H
  (revStepEA cf aw m jE E H', H')

end ops

end Fdtdx.YeeAniso
