/-
C36 — model of the dispersive (ADE) branch of `fdtdx.fdtd.update.update_E` for one field component of one
cell, of the placement-time acceptance of dispersive media, and of the grid-Nyquist mode of a homogeneous
dispersive medium.

Mirrors
  `update_E`, isotropic/diagonal tier, `dispersive_P_curr is not None` branch   → `cellStep`
      x      = `factor * E + c * curl * inv_eps`   (the explicit non-dispersive part; the curl is an input)
      l      = `c * sigma_E * eta0 * inv_eps / 2`  (0 when there is no conductivity array)
      P_hat  = c1 P_curr + c2 P_prev + c3 E ;  E += inv_eps * Σ(P_curr - P_hat)
      c4 allocated: divisor = 1 + inv_eps Σ c4 (+ l); E /= divisor; P_new = P_hat + c4 E
      else        : P_new = P_hat; E /= (1 + l)
      P_prev := P_curr
  the same branch without polarisation arrays (`elif sigma_E is not None` / plain)  → `ndStep`
  `materials._coupled_dispersive_stability_measure` / `validate_dispersive_coupled_stability` (after the
      `fix:` commit) for axis-aligned poles of an isotropic material                → `measure`, `warns`
  the tree as found (only `omega_0*dt < 2` per coupling pole, C35.coefChecked)    → `AsFound.warns = false`
  homogeneous periodic box, field `∝ (-1)^{i+j+k}` (grid-Nyquist mode), one Lorentz/Drude pole: the step
      of `forward` (update_E then update_H) on the amplitudes `(e, h, p, p_prev)`   → `nyqStep`
      (the discrete curl of that pattern is `±2√3/Δ` times the rotated amplitude, `c = courant_factor/√3`,
       so the couplings are `κ = 2·courant_factor`; tied to the real `forward` by K)
Simplified: one component of one cell (the update is pointwise given the curl); sources, PEC/PMC
post-processing and the fully anisotropic kernel (oriented poles) are not modelled.
-/
import FdtdxModel.Proto
namespace Fdtdx.C36

section generic
variable {α : Type} [Add α] [Sub α] [Mul α] [Div α] [Neg α] [OfNat α 0] [OfNat α 1] [OfNat α 2]

/-- coefficients and polarisation state of one pole slot in one cell -/
structure PoleCell (α : Type) where
  c1 : α
  c2 : α
  c3 : α
  c4 : α
  p : α
  pp : α

def sumBy (f : PoleCell α → α) : List (PoleCell α) → α
  | [] => 0
  | q :: r => f q + sumBy f r

/-- explicit part of the recurrence -/
def pHat (e : α) (q : PoleCell α) : α := q.c1 * q.p + q.c2 * q.pp + q.c3 * e

/-- the new E value of the cell -/
def cellE (invEps l x e : α) (hasC4 : Bool) (ps : List (PoleCell α)) : α :=
  let e1 := x + invEps * sumBy (fun q => q.p - pHat e q) ps
  if hasC4 then e1 / (1 + invEps * sumBy (fun q => q.c4) ps + l) else e1 / (1 + l)

/-- one dispersive update of one cell component: new E and new pole states -/
def cellStep (invEps l x e : α) (hasC4 : Bool) (ps : List (PoleCell α)) : α × List (PoleCell α) :=
  let e2 := cellE invEps l x e hasC4 ps
  (e2, ps.map (fun q => { q with p := if hasC4 then pHat e q + q.c4 * e2 else pHat e q, pp := q.p }))

/-- the same cell without polarisation arrays -/
def ndStep (l x : α) : α := x / (1 + l)

/-- `n` steps of a cell whose explicit part is `factor * E + drive k` (drive = c·curl·inv_eps, any sequence) -/
def cellRun (invEps l factor : α) (hasC4 : Bool) (drive : Nat → α) : Nat → α × List (PoleCell α) → α × List (PoleCell α)
  | 0, s => s
  | n + 1, s =>
    let s' := cellRun invEps l factor hasC4 drive n s
    cellStep invEps l (factor * s'.1 + drive n) s'.1 hasC4 s'.2

def ndRun (l factor : α) (drive : Nat → α) : Nat → α → α
  | 0, e => e
  | n + 1, e => let e' := ndRun l factor drive n e; ndStep l (factor * e' + drive n)

/-- polarisation of one pole driven by a given field history, from rest:
    `P_{n+1} = c1 P_n + c2 P_{n-1} + c3 E_n + c4 E_{n+1}`; returns `(P_n, P_{n-1})` -/
def pTraj (c1 c2 c3 c4 : α) (E : Nat → α) : Nat → α × α
  | 0 => (0, 0)
  | n + 1 => let s := pTraj c1 c2 c3 c4 E n; (c1 * s.1 + c2 * s.2 + c3 * E n + c4 * E (n + 1), s.1)

/-! ### acceptance -/

/-- `_coupled_dispersive_stability_measure` for one axis: `(cf²/μ + Σ (c3-c4)/(1+c1-c2)) / ε∞`
    over the slots that couple -/
def measure [BEq α] (cf eps mu : α) (ps : List (PoleCell α)) : α :=
  (cf * cf * (1 / mu) + sumBy (fun q => if (q.c3 - q.c4) == 0 then 0 else (q.c3 - q.c4) / (1 + q.c1 - q.c2)) ps) / eps

/-- `validate_dispersive_coupled_stability`: a warning is emitted iff `measure > 1 - margin` -/
def warns [BEq α] [LT α] [DecidableLT α] (cf eps mu margin : α) (ps : List (PoleCell α)) : Bool :=
  decide (1 - margin < measure cf eps mu ps)

namespace AsFound
/-- the pinned tree has no coupled check at all: Lorentz/Drude media that pass `omega_0*dt < 2` are silent -/
def warns (_cf _eps _mu : α) (_ps : List (PoleCell α)) : Bool := false
end AsFound

/-! ### grid-Nyquist mode of a homogeneous medium with one pole (`c4 = 0`) -/

structure Nyq (α : Type) where
  e : α
  h : α
  p : α
  pp : α

/-- `forward` on the Nyquist amplitudes: `κ = 2·courant_factor` -/
def nyqStep (kappa invEps invMu c1 c2 c3 : α) (s : Nyq α) : Nyq α :=
  let ph := c1 * s.p + c2 * s.pp + c3 * s.e
  let e' := s.e + kappa * s.h * invEps + invEps * (s.p - ph)
  ⟨e', s.h - kappa * e' * invMu, ph, s.p⟩

def nyqRun (kappa invEps invMu c1 c2 c3 : α) : Nat → Nyq α → Nyq α
  | 0, s => s
  | n + 1, s => nyqStep kappa invEps invMu c1 c2 c3 (nyqRun kappa invEps invMu c1 c2 c3 n s)

/-- characteristic polynomial of `nyqStep` (κ² = 4 cf², ν2 = cf²·invEps·invMu):
    `(z-1)² (z² - c1 z - c2 + c3·invEps·z) + 4 ν2 z (z² - c1 z - c2)` -/
def charPoly (nu2 invEps c1 c2 c3 z : α) : α :=
  (z - 1) * (z - 1) * (z * z - c1 * z - c2 + c3 * invEps * z) + (2 * 2) * nu2 * z * (z * z - c1 * z - c2)

end generic

/-! ### Driver -/
open Proto

private def polesOf : List Float → Option (List (PoleCell Float))
  | [] => some []
  | a :: b :: c :: d :: p :: pp :: r => (polesOf r).map (fun l => ⟨a, b, c, d, p, pp⟩ :: l)
  | _ => none

/-- ops (binary64 bit patterns):
  `cell hasC4 invEps l x e (c1 c2 c3 c4 p pp)*`   → `e' (p' pp')*`
  `nd l x`                                        → `e'`
  `ptraj c1 c2 c3 c4 E_0 … E_T`                   → `P_1 … P_T`
  `measure cf eps mu (c1 c2 c3 c4 0 0)*`          → measure
  `warns cf eps mu margin (c1 c2 c3 c4 0 0)*`     → `1`/`0`
  `nyq n kappa invEps invMu c1 c2 c3 e h p pp`    → `e h p pp` after n steps
  `charpoly nu2 invEps c1 c2 c3 z`                → value
-/
def handle : List String → String
  | "cell" :: flag :: xs => match floatsOfHex xs with
    | some (invEps :: l :: x :: e :: rest) => match polesOf rest, flag with
      | some ps, "0" | some ps, "1" =>
        let r := cellStep invEps l x e (flag == "1") ps
        showFloats (r.1 :: r.2.flatMap (fun q => [q.p, q.pp]))
      | _, _ => "bad-op"
    | _ => "bad-op"
  | "nd" :: xs => match floatsOfHex xs with
    | some [l, x] => hexOfFloat (ndStep l x)
    | _ => "bad-op"
  | "ptraj" :: xs => match floatsOfHex xs with
    | some (c1 :: c2 :: c3 :: c4 :: es) =>
      if es.isEmpty then "bad-op" else
      let E : Nat → Float := fun n => es.getD n 0.0
      showFloats ((List.range (es.length - 1)).map (fun n => (pTraj c1 c2 c3 c4 E (n + 1)).1))
    | _ => "bad-op"
  | "measure" :: xs => match floatsOfHex xs with
    | some (cf :: eps :: mu :: rest) => match polesOf rest with
      | some ps => hexOfFloat (measure cf eps mu ps)
      | none => "bad-op"
    | _ => "bad-op"
  | "warns" :: xs => match floatsOfHex xs with
    | some (cf :: eps :: mu :: margin :: rest) => match polesOf rest with
      | some ps => if warns cf eps mu margin ps then "1" else "0"
      | none => "bad-op"
    | _ => "bad-op"
  | "nyq" :: n :: xs => match parseNat n, floatsOfHex xs with
    | some n, some [kappa, invEps, invMu, c1, c2, c3, e, h, p, pp] =>
      let s := nyqRun kappa invEps invMu c1 c2 c3 n ⟨e, h, p, pp⟩
      showFloats [s.e, s.h, s.p, s.pp]
    | _, _ => "bad-op"
  | "charpoly" :: xs => match floatsOfHex xs with
    | some [nu2, invEps, c1, c2, c3, z] => hexOfFloat (charPoly nu2 invEps c1 c2 c3 z)
    | _ => "bad-op"
  | _ => "bad-op"

end Fdtdx.C36
