/-
C08 — the cyclic relabelling x → y → z → x on the CPML extension of the shared Yee model (`FdtdxModel/Cpml.lean`):
index boxes (`grid_slice_tuple`), the static data of a placed PerfectlyMatchedLayer (axis, direction, box, kappa flag,
the six coefficient arrays — which are indexed by the offset along the PML's own axis and therefore travel with it) and the
four auxiliary psi arrays. Core Lean only; the theorems are in `FdtdxProps/C08Cpml.lean`.
-/
import FdtdxModel.C08
import FdtdxModel.Cpml
namespace Fdtdx.C08
open Fdtdx.Yee Fdtdx.Cpml

/-- relabelled index box: what was the extent along axis a is the extent along axis a+1 -/
def rotBox (b : Box) : Box := ⟨b.lo2, b.hi2, b.lo0, b.hi0, b.lo1, b.hi1⟩

/-- relabelled PML: the axis moves on, direction / kappa flag / coefficient arrays are unchanged -/
def rotP {α : Type} (p : Pml α) : Pml α := { p with axis := (p.axis + 1) % 3, box := rotBox p.box }

/-- relabelled PML with its auxiliary fields -/
def rotSt {α : Type} (s : PmlSt α) : PmlSt α := ⟨rotP s.p, rotF s.e1, rotF s.e2, rotF s.h1, rotF s.h2⟩

end Fdtdx.C08
