/-
C18 — model of `fdtdx.fdtd.initialization.apply_params` (material part), of `Device.__call__` with
`expand_to_sim_grid=True` (`_resample_design_params_to_sim_grid` → `core.misc.expand_matrix`, grid-count
design voxels) and of the etch backup `ArrayContainer.initial_inv_permittivities`.

Mirrors:
  apply_params:
    if arrays.initial_inv_permittivities is not None: inv_permittivities := initial   → `resetInv`
    for device in objects.devices (container order):                                    → `applyParams` (fold)
      indices = device(params[device.name], expand_to_sim_grid=True)                    → `chainOut`, `designVal`
      CONTINUOUS, not etching : perm = ε₀ + x (ε₁ − ε₀);   inv = _invert_property(perm) → `Mode.cont`
      CONTINUOUS, etching     : bg = _invert_property(inv[slice]); perm = bg + x (ε₀ − bg); inv = …(perm) → `Mode.etch`
      DISCRETE / BINARY       : inv = STE(x, inv_allowed[int(x)])  (x − sg x + sg y)    → `Mode.disc`
      dispersive coefficient stack (c1,c2,c3[,c4], flattened here to `Q` channels per cell), written when the
      simulation has dispersive poles:  continuous: (1 − x)·t[0] + x·t[1] (index 1 clamps to the last row, as
      a JAX gather does for the one-material etched device);  discrete: t[int(x)]
      arrays.at[:, *device.grid_slice].set(...)                                         → `inSlice` guard
  _invert_property: 1/a for 1 or 3 components, 3×3 matrix inverse for 9 (adjugate / determinant here; the
      implementation uses `jnp.linalg.inv`, K compares to 1e-9)                          → `invProp`
  expand_matrix: `jnp.repeat` along each axis                                           → `repeatList`, and the
      index law `designVal` (voxel (i,j,k) of the slice reads design cell ((i−lo)/v, …))
  device chain: `[]` (continuous) or `[…, ClosestIndex()]` (default branch, model of C19) → `Chain`

Fields are functions `channel → i → j → k → value` (`Fld`); the driver tabulates them.  Scalars are
generic.  Simplified: source re-application (`obj.apply` for objects overlapping a device) is not modelled;
physical-size design voxels on non-uniform grids raise NotImplementedError in the implementation.
-/
import FdtdxModel.Proto
import FdtdxModel.C19
namespace Fdtdx.C18

abbrev Fld (α : Type) := Nat → Nat → Nat → Nat → α

inductive Mode | cont | etch | disc
  deriving DecidableEq, Repr

/-- last transform of the device chain -/
inductive Chain
  | ident                 -- no discretisation: the (continuous) value is used as is
  | closest (n : Nat)     -- `ClosestIndex()` over n materials
  deriving DecidableEq, Repr

structure Dev (α : Type) where
  lo : Nat × Nat × Nat          -- grid_slice start
  hi : Nat × Nat × Nat          -- grid_slice stop (exclusive)
  v : Nat × Nat × Nat           -- single_voxel_grid_shape
  mode : Mode
  chain : Chain
  perm : List (List α)          -- allowed permittivities, ordered materials × components
  coef : List (List α)          -- dispersive coefficient rows, ordered materials × Q channels

structure State (α : Type) where
  inv : Fld α                   -- inv_permittivities
  init : Option (Fld α)         -- initial_inv_permittivities
  coef : Fld α                  -- dispersive_c1..c4 stacked on the channel axis

def inSlice {α : Type} (d : Dev α) (i j k : Nat) : Bool :=
  decide (d.lo.1 ≤ i) && decide (i < d.hi.1) && decide (d.lo.2.1 ≤ j) && decide (j < d.hi.2.1) &&
  decide (d.lo.2.2 ≤ k) && decide (k < d.hi.2.2)

/-- `expand_matrix` index law: the value of simulation cell (i,j,k) of the device slice -/
def designVal {α β : Type} (d : Dev α) (X : Nat → Nat → Nat → β) (i j k : Nat) : β :=
  X ((i - d.lo.1) / d.v.1) ((j - d.lo.2.1) / d.v.2.1) ((k - d.lo.2.2) / d.v.2.2)

/-- `jnp.repeat(l, n)` on one axis -/
def repeatList {β : Type} (l : List β) (n : Nat) : List β := l.flatMap (List.replicate n)

/-- table lookup with the clamping of a JAX gather -/
def row {α : Type} (t : List (List α)) (m : Nat) : List α := t.getD (min m (t.length - 1)) []

def entry {α : Type} [OfNat α 0] (t : List (List α)) (m c : Nat) : α := (row t m).getD c 0

/-- 3×3 inverse by adjugate / determinant; `f` gives the row-major components 0..8 -/
def inv3 {α : Type} [Add α] [Sub α] [Mul α] [Div α] (f : Nat → α) : Nat → α :=
  let a := f 0; let b := f 1; let c := f 2
  let d := f 3; let e := f 4; let g := f 5
  let h := f 6; let i := f 7; let j := f 8
  let det := a * (e * j - g * i) - b * (d * j - g * h) + c * (d * i - e * h)
  fun n => match n with
    | 0 => (e * j - g * i) / det
    | 1 => (c * i - b * j) / det
    | 2 => (b * g - c * e) / det
    | 3 => (g * h - d * j) / det
    | 4 => (a * j - c * h) / det
    | 5 => (c * d - a * g) / det
    | 6 => (d * i - e * h) / det
    | 7 => (b * h - a * i) / det
    | _ => (a * e - b * d) / det

/-- `_invert_property` at one cell: `C` components given by `f` -/
def invProp {α : Type} [Add α] [Sub α] [Mul α] [Div α] [OfNat α 1] (C : Nat) (f : Nat → α) : Nat → α :=
  if C = 9 then inv3 f else fun c => 1 / f c

/-- output of the device chain for one latent value: (value used by a continuous device, material index) -/
def chainOut {α : Type} [Sub α] [Div α] [LT α] [DecidableLT α] [OfNat α 1] [OfNat α 2]
    (floorI : α → Int) (cast : Int → α) (ch : Chain) (x : α) : α × Nat :=
  match ch with
  | .ident => (x, (floorI x).toNat)
  | .closest n => let r := C19.closestRound floorI cast n x; (cast r, r.toNat)

/-- new inverse permittivity components of one device cell; `cur` = current components of that cell -/
def cellInv {α : Type} [Add α] [Sub α] [Mul α] [Div α] [OfNat α 0] [OfNat α 1]
    (d : Dev α) (C : Nat) (cur : Nat → α) (x : α) (m : Nat) : Nat → α :=
  match d.mode with
  | .cont => invProp C (fun c => entry d.perm 0 c + x * (entry d.perm 1 c - entry d.perm 0 c))
  | .etch =>
    let bg := invProp C cur
    invProp C (fun c => bg c + x * (entry d.perm 0 c - bg c))
  | .disc => fun c => C19.ste id x (invProp C (fun c => entry d.perm m c) c)

/-- new dispersive coefficient channel `q` of one device cell -/
def cellCoef {α : Type} [Add α] [Sub α] [Mul α] [OfNat α 0] [OfNat α 1]
    (d : Dev α) (x : α) (m : Nat) (q : Nat) : α :=
  match d.mode with
  | .disc => entry d.coef m q
  | _ => (1 - x) * entry d.coef 0 q + x * entry d.coef 1 q

/-- one iteration of the device loop; `X` = chain output at design resolution -/
def applyDevice {α : Type} [Add α] [Sub α] [Mul α] [Div α] [OfNat α 0] [OfNat α 1]
    (C : Nat) (d : Dev α) (X : Nat → Nat → Nat → α × Nat) (s : State α) : State α :=
  { inv := fun c i j k =>
      if inSlice d i j k then
        let xm := designVal d X i j k
        cellInv d C (fun c' => s.inv c' i j k) xm.1 xm.2 c
      else s.inv c i j k
    init := s.init
    coef := fun q i j k =>
      if inSlice d i j k then
        let xm := designVal d X i j k
        cellCoef d xm.1 xm.2 q
      else s.coef q i j k }

/-- the reset to the etch backup at the top of `apply_params` -/
def resetInv {α : Type} (s : State α) : State α :=
  match s.init with
  | some I => { s with inv := I }
  | none => s

/-- the device loop; `X n` = chain output of the n-th device -/
def applyLoop {α : Type} [Add α] [Sub α] [Mul α] [Div α] [OfNat α 0] [OfNat α 1]
    (C : Nat) : List (Dev α) → (Nat → Nat → Nat → Nat → α × Nat) → State α → State α
  | [], _, s => s
  | d :: ds, X, s => applyLoop C ds (fun n => X (n + 1)) (applyDevice C d (X 0) s)

/-- `apply_params` (material arrays) -/
def applyParams {α : Type} [Add α] [Sub α] [Mul α] [Div α] [OfNat α 0] [OfNat α 1]
    (C : Nat) (devs : List (Dev α)) (X : Nat → Nat → Nat → Nat → α × Nat) (s : State α) : State α :=
  applyLoop C devs X (resetInv s)

/-! ### Driver -/
open Proto

/-- flat array (row-major `(ch, N0, N1, N2)`) as a field -/
def fldOf (a : Array Float) (N : Nat × Nat × Nat) : Fld Float :=
  fun c i j k => a.getD (((c * N.1 + i) * N.2.1 + j) * N.2.2 + k) 0.0

def tabulate (f : Fld Float) (ch : Nat) (N : Nat × Nat × Nat) : Array Float := Id.run do
  let mut out := Array.mkEmpty (ch * N.1 * N.2.1 * N.2.2)
  for c in [0:ch] do
    for i in [0:N.1] do
      for j in [0:N.2.1] do
        for k in [0:N.2.2] do
          out := out.push (f c i j k)
  return out

def mat3Of (a : Array Float) (M : Nat × Nat × Nat) : Nat → Nat → Nat → Float :=
  fun i j k => a.getD ((i * M.2.1 + j) * M.2.2 + k) 0.0

/-- parser state: remaining tokens -/
abbrev P := StateT (List String) Option

def pNat : P Nat := do
  match (← get) with
  | t :: r => set r; (parseNat t : Option Nat)
  | [] => failure

def pFloats (n : Nat) : P (Array Float) := do
  let l ← get
  match takeN n l with
  | some (a, r) => set r; ((floatsOfHex a).map List.toArray : Option (Array Float))
  | none => failure

def pTriple : P (Nat × Nat × Nat) := do
  let a ← pNat; let b ← pNat; let c ← pNat
  return (a, b, c)

def chunk {β : Type} (c : Nat) : Nat → List β → List (List β)
  | 0, _ => []
  | n + 1, l => l.take c :: chunk c n (l.drop c)

def pDev (C Q : Nat) : P (Dev Float) := do
  let lo ← pTriple; let hi ← pTriple; let v ← pTriple
  let mode ← pNat; let chain ← pNat; let nmat ← pNat
  let perm ← pFloats (nmat * C)
  let coef ← pFloats (nmat * Q)
  let md ← (match mode with | 0 => some Mode.cont | 1 => some Mode.etch | 2 => some Mode.disc | _ => none : Option Mode)
  return { lo := lo, hi := hi, v := v, mode := md,
           chain := if chain = 0 then Chain.ident else Chain.closest chain,
           perm := chunk C nmat perm.toList, coef := chunk Q nmat coef.toList }

def matShape (d : Dev Float) : Nat × Nat × Nat :=
  ((d.hi.1 - d.lo.1) / d.v.1, (d.hi.2.1 - d.lo.2.1) / d.v.2.1, (d.hi.2.2 - d.lo.2.2) / d.v.2.2)

def pLatents (devs : List (Dev Float)) : P (List (Array Float × (Nat × Nat × Nat))) :=
  devs.mapM (fun d => do
    let M := matShape d
    let a ← pFloats (M.1 * M.2.1 * M.2.2)
    return (a, M))

def pRepeat {β : Type} (p : P β) : Nat → P (List β)
  | 0 => pure []
  | n + 1 => do let a ← p; let r ← pRepeat p n; return a :: r

/-- `apply N0 N1 N2 C Q  inv[C·N]  hasInit [init[C·N]]  coef[Q·N]  ndev  dev…  nhist  (latents of every device)…`
    dev = `lo(3) hi(3) v(3) mode(0 cont|1 etch|2 disc) chain(0 ident | n closest) nmat perm[nmat·C] coef[nmat·Q]`
    reply: `inv[C·N] | coef[Q·N]` after applying the parameter sets of the history one after the other -/
def pApply : P String := do
  let N ← pTriple
  let C ← pNat; let Q ← pNat
  let nc := N.1 * N.2.1 * N.2.2
  let inv ← pFloats (C * nc)
  let hasInit ← pNat
  let init ← if hasInit = 1 then (do let a ← pFloats (C * nc); pure (some a)) else pure none
  let coef ← pFloats (Q * nc)
  let ndev ← pNat
  let devs ← pRepeat (pDev C Q) ndev
  let nhist ← pNat
  let hist ← pRepeat (pLatents devs) nhist
  if !(← get).isEmpty then failure
  if C ≠ 1 ∧ C ≠ 3 ∧ C ≠ 9 then return "error"
  if devs.any (fun d => d.v.1 = 0 ∨ d.v.2.1 = 0 ∨ d.v.2.2 = 0 ∨ d.perm.isEmpty) then return "error"
  let mut s : State Float := { inv := fldOf inv N, init := init.map (fldOf · N), coef := fldOf coef N }
  for lat in hist do
    let X : Nat → Nat → Nat → Nat → Float × Nat := fun n i j k =>
      match devs[n]?, lat[n]? with
      | some d, some (a, M) => chainOut C19.floorF C19.castF d.chain (mat3Of a M i j k)
      | _, _ => (0.0, 0)
    let s' := applyParams C devs X s
    -- materialise between parameter sets
    let ia := tabulate s'.inv C N
    let ca := tabulate s'.coef Q N
    s := { inv := fldOf ia N, init := s'.init, coef := fldOf ca N }
  return s!"{showFloats (tabulate s.inv C N).toList} | {showFloats (tabulate s.coef Q N).toList}"

/-- `repeat n x…` → jnp.repeat of the list (integers) -/
def handle : List String → String
  | "apply" :: rest =>
    match pApply.run rest with
    | some (r, _) => r
    | none => "bad-op"
  | "repeat" :: n :: xs =>
    match parseNat n, natsOf xs with
    | some n, some xs => showNats (repeatList xs n)
    | _, _ => "bad-op"
  | _ => "bad-op"

end Fdtdx.C18
