/-
C11 — transport of CPML layers (static coefficient arrays and the four auxiliary psi arrays) along a scalar map, for the
naturality theorem about `Cpml.forwardP` (complex storage of a run with PerfectlyMatchedLayer objects).  No new model
of fdtdx code: `forwardP` is that of `Cpml.lean` (op `pmlfwd`, exercised by C03, C12 and harness/c10.py).
-/
import FdtdxModel.Cpml
namespace Fdtdx.C11
open Fdtdx.Yee Fdtdx.Cpml

def mapF {α β : Type} (φ : α → β) (f : F3 α) : F3 β := fun i j k => φ (f i j k)

def mapPml {α β : Type} (φ : α → β) (p : Pml α) : Pml β :=
  { axis := p.axis, plus := p.plus, box := p.box, kappaDefault := p.kappaDefault,
    aE := fun o => φ (p.aE o), bE := fun o => φ (p.bE o), ikE := fun o => φ (p.ikE o),
    aH := fun o => φ (p.aH o), bH := fun o => φ (p.bH o), ikH := fun o => φ (p.ikH o) }

def mapSt {α β : Type} (φ : α → β) (s : PmlSt α) : PmlSt β :=
  { p := mapPml φ s.p, e1 := mapF φ s.e1, e2 := mapF φ s.e2, h1 := mapF φ s.h1, h2 := mapF φ s.h2 }

end Fdtdx.C11
