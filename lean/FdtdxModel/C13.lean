/-
C13 — total-field/scattered-field injection of a normal-incidence plane source.

Mirrors
  fdtdx/objects/sources/tfsf.py   _tfsf_inject_E_face / _tfsf_inject_H_face  (diagonal branch and fully anisotropic branch,
                                  real incident profile: the quadrature branch is only taken for complex incident fields),
                                  TFSFPlaneSource.update_E / update_H (sign from direction and `inverse`, Courant number times
                                  `_metric_scale_at_plane("backward" | "forward")`)
  fdtdx/core/axis.py              get_oriented_transverse_axes
for every normal axis and both directions, at one cell of the source plane.  The values of the temporal profile at the
E and H sample times (`(time_step + time_offset) * dt`, offsets from `calculate_time_offset_yee`) times
`static_amplitude_factor` are inputs (`ampE`, `ampH`, one per component): transcendental functions stay outside.

`Line`: the same injection in the 1-D reduction of the shared Yee step (`FdtdxModel/Yee.lean`) to fields that are uniform in
the two transverse (periodic) directions: one polarisation pair (e, h) = (E_a, H_b) with q = +1 or (E_b, H_a) with
q = −1 on a line of `n` cells along the propagation axis, zero halo, metric scales `sf`, `sb`, media `ie`, `im` per cell.
-/
import FdtdxModel.Yee
namespace Fdtdx.C13
open Fdtdx.Yee

/-- `get_oriented_transverse_axes(axis)` -/
def orientedAxes (axis : Nat) : Nat × Nat := ((axis + 1) % 3, (axis + 2) % 3)

section
variable {α : Type} [Add α] [Sub α] [Mul α] [Div α] [Neg α] [OfNat α 0] [OfNat α 1] [OfNat α 2]

/-- sign of `TFSFPlaneSource.update_E/update_H`: +1 for direction "+", −1 for "-", negated for the inverse update -/
def planeSign (dirPlus inverse : Bool) : α :=
  let s : α := if dirPlus then 1 else -1
  if inverse then -s else s

/-- `courant_number * _metric_scale_at_plane(stencil)`; `grid = none` is the uniform grid (scale 1.0),
`some (ref, w, wprev)`: reference spacing, width of the plane's cell, width of the cell before it (the cell itself at index 0) -/
def cE (courant : α) (grid : Option (α × α × α)) : α :=
  match grid with
  | none => courant * 1
  | some (ref, w, wprev) => courant * (ref / ((w + wprev) / 2))

def cH (courant : α) (grid : Option (α × α × α)) : α :=
  match grid with
  | none => courant * 1
  | some (ref, w, _) => courant * (ref / w)

/-- `_tfsf_inject_E_face`, diagonal / isotropic branch: increment of E component `comp` at one cell of the face.
`incH`, `ampH`, `invEps` are indexed by component. -/
def injectE (normal : Nat) (sign : α) (incH ampH invEps : Nat → α) (c : α) (comp : Nat) : α :=
  let (a, b) := orientedAxes normal
  if comp = a then sign * (incH b * ampH b * c * invEps a)
  else if comp = b then (-sign) * (incH a * ampH a * c * invEps b)
  else 0

/-- `_tfsf_inject_H_face`, diagonal / isotropic / scalar branch -/
def injectH (normal : Nat) (sign : α) (incE ampE invMu : Nat → α) (c : α) (comp : Nat) : α :=
  let (a, b) := orientedAxes normal
  if comp = b then sign * (incE a * ampE a * c * invMu b)
  else if comp = a then (-sign) * (incE b * ampE b * c * invMu a)
  else 0

/-- fully anisotropic branch of `_tfsf_inject_E_face`: `invEps row col` -/
def injectEFull (normal : Nat) (sign : α) (incH ampH : Nat → α) (invEps : Nat → Nat → α) (c : α) (row : Nat) : α :=
  let (a, b) := orientedAxes normal
  if row < 3 then sign * (c * (invEps row a * (incH b * ampH b) + invEps row b * (-(incH a * ampH a)))) else 0

/-- fully anisotropic branch of `_tfsf_inject_H_face` -/
def injectHFull (normal : Nat) (sign : α) (incE ampE : Nat → α) (invMu : Nat → Nat → α) (c : α) (row : Nat) : α :=
  let (a, b) := orientedAxes normal
  if row < 3 then sign * (c * (invMu row a * (-(incE b * ampE b)) + invMu row b * (incE a * ampE a))) else 0

/-! ### 1-D reduction (transversally uniform fields) -/

/-- zero-halo boundary data of the propagation axis (PML/none faces use constant padding) -/
def zeroBC : AxisBC α := ⟨false, 1, 1, false, false, false, false⟩

/-- E half step of the pair on the line: `E_a' = E_a + c·curlH_a·ε⁻¹` with `curlH_a = −q·(h_k − h_{k−1})·sb_k`, plus the
source term -/
def lineStepE (n : Nat) (q c : α) (sb ie : Nat → α) (jE : Nat → α) (e h : Nat → α) : Nat → α :=
  fun k => e k + c * (-(q * ((h k - prev1 n zeroBC h k) * sb k))) * ie k + jE k

/-- H half step: `H_b' = H_b − c·curlE_b·μ⁻¹` with `curlE_b = q·(e'_{k+1} − e'_k)·sf_k`, plus the source term -/
def lineStepH (n : Nat) (q c : α) (sf im : Nat → α) (jH : Nat → α) (e' h : Nat → α) : Nat → α :=
  fun k => h k - c * (q * ((next1 n zeroBC e' k - e' k) * sf k)) * im k + jH k

/-- TFSF source terms on the line: plane at cell `k0`, sign `s`, incident values `hinc` (at the H sample time) and
`einc` (at the E sample time), Courant number `c` (the metric of the plane's cell is `sb k0` resp. `sf k0`) -/
def lineJE (k0 : Nat) (q s c : α) (sb ie : Nat → α) (hinc : α) : Nat → α :=
  fun k => if k = k0 then q * (s * (hinc * (c * sb k0) * ie k0)) else 0

def lineJH (k0 : Nat) (q s c : α) (sf im : Nat → α) (einc : α) : Nat → α :=
  fun k => if k = k0 then q * (s * (einc * (c * sf k0) * im k0)) else 0

/-- one full step on the line with the TFSF plane; `hinc` is the incident H of the plane's cell before the step,
`einc'` the incident E of the plane's cell after the E half step -/
def lineStep (n k0 : Nat) (q s c : α) (sf sb ie im : Nat → α) (hinc einc' : α) (e h : Nat → α) :
    (Nat → α) × (Nat → α) :=
  let e' := lineStepE n q c sb ie (lineJE k0 q s c sb ie hinc) e h
  (e', lineStepH n q c sf im (lineJH k0 q s c sf im einc') e' h)

end

/-! ### driver -/
open Fdtdx.Proto

def fn3 (l : List Float) : Nat → Float := fun i => l.getD i 0.0

/-- `inject normal dirPlus inverse (u | n ref w wprev) courant incE[3] incH[3] ampE[3] ampH[3] invEps[3] invMu[3]`
→ dE[3] dH[3] -/
def injectOp (full : Bool) (toks : List String) : String :=
  match toks with
  | nrm :: dp :: inv :: rest =>
    match parseNat nrm, dp, inv with
    | some normal, dp, inv =>
      if normal > 2 || !(dp == "0" || dp == "1") || !(inv == "0" || inv == "1") then "bad-op" else
      let gridRest : Option (Option (Float × Float × Float) × List String) :=
        match rest with
        | "u" :: r => some (none, r)
        | "n" :: a :: b :: c :: r =>
          match floatOfHex a, floatOfHex b, floatOfHex c with
          | some a, some b, some c => some (some (a, b, c), r)
          | _, _, _ => none
        | _ => none
      match gridRest with
      | none => "bad-op"
      | some (grid, r) =>
        match floatsOfHex r with
        | none => "bad-op"
        | some v =>
          let nmat := if full then 9 else 3
          if v.length != 1 + 12 + 2 * nmat then "bad-op" else
          let courant := v.getD 0 0.0
          let seg (o len : Nat) : List Float := (v.drop (1 + o)).take len
          let incE := fn3 (seg 0 3); let incH := fn3 (seg 3 3)
          let ampE := fn3 (seg 6 3); let ampH := fn3 (seg 9 3)
          let sign : Float := planeSign (dp == "1") (inv == "1")
          let ce := cE courant grid; let ch := cH courant grid
          if full then
            let ie := seg 12 9; let im := seg 21 9
            let ieF : Nat → Nat → Float := fun r c => ie.getD (3 * r + c) 0.0
            let imF : Nat → Nat → Float := fun r c => im.getD (3 * r + c) 0.0
            showFloats ((List.range 3).map (injectEFull normal sign incH ampH ieF ce)
              ++ (List.range 3).map (injectHFull normal sign incE ampE imF ch))
          else
            let ie := fn3 (seg 12 3); let im := fn3 (seg 15 3)
            showFloats ((List.range 3).map (injectE normal sign incH ampH ie ce)
              ++ (List.range 3).map (injectH normal sign incE ampE im ch))
    | _, _, _ => "bad-op"
  | _ => "bad-op"

/-- `line n k0 q s c steps  sf[n] sb[n] ie[n] im[n]  hinc[steps] einc'[steps]  e[n] h[n]` → e[n] h[n] after the steps -/
def lineOp (toks : List String) : String :=
  match toks with
  | ns :: k0s :: stepss :: rest =>
    match parseNat ns, parseNat k0s, parseNat stepss, floatsOfHex rest with
    | some n, some k0, some steps, some v =>
      if v.length != 3 + 6 * n + 2 * steps then "bad-op" else
      let q := v.getD 0 0.0; let s := v.getD 1 0.0; let c := v.getD 2 0.0
      let arr (o len : Nat) : Array Float := ((v.drop (3 + o)).take len).toArray
      let f (a : Array Float) : Nat → Float := fun i => a.getD i 0.0
      let sf := f (arr 0 n); let sb := f (arr n n); let ie := f (arr (2 * n) n); let im := f (arr (3 * n) n)
      let hinc := arr (4 * n) steps; let einc := arr (4 * n + steps) steps
      let e0 := arr (4 * n + 2 * steps) n; let h0 := arr (5 * n + 2 * steps) n
      let res := Id.run do
        let mut e := e0; let mut h := h0
        for t in [0:steps] do
          let (e', h') := lineStep n k0 q s c sf sb ie im (hinc.getD t 0.0) (einc.getD t 0.0) (f e) (f h)
          e := Array.ofFn (n := n) (fun i => e' i.val)
          h := Array.ofFn (n := n) (fun i => h' i.val)
        return (e, h)
      showFloats (res.1.toList ++ res.2.toList)
    | _, _, _, _ => "bad-op"
  | _ => "bad-op"

def handle : List String → String
  | "inject" :: rest => injectOp false rest
  | "injectfull" :: rest => injectOp true rest
  | "line" :: rest => lineOp rest
  | "axes" :: [a] => match parseNat a with
    | some n => if n > 2 then "bad-op" else showNats [(orientedAxes n).1, (orientedAxes n).2]
    | none => "bad-op"
  | _ => "bad-op"

end Fdtdx.C13
