/-
C14 — model of `fdtdx.core.switch` (`OnOffSwitch`, `is_on_at_time_step`) and of the gating glue around it.

Mirrors
  core/switch.py
    is_on_at_time_step                     → `window` (validation + derivation of start/end, statement by statement,
                                              with the mutable locals `start_time` / `end_time` / `on_for_time`
                                              threaded through) and `isOn`
    OnOffSwitch.calculate_on_list          → `onList`  (case 1: `fixedList`, Python list indexing incl. negative
                                              indices and IndexError; case 2: `cur_on and t % interval == 0`,
                                              short-circuit, ZeroDivisionError only on an active step)
    OnOffSwitch.calculate_time_step_to_on_arr_idx, Detector.place_on_grid (same loop) → `idxMap`
    OnOffSwitch.is_default_always_on       → `isDefaultAlwaysOn`
  objects/sources/source.py
    Source.adjust_time_step_by_on_off (core/misc.linear_interpolated_indexing at an integer point)
                                           → `adjTime`  ( (v + v) / (2 + 1e-8), the two coinciding floor/ceil nodes )
  fdtd/update.py
    update_E / update_H / *_reverse  `lax.cond(source.is_on_at_time_step(t), _update, lambda: E)`  → `gatedSource`
    update_detector_states           `lax.cond(d._is_on_at_time_step_arr[t], helper_fn, keep)`      → `detStep`
  objects/detectors/field.py (and every time-domain detector): `state.at[_time_step_to_arr_idx[t]].set(rec)` → `detStep`

Simplified: `math.inf` is `none` in the `Option α` end time (it never enters arithmetic: see
`window_never_unreachable` in FdtdxProps/C14.lean); the "This should never happen" raises are `Err.never`.
Scalars are generic (ordered field in the theorems, `Float` in the driver); `cast : Nat → α` is int→float.
-/
import FdtdxModel.Proto
namespace Fdtdx.C14

inductive Err where
  | needPeriod    -- "Need to specify period!"
  | badStart      -- "Invalid start time specification!"
  | badEnd        -- "Invalid end time specification!"
  | never         -- "This should never happen"
  | zeroInterval  -- ZeroDivisionError of `t % 0`
  | indexError    -- IndexError of `on_list[t_idx] = True`
  deriving Repr, DecidableEq

def Err.name : Err → String
  | .needPeriod => "need-period" | .badStart => "bad-start" | .badEnd => "bad-end"
  | .never => "never" | .zeroInterval => "zero-interval" | .indexError => "index-error"

structure Switch (α : Type) where
  startTime : Option α := none
  startAfterPeriods : Option α := none
  endTime : Option α := none
  endAfterPeriods : Option α := none
  onForTime : Option α := none
  onForPeriods : Option α := none
  period : Option α := none
  fixedSteps : Option (List Int) := none
  alwaysOff : Bool := false
  interval : Int := 1

/-- Python's `end_time` local: `None`, `math.inf`, or a number -/
inductive EndT (α : Type) where
  | unset | inf | at (x : α)

def b2n (b : Bool) : Nat := if b then 1 else 0

/-- the six summands of `num_start_specs` -/
def numStartSpecs {α : Type} (s : Switch α) : Nat :=
  b2n s.startTime.isSome + b2n s.startAfterPeriods.isSome
  + b2n (s.onForTime.isSome && s.endTime.isSome) + b2n (s.onForPeriods.isSome && s.endTime.isSome)
  + b2n (s.onForTime.isSome && s.endAfterPeriods.isSome) + b2n (s.onForPeriods.isSome && s.endAfterPeriods.isSome)

/-- the six summands of `num_end_specs`; `st` is the local `start_time` AFTER the `= 0` default -/
def numEndSpecs {α : Type} (s : Switch α) (st : Option α) : Nat :=
  b2n s.endTime.isSome + b2n s.endAfterPeriods.isSome
  + b2n (s.onForTime.isSome && st.isSome) + b2n (s.onForPeriods.isSome && st.isSome)
  + b2n (s.onForTime.isSome && s.startAfterPeriods.isSome) + b2n (s.onForPeriods.isSome && s.startAfterPeriods.isSome)

/-- `is_on_at_time_step` below the `is_always_off` test up to "check if on": the derived `(start, end)`,
    `end = none` meaning `math.inf` -/
def window {α : Type} [Add α] [Sub α] [Mul α] [OfNat α 0] (s : Switch α) : Except Err (α × Option α) :=
  let needPeriod := s.startAfterPeriods.isSome || s.endAfterPeriods.isSome || s.onForPeriods.isSome
  if needPeriod && s.period.isNone then .error .needPeriod else
  let nStart := numStartSpecs s
  if nStart > 1 then .error .badStart else
  let st0 : Option α := if nStart = 0 then some 0 else s.startTime
  let nEnd := numEndSpecs s st0
  if nEnd > 1 then .error .badEnd else
  let en0 : EndT α := if nEnd = 0 then .inf else (match s.endTime with | some e => .at e | none => .unset)
  -- period to actual time
  let st1 : Except Err (Option α) := match s.startAfterPeriods with
    | some a => (match s.period with | some p => .ok (some (a * p)) | none => .error .never)
    | none => .ok st0
  let en1 : Except Err (EndT α) := match s.endAfterPeriods with
    | some a => (match s.period with | some p => .ok (.at (a * p)) | none => .error .never)
    | none => .ok en0
  let of1 : Except Err (Option α) := match s.onForPeriods with
    | some a => (match s.period with | some p => .ok (some (a * p)) | none => .error .never)
    | none => .ok s.onForTime
  match st1, en1, of1 with
  | .error e, _, _ => .error e
  | _, .error e, _ => .error e
  | _, _, .error e => .error e
  | .ok st1, .ok en1, .ok onFor =>
    -- determine start/end time
    let st2 : Except Err (Option α) := match st1, onFor with
      | none, some d => (match en1 with
          | .unset => .error .never
          | .inf => .error .never      -- inf - d: unreachable (an end spec is present whenever start is derived)
          | .at e => .ok (some (e - d)))
      | _, _ => .ok st1
    match st2 with
    | .error e => .error e
    | .ok st2 =>
      let en2 : Except Err (EndT α) := match en1, onFor with
        | .unset, some d => (match st2 with | none => .error .never | some a => .ok (.at (a + d)))
        | _, _ => .ok en1
      match en2, st2 with
      | .error e, _ => .error e
      | .ok .unset, _ => .error .never
      | .ok _, none => .error .never
      | .ok .inf, some a => .ok (a, none)
      | .ok (.at e), some a => .ok (a, some e)

/-- `start <= time_passed and time_passed <= end` -/
def inWindow {α : Type} [LE α] [DecidableLE α] (w : α × Option α) (tp : α) : Bool :=
  decide (w.1 ≤ tp) && (match w.2 with | none => true | some e => decide (tp ≤ e))

/-- `is_on_at_time_step(..., time_step=t, time_step_duration=dt)` -/
def isOn {α : Type} [Add α] [Sub α] [Mul α] [OfNat α 0] [LE α] [DecidableLE α]
    (cast : Nat → α) (s : Switch α) (dt : α) (t : Nat) : Except Err Bool :=
  if s.alwaysOff then .ok false else
  match window s with
  | .error e => .error e
  | .ok w => .ok (inWindow w (cast t * dt))

/-- Python `t % k == 0` for `k ≠ 0` (sign of `k` irrelevant) -/
def onGrid (k : Int) (t : Nat) : Bool := (t : Int) % k == 0

/-- one iteration of the case-2 loop of `calculate_on_list` -/
def onAt {α : Type} [Add α] [Sub α] [Mul α] [OfNat α 0] [LE α] [DecidableLE α]
    (cast : Nat → α) (s : Switch α) (dt : α) (t : Nat) : Except Err Bool :=
  match isOn cast s dt t with
  | .error e => .error e
  | .ok false => .ok false
  | .ok true => if s.interval = 0 then .error .zeroInterval else .ok (onGrid s.interval t)

/-- `for t in range(T)` with the first raised exception aborting the loop -/
def collect (f : Nat → Except Err Bool) : Nat → Except Err (List Bool)
  | 0 => .ok []
  | n + 1 => match collect f n with
    | .error e => .error e
    | .ok l => (match f n with | .error e => .error e | .ok b => .ok (l ++ [b]))

/-- Python `lst[i] = True` on a list of length `T`: negative indices wrap once, otherwise IndexError -/
def pyIndex (T : Nat) (i : Int) : Option Nat :=
  if 0 ≤ i ∧ i < T then some i.toNat
  else if i < 0 ∧ -(T : Int) ≤ i then some (i + T).toNat
  else none

/-- case 1 of `calculate_on_list` -/
def fixedList (T : Nat) : List Int → Except Err (List Bool)
  | [] => .ok (List.replicate T false)
  | i :: rest => match pyIndex T i with
    | none => .error .indexError
    | some j => (match fixedList T rest with
        | .error e => .error e
        | .ok l => .ok (l.set j true))

/-- `OnOffSwitch.calculate_on_list(num_total_time_steps=T, time_step_duration=dt)` -/
def onList {α : Type} [Add α] [Sub α] [Mul α] [OfNat α 0] [LE α] [DecidableLE α]
    (cast : Nat → α) (s : Switch α) (dt : α) (T : Nat) : Except Err (List Bool) :=
  match s.fixedSteps with
  | some l => fixedList T l
  | none => collect (onAt cast s dt) T

/-- the counter loop of `calculate_time_step_to_on_arr_idx` / `Detector.place_on_grid`, `c` = `counter` -/
def idxFrom : Nat → List Bool → List Int
  | _, [] => []
  | c, true :: l => (c : Int) :: idxFrom (c + 1) l
  | c, false :: l => -1 :: idxFrom c l

def idxMap (l : List Bool) : List Int := idxFrom 0 l

/-- `sum(on_list)` = `_num_time_steps_on` = leading dimension of the detector state -/
def numOn (l : List Bool) : Nat := (l.filter id).length

def isDefaultAlwaysOn {α : Type} (s : Switch α) : Bool :=
  !s.alwaysOff && s.fixedSteps.isNone && s.interval == 1 && s.startTime.isNone && s.startAfterPeriods.isNone
  && s.endTime.isNone && s.endAfterPeriods.isNone && s.onForTime.isNone && s.onForPeriods.isNone && s.period.isNone

/-- `linear_interpolated_indexing(point=[t], arr=_time_step_to_on_idx)` at an integer `t` in range:
    floor = ceil = t, both nodes have weight 1 → `(v + v) / ((1 + 1) + 1e-8)` -/
def adjTime {α : Type} [Add α] [Div α] (two eps : α) (v : α) : α := (v + v) / (two + eps)

/-- source gating of `update_E` / `update_H` (and the reverse updates): `on` and `idx` are the placed arrays,
    `upd τ E` the source's own update at (adjusted) time `τ`.  The default always-on switch bypasses `cond`
    and passes the raw time step. -/
def gatedSource {F τ : Type} (dflt : Bool) (on : Nat → Bool) (adj : Nat → τ) (raw : Nat → τ)
    (upd : τ → F → F) (t : Nat) (E : F) : F :=
  if dflt then upd (raw t) E
  else if on t then upd (adj t) E else E

/-- one `update_detector_states` call for one time-domain detector: `cond(on t, state.at[idx t].set(rec), state)` -/
def detStep {β : Type} (on : Nat → Bool) (idx : Nat → Nat) (state : Nat → β) (t : Nat) (rec : β) : Nat → β :=
  if on t then fun i => if i = idx t then rec else state i else state

/-- the detector state after steps `0 … n-1` of a run that offers `rec t` at step `t` -/
def detRun {β : Type} (on : Nat → Bool) (idx : Nat → Nat) (rec : Nat → β) (init : Nat → β) : Nat → (Nat → β)
  | 0 => init
  | n + 1 => detStep on idx (detRun on idx rec init n) n (rec n)

/-- rank: number of active steps before `t` -/
def rank (on : Nat → Bool) : Nat → Nat
  | 0 => 0
  | t + 1 => rank on t + (if on t then 1 else 0)

/-! ### Driver -/
open Proto

def optFloat (s : String) : Option (Option Float) :=
  if s = "-" then some none else (floatOfHex s).map some

instance : DecidableLE Float := fun a b => Float.decLe a b

/-- ops:
  `sw T dt st sap et eap oft ofp per interval off nfixed f_1 … f_n`
        (`-` = None for the seven optional floats; `nfixed = -1` = no fixed list; floats as hex bit patterns)
      → `ok <on bits> | <idx map> | <numOn> | <default>`   or   `error <kind>`
  `win st sap et eap oft ofp per` → `ok <start hex> <end hex | inf>` or `error <kind>`
  `adj v` → adjusted (x64) time step for on-index `v`
-/
def handle : List String → String
  | "sw" :: T :: dt :: st :: sap :: et :: eap :: oft :: ofp :: per :: iv :: off :: nf :: fx =>
    match parseNat T, floatOfHex dt, optFloat st, optFloat sap, optFloat et, optFloat eap, optFloat oft,
          optFloat ofp, optFloat per, parseInt iv, parseNat off, parseInt nf, intsOf fx with
    | some T, some dt, some st, some sap, some et, some eap, some oft, some ofp, some per, some iv, some off,
      some nf, some fx =>
      if off > 1 ∨ nf < -1 ∨ (nf = -1 ∧ fx ≠ []) ∨ (nf ≥ 0 ∧ fx.length ≠ nf.toNat) then "bad-op" else
      let s : Switch Float := { startTime := st, startAfterPeriods := sap, endTime := et, endAfterPeriods := eap,
                                onForTime := oft, onForPeriods := ofp, period := per,
                                fixedSteps := if nf = -1 then none else some fx,
                                alwaysOff := off = 1, interval := iv }
      match onList Float.ofNat s dt T with
      | .error e => s!"error {e.name}"
      | .ok l => s!"ok {showBools l} | {showInts (idxMap l)} | {numOn l} | {if isDefaultAlwaysOn s then 1 else 0}"
    | _, _, _, _, _, _, _, _, _, _, _, _, _ => "bad-op"
  | ["win", st, sap, et, eap, oft, ofp, per] =>
    match optFloat st, optFloat sap, optFloat et, optFloat eap, optFloat oft, optFloat ofp, optFloat per with
    | some st, some sap, some et, some eap, some oft, some ofp, some per =>
      let s : Switch Float := { startTime := st, startAfterPeriods := sap, endTime := et, endAfterPeriods := eap,
                                onForTime := oft, onForPeriods := ofp, period := per }
      match window s with
      | .error e => s!"error {e.name}"
      | .ok (a, none) => s!"ok {hexOfFloat a} inf"
      | .ok (a, some e) => s!"ok {hexOfFloat a} {hexOfFloat e}"
    | _, _, _, _, _, _, _ => "bad-op"
  | ["adj", v] =>
    match parseNat v with
    | some v => hexOfFloat (adjTime (2.0 : Float) 1e-8 (Float.ofNat v))
    | none => "bad-op"
  | _ => "bad-op"

end Fdtdx.C14
