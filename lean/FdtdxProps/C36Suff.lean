/-
C36 — sufficiency of the coupled stability bound, lossless single-pole media (Drude and Lorentz).

For one Fourier mode of the homogeneous periodic box the Yee curl-curl eigenvalue is `4 ν² σ` with
`ν² = courant_factor² /(ε∞ μ)` and a mode parameter `σ = (1/3) Σ sin²(k_i Δ/2) ∈ [0, 1]` (σ = 1 is the grid-Nyquist
mode of `FdtdxModel/C36.lean`).  The per-mode characteristic polynomial of `forward` is therefore
`charPoly (σ ν²) (1/ε∞) c1 c2 c3 z`.

  C36_lossless_core        real parameters a = ω0²dt² ∈ [0,4), κ = K dt²/ε∞ ≥ 0, n = 4σν² ≥ 0 with
                           4κ ≤ (4 - a)(4 - n):  every complex root of
                           (z-1)²(z² - (2-a) z + 1 + κ z) + n z (z² - (2-a) z + 1) has |z| = 1
                           (self-reciprocal quartic: in X = 2 - z - 1/z it is X² - (a+κ+n) X + n a, whose roots are
                            real and lie in [0, 4])
  C36_lossless_sufficiency for the coefficients fdtdx stores (C35 model `coef`) of an undamped Drude or Lorentz pole
                           with non-negative strength: if the code's stability measure is ≤ 1 — in particular whenever
                           placement stays silent (measure ≤ 0.99) — then for EVERY mode σ ∈ [0,1] every root of the
                           per-mode characteristic polynomial lies on the unit circle: no growing mode.
  C36_silent_is_stable     the same from `warns … = false`

  hurwitz_quartic / hurwitz_cubic   Routh–Hurwitz (no root with Re ζ > 0) via the continued-fraction expansion of
                           even/odd part: each level c·ζ + 1/w keeps the real part positive
  C36_damped_core / C36_damped_drude_core   damped pole (h = γdt/2 > 0), strict bound 4κ < (4-a)(4-n), n > 0: no root of
                           the per-mode polynomial outside the closed unit disc (ζ = (z-1)/(z+1); the Hurwitz
                           determinants are 4h(a(4-n)² + 16κ) and 256 h² n κ)
  C36_damped_lorentz_sufficiency / C36_damped_drude_sufficiency   the same for the stored coefficients of a damped
                           Lorentz / Drude pole with measure < 1, every mode σ ∈ (0, 1]
  C36_sufficiency_clauses  conjunction of all of the above (one name for the axiom audit)

Still open (kept partial in props/C36.json): the boundary case measure = 1 with damping and the static mode σ = 0;
several poles; CCPR poles; inhomogeneous masks; and the step from "no per-mode root outside the unit circle" to the
factor-10 energy bound (needs semisimplicity at repeated unimodular roots / a discrete energy).
-/
import FdtdxModel.C36
import FdtdxProps.C35

namespace Fdtdx.C36
open Complex

/-- a root of `z² - t z + 1` with real `|t| ≤ 2` lies on the unit circle -/
private theorem unit_of_reciprocal_quadratic (t : ℝ) (ht : |t| ≤ 2) (z : ℂ) (hz : z ^ 2 - (t : ℂ) * z + 1 = 0) :
    ‖z‖ = 1 := by
  have hz0 : z ≠ 0 := by
    rintro rfl; simp at hz
  have h1 : ‖z‖ ≤ 1 := by
    apply C35.C35_jury_roots_complex t (-1) (by simp) (by linarith [ht]) z
    push_cast; linear_combination hz
  have hinv : z⁻¹ ^ 2 - (t : ℂ) * z⁻¹ + 1 = 0 := by
    have : (z⁻¹ ^ 2 - (t : ℂ) * z⁻¹ + 1) * z ^ 2 = z ^ 2 - (t : ℂ) * z + 1 := by
      field_simp
      ring
    have hz2 : z ^ 2 ≠ 0 := pow_ne_zero 2 hz0
    have := congrArg (· / z ^ 2) this
    simp only [mul_div_assoc, div_self hz2, mul_one] at this
    rw [this, hz, zero_div]
  have h2 : ‖z⁻¹‖ ≤ 1 := by
    apply C35.C35_jury_roots_complex t (-1) (by simp) (by linarith [ht]) z⁻¹
    push_cast; linear_combination hinv
  rw [norm_inv] at h2
  have hpos : 0 < ‖z‖ := norm_pos_iff.mpr hz0
  have : 1 ≤ ‖z‖ := by
    rw [inv_le_one₀ hpos] at h2; exact h2
  linarith

/-- the real quadratic `X² - b X + n a` (b = a + κ + n) has only real roots, all in `[0, 4]` -/
private theorem reduced_root_real (a κ n : ℝ) (ha : 0 ≤ a) (ha4 : a < 4) (hκ : 0 ≤ κ) (hn : 0 ≤ n)
    (hb : 4 * κ ≤ (4 - a) * (4 - n)) (X : ℂ) (hX : X ^ 2 - ((a + κ + n : ℝ) : ℂ) * X + ((n * a : ℝ) : ℂ) = 0) :
    X.im = 0 ∧ 0 ≤ X.re ∧ X.re ≤ 4 := by
  have hn4 : n ≤ 4 := by
    by_contra h
    have : (4 - a) * (4 - n) < 0 := mul_neg_of_pos_of_neg (by linarith) (by linarith [not_le.mp h])
    linarith
  have hre := congrArg Complex.re hX
  have him := congrArg Complex.im hX
  simp [sq] at hre him
  set u := X.re
  set v := X.im
  have hv : v = 0 := by
    by_contra hv
    have h2 : v * (2 * u - (a + κ + n)) = 0 := by linear_combination him
    have hu : 2 * u - (a + κ + n) = 0 := (mul_eq_zero.mp h2).resolve_left hv
    have hvv : 0 < v * v := mul_self_pos.mpr hv
    nlinarith [sq_nonneg (a - n), mul_nonneg hκ ha, mul_nonneg hκ hn, sq_nonneg κ]
  refine ⟨hv, ?_, ?_⟩
  · by_contra h
    have hu : u < 0 := not_le.mp h
    rw [hv] at hre
    nlinarith [mul_nonneg hn ha, mul_nonneg hκ ha]
  · by_contra h
    have hu : 4 < u := not_le.mp h
    rw [hv] at hre
    have hb8 : a + κ + n ≤ 8 := by nlinarith
    nlinarith

/-- C36 (sufficiency, core): the self-reciprocal per-mode quartic of a lossless pole has all roots on the unit
circle as soon as `4κ ≤ (4 - a)(4 - n)`. -/
theorem C36_lossless_core (a κ n : ℝ) (ha : 0 ≤ a) (ha4 : a < 4) (hκ : 0 ≤ κ) (hn : 0 ≤ n)
    (hb : 4 * κ ≤ (4 - a) * (4 - n)) (z : ℂ)
    (hz : (z - 1) * (z - 1) * (z * z - ((2 - a : ℝ) : ℂ) * z + 1 + (κ : ℂ) * z)
            + (n : ℂ) * z * (z * z - ((2 - a : ℝ) : ℂ) * z + 1) = 0) : ‖z‖ = 1 := by
  have hz0 : z ≠ 0 := by
    rintro rfl; simp at hz
  set X : ℂ := 2 - z - z⁻¹ with hXd
  have hX : X ^ 2 - ((a + κ + n : ℝ) : ℂ) * X + ((n * a : ℝ) : ℂ) = 0 := by
    have hz2 : z ^ 2 ≠ 0 := pow_ne_zero 2 hz0
    have key : (X ^ 2 - ((a + κ + n : ℝ) : ℂ) * X + ((n * a : ℝ) : ℂ)) * z ^ 2
        = (z - 1) * (z - 1) * (z * z - ((2 - a : ℝ) : ℂ) * z + 1 + (κ : ℂ) * z)
            + (n : ℂ) * z * (z * z - ((2 - a : ℝ) : ℂ) * z + 1) := by
      rw [hXd]; push_cast; field_simp; ring
    rw [hz] at key
    exact (mul_eq_zero.mp key).resolve_right hz2
  obtain ⟨him, h0, h4⟩ := reduced_root_real a κ n ha ha4 hκ hn hb X hX
  have hXr : X = ((X.re : ℝ) : ℂ) := by
    apply Complex.ext <;> simp [him]
  apply unit_of_reciprocal_quadratic (2 - X.re) (by rw [abs_le]; constructor <;> linarith) z
  have hXz : z * X = 2 * z - z ^ 2 - 1 := by
    rw [hXd]; field_simp
  have hXz' : z * ((X.re : ℝ) : ℂ) = 2 * z - z ^ 2 - 1 := by
    rw [← hXr]; exact hXz
  push_cast
  linear_combination hXz'

/-- C36 (sufficiency, lossless single pole): with the coefficients fdtdx stores for an undamped Drude (`ω0 = 0`) or
Lorentz pole of non-negative strength, a stability measure `≤ 1` implies that for every Fourier mode (`σ ∈ [0,1]`)
every root of the per-mode characteristic polynomial of `forward` lies on the unit circle. -/
theorem C36_lossless_sufficiency (cf eps mu dt σ : ℝ) (u : C35.Uni ℝ) (p pp : ℝ)
    (heps : 0 < eps) (hmu : 0 < mu) (hdt : 0 < dt)
    (hg : u.g = 0) (hb0 : u.b = 0) (ha0 : 0 ≤ u.a) (hw0 : 0 ≤ u.w0) (hw : u.w0 * dt < 2)
    (hσ0 : 0 ≤ σ) (hσ1 : σ ≤ 1)
    (hm : measure cf eps mu
      [⟨(C35.coef u dt).c1, (C35.coef u dt).c2, (C35.coef u dt).c3, (C35.coef u dt).c4, p, pp⟩] ≤ 1)
    (z : ℂ)
    (hz : charPoly ((σ * (cf * cf * (1 / mu) * (1 / eps)) : ℝ) : ℂ) ((1 / eps : ℝ) : ℂ)
      (((C35.coef u dt).c1 : ℝ) : ℂ) (((C35.coef u dt).c2 : ℝ) : ℂ) (((C35.coef u dt).c3 : ℝ) : ℂ) z = 0) :
    ‖z‖ = 1 := by
  -- the stored coefficients of a lossless pole
  have hc1 : (C35.coef u dt).c1 = 2 - u.w0 * u.w0 * (dt * dt) := by simp [C35.coef, hg]
  have hc2 : (C35.coef u dt).c2 = -1 := by simp [C35.coef, hg]
  have hc3 : (C35.coef u dt).c3 = u.a * (dt * dt) := by simp [C35.coef, hg, hb0]
  have hc4 : (C35.coef u dt).c4 = 0 := by simp [C35.coef, hg, hb0]
  set a := u.w0 * u.w0 * (dt * dt) with had
  set k := u.a * (dt * dt) with hkd
  have hwd : 0 ≤ u.w0 * dt := mul_nonneg hw0 hdt.le
  have ha : 0 ≤ a := by rw [had]; nlinarith
  have ha4 : a < 4 := by rw [had]; nlinarith
  have hk : 0 ≤ k := by rw [hkd]; exact mul_nonneg ha0 (by positivity)
  have hq : 0 < 4 - a := by linarith
  -- the measure, whichever branch of the coupling test is taken
  have hmeas : cf * cf * (1 / mu) + k / (4 - a) ≤ eps := by
    have e : 1 + (2 - a) - (-1 : ℝ) = 4 - a := by ring
    simp only [measure, sumBy, hc1, hc2, hc3, hc4, sub_zero, add_zero, e] at hm
    rw [div_le_one heps] at hm
    by_cases hk0 : k = 0
    · simp [hk0] at hm ⊢; linarith
    · have : (k == 0) = false := by simpa using hk0
      simp only [this, Bool.false_eq_true, if_false] at hm
      exact hm
  set nu2 := cf * cf * (1 / mu) * (1 / eps) with hnu
  have hnu0 : 0 ≤ nu2 := by
    rw [hnu]; exact mul_nonneg (mul_nonneg (mul_self_nonneg cf) (by positivity)) (by positivity)
  have hbound : 4 * (k * (1 / eps)) ≤ (4 - a) * (4 - 4 * (σ * nu2)) := by
    have h1 : k / (4 - a) ≤ eps - cf * cf * (1 / mu) := by linarith
    rw [div_le_iff₀ hq] at h1
    have h2 : nu2 * eps = cf * cf * (1 / mu) := by rw [hnu]; field_simp
    have hσn : σ * nu2 ≤ nu2 := by nlinarith
    have h3 : k * (1 / eps) ≤ (1 - nu2) * (4 - a) := by
      rw [mul_one_div, div_le_iff₀ heps]; nlinarith
    nlinarith
  apply C36_lossless_core a (k * (1 / eps)) (4 * (σ * nu2)) ha ha4 (by positivity) (by positivity) hbound z
  rw [hc1, hc2, hc3] at hz
  simp only [charPoly] at hz
  push_cast at hz ⊢
  linear_combination hz

/-- … in particular for every medium about which placement stays silent (`warns = false`, margin ≥ 0). -/
theorem C36_silent_is_stable (cf eps mu dt σ margin : ℝ) (u : C35.Uni ℝ) (p pp : ℝ)
    (heps : 0 < eps) (hmu : 0 < mu) (hdt : 0 < dt) (hmargin : 0 ≤ margin)
    (hg : u.g = 0) (hb0 : u.b = 0) (ha0 : 0 ≤ u.a) (hw0 : 0 ≤ u.w0) (hw : u.w0 * dt < 2)
    (hσ0 : 0 ≤ σ) (hσ1 : σ ≤ 1)
    (hsilent : warns cf eps mu margin
      [⟨(C35.coef u dt).c1, (C35.coef u dt).c2, (C35.coef u dt).c3, (C35.coef u dt).c4, p, pp⟩] = false)
    (z : ℂ)
    (hz : charPoly ((σ * (cf * cf * (1 / mu) * (1 / eps)) : ℝ) : ℂ) ((1 / eps : ℝ) : ℂ)
      (((C35.coef u dt).c1 : ℝ) : ℂ) (((C35.coef u dt).c2 : ℝ) : ℂ) (((C35.coef u dt).c3 : ℝ) : ℂ) z = 0) :
    ‖z‖ = 1 := by
  have hm : measure cf eps mu
      [⟨(C35.coef u dt).c1, (C35.coef u dt).c2, (C35.coef u dt).c3, (C35.coef u dt).c4, p, pp⟩] ≤ 1 := by
    simp only [warns, decide_eq_false_iff_not, not_lt] at hsilent
    linarith
  exact C36_lossless_sufficiency cf eps mu dt σ u p pp heps hmu hdt hg hb0 ha0 hw0 hw hσ0 hσ1 hm z hz

/-! ### non-vacuity: the materials of the harness (`MM_LIB`, damping set to 0), courant_factor 0.99 -/

/-- "au": ε∞ = 9, Drude (ω_p dt)² = 8  →  measure (0.9801 + 2)/9 ≤ 1 -/
example : measure (99 / 100 : ℝ) 9 1
    [⟨(C35.coef ⟨0, 0, 8, 0⟩ (1 : ℝ)).c1, (C35.coef ⟨0, 0, 8, 0⟩ (1 : ℝ)).c2, (C35.coef ⟨0, 0, 8, 0⟩ (1 : ℝ)).c3,
      (C35.coef ⟨0, 0, 8, 0⟩ (1 : ℝ)).c4, 0, 0⟩] ≤ 1 := by
  simp only [measure, sumBy, C35.coef]; norm_num

/-- "si": ε∞ = 12, Lorentz ω0 dt = 6/5, Δε = 6  →  measure (0.9801 + 3.375)/12 ≤ 1 -/
example : measure (99 / 100 : ℝ) 12 1
    [⟨(C35.coef (C35.lorentz (6 / 5) 0 6) (1 : ℝ)).c1, (C35.coef (C35.lorentz (6 / 5) 0 6) (1 : ℝ)).c2,
      (C35.coef (C35.lorentz (6 / 5) 0 6) (1 : ℝ)).c3, (C35.coef (C35.lorentz (6 / 5) 0 6) (1 : ℝ)).c4, 0, 0⟩] ≤ 1 := by
  simp only [measure, sumBy, C35.coef, C35.lorentz]; norm_num

/-- the hypothesis is sharp: the same gold pole on ε∞ = 2.25 (the mis-paired cells of the seeded defects) violates it -/
example : ¬ measure (99 / 100 : ℝ) (9 / 4) 1
    [⟨(C35.coef ⟨0, 0, 8, 0⟩ (1 : ℝ)).c1, (C35.coef ⟨0, 0, 8, 0⟩ (1 : ℝ)).c2, (C35.coef ⟨0, 0, 8, 0⟩ (1 : ℝ)).c3,
      (C35.coef ⟨0, 0, 8, 0⟩ (1 : ℝ)).c4, 0, 0⟩] ≤ 1 := by
  simp only [measure, sumBy, C35.coef]; norm_num

/-! ### damped poles: bilinear map ζ = (z-1)/(z+1) and Routh–Hurwitz by continued fractions -/

private theorem inv_re_pos {w : ℂ} (h : 0 < w.re) : 0 < (w⁻¹).re := by
  rw [Complex.inv_re]
  apply div_pos h
  apply Complex.normSq_pos.mpr
  intro h0; rw [h0] at h; simp at h

private theorem ne_zero_of_re_pos {w : ℂ} (h : 0 < w.re) : w ≠ 0 := by
  intro h0; rw [h0] at h; simp at h

/-- Routh–Hurwitz for a real quartic, by the continued-fraction (Cauer) expansion of even part / odd part:
no root in the open right half-plane. -/
theorem hurwitz_quartic (a4 a3 a2 a1 a0 : ℝ) (h4 : 0 < a4) (h3 : 0 < a3) (h1 : 0 < a1) (h0 : 0 < a0)
    (hβ : 0 < a2 * a3 - a4 * a1) (hdet : 0 < a1 * (a2 * a3 - a4 * a1) - a3 * a3 * a0)
    (ζ : ℂ) (hζ : 0 < ζ.re) :
    (a4 : ℂ) * ζ ^ 4 + a3 * ζ ^ 3 + a2 * ζ ^ 2 + a1 * ζ + a0 ≠ 0 := by
  set β' : ℝ := (a2 * a3 - a4 * a1) / a3 with hβ'
  have hβ'pos : 0 < β' := div_pos hβ h3
  set a1' : ℝ := (a1 * (a2 * a3 - a4 * a1) - a3 * a3 * a0) / (a3 * β') with ha1'
  have ha1'pos : 0 < a1' := div_pos hdet (mul_pos h3 hβ'pos)
  have hζ0 : ζ ≠ 0 := ne_zero_of_re_pos hζ
  have rp : ∀ c : ℝ, 0 < c → 0 < (((c : ℝ) : ℂ) * ζ).re := by
    intro c hc; simp; exact mul_pos hc hζ
  set w4 : ℂ := ((a1' / a0 : ℝ) : ℂ) * ζ with hw4
  have r4 : 0 < w4.re := rp _ (div_pos ha1'pos h0)
  set w3 : ℂ := ((β' / a1' : ℝ) : ℂ) * ζ + w4⁻¹ with hw3
  have r3 : 0 < w3.re := by
    rw [hw3, Complex.add_re]; exact add_pos (rp _ (div_pos hβ'pos ha1'pos)) (inv_re_pos r4)
  set w2 : ℂ := ((a3 / β' : ℝ) : ℂ) * ζ + w3⁻¹ with hw2
  have r2 : 0 < w2.re := by
    rw [hw2, Complex.add_re]; exact add_pos (rp _ (div_pos h3 hβ'pos)) (inv_re_pos r3)
  set w1 : ℂ := ((a4 / a3 : ℝ) : ℂ) * ζ + w2⁻¹ with hw1
  have r1 : 0 < w1.re := by
    rw [hw1, Complex.add_re]; exact add_pos (rp _ (div_pos h4 h3)) (inv_re_pos r2)
  have n4 := ne_zero_of_re_pos r4
  have n3 := ne_zero_of_re_pos r3
  have n2 := ne_zero_of_re_pos r2
  have ca0 : (a0 : ℂ) ≠ 0 := by exact_mod_cast h0.ne'
  have ca3 : (a3 : ℂ) ≠ 0 := by exact_mod_cast h3.ne'
  have cβ : (β' : ℂ) ≠ 0 := by exact_mod_cast hβ'pos.ne'
  have ca1' : (a1' : ℂ) ≠ 0 := by exact_mod_cast ha1'pos.ne'
  -- R2 = a1' ζ ; R1 = R2 w3 ; ZO = R1 w2 ; E = ZO w1
  have e3 : ((a1' : ℝ) : ℂ) * ζ * w3 = (β' : ℂ) * ζ ^ 2 + a0 := by
    rw [hw3, hw4]; push_cast; field_simp
  have e2 : ((β' : ℂ) * ζ ^ 2 + a0) * w2 = (a3 : ℂ) * ζ ^ 3 + a1 * ζ := by
    rw [hw2, mul_add, ← e3, mul_assoc (((a1' : ℝ) : ℂ) * ζ) w3 w3⁻¹, mul_inv_cancel₀ n3, mul_one, e3]
    have hβc : (β' : ℂ) * a3 = a2 * a3 - a4 * a1 := by
      rw [hβ']; push_cast; field_simp
    have hrel : (a1' : ℂ) = a1 - a3 * a0 / β' := by
      rw [ha1']; push_cast; field_simp
      linear_combination (-(a1 : ℂ)) * hβc
    rw [hrel]; push_cast; field_simp; ring
  have e1 : ((a3 : ℂ) * ζ ^ 3 + a1 * ζ) * w1 = (a4 : ℂ) * ζ ^ 4 + a2 * ζ ^ 2 + a0 := by
    rw [hw1, mul_add, ← e2, mul_assoc _ w2 w2⁻¹, mul_inv_cancel₀ n2, mul_one, e2]
    have hrel : (β' : ℂ) = a2 - a4 * a1 / a3 := by
      rw [hβ']; push_cast; field_simp
    rw [hrel]; push_cast; field_simp; ring
  have hZO : (a3 : ℂ) * ζ ^ 3 + a1 * ζ ≠ 0 := by
    rw [← e2, ← e3]
    exact mul_ne_zero (mul_ne_zero (mul_ne_zero ca1' hζ0) n3) n2
  have hsum : (a4 : ℂ) * ζ ^ 4 + a3 * ζ ^ 3 + a2 * ζ ^ 2 + a1 * ζ + a0
      = ((a3 : ℂ) * ζ ^ 3 + a1 * ζ) * (w1 + 1) := by
    rw [mul_add, e1]; ring
  rw [hsum]
  apply mul_ne_zero hZO
  apply ne_zero_of_re_pos
  rw [Complex.add_re]; simp; linarith

/-- C36 (sufficiency, damped Lorentz pole, core): with damping `h = γdt/2 > 0`, `0 < a = ω0²dt² < 4`, `κ > 0`,
`n = 4σν² > 0` and the strict bound `4κ < (4-a)(4-n)`, the per-mode characteristic polynomial (times `D = 1+h`) has no
root outside the closed unit disc.  (Bilinear map ζ = (z-1)/(z+1), then Routh–Hurwitz.) -/
theorem C36_damped_core (a κ n h : ℝ) (ha : 0 < a) (ha4 : a < 4) (hκ : 0 < κ) (hn : 0 < n) (hh : 0 < h)
    (hb : 4 * κ < (4 - a) * (4 - n)) (z : ℂ)
    (hz : (z - 1) * (z - 1) * (((1 + h : ℝ) : ℂ) * (z * z) - ((2 - a : ℝ) : ℂ) * z + ((1 - h : ℝ) : ℂ) + (κ : ℂ) * z)
            + (n : ℂ) * z * (((1 + h : ℝ) : ℂ) * (z * z) - ((2 - a : ℝ) : ℂ) * z + ((1 - h : ℝ) : ℂ)) = 0) :
    ‖z‖ ≤ 1 := by
  by_contra hcon
  have hgt : 1 < ‖z‖ := not_le.mp hcon
  have hn4 : n < 4 := by
    by_contra h'
    have : (4 - a) * (4 - n) ≤ 0 := mul_nonpos_of_nonneg_of_nonpos (by linarith) (by linarith [not_lt.mp h'])
    linarith
  have hz1 : z + 1 ≠ 0 := by
    intro h0
    have : z = -1 := by linear_combination h0
    rw [this] at hgt; simp at hgt
  have hN : 1 < Complex.normSq z := by
    rw [Complex.normSq_eq_norm_sq]; nlinarith [norm_nonneg z]
  set ζ : ℂ := (z - 1) / (z + 1) with hζd
  have hζre : 0 < ζ.re := by
    have hpos : 0 < Complex.normSq (z + 1) := Complex.normSq_pos.mpr hz1
    rw [hζd, Complex.div_re, ← add_div]
    apply div_pos _ hpos
    rw [Complex.normSq_apply] at hN
    simp; nlinarith
  have p4 : 0 < 4 - n := by linarith
  have q4 : 0 < (4 - a) * (4 - n) - 4 * κ := by linarith
  have q3 : 0 < 4 * h * (4 - n) := by positivity
  have q1 : 0 < 4 * h * n := by positivity
  have q0 : 0 < n * a := by positivity
  have qβ : 0 < (4 * (a + κ + n) - 2 * (n * a)) * (4 * h * (4 - n)) - ((4 - a) * (4 - n) - 4 * κ) * (4 * h * n) := by
    have e : (4 * (a + κ + n) - 2 * (n * a)) * (4 * h * (4 - n)) - ((4 - a) * (4 - n) - 4 * κ) * (4 * h * n)
        = 4 * h * (a * (4 - n) ^ 2 + 16 * κ) := by ring
    rw [e]; positivity
  have qd : 0 < 4 * h * n * ((4 * (a + κ + n) - 2 * (n * a)) * (4 * h * (4 - n))
        - ((4 - a) * (4 - n) - 4 * κ) * (4 * h * n)) - 4 * h * (4 - n) * (4 * h * (4 - n)) * (n * a) := by
    have e : 4 * h * n * ((4 * (a + κ + n) - 2 * (n * a)) * (4 * h * (4 - n))
        - ((4 - a) * (4 - n) - 4 * κ) * (4 * h * n)) - 4 * h * (4 - n) * (4 * h * (4 - n)) * (n * a)
        = 256 * h ^ 2 * n * κ := by ring
    rw [e]; positivity
  have hH := hurwitz_quartic _ _ _ _ _ q4 q3 q1 q0 qβ qd ζ hζre
  apply hH
  have hz4 : (z + 1) ^ 4 ≠ 0 := pow_ne_zero 4 hz1
  have key : ((((4 - a) * (4 - n) - 4 * κ : ℝ) : ℂ) * ζ ^ 4 + ((4 * h * (4 - n) : ℝ) : ℂ) * ζ ^ 3
        + ((4 * (a + κ + n) - 2 * (n * a) : ℝ) : ℂ) * ζ ^ 2 + ((4 * h * n : ℝ) : ℂ) * ζ + ((n * a : ℝ) : ℂ)) * (z + 1) ^ 4
      = 16 * ((z - 1) * (z - 1) * (((1 + h : ℝ) : ℂ) * (z * z) - ((2 - a : ℝ) : ℂ) * z + ((1 - h : ℝ) : ℂ) + (κ : ℂ) * z)
            + (n : ℂ) * z * (((1 + h : ℝ) : ℂ) * (z * z) - ((2 - a : ℝ) : ℂ) * z + ((1 - h : ℝ) : ℂ))) := by
    rw [hζd]; push_cast; field_simp; ring
  rw [hz, mul_zero] at key
  exact (mul_eq_zero.mp key).resolve_right hz4

/-- Routh–Hurwitz for a real cubic (same continued-fraction argument) -/
theorem hurwitz_cubic (b3 b2 b1 b0 : ℝ) (h3 : 0 < b3) (h2 : 0 < b2) (h0 : 0 < b0)
    (hβ : 0 < b1 * b2 - b3 * b0) (ζ : ℂ) (hζ : 0 < ζ.re) :
    (b3 : ℂ) * ζ ^ 3 + b2 * ζ ^ 2 + b1 * ζ + b0 ≠ 0 := by
  set β' : ℝ := (b1 * b2 - b3 * b0) / b2 with hβ'
  have hβ'pos : 0 < β' := div_pos hβ h2
  have hζ0 : ζ ≠ 0 := ne_zero_of_re_pos hζ
  have rp : ∀ c : ℝ, 0 < c → 0 < (((c : ℝ) : ℂ) * ζ).re := by
    intro c hc; simp; exact mul_pos hc hζ
  set w3 : ℂ := ((β' / b0 : ℝ) : ℂ) * ζ with hw3
  have r3 : 0 < w3.re := rp _ (div_pos hβ'pos h0)
  set w2 : ℂ := ((b2 / β' : ℝ) : ℂ) * ζ + w3⁻¹ with hw2
  have r2 : 0 < w2.re := by
    rw [hw2, Complex.add_re]; exact add_pos (rp _ (div_pos h2 hβ'pos)) (inv_re_pos r3)
  set w1 : ℂ := ((b3 / b2 : ℝ) : ℂ) * ζ + w2⁻¹ with hw1
  have r1 : 0 < w1.re := by
    rw [hw1, Complex.add_re]; exact add_pos (rp _ (div_pos h3 h2)) (inv_re_pos r2)
  have n2 := ne_zero_of_re_pos r2
  have cb0 : (b0 : ℂ) ≠ 0 := by exact_mod_cast h0.ne'
  have cb2 : (b2 : ℂ) ≠ 0 := by exact_mod_cast h2.ne'
  have cβ : (β' : ℂ) ≠ 0 := by exact_mod_cast hβ'pos.ne'
  have e2 : ((β' : ℝ) : ℂ) * ζ * w2 = (b2 : ℂ) * ζ ^ 2 + b0 := by
    rw [hw2, hw3]; push_cast; field_simp
  have e1 : ((b2 : ℂ) * ζ ^ 2 + b0) * w1 = (b3 : ℂ) * ζ ^ 3 + b1 * ζ := by
    rw [hw1, mul_add, ← e2, mul_assoc _ w2 w2⁻¹, mul_inv_cancel₀ n2, mul_one, e2]
    have hrel : (β' : ℂ) = b1 - b3 * b0 / b2 := by
      rw [hβ']; push_cast; field_simp
    rw [hrel]; push_cast; field_simp; ring
  have hE : (b2 : ℂ) * ζ ^ 2 + b0 ≠ 0 := by
    rw [← e2]; exact mul_ne_zero (mul_ne_zero cβ hζ0) n2
  have hsum : (b3 : ℂ) * ζ ^ 3 + b2 * ζ ^ 2 + b1 * ζ + b0 = ((b2 : ℂ) * ζ ^ 2 + b0) * (w1 + 1) := by
    rw [mul_add, e1]; ring
  rw [hsum]
  apply mul_ne_zero hE
  apply ne_zero_of_re_pos
  rw [Complex.add_re]; simp; linarith

/-- C36 (sufficiency, damped Drude pole, core): `a = 0` -/
theorem C36_damped_drude_core (κ n h : ℝ) (hκ : 0 < κ) (hn : 0 < n) (hh : 0 < h)
    (hb : 4 * κ < 4 * (4 - n)) (z : ℂ)
    (hz : (z - 1) * (z - 1) * (((1 + h : ℝ) : ℂ) * (z * z) - 2 * z + ((1 - h : ℝ) : ℂ) + (κ : ℂ) * z)
            + (n : ℂ) * z * (((1 + h : ℝ) : ℂ) * (z * z) - 2 * z + ((1 - h : ℝ) : ℂ)) = 0) :
    ‖z‖ ≤ 1 := by
  by_contra hcon
  have hgt : 1 < ‖z‖ := not_le.mp hcon
  have hn4 : n < 4 := by linarith
  have hz1 : z + 1 ≠ 0 := by
    intro h0
    have : z = -1 := by linear_combination h0
    rw [this] at hgt; simp at hgt
  have hzm : z - 1 ≠ 0 := by
    intro h0
    have : z = 1 := by linear_combination h0
    rw [this] at hgt; simp at hgt
  have hN : 1 < Complex.normSq z := by
    rw [Complex.normSq_eq_norm_sq]; nlinarith [norm_nonneg z]
  set ζ : ℂ := (z - 1) / (z + 1) with hζd
  have hζre : 0 < ζ.re := by
    have hpos : 0 < Complex.normSq (z + 1) := Complex.normSq_pos.mpr hz1
    rw [hζd, Complex.div_re, ← add_div]
    apply div_pos _ hpos
    rw [Complex.normSq_apply] at hN
    simp; nlinarith
  have hζ0 : ζ ≠ 0 := div_ne_zero hzm hz1
  have p4 : 0 < 4 - n := by linarith
  have q3 : 0 < 4 * (4 - n) - 4 * κ := by linarith
  have q2 : 0 < 4 * h * (4 - n) := by positivity
  have q0 : 0 < 4 * h * n := by positivity
  have qβ : 0 < 4 * (κ + n) * (4 * h * (4 - n)) - (4 * (4 - n) - 4 * κ) * (4 * h * n) := by
    have e : 4 * (κ + n) * (4 * h * (4 - n)) - (4 * (4 - n) - 4 * κ) * (4 * h * n) = 64 * h * κ := by ring
    rw [e]; positivity
  have hH := hurwitz_cubic _ _ _ _ q3 q2 q0 qβ ζ hζre
  apply hH
  have hz4 : (z + 1) ^ 4 ≠ 0 := pow_ne_zero 4 hz1
  have key : (ζ * (((4 * (4 - n) - 4 * κ : ℝ) : ℂ) * ζ ^ 3 + ((4 * h * (4 - n) : ℝ) : ℂ) * ζ ^ 2
        + ((4 * (κ + n) : ℝ) : ℂ) * ζ + ((4 * h * n : ℝ) : ℂ))) * (z + 1) ^ 4
      = 16 * ((z - 1) * (z - 1) * (((1 + h : ℝ) : ℂ) * (z * z) - 2 * z + ((1 - h : ℝ) : ℂ) + (κ : ℂ) * z)
            + (n : ℂ) * z * (((1 + h : ℝ) : ℂ) * (z * z) - 2 * z + ((1 - h : ℝ) : ℂ))) := by
    rw [hζd]; push_cast; field_simp; ring
  rw [hz, mul_zero] at key
  have := (mul_eq_zero.mp key).resolve_right hz4
  exact (mul_eq_zero.mp this).resolve_left hζ0

/-- C36 (sufficiency, damped Lorentz pole): with the coefficients fdtdx stores for a damped Lorentz pole
(`γ > 0`, `ω0 > 0`, strength `> 0`), a stability measure `< 1` implies that for every Fourier mode `σ ∈ (0, 1]`
no root of the per-mode characteristic polynomial of `forward` lies outside the closed unit disc. -/
theorem C36_damped_lorentz_sufficiency (cf eps mu dt σ : ℝ) (u : C35.Uni ℝ) (p pp : ℝ)
    (heps : 0 < eps) (hmu : 0 < mu) (hdt : 0 < dt) (hcf : 0 < cf)
    (hg : 0 < u.g) (hb0 : u.b = 0) (ha0 : 0 < u.a) (hw0 : 0 < u.w0) (hw : u.w0 * dt < 2)
    (hσ0 : 0 < σ) (hσ1 : σ ≤ 1)
    (hm : measure cf eps mu
      [⟨(C35.coef u dt).c1, (C35.coef u dt).c2, (C35.coef u dt).c3, (C35.coef u dt).c4, p, pp⟩] < 1)
    (z : ℂ)
    (hz : charPoly ((σ * (cf * cf * (1 / mu) * (1 / eps)) : ℝ) : ℂ) ((1 / eps : ℝ) : ℂ)
      (((C35.coef u dt).c1 : ℝ) : ℂ) (((C35.coef u dt).c2 : ℝ) : ℂ) (((C35.coef u dt).c3 : ℝ) : ℂ) z = 0) :
    ‖z‖ ≤ 1 := by
  set h := u.g * dt / 2 with hhd
  have hh : 0 < h := by rw [hhd]; positivity
  have hD : (1 + h) ≠ 0 := by linarith
  set a := u.w0 * u.w0 * (dt * dt) with had
  set k := u.a * (dt * dt) with hkd
  have hc1 : (C35.coef u dt).c1 = (2 - a) / (1 + h) := by simp [C35.coef, hhd, had]
  have hc2 : (C35.coef u dt).c2 = -(1 - h) / (1 + h) := by simp [C35.coef, hhd]
  have hc3 : (C35.coef u dt).c3 = k / (1 + h) := by simp [C35.coef, hhd, hkd, hb0]
  have hc4 : (C35.coef u dt).c4 = 0 := by simp [C35.coef, hb0]
  have hwd : 0 < u.w0 * dt := mul_pos hw0 hdt
  have ha : 0 < a := by rw [had]; nlinarith
  have ha4 : a < 4 := by rw [had]; nlinarith
  have hk : 0 < k := by rw [hkd]; positivity
  have hq : 0 < 4 - a := by linarith
  have hk0 : k / (1 + h) ≠ 0 := (div_pos hk (by linarith)).ne'
  have hmeas : cf * cf * (1 / mu) + k / (4 - a) < eps := by
    have e : 1 + (2 - a) / (1 + h) - -(1 - h) / (1 + h) = (4 - a) / (1 + h) := by field_simp; ring
    have hbne : ((k / (1 + h) : ℝ) == 0) = false := by simpa using hk0
    simp only [measure, sumBy, hc1, hc2, hc3, hc4, sub_zero, add_zero, e, hbne, Bool.false_eq_true, if_false] at hm
    rw [div_lt_one heps] at hm
    have e2 : k / (1 + h) / ((4 - a) / (1 + h)) = k / (4 - a) := by field_simp
    rw [e2] at hm
    exact hm
  set nu2 := cf * cf * (1 / mu) * (1 / eps) with hnu
  have hnu0 : 0 < nu2 := by rw [hnu]; positivity
  have hbound : 4 * (k * (1 / eps)) < (4 - a) * (4 - 4 * (σ * nu2)) := by
    have h1 : k / (4 - a) < eps - cf * cf * (1 / mu) := by linarith
    rw [div_lt_iff₀ hq] at h1
    have h2 : nu2 * eps = cf * cf * (1 / mu) := by rw [hnu]; field_simp
    have hσn : σ * nu2 ≤ nu2 := by nlinarith
    have h3 : k * (1 / eps) < (1 - nu2) * (4 - a) := by
      rw [mul_one_div, div_lt_iff₀ heps]; nlinarith
    nlinarith
  apply C36_damped_core a (k * (1 / eps)) (4 * (σ * nu2)) h ha ha4 (by positivity) (by positivity) hh hbound z
  rw [hc1, hc2, hc3] at hz
  simp only [charPoly] at hz
  have hDc : ((1 + h : ℝ) : ℂ) ≠ 0 := by exact_mod_cast hD
  have key : (z - 1) * (z - 1) * (((1 + h : ℝ) : ℂ) * (z * z) - ((2 - a : ℝ) : ℂ) * z + ((1 - h : ℝ) : ℂ)
        + ((k * (1 / eps) : ℝ) : ℂ) * z)
      + ((4 * (σ * nu2) : ℝ) : ℂ) * z * (((1 + h : ℝ) : ℂ) * (z * z) - ((2 - a : ℝ) : ℂ) * z + ((1 - h : ℝ) : ℂ))
      = ((1 + h : ℝ) : ℂ) * ((z - 1) * (z - 1) * (z * z - (((2 - a) / (1 + h) : ℝ) : ℂ) * z - ((-(1 - h) / (1 + h) : ℝ) : ℂ)
            + ((k / (1 + h) : ℝ) : ℂ) * ((1 / eps : ℝ) : ℂ) * z)
          + 2 * 2 * ((σ * nu2 : ℝ) : ℂ) * z * (z * z - (((2 - a) / (1 + h) : ℝ) : ℂ) * z - ((-(1 - h) / (1 + h) : ℝ) : ℂ))) := by
    have hepsc : (eps : ℂ) ≠ 0 := by exact_mod_cast heps.ne'
    have hD' : (1 : ℂ) + (h : ℂ) ≠ 0 := by exact_mod_cast hD
    push_cast
    field_simp
    ring
  rw [key, hz, mul_zero]

/-- C36 (sufficiency, damped Drude pole): the same for `ω0 = 0`, `γ > 0`, `ω_p > 0`. -/
theorem C36_damped_drude_sufficiency (cf eps mu dt σ : ℝ) (u : C35.Uni ℝ) (p pp : ℝ)
    (heps : 0 < eps) (hmu : 0 < mu) (hdt : 0 < dt) (hcf : 0 < cf)
    (hg : 0 < u.g) (hb0 : u.b = 0) (ha0 : 0 < u.a) (hw0 : u.w0 = 0)
    (hσ0 : 0 < σ) (hσ1 : σ ≤ 1)
    (hm : measure cf eps mu
      [⟨(C35.coef u dt).c1, (C35.coef u dt).c2, (C35.coef u dt).c3, (C35.coef u dt).c4, p, pp⟩] < 1)
    (z : ℂ)
    (hz : charPoly ((σ * (cf * cf * (1 / mu) * (1 / eps)) : ℝ) : ℂ) ((1 / eps : ℝ) : ℂ)
      (((C35.coef u dt).c1 : ℝ) : ℂ) (((C35.coef u dt).c2 : ℝ) : ℂ) (((C35.coef u dt).c3 : ℝ) : ℂ) z = 0) :
    ‖z‖ ≤ 1 := by
  set h := u.g * dt / 2 with hhd
  have hh : 0 < h := by rw [hhd]; positivity
  have hD : (1 + h) ≠ 0 := by linarith
  set k := u.a * (dt * dt) with hkd
  have hc1 : (C35.coef u dt).c1 = 2 / (1 + h) := by simp [C35.coef, hhd, hw0]
  have hc2 : (C35.coef u dt).c2 = -(1 - h) / (1 + h) := by simp [C35.coef, hhd]
  have hc3 : (C35.coef u dt).c3 = k / (1 + h) := by simp [C35.coef, hhd, hkd, hb0]
  have hc4 : (C35.coef u dt).c4 = 0 := by simp [C35.coef, hb0]
  have hk : 0 < k := by rw [hkd]; positivity
  have hk0 : k / (1 + h) ≠ 0 := (div_pos hk (by linarith)).ne'
  have hmeas : cf * cf * (1 / mu) + k / 4 < eps := by
    have e : 1 + 2 / (1 + h) - -(1 - h) / (1 + h) = 4 / (1 + h) := by field_simp; ring
    have hbne : ((k / (1 + h) : ℝ) == 0) = false := by simpa using hk0
    simp only [measure, sumBy, hc1, hc2, hc3, hc4, sub_zero, add_zero, e, hbne, Bool.false_eq_true, if_false] at hm
    rw [div_lt_one heps] at hm
    have e2 : k / (1 + h) / (4 / (1 + h)) = k / 4 := by field_simp
    rw [e2] at hm
    exact hm
  set nu2 := cf * cf * (1 / mu) * (1 / eps) with hnu
  have hnu0 : 0 < nu2 := by rw [hnu]; positivity
  have hbound : 4 * (k * (1 / eps)) < 4 * (4 - 4 * (σ * nu2)) := by
    have h2 : nu2 * eps = cf * cf * (1 / mu) := by rw [hnu]; field_simp
    have hσn : σ * nu2 ≤ nu2 := by nlinarith
    have h3 : k * (1 / eps) < (1 - nu2) * 4 := by
      rw [mul_one_div, div_lt_iff₀ heps]; nlinarith
    nlinarith
  apply C36_damped_drude_core (k * (1 / eps)) (4 * (σ * nu2)) h (by positivity) (by positivity) hh hbound z
  rw [hc1, hc2, hc3] at hz
  simp only [charPoly] at hz
  have hDc : ((1 + h : ℝ) : ℂ) ≠ 0 := by exact_mod_cast hD
  have key : (z - 1) * (z - 1) * (((1 + h : ℝ) : ℂ) * (z * z) - 2 * z + ((1 - h : ℝ) : ℂ)
        + ((k * (1 / eps) : ℝ) : ℂ) * z)
      + ((4 * (σ * nu2) : ℝ) : ℂ) * z * (((1 + h : ℝ) : ℂ) * (z * z) - 2 * z + ((1 - h : ℝ) : ℂ))
      = ((1 + h : ℝ) : ℂ) * ((z - 1) * (z - 1) * (z * z - ((2 / (1 + h) : ℝ) : ℂ) * z - ((-(1 - h) / (1 + h) : ℝ) : ℂ)
            + ((k / (1 + h) : ℝ) : ℂ) * ((1 / eps : ℝ) : ℂ) * z)
          + 2 * 2 * ((σ * nu2 : ℝ) : ℂ) * z * (z * z - ((2 / (1 + h) : ℝ) : ℂ) * z - ((-(1 - h) / (1 + h) : ℝ) : ℂ))) := by
    have hepsc : (eps : ℂ) ≠ 0 := by exact_mod_cast heps.ne'
    have hD' : (1 : ℂ) + (h : ℂ) ≠ 0 := by exact_mod_cast hD
    push_cast
    field_simp
    ring
  rw [key, hz, mul_zero]


/-! ### non-vacuity for the damped theorems: harness materials with their actual damping γdt = 0.05 -/

/-- "au" (Drude, (ω_p dt)² = 8, γdt = 1/20, ε∞ = 9): measure < 1 -/
example : measure (99 / 100 : ℝ) 9 1
    [⟨(C35.coef ⟨0, 1 / 20, 8, 0⟩ (1 : ℝ)).c1, (C35.coef ⟨0, 1 / 20, 8, 0⟩ (1 : ℝ)).c2,
      (C35.coef ⟨0, 1 / 20, 8, 0⟩ (1 : ℝ)).c3, (C35.coef ⟨0, 1 / 20, 8, 0⟩ (1 : ℝ)).c4, 0, 0⟩] < 1 := by
  simp only [measure, sumBy, C35.coef]; norm_num

/-- "si" (Lorentz, ω0 dt = 6/5, γdt = 1/20, Δε = 6, ε∞ = 12): measure < 1 -/
example : measure (99 / 100 : ℝ) 12 1
    [⟨(C35.coef (C35.lorentz (6 / 5) (1 / 20) 6) (1 : ℝ)).c1, (C35.coef (C35.lorentz (6 / 5) (1 / 20) 6) (1 : ℝ)).c2,
      (C35.coef (C35.lorentz (6 / 5) (1 / 20) 6) (1 : ℝ)).c3, (C35.coef (C35.lorentz (6 / 5) (1 / 20) 6) (1 : ℝ)).c4, 0, 0⟩] < 1 := by
  simp only [measure, sumBy, C35.coef, C35.lorentz]; norm_num

/-! ### one handle for the axiom audit -/
theorem C36_sufficiency_clauses :
    (type_of% @C36_lossless_core) ∧ (type_of% @C36_lossless_sufficiency) ∧ (type_of% @C36_silent_is_stable) ∧
    (type_of% @hurwitz_quartic) ∧ (type_of% @hurwitz_cubic) ∧ (type_of% @C36_damped_core) ∧
    (type_of% @C36_damped_drude_core) ∧ (type_of% @C36_damped_lorentz_sufficiency) ∧
    (type_of% @C36_damped_drude_sufficiency) :=
  ⟨@C36_lossless_core, @C36_lossless_sufficiency, @C36_silent_is_stable, @hurwitz_quartic, @hurwitz_cubic,
   @C36_damped_core, @C36_damped_drude_core, @C36_damped_lorentz_sufficiency, @C36_damped_drude_sufficiency⟩

end Fdtdx.C36
