/-
C31 — Setups survive a JSON round trip.

Theorems about `FdtdxModel/C31.lean` (`exportJ` = `_export_json`, `importJ` = `_import_obj_from_json`), by structural
induction over values of ANY size and nesting depth:

  C31_roundtrip          on the serialisable fragment `Ser` every value exports, and importing the export gives the value
                         back:  Ser v → ∃ j, exportJ v = some j ∧ importJ j = some v
  C31_roundtrip_setup    the instance used for placement setups: the dict {"config", "object_list", "constraints"}
  C31_reserved_rejected  a dict with one of the four reserved keys is rejected by the export (instead of exporting
                         something that imports to a different value)
  C31_import_key_order   importing a JSON object is invariant under any permutation of its entries (distinct keys) up to the
                         order of the resulting keyword arguments / dict entries: `sort_keys=True` cannot change the result
  asFound_value_key / asFound_dtype_key   refutation witnesses for the pinned tree (only two keys asserted): a dict with key
                         `__value__` exported and re-imported to a DIFFERENT value; one with `__dtype__` failed to import

`Ser`: no reserved key among the fields of an object / dataclass or the keys of a dict, no TreeClass called `dict`,
array data is a number or nested lists of numbers.
-/
import FdtdxModel.C31
import Mathlib.Tactic.Ring
import Mathlib.Data.List.Perm.Basic
import Mathlib.Data.List.Nodup

namespace Fdtdx.C31

mutual
/-- the serialisable fragment -/
def Ser : Val → Prop
  | .array d => Raw d
  | .dataclass _ _ fs => SerF fs
  | .obj _ n fs => n ≠ "dict" ∧ SerF fs
  | .dict es => SerF es
  | .list xs => SerL xs
  | .tuple xs => SerL xs
  | _ => True
def SerF : List (String × Val) → Prop
  | [] => True
  | (k, v) :: r => k ∉ reserved ∧ Ser v ∧ SerF r
def SerL : List Val → Prop
  | [] => True
  | v :: r => Ser v ∧ SerL r
/-- `tolist()` data -/
def Raw : Val → Prop
  | .num _ => True
  | .bool _ => True
  | .list xs => RawL xs
  | _ => False
def RawL : List Val → Prop
  | [] => True
  | v :: r => Raw v ∧ RawL r
end

/-! ### lookups in lists without reserved keys -/

def KeysOK (fs : List (String × Val)) : Prop := ∀ p ∈ fs, p.1 ∉ reserved

theorem serF_keys : ∀ fs, SerF fs → KeysOK fs
  | [], _ => by intro p hp; cases hp
  | (k, v) :: r, h => by
    obtain ⟨hk, _, hr⟩ := h
    intro p hp
    rcases List.mem_cons.mp hp with rfl | hp
    · exact hk
    · exact serF_keys r hr p hp

theorem lookupV_none (fs : List (String × Val)) (k : String) (hk : k ∈ reserved) (h : KeysOK fs) : lookupV fs k = none := by
  unfold lookupV
  have : fs.find? (fun p => p.1 == k) = none := by
    rw [List.find?_eq_none]
    intro p hp hpk
    have : p.1 = k := by simpa using hpk
    exact h p hp (this ▸ hk)
  rw [this]

theorem dropMeta_id (fs : List (String × Val)) (h : KeysOK fs) : dropMeta fs = fs := by
  unfold dropMeta
  rw [List.filter_eq_self]
  intro p hp
  have h1 : p.1 ≠ "__module__" := fun e => h p hp (by rw [e]; decide)
  have h2 : p.1 ≠ "__name__" := fun e => h p hp (by rw [e]; decide)
  simp [h1, h2]

theorem lookup_meta (m n : String) (rest : List (String × Val)) (k : String)
    (hk1 : k ≠ "__module__") (hk2 : k ≠ "__name__") :
    lookupV (("__module__", .str m) :: ("__name__", .str n) :: rest) k = lookupV rest k := by
  unfold lookupV
  have e1 : ("__module__" == k) = false := by simpa using fun e => hk1 e.symm
  have e2 : ("__name__" == k) = false := by simpa using fun e => hk2 e.symm
  simp [List.find?, e1, e2]

theorem lookup_module (m n : String) (rest : List (String × Val)) :
    lookupV (("__module__", .str m) :: ("__name__", .str n) :: rest) "__module__" = some (.str m) := by
  simp [lookupV, List.find?]

theorem lookup_name (m n : String) (rest : List (String × Val)) :
    lookupV (("__module__", .str m) :: ("__name__", .str n) :: rest) "__name__" = some (.str n) := by
  have : ("__module__" == "__name__") = false := by decide
  simp [lookupV, List.find?, this]

/-- a wrapper whose payload sits under `__value__` -/
theorem assemble_value (m n : String) (p : Val) :
    assemble [("__module__", .str m), ("__name__", .str n), ("__value__", p)] =
      match p with
      | .dict r => some (.dataclass m n r)
      | .list r =>
        if m == "builtins" && n == "list" then some (.list r)
        else if m == "builtins" && n == "tuple" then some (.tuple r)
        else if m == "numpy" && n == "array" then some (.array (.list r))
        else none
      | .num x => if m == "numpy" && n == "array" then some (.array (.num x)) else none
      | .bool b => if m == "numpy" && n == "array" then some (.array (.bool b)) else none
      | _ => none := by
  have hd : lookupV [("__module__", Val.str m), ("__name__", .str n), ("__value__", p)] "__dtype__" = none := by
    have a : ("__module__" == "__dtype__") = false := by decide
    have b : ("__name__" == "__dtype__") = false := by decide
    have c : ("__value__" == "__dtype__") = false := by decide
    simp [lookupV, List.find?, a, b, c]
  have hv : lookupV [("__module__", Val.str m), ("__name__", .str n), ("__value__", p)] "__value__" = some p := by
    have a : ("__module__" == "__value__") = false := by decide
    have b : ("__name__" == "__value__") = false := by decide
    simp [lookupV, List.find?, a, b]
  unfold assemble
  rw [hd, lookup_module, lookup_name, hv]
  cases p <;> rfl

/-- a wrapper without payload: a dict or a TreeClass object -/
theorem assemble_fields (m n : String) (fs : List (String × Val)) (h : KeysOK fs) :
    assemble (("__module__", .str m) :: ("__name__", .str n) :: fs) =
      some (if n == "dict" then .dict fs else .obj m n fs) := by
  have hd : lookupV (("__module__", Val.str m) :: ("__name__", .str n) :: fs) "__dtype__" = none := by
    rw [lookup_meta _ _ _ _ (by decide) (by decide)]; exact lookupV_none fs _ (by decide) h
  have hv : lookupV (("__module__", Val.str m) :: ("__name__", .str n) :: fs) "__value__" = none := by
    rw [lookup_meta _ _ _ _ (by decide) (by decide)]; exact lookupV_none fs _ (by decide) h
  have hdm : dropMeta (("__module__", Val.str m) :: ("__name__", .str n) :: fs) = fs := by
    have : dropMeta (("__module__", Val.str m) :: ("__name__", .str n) :: fs) = dropMeta fs := by
      have b : ("__name__" == "__module__") = false := by decide
      simp [dropMeta, List.filter, b]
    rw [this, dropMeta_id fs h]
  unfold assemble
  rw [hd, lookup_module, lookup_name, hv, hdm]

theorem importFields_meta (m n : String) (rest : List (String × J)) :
    importFields (("__module__", .str m) :: ("__name__", .str n) :: rest) =
      (importFields rest).map fun r => ("__module__", .str m) :: ("__name__", .str n) :: r := by
  have a : ("__module__" == "__value__") = false := by decide
  have b : ("__name__" == "__value__") = false := by decide
  simp only [importFields, a, b, importJ]
  cases importFields rest <;> rfl

/-! ### the round trip -/

mutual
theorem rt : ∀ v, Ser v → ∃ j, exportJ v = some j ∧ importJ j = some v
  | .none, _ => ⟨.null, rfl, rfl⟩
  | .bool b, _ => ⟨.bool b, rfl, rfl⟩
  | .num x, _ => ⟨.num x, rfl, rfl⟩
  | .str s, _ => ⟨.str s, rfl, rfl⟩
  | .dtype n, _ => by
    refine ⟨.obj [("__dtype__", .str n)], rfl, ?_⟩
    have a : ("__dtype__" == "__value__") = false := by decide
    simp [importJ, importFields, a, assemble, lookupV, List.find?]
  | .array d, h => by
    obtain ⟨j, he, _, hp⟩ := rtRaw d h
    refine ⟨wrap "numpy" "array" [("__value__", j)], by simp [exportJ, he], ?_⟩
    unfold wrap
    rw [importJ, importFields_meta]
    simp only [importFields, beq_self_eq_true, if_true, hp]
    simp only [Option.map, Option.bind]
    rw [assemble_value]
    cases d <;> first | rfl | (simp [Ser, Raw] at h)
  | .dataclass m n fs, h => by
    obtain ⟨r, he, _, hi⟩ := rtF fs h
    refine ⟨wrap m n [("__value__", .obj r)], by simp [exportJ, he], ?_⟩
    unfold wrap
    rw [importJ, importFields_meta]
    simp only [importFields, beq_self_eq_true, if_true, importPayload, hi, Option.map, Option.bind]
    rw [assemble_value]
  | .obj m n fs, h => by
    obtain ⟨hn, hf⟩ := h
    obtain ⟨r, he, _, hi⟩ := rtF fs hf
    refine ⟨wrap m n r, by simp [exportJ, he], ?_⟩
    unfold wrap
    rw [importJ, importFields_meta, hi]
    simp only [Option.map, Option.bind]
    rw [assemble_fields m n fs (serF_keys fs hf)]
    have : (n == "dict") = false := by simpa using hn
    simp [this]
  | .dict es, h => by
    obtain ⟨r, _, he, hi⟩ := rtF es h
    refine ⟨wrap "builtins" "dict" r, by simp [exportJ, he], ?_⟩
    unfold wrap
    rw [importJ, importFields_meta, hi]
    simp only [Option.map, Option.bind]
    rw [assemble_fields "builtins" "dict" es (serF_keys es h)]
    simp
  | .list xs, h => by
    obtain ⟨r, he, hi⟩ := rtL xs h
    refine ⟨wrap "builtins" "list" [("__value__", .arr r)], by simp [exportJ, he], ?_⟩
    unfold wrap
    rw [importJ, importFields_meta]
    simp only [importFields, beq_self_eq_true, if_true, importPayload, hi, Option.map, Option.bind]
    rw [assemble_value]
    simp
  | .tuple xs, h => by
    obtain ⟨r, he, hi⟩ := rtL xs h
    refine ⟨wrap "builtins" "tuple" [("__value__", .arr r)], by simp [exportJ, he], ?_⟩
    unfold wrap
    rw [importJ, importFields_meta]
    simp only [importFields, beq_self_eq_true, if_true, importPayload, hi, Option.map, Option.bind]
    rw [assemble_value]
    have : ("tuple" == "list") = false := by decide
    simp [this]
theorem rtF : ∀ fs, SerF fs → ∃ r, exportFields fs = some r ∧ exportDict fs = some r ∧ importFields r = some fs
  | [], _ => ⟨[], rfl, rfl, rfl⟩
  | (k, v) :: rest, h => by
    obtain ⟨hk, hv, hr⟩ := h
    obtain ⟨j, hej, hij⟩ := rt v hv
    obtain ⟨r, her, hdr, hir⟩ := rtF rest hr
    have hkc : reserved.contains k = false := by
      simpa using hk
    have hkv : (k == "__value__") = false := by
      have : k ≠ "__value__" := fun e => hk (by rw [e]; decide)
      simpa using this
    refine ⟨(k, j) :: r, by simp [exportFields, hej, her], by simp [exportDict, hk, hej, hdr], ?_⟩
    simp [importFields, hkv, hij, hir]
theorem rtL : ∀ xs, SerL xs → ∃ r, exportList xs = some r ∧ importList r = some xs
  | [], _ => ⟨[], rfl, rfl⟩
  | v :: rest, h => by
    obtain ⟨hv, hr⟩ := h
    obtain ⟨j, hej, hij⟩ := rt v hv
    obtain ⟨r, her, hir⟩ := rtL rest hr
    exact ⟨j :: r, by simp [exportList, hej, her], by simp [importList, hij, hir]⟩
theorem rtRaw : ∀ d, Raw d → ∃ j, exportRaw d = some j ∧ importJ j = some d ∧ importPayload j = some d
  | .num x, _ => ⟨.num x, rfl, rfl, rfl⟩
  | .bool b, _ => ⟨.bool b, rfl, rfl, rfl⟩
  | .list xs, h => by
    obtain ⟨r, he, hi⟩ := rtRawL xs h
    exact ⟨.arr r, by simp [exportRaw, he], by simp [importJ, hi], by simp [importPayload, hi]⟩
  | .none, h => by simp [Raw] at h
  | .str _, h => by simp [Raw] at h
  | .dtype _, h => by simp [Raw] at h
  | .array _, h => by simp [Raw] at h
  | .dataclass _ _ _, h => by simp [Raw] at h
  | .obj _ _ _, h => by simp [Raw] at h
  | .dict _, h => by simp [Raw] at h
  | .tuple _, h => by simp [Raw] at h
theorem rtRawL : ∀ xs, RawL xs → ∃ r, exportRawList xs = some r ∧ importList r = some xs
  | [], _ => ⟨[], rfl, rfl⟩
  | v :: rest, h => by
    obtain ⟨hv, hr⟩ := h
    obtain ⟨j, hej, hij, _⟩ := rtRaw v hv
    obtain ⟨r, her, hir⟩ := rtRawL rest hr
    exact ⟨j :: r, by simp [exportRawList, hej, her], by simp [importList, hij, hir]⟩
end

/-- C31_roundtrip: on the serialisable fragment, export succeeds and import ∘ export is the identity. -/
theorem C31_roundtrip (v : Val) (h : Ser v) : ∃ j, exportJ v = some j ∧ importJ j = some v := rt v h

/-- C31_roundtrip_setup: the payload of `place_objects` — config, object list, constraint list. -/
theorem C31_roundtrip_setup (config : Val) (objects constraints : List Val)
    (hc : Ser config) (ho : SerL objects) (hk : SerL constraints) :
    ∃ j, exportJ (.dict [("config", config), ("object_list", .list objects), ("constraints", .list constraints)]) = some j ∧
      importJ j = some (.dict [("config", config), ("object_list", .list objects), ("constraints", .list constraints)]) := by
  apply rt
  refine ⟨by decide, hc, by decide, ho, by decide, hk, trivial⟩

/-- C31_reserved_rejected: a dict that uses a reserved key is not exported. -/
theorem C31_reserved_rejected (k : String) (hk : k ∈ reserved) (v : Val) (rest : List (String × Val)) :
    exportJ (.dict ((k, v) :: rest)) = none := by
  simp [exportJ, exportDict, hk]

/-! ### the pinned tree (two asserted keys): refutation witnesses, replayed on the real code by the harness -/

/-- `{"__value__": {"a": 1}}` exported fine and re-imported as a different value (the Python code returned
`{"__module__": "builtins", "__name__": "dict", "a": 1}`) -/
theorem asFound_value_key :
    ∃ j, AsFound.exportFlatDict [("__value__", .dict [("a", .num (.int 1))])] = some j ∧
      importJ j = some (.dataclass "builtins" "dict"
        [("__module__", .str "builtins"), ("__name__", .str "dict"), ("a", .num (.int 1))]) ∧
      importJ j ≠ some (.dict [("__value__", .dict [("a", .num (.int 1))])]) := by
  refine ⟨_, rfl, ?_⟩
  have h : importJ (wrap "builtins" "dict" [("__value__", wrap "builtins" "dict" [("a", J.num (Num.int 1))])]) =
      some (.dataclass "builtins" "dict"
        [("__module__", .str "builtins"), ("__name__", .str "dict"), ("a", .num (.int 1))]) := by
    unfold wrap
    rw [importJ, importFields_meta]
    simp only [importFields, beq_self_eq_true, if_true, importPayload]
    have a : ("__module__" == "__value__") = false := by decide
    have b : ("__name__" == "__value__") = false := by decide
    have c : ("a" == "__value__") = false := by decide
    simp only [a, b, c, importJ, Option.map, Option.bind, Bool.false_eq_true, if_false]
    rw [assemble_value]
  exact ⟨h, by rw [h]; intro e; cases e⟩

/-- `{"__dtype__": 5}` exported fine and could not be imported -/
theorem asFound_dtype_key :
    ∃ j, AsFound.exportFlatDict [("__dtype__", .num (.int 5))] = some j ∧ importJ j = none := by
  refine ⟨_, rfl, ?_⟩
  show importJ (wrap "builtins" "dict" [("__dtype__", J.num (Num.int 5))]) = none
  unfold wrap
  rw [importJ, importFields_meta]
  have c : ("__dtype__" == "__value__") = false := by decide
  have a : ("__module__" == "__dtype__") = false := by decide
  have b : ("__name__" == "__dtype__") = false := by decide
  simp [importFields, c, importJ, assemble, lookupV, List.find?, a, b]

/-! ### the import does not depend on key order -/

/-- results that differ at most in the order of the keyword arguments / dict entries -/
inductive FieldPerm : Option Val → Option Val → Prop
  | none : FieldPerm Option.none Option.none
  | same (v : Val) : FieldPerm (some v) (some v)
  | dict (r r' : List (String × Val)) : r.Perm r' → FieldPerm (some (.dict r)) (some (.dict r'))
  | obj (m n : String) (r r' : List (String × Val)) : r.Perm r' → FieldPerm (some (.obj m n r)) (some (.obj m n r'))

/-- both fail, or both succeed with permuted entries -/
def ORel (a b : Option (List (String × Val))) : Prop :=
  (a = Option.none ∧ b = Option.none) ∨ ∃ x y, a = some x ∧ b = some y ∧ x.Perm y

def entry (p : String × J) : Option Val := if p.1 == "__value__" then importPayload p.2 else importJ p.2

theorem importFields_cons (p : String × J) (rest : List (String × J)) :
    importFields (p :: rest) =
      match entry p, importFields rest with
      | some a, some b => some ((p.1, a) :: b)
      | _, _ => Option.none := by
  obtain ⟨k, v⟩ := p
  simp only [importFields, entry]
  cases (if (k == "__value__") = true then importPayload v else importJ v) <;> cases importFields rest <;> rfl

theorem importFields_perm {kvs kvs' : List (String × J)} (h : kvs.Perm kvs') : ORel (importFields kvs) (importFields kvs') := by
  induction h with
  | nil => right; exact ⟨[], [], rfl, rfl, List.Perm.refl _⟩
  | cons p _ ih =>
    rw [importFields_cons, importFields_cons]
    rcases ih with ⟨h1, h2⟩ | ⟨x, y, h1, h2, hp⟩
    · left; rw [h1, h2]; cases entry p <;> exact ⟨rfl, rfl⟩
    · rw [h1, h2]
      cases entry p with
      | none => left; exact ⟨rfl, rfl⟩
      | some a => right; exact ⟨_, _, rfl, rfl, hp.cons _⟩
  | swap p q l =>
    rw [importFields_cons, importFields_cons, importFields_cons, importFields_cons]
    cases entry p <;> cases entry q <;> cases importFields l <;>
      first
        | (left; exact ⟨rfl, rfl⟩)
        | (right; exact ⟨_, _, rfl, rfl, List.Perm.swap _ _ _⟩)
  | trans _ _ ih1 ih2 =>
    rcases ih1 with ⟨h1, h2⟩ | ⟨x, y, h1, h2, hp⟩
    · rcases ih2 with ⟨h3, h4⟩ | ⟨x', y', h3, h4, hp'⟩
      · left; exact ⟨h1, h4⟩
      · rw [h2] at h3; cases h3
    · rcases ih2 with ⟨h3, h4⟩ | ⟨x', y', h3, h4, hp'⟩
      · rw [h2] at h3; cases h3
      · right
        rw [h2] at h3; injection h3 with h3; subst h3
        exact ⟨x, y', h1, h4, hp.trans hp'⟩

theorem importFields_keys : ∀ (kvs : List (String × J)) (fs : List (String × Val)),
    importFields kvs = some fs → fs.map (·.1) = kvs.map (·.1)
  | [], fs, h => by simp [importFields] at h; subst h; rfl
  | p :: rest, fs, h => by
    rw [importFields_cons] at h
    cases he : entry p with
    | none => simp [he] at h
    | some a =>
      cases hr : importFields rest with
      | none => simp [he, hr] at h
      | some b =>
        simp [he, hr] at h
        subst h
        simp [importFields_keys rest b hr]

theorem lookupV_some_iff (fs : List (String × Val)) (hnd : (fs.map (·.1)).Nodup) (k : String) (v : Val) :
    lookupV fs k = some v ↔ (k, v) ∈ fs := by
  induction fs with
  | nil => simp [lookupV]
  | cons p rest ih =>
    obtain ⟨k', v'⟩ := p
    simp only [List.map_cons, List.nodup_cons] at hnd
    have ih' := ih hnd.2
    unfold lookupV at ih' ⊢
    by_cases hk : k' = k
    · subst hk
      simp only [List.find?, beq_self_eq_true, List.mem_cons, Prod.mk.injEq, true_and]
      constructor
      · intro h; injection h with h; exact Or.inl h.symm
      · rintro (h | h)
        · rw [h]
        · exact absurd (List.mem_map_of_mem (f := (·.1)) h) hnd.1
    · have : (k' == k) = false := by simpa using hk
      simp only [List.find?, this, List.mem_cons, Prod.mk.injEq]
      rw [ih']
      constructor
      · intro h; exact Or.inr h
      · rintro (⟨h, _⟩ | h)
        · exact absurd h.symm hk
        · exact h

theorem lookupV_perm {fs fs' : List (String × Val)} (hp : fs.Perm fs') (hnd : (fs.map (·.1)).Nodup) (k : String) :
    lookupV fs k = lookupV fs' k := by
  have hnd' : (fs'.map (·.1)).Nodup := (hp.map _).nodup_iff.mp hnd
  apply Option.ext
  intro v
  rw [lookupV_some_iff fs hnd, lookupV_some_iff fs' hnd', hp.mem_iff]

theorem assemble_perm {fs fs' : List (String × Val)} (hp : fs.Perm fs') (hnd : (fs.map (·.1)).Nodup) :
    FieldPerm (assemble fs) (assemble fs') := by
  have hd : dropMeta fs |>.Perm (dropMeta fs') := hp.filter _
  unfold assemble
  rw [← lookupV_perm hp hnd "__dtype__", ← lookupV_perm hp hnd "__module__", ← lookupV_perm hp hnd "__name__",
    ← lookupV_perm hp hnd "__value__"]
  cases lookupV fs "__dtype__" with
  | some d => cases d <;> first | exact FieldPerm.none | exact FieldPerm.same _
  | none =>
    cases lookupV fs "__module__" with
    | none => exact FieldPerm.none
    | some m =>
      cases m <;> try exact FieldPerm.none
      rename_i m
      cases lookupV fs "__name__" with
      | none => exact FieldPerm.none
      | some n =>
        cases n <;> try exact FieldPerm.none
        rename_i n
        cases lookupV fs "__value__" with
        | some p =>
          cases p <;> simp only <;> (try exact FieldPerm.none) <;> (try exact FieldPerm.same _) <;>
            (split <;> first | exact FieldPerm.none | exact FieldPerm.same _ | skip)
          all_goals (split <;> first | exact FieldPerm.none | exact FieldPerm.same _ | skip)
          all_goals (split <;> first | exact FieldPerm.none | exact FieldPerm.same _)
        | none =>
          simp only
          split
          · exact FieldPerm.dict _ _ hd
          · exact FieldPerm.obj _ _ _ _ hd

/-- C31_import_key_order: importing a JSON object does not depend on the order of its entries (keys distinct, as in
every JSON document): `json.dumps(sort_keys=True)` cannot change what is imported, only the order in which the keyword
arguments / dict entries are listed. -/
theorem C31_import_key_order (kvs kvs' : List (String × J)) (hp : kvs.Perm kvs') (hnd : (kvs.map (·.1)).Nodup) :
    FieldPerm (importJ (.obj kvs)) (importJ (.obj kvs')) := by
  simp only [importJ]
  rcases importFields_perm hp with ⟨h1, h2⟩ | ⟨x, y, h1, h2, hxy⟩
  · rw [h1, h2]; exact FieldPerm.none
  · rw [h1, h2]
    simp only [Option.bind]
    have hk : (x.map (·.1)).Nodup := by rw [importFields_keys kvs x h1]; exact hnd
    exact assemble_perm hxy hk

/-- non-vacuity: an exported TreeClass object, its entries in export order and in the order `sort_keys` produces -/
def kvs0 : List (String × J) :=
  [("__module__", .str "fdtdx.x"), ("__name__", .str "Box"), ("shape", wrap "builtins" "tuple" [("__value__", .arr [.num (.int 2), .null])]),
   ("name", .str "Cube")]
def kvs0sorted : List (String × J) :=
  [("__module__", .str "fdtdx.x"), ("__name__", .str "Box"), ("name", .str "Cube"),
   ("shape", wrap "builtins" "tuple" [("__value__", .arr [.num (.int 2), .null])])]

example : (kvs0.map (·.1)).Nodup ∧ kvs0.Perm kvs0sorted ∧ (importJ (.obj kvs0)).isSome = true := by
  refine ⟨by decide, ?_, by decide⟩
  unfold kvs0 kvs0sorted
  exact (List.Perm.swap _ _ _).cons _ |>.cons _

example : FieldPerm (importJ (.obj kvs0)) (importJ (.obj kvs0sorted)) :=
  C31_import_key_order kvs0 kvs0sorted (by unfold kvs0 kvs0sorted; exact (List.Perm.swap _ _ _).cons _ |>.cons _) (by decide)

/-! ### non-vacuity: a nested setup-like value in the fragment -/
example : Ser (.dict [("config", .obj "fdtdx.config" "SimulationConfig" [("time", .num (.flt 0)), ("dtype", .dtype "jax.numpy.float32")]),
    ("object_list", .list [.obj "m" "Box" [("shape", .tuple [.num (.int 2), .none]), ("edges", .array (.list [.num (.flt 1)]))]]),
    ("constraints", .list [.dataclass "m" "PositionConstraint" [("object", .str "a"), ("axes", .tuple [.num (.int 0)])]])]) := by
  simp [Ser, SerF, SerL, Raw, RawL, reserved]

end Fdtdx.C31
