/-
C27 — Placement does not depend on the order of objects or constraints.

Property theorems about `FdtdxModel/C26.lean` (`solve` = `fdtdx.resolve_object_constraints` after the three
`fix:` commits), for EVERY system, every permutation of its object list and of its constraint list, every
grid, every scalar type:

  C27_perm        PermSys sA sB → solve sA nA = done r []  →  solve sB nB = done r []  ∨  B ran out of max_iter
                  (same success, same final slices r; the only escape is an explicit "did not settle within nB
                  passes" — `SolveExhausts`, which `solve` reports as an error for every object)
  C27_perm_iff    the symmetric form: if neither order runs out of max_iter, success and the resolved slices coincide
  C27_perm_full   no escape clause: when the volume declares its shape and all constraint axes are 0-2, every
                  productive pass assigns one of the 9·#objects slots, so max_iter > 9·#objects always suffices:
                  solve sA nA = done r [] → solve sB nB = done r []
  C27_terminates  … and under those conditions no run ends in the "did not converge" branch
  C27_confluence  the engine-level statement it rests on (any two group lists with the same atoms and the same
                  extension function)

Proof: if run A ends without error then every atom is stable on each of its quiescent states; by induction over
B's assignments every value B assigns is the value A's quiescent state has, so B never conflicts; B's quiescent
state is stable too, so A's assignments are below it: the quiescent states coincide, the extension step is a
function of that state and of the constraint SET, and the argument repeats per round (FdtdxLemmas/C26Loop.lean,
`confluent`).

Refutation witnesses for the pinned tree (`AsFound.solve`): three `asFound_*` examples at the end — for each of
the three defects one system and two orders with different success — and the same inputs under `solve`.
-/
import FdtdxLemmas.C26Sys
import FdtdxLemmas.C26Term
import FdtdxProps.C26

namespace Fdtdx.C26

variable {α : Type} [Add α] [Sub α] [Mul α] [Div α] [Neg α] [LT α] [DecidableLT α]
  [OfNat α 0] [OfNat α 1] [OfNat α 2]

set_option linter.unusedSectionVars false

/-- the run of `solve sys n` uses up `max_iter = n` passes before it settles (the code then flags every object:
"did not converge") -/
def SolveExhausts (sys : Sys α) (n : Nat) : Prop :=
  ∃ σ₀, init sys = some σ₀ ∧ Exhausts sys (groups sys) n σ₀ []

/-- the resolved slices of a successful placement -/
def Outcome.success : Outcome → Option St
  | .done σ [] => some σ
  | _ => none

theorem success_iff (o : Outcome) (r : St) : o.success = some r ↔ o = .done r [] := by
  cases o with
  | raised => simp [Outcome.success]
  | done σ e =>
    cases e with
    | nil => simp [Outcome.success]
    | cons x xs => simp [Outcome.success]

theorem PermSys.symm {sA sB : Sys α} (p : PermSys sA sB) : PermSys sB sA :=
  ⟨p.grid.symm, p.objs.symm, p.cons.symm⟩

/-- C27_confluence: two runs over the same atoms (in any order and grouping) with the same extension function:
if one succeeds with final state τ, the other one ends in τ without errors or runs out of fuel. -/
theorem C27_confluence {sA sB : Sys α} {gA gB : List Group} (hs : SameSys sA sB gA gB) {τ : St}
    (nA nB : Nat) (σ₀ : St) (h : loop sA gA nA σ₀ [] = some (τ, [])) :
    loop sB gB nB σ₀ [] = some (τ, []) ∨ Exhausts sB gB nB σ₀ [] :=
  confluent hs nA σ₀ σ₀ nB (SameClosure.refl gA σ₀) h

/-- **C27_perm** — permuting the object list and the constraint list changes neither whether placement succeeds
nor any resolved slice (unless the permuted run does not settle within its `max_iter`). -/
theorem C27_perm {sA sB : Sys α} (p : PermSys sA sB) {nA nB : Nat} {r : St}
    (h : solve sA nA = .done r []) : solve sB nB = .done r [] ∨ SolveExhausts sB nB := by
  obtain ⟨hwf, σ₀, hinit, hloop, hval⟩ := solve_done h
  have h1 := wellFormed_oneVol hwf
  have hwfB : wellFormed sB = true := by rw [p.wellFormed]; exact hwf
  have hinitB : init sB = some σ₀ := by rw [p.init (wellFormed_nodup hwf)]; exact hinit
  rcases C27_confluence (p.sameSys h1) nA nB σ₀ hloop with hB | hB
  · left
    have hvB := (p.validate_none h1 r [] []).2 hval rfl
    unfold solve
    simp only [hwfB, Bool.not_true, Bool.false_eq_true, if_false, hinitB, hB, hvB]
  · exact Or.inr ⟨σ₀, hinitB, hB⟩

/-- C27_perm_iff — symmetric form. -/
theorem C27_perm_iff {sA sB : Sys α} (p : PermSys sA sB) {nA nB : Nat}
    (hA : ¬ SolveExhausts sA nA) (hB : ¬ SolveExhausts sB nB) :
    (solve sA nA).success = (solve sB nB).success := by
  cases hsA : (solve sA nA).success with
  | some r =>
    rcases C27_perm p (nB := nB) ((success_iff _ r).1 hsA) with h | h
    · exact ((success_iff _ r).2 h).symm
    · exact absurd h hB
  | none =>
    cases hsB : (solve sB nB).success with
    | none => rfl
    | some r =>
      rcases C27_perm p.symm (nB := nA) ((success_iff _ r).1 hsB) with h | h
      · rw [(success_iff _ r).2 h] at hsA; cases hsA
      · exact absurd h hA

/-- **C27_perm_full** — with the bound on the number of passes: if the volume declares its shape and every
constraint names axes 0-2, then ANY `max_iter > 9 · #objects` suffices for the permuted run, so permuting objects
and constraints changes neither success nor any resolved slice. (The default `max_iter` is 1000.) -/
theorem C27_perm_full {sA sB : Sys α} (p : PermSys sA sB) {nA nB : Nat} {r : St}
    (hax : axesOK sA = true) (hvol : volSizedInit sA = true) (hn : 9 * sA.objs.length < nB)
    (h : solve sA nA = .done r []) : solve sB nB = .done r [] := by
  rcases C27_perm p (nB := nB) h with h1 | ⟨σ₀, hinitB, hex⟩
  · exact h1
  · exfalso
    obtain ⟨hwf, _⟩ := solve_done h
    have hwfB : wellFormed sB = true := by rw [p.wellFormed]; exact hwf
    have hinitA : init sA = some σ₀ := by rw [← p.init (wellFormed_nodup hwf)]; exact hinitB
    have hv : VolSized sB σ₀ := by
      intro ax hax3
      rw [p.volId (wellFormed_oneVol hwf)]
      exact volSizedInit_spec hvol hinitA ax hax3
    have hlen : sB.objs.length = sA.objs.length := p.objs.length_eq
    exact not_exhausts (targetsIn_groups hwfB (by rw [p.axesOK]; exact hax)) hv (by rw [hlen]; exact hn) hex

/-- C27_terminates: under the same conditions a run never ends in the "did not converge" branch. -/
theorem C27_terminates {sys : Sys α} {n : Nat} (hwf : wellFormed sys = true) (hax : axesOK sys = true)
    (hvol : volSizedInit sys = true) (hn : 9 * sys.objs.length < n) : ¬ SolveExhausts sys n := by
  rintro ⟨σ₀, hinit, hex⟩
  exact not_exhausts (targetsIn_groups hwf hax) (volSizedInit_spec hvol hinit) hn hex

/-! ### non-vacuity -/
section Examples
open W

/-- a permuted pair of systems (objects and constraints in another order) … -/
example : PermSys (sysW [posAB, full 2 1, full 1 3])
    ⟨gInt, [cube 1, vol8, cube 2], [full 2 1, posAB, full 1 3]⟩ :=
  ⟨rfl, List.Perm.swap _ _ _, List.Perm.swap _ _ _⟩

/-- … on which both orders succeed with the same slices (so neither exhausts `max_iter`) -/
example : okAnd (solve (sysW [posAB, full 2 1, full 1 3]) 10)
    (fun σ => σ ⟨1, 0, .lo⟩ == some 3 && σ ⟨1, 0, .hi⟩ == some 5 && σ ⟨2, 0, .lo⟩ == some 1) = true := by decide +kernel
example : okAnd (solve ⟨gInt, [cube 1, vol8, cube 2], [full 2 1, posAB, full 1 3]⟩ 10)
    (fun σ => σ ⟨1, 0, .lo⟩ == some 3 && σ ⟨1, 0, .hi⟩ == some 5 && σ ⟨2, 0, .lo⟩ == some 1) = true := by decide +kernel

/-- the hypotheses of `C27_perm_full` hold for it (3 objects: any max_iter ≥ 28 will do) -/
example : axesOK (sysW [posAB, full 2 1, full 1 3]) = true ∧ volSizedInit (sysW [posAB, full 2 1, full 1 3]) = true ∧
    9 * (sysW [posAB, full 2 1, full 1 3]).objs.length < 28 := by decide +kernel

/-- the escape clause is real: with `max_iter = 1` the run does not settle -/
example : okAnd (solve (sysW [posAB, full 2 1, full 1 3]) 1) (fun _ => true) = false := by decide +kernel

end Examples

/-! ### the pinned tree violated the property: one system, two orders, different success -/
section AsFoundWitnesses
open W

/-- defect 1 (early exit) -/
example : okAnd (AsFound.solve (sysW [posAB, full 2 1, full 1 5]) 1000) (fun _ => true) = true ∧
    okAnd (AsFound.solve (sysW [full 2 1, posAB, full 1 5]) 1000) (fun _ => true) = false := by decide +kernel

/-- defect 2 (`partial_real_position` not verified once both bounds are known) -/
example : okAnd (AsFound.solve (sysR [full 3 5, full 2 0, sizeAB, gridA, extAC]) 1000) (fun _ => true) = true ∧
    okAnd (AsFound.solve (sysR [full 2 0, sizeAB, gridA, extAC, full 3 5]) 1000) (fun _ => true) = false := by
  decide +kernel

/-- defect 3 (extension to a volume boundary that is not known yet raises) -/
example : okAnd (AsFound.solve (sysV [gV, xA, gA]) 1000) (fun σ => σ ⟨1, 0, .hi⟩ == some 8) = true ∧
    okAnd (AsFound.solve (sysV [xA, gV, gA]) 1000) (fun _ => true) = false := by decide +kernel

/-- after the fixes all orders of the three systems agree -/
example : okAnd (solve (sysW [posAB, full 2 1, full 1 5]) 1000) (fun _ => true) = false ∧
    okAnd (solve (sysW [full 2 1, posAB, full 1 5]) 1000) (fun _ => true) = false ∧
    okAnd (solve (sysR [full 3 5, full 2 0, sizeAB, gridA, extAC]) 1000) (fun _ => true) = false ∧
    okAnd (solve (sysR [full 2 0, sizeAB, gridA, extAC, full 3 5]) 1000) (fun _ => true) = false ∧
    okAnd (solve (sysV [gV, xA, gA]) 1000) (fun σ => σ ⟨1, 0, .lo⟩ == some 3 && σ ⟨1, 0, .hi⟩ == some 8) = true ∧
    okAnd (solve (sysV [xA, gV, gA]) 1000) (fun σ => σ ⟨1, 0, .lo⟩ == some 3 && σ ⟨1, 0, .hi⟩ == some 8) = true := by
  decide +kernel

end AsFoundWitnesses

end Fdtdx.C26
