/-
C23 — Fabrication clean-up keeps exactly the connected material.

Property theorems about `FdtdxModel/C23.lean` (every shape, every design, every seed; no size bound).
Vocabulary (`FdtdxLemmas/C23Spec.lean`): `Adj` = the two cells share a face, `Reach s m seed` = cells of the mask
`m` reachable from a seed cell in the mask through face-adjacent mask cells (inductive), `Conn s m` = `Reach` from
the bottom layer z = 0.

  C23_fixFrom_terminates       the fuel `cells + 2` of the model's fixpoint loop is never exhausted: the result is
                               mapped to itself by one more dilation round (so the unbounded `while_loop` of the code
                               and the fuelled loop of the model agree)
  C23_floodFix_eq_reachable    for a seed inside the mask: floodFix = Reach (both inclusions) = least fixpoint
  C23_floodFix_least           … and it is contained in every set closed under the dilation round that contains the seed
  C23_polymerConnection_eq_reachable   compute_polymer_connection (seed = whole bottom layer) = Conn, nz ≠ 1
  C23_polymerConnection_padded         the z = 1 branch returns the matrix itself (= Conn, every cell is in the bottom layer)
  C23_airConnection_eq_reachable       compute_air_connection = background reachable from the top and the four sides
  C23_removeFloating_spec      remove_floating_polymer keeps a cell iff it is material connected to the bottom layer
  C23_removeFloating_removes   every other material cell becomes background
  C23_removeFloating_no_floating / C23_connectHoles_no_floating
                               the result of either clean-up contains no floating material (connectivity taken
                               inside the RESULT)
  C23_asFound_sound            the pinned `max(shape)`-round flood only ever returned connected cells (it lost
                               cells, never kept floating ones) — with the refutation witnesses at the end this
                               pins down what the defect was

Not proved (decided by K/S on the real code only): "no background region enclosed away from the sides and the
top" after connect_holes_and_structures — `connect_slice` is a heuristic; see props/C23.json `not_shown`.
-/
import FdtdxLemmas.C23Flood

namespace Fdtdx.C23

/-! ### the loop reaches a fixpoint -/

/-- `iterate_until_unchanged` started from any array lying in the index box: after one round the iterates
grow inside the mask, so at most `cells s` further rounds change anything; the model's fuel is not exhausted
and the value returned is a fixpoint of the dilation round, lies in the mask, and contains the first iterate. -/
theorem C23_fixFrom_terminates (s : Shape) (m seed : Tab)
    (hb : ∀ i j k, look seed i j k = true → inb s i j k = true) :
    FixSpec s (look m) (stepI s (look m) (look seed)) (look (floodFix s m seed)) := by
  unfold floodFix
  have hstep : look (step s m seed) = stepI s (look m) (look seed) := look_step s m seed
  have hbin : Inside s (look m) (look (step s m seed)) := by rw [hstep]; exact stepI_inside _ _ _
  simp only [fixFrom]
  by_cases heq : eqT s seed (step s m seed) = true
  · rw [if_pos heq]
    have hab : look seed = look (step s m seed) := eq_of_eqT heq hb (fun i j k h => (hbin i j k h).1)
    refine ⟨?_, hbin, ?_, ?_⟩
    · rw [← hstep]; exact fun _ _ _ h => h
    · rw [← hab]; exact hstep.symm.trans hab.symm
    · intro sd h; rw [hstep]; exact h
  · rw [if_neg heq]
    have := fixFrom_spec s m (cells s + 1) (step s m seed) hbin (by omega)
    rw [hstep] at this
    exact this

/-! ### flood fill = reachability -/

/-- common core: the seed may stick out of the mask as long as its first masked xy-dilation only produces
reachable cells (true for seeds inside the mask and for whole layers) -/
theorem floodFix_eq_reach_of (s : Shape) (m seed : Tab) (sd : Img)
    (hb : ∀ i j k, look seed i j k = true → inb s i j k = true)
    (h1 : ∀ i j k, sub1 s (look m) (look seed) i j k = true → Reach s (look m) sd i j k)
    (h2 : ∀ i j k, inb s i j k = true → look m i j k = true → sd i j k = true → look seed i j k = true)
    (i j k : Nat) : look (floodFix s m seed) i j k = true ↔ Reach s (look m) sd i j k := by
  have sp := C23_fixFrom_terminates s m seed hb
  constructor
  · exact sp.sound sd (sub3_sound (sub2_sound h1)) i j k
  · apply reach_le_fix sp.inside (by rw [sp.fix]; exact fun _ _ _ h => h)
    intro i j k hin hm hs
    apply sp.ge
    apply sub1_le_stepI
    simp [sub1, dilXY, hin, hm, h2 i j k hin hm hs]

/-- **flood fill = reachable set**, any shape, any mask, any seed inside the mask. -/
theorem C23_floodFix_eq_reachable (s : Shape) (m seed : Tab)
    (hseed : ∀ i j k, look seed i j k = true → inb s i j k = true ∧ look m i j k = true) (i j k : Nat) :
    look (floodFix s m seed) i j k = true ↔ Reach s (look m) (look seed) i j k := by
  apply floodFix_eq_reach_of s m seed (look seed) (fun i j k h => (hseed i j k h).1)
  · exact sub1_sound (fun i j k h => .base (hseed i j k h).1 (hseed i j k h).2 h)
  · exact fun _ _ _ _ _ h => h

/-- it is the LEAST set containing the seed that a dilation round does not enlarge -/
theorem C23_floodFix_least (s : Shape) (m seed : Tab)
    (hseed : ∀ i j k, look seed i j k = true → inb s i j k = true ∧ look m i j k = true)
    (r : Img) (hin : Inside s (look m) r) (hfix : Sub (stepI s (look m) r) r) (hsr : Sub (look seed) r) :
    Sub (look (floodFix s m seed)) r := by
  intro i j k h
  rw [C23_floodFix_eq_reachable s m seed hseed] at h
  exact reach_le_fix hin hfix (fun i j k _ _ hs => hsr i j k hs) i j k h

theorem look_bottom (s : Shape) (i j k : Nat) : look (bottom s) i j k = (inb s i j k && decide (k = 0)) := by
  unfold bottom; rw [look_tab]

/-- **compute_polymer_connection = material connected to the bottom layer** (the code seeds the whole layer
z = 0, also outside the material; the first masked dilation cuts it down). -/
theorem C23_polymerConnection_eq_reachable (s : Shape) (m : Tab) (i j k : Nat) :
    look (polymerConnection s m) i j k = true ↔ Conn s (look m) i j k := by
  unfold polymerConnection Conn
  apply floodFix_eq_reach_of s m (bottom s) bottomI
  · intro i j k h; rw [look_bottom] at h; simp only [Bool.and_eq_true] at h; exact h.1
  · intro i j k h
    simp only [sub1, dilXY, look_bottom, Bool.and_eq_true, Bool.or_eq_true, decide_eq_true_eq] at h
    obtain ⟨hin, hm, hd⟩ := h
    refine .base hin hm ?_
    simp only [bottomI, decide_eq_true_eq]
    rcases hd with (((h | h) | h) | h) | h
    · exact h.2
    · exact h.2.2
    · exact h.2
    · exact h.2.2
    · exact h.2
  · intro i j k hin _ hs
    rw [look_bottom]; simp only [bottomI] at hs; simp [hin, hs]

/-- `compute_air_connection` = background reachable from the top face or one of the four side faces -/
theorem C23_airConnection_eq_reachable (s : Shape) (m : Tab) (i j k : Nat) :
    look (airConnection s m) i j k = true ↔ inb s i j k = true ∧ OpenAir s (look m) i j k := by
  unfold airConnection
  simp only []
  rw [C23_floodFix_eq_reachable]
  · unfold OpenAir
    constructor
    · intro h
      refine ⟨h.inb, ?_⟩
      induction h with
      | base hb hm hs =>
        simp only [look_tab, Bool.and_eq_true, Bool.not_eq_true'] at hm hs
        exact .base hb (by simp [hm.2]) hs.2.1
      | step _ hadj hb hm ih =>
        simp only [look_tab, Bool.and_eq_true, Bool.not_eq_true'] at hm
        exact .step ih hadj hb (by simp [hm.2])
    · rintro ⟨-, h⟩
      induction h with
      | base hb hm hs =>
        refine .base hb ?_ ?_
        · simp only [look_tab, hb, Bool.true_and]; exact hm
        · simp only [look_tab, hb, Bool.true_and, Bool.and_eq_true]; exact ⟨hs, hm⟩
      | step _ hadj hb hm ih =>
        exact .step ih hadj hb (by simp only [look_tab, hb, Bool.true_and]; exact hm)
  · intro i j k h
    simp only [look_tab, Bool.and_eq_true] at h ⊢
    exact ⟨h.1, h.1, h.2.2.2⟩

theorem look_layer (s : Shape) (kk i j k : Nat) : look (layer s kk) i j k = (inb s i j k && decide (k = kk)) := by
  unfold layer; rw [look_tab]

/-- the z = 1 branch (matrix padded to three layers, seed in the middle layer): every material cell is in the
bottom layer, and the function returns exactly the material. -/
theorem C23_polymerConnection_padded (s : Shape) (m : Tab) (i j k : Nat) :
    look (polymerConnectionPadded s m) i j k = (inb s i j k && (decide (i < s.nx) && decide (j < s.ny) && look m i j 0)) := by
  unfold polymerConnectionPadded
  simp only [look_tab]
  congr 1
  rw [Bool.eq_iff_iff]
  rw [floodFix_eq_reach_of ⟨s.nx, s.ny, 3⟩ _ (layer ⟨s.nx, s.ny, 3⟩ 1) (fun _ _ k => decide (k = 1))]
  · constructor
    · intro h
      have h1 := h.inb
      have h2 := h.mask
      simp only [look_tab, inb, Bool.and_eq_true, decide_eq_true_eq] at h1 h2
      simp [h1.1.1, h1.1.2, h2.2.2]
    · intro h
      simp only [Bool.and_eq_true, decide_eq_true_eq] at h
      refine .base ?_ ?_ ?_
      · simp [inb, h.1.1, h.1.2]
      · simp [look_tab, inb, h.1.1, h.1.2, h.2]
      · simp
  · intro i j k h; rw [look_layer] at h; simp only [Bool.and_eq_true] at h; exact h.1
  · intro i j k h
    simp only [sub1, Bool.and_eq_true] at h
    obtain ⟨hin, hm, _⟩ := h
    refine .base hin hm ?_
    simp only [look_tab, Bool.and_eq_true, decide_eq_true_eq] at hm
    simp [hm.2.1]
  · intro i j k hin _ hs
    rw [look_layer]; simp only [decide_eq_true_eq] at hs; subst hs; simp [hin]

/-- **compute_polymer_connection, both branches = material connected to the bottom layer** -/
theorem C23_conn_eq_reachable (s : Shape) (m : Tab) (i j k : Nat) :
    look (conn s m) i j k = true ↔ Conn s (look m) i j k := by
  unfold conn
  by_cases hz : s.nz = 1
  · rw [if_pos hz, C23_polymerConnection_padded]
    constructor
    · intro h
      simp only [Bool.and_eq_true, decide_eq_true_eq] at h
      have hk : k = 0 := by
        have := h.1; simp only [inb, Bool.and_eq_true, decide_eq_true_eq] at this; omega
      subst hk
      exact .base h.1 h.2.2 (by simp [bottomI])
    · intro h
      have h1 := h.inb
      have h2 := h.mask
      have hk : k = 0 := by
        simp only [inb, Bool.and_eq_true, decide_eq_true_eq] at h1; omega
      subst hk
      simp only [inb, Bool.and_eq_true, decide_eq_true_eq] at h1
      simp [inb, h1.1.1, h1.1.2, h1.2, h2]
  · rw [if_neg hz]; exact C23_polymerConnection_eq_reachable s m i j k

/-! ### remove_floating_polymer -/

/-- **removing floating material keeps precisely the material cells connected (through face-adjacent material)
to the bottom layer** — any shape, any design. (`Conn` implies "is material".) -/
theorem C23_removeFloating_spec (s : Shape) (m : Tab) (i j k : Nat) :
    look (removeFloating s m) i j k = true ↔ Conn s (look m) i j k := by
  unfold removeFloating removeFloatingWith
  rw [look_tab]
  constructor
  · intro h
    simp only [Bool.and_eq_true, Bool.not_eq_true', Bool.and_eq_false_iff, Bool.not_eq_false'] at h
    rcases h.2.2 with hc | hc
    · exact (C23_conn_eq_reachable s m i j k).mp hc
    · rw [h.2.1] at hc; exact absurd hc (by simp)
  · intro h
    have hc := (C23_conn_eq_reachable s m i j k).mpr h
    simp [h.inb, h.mask, hc]

/-- … and turns every other material cell into background -/
theorem C23_removeFloating_removes (s : Shape) (m : Tab) (i j k : Nat)
    (_hm : look m i j k = true) (hn : ¬ Conn s (look m) i j k) : look (removeFloating s m) i j k = false := by
  by_contra h
  exact hn ((C23_removeFloating_spec s m i j k).mp (by simpa using h))

/-- the result has no floating material: every kept cell is connected to the bottom layer INSIDE THE RESULT -/
theorem C23_removeFloating_no_floating (s : Shape) (m : Tab) (i j k : Nat)
    (h : look (removeFloating s m) i j k = true) : Conn s (look (removeFloating s m)) i j k := by
  have hc := (C23_removeFloating_spec s m i j k).mp h
  clear h
  unfold Conn at hc ⊢
  induction hc with
  | base hb hm hs =>
    exact .base hb ((C23_removeFloating_spec s m _ _ _).mpr (.base hb hm hs)) hs
  | step hprev hadj hb hm ih =>
    exact .step ih hadj hb ((C23_removeFloating_spec s m _ _ _).mpr (.step hprev hadj hb hm))

/-- removing floating material twice changes nothing more -/
theorem C23_removeFloating_idem (s : Shape) (m : Tab) (i j k : Nat) :
    look (removeFloating s (removeFloating s m)) i j k = look (removeFloating s m) i j k := by
  rw [Bool.eq_iff_iff, C23_removeFloating_spec]
  constructor
  · intro h; exact h.mask
  · exact C23_removeFloating_no_floating s m i j k

/-! ### connect_holes_and_structures -/

/-- **the design returned by connect_holes_and_structures has no floating material** (its last step is the
flood-fill clean-up, whatever the slice heuristics did before). -/
theorem C23_connectHoles_no_floating (s : Shape) (m : Tab) (i j k : Nat)
    (h : look (connectHoles s m) i j k = true) : Conn s (look (connectHoles s m)) i j k :=
  C23_removeFloating_no_floating s (connectPre s m) i j k h

/-! ### the pinned tree: `max(shape)` rounds -/

theorem iterN_sound {s : Shape} {m : Tab} {sd : Img} : ∀ (n : Nat) (a : Tab),
    (∀ i j k, look a i j k = true → Reach s (look m) sd i j k) →
    ∀ i j k, look (iterN (step s m) n a) i j k = true → Reach s (look m) sd i j k := by
  intro n
  induction n with
  | zero => intro a h; exact h
  | succ n ih =>
    intro a h
    simp only [iterN]
    apply ih
    rw [look_step]
    exact stepI_sound h

/-- as found, the flood never marked a cell that is not connected (it only stopped too early) -/
theorem C23_asFound_sound (s : Shape) (m : Tab) (i j k : Nat)
    (h : look (AsFound.polymerConnection s m) i j k = true) : Conn s (look m) i j k := by
  unfold AsFound.polymerConnection AsFound.floodN at h
  generalize hn : max s.nx (max s.ny s.nz) = n at h
  cases n with
  | zero =>
    simp only [iterN, look_bottom, inb, Bool.and_eq_true, decide_eq_true_eq] at h
    omega
  | succ n =>
    simp only [iterN] at h
    refine iterN_sound n _ ?_ i j k h
    intro i j k h
    change Conn s (look m) i j k
    rw [← C23_polymerConnection_eq_reachable]
    unfold polymerConnection
    have sp := C23_fixFrom_terminates s m (bottom s)
      (fun i j k h => by rw [look_bottom] at h; simp only [Bool.and_eq_true] at h; exact h.1)
    apply sp.ge
    rw [← look_step]; exact h

/-! ### non-vacuity and refutation witnesses -/

/-- serpentine in the xz-plane of a 5×3×5 grid: rows z = 0, 2, 4 joined at alternating ends (17 cells, all
connected to the bottom row) -/
def serp55 : Tab := tab ⟨5, 3, 5⟩ fun i j k =>
  decide (j = 0) && (decide (k % 2 = 0) || (decide (k = 1) && decide (i = 4)) || (decide (k = 3) && decide (i = 0)))

/-- the full statement FAILS for the tree as found: the far end of the serpentine is material, is connected to
the bottom layer (kept by the fixed function, hence `Conn` by `C23_removeFloating_spec`), and was removed. -/
example : look serp55 4 0 4 = true ∧ look (removeFloating ⟨5, 3, 5⟩ serp55) 4 0 4 = true
    ∧ look (AsFound.removeFloating ⟨5, 3, 5⟩ serp55) 4 0 4 = false := by decide +kernel

example : Conn ⟨5, 3, 5⟩ (look serp55) 4 0 4 :=
  (C23_removeFloating_spec _ _ _ _ _).mp (by decide +kernel)

/-- as found, z = 1: the seed sat in the padding layer, nothing was connected, everything was removed -/
example : look (AsFound.polymerConnectionPadded ⟨3, 3, 1⟩ (tab ⟨3, 3, 1⟩ fun _ _ _ => true)) 1 1 0 = false
    ∧ look (conn ⟨3, 3, 1⟩ (tab ⟨3, 3, 1⟩ fun _ _ _ => true)) 1 1 0 = true := by decide +kernel

/-- a floating cell is not `Conn` (the specification is not trivially true) … -/
example : ¬ Conn ⟨3, 3, 3⟩ (look (tab ⟨3, 3, 3⟩ fun i j k => decide (k = 0) || (decide (i = 1) && decide (j = 1) && decide (k = 2)))) 1 1 2 := by
  rw [← C23_removeFloating_spec]; decide +kernel

/-- … and a path of two steps is -/
example : Conn ⟨3, 3, 3⟩ (fun _ _ _ => true) 1 0 1 :=
  .step (.step (.base (i := 0) (j := 0) (k := 0) (by decide) rfl (by decide))
    (Or.inl ⟨rfl, rfl, Or.inr rfl⟩) (by decide) rfl) (Or.inr (Or.inr ⟨rfl, rfl, Or.inr rfl⟩)) (by decide) rfl

end Fdtdx.C23
