/-
C23 — Fabrication clean-up keeps exactly the connected material.

Property theorems about `FdtdxModel/C23.lean` (every shape, every design, every seed; no size bound).
Vocabulary (`FdtdxLemmas/C23Spec.lean`): `Adj` = the two cells share a face, `Reach s m seed` = cells of the mask
`m` reachable from a seed cell in the mask through face-adjacent mask cells (inductive), `Conn s m` = `Reach` from
the bottom layer z = 0.

  C23_fixFrom_terminates       the fuel `cells + 2` of the model's fixpoint loop is never exhausted: the result is
                               mapped to itself by one more dilation round (so the unbounded `while_loop` of the code
                               and the fuelled loop of the model agree)
  C23_floodFix_eq_reachable    for a seed inside the mask: floodFix = Reach (both inclusions) = least fixpoint
  C23_floodFix_least           … and it is contained in every set closed under the dilation round that contains the seed
  C23_polymerConnection_eq_reachable   compute_polymer_connection (seed = whole bottom layer) = Conn, nz ≠ 1
  C23_polymerConnection_padded         the z = 1 branch returns the matrix itself (= Conn, every cell is in the bottom layer)
  C23_airConnection_eq_reachable       compute_air_connection = background reachable from the top and the four sides
  C23_removeFloating_spec      remove_floating_polymer keeps a cell iff it is material connected to the bottom layer
  C23_removeFloating_removes   every other material cell becomes background
  C23_removeFloating_no_floating / C23_connectHoles_no_floating
                               the result of either clean-up contains no floating material (connectivity taken
                               inside the RESULT)
  C23_asFound_sound            the pinned `max(shape)`-round flood only ever returned connected cells (it lost
                               cells, never kept floating ones) — with the refutation witnesses at the end this
                               pins down what the defect was

  C23_connectHoles_no_enclosed every background cell of the result of connect_holes_and_structures is connected through
                               background to the top layer or a side face (any shape, any design).  Proof: loop invariant
                               of the second (air) loop — "all background in layers ≥ ii is open" — carried from the top
                               layer down (`airStep_inv`, using what `connect_slice` guarantees about its bounded in-slice
                               floods, FdtdxLemmas/C23Slice.lean), then the final clean-up only opens more
  C23_connectHoles_spec        both halves of the second clause together
-/
import FdtdxLemmas.C23Flood
import FdtdxLemmas.C23Slice

namespace Fdtdx.C23

/-! ### the loop reaches a fixpoint -/

/-- `iterate_until_unchanged` started from any array lying in the index box: after one round the iterates
grow inside the mask, so at most `cells s` further rounds change anything; the model's fuel is not exhausted
and the value returned is a fixpoint of the dilation round, lies in the mask, and contains the first iterate. -/
theorem C23_fixFrom_terminates (s : Shape) (m seed : Tab)
    (hb : ∀ i j k, look seed i j k = true → inb s i j k = true) :
    FixSpec s (look m) (stepI s (look m) (look seed)) (look (floodFix s m seed)) := by
  unfold floodFix
  have hstep : look (step s m seed) = stepI s (look m) (look seed) := look_step s m seed
  have hbin : Inside s (look m) (look (step s m seed)) := by rw [hstep]; exact stepI_inside _ _ _
  simp only [fixFrom]
  by_cases heq : eqT s seed (step s m seed) = true
  · rw [if_pos heq]
    have hab : look seed = look (step s m seed) := eq_of_eqT heq hb (fun i j k h => (hbin i j k h).1)
    refine ⟨?_, hbin, ?_, ?_⟩
    · rw [← hstep]; exact fun _ _ _ h => h
    · rw [← hab]; exact hstep.symm.trans hab.symm
    · intro sd h; rw [hstep]; exact h
  · rw [if_neg heq]
    have := fixFrom_spec s m (cells s + 1) (step s m seed) hbin (by omega)
    rw [hstep] at this
    exact this

/-! ### flood fill = reachability -/

/-- common core: the seed may stick out of the mask as long as its first masked xy-dilation only produces
reachable cells (true for seeds inside the mask and for whole layers) -/
theorem floodFix_eq_reach_of (s : Shape) (m seed : Tab) (sd : Img)
    (hb : ∀ i j k, look seed i j k = true → inb s i j k = true)
    (h1 : ∀ i j k, sub1 s (look m) (look seed) i j k = true → Reach s (look m) sd i j k)
    (h2 : ∀ i j k, inb s i j k = true → look m i j k = true → sd i j k = true → look seed i j k = true)
    (i j k : Nat) : look (floodFix s m seed) i j k = true ↔ Reach s (look m) sd i j k := by
  have sp := C23_fixFrom_terminates s m seed hb
  constructor
  · exact sp.sound sd (sub3_sound (sub2_sound h1)) i j k
  · apply reach_le_fix sp.inside (by rw [sp.fix]; exact fun _ _ _ h => h)
    intro i j k hin hm hs
    apply sp.ge
    apply sub1_le_stepI
    simp [sub1, dilXY, hin, hm, h2 i j k hin hm hs]

/-- **flood fill = reachable set**, any shape, any mask, any seed inside the mask. -/
theorem C23_floodFix_eq_reachable (s : Shape) (m seed : Tab)
    (hseed : ∀ i j k, look seed i j k = true → inb s i j k = true ∧ look m i j k = true) (i j k : Nat) :
    look (floodFix s m seed) i j k = true ↔ Reach s (look m) (look seed) i j k := by
  apply floodFix_eq_reach_of s m seed (look seed) (fun i j k h => (hseed i j k h).1)
  · exact sub1_sound (fun i j k h => .base (hseed i j k h).1 (hseed i j k h).2 h)
  · exact fun _ _ _ _ _ h => h

/-- it is the LEAST set containing the seed that a dilation round does not enlarge -/
theorem C23_floodFix_least (s : Shape) (m seed : Tab)
    (hseed : ∀ i j k, look seed i j k = true → inb s i j k = true ∧ look m i j k = true)
    (r : Img) (hin : Inside s (look m) r) (hfix : Sub (stepI s (look m) r) r) (hsr : Sub (look seed) r) :
    Sub (look (floodFix s m seed)) r := by
  intro i j k h
  rw [C23_floodFix_eq_reachable s m seed hseed] at h
  exact reach_le_fix hin hfix (fun i j k _ _ hs => hsr i j k hs) i j k h

theorem look_bottom (s : Shape) (i j k : Nat) : look (bottom s) i j k = (inb s i j k && decide (k = 0)) := by
  unfold bottom; rw [look_tab]

/-- **compute_polymer_connection = material connected to the bottom layer** (the code seeds the whole layer
z = 0, also outside the material; the first masked dilation cuts it down). -/
theorem C23_polymerConnection_eq_reachable (s : Shape) (m : Tab) (i j k : Nat) :
    look (polymerConnection s m) i j k = true ↔ Conn s (look m) i j k := by
  unfold polymerConnection Conn
  apply floodFix_eq_reach_of s m (bottom s) bottomI
  · intro i j k h; rw [look_bottom] at h; simp only [Bool.and_eq_true] at h; exact h.1
  · intro i j k h
    simp only [sub1, dilXY, look_bottom, Bool.and_eq_true, Bool.or_eq_true, decide_eq_true_eq] at h
    obtain ⟨hin, hm, hd⟩ := h
    refine .base hin hm ?_
    simp only [bottomI, decide_eq_true_eq]
    rcases hd with (((h | h) | h) | h) | h
    · exact h.2
    · exact h.2.2
    · exact h.2
    · exact h.2.2
    · exact h.2
  · intro i j k hin _ hs
    rw [look_bottom]; simp only [bottomI] at hs; simp [hin, hs]

/-- `compute_air_connection` = background reachable from the top face or one of the four side faces -/
theorem C23_airConnection_eq_reachable (s : Shape) (m : Tab) (i j k : Nat) :
    look (airConnection s m) i j k = true ↔ inb s i j k = true ∧ OpenAir s (look m) i j k := by
  unfold airConnection
  simp only []
  rw [C23_floodFix_eq_reachable]
  · unfold OpenAir
    constructor
    · intro h
      refine ⟨h.inb, ?_⟩
      induction h with
      | base hb hm hs =>
        simp only [look_tab, Bool.and_eq_true, Bool.not_eq_true'] at hm hs
        exact .base hb (by simp [hm.2]) hs.2.1
      | step _ hadj hb hm ih =>
        simp only [look_tab, Bool.and_eq_true, Bool.not_eq_true'] at hm
        exact .step ih hadj hb (by simp [hm.2])
    · rintro ⟨-, h⟩
      induction h with
      | base hb hm hs =>
        refine .base hb ?_ ?_
        · simp only [look_tab, hb, Bool.true_and]; exact hm
        · simp only [look_tab, hb, Bool.true_and, Bool.and_eq_true]; exact ⟨hs, hm⟩
      | step _ hadj hb hm ih =>
        exact .step ih hadj hb (by simp only [look_tab, hb, Bool.true_and]; exact hm)
  · intro i j k h
    simp only [look_tab, Bool.and_eq_true] at h ⊢
    exact ⟨h.1, h.1, h.2.2.2⟩

theorem look_layer (s : Shape) (kk i j k : Nat) : look (layer s kk) i j k = (inb s i j k && decide (k = kk)) := by
  unfold layer; rw [look_tab]

/-- the z = 1 branch (matrix padded to three layers, seed in the middle layer): every material cell is in the
bottom layer, and the function returns exactly the material. -/
theorem C23_polymerConnection_padded (s : Shape) (m : Tab) (i j k : Nat) :
    look (polymerConnectionPadded s m) i j k = (inb s i j k && (decide (i < s.nx) && decide (j < s.ny) && look m i j 0)) := by
  unfold polymerConnectionPadded
  simp only [look_tab]
  congr 1
  rw [Bool.eq_iff_iff]
  rw [floodFix_eq_reach_of ⟨s.nx, s.ny, 3⟩ _ (layer ⟨s.nx, s.ny, 3⟩ 1) (fun _ _ k => decide (k = 1))]
  · constructor
    · intro h
      have h1 := h.inb
      have h2 := h.mask
      simp only [look_tab, inb, Bool.and_eq_true, decide_eq_true_eq] at h1 h2
      simp [h1.1.1, h1.1.2, h2.2.2]
    · intro h
      simp only [Bool.and_eq_true, decide_eq_true_eq] at h
      refine .base ?_ ?_ ?_
      · simp [inb, h.1.1, h.1.2]
      · simp [look_tab, inb, h.1.1, h.1.2, h.2]
      · simp
  · intro i j k h; rw [look_layer] at h; simp only [Bool.and_eq_true] at h; exact h.1
  · intro i j k h
    simp only [sub1, Bool.and_eq_true] at h
    obtain ⟨hin, hm, _⟩ := h
    refine .base hin hm ?_
    simp only [look_tab, Bool.and_eq_true, decide_eq_true_eq] at hm
    simp [hm.2.1]
  · intro i j k hin _ hs
    rw [look_layer]; simp only [decide_eq_true_eq] at hs; subst hs; simp [hin]

/-- **compute_polymer_connection, both branches = material connected to the bottom layer** -/
theorem C23_conn_eq_reachable (s : Shape) (m : Tab) (i j k : Nat) :
    look (conn s m) i j k = true ↔ Conn s (look m) i j k := by
  unfold conn
  by_cases hz : s.nz = 1
  · rw [if_pos hz, C23_polymerConnection_padded]
    constructor
    · intro h
      simp only [Bool.and_eq_true, decide_eq_true_eq] at h
      have hk : k = 0 := by
        have := h.1; simp only [inb, Bool.and_eq_true, decide_eq_true_eq] at this; omega
      subst hk
      exact .base h.1 h.2.2 (by simp [bottomI])
    · intro h
      have h1 := h.inb
      have h2 := h.mask
      have hk : k = 0 := by
        simp only [inb, Bool.and_eq_true, decide_eq_true_eq] at h1; omega
      subst hk
      simp only [inb, Bool.and_eq_true, decide_eq_true_eq] at h1
      simp [inb, h1.1.1, h1.1.2, h1.2, h2]
  · rw [if_neg hz]; exact C23_polymerConnection_eq_reachable s m i j k

/-! ### remove_floating_polymer -/

/-- **removing floating material keeps precisely the material cells connected (through face-adjacent material)
to the bottom layer** — any shape, any design. (`Conn` implies "is material".) -/
theorem C23_removeFloating_spec (s : Shape) (m : Tab) (i j k : Nat) :
    look (removeFloating s m) i j k = true ↔ Conn s (look m) i j k := by
  unfold removeFloating removeFloatingWith
  rw [look_tab]
  constructor
  · intro h
    simp only [Bool.and_eq_true, Bool.not_eq_true', Bool.and_eq_false_iff, Bool.not_eq_false'] at h
    rcases h.2.2 with hc | hc
    · exact (C23_conn_eq_reachable s m i j k).mp hc
    · rw [h.2.1] at hc; exact absurd hc (by simp)
  · intro h
    have hc := (C23_conn_eq_reachable s m i j k).mpr h
    simp [h.inb, h.mask, hc]

/-- … and turns every other material cell into background -/
theorem C23_removeFloating_removes (s : Shape) (m : Tab) (i j k : Nat)
    (_hm : look m i j k = true) (hn : ¬ Conn s (look m) i j k) : look (removeFloating s m) i j k = false := by
  by_contra h
  exact hn ((C23_removeFloating_spec s m i j k).mp (by simpa using h))

/-- the result has no floating material: every kept cell is connected to the bottom layer INSIDE THE RESULT -/
theorem C23_removeFloating_no_floating (s : Shape) (m : Tab) (i j k : Nat)
    (h : look (removeFloating s m) i j k = true) : Conn s (look (removeFloating s m)) i j k := by
  have hc := (C23_removeFloating_spec s m i j k).mp h
  clear h
  unfold Conn at hc ⊢
  induction hc with
  | base hb hm hs =>
    exact .base hb ((C23_removeFloating_spec s m _ _ _).mpr (.base hb hm hs)) hs
  | step hprev hadj hb hm ih =>
    exact .step ih hadj hb ((C23_removeFloating_spec s m _ _ _).mpr (.step hprev hadj hb hm))

/-- removing floating material twice changes nothing more -/
theorem C23_removeFloating_idem (s : Shape) (m : Tab) (i j k : Nat) :
    look (removeFloating s (removeFloating s m)) i j k = look (removeFloating s m) i j k := by
  rw [Bool.eq_iff_iff, C23_removeFloating_spec]
  constructor
  · intro h; exact h.mask
  · exact C23_removeFloating_no_floating s m i j k

/-! ### connect_holes_and_structures -/

/-- **the design returned by connect_holes_and_structures has no floating material** (its last step is the
flood-fill clean-up, whatever the slice heuristics did before). -/
theorem C23_connectHoles_no_floating (s : Shape) (m : Tab) (i j k : Nat)
    (h : look (connectHoles s m) i j k = true) : Conn s (look (connectHoles s m)) i j k :=
  C23_removeFloating_no_floating s (connectPre s m) i j k h

/-! ### connect_holes_and_structures leaves no enclosed background -/

/-- every background cell of `m` in a layer `≥ lo` is connected through background to the top or to a side -/
def InvAir (s : Shape) (lo : Nat) (m : Tab) : Prop :=
  ∀ i j k, inb s i j k = true → lo ≤ k → look m i j k = false → OpenAir s (look m) i j k

/-- one iteration of the second loop of `connect_holes_and_structures` (index `ii` counts down from nz to 1) -/
def airStep (s : Shape) (ii : Nat) (m : Tab) : Tab :=
  let s2 : Shape := ⟨s.nx, s.ny, 1⟩
  let cl := fun (k : Nat) => min k (s.nz - 1)
  let lower := if ii = s.nz then onesT s2 else notT s2 (sliceZ s2 m (cl (ii + 1)))
  let r := connectSlice s2 lower (notT s2 (sliceZ s2 m (cl ii))) (notT s2 (sliceZ s2 m (ii - 1)))
    (sliceZ s2 (airConnection s m) (ii - 1))
  setZ s (setZ s m ii (notT s2 r.1)) (ii - 1) (notT s2 r.2)

theorem pass2_succ (s : Shape) (i : Nat) (m : Tab) : pass2 s (i + 1) m = pass2 s i (airStep s (i + 1) m) := rfl

theorem inb2 (s : Shape) (x y : Nat) :
    inb ⟨s.nx, s.ny, 1⟩ x y 0 = true ↔ x < s.nx ∧ y < s.ny := by
  simp [inb]

theorem V_airslice (s : Shape) (m : Tab) (kk x y : Nat) :
    V (notT ⟨s.nx, s.ny, 1⟩ (sliceZ ⟨s.nx, s.ny, 1⟩ m kk)) x y = true ↔ x < s.nx ∧ y < s.ny ∧ look m x y kk = false := by
  unfold V notT sliceZ
  rw [look_tab, look_tab]
  simp only [Bool.and_eq_true, Bool.not_eq_true', Bool.and_eq_false_iff, inb2]
  constructor
  · rintro ⟨h, h1 | h1⟩
    · exact absurd ((inb2 s x y).mpr h) (by simp [h1])
    · exact ⟨h.1, h.2, h1⟩
  · rintro ⟨h1, h2, h3⟩; exact ⟨⟨h1, h2⟩, Or.inr h3⟩

theorem V_slice (s : Shape) (t : Tab) (kk x y : Nat) :
    V (sliceZ ⟨s.nx, s.ny, 1⟩ t kk) x y = true ↔ x < s.nx ∧ y < s.ny ∧ look t x y kk = true := by
  unfold V sliceZ
  rw [look_tab]
  simp only [Bool.and_eq_true, inb2, and_assoc]

theorem look_not2 (s : Shape) (t : Tab) (x y : Nat) (hx : x < s.nx) (hy : y < s.ny) :
    look (notT ⟨s.nx, s.ny, 1⟩ t) x y 0 = !V t x y := by
  unfold notT V; rw [look_tab]; simp [inb, hx, hy]

section airstep
variable (s : Shape) (ii : Nat) (m : Tab)

/-- the two slices produced by `connect_slice` in this iteration -/
def stepR : Tab × Tab :=
  connectSlice ⟨s.nx, s.ny, 1⟩
    (if ii = s.nz then onesT ⟨s.nx, s.ny, 1⟩ else notT ⟨s.nx, s.ny, 1⟩ (sliceZ ⟨s.nx, s.ny, 1⟩ m (min (ii + 1) (s.nz - 1))))
    (notT ⟨s.nx, s.ny, 1⟩ (sliceZ ⟨s.nx, s.ny, 1⟩ m (min ii (s.nz - 1))))
    (notT ⟨s.nx, s.ny, 1⟩ (sliceZ ⟨s.nx, s.ny, 1⟩ m (ii - 1)))
    (sliceZ ⟨s.nx, s.ny, 1⟩ (airConnection s m) (ii - 1))

theorem airStep_eq : airStep s ii m =
    setZ s (setZ s m ii (notT ⟨s.nx, s.ny, 1⟩ (stepR s ii m).1)) (ii - 1) (notT ⟨s.nx, s.ny, 1⟩ (stepR s ii m).2) := rfl

/-- how the matrix changes: layer ii-1 := ¬ upper'', layer ii := ¬ middle', everything else untouched -/
theorem look_airStep (_hii : 1 ≤ ii) (i j k : Nat) (hin : inb s i j k = true) :
    look (airStep s ii m) i j k =
      if k = ii - 1 then !V (stepR s ii m).2 i j else if k = ii then !V (stepR s ii m).1 i j else look m i j k := by
  have hb := hin
  simp only [inb, Bool.and_eq_true, decide_eq_true_eq] at hb
  rw [airStep_eq]
  unfold setZ
  rw [look_tab, hin, Bool.true_and]
  by_cases h1 : k = ii - 1
  · rw [if_pos h1, if_pos h1, look_not2 s _ i j hb.1.1 hb.1.2]
  · rw [if_neg h1, if_neg h1, look_tab, hin, Bool.true_and]
    by_cases h2 : k = ii
    · rw [if_pos h2, if_pos h2, look_not2 s _ i j hb.1.1 hb.1.2]
    · rw [if_neg h2, if_neg h2]

end airstep

theorem adj_of_adj4 {x' y' x y : Nat} (k : Nat) (h : Adj4 x' y' x y) : Adj x' y' k x y k := by
  unfold Adj4 at h; unfold Adj; omega

theorem openAir_air {s : Shape} {M : Img} {i j k : Nat} (h : OpenAir s M i j k) : M i j k = false := by
  have := h.mask; simpa using this

section step

abbrev S2 (s : Shape) : Shape := ⟨s.nx, s.ny, 1⟩
abbrev sLw (s : Shape) (ii : Nat) (m : Tab) : Tab :=
  if ii = s.nz then onesT (S2 s) else notT (S2 s) (sliceZ (S2 s) m (min (ii + 1) (s.nz - 1)))
abbrev sMd (s : Shape) (ii : Nat) (m : Tab) : Tab := notT (S2 s) (sliceZ (S2 s) m ii)
abbrev sUp (s : Shape) (ii : Nat) (m : Tab) : Tab := notT (S2 s) (sliceZ (S2 s) m (ii - 1))
abbrev sSv (s : Shape) (ii : Nat) (m : Tab) : Tab := sliceZ (S2 s) (airConnection s m) (ii - 1)

variable {s : Shape} {ii : Nat} {m : Tab}

/-- slices handed to `connect_slice` when `1 ≤ ii ≤ nz - 1` -/
theorem stepR_eq (h2 : ii + 1 ≤ s.nz) : stepR s ii m =
    (csMiddle' (S2 s) (sLw s ii m) (sMd s ii m) (sUp s ii m) (sSv s ii m),
     csUpper'' (S2 s) (sLw s ii m) (sMd s ii m) (sUp s ii m) (sSv s ii m)) := by
  unfold stepR
  rw [connectSlice_eq]
  have : min ii (s.nz - 1) = ii := by omega
  rw [this]

theorem hS_step (x y : Nat) (h : V (sSv s ii m) x y = true) : V (sUp s ii m) x y = true := by
  rw [V_slice] at h
  rw [V_airslice]
  refine ⟨h.1, h.2.1, ?_⟩
  exact openAir_air ((C23_airConnection_eq_reachable s m x y (ii - 1)).mp h.2.2).2

theorem hU_step (x y : Nat) (h : V (sUp s ii m) x y = true) : inb (S2 s) x y 0 = true := by
  rw [V_airslice] at h
  exact (inb2 s x y).mpr ⟨h.1, h.2.1⟩

/-- open background is never filled in -/
theorem open_stays_air (h1 : 1 ≤ ii) (h2 : ii + 1 ≤ s.nz) {x y k : Nat} (hin : inb s x y k = true)
    (hop : OpenAir s (look m) x y k) : look (airStep s ii m) x y k = false := by
  have hb := hin
  simp only [inb, Bool.and_eq_true, decide_eq_true_eq] at hb
  have hair := openAir_air hop
  rw [look_airStep s ii m h1 x y k hin, stepR_eq h2]
  by_cases hk1 : k = ii - 1
  · rw [if_pos hk1]
    subst hk1
    have hsv : V (sSv s ii m) x y = true := by
      rw [V_slice]
      exact ⟨hb.1.1, hb.1.2, (C23_airConnection_eq_reachable s m x y (ii - 1)).mpr ⟨hin, hop⟩⟩
    rw [save_sub_upper'' hS_step hU_step hsv]; rfl
  · rw [if_neg hk1]
    by_cases hk2 : k = ii
    · rw [if_pos hk2]
      subst hk2
      have : V (csMiddle' (S2 s) (sLw s k m) (sMd s k m) (sUp s k m) (sSv s k m)) x y = true :=
        (middle'_iff hS_step hU_step x y).mpr
          ⟨(inb2 s x y).mpr ⟨hb.1.1, hb.1.2⟩, Or.inl ((V_airslice s m k x y).mpr ⟨hb.1.1, hb.1.2, hair⟩)⟩
      rw [this]; rfl
    · rw [if_neg hk2]; exact hair

/-- … and stays open -/
theorem open_preserved (h1 : 1 ≤ ii) (h2 : ii + 1 ≤ s.nz) {x y k : Nat} (hop : OpenAir s (look m) x y k) :
    OpenAir s (look (airStep s ii m)) x y k := by
  unfold OpenAir at hop ⊢
  induction hop with
  | base hb hm hs =>
    have := open_stays_air h1 h2 hb (.base hb hm hs)
    exact .base hb (by simp [this]) hs
  | step hprev hadj hb hm ih =>
    have := open_stays_air h1 h2 hb (.step hprev hadj hb hm)
    exact .step ih hadj hb (by simp [this])

/-- the background of layer `ii` after the iteration is open -/
theorem layer_ii_open (h1 : 1 ≤ ii) (h2 : ii + 1 ≤ s.nz) (hinv : InvAir s ii m) {x y : Nat}
    (hin : inb s x y ii = true) (hair : look (airStep s ii m) x y ii = false) :
    OpenAir s (look (airStep s ii m)) x y ii := by
  have hb := hin
  simp only [inb, Bool.and_eq_true, decide_eq_true_eq] at hb
  have hmask : (!look (airStep s ii m) x y ii) = true := by simp [hair]
  have hne : ii ≠ ii - 1 := by omega
  have hl := look_airStep s ii m h1 x y ii hin
  rw [if_neg hne, if_pos rfl, stepR_eq h2] at hl
  rw [hl] at hair
  have hmid : V (csMiddle' (S2 s) (sLw s ii m) (sMd s ii m) (sUp s ii m) (sSv s ii m)) x y = true := by
    simpa using hair
  rcases ((middle'_iff hS_step hU_step x y).mp hmid).2 with hM | hbl
  · rw [V_airslice] at hM
    exact open_preserved h1 h2 (hinv x y ii hin (Nat.le_refl _) hM.2.2)
  · obtain ⟨_, _, hcase⟩ := byLower_spec hS_step hU_step hbl
    rcases hcase with hdil | hlow
    · rcases (dilXY_iff _ x y).mp hdil with hself | ⟨x', y', hadj, hn⟩
      · have hM : V (sMd s ii m) x y = true := hself
        rw [V_airslice] at hM
        exact open_preserved h1 h2 (hinv x y ii hin (Nat.le_refl _) hM.2.2)
      · have hM : V (sMd s ii m) x' y' = true := hn
        rw [V_airslice] at hM
        have hin' : inb s x' y' ii = true := by simp [inb, hM.1, hM.2.1, hb.2]
        exact .step (open_preserved h1 h2 (hinv x' y' ii hin' (Nat.le_refl _) hM.2.2)) (adj_of_adj4 ii hadj) hin hmask
    · have hnz : ¬ ii = s.nz := by omega
      simp only [sLw, if_neg hnz] at hlow
      rw [V_airslice] at hlow
      by_cases hlast : ii + 1 ≤ s.nz - 1
      · have hmin : min (ii + 1) (s.nz - 1) = ii + 1 := by omega
        rw [hmin] at hlow
        have hin' : inb s x y (ii + 1) = true := by
          simp only [inb, Bool.and_eq_true, decide_eq_true_eq]; exact ⟨⟨hb.1.1, hb.1.2⟩, by omega⟩
        exact .step (open_preserved h1 h2 (hinv x y (ii + 1) hin' (by omega) hlow.2.2))
          (Or.inr (Or.inr ⟨rfl, rfl, Or.inl rfl⟩)) hin hmask
      · have hmin : min (ii + 1) (s.nz - 1) = ii := by omega
        rw [hmin] at hlow
        exact open_preserved h1 h2 (hinv x y ii hin (Nat.le_refl _) hlow.2.2)

/-- **one iteration of the air loop establishes the next layer**: if all background in layers ≥ ii is open before, all
background in layers ≥ ii-1 is open after. -/
theorem airStep_inv (h1 : 1 ≤ ii) (h2 : ii + 1 ≤ s.nz) (hinv : InvAir s ii m) : InvAir s (ii - 1) (airStep s ii m) := by
  -- G: the cell of layer ii-1 is open after the iteration
  have hup : ∀ x y, x < s.nx → y < s.ny →
      (look (airStep s ii m) x y (ii - 1) = false ↔
        V (csUpper'' (S2 s) (sLw s ii m) (sMd s ii m) (sUp s ii m) (sSv s ii m)) x y = true) := by
    intro x y hx hy
    have hin : inb s x y (ii - 1) = true := by
      simp only [inb, Bool.and_eq_true, decide_eq_true_eq]; exact ⟨⟨hx, hy⟩, by omega⟩
    have hl := look_airStep s ii m h1 x y (ii - 1) hin
    rw [if_pos rfl, stepR_eq h2] at hl
    rw [hl]; simp
  have hcp3 : ∀ x y, V (csCp3 (S2 s) (sLw s ii m) (sMd s ii m) (sUp s ii m) (sSv s ii m)) x y = true →
      OpenAir s (look (airStep s ii m)) x y (ii - 1) := by
    apply cp3_grounded hS_step hU_step (fun x y => OpenAir s (look (airStep s ii m)) x y (ii - 1))
    · -- sources: saved (already open) cells, and cells below background of layer ii
      intro x y h
      have hu'' := cp3_sub_upper'' hS_step hU_step (cp0_sub_cp3 (lower := sLw s ii m) hS_step hU_step h)
      have hxy := (inb2 s x y).mp (upper''_inb hS_step hU_step hu'')
      unfold csCp0 at h
      rw [V_tab] at h
      simp only [Bool.and_eq_true, Bool.or_eq_true] at h
      rcases h.2 with ⟨hU, hM⟩ | hsv
      · have hM' : V (sMd s ii m) x y = true := hM
        rw [V_airslice] at hM'
        have hin' : inb s x y ii = true := by
          simp only [inb, Bool.and_eq_true, decide_eq_true_eq]; exact ⟨⟨hxy.1, hxy.2⟩, by omega⟩
        have hin : inb s x y (ii - 1) = true := by
          simp only [inb, Bool.and_eq_true, decide_eq_true_eq]; exact ⟨⟨hxy.1, hxy.2⟩, by omega⟩
        have habove := open_preserved h1 h2 (hinv x y ii hin' (Nat.le_refl _) hM'.2.2)
        have hair := (hup x y hxy.1 hxy.2).mpr hu''
        exact .step habove (Or.inr (Or.inr ⟨rfl, rfl, Or.inl (by omega)⟩)) hin (by simp [hair])
      · have hsv' : V (sSv s ii m) x y = true := hsv
        rw [V_slice] at hsv'
        exact open_preserved h1 h2 ((C23_airConnection_eq_reachable s m x y (ii - 1)).mp hsv'.2.2).2
    · -- cells that were connected by opening the cell above them
      intro x y h
      have hu'' := cp3_sub_upper'' hS_step hU_step (byLower_sub_cp3 hS_step hU_step h)
      have hxy := (inb2 s x y).mp (upper''_inb hS_step hU_step hu'')
      have hin' : inb s x y ii = true := by
        simp only [inb, Bool.and_eq_true, decide_eq_true_eq]; exact ⟨⟨hxy.1, hxy.2⟩, by omega⟩
      have hin : inb s x y (ii - 1) = true := by
        simp only [inb, Bool.and_eq_true, decide_eq_true_eq]; exact ⟨⟨hxy.1, hxy.2⟩, by omega⟩
      have hmid : V (csMiddle' (S2 s) (sLw s ii m) (sMd s ii m) (sUp s ii m) (sSv s ii m)) x y = true :=
        (middle'_iff hS_step hU_step x y).mpr ⟨(inb2 s x y).mpr hxy, Or.inr h⟩
      have hairii : look (airStep s ii m) x y ii = false := by
        have hl := look_airStep s ii m h1 x y ii hin'
        rw [if_neg (by omega), if_pos rfl, stepR_eq h2] at hl
        rw [hl, hmid]; rfl
      have habove := layer_ii_open h1 h2 hinv hin' hairii
      have hair := (hup x y hxy.1 hxy.2).mpr hu''
      exact .step habove (Or.inr (Or.inr ⟨rfl, rfl, Or.inl (by omega)⟩)) hin (by simp [hair])
    · intro x' y' x y hg hadj hu''
      have hxy := (inb2 s x y).mp (upper''_inb hS_step hU_step hu'')
      have hin : inb s x y (ii - 1) = true := by
        simp only [inb, Bool.and_eq_true, decide_eq_true_eq]; exact ⟨⟨hxy.1, hxy.2⟩, by omega⟩
      have hair := (hup x y hxy.1 hxy.2).mpr hu''
      exact .step hg (adj_of_adj4 (ii - 1) hadj) hin (by simp [hair])
  intro x y k hin hk hair
  have hb := hin
  simp only [inb, Bool.and_eq_true, decide_eq_true_eq] at hb
  by_cases hk1 : k = ii - 1
  · subst hk1
    have hu'' := (hup x y hb.1.1 hb.1.2).mp hair
    rcases upper''_cases hS_step hU_step hu'' with hc | hv
    · exact hcp3 x y hc
    · obtain ⟨bi, bj, hadj, hbc⟩ := valid_nbr_cp3 hS_step hU_step hv
      exact .step (hcp3 bi bj hbc) (adj_of_adj4 (ii - 1) hadj) hin (by simp [hair])
  · by_cases hk2 : k = ii
    · subst hk2; exact layer_ii_open h1 h2 hinv hin hair
    · have hl := look_airStep s ii m h1 x y k hin
      rw [if_neg hk1, if_neg hk2] at hl
      rw [hl] at hair
      exact open_preserved h1 h2 (hinv x y k hin (by omega) hair)

end step

/-- background in the top layer is open by definition -/
theorem top_layer_inv (s : Shape) (m : Tab) : InvAir s (s.nz - 1) m := by
  intro i j k hin hk hair
  have hb := hin
  simp only [inb, Bool.and_eq_true, decide_eq_true_eq] at hb
  refine .base hin (by simp [hair]) ?_
  have : k + 1 = s.nz := by omega
  simp [faces, this]

theorem pass2_inv (s : Shape) : ∀ (ii : Nat) (m : Tab), ii + 1 ≤ s.nz → InvAir s ii m → InvAir s 0 (pass2 s ii m) := by
  intro ii
  induction ii with
  | zero => intro m _ h; exact h
  | succ ii ih =>
    intro m h2 hinv
    rw [pass2_succ]
    exact ih _ (by omega) (airStep_inv (by omega) h2 hinv)

/-- after the second loop of `connect_holes_and_structures` every background cell is connected through background to the
top or to a side — whatever the first loop produced -/
theorem connectPre_open (s : Shape) (m : Tab) : InvAir s 0 (connectPre s m) := by
  unfold connectPre
  generalize pass1 s (s.nz - 1) 0 m = x0
  cases hnz : s.nz with
  | zero =>
    intro i j k hin
    simp [inb, hnz] at hin
  | succ n =>
    rw [pass2_succ]
    have htop := top_layer_inv s (airStep s (n + 1) x0)
    rw [hnz] at htop
    exact pass2_inv s n _ (by omega) (by simpa using htop)

/-- removing floating material only turns material into background, so open background stays open … -/
theorem removeFloating_open_mono (s : Shape) (x : Tab) {i j k : Nat} (h : OpenAir s (look x) i j k) :
    OpenAir s (look (removeFloating s x)) i j k := by
  have hair : ∀ i j k, (!look x i j k) = true → (!look (removeFloating s x) i j k) = true := by
    intro i j k h
    by_contra hc
    have h1 : look (removeFloating s x) i j k = true := by simpa using hc
    have := ((C23_removeFloating_spec s x i j k).mp h1).mask
    rw [this] at h; exact absurd h (by simp)
  unfold OpenAir at h ⊢
  induction h with
  | base hb hm hs => exact .base hb (hair _ _ _ hm) hs
  | step _ hadj hb hm ih => exact .step ih hadj hb (hair _ _ _ hm)

/-- … and the removed material itself becomes open background: walking straight up from a removed cell one stays inside
removed material until the top face or open background is met -/
theorem removeFloating_inv (s : Shape) (x : Tab) (hx : InvAir s 0 x) : InvAir s 0 (removeFloating s x) := by
  have key : ∀ (d k : Nat), s.nz - k = d → ∀ i j, inb s i j k = true → look (removeFloating s x) i j k = false →
      OpenAir s (look (removeFloating s x)) i j k := by
    intro d
    induction d with
    | zero =>
      intro k hd i j hin _
      simp only [inb, Bool.and_eq_true, decide_eq_true_eq] at hin; omega
    | succ d ih =>
      intro k hd i j hin hair
      have hb := hin
      simp only [inb, Bool.and_eq_true, decide_eq_true_eq] at hb
      by_cases hxair : look x i j k = false
      · exact removeFloating_open_mono s x (hx i j k hin (Nat.zero_le _) hxair)
      · have hxm : look x i j k = true := by simpa using hxair
        by_cases htop : k + 1 = s.nz
        · exact .base hin (by simp [hair]) (by simp [faces, htop])
        · have hin' : inb s i j (k + 1) = true := by
            simp only [inb, Bool.and_eq_true, decide_eq_true_eq]; exact ⟨hb.1, by omega⟩
          by_cases hup : look (removeFloating s x) i j (k + 1) = false
          · exact .step (ih (k + 1) (by omega) i j hin' hup) (Or.inr (Or.inr ⟨rfl, rfl, Or.inl rfl⟩)) hin (by simp [hair])
          · have hupc : Conn s (look x) i j (k + 1) :=
              (C23_removeFloating_spec s x i j (k + 1)).mp (by simpa using hup)
            have : Conn s (look x) i j k := .step hupc (Or.inr (Or.inr ⟨rfl, rfl, Or.inl rfl⟩)) hin hxm
            rw [(C23_removeFloating_spec s x i j k).mpr this] at hair
            exact absurd hair (by simp)
  intro i j k hin _ hair
  exact key (s.nz - k) k rfl i j hin hair

/-- **connect_holes_and_structures leaves no background region enclosed away from the sides and the top**: every
background cell of the result is connected, through face-adjacent background cells of the result, to the top layer or to
one of the four side faces — any shape, any input design. -/
theorem C23_connectHoles_no_enclosed (s : Shape) (m : Tab) (i j k : Nat) (hin : inb s i j k = true)
    (h : look (connectHoles s m) i j k = false) : OpenAir s (look (connectHoles s m)) i j k :=
  removeFloating_inv s (connectPre s m) (connectPre_open s m) i j k hin (Nat.zero_le _) h

/-- **second clause of the property, complete**: the result has no floating material and no enclosed background -/
theorem C23_connectHoles_spec (s : Shape) (m : Tab) (i j k : Nat) (hin : inb s i j k = true) :
    (look (connectHoles s m) i j k = true → Conn s (look (connectHoles s m)) i j k) ∧
    (look (connectHoles s m) i j k = false → OpenAir s (look (connectHoles s m)) i j k) :=
  ⟨C23_connectHoles_no_floating s m i j k, C23_connectHoles_no_enclosed s m i j k hin⟩

/-! ### the pinned tree: `max(shape)` rounds -/

theorem iterN_sound {s : Shape} {m : Tab} {sd : Img} : ∀ (n : Nat) (a : Tab),
    (∀ i j k, look a i j k = true → Reach s (look m) sd i j k) →
    ∀ i j k, look (iterN (step s m) n a) i j k = true → Reach s (look m) sd i j k := by
  intro n
  induction n with
  | zero => intro a h; exact h
  | succ n ih =>
    intro a h
    simp only [iterN]
    apply ih
    rw [look_step]
    exact stepI_sound h

/-- as found, the flood never marked a cell that is not connected (it only stopped too early) -/
theorem C23_asFound_sound (s : Shape) (m : Tab) (i j k : Nat)
    (h : look (AsFound.polymerConnection s m) i j k = true) : Conn s (look m) i j k := by
  unfold AsFound.polymerConnection AsFound.floodN at h
  generalize hn : max s.nx (max s.ny s.nz) = n at h
  cases n with
  | zero =>
    simp only [iterN, look_bottom, inb, Bool.and_eq_true, decide_eq_true_eq] at h
    omega
  | succ n =>
    simp only [iterN] at h
    refine iterN_sound n _ ?_ i j k h
    intro i j k h
    change Conn s (look m) i j k
    rw [← C23_polymerConnection_eq_reachable]
    unfold polymerConnection
    have sp := C23_fixFrom_terminates s m (bottom s)
      (fun i j k h => by rw [look_bottom] at h; simp only [Bool.and_eq_true] at h; exact h.1)
    apply sp.ge
    rw [← look_step]; exact h

/-! ### non-vacuity and refutation witnesses -/

/-- serpentine in the xz-plane of a 5×3×5 grid: rows z = 0, 2, 4 joined at alternating ends (17 cells, all
connected to the bottom row) -/
def serp55 : Tab := tab ⟨5, 3, 5⟩ fun i j k =>
  decide (j = 0) && (decide (k % 2 = 0) || (decide (k = 1) && decide (i = 4)) || (decide (k = 3) && decide (i = 0)))

/-- the full statement FAILS for the tree as found: the far end of the serpentine is material, is connected to
the bottom layer (kept by the fixed function, hence `Conn` by `C23_removeFloating_spec`), and was removed. -/
example : look serp55 4 0 4 = true ∧ look (removeFloating ⟨5, 3, 5⟩ serp55) 4 0 4 = true
    ∧ look (AsFound.removeFloating ⟨5, 3, 5⟩ serp55) 4 0 4 = false := by decide +kernel

example : Conn ⟨5, 3, 5⟩ (look serp55) 4 0 4 :=
  (C23_removeFloating_spec _ _ _ _ _).mp (by decide +kernel)

/-- as found, z = 1: the seed sat in the padding layer, nothing was connected, everything was removed -/
example : look (AsFound.polymerConnectionPadded ⟨3, 3, 1⟩ (tab ⟨3, 3, 1⟩ fun _ _ _ => true)) 1 1 0 = false
    ∧ look (conn ⟨3, 3, 1⟩ (tab ⟨3, 3, 1⟩ fun _ _ _ => true)) 1 1 0 = true := by decide +kernel

/-- a floating cell is not `Conn` (the specification is not trivially true) … -/
example : ¬ Conn ⟨3, 3, 3⟩ (look (tab ⟨3, 3, 3⟩ fun i j k => decide (k = 0) || (decide (i = 1) && decide (j = 1) && decide (k = 2)))) 1 1 2 := by
  rw [← C23_removeFloating_spec]; decide +kernel

/-! the hypotheses / conclusions of `C23_connectHoles_no_enclosed` on concrete designs -/

/-- solid 3×3×3 block with one enclosed background cell in the centre: the cavity is not open before … -/
def cavity3 : Tab := tab ⟨3, 3, 3⟩ fun i j k => !(decide (i = 1) && decide (j = 1) && decide (k = 1))
example : look cavity3 1 1 1 = false ∧ look (airConnection ⟨3, 3, 3⟩ cavity3) 1 1 1 = false
    ∧ look (connectHoles ⟨3, 3, 3⟩ cavity3) 1 1 1 = true := by decide +kernel
/-- a slab with a pillar: background remains and (by the theorem) is open -/
def pillar3 : Tab := tab ⟨3, 3, 3⟩ fun i j k => decide (k = 0) || (decide (i = 1) && decide (j = 1))
example : look (connectHoles ⟨3, 3, 3⟩ pillar3) 0 0 1 = false ∧ look (connectHoles ⟨3, 3, 3⟩ pillar3) 1 1 2 = true := by decide +kernel
example : OpenAir ⟨3, 3, 3⟩ (look (connectHoles ⟨3, 3, 3⟩ pillar3)) 0 0 1 :=
  C23_connectHoles_no_enclosed _ _ 0 0 1 (by decide) (by decide +kernel)
/-- … and a path of two steps is -/
example : Conn ⟨3, 3, 3⟩ (fun _ _ _ => true) 1 0 1 :=
  .step (.step (.base (i := 0) (j := 0) (k := 0) (by decide) rfl (by decide))
    (Or.inl ⟨rfl, rfl, Or.inr rfl⟩) (by decide) rfl) (Or.inr (Or.inr ⟨rfl, rfl, Or.inr rfl⟩)) (by decide) rfl

end Fdtdx.C23
