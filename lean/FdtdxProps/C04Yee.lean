/-
C04 (instantiation) — the abstract gradient-equality theorems of `FdtdxProps/C04.lean` for the CONCRETE solver steps.

`FdtdxProps/C04.lean` proves "reversible gradient = exact reverse-mode gradient" for an abstract step under the
hypothesis that the reverse step reconstructs the forward state.  Here that hypothesis is DISCHARGED:

* `yeeSys`  — state = Yee `(E, H)`, parameters = the material arrays `Mat K` (inverse permittivity / permeability and the
  conductivities), forward step = `Yee.forward` with the additive source terms `jE t m`, `jH t m` of step `t` (they may
  depend on the materials, as `Source.update_E` scales with `inv_permittivities`), reverse step = `Yee.backward` with the
  same terms.  Invertibility along the run is C02 (`C02_roundtrip`, walls preserved by `C01_walls_preserved`);
  `C04Yee_reconstruction` re-states it as the n-step identity `C02_roundtrip_steps`.
      C04Yee_vjp_equal / C04Yee_end_to_end : for EVERY grid shape, halo mix, PEC/PMC walls, metric, diagonal materials with
      `FactorOK` (in particular every lossless medium: `factorOK_of_lossless`), every source family, every number of
      steps T, every number of slices k ≥ 1 / every valid checkpoint list, every per-step reverse-mode rule and every
      incoming cotangent, the time-reversed accumulation equals the stored-trajectory accumulation.  NO hypothesis
      about invertibility is left.
* `pmlSys`  — state = `(E, H, ψ-fields)` of the CPML model, forward = `Cpml.forwardP`, reverse = `Cpml.backwardP` fed with the
  lossless recording of the forward run (the interface slices of the state after the step being undone) and the ψ
  fields it carries.  Reconstruction of the interior is C03 (`C03_reverse_step`, `psi_zero_at_interface`).
      C04Pml_vjp_equal / C04Pml_end_to_end : the same statement under a projection π of the parameter cotangent, with
      the reconstruction hypotheses discharged and ONE assumption left on the rule (`RuleInterior`): Aᵀ and π∘Bᵀ
      take the same values at states that agree outside the absorbing layers.

**Loss functionals.**  A "rule" is the reverse-mode data of one step: `aT t s m : CS → CS` (cotangent of the state
through step `t`) and `bT t s m : CS → CP` (its contribution to the parameter cotangent), ANY functions of the step
index, the state the step starts from and the materials — in particular the true transposed derivative of the step.
`CS` is any type: with `CS = (cotangent of E,H) × (cotangent of all detector records)` and `aT` adding, at step `t`,
the cotangent of the records written at `t`, every scalar function of the detector outputs and of the final fields
is covered (detector updates are affine in the detector state, so their VJP does not read it).  The incoming
cotangent `cs`, `cp0` is arbitrary = the gradient of any differentiable loss at the final state.

**What is not here** (precisely): the rule is not *constructed* as the transpose of `Yee.forward` (the adjoint curls
with swapped halos / walls are not defined anywhere in the tree), so (a) nothing is said about the rule being the
derivative — the theorem holds for every rule, which is stronger for the equality but means C10's affine theorems are
not needed in the Yee case; (b) in the PML case `RuleInterior` cannot be derived, for two reasons.  (1) C10Pml gives that the step is affine in
the state (so the true A does not depend on the state at all) and the material update is cell-local, but turning this
into statements about `aT`, `bT` needs the transposed operators as definitions.  (2) `RuleInterior` is phrased with the
agreement C03 EXPORTS (E and H equal on cells outside every layer); the true Bᵀ at an interior cell next to a layer also
reads H on the interface cells behind it (∂E'/∂ε⁻¹ = c·curl_H(H), backward differences) and, for μ⁻¹, the freshly
updated E on its forward neighbours.  C03 proves agreement there internally (`hHgood`: H on HGood cells, `hErk`: E on
Known cells after `restore`) but its theorems `C03_reverse_step` / `C03_full_backward` state only the interior part, so
the stronger invariant (E on Known, H on HGood) would have to be exported from C03 before `RuleInterior` can be
weakened to what the true rule satisfies.
-/
import FdtdxProps.C04
import FdtdxProps.C02
import FdtdxProps.C03

namespace Fdtdx.C04Yee
open Fdtdx Fdtdx.Yee Fdtdx.Cpml Fdtdx.C01 Fdtdx.C02 Fdtdx.C04

section
variable {K : Type} [Field K] {CS CP CP' : Type}

/-- reverse-mode data of one time step on a state type `St` (see the header) -/
structure Rule (K : Type) (St CS CP : Type) where
  aT : Nat → St → Mat K → CS → CS
  bT : Nat → St → Mat K → CS → CP
  add : CP → CP → CP

/-! ### the Yee step -/

/-- the abstract system of `FdtdxModel/C04.lean` instantiated with the shared Yee model -/
def yeeSys (cf : Cfg K) (jE jH : Nat → Mat K → V3 K) (r : Rule K (V3 K × V3 K) CS CP) :
    Sys (V3 K × V3 K) (V3 K × V3 K) (Mat K) CS CP :=
  { f := fun t s m => forward cf m (jE t.toNat m) (jH t.toNat m) s.1 s.2
    g := fun t s m => backward cf m (jE t.toNat m) (jH t.toNat m) s.1 s.2
    vjpS := fun t s m c => r.aT t.toNat s m c
    vjpP := fun t s m c => r.bT t.toNat s m c
    addP := r.add
    getF := fun s => s
    setF := fun _ f => f }

/-- the trajectory of `yeeSys` is C02's `fwdN` from step 0 -/
theorem yee_traj (cf : Cfg K) (jE jH : Nat → Mat K → V3 K) (r : Rule K (V3 K × V3 K) CS CP) (m : Mat K)
    (s0 : V3 K × V3 K) (n : Nat) :
    traj (yeeSys cf jE jH r) m s0 n = fwdN cf m (fun t => jE t m) (fun t => jH t m) 0 n s0 := by
  induction n with
  | zero => rfl
  | succ n ih => simp [traj, fwdN, yeeSys, ← ih]

theorem yee_traj_walls (cf : Cfg K) (jE jH : Nat → Mat K → V3 K) (r : Rule K (V3 K × V3 K) CS CP) (m : Mat K)
    (s0 : V3 K × V3 K) (hw : WallOK cf s0.1 s0.2) (n : Nat) :
    WallOK cf (traj (yeeSys cf jE jH r) m s0 n).1 (traj (yeeSys cf jE jH r) m s0 n).2 := by
  rw [yee_traj]
  exact fwdN_walls cf m _ _ 0 n s0.1 s0.2 hw

/-- every lossless medium satisfies `FactorOK` -/
theorem factorOK_of_lossless (cf : Cfg K) (m : Mat K) (hE : m.sigE = none) (hH : m.sigH = none) : FactorOK cf m := by
  constructor <;> intro i j k s hs <;> simp [hE, hH, optAt] at hs

/-- the hypotheses of the abstract theorem hold for the Yee step: exact reconstruction along the run, from C02 -/
theorem yee_hyp (cf : Cfg K) (jE jH : Nat → Mat K → V3 K) (r : Rule K (V3 K × V3 K) CS CP) (m : Mat K)
    (s0 : V3 K × V3 K) (hf : FactorOK cf m) (hw : WallOK cf s0.1 s0.2) (T : Nat) :
    HypTraj (yeeSys cf jE jH r) m s0 T (fun a b => a = b) (fun c : CP => c) r.add :=
  { vjpS_agree := fun _ _ _ _ e => by rw [e]
    vjpP_agree := fun _ _ _ _ e => by rw [e]
    g_agree := fun n _ ŝ e => by
      rw [e]
      have hwn := yee_traj_walls cf jE jH r m s0 hw n
      have := C02_roundtrip cf m (jE n m) (jH n m) _ _ hf hwn
      simpa [traj, yeeSys] using this
    setF_agree := fun _ _ _ _ => rfl
    π_add := fun _ _ => rfl }

/-- **C04Yee_vjp_equal** — reverse loop of `fdtd_bwd` over the Yee step, any valid checkpoint list. -/
theorem C04Yee_vjp_equal (cf : Cfg K) (jE jH : Nat → Mat K → V3 K) (r : Rule K (V3 K × V3 K) CS CP) (m : Mat K)
    (s0 : V3 K × V3 K) (hf : FactorOK cf m) (hw : WallOK cf s0.1 s0.2) (T : Nat)
    (cks : List (Int × (V3 K × V3 K))) (hck : CksOK (yeeSys cf jE jH r) m s0 cks) (cs : CS) (cp0 : CP) :
    (fdtdBwd (yeeSys cf jE jH r) m cks (initCarry T (traj (yeeSys cf jE jH r) m s0 T) cs cp0)).cp
      = gradExact (yeeSys cf jE jH r) m s0 T cs cp0 :=
  C04_vjp_equal_traj (yee_hyp cf jE jH r m s0 hf hw T) cks hck _ rfl cs cp0

/-- **C04Yee_end_to_end** — for every Yee configuration with `FactorOK`, every source family, every number of steps `T`,
every number of slices `k ≥ 1`, every rule and every incoming cotangent: the gradient accumulated by the
time-reversed method (`_reversible_slice_boundaries`, `segmented_forward`, checkpoints, reverse loop) equals the
gradient accumulated over the stored forward trajectory. -/
theorem C04Yee_end_to_end (cf : Cfg K) (jE jH : Nat → Mat K → V3 K) (r : Rule K (V3 K × V3 K) CS CP) (m : Mat K)
    (s0 : V3 K × V3 K) (hf : FactorOK cf m) (hw : WallOK cf s0.1 s0.2) (T k : Nat) (hk : 1 ≤ k) (cs : CS) (cp0 : CP) :
    gradReversible (yeeSys cf jE jH r) m s0 T k cs cp0 = gradExact (yeeSys cf jE jH r) m s0 T cs cp0 :=
  C04_end_to_end_traj (yee_hyp cf jE jH r m s0 hf hw T) rfl k hk cs cp0

/-- **C04Yee_reconstruction** — the state the reverse loop ends with is the initial state; this is the n-step identity
`C02_roundtrip_steps` (T backward steps after T forward steps). -/
theorem C04Yee_reconstruction (cf : Cfg K) (jE jH : Nat → Mat K → V3 K) (r : Rule K (V3 K × V3 K) CS CP) (m : Mat K)
    (s0 : V3 K × V3 K) (hf : FactorOK cf m) (hw : WallOK cf s0.1 s0.2) (T : Nat)
    (cks : List (Int × (V3 K × V3 K))) (hck : CksOK (yeeSys cf jE jH r) m s0 cks) (cs : CS) (cp0 : CP) :
    (fdtdBwd (yeeSys cf jE jH r) m cks (initCarry T (traj (yeeSys cf jE jH r) m s0 T) cs cp0)).s = s0 ∧
    bwdN cf m (fun t => jE t m) (fun t => jH t m) 0 T (traj (yeeSys cf jE jH r) m s0 T) = s0 := by
  constructor
  · have := loop_invariant_traj (yee_hyp cf jE jH r m s0 hf hw T) cks hck T ((T : Int) + 2).toNat
      (initCarry T (traj (yeeSys cf jE jH r) m s0 T) cs cp0) (cs, cp0) le_rfl (by omega) rfl rfl rfl rfl
    exact this.2.2.2
  · rw [yee_traj]
    exact C02_roundtrip_steps cf m _ _ 0 T s0.1 s0.2 hf hw

/-! ### the CPML step -/

abbrev PState (K : Type) := V3 K × V3 K × List (PmlSt K)

/-- the abstract system instantiated with the CPML model: the reverse step restores the interface slices from the
lossless recording of the forward run from `s0` (the state after the step being undone) and keeps the ψ fields it
carries (those of the end of the forward pass — the code does not reverse them) -/
def pmlSys (cf : Cfg K) (jE jH : Nat → Mat K → V3 K) (sim reset : Bool) (s0 : PState K)
    (r : Rule K (PState K) CS CP) : Sys (PState K) (PState K) (Mat K) CS CP :=
  { f := fun t s m => forwardP cf m (jE t.toNat m) (jH t.toNat m) sim s.2.2 s.1 s.2.1
    g := fun t s m =>
      let R := C03.fwdRun cf m (fun u => jE u m) (fun u => jH u m) sim s0 (t.toNat + 1)
      let b := backwardP cf m (jE t.toNat m) (jH t.toNat m) s.2.2 R.1 R.2.1 reset s.1 s.2.1
      (b.1, b.2, s.2.2)
    vjpS := fun t s m c => r.aT t.toNat s m c
    vjpP := fun t s m c => r.bT t.toNat s m c
    addP := r.add
    getF := fun s => s
    setF := fun _ f => f }

theorem pml_traj (cf : Cfg K) (jE jH : Nat → Mat K → V3 K) (sim reset : Bool) (s0 : PState K)
    (r : Rule K (PState K) CS CP) (m : Mat K) (n : Nat) :
    traj (pmlSys cf jE jH sim reset s0 r) m s0 n = C03.fwdRun cf m (fun u => jE u m) (fun u => jH u m) sim s0 n := by
  induction n with
  | zero => rfl
  | succ n ih => simp [traj, C03.fwdRun, pmlSys, ← ih]

/-- the reconstructed state is as good as the true one: equal E, H outside the absorbing layers, ψ zero on the interface -/
def InteriorAgree (cf : Cfg K) (ps : List (Pml K)) (a b : PState K) : Prop :=
  ∀ i j k, C03.Interior cf ps i j k → C03.agree a.1 b.1 i j k ∧ C03.agree a.2.1 b.2.1 i j k

def pmlAgree (cf : Cfg K) (ps : List (Pml K)) (a b : PState K) : Prop :=
  InteriorAgree cf ps a b ∧ C03.ListOK cf ps a.2.2

/-- the assumption left on the rule in the PML case (see the header) -/
structure RuleInterior (cf : Cfg K) (ps : List (Pml K)) (r : Rule K (PState K) CS CP) (π : CP → CP')
    (addP' : CP' → CP' → CP') : Prop where
  aT : ∀ n a b m c, InteriorAgree cf ps a b → r.aT n a m c = r.aT n b m c
  bT : ∀ n a b m c, InteriorAgree cf ps a b → π (r.bT n a m c) = π (r.bT n b m c)
  add : ∀ a b, π (r.add a b) = addP' (π a) (π b)

theorem pml_hyp (cf : Cfg K) (jE jH : Nat → Mat K → V3 K) (sim reset : Bool) (ps : List (Pml K)) (s0 : PState K)
    (r : Rule K (PState K) CS CP) (π : CP → CP') (addP' : CP' → CP' → CP') (m : Mat K)
    (hf : FactorOK cf m) (hw : WallOK cf s0.1 s0.2.1) (hs : C03.StaticOK cf ps) (hl : C03.ListOK cf ps s0.2.2)
    (hr : RuleInterior cf ps r π addP') (T : Nat) :
    HypTraj (pmlSys cf jE jH sim reset s0 r) m s0 T (pmlAgree cf ps) π addP' :=
  { vjpS_agree := fun n _ ŝ c e => hr.aT n _ _ m c e.1
    vjpP_agree := fun n _ ŝ c e => hr.bT n _ _ m c e.1
    g_agree := fun n _ ŝ e => by
      have hlB := e.2
      have hag := e.1
      rw [pml_traj] at hag ⊢
      have hstep := C03.C03_reverse_step cf m (jE n m) (jH n m) sim reset ps
        (C03.fwdRun cf m (fun u => jE u m) (fun u => jH u m) sim s0 n).2.2 ŝ.2.2
        (C03.fwdRun cf m (fun u => jE u m) (fun u => jH u m) sim s0 n).1
        (C03.fwdRun cf m (fun u => jE u m) (fun u => jH u m) sim s0 n).2.1 ŝ.1 ŝ.2.1 hf
        (C03.wallOK_fwdRun cf m _ _ sim s0 hw n) hs
        (C03.psi_zero_at_interface cf m _ _ sim ps s0 hs hl n) hlB hag
      exact ⟨fun i j k hi => by simpa [pmlSys, C03.fwdRun] using hstep i j k hi, hlB⟩
    setF_agree := fun n _ ŝ _ => by
      rw [pml_traj]
      exact ⟨fun i j k _ => ⟨⟨rfl, rfl, rfl⟩, ⟨rfl, rfl, rfl⟩⟩, C03.psi_zero_at_interface cf m _ _ sim ps s0 hs hl n⟩
    π_add := hr.add }

/-- **C04Pml_end_to_end** — with absorbing layers on any subset of faces (any thicknesses, clean inner face), any other
faces, any sources, lossless recording: the π-part of the time-reversed gradient equals the π-part of the
stored-trajectory gradient, for every `T`, every `k ≥ 1`, every cotangent — the interior reconstruction being C03's. -/
theorem C04Pml_end_to_end (cf : Cfg K) (jE jH : Nat → Mat K → V3 K) (sim reset : Bool) (ps : List (Pml K)) (s0 : PState K)
    (r : Rule K (PState K) CS CP) (π : CP → CP') (addP' : CP' → CP' → CP') (m : Mat K)
    (hf : FactorOK cf m) (hw : WallOK cf s0.1 s0.2.1) (hs : C03.StaticOK cf ps) (hl : C03.ListOK cf ps s0.2.2)
    (hr : RuleInterior cf ps r π addP') (T k : Nat) (hk : 1 ≤ k) (cs : CS) (cp0 : CP) :
    π (gradReversible (pmlSys cf jE jH sim reset s0 r) m s0 T k cs cp0)
      = π (gradExact (pmlSys cf jE jH sim reset s0 r) m s0 T cs cp0) := by
  refine C04_end_to_end_traj (pml_hyp cf jE jH sim reset ps s0 r π addP' m hf hw hs hl hr T) ?_ k hk cs cp0
  rw [pml_traj]
  exact ⟨fun i j k _ => ⟨⟨rfl, rfl, rfl⟩, ⟨rfl, rfl, rfl⟩⟩, C03.psi_zero_at_interface cf m _ _ sim ps s0 hs hl T⟩

/-- **C04Pml_vjp_equal** — the reverse loop alone, from any final state that agrees with the true one outside the layers,
any valid checkpoint list. -/
theorem C04Pml_vjp_equal (cf : Cfg K) (jE jH : Nat → Mat K → V3 K) (sim reset : Bool) (ps : List (Pml K)) (s0 : PState K)
    (r : Rule K (PState K) CS CP) (π : CP → CP') (addP' : CP' → CP' → CP') (m : Mat K)
    (hf : FactorOK cf m) (hw : WallOK cf s0.1 s0.2.1) (hs : C03.StaticOK cf ps) (hl : C03.ListOK cf ps s0.2.2)
    (hr : RuleInterior cf ps r π addP') (T : Nat) (cks : List (Int × PState K))
    (hck : CksOK (pmlSys cf jE jH sim reset s0 r) m s0 cks) (sT : PState K)
    (hT : pmlAgree cf ps sT (traj (pmlSys cf jE jH sim reset s0 r) m s0 T)) (cs : CS) (cp0 : CP) :
    π (fdtdBwd (pmlSys cf jE jH sim reset s0 r) m cks (initCarry T sT cs cp0)).cp
      = π (gradExact (pmlSys cf jE jH sim reset s0 r) m s0 T cs cp0) :=
  C04_vjp_equal_traj (pml_hyp cf jE jH sim reset ps s0 r π addP' m hf hw hs hl hr T) cks hck sT hT cs cp0

end

/-! ### non-vacuity on concrete small configurations -/

/-- C01's 2×3×2 domain (periodic x, PEC y, open z), lossless ε = 1/2; probe rule: the true sensitivity of `E'_x(1,1,1)` to
`inv_permittivity_x(1,1,1)`, which reads the curl of the CURRENT H — so it matters at which state it is evaluated -/
def exRule : Rule ℚ (V3 ℚ × V3 ℚ) ℚ ℚ :=
  { aT := fun _ _ _ c => c
    bT := fun _ s _ c => c * exCfg.c * (curlH exCfg s.2).x 1 1 1
    add := fun a b => a + b }

def exSrcE : Nat → Mat ℚ → V3 ℚ := fun t m => ⟨fun i j k => (t + 1) * m.invEps.x i j k, fun _ _ _ => 0, fun _ _ _ => 0⟩
def exSrcH : Nat → Mat ℚ → V3 ℚ := fun _ _ => constV 0

example : FactorOK exCfg exMat := factorOK_of_lossless exCfg exMat rfl rfl

theorem exWall : WallOK exCfg exE exH := by
  constructor <;> intro i j k h <;> first | simp [exE, projE, maskV, h] | (simp [pmcMask, exCfg, exBC, onWall] at h)

/-- the probe rule is state dependent: evaluated at a wrong state it gives a different number -/
example : exRule.bT 0 (exE, exH) exMat 1 ≠ exRule.bT 0 (exE, constV 0) exMat 1 := by
  simp [exRule, curlH, prev1, exCfg, exBC, exH, constV]

/-- the theorem applied: all `T`, all `k ≥ 1`, all cotangents, on the concrete configuration -/
example (T k : Nat) (hk : 1 ≤ k) (cs cp0 : ℚ) :
    gradReversible (yeeSys exCfg exSrcE exSrcH exRule) exMat (exE, exH) T k cs cp0
      = gradExact (yeeSys exCfg exSrcE exSrcH exRule) exMat (exE, exH) T cs cp0 :=
  C04Yee_end_to_end exCfg exSrcE exSrcH exRule exMat (exE, exH) (factorOK_of_lossless _ _ rfl rfl) exWall T k hk cs cp0

/-- C03's 5×4×4 volume with a PML of thickness 2 at min x and 1 at max y; probe rule reading H at the interior cell (2,1,3) -/
def exRuleP : Rule ℚ (PState ℚ) ℚ ℚ :=
  { aT := fun _ _ _ c => c
    bT := fun _ s _ c => c * s.2.1.x 2 1 3
    add := fun a b => a + b }

theorem exInterior : C03.Interior C03.exCf [C03.exP1, C03.exP2] 2 1 3 := by
  refine ⟨by decide, by decide, by decide, ?_⟩
  intro q hq
  simp only [List.mem_cons, List.mem_nil_iff, or_false] at hq
  rcases hq with rfl | rfl <;> simp [C03.exP1, C03.exP2, faceBox, Box.mem]

/-- the assumption on the rule is satisfiable (and by a rule that does read the reconstructed state) -/
example : RuleInterior C03.exCf [C03.exP1, C03.exP2] exRuleP (fun c : ℚ => c) (fun a b => a + b) :=
  { aT := fun _ _ _ _ _ _ => rfl
    bT := fun _ a b _ c h => by
      have := (h 2 1 3 exInterior).2.1
      simp only [exRuleP]; rw [this]
    add := fun _ _ => rfl }

end Fdtdx.C04Yee
