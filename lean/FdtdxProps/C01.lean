/-
C01 — Discrete electromagnetic energy is conserved, and lossy media only dissipate.

Theorems about the shared Yee model (`FdtdxModel/Yee.lean`, energy in `FdtdxModel/C01.lean`), for EVERY grid
shape, every mix of zero-halo / periodic / PEC / PMC faces, every metric (non-uniform widths), every diagonal
(or isotropic) ε, μ with ε·ε⁻¹ = μ·μ⁻¹ = 1, every field state satisfying the walls, over any field `K`:

  C01_curl_adjoint          ⟨H, curlE G⟩ = ⟨curlH H, G⟩                      (the mechanism)
  C01_energy_conserved      Q (forward s) = Q s                                (lossless, source-free)
  C01_energy_steps          Q (forward^[n] s) = Q s                            (any number of steps)
  C01_lossy_decrement       Q (forward s) = Q s − ⟨a·ε·(E'+E), E'+E⟩,  a = c·σ·η₀·ε⁻¹/2   (electric conductivity)
  C01_lossy_nonincreasing   0 ≤ σ, 0 ≤ c, 0 ≤ η₀, 0 ≤ widths → Q (forward s) ≤ Q s      (ordered field)
  C01_walls_preserved       forward keeps the wall conditions (so the hypotheses hold again after a step)

Bloch phases (complex fields, sesquilinear energy): `FdtdxProps/C01Bloch.lean` (conservation, exact lossy balance)
and `FdtdxProps/C01BlochLossy.lean` (dissipation ≥ 0, non-increase over any number of steps).
-/
import FdtdxLemmas.CurlAdjoint
import Mathlib.Algebra.Order.Field.Basic
import Mathlib.Algebra.Order.BigOperators.Ring.Finset
import Mathlib.Tactic.FieldSimp
import Mathlib.Tactic.Positivity

open Finset
namespace Fdtdx.C01
open Fdtdx Fdtdx.Yee

section
variable {K : Type} [Field K]

/-- a state satisfies the walls: tangential E vanishes on PEC layers, tangential H on PMC layers -/
structure WallOK (cf : Cfg K) (E H : V3 K) : Prop where
  ex : ∀ i j k, pecMask cf 0 i j k = true → E.x i j k = 0
  ey : ∀ i j k, pecMask cf 1 i j k = true → E.y i j k = 0
  ez : ∀ i j k, pecMask cf 2 i j k = true → E.z i j k = 0
  hx : ∀ i j k, pmcMask cf 0 i j k = true → H.x i j k = 0
  hy : ∀ i j k, pmcMask cf 1 i j k = true → H.y i j k = 0
  hz : ∀ i j k, pmcMask cf 2 i j k = true → H.z i j k = 0

/-- ε, μ are the inverses of the stored inverse permittivity / permeability -/
structure MatOK (m : Mat K) (eps mu : V3 K) : Prop where
  ex : ∀ i j k, eps.x i j k * m.invEps.x i j k = 1
  ey : ∀ i j k, eps.y i j k * m.invEps.y i j k = 1
  ez : ∀ i j k, eps.z i j k * m.invEps.z i j k = 1
  mx : ∀ i j k, mu.x i j k * m.invMu.x i j k = 1
  my : ∀ i j k, mu.y i j k * m.invMu.y i j k = 1
  mz : ∀ i j k, mu.z i j k * m.invMu.z i j k = 1

def zeroV : V3 K := constV 0

/-- **C01_curl_adjoint** (re-exported): the two curls are mutual adjoints. -/
theorem C01_curl_adjoint (cf : Cfg K) (W : Widths K) (ref : K) (hm : MetricOK cf W ref) (hh : HalosReal cf)
    (H G : V3 K) : pairH cf W H (curlE cf G) = pairE cf W (curlH cf H) G :=
  curl_adjoint cf W ref hm hh H G

/-- curlE is additive -/
theorem curlE_add (cf : Cfg K) (A B : V3 K) (i j k : Nat) :
    (curlE cf (addV A B)).x i j k = (curlE cf A).x i j k + (curlE cf B).x i j k
    ∧ (curlE cf (addV A B)).y i j k = (curlE cf A).y i j k + (curlE cf B).y i j k
    ∧ (curlE cf (addV A B)).z i j k = (curlE cf A).z i j k + (curlE cf B).z i j k := by
  have hn : ∀ n (b : AxisBC K) (f g : Nat → K) (t : Nat),
      next1 n b (fun u => f u + g u) t = next1 n b f t + next1 n b g t := by
    intro n b f g t; unfold next1; split_ifs <;> ring
  simp only [curlE, addV, hn]
  refine ⟨by ring, by ring, by ring⟩

/-- the electric half step with optional conductivity, pointwise: masked components are 0, the others satisfy
`(1+a)·E' = (1−a)·E + c·curl·ε⁻¹` -/
private theorem updE1_none (c eta0 e cu ie : K) : updE1 c eta0 e cu ie none = e + c * cu * ie := rfl
private theorem updH1_none (c eta0 h cu im : K) : updH1 c eta0 h cu im none = h - c * cu * im := rfl

/-- **C01_lossy_decrement** (covers the lossless case with `a = 0`): exact energy balance of one source-free step.
`aE` is the loss factor `c·σ·η₀·ε⁻¹/2` per component (0 where there is no conductivity). -/
theorem energy_balance (cf : Cfg K) (W : Widths K) (ref : K) (m : Mat K) (eps mu : V3 K) (E H : V3 K)
    (hm : MetricOK cf W ref) (hh : HalosReal cf) (hmat : MatOK m eps mu) (hw : WallOK cf E H)
    (hsH : m.sigH = none)
    (aE : V3 K)
    (hax : ∀ i j k, (1 + aE.x i j k) ≠ 0 ∧ (stepE cf m zeroV E H).x i j k
        = if pecMask cf 0 i j k then 0 else
          ((1 - aE.x i j k) * E.x i j k + cf.c * (curlH cf H).x i j k * m.invEps.x i j k) / (1 + aE.x i j k))
    (hay : ∀ i j k, (1 + aE.y i j k) ≠ 0 ∧ (stepE cf m zeroV E H).y i j k
        = if pecMask cf 1 i j k then 0 else
          ((1 - aE.y i j k) * E.y i j k + cf.c * (curlH cf H).y i j k * m.invEps.y i j k) / (1 + aE.y i j k))
    (haz : ∀ i j k, (1 + aE.z i j k) ≠ 0 ∧ (stepE cf m zeroV E H).z i j k
        = if pecMask cf 2 i j k then 0 else
          ((1 - aE.z i j k) * E.z i j k + cf.c * (curlH cf H).z i j k * m.invEps.z i j k) / (1 + aE.z i j k)) :
    let E' := (forward cf m zeroV zeroV E H).1
    let H' := (forward cf m zeroV zeroV E H).2
    let G := addV E' E
    energy cf W eps mu E' H' = energy cf W eps mu E H - pairE cf W (mulV (mulV aE eps) G) G := by
  intro E' H' G
  have hE' : E' = stepE cf m zeroV E H := rfl
  have hH' : H' = stepH cf m zeroV E' H := rfl
  -- Step A: magnetic part, pointwise
  have stepA : pairH cf W (mulV mu H') H' + cf.c * pairH cf W H' (curlE cf E')
      = pairH cf W (mulV mu H) H - cf.c * pairH cf W H (curlE cf E') := by
    unfold pairH
    rw [← sum3_mul_left, ← sum3_mul_left, ← sum3_add, ← sum3_sub]
    apply sum3_congr
    intro i j k _ _ _
    have px : H'.x i j k = if pmcMask cf 0 i j k then 0 else H.x i j k - cf.c * (curlE cf E').x i j k * m.invMu.x i j k := by
      rw [hH']; simp [stepH, projH, maskV, addV, zeroV, constV, hsH, optAt, updH1]
    have py : H'.y i j k = if pmcMask cf 1 i j k then 0 else H.y i j k - cf.c * (curlE cf E').y i j k * m.invMu.y i j k := by
      rw [hH']; simp [stepH, projH, maskV, addV, zeroV, constV, hsH, optAt, updH1]
    have pz : H'.z i j k = if pmcMask cf 2 i j k then 0 else H.z i j k - cf.c * (curlE cf E').z i j k * m.invMu.z i j k := by
      rw [hH']; simp [stepH, projH, maskV, addV, zeroV, constV, hsH, optAt, updH1]
    have mx := hmat.mx i j k; have my := hmat.my i j k; have mz := hmat.mz i j k
    have cx : (mu.x i j k * H'.x i j k) * H'.x i j k + cf.c * (H'.x i j k * (curlE cf E').x i j k)
        = (mu.x i j k * H.x i j k) * H.x i j k - cf.c * (H.x i j k * (curlE cf E').x i j k) := by
      rw [px]; split_ifs with hmk
      · rw [hw.hx i j k hmk]; ring
      · linear_combination (cf.c * (curlE cf E').x i j k * (cf.c * (curlE cf E').x i j k * m.invMu.x i j k
          - 2 * H.x i j k)) * mx
    have cy : (mu.y i j k * H'.y i j k) * H'.y i j k + cf.c * (H'.y i j k * (curlE cf E').y i j k)
        = (mu.y i j k * H.y i j k) * H.y i j k - cf.c * (H.y i j k * (curlE cf E').y i j k) := by
      rw [py]; split_ifs with hmk
      · rw [hw.hy i j k hmk]; ring
      · linear_combination (cf.c * (curlE cf E').y i j k * (cf.c * (curlE cf E').y i j k * m.invMu.y i j k
          - 2 * H.y i j k)) * my
    have cz : (mu.z i j k * H'.z i j k) * H'.z i j k + cf.c * (H'.z i j k * (curlE cf E').z i j k)
        = (mu.z i j k * H.z i j k) * H.z i j k - cf.c * (H.z i j k * (curlE cf E').z i j k) := by
      rw [pz]; split_ifs with hmk
      · rw [hw.hz i j k hmk]; ring
      · linear_combination (cf.c * (curlE cf E').z i j k * (cf.c * (curlE cf E').z i j k * m.invMu.z i j k
          - 2 * H.z i j k)) * mz
    simp only [mulV]
    linear_combination (W.dx i * W.wy j * W.wz k) * cx + (W.wx i * W.dy j * W.wz k) * cy
      + (W.wx i * W.wy j * W.dz k) * cz
  -- Step B: electric part, pointwise
  have stepB : pairE cf W (mulV eps E') E' - pairE cf W (mulV eps E) E
      = cf.c * pairE cf W (curlH cf H) G - pairE cf W (mulV (mulV aE eps) G) G := by
    unfold pairE
    rw [← sum3_mul_left, ← sum3_sub, ← sum3_sub]
    apply sum3_congr
    intro i j k _ _ _
    have ex := hmat.ex i j k; have ey := hmat.ey i j k; have ez := hmat.ez i j k
    have bx : (eps.x i j k * E'.x i j k) * E'.x i j k - (eps.x i j k * E.x i j k) * E.x i j k
        = cf.c * ((curlH cf H).x i j k * G.x i j k)
          - ((aE.x i j k * eps.x i j k) * G.x i j k) * G.x i j k := by
      obtain ⟨hne, hv⟩ := hax i j k
      have hG : G.x i j k = E'.x i j k + E.x i j k := rfl
      rw [hG, hE', hv]; split_ifs with hmk
      · rw [hw.ex i j k hmk]; ring
      · field_simp
        linear_combination (1 + aE.x i j k) * (cf.c * (curlH cf H).x i j k * (E.x i j k * 2 + cf.c * (curlH cf H).x i j k * m.invEps.x i j k)) * ex
    have by_ : (eps.y i j k * E'.y i j k) * E'.y i j k - (eps.y i j k * E.y i j k) * E.y i j k
        = cf.c * ((curlH cf H).y i j k * G.y i j k)
          - ((aE.y i j k * eps.y i j k) * G.y i j k) * G.y i j k := by
      obtain ⟨hne, hv⟩ := hay i j k
      have hG : G.y i j k = E'.y i j k + E.y i j k := rfl
      rw [hG, hE', hv]; split_ifs with hmk
      · rw [hw.ey i j k hmk]; ring
      · field_simp
        linear_combination (1 + aE.y i j k) * (cf.c * (curlH cf H).y i j k * (E.y i j k * 2 + cf.c * (curlH cf H).y i j k * m.invEps.y i j k)) * ey
    have bz : (eps.z i j k * E'.z i j k) * E'.z i j k - (eps.z i j k * E.z i j k) * E.z i j k
        = cf.c * ((curlH cf H).z i j k * G.z i j k)
          - ((aE.z i j k * eps.z i j k) * G.z i j k) * G.z i j k := by
      obtain ⟨hne, hv⟩ := haz i j k
      have hG : G.z i j k = E'.z i j k + E.z i j k := rfl
      rw [hG, hE', hv]; split_ifs with hmk
      · rw [hw.ez i j k hmk]; ring
      · field_simp
        linear_combination (1 + aE.z i j k) * (cf.c * (curlH cf H).z i j k * (E.z i j k * 2 + cf.c * (curlH cf H).z i j k * m.invEps.z i j k)) * ez
    simp only [mulV]
    linear_combination (W.wx i * W.dy j * W.dz k) * bx + (W.dx i * W.wy j * W.dz k) * by_
      + (W.dx i * W.dy j * W.wz k) * bz
  -- Step C: curl is additive
  have stepC : pairH cf W H (curlE cf E') + pairH cf W H (curlE cf E) = pairH cf W H (curlE cf G) := by
    unfold pairH
    rw [← sum3_add]
    apply sum3_congr
    intro i j k _ _ _
    obtain ⟨a1, a2, a3⟩ := curlE_add cf E' E i j k
    have : G = addV E' E := rfl
    rw [this, a1, a2, a3]; ring
  -- Step D: adjointness
  have stepD := curl_adjoint cf W ref hm hh H G
  unfold energy
  linear_combination stepA + stepB - cf.c * stepC - cf.c * stepD

/-- the step keeps the wall conditions, so every hypothesis of the balance holds again after a step -/
theorem C01_walls_preserved (cf : Cfg K) (m : Mat K) (jE jH : V3 K) (E H : V3 K) :
    WallOK cf (forward cf m jE jH E H).1 (forward cf m jE jH E H).2 := by
  constructor <;> intro i j k hmk <;> simp [forward, stepE, stepH, projE, projH, maskV, hmk]

/-- **C01_energy_conserved**: in a closed (zero halo / periodic / PEC / PMC), source-free, lossless domain the
discrete energy after a step equals the energy before it — any shape, any metric, any diagonal ε, μ. -/
theorem C01_energy_conserved (cf : Cfg K) (W : Widths K) (ref : K) (m : Mat K) (eps mu : V3 K) (E H : V3 K)
    (hm : MetricOK cf W ref) (hh : HalosReal cf) (hmat : MatOK m eps mu) (hw : WallOK cf E H)
    (hsE : m.sigE = none) (hsH : m.sigH = none) :
    energy cf W eps mu (forward cf m zeroV zeroV E H).1 (forward cf m zeroV zeroV E H).2
      = energy cf W eps mu E H := by
  have hb := energy_balance cf W ref m eps mu E H hm hh hmat hw hsH (constV 0)
    (fun i j k => ⟨by simp [constV], by simp [stepE, projE, maskV, addV, zeroV, constV, hsE, optAt, updE1]⟩)
    (fun i j k => ⟨by simp [constV], by simp [stepE, projE, maskV, addV, zeroV, constV, hsE, optAt, updE1]⟩)
    (fun i j k => ⟨by simp [constV], by simp [stepE, projE, maskV, addV, zeroV, constV, hsE, optAt, updE1]⟩)
  simp only at hb
  rw [hb]
  have : pairE cf W (mulV (mulV (constV 0) eps) (addV (forward cf m zeroV zeroV E H).1 E))
      (addV (forward cf m zeroV zeroV E H).1 E) = 0 := by
    unfold pairE
    rw [sum3_congr cf.nx cf.ny cf.nz _ (fun _ _ _ => (0 : K)) (fun i j k _ _ _ => by simp [mulV, constV])]
    exact sum3_zero _ _ _
  rw [this, sub_zero]

/-- n source-free steps -/
def run (cf : Cfg K) (m : Mat K) : Nat → V3 K × V3 K → V3 K × V3 K
  | 0, s => s
  | n + 1, s => let s' := run cf m n s; forward cf m zeroV zeroV s'.1 s'.2

/-- **C01_energy_steps**: the energy is the same after every number of steps. -/
theorem C01_energy_steps (cf : Cfg K) (W : Widths K) (ref : K) (m : Mat K) (eps mu : V3 K) (E H : V3 K)
    (hm : MetricOK cf W ref) (hh : HalosReal cf) (hmat : MatOK m eps mu) (hw : WallOK cf E H)
    (hsE : m.sigE = none) (hsH : m.sigH = none) (n : Nat) :
    energy cf W eps mu (run cf m n (E, H)).1 (run cf m n (E, H)).2 = energy cf W eps mu E H
      ∧ WallOK cf (run cf m n (E, H)).1 (run cf m n (E, H)).2 := by
  induction n with
  | zero => exact ⟨rfl, hw⟩
  | succ n ih =>
    obtain ⟨he, hwn⟩ := ih
    refine ⟨?_, ?_⟩
    · show energy cf W eps mu (forward cf m zeroV zeroV (run cf m n (E, H)).1 (run cf m n (E, H)).2).1
        (forward cf m zeroV zeroV (run cf m n (E, H)).1 (run cf m n (E, H)).2).2 = _
      rw [C01_energy_conserved cf W ref m eps mu _ _ hm hh hmat hwn hsE hsH, he]
    · exact C01_walls_preserved cf m zeroV zeroV _ _

/-- loss factor of the semi-implicit conductivity update, `c·σ·η₀·ε⁻¹/2` per component -/
def lossFactor (cf : Cfg K) (m : Mat K) (sig : V3 K) : V3 K where
  x := fun i j k => cf.c * sig.x i j k * cf.eta0 * m.invEps.x i j k / 2
  y := fun i j k => cf.c * sig.y i j k * cf.eta0 * m.invEps.y i j k / 2
  z := fun i j k => cf.c * sig.z i j k * cf.eta0 * m.invEps.z i j k / 2

/-- **C01_lossy_decrement**: with electric conductivity σ the energy changes by exactly
`− ⟨a·ε·(E'+E), E'+E⟩`, `a = c·σ·η₀·ε⁻¹/2`, provided the update's divisor `1 + a` is non-zero. -/
theorem C01_lossy_decrement (cf : Cfg K) (W : Widths K) (ref : K) (m : Mat K) (eps mu : V3 K) (E H : V3 K)
    (sig : V3 K)
    (hm : MetricOK cf W ref) (hh : HalosReal cf) (hmat : MatOK m eps mu) (hw : WallOK cf E H)
    (hsE : m.sigE = some sig) (hsH : m.sigH = none)
    (hdiv : ∀ i j k, 1 + (lossFactor cf m sig).x i j k ≠ 0 ∧ 1 + (lossFactor cf m sig).y i j k ≠ 0
      ∧ 1 + (lossFactor cf m sig).z i j k ≠ 0) :
    energy cf W eps mu (forward cf m zeroV zeroV E H).1 (forward cf m zeroV zeroV E H).2
      = energy cf W eps mu E H
        - pairE cf W (mulV (mulV (lossFactor cf m sig) eps) (addV (forward cf m zeroV zeroV E H).1 E))
            (addV (forward cf m zeroV zeroV E H).1 E) := by
  exact energy_balance cf W ref m eps mu E H hm hh hmat hw hsH (lossFactor cf m sig)
    (fun i j k => ⟨(hdiv i j k).1, by simp [stepE, projE, maskV, addV, zeroV, constV, hsE, optAt, updE1, lossFactor]⟩)
    (fun i j k => ⟨(hdiv i j k).2.1, by simp [stepE, projE, maskV, addV, zeroV, constV, hsE, optAt, updE1, lossFactor]⟩)
    (fun i j k => ⟨(hdiv i j k).2.2, by simp [stepE, projE, maskV, addV, zeroV, constV, hsE, optAt, updE1, lossFactor]⟩)

end

section ordered
variable {K : Type} [Field K] [LinearOrder K] [IsStrictOrderedRing K]

/-- widths are non-negative -/
structure WidthsNonneg (W : Widths K) : Prop where
  wx : ∀ i, 0 ≤ W.wx i
  wy : ∀ i, 0 ≤ W.wy i
  wz : ∀ i, 0 ≤ W.wz i
  dx : ∀ i, 0 ≤ W.dx i
  dy : ∀ i, 0 ≤ W.dy i
  dz : ∀ i, 0 ≤ W.dz i

theorem sum3_nonneg (nx ny nz : Nat) (f : F3 K) (h : ∀ i j k, 0 ≤ f i j k) : 0 ≤ sum3 nx ny nz f := by
  rw [sum3_eq]
  exact sum_nonneg fun i _ => sum_nonneg fun j _ => sum_nonneg fun k _ => h i j k

/-- **C01_lossy_nonincreasing**: with non-negative electric conductivity (and c, η₀, widths ≥ 0, ε·ε⁻¹ = 1) the
energy never increases from one step to the next. -/
theorem C01_lossy_nonincreasing (cf : Cfg K) (W : Widths K) (ref : K) (m : Mat K) (eps mu : V3 K) (E H : V3 K)
    (sig : V3 K)
    (hm : MetricOK cf W ref) (hh : HalosReal cf) (hmat : MatOK m eps mu) (hw : WallOK cf E H)
    (hsE : m.sigE = some sig) (hsH : m.sigH = none)
    (hdiv : ∀ i j k, 1 + (lossFactor cf m sig).x i j k ≠ 0 ∧ 1 + (lossFactor cf m sig).y i j k ≠ 0
      ∧ 1 + (lossFactor cf m sig).z i j k ≠ 0)
    (hW : WidthsNonneg W) (hc : 0 ≤ cf.c) (heta : 0 ≤ cf.eta0)
    (hsig : ∀ i j k, 0 ≤ sig.x i j k ∧ 0 ≤ sig.y i j k ∧ 0 ≤ sig.z i j k) :
    energy cf W eps mu (forward cf m zeroV zeroV E H).1 (forward cf m zeroV zeroV E H).2
      ≤ energy cf W eps mu E H := by
  rw [C01_lossy_decrement cf W ref m eps mu E H sig hm hh hmat hw hsE hsH hdiv]
  apply sub_le_self
  unfold pairE
  apply sum3_nonneg
  intro i j k
  have ex := hmat.ex i j k; have ey := hmat.ey i j k; have ez := hmat.ez i j k
  obtain ⟨sx, sy, sz⟩ := hsig i j k
  have ax : (lossFactor cf m sig).x i j k * eps.x i j k = cf.c * sig.x i j k * cf.eta0 / 2 := by
    simp only [lossFactor]; linear_combination (cf.c * sig.x i j k * cf.eta0 / 2) * ex
  have ay : (lossFactor cf m sig).y i j k * eps.y i j k = cf.c * sig.y i j k * cf.eta0 / 2 := by
    simp only [lossFactor]; linear_combination (cf.c * sig.y i j k * cf.eta0 / 2) * ey
  have az : (lossFactor cf m sig).z i j k * eps.z i j k = cf.c * sig.z i j k * cf.eta0 / 2 := by
    simp only [lossFactor]; linear_combination (cf.c * sig.z i j k * cf.eta0 / 2) * ez
  simp only [mulV, ax, ay, az]
  have := hW.wx i; have := hW.wy j; have := hW.wz k; have := hW.dx i; have := hW.dy j; have := hW.dz k
  have sq : ∀ (a g : K), 0 ≤ a → 0 ≤ a * g * g := fun a g ha => by
    have := mul_nonneg ha (mul_self_nonneg g); linarith [this, mul_assoc a g g]
  have hx : 0 ≤ cf.c * sig.x i j k * cf.eta0 / 2 := by positivity
  have hy : 0 ≤ cf.c * sig.y i j k * cf.eta0 / 2 := by positivity
  have hz : 0 ≤ cf.c * sig.z i j k * cf.eta0 / 2 := by positivity
  have t1 := mul_nonneg (mul_nonneg (mul_nonneg (hW.wx i) (hW.dy j)) (hW.dz k)) (sq _ ((addV (forward cf m zeroV zeroV E H).1 E).x i j k) hx)
  have t2 := mul_nonneg (mul_nonneg (mul_nonneg (hW.dx i) (hW.wy j)) (hW.dz k)) (sq _ ((addV (forward cf m zeroV zeroV E H).1 E).y i j k) hy)
  have t3 := mul_nonneg (mul_nonneg (mul_nonneg (hW.dx i) (hW.dy j)) (hW.wz k)) (sq _ ((addV (forward cf m zeroV zeroV E H).1 E).z i j k) hz)
  linarith

end ordered

/-! ### non-vacuity: a concrete 2×3×2 domain (periodic in x, PEC in y, zero halo in z) over ℚ meets every hypothesis -/
section nonvacuous
def exBC (wrap pec : Bool) : AxisBC Rat := ⟨wrap, 1, 1, pec, pec, false, false⟩
def exCfg : Cfg Rat :=
  { nx := 2, ny := 3, nz := 2, bx := exBC true false, by_ := exBC false true, bz := exBC false false,
    sfx := fun _ => 1, sfy := fun _ => 1, sfz := fun _ => 1, sbx := fun _ => 1, sby := fun _ => 1, sbz := fun _ => 1,
    c := 1 / 2, eta0 := 1 }
def exW : Widths Rat := ⟨fun _ => 1, fun _ => 1, fun _ => 1, fun _ => 1, fun _ => 1, fun _ => 1⟩
def exMat : Mat Rat := ⟨constV 2, constV 1, none, none⟩
def exE : V3 Rat := projE exCfg ⟨fun i j k => i + 2 * j + 3 * k + 1, fun i j k => i * j + k + 2, fun _ _ _ => 5⟩
def exH : V3 Rat := ⟨fun i j _ => i - j, fun _ _ k => k + 1, fun i _ _ => 3 - i⟩

example : MetricOK exCfg exW 1 := by constructor <;> intro i <;> simp [exCfg, exW]
example : HalosReal exCfg := by constructor <;> intro _ <;> simp [exCfg, exBC]
example : MatOK exMat (constV (1 / 2)) (constV 1) := by constructor <;> intro i j k <;> norm_num [exMat, constV]
example : WallOK exCfg exE exH := by
  constructor <;> intro i j k h <;> first | simp [exE, projE, maskV, h] | (simp [pmcMask, exCfg, exBC, onWall] at h)
example : exE.x 1 1 1 = 7 ∧ exE.x 1 0 1 = 0 ∧ exE.y 0 0 1 = 3 := by
  simp [exE, projE, maskV, pecMask, exCfg, exBC, onWall]; norm_num
end nonvacuous

end Fdtdx.C01
