/-
C39 — Material descriptions are normalised and classified consistently.

Theorems about `FdtdxModel/C39.lean`, over an arbitrary linearly ordered field `K` (so for ℝ and ℚ), all inputs:

  C39_norm_scalar_eq_diag3 / C39_norm_diag3_eq_flat9 / C39_norm_nested_eq_flat9 / C39_norm_scalar_eq_nested
        the four input forms of one tensor normalise to the same 9-tuple
  C39_norm_length, C39_norm_badlen, C39_norm_nonfloat3   result has 9 entries; other lengths and 3-tuples with a non-float raise
  C39_close_zero_iff, C39_close_iff        `math.isclose` with 0 ≤ rel_tol < 1 is equality against 0 and the relative test otherwise
  C39_isDiag_iff     isDiag p ⇔ p = (x,0,0,0,y,0,0,0,z) for some x y z
  C39_isIso_iff      isIso p ⇔ p diagonal with neighbouring diagonal entries within the relative tolerance
  C39_isIso_imp_isDiag, C39_isIso_offdiag_zero   isotropic ⇒ diagonal; isotropic ⇒ each of the six off-diagonal entries is 0
  C39_isIso_exact    with rel_tol = 0: isIso p ⇔ p = normalize (scalar v) for some v
  C39_iso_scalar, C39_diag_diag3   scalars are isotropic, 3-tuples diagonal (whatever the tolerance ≥ 0)
  C39_isConductive_iff   conductive ⇔ some entry non-zero
  C39_ordered_perm, C39_ordered_sorted     the common order is a permutation of the dict, ascending in the 4-entry key
  C39_lists_one_order  every per-property list, in every mode, is the projection of the SAME ordered list: entry i of each
                       list belongs to material `orderedNames[i]`
  C39_dispersive_one_order  the rows of the dispersive coefficient arrays (c1..c4) follow the same order
  C39_order_independent  if the keys are pairwise distinct the order does not depend on the dict's insertion order
  C39_complex_roundtrip  ε' + i σ/(ω ε0) with σ = ω ε0 ε'' gives back ε'' (component-wise, ω ≠ 0, ε0 ≠ 0); real parts untouched
-/
import FdtdxModel.C39
import Mathlib.Tactic.Ring
import Mathlib.Tactic.FieldSimp
import Mathlib.Tactic.Linarith
import Mathlib.Algebra.Order.Field.Basic
import Mathlib.Algebra.Order.AbsoluteValue.Basic
import Mathlib.Data.List.Sort
import Mathlib.Data.Prod.Lex
import Mathlib.Data.List.Nodup

namespace Fdtdx.C39

/-! ### normalisation -/
section norm
variable {K : Type} [Field K]

theorem C39_norm_scalar_eq_diag3 (v : K) :
    normalize (.scalar v) = normalize (.tuple [.flt v, .flt v, .flt v]) := rfl

theorem C39_norm_diag3_eq_flat9 (x y z : K) :
    normalize (.tuple [.flt x, .flt y, .flt z]) = normalize (.tuple ([x, 0, 0, 0, y, 0, 0, 0, z].map .flt)) := rfl

theorem C39_norm_nested_eq_flat9 (a0 a1 a2 b0 b1 b2 c0 c1 c2 : K) :
    normalize (.tuple [.row [a0, a1, a2], .row [b0, b1, b2], .row [c0, c1, c2]]) =
      normalize (.tuple ([a0, a1, a2, b0, b1, b2, c0, c1, c2].map .flt)) := rfl

theorem C39_norm_scalar_eq_nested (v : K) :
    normalize (.scalar v) = normalize (.tuple [.row [v, 0, 0], .row [0, v, 0], .row [0, 0, v]]) := rfl

theorem mapM_val_length : ∀ (items : List (Item K)) (p : List K), items.mapM Item.val? = some p → p.length = items.length
  | [], p, h => by simp at h; simp [← h]
  | it :: rest, p, h => by
    rw [List.mapM_cons] at h
    cases hv : it.val? with
    | none => simp [hv] at h
    | some v =>
      cases hr : rest.mapM Item.val? with
      | none => simp [hv, hr] at h
      | some q =>
        simp [hv, hr] at h
        rw [← h]; simp [mapM_val_length rest q hr]

theorem C39_norm_length (inp : Input K) (p : List K) (h : normalize inp = some p) : p.length = 9 := by
  cases inp with
  | scalar v => simp [normalize] at h; rw [← h]; rfl
  | tuple items =>
    simp only [normalize] at h
    split at h
    · split at h
      · split at h
        · cases h
        · rename_i a b c _ hl
          injection h with h; rw [← h]
          simp only [List.length_append]; omega
      · injection h with h; rw [← h]; rfl
      · cases h
    · split at h
      · rename_i h9; rw [mapM_val_length items p h, h9]
      · cases h

theorem C39_norm_badlen (items : List (Item K)) (h3 : items.length ≠ 3) (h9 : items.length ≠ 9) :
    normalize (.tuple items) = none := by
  simp [normalize, h3, h9]

/-- a 3-tuple containing a number that is not a Python float (e.g. `(1, 2.0, 3.0)`) is rejected -/
theorem C39_norm_nonfloat3 (x y z : K) :
    normalize (.tuple [.other x, .flt y, .flt z]) = none ∧ normalize (.tuple [.flt x, .other y, .flt z]) = none ∧
    normalize (.tuple [.flt x, .flt y, .other z]) = none ∧ normalize (.tuple [.row [x, y, z], .flt y, .flt z]) = none :=
  ⟨rfl, rfl, rfl, rfl⟩

example : normalize (.tuple [.flt (2 : ℚ), .flt 3, .flt 4]) = some [2, 0, 0, 0, 3, 0, 0, 0, 4] := rfl

end norm

/-! ### predicates -/
section pred
variable {K : Type} [Field K] [LinearOrder K] [IsStrictOrderedRing K]

theorem absv_eq_abs (x : K) : absv x = |x| := by
  unfold absv
  split
  · rename_i h; rw [abs_of_neg h]
  · rename_i h; rw [abs_of_nonneg (not_lt.mp h)]

/-- C39_close_iff: the model of `math.isclose(a, b, rel_tol=rel)` is the relative test (`a == b` is subsumed). -/
theorem C39_close_iff (rel a b : K) (hr : 0 ≤ rel) :
    close rel a b = true ↔ |b - a| ≤ rel * |b| ∨ |b - a| ≤ rel * |a| := by
  unfold close
  simp only [Bool.or_eq_true, Bool.and_eq_true, Bool.not_eq_true', decide_eq_false_iff_not, decide_eq_true_eq,
    absv_eq_abs, abs_mul, abs_of_nonneg hr]
  constructor
  · rintro ((⟨h1, h2⟩ | h) | h)
    · have : a = b := le_antisymm (not_lt.mp h2) (not_lt.mp h1)
      subst this
      left; simp; exact mul_nonneg hr (abs_nonneg _)
    · exact Or.inl h
    · exact Or.inr h
  · rintro (h | h)
    · exact Or.inl (Or.inr h)
    · exact Or.inr h

/-- C39_close_zero_iff: against 0 the relative test is exact equality (this is what the off-diagonal tests use). -/
theorem C39_close_zero_iff (rel a : K) (hr : 0 ≤ rel) (hr1 : rel < 1) : close rel a 0 = true ↔ a = 0 := by
  rw [C39_close_iff rel a 0 hr]
  simp only [zero_sub, abs_neg, abs_zero, mul_zero]
  constructor
  · rintro (h | h)
    · exact abs_eq_zero.mp (le_antisymm h (abs_nonneg _))
    · by_contra hne
      have hpos : 0 < |a| := abs_pos.mpr hne
      nlinarith
  · intro h; subst h; left; simp

theorem at9_cons_succ (x : K) (xs : List K) (i : Nat) : at9 (x :: xs) (i + 1) = at9 xs i := by
  simp [at9]

/-- destructuring a list of length 9 -/
theorem len9 (p : List K) (h : p.length = 9) : ∃ a b c d e f g i j, p = [a, b, c, d, e, f, g, i, j] := by
  match p, h with
  | [a, b, c, d, e, f, g, i, j], _ => exact ⟨a, b, c, d, e, f, g, i, j, rfl⟩

/-- C39_isDiag_iff: the diagonality predicate holds exactly for tensors of the 3-tuple form. -/
theorem C39_isDiag_iff (rel : K) (hr : 0 ≤ rel) (hr1 : rel < 1) (p : List K) (hp : p.length = 9) :
    isDiag rel p = true ↔ ∃ x y z, p = [x, 0, 0, 0, y, 0, 0, 0, z] := by
  obtain ⟨a, b, c, d, e, f, g, i, j, rfl⟩ := len9 p hp
  simp only [isDiag, List.all_cons, List.all_nil, Bool.and_true, Bool.and_eq_true, at9, List.getD_cons_succ,
    List.getD_cons_zero, C39_close_zero_iff rel _ hr hr1]
  constructor
  · rintro ⟨rfl, rfl, rfl, rfl, rfl, rfl⟩; exact ⟨a, e, j, rfl⟩
  · rintro ⟨x, y, z, h⟩
    simp only [List.cons.injEq] at h
    obtain ⟨_, rfl, rfl, rfl, _, rfl, rfl, rfl, _⟩ := h
    exact ⟨rfl, rfl, rfl, rfl, rfl, rfl⟩

/-- C39_isIso_iff: isotropic ⇔ of 3-tuple form with neighbouring diagonal entries relatively close. -/
theorem C39_isIso_iff (rel : K) (hr : 0 ≤ rel) (hr1 : rel < 1) (p : List K) (hp : p.length = 9) :
    isIso rel p = true ↔ ∃ x y z, p = [x, 0, 0, 0, y, 0, 0, 0, z] ∧
      (|y - x| ≤ rel * |y| ∨ |y - x| ≤ rel * |x|) ∧ (|z - y| ≤ rel * |z| ∨ |z - y| ≤ rel * |y|) := by
  unfold isIso
  rw [Bool.and_eq_true, Bool.and_eq_true, C39_isDiag_iff rel hr hr1 p hp, C39_close_iff _ _ _ hr, C39_close_iff _ _ _ hr]
  constructor
  · rintro ⟨⟨h1, h2⟩, x, y, z, rfl⟩
    exact ⟨x, y, z, rfl, by simpa [at9] using h1, by simpa [at9] using h2⟩
  · rintro ⟨x, y, z, rfl, h1, h2⟩
    exact ⟨⟨by simpa [at9] using h1, by simpa [at9] using h2⟩, x, y, z, rfl⟩

/-- C39_isIso_imp_isDiag: whatever is classified isotropic is also classified diagonally anisotropic. -/
theorem C39_isIso_imp_isDiag (rel : K) (p : List K) (h : isIso rel p = true) : isDiag rel p = true := by
  unfold isIso at h
  rw [Bool.and_eq_true] at h
  exact h.2

/-- C39_isIso_offdiag_zero: an isotropic tensor has EVERY off-diagonal entry equal to zero (each one separately — entries
that merely cancel, as in a gyrotropic tensor (v, g, 0, -g, v, 0, 0, 0, v), do not count) and diagonal entries within the
relative tolerance. -/
theorem C39_isIso_offdiag_zero (rel : K) (hr : 0 ≤ rel) (hr1 : rel < 1) (p : List K) (hp : p.length = 9)
    (h : isIso rel p = true) :
    at9 p 1 = 0 ∧ at9 p 2 = 0 ∧ at9 p 3 = 0 ∧ at9 p 5 = 0 ∧ at9 p 6 = 0 ∧ at9 p 7 = 0 ∧
    close rel (at9 p 0) (at9 p 4) = true ∧ close rel (at9 p 4) (at9 p 8) = true := by
  have hd := C39_isIso_imp_isDiag rel p h
  obtain ⟨x, y, z, rfl⟩ := (C39_isDiag_iff rel hr hr1 p hp).mp hd
  unfold isIso at h
  simp only [Bool.and_eq_true] at h
  exact ⟨rfl, rfl, rfl, rfl, rfl, rfl, h.1.1, h.1.2⟩

/-- a gyrotropic tensor (cancelling off-diagonals, equal diagonal) is neither isotropic nor diagonal -/
example : isIso (1 / 1000000000 : ℚ) [2, 3 / 10, 0, -3 / 10, 2, 0, 0, 0, 2] = false ∧
    isDiag (1 / 1000000000 : ℚ) [2, 3 / 10, 0, -3 / 10, 2, 0, 0, 0, 2] = false := by decide +kernel

/-- C39_isIso_exact: with zero tolerance, isotropic ⇔ the normal form of a scalar. -/
theorem C39_isIso_exact (p : List K) (hp : p.length = 9) :
    isIso 0 p = true ↔ ∃ v, some p = normalize (.scalar v) := by
  rw [C39_isIso_iff 0 le_rfl zero_lt_one p hp]
  simp only [zero_mul, abs_nonpos_iff, or_self, sub_eq_zero, normalize, Option.some.injEq]
  constructor
  · rintro ⟨x, y, z, rfl, rfl, rfl⟩; exact ⟨z, rfl⟩
  · rintro ⟨v, rfl⟩; exact ⟨v, v, v, rfl, rfl, rfl⟩

/-- C39_iso_scalar: a scalar input is classified isotropic (hence diagonal) for every tolerance ≥ 0. -/
theorem C39_iso_scalar (rel v : K) (hr : 0 ≤ rel) (hr1 : rel < 1) (p : List K) (h : normalize (.scalar v) = some p) :
    isIso rel p = true ∧ isDiag rel p = true := by
  simp only [normalize, Option.some.injEq] at h
  subst h
  have hd : isDiag rel [v, 0, 0, 0, v, 0, 0, 0, v] = true :=
    (C39_isDiag_iff rel hr hr1 _ rfl).mpr ⟨v, v, v, rfl⟩
  refine ⟨?_, hd⟩
  rw [C39_isIso_iff rel hr hr1 _ rfl]
  refine ⟨v, v, v, rfl, ?_, ?_⟩ <;> left <;> simp <;> exact mul_nonneg hr (abs_nonneg _)

/-- C39_diag_diag3: a 3-tuple input is classified diagonal. -/
theorem C39_diag_diag3 (rel x y z : K) (hr : 0 ≤ rel) (hr1 : rel < 1) (p : List K)
    (h : normalize (.tuple [.flt x, .flt y, .flt z]) = some p) : isDiag rel p = true := by
  have : p = [x, 0, 0, 0, y, 0, 0, 0, z] := by
    have h' : some [x, 0, 0, 0, y, 0, 0, 0, z] = some p := h
    injection h' with h'; exact h'.symm
  subst this
  exact (C39_isDiag_iff rel hr hr1 _ rfl).mpr ⟨x, y, z, rfl⟩

/-- C39_isConductive_iff: "conductive" ⇔ some component is non-zero. -/
theorem C39_isConductive_iff (rel : K) (hr : 0 ≤ rel) (hr1 : rel < 1) (p : List K) (hp : p.length = 9) :
    isConductive rel p = true ↔ p ≠ [0, 0, 0, 0, 0, 0, 0, 0, 0] := by
  obtain ⟨a, b, c, d, e, f, g, i, j, rfl⟩ := len9 p hp
  unfold isConductive
  rw [Bool.not_eq_true', ← Bool.not_eq_true, not_iff_not]
  simp only [List.range, List.range.loop, List.all_cons, List.all_nil, Bool.and_true, Bool.and_eq_true, at9,
    List.getD_cons_succ, List.getD_cons_zero, C39_close_zero_iff rel _ hr hr1, List.cons.injEq, and_true]

example : isIso (1 / 1000000000 : ℚ) [2, 0, 0, 0, 2, 0, 0, 0, 2] = true := by decide
example : isIso (1 / 1000000000 : ℚ) [2, 0, 0, 0, 3, 0, 0, 0, 2] = false := by decide +kernel
example : isDiag (1 / 1000000000 : ℚ) [2, 0, 0, 0, 3, 0, 0, 0, 2] = true := by decide
example : isDiag (1 / 1000000000 : ℚ) [2, 0, 1 / 1000000000000, 0, 3, 0, 0, 0, 2] = false := by decide +kernel

end pred

/-! ### one common order -/
section order
variable {K : Type} [Field K] [LinearOrder K]

/-- the key as an element of the lexicographic product -/
def lexKey (k : K × K × K × K) : K ×ₗ K ×ₗ K ×ₗ K := toLex (k.1, toLex (k.2.1, toLex (k.2.2.1, k.2.2.2)))

theorem keyLt_iff (a b : K × K × K × K) : keyLt a b = true ↔ lexKey a < lexKey b := by
  obtain ⟨a1, a2, a3, a4⟩ := a
  obtain ⟨b1, b2, b3, b4⟩ := b
  simp only [keyLt, lexKey, Prod.Lex.toLex_lt_toLex, Bool.or_eq_true, Bool.and_eq_true, Bool.not_eq_true',
    decide_eq_true_eq, decide_eq_false_iff_not]
  constructor
  · rintro (h | ⟨h1, h⟩)
    · exact Or.inl h
    · rcases lt_or_eq_of_le (not_lt.mp h1) with h1' | h1'
      · exact Or.inl h1'
      · refine Or.inr ⟨h1', ?_⟩
        rcases h with h | ⟨h2, h⟩
        · exact Or.inl h
        · rcases lt_or_eq_of_le (not_lt.mp h2) with h2' | h2'
          · exact Or.inl h2'
          · refine Or.inr ⟨h2', ?_⟩
            rcases h with h | ⟨h3, h⟩
            · exact Or.inl h
            · rcases lt_or_eq_of_le (not_lt.mp h3) with h3' | h3'
              · exact Or.inl h3'
              · exact Or.inr ⟨h3', h⟩
  · rintro (h | ⟨h1, h⟩)
    · exact Or.inl h
    · refine Or.inr ⟨by rw [h1]; exact lt_irrefl _, ?_⟩
      rcases h with h | ⟨h2, h⟩
      · exact Or.inl h
      · refine Or.inr ⟨by rw [h2]; exact lt_irrefl _, ?_⟩
        rcases h with h | ⟨h3, h⟩
        · exact Or.inl h
        · exact Or.inr ⟨by rw [h3]; exact lt_irrefl _, h⟩

variable {ν : Type}

/-- the order relation the materials are sorted by -/
def matLe (a b : ν × Mat K) : Prop := lexKey (key a.2) ≤ lexKey (key b.2)

instance : DecidableRel (matLe (K := K) (ν := ν)) := fun a b => by unfold matLe; infer_instance
instance : Std.Total (matLe (K := K) (ν := ν)) := ⟨fun a b => le_total _ _⟩
instance : IsTrans (ν × Mat K) (matLe (K := K) (ν := ν)) := ⟨fun _ _ _ h1 h2 => le_trans h1 h2⟩

theorem insertBy_eq (x : ν × Mat K) (l : List (ν × Mat K)) :
    insertBy (fun a b => keyLt (key a.2) (key b.2)) x l = List.orderedInsert matLe x l := by
  induction l with
  | nil => rfl
  | cons y ys ih =>
    simp only [insertBy, List.orderedInsert_cons]
    by_cases h : keyLt (key y.2) (key x.2) = true
    · have : ¬ matLe x y := by unfold matLe; exact not_le.mpr ((keyLt_iff _ _).mp h)
      rw [if_pos h, if_neg this, ih]
    · have : matLe x y := by
        unfold matLe; exact not_lt.mp (fun hh => h ((keyLt_iff _ _).mpr hh))
      rw [if_neg h, if_pos this]

theorem ordered_eq (ms : List (ν × Mat K)) : ordered ms = List.insertionSort matLe ms := by
  unfold ordered
  induction ms with
  | nil => rfl
  | cons x xs ih => simp only [sortBy, List.insertionSort_cons, ih, insertBy_eq]

/-- C39_ordered_perm: the ordered list contains exactly the materials of the dict. -/
theorem C39_ordered_perm (ms : List (ν × Mat K)) : (ordered ms).Perm ms := by
  rw [ordered_eq]; exact List.perm_insertionSort _ _

/-- C39_ordered_sorted: ascending in (permittivity[0], permeability[0], el. conductivity[0], magn. conductivity[0]). -/
theorem C39_ordered_sorted (ms : List (ν × Mat K)) :
    (ordered ms).Pairwise (fun a b => lexKey (key a.2) ≤ lexKey (key b.2)) := by
  rw [ordered_eq]; exact List.pairwise_insertionSort matLe ms

/-- C39_lists_one_order: whatever property and list mode, entry `i` of the list is the projection of the material
whose name is entry `i` of `orderedNames` — all lists share the order of `ordered`. -/
theorem C39_lists_one_order (sel : Mat K → List K) (mode : Nat) (ms : List (ν × Mat K)) :
    (allowed sel mode ms).length = (orderedNames ms).length ∧
    ∀ i (h : i < (ordered ms).length),
      (orderedNames ms)[i]? = some ((ordered ms)[i]).1 ∧
      (allowed sel mode ms)[i]? = some (project mode (sel ((ordered ms)[i]).2)) := by
  refine ⟨by simp [allowed, orderedNames], fun i h => ?_⟩
  simp [allowed, orderedNames, List.getElem?_map, List.getElem?_eq_getElem h]

/-- C39_dispersive_one_order: the rows of the dispersive coefficient arrays use the same order as every other list:
row `i` is the coefficient block of the material named `orderedNames[i]` (and there is one row per material). -/
theorem C39_dispersive_one_order (ms : List (ν × Mat K)) :
    (dispersiveTable ms).length = (orderedNames ms).length ∧
    ∀ i (h : i < (ordered ms).length),
      (orderedNames ms)[i]? = some ((ordered ms)[i]).1 ∧ (dispersiveTable ms)[i]? = some ((ordered ms)[i]).2.disp := by
  refine ⟨by simp [dispersiveTable, orderedNames], fun i h => ?_⟩
  simp [dispersiveTable, orderedNames, List.getElem?_map, List.getElem?_eq_getElem h]

/-- C39_order_independent: with pairwise distinct keys the order is a function of the SET of materials — reordering
the dict changes nothing.  (With tied keys Python's stable sort keeps the insertion order of the tied materials.) -/
theorem C39_order_independent (ms ms' : List (ν × Mat K)) (hperm : ms.Perm ms')
    (hnd : (ms.map fun m => lexKey (key m.2)).Nodup) : ordered ms = ordered ms' := by
  set f : ν × Mat K → K ×ₗ K ×ₗ K ×ₗ K := fun m => lexKey (key m.2) with hf
  have hp : (ordered ms).Perm (ordered ms') :=
    (C39_ordered_perm ms).trans (hperm.trans (C39_ordered_perm ms').symm)
  have hs : ((ordered ms).map f).Pairwise (· ≤ ·) := by
    rw [List.pairwise_map]; exact C39_ordered_sorted ms
  have hs' : ((ordered ms').map f).Pairwise (· ≤ ·) := by
    rw [List.pairwise_map]; exact C39_ordered_sorted ms'
  have hmap : (ordered ms).map f = (ordered ms').map f := (hp.map f).eq_of_pairwise' hs hs'
  have hinj : ∀ x ∈ ms, ∀ y ∈ ms, f x = f y → x = y := List.inj_on_of_nodup_map hnd
  have hlen : (ordered ms).length = (ordered ms').length := hp.length_eq
  apply List.ext_getElem hlen
  intro i h1 h2
  have e : f ((ordered ms)[i]) = f ((ordered ms')[i]) := by
    have := congrArg (fun l => l[i]?) hmap
    simpa [List.getElem?_map, List.getElem?_eq_getElem h1, List.getElem?_eq_getElem h2] using this
  exact hinj _ ((C39_ordered_perm ms).mem_iff.mp (List.getElem_mem h1)) _
    (hperm.mem_iff.mpr ((C39_ordered_perm ms').mem_iff.mp (List.getElem_mem h2))) e

example : orderedNames [("b", ({ eps := [4], mu := [1], sigE := [0], sigM := [0] } : Mat ℚ)),
    ("a", { eps := [2], mu := [1], sigE := [0], sigM := [0] }), ("c", { eps := [2], mu := [1], sigE := [1/2], sigM := [0] })]
    = ["a", "c", "b"] := by decide +kernel

end order

/-! ### complex permittivity at the reference frequency -/
section cplx
variable {K : Type} [Field K]

/-- C39_complex_roundtrip: the real parts are kept, and the conductivity σ = ω·ε0·ε'' gives back
ε'' = σ/(ω·ε0) — the imaginary part of the effective permittivity ε' + iσ/(ωε0) at the reference frequency. -/
theorem C39_complex_roundtrip (omega vac : K) (ho : omega ≠ 0) (hv : vac ≠ 0) (v : List (K × K)) :
    (splitComplex omega vac v).1 = v.map (·.1) ∧
    ((splitComplex omega vac v).2.map fun s => s / (omega * vac)) = v.map (·.2) := by
  refine ⟨rfl, ?_⟩
  simp only [splitComplex, List.map_map]
  apply List.map_congr_left
  intro c _
  simp only [Function.comp]
  field_simp

/-- the reference angular frequency is non-zero whenever it comes from a non-zero frequency or wavelength -/
theorem C39_omega_ne_zero (twoPi c x : K) (h2 : twoPi ≠ 0) (hc : c ≠ 0) (hx : x ≠ 0) :
    twoPi * x ≠ 0 ∧ twoPi * (c / x) ≠ 0 :=
  ⟨mul_ne_zero h2 hx, mul_ne_zero h2 (div_ne_zero hc hx)⟩

example : (splitComplex (2 : ℚ) 3 [(5, 1/2)]).2.map (fun s => s / (2 * 3)) = [1/2] := by decide +kernel

end cplx

end Fdtdx.C39
