/-
C28 — Static materials are painted by placement order.

Property theorems about `FdtdxModel/C28.lean`, for any number of objects, any boxes and voxel masks, any
placement orders (ties included), any materials, over an arbitrary field:

  C28_winner_unique        at most one index is the covering object with the largest (placement_order, list index)
  C28_winner_exists        … and there is one as soon as some object covers the cell
  C28_painter_inv          inverse-stored arrays (permittivity, permeability) at a cell = inverse of the tier value of
                           the WINNER's material — whatever lies underneath, in whatever order the objects were listed
  C28_painter_cond         conductivity arrays at a cell = tier value of the winner's conductivity × reference spacing
  C28_painter_eps          inverse permittivity with the per-object sub-pixel switch: at every cell that does not lie in
                           the uncovered part of a smoothed object's grid slice, the value is that of the winner — the
                           full tier value if the winner is not smoothed (component by component), its xx entry on all
                           three diagonals if it is; the switch of one object never changes another object's cells
  C28_unsmoothed_exact     corollary: winner not smoothed ⇒ exactly its material, whatever other objects request
  C28_nEps_smooth          any smoothed object forces 3 components; otherwise the count is `tierOf`
  C28_initArrays_*         the same statements for the four arrays `_init_arrays` returns
  C28_volume_lowest        an object at list index 0 with the smallest order (the volume: index 0, order -1000) never
                           wins a cell that another object covers
  C28_sorted_head          … and it is painted first
  C28_tier_widest          component count = the widest tier any material of the scene needs (1 / 3 / 9)
  C28_tier_cases           1 ↔ all isotropic, 3 ↔ all diagonal but not all isotropic, 9 otherwise
  C28_nonmagnetic_scalar   no magnetic material ↔ the permeability is the scalar 1 (no array); likewise
  C28_nonconductive_none   no conductive material ↔ no conductivity array
  C28_cond_spacing_uniform on a uniform grid (dt = courant·h/c) the reference spacing c·dt/courant is the grid spacing h
  C28_cond_spacing_rect    on a rectilinear grid it is √3 / √(1/dx² + 1/dy² + 1/dz²)

For tier 9 the inverse is a 3×3 matrix inverse and the theorem needs the painted tensors to be invertible
(`det3 ≠ 0`, hypothesis `hreg`; `jnp.linalg.inv` has the same precondition).  Tiers 1 and 3 need nothing.
-/
import FdtdxModel.C28
import FdtdxLemmas.C28Sort
import Mathlib.Tactic.Ring
import Mathlib.Tactic.FieldSimp
import Mathlib.Tactic.Linarith
import Mathlib.Tactic.IntervalCases
import Mathlib.Algebra.Field.Basic
import Mathlib.Algebra.Order.Field.Basic

namespace Fdtdx.C28
open Fdtdx.C28Lemmas

/-! ### the nine-component record -/
section v9
variable {α : Type}

theorem V9.get_ofFn (f : Nat → α) (k : Nat) (h : k < 9) : (V9.ofFn f).get k = f k := by
  interval_cases k <;> rfl

theorem V9.ofFn_get (v : V9 α) : V9.ofFn v.get = v := by
  cases v; rfl

theorem V9.ofFn_congr {f g : Nat → α} (h : ∀ k, k < 9 → f k = g k) : V9.ofFn f = V9.ofFn g := by
  simp only [V9.ofFn, h 0 (by omega), h 1 (by omega), h 2 (by omega), h 3 (by omega), h 4 (by omega),
    h 5 (by omega), h 6 (by omega), h 7 (by omega), h 8 (by omega)]

end v9

/-! ### the winner of a cell -/
section winner
variable {ι α : Type}

/-- `j` is the covering object of cell `c` with the largest (placement_order, list index) -/
def IsWinner (objs : List (SObj ι α)) (c : ι) (j : Nat) : Prop :=
  ∃ h : j < objs.length, covers objs[j] c = true ∧
    ∀ (k : Nat) (hk : k < objs.length), covers objs[k] c = true →
      objs[k].order < objs[j].order ∨ (objs[k].order = objs[j].order ∧ k ≤ j)

theorem C28_winner_unique (objs : List (SObj ι α)) (c : ι) (i j : Nat)
    (hi : IsWinner objs c i) (hj : IsWinner objs c j) : i = j := by
  obtain ⟨h1, c1, m1⟩ := hi
  obtain ⟨h2, c2, m2⟩ := hj
  have a := m1 j h2 c2
  have b := m2 i h1 c1
  omega

theorem sortObjs_eq (objs : List (SObj ι α)) :
    sortObjs objs = objs.mergeSort (fun a b => decide (a.order ≤ b.order)) := rfl

/-- the last covering object of the sorted list is the winner -/
theorem sorted_last_cover (objs : List (SObj ι α)) (c : ι)
    (hne : (sortObjs objs).filter (fun o => covers o c) ≠ []) :
    ∃ j, ∃ hw : IsWinner objs c j,
      ((sortObjs objs).filter (fun o => covers o c)).getLast hne = objs[j]'hw.1 := by
  obtain ⟨j, hj, heq, hp, hmax⟩ := mergeSort_filter_getLast (fun o : SObj ι α => o.order) (fun o => covers o c) objs hne
  exact ⟨j, ⟨hj, hp, hmax⟩, heq⟩

theorem filter_ne_nil_of_cover (objs : List (SObj ι α)) (c : ι) (k : Nat) (hk : k < objs.length)
    (hc : covers objs[k] c = true) : (sortObjs objs).filter (fun o => covers o c) ≠ [] := by
  intro h
  have hm : objs[k] ∈ sortObjs objs := List.mem_mergeSort.mpr (List.getElem_mem hk)
  have := List.filter_eq_nil_iff.mp h _ hm
  simp [hc] at this

/-- **C28 (existence)**: a covered cell has a winner. -/
theorem C28_winner_exists (objs : List (SObj ι α)) (c : ι) (k : Nat) (hk : k < objs.length)
    (hc : covers objs[k] c = true) : ∃ j, IsWinner objs c j := by
  obtain ⟨j, hw, _⟩ := sorted_last_cover objs c (filter_ne_nil_of_cover objs c k hk hc)
  exact ⟨j, hw⟩

/-- **C28 (the volume is lowest)**: if the object at list index 0 has the smallest placement order (the volume:
index 0 by construction of `place_objects`, order -1000 by default), it does not win any cell that another
object covers. -/
theorem C28_volume_lowest (objs : List (SObj ι α)) (c : ι) (j k : Nat) (hw : IsWinner objs c j)
    (h0 : 0 < objs.length) (hlow : ∀ (i : Nat) (hi : i < objs.length), objs[0].order ≤ objs[i].order)
    (hk : k < objs.length) (hk0 : 0 < k) (hc : covers objs[k] c = true) : j ≠ 0 := by
  obtain ⟨hj, _, hmax⟩ := hw
  intro hj0
  subst hj0
  have := hmax k hk hc
  have := hlow k hk
  omega

/-- … and it is the first object painted. -/
theorem C28_sorted_head (objs : List (SObj ι α)) (h0 : 0 < objs.length)
    (hlow : ∀ (i : Nat) (hi : i < objs.length), objs[0].order ≤ objs[i].order) :
    (sortObjs objs).head? = some objs[0] := by
  match objs, h0, hlow with
  | x :: xs, _, hlow =>
    have hx : ∀ b ∈ xs, (fun a b : SObj ι α => decide (a.order ≤ b.order)) x b = true := by
      intro b hb
      obtain ⟨i, hi, rfl⟩ := List.getElem_of_mem hb
      have := hlow (i + 1) (by simp; omega)
      simpa using this
    have trans : ∀ a b c : SObj ι α, decide (a.order ≤ b.order) = true → decide (b.order ≤ c.order) = true →
        decide (a.order ≤ c.order) = true := by
      intro a b c h1 h2
      simp only [decide_eq_true_eq] at h1 h2 ⊢
      omega
    have total : ∀ a b : SObj ι α, (decide (a.order ≤ b.order) || decide (b.order ≤ a.order)) = true := by
      intro a b
      simp only [Bool.or_eq_true, decide_eq_true_eq]
      omega
    obtain ⟨l₁, l₂, h₁, _, h₃⟩ := List.mergeSort_cons trans total x xs
    -- nothing can stand before x: every element of l₁ would have to fail `le · x`… but also be ≥ x
    have hl1 : l₁ = [] := by
      by_contra hne
      obtain ⟨b, hb⟩ := List.exists_mem_of_ne_nil _ hne
      have hb3 := h₃ b hb
      have hbmem : b ∈ x :: xs := by
        have : b ∈ (x :: xs).mergeSort (fun a b => decide (a.order ≤ b.order)) := by
          rw [h₁]; simp [hb]
        exact List.mem_mergeSort.mp this
      -- Int order: ¬ (b ≤ x) means x < b, so b ≠ x and x ≤ b; stability puts x first — contradiction via h₃'s meaning
      simp only [Bool.not_eq_true', decide_eq_false_iff_not] at hb3
      rcases List.mem_cons.mp hbmem with rfl | hbx
      · omega
      · have := hx b hbx
        simp only [decide_eq_true_eq] at this
        omega
    simp [sortObjs_eq, h₁, hl1]

end winner

/-! ### the painter loop at one cell -/
section fold
variable {ι α : Type}

theorem foldl_paintArr (step : ι → V9 α → SObj ι α → V9 α) (c : ι) :
    ∀ (L : List (SObj ι α)) (arr : ι → V9 α),
      (L.foldl (paintArr step) arr) c = L.foldl (fun v o => step c v o) (arr c)
  | [], _ => rfl
  | x :: xs, arr => by
    rw [List.foldl_cons, List.foldl_cons, foldl_paintArr step c xs]
    rfl

/-- abstract painter's rule for `paintAll` -/
theorem paintAll_winner [OfNat α 0] (step : ι → V9 α → SObj ι α → V9 α) (tgt : SObj ι α → V9 α) (good : V9 α → Prop) (c : ι)
    (hcov : ∀ v o, covers o c = true → step c v o = tgt o)
    (hnot : ∀ v o, covers o c = false → good v → step c v o = v)
    (hgood : ∀ o, covers o c = true → good (tgt o))
    (objs : List (SObj ι α)) (j : Nat) (hw : IsWinner objs c j) :
    paintAll step objs c = tgt (objs[j]'hw.1) := by
  have hne := filter_ne_nil_of_cover objs c j hw.1 hw.2.1
  unfold paintAll
  rw [foldl_paintArr,
    foldl_last_cover (fun v o => step c v o) (fun o => covers o c) tgt good hcov hnot hgood _ _ hne]
  obtain ⟨j', hw', heq⟩ := sorted_last_cover objs c hne
  have : j' = j := C28_winner_unique objs c j' j hw' hw
  subst this
  rw [heq]

end fold

/-! ### inverse-stored properties and conductivities over a field -/
section field
variable {ι K : Type} [Field K]

theorem invTier_congr (n : Nat) {f g : Nat → K} (h : ∀ k, k < 9 → f k = g k) :
    ∀ k, k < 9 → invTier n f k = invTier n g k := by
  intro k hk
  unfold invTier
  split
  · simp only [inv3x3, det3, h 0 (by omega), h 1 (by omega), h 2 (by omega), h 3 (by omega), h 4 (by omega),
      h 5 (by omega), h 6 (by omega), h 7 (by omega), h 8 (by omega)]
    congr 1
    interval_cases k <;> simp only [adj3, h 0 (by omega), h 1 (by omega), h 2 (by omega), h 3 (by omega),
      h 4 (by omega), h 5 (by omega), h 6 (by omega), h 7 (by omega), h 8 (by omega)]
  · show 1 / f k = 1 / g k
    rw [h k hk]

/-- a stored value survives the round trip `inv ∘ inv` of a multi-material object that does not cover the cell -/
def Good (n : Nat) (v : V9 K) : Prop := V9.ofFn (invTier n (V9.ofFn (invTier n v.get)).get) = v

theorem det3_div (a : Nat → K) (d : K) (hd : d ≠ 0) : det3 (fun k => a k / d) = det3 a / d ^ 3 := by
  simp only [det3]
  field_simp

theorem det3_adj3 (m : Nat → K) : det3 (adj3 m) = det3 m ^ 2 := by
  simp only [det3, adj3]
  ring

theorem adj3_div (a : Nat → K) (d : K) (hd : d ≠ 0) (k : Nat) (hk : k < 9) :
    adj3 (fun i => a i / d) k = adj3 a k / d ^ 2 := by
  interval_cases k <;> simp only [adj3] <;> field_simp

theorem adj3_adj3 (m : Nat → K) (k : Nat) (hk : k < 9) : adj3 (adj3 m) k = det3 m * m k := by
  interval_cases k <;> simp only [adj3, det3] <;> ring

/-- `inv3x3` is an involution on invertible tensors -/
theorem inv3x3_invol (m : Nat → K) (h : det3 m ≠ 0) : ∀ k, k < 9 → inv3x3 (inv3x3 m) k = m k := by
  intro k hk
  unfold inv3x3
  rw [det3_div _ _ h, adj3_div _ _ h k hk, det3_adj3, adj3_adj3 m k hk]
  field_simp

/-- regular values: at tiers 1 and 3 every value, at tier 9 the inverses of invertible tensors -/
theorem good_of_tierVal (n : Nat) (p : Nat → K) (hreg : n = 9 → det3 (tierVal n p) ≠ 0) :
    Good n (V9.ofFn (invTier n (tierVal n p))) := by
  unfold Good
  apply V9.ofFn_congr
  intro k hk
  by_cases hn : n = 9
  · -- inv(inv(inv M)) = inv M because inv(inv M) = M entrywise
    have h1 : ∀ i, i < 9 → (V9.ofFn (invTier n (V9.ofFn (invTier n (tierVal n p))).get)).get i = tierVal n p i := by
      intro i hi
      rw [V9.get_ofFn _ _ hi, invTier_congr n (fun a ha => V9.get_ofFn _ a ha) i hi]
      simp only [invTier, hn, if_true]
      have := inv3x3_invol (tierVal n p) (hreg hn) i hi
      simpa [hn] using this
    exact invTier_congr n h1 k hk
  · have hget : ∀ (f : Nat → K) i, i < 9 → (V9.ofFn f).get i = f i := fun f i hi => V9.get_ofFn f i hi
    simp only [invTier, hn, if_false, hget _ k hk]
    simp

variable (n : Nat) (prop : Mat K → Nat → K) (c : ι)

theorem paintInv_cover (v : V9 K) (o : SObj ι K) (h : covers o c = true) :
    paintInv n prop c v o = V9.ofFn (invTier n (tierVal n (prop o.mat))) := by
  simp only [covers, Bool.and_eq_true, Bool.or_eq_true] at h
  obtain ⟨hb, hm⟩ := h
  unfold paintInv
  rw [if_pos hb]
  by_cases hu : o.uniform = true
  · rw [if_pos hu]
  · have hmask : o.mask c = true := by
      rcases hm with h | h
      · exact absurd h hu
      · exact h
    rw [if_neg hu]
    simp only [hmask, if_true]
    apply V9.ofFn_congr
    apply invTier_congr
    intro k hk
    rw [V9.get_ofFn _ _ hk]
    ring

theorem paintInv_noncover (v : V9 K) (o : SObj ι K) (h : covers o c = false) (hg : Good n v) :
    paintInv n prop c v o = v := by
  unfold paintInv
  by_cases hb : o.inBox c = true
  · rw [if_pos hb]
    simp only [covers, hb, Bool.true_and, Bool.or_eq_false_iff] at h
    obtain ⟨hu, hm⟩ := h
    simp only [hu, hm, Bool.false_eq_true, if_false]
    have hq : V9.ofFn (fun k => (V9.ofFn (invTier n v.get)).get k
        + (0 : K) * (tierVal n (prop o.mat) k - (V9.ofFn (invTier n v.get)).get k)) = V9.ofFn (invTier n v.get) := by
      apply V9.ofFn_congr
      intro k hk
      rw [V9.get_ofFn _ _ hk]
      ring
    rw [hq]
    exact hg
  · rw [if_neg hb]

/-- **C28 (painter's rule, inverse-stored arrays)**: after the loop over the stably sorted objects, the array value
at a cell is the inverse of the tier value of the material of the covering object with the largest
(placement_order, list index). -/
theorem C28_painter_inv (objs : List (SObj ι K)) (j : Nat) (hw : IsWinner objs c j)
    (hreg : n = 9 → ∀ o ∈ objs, covers o c = true → det3 (tierVal n (prop o.mat)) ≠ 0) :
    paintAll (paintInv n prop) objs c = V9.ofFn (invTier n (tierVal n (prop (objs[j]'hw.1).mat))) := by
  -- restrict the targets to members of the list so that `hreg` applies: work with a membership-guarded `good`
  have key := paintAll_winner (paintInv n prop)
    (fun o => V9.ofFn (invTier n (tierVal n (prop o.mat)))) (Good n) c
    (fun v o h => paintInv_cover n prop c v o h)
    (fun v o h hg => paintInv_noncover n prop c v o h hg)
  by_cases hn : n = 9
  · -- tier 9: regularity only for members; replace non-members' materials is unnecessary because `foldl` only
    -- ever sees members.  Route through a list-relative version of the fold lemma.
    have hne := filter_ne_nil_of_cover objs c j hw.1 hw.2.1
    unfold paintAll
    rw [foldl_paintArr]
    have hmemgood : ∀ o ∈ sortObjs objs, covers o c = true →
        Good n (V9.ofFn (invTier n (tierVal n (prop o.mat)))) := by
      intro o ho hc
      exact good_of_tierVal n _ (fun h9 => hreg h9 o (List.mem_mergeSort.mp ho) hc)
    -- generic fold over a list with member-relative goodness
    have gen : ∀ (L : List (SObj ι K)) (s : V9 K)
        (_ : ∀ o ∈ L, covers o c = true → Good n (V9.ofFn (invTier n (tierVal n (prop o.mat)))))
        (h : L.filter (fun o => covers o c) ≠ []),
        L.foldl (fun v o => paintInv n prop c v o) s
          = V9.ofFn (invTier n (tierVal n (prop ((L.filter (fun o => covers o c)).getLast h).mat))) := by
      intro L
      induction L with
      | nil => intro s _ h; exact absurd rfl h
      | cons x xs ih =>
        intro s hgd h
        rw [List.foldl_cons]
        by_cases hxs : xs.filter (fun o => covers o c) = []
        · have hx : covers x c = true := by
            by_contra hc
            apply h
            simp [hc, hxs]
          have hall : ∀ o ∈ xs, covers o c = false := by
            intro o ho
            have := List.filter_eq_nil_iff.mp hxs o ho
            simpa using this
          rw [paintInv_cover n prop c s x hx,
            foldl_noncover (fun v o => paintInv n prop c v o) (fun o => covers o c) (Good n)
              (fun v o h hg => paintInv_noncover n prop c v o h hg) xs _ hall (hgd x (by simp) hx)]
          congr 3
          simp [hx, hxs]
        · rw [ih (paintInv n prop c s x) (fun o ho hc => hgd o (by simp [ho]) hc) hxs]
          congr 3
          by_cases hx : covers x c = true
          · simp only [List.filter_cons, hx, if_true]
            rw [List.getLast_cons hxs]
          · simp [hx]
    rw [gen _ _ hmemgood hne]
    obtain ⟨j', hw', heq⟩ := sorted_last_cover objs c hne
    have : j' = j := C28_winner_unique objs c j' j hw' hw
    subst this
    rw [heq]
  · exact key (fun o _ => good_of_tierVal n _ (fun h9 => absurd h9 hn)) objs j hw

variable (sp : K)

theorem paintCond_cover (v : V9 K) (o : SObj ι K) (h : covers o c = true) :
    paintCond n sp prop c v o = V9.ofFn (fun k => tierVal n (prop o.mat) k * sp) := by
  simp only [covers, Bool.and_eq_true, Bool.or_eq_true] at h
  obtain ⟨hb, hm⟩ := h
  unfold paintCond
  rw [if_pos hb]
  by_cases hu : o.uniform = true
  · rw [if_pos hu]
  · have hmask : o.mask c = true := by
      rcases hm with h | h
      · exact absurd h hu
      · exact h
    rw [if_neg hu]
    simp only [hmask, if_true]
    apply V9.ofFn_congr
    intro k _
    ring

theorem paintCond_noncover (v : V9 K) (o : SObj ι K) (h : covers o c = false) :
    paintCond n sp prop c v o = v := by
  unfold paintCond
  by_cases hb : o.inBox c = true
  · rw [if_pos hb]
    simp only [covers, hb, Bool.true_and, Bool.or_eq_false_iff] at h
    obtain ⟨hu, hm⟩ := h
    simp only [hu, hm, Bool.false_eq_true, if_false]
    have : V9.ofFn (fun k => v.get k + (0 : K) * (tierVal n (prop o.mat) k * sp - v.get k)) = V9.ofFn v.get := by
      apply V9.ofFn_congr
      intro k _
      ring
    rw [this, V9.ofFn_get]
  · rw [if_neg hb]

/-- **C28 (painter's rule, conductivities)**: the conductivity array at a cell is the tier value of the winner's
conductivity times the reference spacing. -/
theorem C28_painter_cond (objs : List (SObj ι K)) (j : Nat) (hw : IsWinner objs c j) :
    paintAll (paintCond n sp prop) objs c = V9.ofFn (fun k => tierVal n (prop (objs[j]'hw.1).mat) k * sp) :=
  paintAll_winner (paintCond n sp prop) (fun o => V9.ofFn (fun k => tierVal n (prop o.mat) k * sp)) (fun _ => True) c
    (fun v o h => paintCond_cover n prop c sp v o h)
    (fun v o h _ => paintCond_noncover n prop c sp v o h)
    (fun _ _ => trivial) objs j hw

end field

/-! ### permittivity with the per-object sub-pixel switch -/
section eps
variable {ι K : Type} [Field K]

/-- what a covering object leaves at a cell: its tier value, or — for a smoothed multi-material object — its xx
entry on every stored component (binary fill: the Farjadpour blend collapses to the bulk value) -/
def tgtEps (n : Nat) (o : SObj ι K) : V9 K :=
  if o.smooth && !o.uniform then V9.ofFn (invTier n (fun _ => tierVal n o.mat.eps 0))
  else V9.ofFn (invTier n (tierVal n o.mat.eps))

theorem good_of_ne9 (n : Nat) (hn : n ≠ 9) (f : Nat → K) : Good n (V9.ofFn (invTier n f)) := by
  unfold Good
  apply V9.ofFn_congr
  intro k hk
  have hget : ∀ (g : Nat → K) i, i < 9 → (V9.ofFn g).get i = g i := fun g i hi => V9.get_ofFn g i hi
  simp only [invTier, hn, if_false, hget _ k hk]
  simp

variable (n : Nat) (c : ι)

theorem paintEps_cover (v : V9 K) (o : SObj ι K) (hn : (o.smooth && !o.uniform) = true → n ≠ 9)
    (h : covers o c = true) : paintEps n c v o = tgtEps n o := by
  unfold paintEps tgtEps
  by_cases hs : (o.smooth && !o.uniform) = true
  · have hn9 : n ≠ 9 := hn hs
    simp only [hs, if_true]
    simp only [Bool.and_eq_true, Bool.not_eq_true'] at hs
    simp only [covers, Bool.and_eq_true, Bool.or_eq_true, hs.2, Bool.false_eq_true, false_or] at h
    simp only [h.1, h.2, if_true]
    apply V9.ofFn_congr
    intro k hk
    have hget : ∀ (g : Nat → K) i, i < 9 → (V9.ofFn g).get i = g i := fun g i hi => V9.get_ofFn g i hi
    simp only [invTier, hn9, if_false, hget _ k hk]
    congr 1
    simp
  · simp only [hs, Bool.false_eq_true, if_false]
    exact paintInv_cover n _ c v o h

theorem paintEps_noncover (v : V9 K) (o : SObj ι K) (h : covers o c = false) (hg : Good n v)
    (hfoot : (o.smooth && !o.uniform) = true → o.inBox c = true → o.mask c = true) :
    paintEps n c v o = v := by
  unfold paintEps
  by_cases hs : (o.smooth && !o.uniform) = true
  · simp only [hs, if_true]
    by_cases hb : o.inBox c = true
    · exfalso
      have hm := hfoot hs hb
      simp [covers, hb, hm] at h
    · rw [if_neg hb]
  · simp only [hs, Bool.false_eq_true, if_false]
    exact paintInv_noncover n _ c v o h hg

/-- **C28 (painter's rule for the permittivity, per-object smoothing switch)**.  `hfoot`: the cell does not lie in
the part of a smoothed object's grid slice that the object does not cover (there the blend overwrites yy/zz of
whatever lies underneath with its xx entry — the code warns about it).  Then the value is the winner's, decided by
the winner's own flag only. -/
theorem C28_painter_eps (objs : List (SObj ι K)) (j : Nat) (hw : IsWinner objs c j)
    (hn : n = 9 → ∀ o ∈ objs, (o.smooth && !o.uniform) = false)
    (hreg : n = 9 → ∀ o ∈ objs, covers o c = true → det3 (tierVal n o.mat.eps) ≠ 0)
    (hfoot : ∀ o ∈ objs, (o.smooth && !o.uniform) = true → o.inBox c = true → o.mask c = true) :
    paintAll (paintEps n) objs c = tgtEps n (objs[j]'hw.1) := by
  have hne := filter_ne_nil_of_cover objs c j hw.1 hw.2.1
  have hmem : ∀ o, o ∈ sortObjs objs → o ∈ objs := fun o ho => List.mem_mergeSort.mp ho
  unfold paintAll
  rw [foldl_paintArr,
    foldl_last_cover_mem (fun v o => paintEps n c v o) (fun o => covers o c) (tgtEps n) (Good n) _ _ ?_ ?_ ?_ hne]
  · obtain ⟨j', hw', heq⟩ := sorted_last_cover objs c hne
    have : j' = j := C28_winner_unique objs c j' j hw' hw
    subst this
    rw [heq]
  · -- covering members
    intro o ho v hc
    refine paintEps_cover n c v o ?_ hc
    intro hs h9
    rw [hn h9 o (hmem o ho)] at hs
    exact absurd hs (by simp)
  · intro o ho v hc hg
    exact paintEps_noncover n c v o hc hg (hfoot o (hmem o ho))
  · intro o ho hc
    unfold tgtEps
    by_cases hs : (o.smooth && !o.uniform) = true
    · have h9 : n ≠ 9 := by
        intro h9
        rw [hn h9 o (hmem o ho)] at hs
        exact absurd hs (by simp)
      simp only [hs, if_true]
      exact good_of_ne9 n h9 _
    · simp only [hs, Bool.false_eq_true, if_false]
      exact good_of_tierVal n _ (fun h9 => hreg h9 o (hmem o ho) hc)

/-- **C28 (un-smoothed objects are exact)**: if the winner of the cell does not request smoothing, the cell carries
exactly the winner's material at the scene's tier, component by component — whatever the other objects request. -/
theorem C28_unsmoothed_exact (objs : List (SObj ι K)) (j : Nat) (hw : IsWinner objs c j)
    (hn : n = 9 → ∀ o ∈ objs, (o.smooth && !o.uniform) = false)
    (hreg : n = 9 → ∀ o ∈ objs, covers o c = true → det3 (tierVal n o.mat.eps) ≠ 0)
    (hfoot : ∀ o ∈ objs, (o.smooth && !o.uniform) = true → o.inBox c = true → o.mask c = true)
    (hj : ((objs[j]'hw.1).smooth && !(objs[j]'hw.1).uniform) = false) :
    paintAll (paintEps n) objs c = V9.ofFn (invTier n (tierVal n (objs[j]'hw.1).mat.eps)) := by
  rw [C28_painter_eps n c objs j hw hn hreg hfoot, tgtEps, hj]
  simp

omit [Field K] in
/-- cells outside every smoothed object's grid slice satisfy `hfoot` trivially -/
theorem hfoot_of_outside (objs : List (SObj ι K))
    (hout : ∀ o ∈ objs, (o.smooth && !o.uniform) = true → o.inBox c = false) :
    ∀ o ∈ objs, (o.smooth && !o.uniform) = true → o.inBox c = true → o.mask c = true := by
  intro o ho hs hb
  rw [hout o ho hs] at hb
  exact absurd hb (by simp)

end eps

/-! ### the arrays `_init_arrays` returns -/
section arrays
variable {ι K : Type} [Field K] (close : K → K → Bool) (cc dt cn : K)
  (objs : List (SObj ι K)) (devs : List (Mat K))

/-- any smoothed (multi-material) object forces three permittivity components; otherwise the count is `tierOf` -/
theorem C28_nEps_smooth :
    (initArrays close cc dt cn objs devs).nEps
      = if objs.any (fun o => o.smooth && !o.uniform) then 3
        else tierOf close ((allMats objs devs).map (·.eps)) := rfl

/-- inverse permittivity: stored components at a cell = those of the winner (`tgtEps`: the inverse of its tier value,
or of its xx entry when the winner itself is smoothed), for every cell outside the uncovered part of smoothed slices -/
theorem C28_initArrays_invEps (c : ι) (j : Nat) (hw : IsWinner objs c j)
    (hreg : (initArrays close cc dt cn objs devs).nEps = 9 → ∀ o ∈ objs, covers o c = true → det3 o.mat.eps ≠ 0)
    (hfoot : ∀ o ∈ objs, (o.smooth && !o.uniform) = true → o.inBox c = true → o.mask c = true) :
    (initArrays close cc dt cn objs devs).invEps c
      = tgtEps (initArrays close cc dt cn objs devs).nEps (objs[j]'hw.1) := by
  refine C28_painter_eps _ c objs j hw ?_ ?_ hfoot
  · -- nine components only arise without smoothed objects
    intro h9 o ho
    split at h9
    · exact absurd h9 (by decide)
    · rename_i hany
      by_contra hso
      apply hany
      exact List.any_eq_true.mpr ⟨o, ho, by simpa using hso⟩
  · intro h9 o ho hc
    have : tierVal 9 o.mat.eps = o.mat.eps := by simp [tierVal]
    rw [h9, this]
    exact hreg h9 o ho hc

/-- inverse permeability, when the scene is magnetic -/
theorem C28_initArrays_invMu (c : ι) (j : Nat) (hw : IsWinner objs c j)
    (n : Nat) (hreg : n = 9 → ∀ o ∈ objs, covers o c = true → det3 o.mat.mu ≠ 0) (arr : ι → V9 K) (h : (initArrays close cc dt cn objs devs).invMu = some (n, arr)) :
    arr c = V9.ofFn (invTier n (tierVal n (objs[j]'hw.1).mat.mu)) := by
  simp only [initArrays] at h
  split at h
  · exact absurd h (by simp)
  · simp only [Option.some.injEq, Prod.mk.injEq] at h
    obtain ⟨hn, harr⟩ := h
    subst hn
    rw [← harr]
    refine C28_painter_inv _ _ c objs j hw ?_
    intro h9 o ho hc
    have : tierVal 9 o.mat.mu = o.mat.mu := by simp [tierVal]
    rw [h9, this]
    exact hreg h9 o ho hc

/-- electric conductivity, when some material conducts: σ_winner × c·dt/courant -/
theorem C28_initArrays_sigE (c : ι) (j : Nat) (hw : IsWinner objs c j)
    (n : Nat) (arr : ι → V9 K) (h : (initArrays close cc dt cn objs devs).sigE = some (n, arr)) :
    arr c = V9.ofFn (fun k => tierVal n (objs[j]'hw.1).mat.sigE k * condSpacing cc dt cn) := by
  simp only [initArrays] at h
  split at h
  · exact absurd h (by simp)
  · simp only [Option.some.injEq, Prod.mk.injEq] at h
    obtain ⟨hn, harr⟩ := h
    subst hn
    rw [← harr]
    exact C28_painter_cond _ _ c _ objs j hw

theorem C28_initArrays_sigM (c : ι) (j : Nat) (hw : IsWinner objs c j)
    (n : Nat) (arr : ι → V9 K) (h : (initArrays close cc dt cn objs devs).sigM = some (n, arr)) :
    arr c = V9.ofFn (fun k => tierVal n (objs[j]'hw.1).mat.sigM k * condSpacing cc dt cn) := by
  simp only [initArrays] at h
  split at h
  · exact absurd h (by simp)
  · simp only [Option.some.injEq, Prod.mk.injEq] at h
    obtain ⟨hn, harr⟩ := h
    subst hn
    rw [← harr]
    exact C28_painter_cond _ _ c _ objs j hw

/-- **C28 (scalar permeability)**: the permeability is the scalar 1 (no array) exactly when no material of the
scene — static objects, unused dict entries and devices included — is magnetic. -/
theorem C28_nonmagnetic_scalar :
    (initArrays close cc dt cn objs devs).invMu = none ↔
      ∀ m ∈ allMats objs devs, isUnit close m.mu = true := by
  simp only [initArrays]
  constructor
  · intro h
    split at h
    · rename_i hall
      simpa [List.all_eq_true] using hall
    · exact absurd h (by simp)
  · intro h
    rw [if_pos (by simpa [List.all_eq_true] using h)]

/-- no conductivity array exactly when no material conducts -/
theorem C28_nonconductive_none :
    ((initArrays close cc dt cn objs devs).sigE = none ↔ ∀ m ∈ allMats objs devs, isNull close m.sigE = true)
    ∧ ((initArrays close cc dt cn objs devs).sigM = none ↔ ∀ m ∈ allMats objs devs, isNull close m.sigM = true) := by
  simp only [initArrays]
  refine ⟨⟨?_, ?_⟩, ⟨?_, ?_⟩⟩
  · intro h
    split at h
    · rename_i hall; simpa [List.all_eq_true] using hall
    · exact absurd h (by simp)
  · intro h
    rw [if_pos (by simpa [List.all_eq_true] using h)]
  · intro h
    split at h
    · rename_i hall; simpa [List.all_eq_true] using hall
    · exact absurd h (by simp)
  · intro h
    rw [if_pos (by simpa [List.all_eq_true] using h)]

end arrays

/-! ### component counts -/
section tiers
variable {α : Type} [OfNat α 0] (close : α → α → Bool)

/-- the narrowest tier one tensor needs -/
def need (p : Nat → α) : Nat := if isIso close p then 1 else if isDiag close p then 3 else 9

theorem isDiag_of_isIso (p : Nat → α) (h : isIso close p = true) : isDiag close p = true := by
  simp only [isIso, Bool.and_eq_true] at h
  exact h.2

/-- **C28 (tier cases)** -/
theorem C28_tier_cases (ps : List (Nat → α)) :
    (tierOf close ps = 1 ↔ ∀ p ∈ ps, isIso close p = true) ∧
    (tierOf close ps = 3 ↔ (¬ ∀ p ∈ ps, isIso close p = true) ∧ ∀ p ∈ ps, isDiag close p = true) ∧
    (tierOf close ps = 9 ↔ ¬ ∀ p ∈ ps, isDiag close p = true) := by
  unfold tierOf
  by_cases h1 : ps.all (isIso close) = true
  · have h1' : ∀ p ∈ ps, isIso close p = true := by simpa [List.all_eq_true] using h1
    have hd : ∀ p ∈ ps, isDiag close p = true := fun p hp => isDiag_of_isIso close p (h1' p hp)
    rw [if_pos h1]
    exact ⟨⟨fun _ => h1', fun _ => rfl⟩, ⟨fun h => absurd h (by decide), fun h => absurd h1' h.1⟩,
      ⟨fun h => absurd h (by decide), fun h => absurd hd h⟩⟩
  · have h1' : ¬ ∀ p ∈ ps, isIso close p = true := by simpa [List.all_eq_true] using h1
    by_cases h3 : ps.all (isDiag close) = true
    · have h3' : ∀ p ∈ ps, isDiag close p = true := by simpa [List.all_eq_true] using h3
      rw [if_neg h1, if_pos h3]
      exact ⟨⟨fun h => absurd h (by decide), fun h => absurd h h1'⟩, ⟨fun _ => ⟨h1', h3'⟩, fun _ => rfl⟩,
        ⟨fun h => absurd h (by decide), fun h => absurd h3' h⟩⟩
    · have h3' : ¬ ∀ p ∈ ps, isDiag close p = true := by simpa [List.all_eq_true] using h3
      rw [if_neg h1, if_neg h3]
      exact ⟨⟨fun h => absurd h (by decide), fun h => absurd h h1'⟩,
        ⟨fun h => absurd h (by decide), fun h => absurd h.2 h3'⟩, ⟨fun _ => h3', fun _ => rfl⟩⟩

theorem need_mem (p : Nat → α) : need close p = 1 ∨ need close p = 3 ∨ need close p = 9 := by
  unfold need; split <;> [skip; split] <;> simp

/-- **C28 (component count)**: the count is the widest tier any material needs. -/
theorem C28_tier_widest (ps : List (Nat → α)) :
    (∀ p ∈ ps, need close p ≤ tierOf close ps) ∧
    (tierOf close ps = 1 ∨ ∃ p ∈ ps, need close p = tierOf close ps) := by
  obtain ⟨c1, c3, c9⟩ := C28_tier_cases close ps
  unfold tierOf at *
  by_cases h1 : ps.all (isIso close) = true
  · have h1' : ∀ p ∈ ps, isIso close p = true := by simpa [List.all_eq_true] using h1
    rw [if_pos h1]
    refine ⟨fun p hp => ?_, Or.inl rfl⟩
    simp [need, h1' p hp]
  · have h1' : ¬ ∀ p ∈ ps, isIso close p = true := by simpa [List.all_eq_true] using h1
    by_cases h3 : ps.all (isDiag close) = true
    · have h3' : ∀ p ∈ ps, isDiag close p = true := by simpa [List.all_eq_true] using h3
      simp only [h1, h3, Bool.false_eq_true, if_false, if_true]
      refine ⟨fun p hp => ?_, Or.inr ?_⟩
      · unfold need; split
        · omega
        · simp [h3' p hp]
      · push Not at h1'
        obtain ⟨p, hp, hni⟩ := h1'
        exact ⟨p, hp, by simp [need, hni, h3' p hp]⟩
    · have h3' : ¬ ∀ p ∈ ps, isDiag close p = true := by simpa [List.all_eq_true] using h3
      simp only [h1, h3, Bool.false_eq_true, if_false]
      refine ⟨fun p _ => ?_, Or.inr ?_⟩
      · rcases need_mem close p with h | h | h <;> omega
      · push Not at h3'
        obtain ⟨p, hp, hnd⟩ := h3'
        refine ⟨p, hp, ?_⟩
        have hni : ¬ isIso close p = true := fun h => hnd (isDiag_of_isIso close p h)
        simp [need, hni, hnd]

end tiers

/-! ### the reference spacing -/
section spacing
variable {K : Type} [Field K]

/-- **C28 (conductivity scaling, uniform grid)**: with `dt = courant·h/c` the reference spacing is `h`. -/
theorem C28_cond_spacing_uniform (c courant h : K) (hc : c ≠ 0) (hcn : courant ≠ 0) :
    condSpacing c (courant * h / c) courant = h := by
  unfold condSpacing
  field_simp

/-- rectilinear grid: `courant = cf/√3`, `dt = cf/(c·√S)` with `S = 1/dx² + 1/dy² + 1/dz²`; `s3`, `r` stand for
`√3`, `√S`. -/
theorem C28_cond_spacing_rect (c cf s3 r : K) (hc : c ≠ 0) (hcf : cf ≠ 0) (hs : s3 ≠ 0) (hr : r ≠ 0) :
    condSpacing c (cf / (c * r)) (cf / s3) = s3 / r := by
  unfold condSpacing
  field_simp

end spacing

/-! ### non-vacuity: a concrete scene over ℚ -/
section examples

def isoMat (e : Rat) : Mat Rat :=
  { eps := fun k => if k = 0 ∨ k = 4 ∨ k = 8 then e else 0, mu := fun k => if k = 0 ∨ k = 4 ∨ k = 8 then 1 else 0,
    sigE := fun _ => 0, sigM := fun _ => 0 }

/-- cells 0..3; volume (order -1000) everywhere; a box (order 1) on cells 1,2; a sphere-like masked object
(order 1, listed later) whose box is cells 1..3 and whose mask is cells 2,3 -/
def demo : List (SObj Nat Rat) :=
  [ { order := -1000, uniform := true, inBox := fun _ => true, mask := fun _ => true, mat := isoMat 1, mats := [isoMat 1], smooth := false, nrm2 := fun _ _ => 0 },
    { order := 1, uniform := true, inBox := fun c => c == 1 || c == 2, mask := fun _ => true, mat := isoMat 2, mats := [isoMat 2], smooth := false, nrm2 := fun _ _ => 0 },
    { order := 1, uniform := false, inBox := fun c => c ≥ 1, mask := fun c => c ≥ 2, mat := isoMat 4, mats := [isoMat 4], smooth := false, nrm2 := fun _ _ => 0 } ]

example : IsWinner demo 2 2 := ⟨by decide, by decide, by
  intro k hk _
  have : k < 3 := hk
  interval_cases k <;> simp [demo]⟩
example : IsWinner demo 1 1 := ⟨by decide, by decide, by
  intro k hk hc
  have : k < 3 := hk
  interval_cases k
  · simp [demo]
  · simp [demo]
  · simp [demo, covers] at hc⟩
-- the scene is isotropic: one stored component
theorem demo_nEps : (initArrays (fun a b : Rat => decide (a = b)) 3 1 2 demo []).nEps = 1 := by decide +kernel
-- the theorem applies and gives the painter's rule on this scene: cell 2 holds 1/4 (the later object of the tie),
-- cell 1 holds 1/2 (the masked object does not cover it)
example : ((initArrays (fun a b : Rat => decide (a = b)) 3 1 2 demo []).invEps 2).get 0 = 1 / 4 := by
  have hw : IsWinner demo 2 2 := ⟨by decide, by decide, by
    intro k hk _
    have : k < 3 := hk
    interval_cases k <;> simp [demo]⟩
  rw [C28_initArrays_invEps _ 3 1 2 demo [] 2 2 hw (fun h9 => absurd h9 (by rw [demo_nEps]; decide))
    (by intro o ho hs; simp [demo] at ho; rcases ho with rfl | rfl | rfl <;> simp at hs), demo_nEps]
  simp [tgtEps, V9.get_ofFn, invTier, tierVal, demo, isoMat]
/-- a scene with the per-object switch: a smoothed object on cell 1 (slice = mask), an UN-smoothed birefringent object
on cell 2 -/
def diagMat (a b d : Rat) : Mat Rat :=
  { eps := fun k => if k = 0 then a else if k = 4 then b else if k = 8 then d else 0,
    mu := fun k => if k = 0 ∨ k = 4 ∨ k = 8 then 1 else 0, sigE := fun _ => 0, sigM := fun _ => 0 }

def demoS : List (SObj Nat Rat) :=
  [ { order := -1000, uniform := true, inBox := fun _ => true, mask := fun _ => true, mat := isoMat 1, mats := [isoMat 1],
      smooth := false, nrm2 := fun _ _ => 0 },
    { order := 0, uniform := false, inBox := fun c => c == 1, mask := fun c => c == 1, mat := isoMat 5, mats := [isoMat 5],
      smooth := true, nrm2 := fun _ _ => 0 },
    { order := 0, uniform := false, inBox := fun c => c == 2, mask := fun c => c == 2, mat := diagMat 2 3 4,
      mats := [diagMat 2 3 4], smooth := false, nrm2 := fun _ _ => 0 } ]

theorem demoS_nEps : (initArrays (fun a b : Rat => decide (a = b)) 3 1 2 demoS []).nEps = 3 := by decide +kernel

-- the un-smoothed object keeps xx, yy, zz separately although another object of the scene is smoothed
example : (List.range 3).map ((initArrays (fun a b : Rat => decide (a = b)) 3 1 2 demoS []).invEps 2).get
    = [1 / 2, 1 / 3, 1 / 4] := by
  have hw : IsWinner demoS 2 2 := ⟨by decide, by decide, by
    intro k hk _
    have : k < 3 := hk
    interval_cases k <;> simp [demoS]⟩
  have hfoot : ∀ o ∈ demoS, (o.smooth && !o.uniform) = true → o.inBox 2 = true → o.mask 2 = true := by
    intro o ho hs hb
    simp [demoS] at ho
    rcases ho with rfl | rfl | rfl <;> simp_all
  rw [C28_initArrays_invEps _ 3 1 2 demoS [] 2 2 hw (fun h9 => absurd h9 (by rw [demoS_nEps]; decide)) hfoot, demoS_nEps]
  simp [tgtEps, demoS, V9.get_ofFn, invTier, tierVal, diagMat, List.range, List.range.loop]

example : det3 (isoMat 2).eps ≠ 0 := by decide +kernel

end examples

end Fdtdx.C28
